(* Proofs about the model Pure/Chunks.v (property C36). *)
From Coq Require Import ZArith List Bool Lia ZifyBool Permutation Sorted.
From BV Require Import Base.Prelude Pure.Chunks.
Import ListNotations.
Local Open Scope Z_scope.

(* ================================================================== part A: concatenate *)

Definition key_le (a b : datum) : Prop := istart a <= istart b.
Definition key_lt (a b : datum) : Prop := istart a < istart b.

Lemma all_same_spec f ds : all_same f ds = true <-> same_on f ds.
Proof.
  unfold same_on. destruct ds as [|d r]; cbn.
  - split; [intros _ x y [] | reflexivity].
  - rewrite forallb_forall. split.
    + intros H x y Hx Hy.
      assert (E : forall z, d = z \/ In z r -> f z = f d).
      { intros z [<-|Hz]; [reflexivity|]. apply N.eqb_eq. now apply H. }
      rewrite (E x Hx), (E y Hy). reflexivity.
    + intros H x Hx. apply N.eqb_eq. apply H; [now right | now left].
Qed.

Lemma same_on_perm f l l' : Permutation l l' -> same_on f l -> same_on f l'.
Proof.
  intros P H x y Hx Hy. apply H; eapply Permutation_in; try apply Permutation_sym; eauto.
Qed.

Lemma all_same_perm f l l' : Permutation l l' -> all_same f l = all_same f l'.
Proof.
  intros P. destruct (all_same f l) eqn:E1, (all_same f l') eqn:E2; try reflexivity.
  - apply all_same_spec in E1. apply (same_on_perm f _ _ P) in E1. apply all_same_spec in E1. congruence.
  - apply all_same_spec in E2. apply (same_on_perm f _ _ (Permutation_sym P)) in E2.
    apply all_same_spec in E2. congruence.
Qed.

Lemma insert_perm d l : Permutation (insert d l) (d :: l).
Proof.
  induction l as [|y l IH]; cbn; [reflexivity|].
  destruct (istart d <=? istart y) eqn:E; [reflexivity|].
  rewrite IH. apply perm_swap.
Qed.

Lemma isort_perm ds : Permutation (isort ds) ds.
Proof.
  induction ds as [|d r IH]; cbn; [constructor|].
  rewrite insert_perm. now constructor.
Qed.

Lemma insert_sorted d l : StronglySorted key_le l -> StronglySorted key_le (insert d l).
Proof.
  induction l as [|y l IH]; intros S; cbn.
  - repeat constructor.
  - inversion S as [|? ? S' F]; subst.
    destruct (istart d <=? istart y) eqn:E.
    + constructor; [exact S|]. constructor; [unfold key_le; lia|].
      eapply Forall_impl; [|exact F]. unfold key_le; intros; lia.
    + constructor; [now apply IH|].
      eapply Permutation_Forall; [apply Permutation_sym, insert_perm|].
      constructor; [unfold key_le; lia | exact F].
Qed.

Lemma isort_sorted ds : StronglySorted key_le (isort ds).
Proof.
  induction ds as [|d r IH]; cbn; [constructor | now apply insert_sorted].
Qed.

(* stability: the elements of any one key keep their input order *)
Lemma insert_filter k d l :
  filter (fun x => istart x =? k) (insert d l) = filter (fun x => istart x =? k) (d :: l).
Proof.
  induction l as [|y l IH]; [reflexivity|].
  cbn [insert]. destruct (istart d <=? istart y) eqn:E; [reflexivity|].
  cbn [filter] in *. rewrite IH.
  destruct (istart y =? k) eqn:Ey, (istart d =? k) eqn:Ed; try reflexivity. lia.
Qed.

Lemma isort_stable k ds :
  filter (fun x => istart x =? k) (isort ds) = filter (fun x => istart x =? k) ds.
Proof.
  induction ds as [|d r IH]; [reflexivity|].
  cbn [isort fold_right]. fold (isort r). rewrite insert_filter. cbn [filter]. now rewrite IH.
Qed.

Lemma adjacent_chain l : adjacent l = true <-> chain l.
Proof.
  induction l as [|d1 l IH]; [cbn; tauto|].
  destruct l as [|d2 r]; [cbn; tauto|].
  change (adjacent (d1 :: d2 :: r)) with ((istop d1 =? istart d2) && adjacent (d2 :: r)).
  change (chain (d1 :: d2 :: r)) with (istop d1 = istart d2 /\ chain (d2 :: r)).
  rewrite andb_true_iff, Z.eqb_eq. tauto.
Qed.

(* a weakly sorted list that is a permutation of a strictly sorted one is that list *)
Lemma sorted_perm_unique l1 : forall l2,
  StronglySorted key_le l1 -> StronglySorted key_lt l2 -> Permutation l1 l2 -> l1 = l2.
Proof.
  induction l1 as [|a l1 IH]; intros l2 S1 S2 P.
  - apply Permutation_nil in P. now subst.
  - destruct l2 as [|b l2]; [apply Permutation_sym, Permutation_nil in P; discriminate|].
    inversion S1 as [|? ? S1' F1]; subst. inversion S2 as [|? ? S2' F2]; subst.
    rewrite Forall_forall in F1, F2.
    assert (Ha : In a (b :: l2)) by (eapply Permutation_in; [exact P | now left]).
    assert (Hb : In b (a :: l1)) by (eapply Permutation_in; [apply Permutation_sym; exact P | now left]).
    assert (E : a = b).
    { destruct Ha as [->|Ha]; [reflexivity|]. apply F2 in Ha. unfold key_lt in Ha.
      destruct Hb as [->|Hb]; [reflexivity|]. apply F1 in Hb. unfold key_le in Hb. lia. }
    subst b. f_equal. apply IH; auto. eapply Permutation_cons_inv; exact P.
Qed.

Lemma chain_strict l : chain l -> wf_strict l -> StronglySorted key_lt l.
Proof.
  induction l as [|d1 [|d2 r] IH]; intros C W.
  - constructor.
  - repeat constructor.
  - destruct C as [E C].
    assert (S : StronglySorted key_lt (d2 :: r)).
    { apply IH; [exact C|]. intros d Hd. apply W. now right. }
    constructor; [exact S|].
    assert (L12 : key_lt d1 d2).
    { unfold key_lt. rewrite <- E. apply W. now left. }
    constructor; [exact L12|].
    inversion S as [|? ? _ F]; subst.
    eapply Forall_impl; [|exact F]. unfold key_lt in *. intros; lia.
Qed.

Lemma wf_strict_perm l l' : Permutation l l' -> wf_strict l -> wf_strict l'.
Proof. intros P W d Hd. apply W. eapply Permutation_in; [apply Permutation_sym; exact P | exact Hd]. Qed.

Lemma chain_isort ds c : wf_strict ds -> Permutation ds c -> chain c -> isort ds = c.
Proof.
  intros W P C. apply sorted_perm_unique.
  - apply isort_sorted.
  - apply chain_strict; [exact C | eapply wf_strict_perm; eauto].
  - rewrite isort_perm. exact P.
Qed.

Lemma isort_nil ds : isort ds = [] -> ds = [].
Proof.
  intros E. pose proof (isort_perm ds) as P. rewrite E in P. now apply Permutation_nil in P.
Qed.

(* the shape of [concatenate] on lists that are not singletons *)
Definition concat_general (ds : list datum) : res datum :=
  if negb (all_same descr ds) then Err ValueError
  else if negb (all_same sres ds) then Err ValueError
  else let s := isort ds in
    if negb (adjacent s) then Err ValueError
    else match s with
         | [] => Err IndexError
         | f :: _ => let l := last s f in
           Ok (mkDatum (uid l) (descr l) (sres l) (istart f) (istop l) (sstart f) (sstop l))
         end.

Lemma concatenate_general ds : length ds <> 1%nat -> concatenate ds = concat_general ds.
Proof. destruct ds as [|a [|b r]]; cbn [length]; intros H; try reflexivity. congruence. Qed.

Lemma concat_nil : concatenate [] = Err IndexError.
Proof. reflexivity. Qed.

Lemma concat_single d : concatenate [d] = Ok d.
Proof. reflexivity. Qed.

Lemma concat_accepts_unconditional ds : (2 <= length ds)%nat ->
  ((exists r, concatenate ds = Ok r) <->
     same_on descr ds /\ same_on sres ds /\ chain (isort ds)) /\
  (forall e, concatenate ds = Err e -> e = ValueError).
Proof.
  intros L. rewrite concatenate_general by lia. unfold concat_general.
  rewrite <- !all_same_spec, <- adjacent_chain.
  destruct (all_same descr ds) eqn:E1; cbn [negb].
  2:{ split; [split; [intros [r H]; discriminate | intros (H & _); discriminate] | intros e H; congruence]. }
  destruct (all_same sres ds) eqn:E2; cbn [negb].
  2:{ split; [split; [intros [r H]; discriminate | intros (_ & H & _); discriminate] | intros e H; congruence]. }
  destruct (adjacent (isort ds)) eqn:E3; cbn [negb].
  2:{ split; [split; [intros [r H]; discriminate | intros (_ & _ & H); discriminate] | intros e H; congruence]. }
  destruct (isort ds) as [|f s] eqn:Es.
  - apply isort_nil in Es. subst ds. cbn in L. lia.
  - split; [split; [auto | intros _; eexists; reflexivity] | intros e H; discriminate].
Qed.

Lemma concat_accepts_iff ds : (2 <= length ds)%nat -> wf_strict ds ->
  ((exists r, concatenate ds = Ok r) <->
     same_on descr ds /\ same_on sres ds /\ exists c, Permutation ds c /\ chain c).
Proof.
  intros L W. rewrite (proj1 (concat_accepts_unconditional ds L)).
  split; intros (H1 & H2 & H3); (split; [exact H1 | split; [exact H2|]]).
  - exists (isort ds). split; [apply Permutation_sym, isort_perm | exact H3].
  - destruct H3 as (c & P & C). now rewrite (chain_isort ds c W P C).
Qed.

Lemma isort_perm_invariant ds ds' :
  wf_strict ds -> Permutation ds ds' -> chain (isort ds) -> isort ds' = isort ds.
Proof.
  intros W P C. apply chain_isort; [eapply wf_strict_perm; eauto | | exact C].
  rewrite isort_perm. apply Permutation_sym. exact P.
Qed.

Lemma concat_general_perm ds ds' :
  wf_strict ds -> Permutation ds ds' -> concat_general ds = concat_general ds'.
Proof.
  intros W P. unfold concat_general.
  rewrite <- (all_same_perm descr _ _ P), <- (all_same_perm sres _ _ P).
  destruct (all_same descr ds); cbn [negb]; [|reflexivity].
  destruct (all_same sres ds); cbn [negb]; [|reflexivity].
  destruct (adjacent (isort ds)) eqn:E.
  - pose proof (proj1 (adjacent_chain _) E) as C.
    rewrite (isort_perm_invariant ds ds' W P C), E. reflexivity.
  - destruct (adjacent (isort ds')) eqn:E'; [|reflexivity].
    apply adjacent_chain in E'.
    assert (W' : wf_strict ds') by (eapply wf_strict_perm; eauto).
    rewrite (isort_perm_invariant ds' ds W' (Permutation_sym P) E') in E.
    apply adjacent_chain in E'. congruence.
Qed.

Lemma concat_perm_invariant ds ds' :
  wf_strict ds -> Permutation ds ds' -> concatenate ds = concatenate ds'.
Proof.
  intros W P. pose proof (Permutation_length P) as L.
  destruct (Nat.eq_dec (length ds) 1) as [E|E].
  - destruct ds as [|d [|? ?]]; try discriminate. apply Permutation_length_1_inv in P. now subst.
  - rewrite !concatenate_general by congruence. now apply concat_general_perm.
Qed.

(* ---- the result *)

Lemma last_in (l : list datum) d : l <> [] -> In (last l d) l.
Proof.
  induction l as [|a l IH]; [congruence|]. intros _.
  destruct l as [|b l]; [now left|].
  change (last (a :: b :: l) d) with (last (b :: l) d). right. apply IH. discriminate.
Qed.

Lemma sorted_last_max l dflt :
  StronglySorted key_le l -> forall d, In d l -> istart d <= istart (last l dflt).
Proof.
  induction l as [|a l IH]; intros S d Hd; [destruct Hd|].
  inversion S as [|? ? S' F]; subst.
  destruct l as [|b l].
  - destruct Hd as [->|[]]. cbn. lia.
  - change (last (a :: b :: l) dflt) with (last (b :: l) dflt).
    destruct Hd as [->|Hd]; [|now apply IH].
    rewrite Forall_forall in F. apply (F (last (b :: l) dflt)). apply last_in. discriminate.
Qed.

Lemma chain_last_stop l dflt :
  chain l -> wf_weak l -> forall d, In d l -> istop d <= istop (last l dflt).
Proof.
  induction l as [|a l IH]; intros C W d Hd; [destruct Hd|].
  destruct l as [|b l].
  - destruct Hd as [->|[]]. cbn. lia.
  - change (last (a :: b :: l) dflt) with (last (b :: l) dflt).
    destruct C as [E C].
    assert (W' : wf_weak (b :: l)) by (intros x Hx; apply W; now right).
    destruct Hd as [->|Hd]; [|now apply IH].
    rewrite E. specialize (IH C W' b (or_introl eq_refl)).
    specialize (W' b (or_introl eq_refl)). lia.
Qed.

Lemma concat_result ds r : concatenate ds = Ok r ->
  exists first lst,
    In first ds /\ In lst ds /\
    (forall d, In d ds -> istart first <= istart d <= istart lst) /\
    r = mkDatum (uid lst) (descr lst) (sres lst) (istart first) (istop lst) (sstart first) (sstop lst) /\
    (forall d, In d ds -> descr d = descr r /\ sres d = sres r) /\
    is_min (istart r) (map istart ds) /\
    (wf_weak ds -> is_max (istop r) (map istop ds)).
Proof.
  intros H. destruct (Nat.eq_dec (length ds) 1) as [L|L].
  - destruct ds as [|d [|? ?]]; try discriminate. cbn in H. injection H as <-.
    exists d, d. repeat split.
    + now left.
    + now left.
    + destruct H as [<-|[]]. lia.
    + destruct H as [<-|[]]. lia.
    + now destruct d.
    + destruct H as [<-|[]]. reflexivity.
    + destruct H as [<-|[]]. reflexivity.
    + now left.
    + intros x [<-|[]]. lia.
    + now left.
    + intros x [<-|[]]. lia.
  - rewrite concatenate_general in H by exact L. unfold concat_general in H.
    destruct (all_same descr ds) eqn:E1; cbn [negb] in H; [|discriminate].
    destruct (all_same sres ds) eqn:E2; cbn [negb] in H; [|discriminate].
    destruct (adjacent (isort ds)) eqn:E3; cbn [negb] in H; [|discriminate].
    destruct (isort ds) as [|f s] eqn:Es; [discriminate|].
    cbv beta iota zeta in H.
    assert (Hr : r = let l := last (f :: s) f in
                 mkDatum (uid l) (descr l) (sres l) (istart f) (istop l) (sstart f) (sstop l))
      by congruence.
    clear H. cbv zeta in Hr. subst r.
    apply all_same_spec in E1. apply all_same_spec in E2. apply adjacent_chain in E3.
    pose proof (isort_perm ds) as P. pose proof (isort_sorted ds) as S. rewrite Es in P, S.
    set (lst := last (f :: s) f) in *.
    assert (Hf : In f ds) by (eapply Permutation_in; [exact P | now left]).
    assert (Hl : In lst ds).
    { eapply Permutation_in; [exact P|]. apply last_in. discriminate. }
    assert (Hmin : forall d, In d ds -> istart f <= istart d).
    { intros d Hd. apply (Permutation_in _ (Permutation_sym P)) in Hd.
      inversion S as [|? ? _ F]; subst. rewrite Forall_forall in F.
      destruct Hd as [->|Hd]; [lia | apply (F d Hd)]. }
    assert (Hmax : forall d, In d ds -> istart d <= istart lst).
    { intros d Hd. apply (Permutation_in _ (Permutation_sym P)) in Hd.
      now apply sorted_last_max. }
    exists f, lst. split; [exact Hf|]. split; [exact Hl|].
    split; [intros d Hd; split; [now apply Hmin | now apply Hmax]|].
    split; [reflexivity|].
    split; [intros d Hd; cbn; split; [now apply E1 | now apply E2]|].
    split.
    + split; [cbn; now apply in_map|].
      intros x Hx. apply in_map_iff in Hx as (d & <- & Hd). cbn. now apply Hmin.
    + intros W. split; [cbn; now apply in_map|].
      intros x Hx. apply in_map_iff in Hx as (d & <- & Hd). cbn [istop]. unfold lst.
      apply chain_last_stop; [exact E3 | | ].
      * intros y Hy. apply W. eapply Permutation_in; [exact P | exact Hy].
      * eapply Permutation_in; [apply Permutation_sym; exact P | exact Hd].
Qed.

Lemma concat_seq_minmax ds r : concatenate ds = Ok r -> seq_consistent ds ->
  is_min (sstart r) (map sstart ds) /\ is_max (sstop r) (map sstop ds).
Proof.
  intros H SC. destruct (concat_result ds r H) as (f & l & Hf & Hl & Hb & -> & _).
  cbn. split; split.
  - now apply in_map.
  - intros x Hx. apply in_map_iff in Hx as (d & <- & Hd).
    apply (SC f d Hf Hd). apply (Hb d Hd).
  - now apply in_map.
  - intros x Hx. apply in_map_iff in Hx as (d & <- & Hd).
    apply (SC d l Hd Hl). apply (Hb d Hd).
Qed.

(* ================================================================== part B: list_summands *)

Lemma zsum_app l1 l2 : zsum (l1 ++ l2) = zsum l1 + zsum l2.
Proof. induction l1 as [|a l1 IH]; cbn; [reflexivity|]. unfold zsum in *. cbn. lia. Qed.

Lemma zsum_repeat b n : zsum (repeat b n) = Z.of_nat n * b.
Proof.
  induction n as [|n IH]; [reflexivity|].
  change (repeat b (S n)) with (b :: repeat b n). unfold zsum in *. cbn [fold_right]. lia.
Qed.

Lemma zsum_concat_repeat l n : zsum (concat (repeat l n)) = Z.of_nat n * zsum l.
Proof.
  induction n as [|n IH]; [reflexivity|].
  change (repeat l (S n)) with (l :: repeat l n). cbn [concat]. rewrite zsum_app, IH. lia.
Qed.

Definition summand_base (A b : Z) : list Z :=
  repeat b (Z.to_nat (A / b)) ++ (if A mod b >? 0 then [A mod b] else []).

Lemma list_summands_unfold A b r :
  list_summands A b r =
  match concat (repeat (summand_base A b) (Z.to_nat r)) with [] => [0] | t => t end.
Proof. reflexivity. Qed.

Lemma summand_base_sum A b : 0 < b -> 0 <= A -> zsum (summand_base A b) = A.
Proof.
  intros Hb HA. unfold summand_base. rewrite zsum_app, zsum_repeat.
  pose proof (Z.div_mod A b ltac:(lia)) as E.
  pose proof (Z.mod_pos_bound A b Hb) as M.
  pose proof (Z.div_pos A b HA Hb) as D.
  rewrite Z2Nat.id by exact D.
  destruct (A mod b >? 0) eqn:G; unfold zsum; cbn [fold_right]; lia.
Qed.

Lemma summand_base_bounds A b : 0 < b -> 0 <= A ->
  Forall (fun s => 0 < s <= b) (summand_base A b).
Proof.
  intros Hb HA. unfold summand_base. apply Forall_app. split.
  - apply Forall_forall. intros x Hx. apply repeat_spec in Hx. lia.
  - pose proof (Z.mod_pos_bound A b Hb) as M.
    destruct (A mod b >? 0) eqn:G; constructor; [lia | constructor].
Qed.

Lemma summand_base_nil A b : 0 < b -> 0 <= A -> (summand_base A b = [] <-> A = 0).
Proof.
  intros Hb HA. split.
  - intros E. rewrite <- (summand_base_sum A b Hb HA), E. reflexivity.
  - intros ->. unfold summand_base. rewrite Z.div_0_l, Z.mod_0_l by lia. reflexivity.
Qed.

Lemma concat_repeat_nil {X} n : concat (repeat (@nil X) n) = [].
Proof. induction n as [|n IH]; [reflexivity|]. cbn. exact IH. Qed.

Lemma Forall_concat_repeat {X} (P : X -> Prop) l n :
  Forall P l -> Forall P (concat (repeat l n)).
Proof.
  intros H. induction n as [|n IH]; [constructor|].
  change (repeat l (S n)) with (l :: repeat l n). cbn [concat]. apply Forall_app. now split.
Qed.

Lemma list_summands_spec A b r : 0 < b -> 0 <= A -> 0 <= r ->
  zsum (list_summands A b r) = r * A /\
  (r * A = 0 -> list_summands A b r = [0]) /\
  (r * A <> 0 -> Forall (fun s => 0 < s <= b) (list_summands A b r) /\
                 list_summands A b r = concat (repeat (summand_base A b) (Z.to_nat r))).
Proof.
  intros Hb HA Hr. rewrite list_summands_unfold.
  pose proof (zsum_concat_repeat (summand_base A b) (Z.to_nat r)) as S.
  rewrite summand_base_sum, Z2Nat.id in S by assumption.
  split; [|split].
  - destruct (concat (repeat (summand_base A b) (Z.to_nat r))) eqn:E; [|exact S].
    rewrite <- S. reflexivity.
  - intros Z0. apply Z.mul_eq_0 in Z0 as [-> | ->].
    + reflexivity.
    + rewrite (proj2 (summand_base_nil 0 b Hb (Z.le_refl 0)) eq_refl), concat_repeat_nil. reflexivity.
  - intros NZ.
    destruct (concat (repeat (summand_base A b) (Z.to_nat r))) eqn:E.
    + exfalso. apply NZ. rewrite <- S. reflexivity.
    + rewrite <- E. split; [|reflexivity]. apply Forall_concat_repeat. now apply summand_base_bounds.
Qed.

Lemma list_summands_nonneg A b r : 0 < b -> 0 <= A -> 0 <= r ->
  Forall (fun s => 0 <= s) (list_summands A b r).
Proof.
  intros Hb HA Hr. destruct (list_summands_spec A b r Hb HA Hr) as (_ & Z0 & NZ).
  destruct (Z.eq_dec (r * A) 0) as [E|E].
  - rewrite (Z0 E). repeat constructor. lia.
  - eapply Forall_impl; [|exact (proj1 (NZ E))]. cbn. intros; lia.
Qed.

(* ================================================================== part C: shape / chunks *)

Definition nonneg_list (l : list Z) : Prop := Forall (fun d => 0 <= d) l.
Definition pos_list (l : list Z) : Prop := Forall (fun d => 0 < d) l.
Definition proper_chunks (ch : list (list Z)) : Prop := Forall proper_dim ch.

Lemma list_summands_proper A b r : 0 < b -> 0 <= A -> 0 <= r -> proper_dim (list_summands A b r).
Proof.
  intros Hb HA Hr. destruct (list_summands_spec A b r Hb HA Hr) as (S & Z0 & NZ).
  destruct (Z.eq_dec (r * A) 0) as [E|E]; [left; now apply Z0|].
  right. split.
  - intros N. rewrite N in S. apply E. rewrite <- S. reflexivity.
  - eapply Forall_impl; [|exact (proj1 (NZ E))]. cbn. intros; lia.
Qed.

Lemma summands_zip_cons a sh c cs :
  summands_zip (a :: sh) (c :: cs) = list_summands a c 1 :: summands_zip sh cs.
Proof. reflexivity. Qed.

Lemma summands_zip_spec sh : forall cs,
  nonneg_list sh -> pos_list cs -> length sh = length cs ->
  map zsum (summands_zip sh cs) = sh /\ proper_chunks (summands_zip sh cs).
Proof.
  induction sh as [|a sh IH]; intros [|c cs] Hs Hc L; try discriminate.
  - split; [reflexivity | constructor].
  - inversion Hs as [|? ? Ha Hs']; subst. inversion Hc as [|? ? Hc0 Hc']; subst.
    injection L as L. destruct (IH cs Hs' Hc' L) as [E F].
    rewrite summands_zip_cons. cbn [map].
    destruct (list_summands_spec a c 1 Hc0 Ha ltac:(lia)) as (S & _).
    split.
    + rewrite S, E. f_equal. lia.
    + constructor; [apply list_summands_proper; lia | exact F].
Qed.

Lemma singletons_spec sh : nonneg_list sh ->
  map zsum (map (fun d : Z => [d]) sh) = sh /\ proper_chunks (map (fun d : Z => [d]) sh).
Proof.
  induction sh as [|a sh IH]; intros H; [split; [reflexivity | constructor]|].
  inversion H as [|? ? Ha H']; subst. destruct (IH H') as [E F]. cbn [map]. split.
  - rewrite E. f_equal. unfold zsum. cbn. lia.
  - constructor; [|exact F].
    destruct (Z.eq_dec a 0) as [->|NZ]; [now left|].
    right. split; [discriminate|]. repeat constructor. lia.
Qed.

Lemma Forall_firstn_skipn {X} (P : X -> Prop) k l :
  Forall P l -> Forall P (firstn k l) /\ Forall P (skipn k l).
Proof. intros H. rewrite <- (firstn_skipn k l) in H. now apply Forall_app in H. Qed.

Lemma branch1_spec sh cs : nonneg_list sh -> pos_list cs -> (length cs <= length sh)%nat ->
  let ch := summands_zip (firstn (length cs) sh) cs ++ map (fun d : Z => [d]) (skipn (length cs) sh) in
  map zsum ch = sh /\ proper_chunks ch.
Proof.
  intros Hs Hc L ch. subst ch.
  destruct (Forall_firstn_skipn _ (length cs) sh Hs) as [H1 H2].
  destruct (summands_zip_spec (firstn (length cs) sh) cs H1 Hc) as [E1 F1].
  { now apply firstn_length_le. }
  destruct (singletons_spec _ H2) as [E2 F2].
  split.
  - rewrite map_app, E1, E2. apply firstn_skipn.
  - unfold proper_chunks. apply Forall_app. now split.
Qed.

Lemma shape_nonneg c : nonneg_list (c_dshape c) -> 0 <= c_rows c -> nonneg_list (shape c).
Proof.
  intros Hd Hr. unfold shape, nonneg_list in *.
  destruct (c_join c); [constructor; assumption|].
  destruct (c_dshape c) as [|d0 dt]; [constructor; assumption|].
  inversion Hd as [|? ? H0 Ht]; subst. constructor; [nia | exact Ht].
Qed.

Definition chunks_post (c : cons) : Prop :=
  match chunks c with
  | Ok ch => length ch = length (shape c) /\ map zsum ch = shape c /\ proper_chunks ch /\
             (length (c_chunk c) <= length (shape c))%nat /\ finding_C36_a c = false
  | Err e => (e = ValueError /\ (length (shape c) < length (c_chunk c))%nat) \/
             (e = IndexError /\ finding_C36_a c = true /\ (length (c_chunk c) <= length (shape c))%nat)
  end.

Lemma ok_from_sum c ch cs sh : c_chunk c = cs -> shape c = sh ->
  map zsum ch = sh -> proper_chunks ch -> (length cs <= length sh)%nat ->
  finding_C36_a c = false ->
  length ch = length sh /\ map zsum ch = sh /\ proper_chunks ch /\
  (length cs <= length sh)%nat /\ finding_C36_a c = false.
Proof.
  intros _ _ E F L A. repeat split; try assumption. rewrite <- E. symmetry. apply map_length.
Qed.

Lemma chunks_spec c :
  pos_list (c_chunk c) -> nonneg_list (c_dshape c) -> 0 <= c_rows c -> chunks_post c.
Proof.
  intros Hc Hd Hr. pose proof (shape_nonneg c Hd Hr) as Hs.
  unfold chunks_post, chunks.
  destruct (length (c_chunk c) <=? length (shape c))%nat eqn:K.
  2:{ left. split; [reflexivity|]. now apply Nat.leb_gt in K. }
  apply Nat.leb_le in K.
  destruct (branch1_spec (shape c) (c_chunk c) Hs Hc K) as [B1 B2].
  destruct (c_chunk c) as [|c0 ct] eqn:Ecs.
  - apply (ok_from_sum c _ _ _ Ecs eq_refl); try assumption.
    unfold finding_C36_a. rewrite Ecs. cbn [length Nat.eqb]. apply andb_false_r.
  - destruct (join_beq (c_join c) Stack || join_beq (c_join c) Concat && c_jchunks c) eqn:Cond.
    + apply (ok_from_sum c _ _ _ Ecs eq_refl); try assumption.
      unfold finding_C36_a. destruct (c_join c), (c_jchunks c); cbn in Cond |- *; try reflexivity; discriminate.
    + assert (Ej : c_join c = Concat) by (destruct (c_join c); [discriminate | reflexivity]).
      assert (Ejc : c_jchunks c = false).
      { rewrite Ej in Cond. cbn in Cond. exact Cond. }
      destruct (c_dshape c) as [|d0 dt] eqn:Ed.
      * right. split; [reflexivity|]. split; [|exact K].
        unfold finding_C36_a. rewrite Ej, Ejc, Ed, Ecs.
        unfold shape in K. rewrite Ej, Ed in K. cbn [length] in K.
        assert (L0 : length ct = 0%nat) by lia. cbn [length]. rewrite L0. reflexivity.
      * inversion Hc as [|? ? Hc0 Hct]; subst. inversion Hd as [|? ? Hd0 Hdt]; subst.
        assert (Esh : shape c = c_rows c * d0 :: dt) by (unfold shape; now rewrite Ej, Ed).
        rewrite Esh in *. cbn [length] in K.
        assert (K' : (length ct <= length dt)%nat) by lia.
        cbn [length firstn skipn].
        inversion Hs as [|? ? _ Hs']; subst.
        destruct (branch1_spec dt ct Hs' Hct K') as [C1 C2]. cbv zeta in C1, C2.
        destruct (list_summands_spec d0 c0 (c_rows c) Hc0 Hd0 Hr) as (S & _).
        apply (ok_from_sum c _ _ _ Ecs Esh).
        -- cbn [app map]. rewrite S, C1. reflexivity.
        -- unfold proper_chunks. cbn [app]. constructor; [now apply list_summands_proper | exact C2].
        -- cbn [length]. lia.
        -- unfold finding_C36_a. rewrite Ed. cbn [length Nat.eqb]. rewrite andb_false_r. reflexivity.
Qed.

(* ---- constructor invariants *)

Lemma all_some_map l sh : all_some l = Some sh -> l = map Some sh.
Proof.
  revert sh. induction l as [|[x|] l IH]; intros sh H; cbn in H.
  - injection H as <-. reflexivity.
  - destruct (all_some l) as [r|]; [|discriminate]. injection H as <-. cbn. f_equal. now apply IH.
  - discriminate.
Qed.

Lemma all_some_nonneg l sh :
  all_some l = Some sh -> (forall x, In (Some x) l -> 0 <= x) -> nonneg_list sh.
Proof.
  intros H P. apply all_some_map in H. subst l. apply Forall_forall. intros x Hx.
  apply P. now apply in_map.
Qed.

Lemma apply_mult_nonneg m ds :
  nonneg_list ds -> (forall m', m = Some m' -> 0 <= m') -> nonneg_list (apply_mult m ds).
Proof.
  intros Hd Hm. unfold apply_mult. destruct m as [m|]; [|exact Hd].
  specialize (Hm m eq_refl).
  destruct (m =? 0); [exact Hd|].
  destruct ds as [|d0 dt]; [repeat constructor; exact Hm|].
  inversion Hd as [|? ? H0 Ht]; subst.
  destruct (d0 =? m); [exact Hd|].
  destruct (d0 =? 1); constructor; assumption.
Qed.

Lemma existsb_nonpos_false cs : existsb (fun d => d <=? 0) cs = false -> pos_list cs.
Proof.
  intros H. apply Forall_forall. intros x Hx.
  destruct (x <=? 0) eqn:E; [|lia].
  assert (existsb (fun d => d <=? 0) cs = true) by (apply existsb_exists; eauto). congruence.
Qed.

Definition user_chunk (p : params) : list Z := match p_chunk p with Some l => l | None => [] end.

Record base_inv (p : params) (chunk : option (list Z)) (c : cons) : Prop := {
  bi_kind : c_kind c = p_kind p;
  bi_rows : c_rows c = 0;
  bi_map : c_map c = [];
  bi_assets : c_assets c = 0;
  bi_chunk : c_chunk c = match chunk with Some l => l | None => [] end;
  bi_pos : pos_list (c_chunk c);
  bi_nonneg : params_nonneg p -> nonneg_list (c_dshape c) }.

Lemma base_init_inv p chunk c : base_init p chunk = Ok c -> base_inv p chunk c.
Proof.
  unfold base_init. intros H.
  destruct (all_some (p_shape p)) as [sh|] eqn:Esh.
  2:{ destruct (p_kind p); discriminate. }
  destruct (existsb (fun d => d <=? 0) match chunk with Some c0 => c0 | None => [] end) eqn:Ex.
  { destruct (p_kind p); discriminate. }
  assert (Hc : c = mkCons (p_kind p)
                 (apply_mult (p_mult p) (if lZ_beq sh [1] && join_beq (class_join (p_kind p)) Stack then [] else sh))
                 (match p_join p with Some j => j | None => class_join (p_kind p) end)
                 (match p_jchunks p with Some b => b | None => class_jchunks (p_kind p) end)
                 (match chunk with Some c0 => c0 | None => [] end) 0 [] 0).
  { destruct (p_kind p); try discriminate; congruence. }
  subst c. constructor; cbn; try reflexivity.
  - now apply existsb_nonpos_false.
  - intros [Hs Hm]. apply apply_mult_nonneg; [|exact Hm].
    destruct (lZ_beq sh [1] && join_beq (class_join (p_kind p)) Stack); [constructor|].
    eapply all_some_nonneg; eauto.
Qed.

(* what stays fixed while datums are consumed *)
Definition same_static (c c' : cons) : Prop :=
  c_kind c' = c_kind c /\ c_dshape c' = c_dshape c /\ c_join c' = c_join c /\
  c_jchunks c' = c_jchunks c /\ c_chunk c' = c_chunk c.

(* what consume_stream_datum relies on *)
Definition cons_ok (c : cons) : Prop :=
  pos_list (c_chunk c) /\
  (is_multipart (c_kind c) = true ->
     c_chunk c <> [] /\ (c_join c = Concat -> c_dshape c <> [])).

Lemma multipart_init_inv t c c' : multipart_init t c = Ok c' ->
  c_kind c' = c_kind c /\ c_dshape c' = c_dshape c /\ c_join c' = c_join c /\
  c_jchunks c' = c_jchunks c /\ c_rows c' = c_rows c /\ c_map c' = c_map c /\
  c_assets c' = c_assets c /\
  c_chunk c' = or_one (c_chunk c) /\
  (c_join c' = Concat -> c_dshape c' <> []).
Proof.
  unfold multipart_init. intros H.
  destruct (c_join c) eqn:Ej.
  - destruct t; [|discriminate]. injection H as <-. cbn.
    repeat split; try reflexivity; try congruence.
  - destruct (c_dshape c) as [|d0 dt] eqn:Ed; [discriminate|].
    destruct (d0 mod _ =? 0); [|discriminate].
    destruct t; [|discriminate]. injection H as <-. cbn.
    repeat split; try reflexivity; try congruence.
Qed.

Record construct_inv (p : params) (c : cons) : Prop := {
  ci_ok : cons_ok c;
  ci_kind : c_kind c = p_kind p;
  ci_rows : c_rows c = 0;
  ci_map : c_map c = [];
  ci_nonneg : params_nonneg p -> nonneg_list (c_dshape c);
  ci_chunk : c_kind c <> KNpy -> c_chunk c = user_chunk p \/ c_chunk c = [1] }.

Lemma pos_list_or1 l : pos_list l -> pos_list (or_one l).
Proof. intros H. destruct l; [repeat constructor; lia | exact H]. Qed.

Lemma construct_spec p c : construct p = Ok c -> construct_inv p c.
Proof.
  unfold construct. intros H.
  destruct (p_kind p) eqn:Ek.
  - (* unknown *) unfold base_init in H. rewrite Ek in H. discriminate.
  - (* base *) pose proof (base_init_inv _ _ _ H) as [K R M A C P N]. rewrite Ek in K.
    constructor; try assumption.
    + split; [exact P|]. rewrite K. discriminate.
    + congruence.
    + intros _. left. exact C.
  - (* csv *) destruct (base_init p (p_chunk p)) as [c0|] eqn:B; [|discriminate]. injection H as <-.
    pose proof (base_init_inv _ _ _ B) as [K R M A C P N]. rewrite Ek in K.
    constructor; cbn; try assumption.
    + split; cbn; [exact P|]. rewrite K. discriminate.
    + congruence.
    + intros _. left. exact C.
  - (* hdf5 *) destruct (base_init p (p_chunk p)) as [c0|] eqn:B; [|discriminate]. injection H as <-.
    pose proof (base_init_inv _ _ _ B) as [K R M A C P N]. rewrite Ek in K.
    constructor; cbn; try assumption.
    + split; cbn; [exact P|]. rewrite K. discriminate.
    + congruence.
    + intros _. left. exact C.
  - (* tiff *) destruct (base_init p (p_chunk p)) as [c0|] eqn:B; [|discriminate].
    pose proof (base_init_inv _ _ _ B) as [K R M A C P N].
    apply multipart_init_inv in H as (H1 & H2 & H3 & H4 & H5 & H6 & H7 & H8 & H9).
    constructor.
    + split; [rewrite H8; now apply pos_list_or1|]. intros _. split; [|exact H9].
      rewrite H8. destruct (c_chunk c0); discriminate.
    + congruence.
    + congruence.
    + congruence.
    + rewrite H2. exact N.
    + intros _. rewrite H8, C. fold (user_chunk p). destruct (user_chunk p); [now right | now left].
  - (* jpeg *) destruct (base_init p (p_chunk p)) as [c0|] eqn:B; [|discriminate].
    pose proof (base_init_inv _ _ _ B) as [K R M A C P N].
    apply multipart_init_inv in H as (H1 & H2 & H3 & H4 & H5 & H6 & H7 & H8 & H9).
    constructor.
    + split; [rewrite H8; now apply pos_list_or1|]. intros _. split; [|exact H9].
      rewrite H8. destruct (c_chunk c0); discriminate.
    + congruence.
    + congruence.
    + congruence.
    + rewrite H2. exact N.
    + intros _. rewrite H8, C. fold (user_chunk p). destruct (user_chunk p); [now right | now left].
  - (* npy *)
    destruct (base_init p _) as [c0|] eqn:B; [|discriminate].
    pose proof (base_init_inv _ _ _ B) as [K R M A C P N].
    apply multipart_init_inv in H as (H1 & H2 & H3 & H4 & H5 & H6 & H7 & H8 & H9).
    constructor.
    + split; [rewrite H8; now apply pos_list_or1|]. intros _. split; [|exact H9].
      rewrite H8. destruct (c_chunk c0); discriminate.
    + congruence.
    + congruence.
    + congruence.
    + rewrite H2. exact N.
    + intros NK. exfalso. apply NK. congruence.
Qed.

(* ---- consume *)

Lemma consume_spec c d : cons_ok c ->
  exists c', consume c d = Ok c' /\ same_static c c' /\
             c_rows c' = c_rows c + (istop d - istart d) /\
             c_map c' = map_update (c_map c)
                          (combine (zrange (sstart d) (sstop d)) (zrange (istart d) (istop d))).
Proof.
  intros [P M]. unfold consume.
  destruct (is_multipart (c_kind c)) eqn:Em.
  - destruct (M eq_refl) as [Hc Hd]. unfold files_per_datum.
    destruct (c_join c) eqn:Ej.
    + eexists. split; [reflexivity|]. cbn. repeat split; reflexivity.
    + specialize (Hd eq_refl).
      destruct (c_dshape c) as [|d0 dt]; [congruence|].
      destruct (c_chunk c) as [|c0 ct]; [congruence|].
      eexists. split; [reflexivity|]. cbn. repeat split; reflexivity.
  - eexists. split; [reflexivity|]. cbn. repeat split; reflexivity.
Qed.

Lemma same_static_ok c c' : same_static c c' -> cons_ok c -> cons_ok c'.
Proof.
  intros (K & D & J & JC & C) [P M]. unfold cons_ok. rewrite K, D, J, C. split; assumption.
Qed.

Lemma same_static_refl c : same_static c c.
Proof. repeat split. Qed.

Lemma same_static_trans a b c : same_static a b -> same_static b c -> same_static a c.
Proof.
  intros (K & D & J & JC & C) (K' & D' & J' & JC' & C'). repeat split; congruence.
Qed.

Lemma consume_all_spec ds : forall c, cons_ok c ->
  exists c', consume_all c ds = Ok c' /\ same_static c c' /\
             c_rows c' = c_rows c + zsum (map (fun d => istop d - istart d) ds).
Proof.
  induction ds as [|d r IH]; intros c OK.
  - exists c. split; [reflexivity|]. split; [apply same_static_refl|]. unfold zsum. cbn. lia.
  - destruct (consume_spec c d OK) as (c1 & E1 & S1 & R1 & _).
    destruct (IH c1 (same_static_ok _ _ S1 OK)) as (c' & E' & S' & R').
    exists c'. cbn [consume_all]. rewrite E1. split; [exact E'|].
    split; [eapply same_static_trans; eauto|].
    rewrite R', R1. cbn [map]. unfold zsum. cbn [fold_right]. lia.
Qed.

Lemma zsum_nonneg l : Forall (fun x => 0 <= x) l -> 0 <= zsum l.
Proof. induction 1 as [|x l Hx _ IH]; unfold zsum in *; cbn; lia. Qed.

Lemma rows_nonneg ds : wf_weak ds -> 0 <= zsum (map (fun d => istop d - istart d) ds).
Proof.
  intros W. apply zsum_nonneg. apply Forall_forall. intros x Hx.
  apply in_map_iff in Hx as (d & <- & Hd). specialize (W d Hd). lia.
Qed.

Lemma consume_never_fails p c ds : construct p = Ok c ->
  exists c', consume_all c ds = Ok c' /\ same_static c c' /\
             c_rows c' = zsum (map (fun d => istop d - istart d) ds).
Proof.
  intros H. destruct (construct_spec p c H) as [OK _ R _ _ _].
  destruct (consume_all_spec ds c OK) as (c' & E & S & R'). exists c'. repeat split; try assumption.
  - apply S.
  - apply S.
  - apply S.
  - apply S.
  - apply S.
  - lia.
Qed.

Lemma shape_static c c' : same_static c c' -> c_rows c' = c_rows c -> shape c' = shape c.
Proof. intros (K & D & J & JC & C) R. unfold shape. now rewrite D, J, R. Qed.

(* T5, exact form (finding classes included) *)
Lemma chunks_exact p c ds c' :
  params_nonneg p -> construct p = Ok c -> wf_weak ds -> consume_all c ds = Ok c' ->
  chunks_post c'.
Proof.
  intros NN H W E. destruct (construct_spec p c H) as [OK _ R _ N _].
  destruct (consume_all_spec ds c OK) as (c2 & E2 & S & R2).
  rewrite E in E2. injection E2 as <-.
  pose proof (same_static_ok _ _ S OK) as [P _].
  apply chunks_spec; [exact P | | ].
  - destruct S as (_ & D & _). rewrite D. now apply N.
  - rewrite R2, R. pose proof (rows_nonneg ds W). lia.
Qed.

(* T5, outside the finding classes: a valid chunking, or the rejection of a user-supplied
   chunk_shape that is longer than the shape *)
Lemma chunks_valid p c ds c' :
  params_nonneg p -> construct p = Ok c -> wf_weak ds -> consume_all c ds = Ok c' ->
  finding_C36_a c' = false -> finding_C36_b c' = false ->
  (exists ch, chunks c' = Ok ch /\ length ch = length (shape c') /\ map zsum ch = shape c' /\
              proper_chunks ch) \/
  (chunks c' = Err ValueError /\ p_chunk p = Some (c_chunk c') /\
   (length (shape c') < length (c_chunk c'))%nat).
Proof.
  intros NN H W E FA FB. pose proof (chunks_exact p c ds c' NN H W E) as Post.
  unfold chunks_post in Post. destruct (chunks c') as [ch|e].
  - left. exists ch. tauto.
  - right. destruct Post as [[-> L] | (_ & A & _)]; [|congruence].
    split; [reflexivity|]. split; [|exact L].
    destruct (construct_spec p c H) as [OK K _ _ _ Ch].
    destruct (consume_all_spec ds c OK) as (c2 & E2 & S & _).
    rewrite E in E2. injection E2 as <-. destruct S as (K' & _ & _ & _ & C').
    unfold finding_C36_b in FB. apply Nat.ltb_lt in L. rewrite L, andb_true_r in FB.
    assert (NK : c_kind c <> KNpy).
    { intros EK. rewrite K', EK in FB. discriminate. }
    apply Nat.ltb_lt in L.
    destruct (Ch NK) as [U | U]; rewrite C', U in *.
    + unfold user_chunk in *. destruct (p_chunk p) as [l|]; [reflexivity|].
      cbn in L. lia.
    + exfalso. unfold shape in L. destruct (c_join c'), (c_dshape c'); cbn in L; lia.
Qed.

(* ================================================================== part D: seq_num -> row map *)

Lemma map_get_set k v m k' :
  map_get k' (map_set k v m) = if k' =? k then Some v else map_get k' m.
Proof.
  induction m as [|[a b] m IH]; cbn.
  - destruct (k' =? k); reflexivity.
  - destruct (k <? a) eqn:E1; [cbn; destruct (k' =? k); reflexivity|].
    destruct (k =? a) eqn:E2.
    + cbn. destruct (k' =? k) eqn:E3; [reflexivity|].
      destruct (k' =? a) eqn:E4; [lia | reflexivity].
    + cbn. rewrite IH. destruct (k' =? a) eqn:E4; [|reflexivity].
      destruct (k' =? k) eqn:E3; [lia | reflexivity].
Qed.

(* writing the pairs (a+i, c+i), i < L *)
Definition ramp (a c : Z) (L : nat) : list (Z * Z) :=
  map (fun i => (a + Z.of_nat i, c + Z.of_nat i)) (seq 0 L).

Lemma combine_ramp a c : forall n m s,
  combine (map (fun i => a + Z.of_nat i) (seq s n)) (map (fun i => c + Z.of_nat i) (seq s m)) =
  map (fun i => (a + Z.of_nat i, c + Z.of_nat i)) (seq s (Nat.min n m)).
Proof.
  induction n as [|n IH]; intros [|m] s; try reflexivity.
  cbn [seq map combine Nat.min]. f_equal. apply IH.
Qed.

Lemma zip_ranges a b c d :
  combine (zrange a b) (zrange c d) = ramp a c (Nat.min (Z.to_nat (b - a)) (Z.to_nat (d - c))).
Proof. unfold zrange, ramp. apply combine_ramp. Qed.

Lemma map_get_ramp a c L : forall m s,
  map_get s (map_update m (ramp a c L)) =
  if (a <=? s) && (s <? a + Z.of_nat L) then Some (c + (s - a)) else map_get s m.
Proof.
  induction L as [|L IH]; intros m s.
  - cbn. destruct (a <=? s) eqn:E1; cbn; [|reflexivity].
    destruct (s <? a + 0) eqn:E2; [lia | reflexivity].
  - unfold ramp, map_update in *. rewrite seq_S, map_app, fold_left_app. cbn [map fold_left fst snd plus].
    rewrite map_get_set, IH.
    destruct (s =? a + Z.of_nat L) eqn:E0.
    + destruct ((a <=? s) && (s <? a + Z.of_nat (S L))) eqn:E1; [f_equal; lia | lia].
    + destruct ((a <=? s) && (s <? a + Z.of_nat L)) eqn:E1;
      destruct ((a <=? s) && (s <? a + Z.of_nat (S L))) eqn:E2; try reflexivity; lia.
Qed.

Lemma map_get_consume d m s :
  map_get s (map_update m (combine (zrange (sstart d) (sstop d)) (zrange (istart d) (istop d)))) =
  if covers d s then Some (row_of d s) else map_get s m.
Proof.
  rewrite zip_ranges, map_get_ramp. unfold covers, row_of.
  replace (Z.of_nat (Nat.min (Z.to_nat (sstop d - sstart d)) (Z.to_nat (istop d - istart d))))
    with (Z.min (Z.max 0 (sstop d - sstart d)) (Z.max 0 (istop d - istart d))) by lia.
  reflexivity.
Qed.

Lemma consume_all_map ds : forall c c', cons_ok c -> consume_all c ds = Ok c' ->
  forall s, map_get s (c_map c') =
            match last_cover ds s with Some v => Some v | None => map_get s (c_map c) end.
Proof.
  induction ds as [|d r IH]; intros c c' OK E s.
  - cbn in E. injection E as <-. reflexivity.
  - destruct (consume_spec c d OK) as (c1 & E1 & S1 & _ & M1).
    cbn [consume_all] in E. rewrite E1 in E.
    rewrite (IH c1 c' (same_static_ok _ _ S1 OK) E s). cbn [last_cover].
    destruct (last_cover r s); [reflexivity|].
    rewrite M1, map_get_consume. destruct (covers d s); reflexivity.
Qed.

Lemma seqnums_to_indices p c ds c' : construct p = Ok c -> consume_all c ds = Ok c' ->
  forall s, map_get s (c_map c') = last_cover ds s.
Proof.
  intros H E s. destruct (construct_spec p c H) as [OK _ _ M _ _].
  rewrite (consume_all_map ds c c' OK E s), M. destruct (last_cover ds s); reflexivity.
Qed.

(* what last_cover means *)
Lemma last_cover_none ds s : last_cover ds s = None <-> forall d, In d ds -> covers d s = false.
Proof.
  induction ds as [|d r IH]; cbn [last_cover].
  - split; [intros _ d [] | reflexivity].
  - destruct (last_cover r s) eqn:E.
    + split; [discriminate|]. intros H.
      assert (A : forall d0, In d0 r -> covers d0 s = false) by (intros; apply H; now right).
      apply IH in A. discriminate.
    + destruct (covers d s) eqn:C.
      * split; [discriminate|]. intros H. rewrite (H d (or_introl eq_refl)) in C. discriminate.
      * split; [|reflexivity]. intros _ x [<-|Hx]; [exact C|]. now apply (proj1 IH).
Qed.

Lemma last_cover_some ds s v : last_cover ds s = Some v <->
  exists l1 d l2, ds = l1 ++ d :: l2 /\ covers d s = true /\ v = row_of d s /\
                  forall d', In d' l2 -> covers d' s = false.
Proof.
  revert v. induction ds as [|d r IH]; intros v; cbn [last_cover].
  - split; [discriminate|]. intros (l1 & d & l2 & E & _). destruct l1; discriminate.
  - destruct (last_cover r s) as [w|] eqn:E.
    + split.
      * intros H. injection H as <-. destruct (proj1 (IH w) eq_refl) as (l1 & x & l2 & -> & C & V & N).
        exists (d :: l1), x, l2. repeat split; assumption.
      * intros (l1 & x & l2 & Eq & C & V & N). destruct l1 as [|y l1].
        -- cbn in Eq. injection Eq as -> ->. apply last_cover_none in N. congruence.
        -- cbn in Eq. injection Eq as -> ->.
           apply IH. exists l1, x, l2; auto.
    + pose proof (proj1 (last_cover_none r s) E) as N. split.
      * destruct (covers d s) eqn:C; [|discriminate]. intros H. injection H as <-.
        exists [], d, r. repeat split; assumption.
      * intros (l1 & x & l2 & Eq & C & V & N'). destruct l1 as [|y l1].
        -- cbn in Eq. injection Eq as -> ->. rewrite C. now subst v.
        -- cbn in Eq. injection Eq as -> ->. rewrite N in C; [discriminate|].
           apply in_or_app. right. now left.
Qed.

(* with pairwise disjoint seq_num ranges every consumed seq_num maps to its own row *)
Lemma last_cover_disjoint ds : ForallOrdPairs seq_disjoint ds ->
  forall d s, In d ds -> covers d s = true -> last_cover ds s = Some (row_of d s).
Proof.
  induction 1 as [|x r F _ IH]; intros d s Hd C; [destruct Hd|].
  cbn [last_cover]. destruct Hd as [->|Hd].
  - assert (N : last_cover r s = None).
    { apply last_cover_none. intros y Hy. rewrite Forall_forall in F. now apply (F y Hy s). }
    rewrite N, C. reflexivity.
  - now rewrite (IH d s Hd C).
Qed.

Lemma seqnums_rows p c ds c' : construct p = Ok c -> consume_all c ds = Ok c' ->
  c_rows c' = zsum (map (fun d => istop d - istart d) ds) /\
  (ForallOrdPairs seq_disjoint ds ->
   forall d s, In d ds -> covers d s = true -> map_get s (c_map c') = Some (row_of d s)).
Proof.
  intros H E. split.
  - destruct (consume_never_fails p c ds H) as (c2 & E2 & _ & R). congruence.
  - intros D d s Hd C. rewrite (seqnums_to_indices p c ds c' H E s). now apply last_cover_disjoint.
Qed.

(* covers, spelled out *)
Lemma covers_spec d s : covers d s = true <->
  sstart d <= s < sstop d /\ s - sstart d < istop d - istart d.
Proof. unfold covers. lia. Qed.

(* ================================================================== concrete witnesses *)

Definition D (u : N) (a b s t : Z) : datum := mkDatum u 7 9 a b s t.

Definition ex_shuffled : list datum := [D 0 4 6 5 7; D 1 0 2 1 3; D 2 2 4 3 5].

Lemma ex_shuffled_wf : wf_strict ex_shuffled.
Proof. intros d [<-|[<-|[<-|[]]]]; cbn; lia. Qed.

Lemma ex_concat_nonvacuous :
  (2 <= length ex_shuffled)%nat /\ wf_strict ex_shuffled /\ isort ex_shuffled <> ex_shuffled /\
  concatenate ex_shuffled = Ok (mkDatum 0 7 9 0 6 1 7) /\
  seq_consistent ex_shuffled.
Proof.
  split; [cbn; lia|]. split; [exact ex_shuffled_wf|]. split; [discriminate|].
  split; [reflexivity|].
  intros d1 d2 [<-|[<-|[<-|[]]]] [<-|[<-|[<-|[]]]]; cbn; lia.
Qed.

Lemma ex_perm_nonvacuous :
  wf_strict ex_shuffled /\ Permutation ex_shuffled (isort ex_shuffled) /\
  isort ex_shuffled <> ex_shuffled /\ exists r, concatenate ex_shuffled = Ok r.
Proof.
  split; [exact ex_shuffled_wf|]. split; [apply Permutation_sym, isort_perm|].
  split; [discriminate|]. eexists; reflexivity.
Qed.

(* without non-empty intervals neither permutation invariance nor "a permutation of a chain is
   accepted" holds: the stable sort keeps the input order among equal starts *)
Lemma ex_wf_needed :
  let ds := [D 0 0 2 1 3; D 1 2 4 3 5; D 2 2 2 9 9] in
  let ds' := [D 0 0 2 1 3; D 2 2 2 9 9; D 1 2 4 3 5] in
  Permutation ds ds' /\ chain ds' /\ wf_weak ds /\
  concatenate ds = Err ValueError /\ concatenate ds' = Ok (mkDatum 1 7 9 0 4 1 5).
Proof.
  cbv zeta. split; [apply perm_skip, perm_swap|]. split; [cbn; auto|].
  split; [intros d [<-|[<-|[<-|[]]]]; cbn; lia|]. split; reflexivity.
Qed.

(* the code never looks at seq_nums: without seq_consistent the seq range is not the min/max *)
Lemma ex_seq_needed :
  let ds := [D 0 0 2 5 7; D 1 2 4 1 3] in
  wf_strict ds /\ concatenate ds = Ok (mkDatum 1 7 9 0 4 5 3) /\
  ~ is_min 5 (map sstart ds) /\ ~ is_max 3 (map sstop ds).
Proof.
  cbv zeta. split; [intros d [<-|[<-|[]]]; cbn; lia|]. split; [reflexivity|]. split.
  - intros [_ H]. specialize (H 1). cbn in H. lia.
  - intros [_ H]. specialize (H 7). cbn in H. lia.
Qed.

Lemma ex_summands_nonvacuous :
  list_summands 13 3 1 = [3; 3; 3; 3; 1] /\ list_summands 7 3 3 = [3; 3; 1; 3; 3; 1; 3; 3; 1] /\
  list_summands 0 3 2 = [0] /\ list_summands 5 3 0 = [0].
Proof. repeat split; reflexivity. Qed.

Definition ex_params : params :=
  mkParams KCsv [Some 3; Some 4] None (Some [2; 3]) None None true.
Definition ex_docs : list datum := [D 0 0 2 1 3; D 1 2 5 3 6].

Lemma ex_params_nonneg : params_nonneg ex_params.
Proof.
  split.
  - intros x [H|[H|[]]]; injection H as <-; lia.
  - intros m H. discriminate.
Qed.

Lemma ex_docs_wf : wf_weak ex_docs.
Proof. intros d [<-|[<-|[]]]; cbn; lia. Qed.

Lemma ex_chunks_nonvacuous : exists c c',
  params_nonneg ex_params /\ construct ex_params = Ok c /\ wf_weak ex_docs /\
  consume_all c ex_docs = Ok c' /\ finding_C36_a c' = false /\ finding_C36_b c' = false /\
  shape c' = [15; 4] /\
  chunks c' = Ok [[2; 1; 2; 1; 2; 1; 2; 1; 2; 1]; [3; 1]].
Proof.
  eexists. eexists. split; [exact ex_params_nonneg|]. split; [reflexivity|].
  split; [exact ex_docs_wf|]. split; [reflexivity|]. repeat split; reflexivity.
Qed.

(* a documented rejection: user chunk_shape longer than the shape *)
Lemma ex_rejection_nonvacuous :
  let p := mkParams KHdf5 [Some 3] None (Some [2; 3; 4]) None None true in
  exists c, params_nonneg p /\ construct p = Ok c /\ finding_C36_a c = false /\
            finding_C36_b c = false /\ chunks c = Err ValueError.
Proof.
  cbv zeta. eexists. split.
  - split; [intros x [H|[]]; injection H as <-; lia | intros m H; discriminate].
  - repeat split; reflexivity.
Qed.

Lemma ex_seqmap_nonvacuous : exists c c',
  construct ex_params = Ok c /\ consume_all c ex_docs = Ok c' /\
  ForallOrdPairs seq_disjoint ex_docs /\
  c_map c' = [(1, 0); (2, 1); (3, 2); (4, 3); (5, 4)] /\ c_rows c' = 5.
Proof.
  eexists. eexists. split; [reflexivity|]. split; [reflexivity|]. split; [|split; reflexivity].
  constructor; [|constructor; [constructor | constructor]].
  constructor; [|constructor]. intros s. unfold covers. cbn. lia.
Qed.

(* overlapping seq ranges: the later datum wins *)
Lemma ex_overwrite :
  let ds := [D 0 0 3 1 4; D 1 3 5 2 4] in
  last_cover ds 2 = Some 3 /\ last_cover ds 1 = Some 0 /\ last_cover ds 4 = None.
Proof. repeat split; reflexivity. Qed.

(* ---- the recorded findings *)

Lemma a_refuted :
  let p := mkParams KCsv [] None (Some [5]) None None true in
  let ds := [D 0 0 3 1 4] in
  exists c c',
    params_nonneg p /\ construct p = Ok c /\ wf_weak ds /\ consume_all c ds = Ok c' /\
    finding_C36_a c' = true /\ finding_C36_b c' = false /\
    shape c' = [3] /\ c_chunk c' = [5] /\
    chunks c' = Err IndexError /\
    ~ (exists ch, chunks c' = Ok ch /\ map zsum ch = shape c') /\
    ~ (length (shape c') < length (c_chunk c'))%nat.
Proof.
  cbv zeta. eexists. eexists. split.
  - split; [intros x [] | intros m H; discriminate].
  - split; [reflexivity|]. split; [intros d [<-|[]]; cbn; lia|]. split; [reflexivity|].
    repeat split; try reflexivity.
    + intros (ch & H & _). discriminate.
    + cbn. lia.
Qed.

Lemma b_refuted :
  let p := mkParams KNpy [Some 1] None None None None true in
  let ds := [D 0 0 3 1 4] in
  exists c c',
    params_nonneg p /\ p_chunk p = None /\ construct p = Ok c /\ wf_weak ds /\
    consume_all c ds = Ok c' /\
    finding_C36_b c' = true /\ finding_C36_a c' = false /\
    shape c' = [3] /\ c_chunk c' = [1; 1] /\
    chunks c' = Err ValueError /\
    ~ (exists ch, chunks c' = Ok ch /\ map zsum ch = shape c').
Proof.
  cbv zeta. eexists. eexists. split.
  - split; [intros x [H|[]]; injection H as <-; lia | intros m H; discriminate].
  - split; [reflexivity|]. split; [reflexivity|]. split; [intros d [<-|[]]; cbn; lia|].
    split; [reflexivity|]. repeat split; try reflexivity.
    intros (ch & H & _). discriminate.
Qed.

(* ------------------------------------------------------------------ statements as used by Props/C36.v *)

Lemma concat_accepts_unconditional_all :
  concatenate [] = Err IndexError /\
  (forall d, concatenate [d] = Ok d) /\
  (forall ds, (2 <= length ds)%nat ->
     ((exists r, concatenate ds = Ok r) <->
        same_on descr ds /\ same_on sres ds /\ chain (isort ds)) /\
     (forall e, concatenate ds = Err e -> e = ValueError)).
Proof. exact (conj concat_nil (conj concat_single concat_accepts_unconditional)). Qed.

Lemma isort_is_stable_sort : forall ds,
  Permutation (isort ds) ds /\
  StronglySorted (fun a b => istart a <= istart b) (isort ds) /\
  forall k, filter (fun x => istart x =? k) (isort ds) = filter (fun x => istart x =? k) ds.
Proof. exact (fun ds => conj (isort_perm ds) (conj (isort_sorted ds) (fun k => isort_stable k ds))). Qed.

Lemma last_cover_spec_all : forall ds s,
  (forall d s, covers d s = true <->
     sstart d <= s < sstop d /\ s - sstart d < istop d - istart d) /\
  (forall v, last_cover ds s = Some v <->
     exists l1 d l2, ds = l1 ++ d :: l2 /\ covers d s = true /\ v = row_of d s /\
                     forall d', In d' l2 -> covers d' s = false) /\
  (last_cover ds s = None <-> forall d, In d ds -> covers d s = false).
Proof. exact (fun ds s => conj covers_spec (conj (last_cover_some ds s) (last_cover_none ds s))). Qed.
