(* Every lifecycle change the engine model performs is a legal move of the transition table
   read from the source (gen/Tables.v): for all plans, devices and schedules. *)
From Coq Require Import List String ZArith Bool Arith Lia.
From BV Require Import Engine.RE.
Import ListNotations.

Definition ok_obs (o : obs) : Prop :=
  match o with OState a b => allowed a b = true | _ => True end.
Definition okl (l : list obs) : Prop := Forall ok_obs l.

Lemma okl_nil : okl []. Proof. constructor. Qed.
Lemma okl_app a b : okl a -> okl b -> okl (a ++ b).
Proof. intros; apply Forall_app; split; assumption. Qed.
Lemma okl_app_inv a b : okl (a ++ b) -> okl a /\ okl b.
Proof. intros H; apply Forall_app in H; exact H. Qed.
Lemma okl_cons o l : ok_obs o -> okl l -> okl (o :: l).
Proof. intros; constructor; assumption. Qed.
Lemma okl_one o : ok_obs o -> okl [o].
Proof. intros; constructor; [assumption | constructor]. Qed.

#[export] Hint Resolve okl_nil okl_app okl_cons okl_one : okl.

Ltac break_match :=
  match goal with
  | |- context [match ?x with _ => _ end] => destruct x eqn:?
  end.

Ltac inv_pairs :=
  repeat match goal with
         | H : (_, _) = (_, _) |- _ => inversion H; subst; clear H
         | H : Some _ = Some _ |- _ => inversion H; subst; clear H
         end.

Section Proofs.
Variable P : Type.
Variable presume : P -> input -> outcome P.
Variable plan_of : nat -> P.
Variable D : Type.
Variable dev : D -> nat -> devmeth -> D * devres.

Notation st := (st P D).

Lemma set_state_ok (s : st) x s' o : set_state P D s x = Some (s', o) -> okl o.
Proof.
  unfold set_state. destruct (allowed (state P D s) x) eqn:E; intros H; [|discriminate].
  inversion H; subst. apply okl_one. exact E.
Qed.

Lemma dcall_ok (s : st) d m s' r o : dcall P D dev s d m = (s', r, o) -> okl o.
Proof. unfold dcall. destruct (dev _ _ _). intros H; inversion H; subst. apply okl_one; exact I. Qed.

Lemma stop_movables_ok (s : st) s' o : stop_movables P D dev s = (s', o) -> okl o.
Proof.
  unfold stop_movables.
  assert (G : forall l (s0 : st) o0 s1 o1, okl o0 ->
             fold_left (fun acc d => let '(s0, os) := acc in
                                     let '(s1, _, o) := dcall P D dev s0 d MStop in (s1, os ++ o)) l (s0, o0) = (s1, o1) -> okl o1).
  { induction l as [|d l IH]; intros s0 o0 s1 o1 H0 H; cbn in H.
    - inversion H; subst; assumption.
    - destruct (dcall P D dev s0 d MStop) as [[sa ra] oa] eqn:E. apply IH in H; [assumption|].
      apply okl_app; [assumption | eapply dcall_ok; eassumption]. }
  intros H. eapply G; [apply okl_nil | exact H].
Qed.

Lemma call_pausables_ok (s : st) m s' e o : call_pausables P D dev s m = (s', e, o) -> okl o.
Proof.
  unfold call_pausables.
  assert (G : forall l (s0 : st) e0 o0 s1 e1 o1, okl o0 ->
             fold_left (fun acc d =>
               let '(s0, e, os) := acc in
               match e with
               | Some _ => acc
               | None => if mem_nat d (seen P D s0)
                         then let '(s1, r, o) := dcall P D dev s0 d m in
                              (s1, match r with DRaise x => Some x | _ => None end, os ++ o)
                         else acc
               end) l (s0, e0, o0) = (s1, e1, o1) -> okl o1).
  { induction l as [|d l IH]; intros s0 e0 o0 s1 e1 o1 H0 H; cbn in H.
    - inversion H; subst; assumption.
    - destruct e0.
      + eapply IH; eassumption.
      + destruct (mem_nat d (seen P D s0)).
        * destruct (dcall P D dev s0 d m) as [[sa ra] oa] eqn:E.
          eapply IH; [|exact H]. apply okl_app; [assumption | eapply dcall_ok; eassumption].
        * eapply IH; eassumption. }
  intros H. eapply G; [apply okl_nil | exact H].
Qed.

Lemma b_record_intr_ok b b' o : b_record_intr b = Some (b', o) -> okl o.
Proof.
  unfold b_record_intr. destruct (bintr b); [destruct (alookup INTR (bseq b))|]; intros H; inversion H; subst;
    auto with okl. apply okl_one; exact I.
Qed.

Lemma record_intr_list_ok l r o ok : record_intr_list l = (r, o, ok) -> okl o.
Proof.
  revert r o ok; induction l as [|[k b] l IH]; intros r o ok H; cbn in H.
  - inversion H; subst; apply okl_nil.
  - destruct (b_record_intr b) as [[b' o']|] eqn:E.
    + destruct (record_intr_list l) as [[r0 os] ok0] eqn:E2. inversion H; subst.
      apply okl_app; [eapply b_record_intr_ok; eassumption | eapply IH; reflexivity].
    + inversion H; subst; apply okl_nil.
Qed.

Lemma record_interruptions_ok (s : st) s' o ok : record_interruptions P D s = (s', o, ok) -> okl o.
Proof.
  unfold record_interruptions. destruct (record_intr_list (bundlers P D s)) as [[bs os] ok0] eqn:E.
  intros H; inversion H; subst. eapply record_intr_list_ok; eassumption.
Qed.

Lemma request_pause_ok (s : st) d s' e o : request_pause P D s d = (s', e, o) -> okl o.
Proof.
  unfold request_pause. repeat break_match; intros H; inversion H; subst; auto with okl.
  - apply okl_app; [eapply set_state_ok; eassumption | eapply record_interruptions_ok; eassumption].
  - apply okl_app; [eapply set_state_ok; eassumption | eapply record_interruptions_ok; eassumption].
Qed.

Lemma request_pause_in_task_ok (s : st) d s' e o : request_pause_in_task P D s d = (s', e, o) -> okl o.
Proof.
  unfold request_pause_in_task. destruct (request_pause P D s d) as [[s1 e1] o1] eqn:E.
  intros H; inversion H; subst. eapply request_pause_ok; exact E.
Qed.

Definition nostate (o : obs) : Prop := match o with OState _ _ => False | _ => True end.
Lemma nostate_okl l : Forall nostate l -> okl l.
Proof. induction 1 as [|o l H _ IH]; [apply okl_nil | apply okl_cons; [destruct o; cbn in *; tauto | exact IH]]. Qed.

Lemma helper_resume_ok h i o os : helper_resume P presume h i = (o, os) -> okl os.
Proof.
  unfold helper_resume. repeat break_match; intros H; inversion H; subst; auto with okl;
    try (apply okl_one; exact I).
Qed.

Lemma frame_resume_ok f i o os : frame_resume P presume f i = (o, os) -> okl os.
Proof.
  unfold frame_resume. destruct f.
  - repeat break_match; intros H; inversion H; subst; auto with okl; try (apply okl_one; exact I).
  - repeat break_match; intros H; inversion H; subst; auto with okl.
  - repeat break_match; intros H; inversion H; subst; auto with okl.
  - destruct (helper_resume P presume h i) as [o0 os0] eqn:E. intros H; inversion H; subst.
    eapply helper_resume_ok; eassumption.
Qed.

Lemma finish_read_ok (s : st) run d z o0 s' c o : okl o0 -> finish_read P D s run d z o0 = (s', c, o) -> okl o.
Proof. unfold finish_read. intros H0. repeat break_match; intros H; inversion H; subst; assumption. Qed.

Ltac use_helpers :=
  repeat match goal with
         | H : dcall _ _ _ _ _ _ = _ |- _ => apply dcall_ok in H
         | H : set_state _ _ _ _ = Some _ |- _ => apply set_state_ok in H
         | H : stop_movables _ _ _ _ = _ |- _ => apply stop_movables_ok in H
         | H : call_pausables _ _ _ _ _ = _ |- _ => apply call_pausables_ok in H
         | H : record_interruptions _ _ _ = _ |- _ => apply record_interruptions_ok in H
         | H : request_pause _ _ _ _ = _ |- _ => apply request_pause_ok in H
         | H : request_pause_in_task _ _ _ _ = _ |- _ => apply request_pause_in_task_ok in H
         | H : frame_resume _ _ _ _ = _ |- _ => apply frame_resume_ok in H
         end.

Ltac okl_tac :=
  repeat match goal with
         | |- okl (_ ++ _) => apply okl_app
         | |- okl (_ :: _) => apply okl_cons
         | |- okl [] => apply okl_nil
         | |- ok_obs _ => exact I
         | |- okl _ => assumption
         end.

Lemma exec_cmd_ok (s : st) m s' c o : exec_cmd P D dev s m = (s', c, o) -> okl o.
Proof.
  unfold exec_cmd. destruct (mcmd m);
    repeat break_match; intros H; inversion H; subst; use_helpers; okl_tac;
    try (eapply finish_read_ok; [|eassumption]; assumption).
  all: repeat match goal with
              | H : (if ?c then _ else _) = _ |- _ => destruct c; inversion H; subst; clear H
              end; okl_tac.
Qed.

Lemma exec_start_suspender_ok (s : st) sid pre post s' c o :
  exec_start_suspender P plan_of D dev s sid pre post = (s', c, o) -> okl o.
Proof.
  unfold exec_start_suspender. repeat break_match; intros H; inversion H; subst; use_helpers; okl_tac.
Qed.

Lemma close_runs_ok (s : st) xs rs : okl (close_runs P D s xs rs).
Proof.
  unfold close_runs. induction (bundlers P D s) as [|kb l IH]; cbn; [apply okl_nil|].
  apply okl_app; [|exact IH]. destruct (bopen (snd kb)); okl_tac.
Qed.

Lemma close_frames_ok (s : st) : okl (close_frames P presume D s).
Proof.
  unfold close_frames. induction (rev (plans P D s)) as [|f l IH]; cbn; [apply okl_nil|].
  apply okl_app; [|exact IH]. destruct (frame_resume P presume f Close) eqn:E. cbn. eapply frame_resume_ok; eassumption.
Qed.

Lemma finalize_ok (s : st) r pend s' o : finalize P presume D dev s r pend = (s', o) -> okl o.
Proof.
  unfold finalize.
  destruct (stop_movables P D dev (set_pardon P D s true)) as [s2 o2] eqn:E2.
  match goal with |- context [fold_left ?f ?l ?a] => destruct (fold_left f l a) as [s3 o3] eqn:E3 end.
  assert (H3 : okl o3).
  { revert E3. generalize (staged P D s2). intros l.
    assert (G : forall l (s0 : st) o0 s1 o1, okl o0 ->
               fold_left (fun acc d => let '(s0, os) := acc in
                                       let '(sa, _, o) := dcall P D dev s0 d MUnstage in (sa, os ++ o)) l (s0, o0) = (s1, o1) -> okl o1).
    { induction l0 as [|d l0 IH]; intros s0 o0 s1 o1 H0 H; cbn in H.
      - inversion H; subst; assumption.
      - destruct (dcall P D dev s0 d MUnstage) as [[sa ra] oa] eqn:E. apply IH in H; [assumption|].
        apply okl_app; [assumption | eapply dcall_ok; eassumption]. }
    intros E3. eapply G; [apply okl_nil | exact E3]. }
  apply stop_movables_ok in E2.
  repeat break_match; intros H; inversion H; subst; use_helpers; okl_tac;
    try apply close_runs_ok; try apply close_frames_ok.
Qed.

Ltac bm_hyp H :=
  match type of H with
  | context [match ?x with _ => _ end] => destruct x eqn:?
  end.

Ltac norm_hyps :=
  repeat match goal with
         | H : (if ?c then _ else _) = _ |- _ => destruct c
         | H : Some (_, _) = Some (_, _) |- _ => inversion H; subst; clear H
         | H : (_, _) = (_, _) |- _ => inversion H; subst; clear H
         | H : match ?x with _ => _ end = (_, _) |- _ => destruct x eqn:?
         end.

Lemma drive_ok fuel : forall (s : st) c os s' o,
  okl os -> drive P presume plan_of D dev fuel s c os = (s', o) -> okl o.
Proof.
  induction fuel as [|fuel IH]; intros s c os s' o Hos H; cbn [drive] in H.
  - inversion H; subst. okl_tac.
  - destruct c; repeat (bm_hyp H);
      try (inversion H; subst; clear H; norm_hyps; use_helpers; okl_tac; fail);
      try (eapply IH; [|exact H]; norm_hyps; use_helpers; okl_tac; fail).
    all: try (eapply IH; [|exact H]; norm_hyps; use_helpers; okl_tac;
              try (eapply exec_cmd_ok; eassumption); try (eapply exec_start_suspender_ok; eassumption); fail).
    all: try (apply finalize_ok in H; norm_hyps; use_helpers; okl_tac; fail).
    all: try match goal with
         | Hp : match mcmd ?m with _ => _ end = _ |- _ =>
             destruct (mcmd m) eqn:?;
             first [apply exec_start_suspender_ok in Hp | apply exec_cmd_ok in Hp]
         end.
    all: try (inversion H; subst; clear H; norm_hyps; use_helpers; okl_tac; fail).
    all: try (eapply IH; [|exact H]; norm_hyps; use_helpers; okl_tac; fail).
    all: try match goal with Hf : finalize _ _ _ _ _ _ _ = _ |- _ => apply finalize_ok in Hf end;
         inversion H; subst; okl_tac.
Qed.

Lemma task_step_ok (s : st) s' o : task_step P presume plan_of D dev s = (s', o) -> okl o.
Proof.
  unfold task_step. intros H.
  repeat (bm_hyp H);
    try (inversion H; subst; clear H; norm_hyps; use_helpers; okl_tac; fail);
    try (eapply drive_ok; [|exact H]; norm_hyps; use_helpers; okl_tac; fail);
    try (apply finalize_ok in H; assumption).
  all: try (eapply drive_ok; [|exact H]; norm_hyps; use_helpers; okl_tac;
            try (eapply finish_read_ok; [|eassumption]; okl_tac); fail).
Qed.

Lemma req_result_ok (s : st) e s' o : req_result P D s e = (s', o) -> okl o.
Proof. unfold req_result. intros H; inversion H; subst. okl_tac. Qed.

Lemma step_ok (s : st) e s' o : step P presume plan_of D dev s e = (s', o) -> okl o.
Proof.
  unfold step. intros H. destruct e; try (apply task_step_ok in H; assumption).
  all: repeat (bm_hyp H);
    repeat match goal with Hr : req_result _ _ _ _ = _ |- _ => apply req_result_ok in Hr end;
    first [ assumption | apply req_result_ok in H; assumption
          | inversion H; subst; clear H; norm_hyps; use_helpers; okl_tac ].
Qed.

Theorem run_transitions_legal (s : st) evs : okl (snd (run P presume plan_of D dev s evs)).
Proof.
  revert s; induction evs as [|e evs IH]; intros s; cbn [run].
  - apply okl_nil.
  - destruct (step P presume plan_of D dev s e) as [s1 o1] eqn:E1.
    specialize (IH s1). destruct (run P presume plan_of D dev s1 evs) as [s2 o2]. cbn in *.
    apply okl_app; [eapply step_ok; eassumption | exact IH].
Qed.
End Proofs.
