"""Deterministic driver for the REAL RunEngine (implementation side of the engine correspondence).

What it provides (DESIGN.md section 4):
  * ScaledLoop: an asyncio loop whose timers are scaled (sleep(0.5) costs 1 ms) and which
    reports when it is idle so that queued injections cannot dead-lock a case;
  * a task factory that wraps every coroutine in LoggedCoro: every resumption of `_run`
    and every request coroutine is logged in order -> this log IS the model's schedule;
  * taped(): a transparent real-generator wrapper logging every (input -> outcome) of a plan:
    the recorded tape is the plan coalgebra the model is run on;
  * fake devices with a ledger and programmable statuses / faults;
  * a JSON plan DSL interpreted into Python generators;
  * run_case(case) -> observation dict (JSON-able).
No source hooks are used: msg_hook, state_hook, subscribe, loop= and instance attributes.
"""
import asyncio
import collections.abc
import threading
import time as _time
import traceback

# --------------------------------------------------------------------------- loop + logging


class ScaledLoop(asyncio.SelectorEventLoop):
    SCALE = 0.002
    drv = None

    def call_later(self, delay, callback, *args, context=None):
        return super().call_later(delay * self.SCALE, callback, *args, context=context)

    def _run_once(self):
        d = self.drv
        if d is not None and not self._ready and not [h for h in self._scheduled if not h._cancelled]:
            d.on_idle()
        super()._run_once()


class LoggedCoro(collections.abc.Coroutine):
    def __init__(self, coro, drv):
        self.coro = coro
        self.drv = drv
        self.name = getattr(coro, "__qualname__", type(coro).__name__)
        self.nsteps = 0

    def send(self, v):
        return self._step("send", v)

    def throw(self, *a):
        return self._step("throw", a)

    def close(self):
        return self.coro.close()

    def __await__(self):
        return self

    def __next__(self):
        return self.send(None)

    def __iter__(self):
        return self

    def _step(self, kind, arg):
        d = self.drv
        self.nsteps += 1
        tok = d.pre_step(self, kind, arg)
        try:
            if kind == "send":
                res = self.coro.send(arg)
            else:
                res = self.coro.throw(*arg)
        except StopIteration:
            d.post_step(self, tok, "return", None)
            raise
        except BaseException as e:
            d.post_step(self, tok, "raise", e)
            raise
        d.post_step(self, tok, "susp", res)
        return res


# --------------------------------------------------------------------------- exceptions (small enum)

class EUser1(Exception):
    pass


class EUser2(Exception):
    pass


class EDev(Exception):
    pass


def exn_name(e):
    if e is None:
        return None
    if isinstance(e, type):
        return e.__name__
    n = type(e).__name__
    return n


def mk_exn(kind):
    from bluesky.utils import FailedPause, RequestAbort, RequestStop, PlanHalt
    return {"EUser1": EUser1, "EUser2": EUser2, "EDev": EDev, "ValueError": ValueError,
            "RequestAbort": RequestAbort, "RequestStop": RequestStop, "PlanHalt": PlanHalt,
            "FailedPause": FailedPause}[kind]("msg-" + kind)


# --------------------------------------------------------------------------- fake devices

class FakeStatus:
    """Implements bluesky.protocols.Status; finished by the driver."""

    def __init__(self, drv, sid):
        self.drv, self.sid = drv, sid
        self._done = False
        self._success = False
        self._exc = None
        self._cbs = []

    def add_callback(self, cb):
        if self._done:
            cb(self)
        else:
            self._cbs.append(cb)

    def exception(self, timeout=0.0):
        return self._exc

    @property
    def done(self):
        return self._done

    @property
    def success(self):
        return self._success

    def finish(self, ok):
        if self._done:
            return
        self._done = True
        self._success = bool(ok)
        if not ok:
            self._exc = EDev("status %d failed" % self.sid)
        for cb in self._cbs:
            cb(self)
        self._cbs = []


class Dev:
    """A deterministic device supporting every protocol the engine cases use."""

    def __init__(self, drv, idx, flags):
        self.drv = drv
        self.idx = idx
        self.name = "d%d" % idx
        self.parent = None
        self.flags = flags  # subset of: stage, pause, sub
        self.value = 0
        self.subs = []

    def __hash__(self):
        return self.idx + 1

    def __eq__(self, other):
        return self is other

    def __repr__(self):
        return self.name

    def _call(self, method):
        return self.drv.dev_call(self, method)

    # Readable / Configurable
    def read(self):
        r = self._call("read")
        self.value += 1
        return {self.name: {"value": r, "timestamp": 0.0}}

    def describe(self):
        return {self.name: {"source": "fake", "dtype": "number", "shape": []}}

    def read_configuration(self):
        return {}

    def describe_configuration(self):
        return {}

    # Movable / Stoppable / Triggerable
    def set(self, v, **kw):
        return self._call("set")

    def trigger(self):
        return self._call("trigger")

    def stop(self, success=True):
        self._call("stop")

    # Subscribable
    def subscribe(self, cb, **kw):
        self._call("subscribe")
        self.subs.append(cb)

    def clear_sub(self, cb):
        self._call("clear_sub")
        if cb in self.subs:
            self.subs.remove(cb)


class _StageMixin:
    def stage(self):
        self._call("stage")
        return [self]

    def unstage(self):
        self._call("unstage")
        return [self]


class _StageStatusMixin:
    """ophyd-async style: stage()/unstage() return a Status (already finished) instead of a list of devices.
    ORACLE ONLY: the engine model's stage command answers with a device list, so cases with such devices are not
    sent to Coq (engine_encode raises Unsupported)."""

    def _done_status(self):
        st = FakeStatus(self.drv, -1)
        st.finish(True)
        return st

    def stage(self):
        self._call("stage")
        return self._done_status()

    def unstage(self):
        self._call("unstage")
        return self._done_status()


class _PauseMixin:
    def pause(self):
        self._call("pause")

    def resume(self):
        self._call("resume")


_DEV_CLASSES = {}


def make_dev(drv, idx, flags):
    key = ("stage" in flags, "pause" in flags, "stagest" in flags)
    if key not in _DEV_CLASSES:
        stage = [_StageStatusMixin] if key[2] else [_StageMixin]
        bases = tuple((stage if key[0] else []) + ([_PauseMixin] if key[1] else []) + [Dev])
        _DEV_CLASSES[key] = type("Dev_%d%d%d" % key, bases, {"__hash__": Dev.__hash__})
    return _DEV_CLASSES[key](drv, idx, flags)


# --------------------------------------------------------------------------- plan DSL

def build_plan(spec, drv):
    """spec (JSON) -> python generator.
       ["m", cmd, obj_index|null, [args], {kwargs}, run|null]
       ["seq", s1, s2, ...]
       ["tryfin", body, fin]
       ["tryexc", body, handler]          (except Exception)
       ["raise", kind]
       ["ret", value]
       ["checkresp"]  -- no-op marker
       ["builtin", name, ...]  real bluesky plans
    """
    from bluesky.utils import Msg
    k = spec[0]
    if k == "m":
        _, cmd, obj, args, kwargs, run = spec
        o = drv.devs[obj] if obj is not None else None
        args = [drv.resolve_arg(a) for a in args]
        msg = Msg(cmd, o, *args, run=run, **kwargs)

        def g():
            return (yield msg)
        return g()
    if k == "seq":
        def g():
            r = None
            for s in spec[1:]:
                r = yield from build_plan(s, drv)
            return r
        return g()
    if k == "tryfin":
        def g():
            try:
                return (yield from build_plan(spec[1], drv))
            finally:
                yield from build_plan(spec[2], drv)
        return g()
    if k == "tryexc":
        def g():
            try:
                return (yield from build_plan(spec[1], drv))
            except Exception:
                return (yield from build_plan(spec[2], drv))
        return g()
    if k == "raise":
        def g():
            raise mk_exn(spec[1])
            yield
        return g()
    if k == "ret":
        def g():
            return spec[1]
            yield
        return g()
    if k == "builtin":
        return build_builtin(spec, drv)
    raise ValueError("bad plan spec %r" % (spec,))


def build_builtin(spec, drv):
    import bluesky.plans as bp
    import bluesky.plan_stubs as bps
    name = spec[1]
    if name == "count":
        return bp.count([drv.devs[i] for i in spec[2]], num=spec[3])
    if name == "scan":
        return bp.scan([drv.devs[i] for i in spec[2]], drv.devs[spec[3]], spec[4], spec[5], spec[6])
    if name == "trigger_and_read":
        return bps.trigger_and_read([drv.devs[i] for i in spec[2]])
    raise ValueError(name)


def taped(inner, tape, drv, pid):
    """A real generator, observationally transparent, logging (input, outcome) pairs."""
    inp = ("send", None)
    while True:
        drv.obs.append(["plan_in", pid, drv.canon_input(inp)])
        try:
            if inp[0] == "send":
                out = inner.send(inp[1])
            else:
                out = inner.throw(inp[1])
        except StopIteration as e:
            tape.append((drv.canon_input(inp), ("ret", drv.canon_val(e.value))))
            return e.value
        except BaseException as e:
            tape.append((drv.canon_input(inp), ("raise", exn_name(e))))
            raise
        tape.append((drv.canon_input(inp), ("yield", drv.msg_id(out))))
        try:
            v = yield out
            inp = ("send", v)
        except GeneratorExit as e:
            if type(e) is GeneratorExit:
                drv.obs.append(["plan_in", pid, ["close"]])
                tape.append((["close"], ("closed",)))
                inner.close()
                raise
            inp = ("throw", e)
        except BaseException as e:
            inp = ("throw", e)


# --------------------------------------------------------------------------- driver

class Driver:
    def __init__(self, case):
        self.case = case
        self.lock = threading.RLock()
        self.sched = []      # the schedule: what happened on the loop thread / main thread, in order
        self.obs = []        # observations the model must predict
        self.tapes = {}      # plan id -> list of (input, outcome)
        self.msgs = {}       # id(msg) -> (mid, msg)
        self.msg_list = []   # mid -> canonical description
        self.run_uids = {}   # uid -> index
        self.desc_uids = {}  # uid -> (run, name)
        self.statuses = []   # sid -> FakeStatus
        self.devcalls = []   # chronological ledger of device calls with results
        self.run_steps = 0
        self.inject = sorted(case.get("inject", []), key=lambda x: x["at"])
        self.inj_pos = 0
        self.events = {}     # suspension id -> asyncio.Event
        self.nsusp = 0
        self.run_task_alive = False
        self.errors = []
        self.faults = {(f[0], f[1], f[2]): f[3] for f in case.get("faults", [])}   # (dev, method, nth) -> exn kind
        self.status_mode = case.get("status_mode", "immediate")  # immediate | manual
        self.ncalls = {}
        self.at_paused_wait = False
        self.cur_action = None
        self.req_params = {"pause": [], "abort": [], "stop": [], "halt": [], "suspend": []}

    # ---- canonicalisation
    def msg_id(self, msg):
        with self.lock:
            k = id(msg)
            if k not in self.msgs:
                self.msgs[k] = (len(self.msg_list), msg)
                self.msg_list.append(self.canon_msg(msg))
            return self.msgs[k][0]

    def canon_msg(self, msg):
        obj = msg.obj.idx if isinstance(msg.obj, Dev) else None
        args = []
        if msg.command in ("sleep",):
            args = [1]
        elif msg.command == "rewindable":
            args = [None if msg.args[0] is None else bool(msg.args[0])]
        elif msg.command == "pause":
            args = [bool(msg.kwargs.get("defer", msg.args[0] if msg.args else False))]
        elif msg.command == "wait":
            args = [str(msg.args[0] if msg.args else msg.kwargs.get("group"))]
        elif msg.command in ("set", "trigger", "stage", "unstage", "kickoff", "complete"):
            args = [str(msg.kwargs.get("group"))]
        elif msg.command == "close_run":
            args = [msg.kwargs.get("exit_status"), msg.kwargs.get("reason")]
        elif msg.command == "create":
            args = [msg.kwargs.get("name", msg.args[0] if msg.args else "primary")]
        return {"cmd": msg.command, "obj": obj, "args": args, "run": msg.run}

    def canon_val(self, v):
        from bluesky.utils import Msg
        if v is None or isinstance(v, (bool, int, str)):
            if isinstance(v, str) and v in self.run_uids:
                return ["uid", self.run_uids[v]]
            return v
        if isinstance(v, FakeStatus):
            return ["status", v.sid]
        if isinstance(v, BaseException):
            return ["exn", exn_name(v)]
        if isinstance(v, dict):
            # a reading
            vals = sorted((k, d.get("value")) for k, d in v.items() if isinstance(d, dict))
            return ["reading", vals]
        if isinstance(v, (list, tuple)):
            if all(isinstance(x, Dev) for x in v):
                return ["devs", [x.idx for x in v]]
            if all(isinstance(x, asyncio.Future) for x in v):
                return ["futs", len(v)]
            return ["list", [self.canon_val(x) for x in v]]
        if isinstance(v, type):
            return ["type", v.__name__]
        return ["other", type(v).__name__]

    def canon_input(self, inp):
        if inp[0] == "send":
            return ["send", self.canon_val(inp[1])]
        return ["throw", exn_name(inp[1])]

    def resolve_arg(self, a):
        return a

    # ---- hooks
    def dev_call(self, dev, method):
        with self.lock:
            n = self.ncalls.get((dev.idx, method), 0)
            self.ncalls[(dev.idx, method)] = n + 1
            fault = self.faults.get((dev.idx, method, n))
            if fault:
                self.devcalls.append([dev.idx, method, ["raise", fault]])
                self.obs.append(["dev", dev.idx, method])
                raise mk_exn(fault)
            if method in ("set", "trigger"):
                st = FakeStatus(self, len(self.statuses))
                self.statuses.append(st)
                self.devcalls.append([dev.idx, method, ["status", st.sid]])
                self.obs.append(["dev", dev.idx, method])
                if self.status_mode == "immediate":
                    st.finish(True)
                return st
            res = None
            if method == "read":
                res = dev.value
            self.devcalls.append([dev.idx, method, ["val", res]])
            self.obs.append(["dev", dev.idx, method])
            return res

    def pre_step(self, lc, kind, arg):
        return kind

    def req_done(self, kind, how, res):
        ok = how != "raise"
        params = self.req_params.get(kind, [])
        p = params.pop(0) if params else None
        self.sched.append(["req_done", kind, p, "ok" if ok else "raise:" + exn_name(res)])
        self.obs.append(["req", ok])

    def post_step(self, lc, tok, how, res):
        name = lc.name
        with self.lock:
            if name == "RunEngine._run":
                self.run_steps += 1
                if how == "susp":
                    where = "sleep0" if res is None else "future"
                    self.run_task_alive = True
                else:
                    where = how if how == "return" else "raise:" + exn_name(res)
                    self.run_task_alive = False
                self.sched.append(["task", tok, where])
                self.obs.append(["task", where])
                self.last_run_where = where
                if self.run_task_alive:
                    # a request fired after the final step would race with the main thread's return
                    self.fire_due()
            elif name.endswith("._cache_read_config") and how == "return":
                self.sched.append(["cache_done"])
            elif name.endswith("_request_pause_coro"):
                self.req_done("pause", how, res)
            elif name.endswith("._abort_coro") or name.endswith("._stop_coro") or name.endswith("._halt_coro"):
                self.req_done(name.split(".")[-1][1:-5], how, res)
            elif name.endswith("_request_suspend"):
                self.req_done("suspend", how, res)

    def fire_due(self):
        while self.inj_pos < len(self.inject) and self.inject[self.inj_pos]["at"] <= self.run_steps:
            inj = self.inject[self.inj_pos]
            self.inj_pos += 1
            self.fire(inj)

    def on_idle(self):
        # loop thread, nothing ready, no timers: if `_run` is blocked (not paused) fire the next injection
        with self.lock:
            if not self.run_task_alive:
                return
            st = str(self.RE._state)
            if st in ("paused", "idle", "panicked") or self.at_paused_wait:
                return
            if getattr(self, "last_run_where", None) != "future":
                return
            effective = False
            while self.inj_pos < len(self.inject) and not effective:
                inj = self.inject[self.inj_pos]
                self.inj_pos += 1
                effective = self.fire(inj)
            if not effective:
                # dead-lock: release everything so the case terminates, and say so
                fired = False
                for sid, ev in self.events.items():
                    if not ev.is_set():
                        self.sched.append(["inject", "release", sid, "forced"])
                        ev.set()
                        fired = True
                for st_ in self.statuses:
                    if not st_.done:
                        self.sched.append(["inject", "status", st_.sid, True, "forced"])
                        st_.finish(True)
                        fired = True
                if not fired and not getattr(self, "_dead", False):
                    self._dead = True
                    self.errors.append("deadlock: _run blocked with nothing left to fire")
                    self.RE.loop.create_task(self.RE._halt_coro())

    def fire(self, inj):
        RE = self.RE
        loop = RE.loop
        r = inj["req"]
        if r == "pause":
            self.sched.append(["inject", "pause"])
            self.req_params["pause"].append(False)
            loop.create_task(RE._request_pause_coro(False))
        elif r == "defer":
            self.sched.append(["inject", "defer"])
            self.req_params["pause"].append(True)
            loop.create_task(RE._request_pause_coro(True))
        elif r == "abort":
            self.sched.append(["inject", "abort"])
            self.req_params["abort"].append("because")
            loop.create_task(RE._abort_coro("because"))
        elif r == "stop":
            self.sched.append(["inject", "stop"])
            loop.create_task(RE._stop_coro())
        elif r == "halt":
            self.sched.append(["inject", "halt"])
            loop.create_task(RE._halt_coro())
        elif r == "suspend":
            sid = self.nsusp
            self.nsusp += 1
            ev = asyncio.Event()
            self.events[sid] = ev
            pre = inj.get("pre")
            post = inj.get("post")
            pre_p = post_p = None
            if pre is not None:
                t = self.tapes.setdefault(str(1000 + 2 * sid), [])
                pre_p = taped(build_plan(pre, self), t, self, 1000 + 2 * sid)
            if post is not None:
                t = self.tapes.setdefault(str(1001 + 2 * sid), [])
                post_p = taped(build_plan(post, self), t, self, 1001 + 2 * sid)
            self.sched.append(["inject", "suspend", sid, pre is not None, post is not None])
            self.req_params["suspend"].append([sid, pre is not None, post is not None])
            RE.request_suspend(ev.wait, pre_plan=pre_p, post_plan=post_p, justification=inj.get("just"))
        elif r == "release":
            sid = inj["sid"]
            if sid in self.events and not self.events[sid].is_set():
                self.sched.append(["inject", "release", sid])
                self.events[sid].set()
                return True
            return False
        elif r == "status":
            sid = inj["sid"]
            if sid < len(self.statuses) and not self.statuses[sid].done:
                self.sched.append(["inject", "status", sid, bool(inj.get("ok", True))])
                self.statuses[sid].finish(inj.get("ok", True))
                return True
            return False
        else:
            raise ValueError(r)
        return True

    def on_msg(self, m):
        with self.lock:
            if id(m) in self.msgs and self.msgs[id(m)][1] is m:
                self.obs.append(["msg", self.msgs[id(m)][0], self.msg_list[self.msgs[id(m)][0]]])
            else:
                self.obs.append(["msg", None, self.canon_emsg(m)])

    def canon_emsg(self, m):
        c = self.canon_msg(m)
        if m.command == "_start_suspender":
            pre, post, just, fut = m.args
            c["args"] = [self.fut_sid(fut), pre is not None, post is not None]
        elif m.command == "wait_for":
            c["args"] = [[self.fut_sid(f) for f in m.args[0]]]
        return c

    def fut_sid(self, fut):
        ev = getattr(fut, "__self__", None)
        for sid, e in self.events.items():
            if e is ev:
                return sid
        return -1

    # ---- documents
    def on_doc(self, name, doc):
        with self.lock:
            if name == "start":
                self.run_uids.setdefault(doc["uid"], len(self.run_uids))
                self.obs.append(["doc", "start", self.run_uids[doc["uid"]]])
            elif name == "stop":
                ne = list((doc.get("num_events") or {}).items())
                self.obs.append(["doc", "stop", self.run_uids.get(doc["run_start"], -1), doc["exit_status"], doc.get("reason", ""), ne])
            elif name == "descriptor":
                r = self.run_uids.get(doc["run_start"], -1)
                self.desc_uids[doc["uid"]] = (r, doc["name"])
                self.obs.append(["doc", "descriptor", r, doc["name"], list(doc["data_keys"])])
            elif name == "event":
                r, nm = self.desc_uids.get(doc["descriptor"], (-1, "?"))
                self.obs.append(["doc", "event", r, nm, doc["seq_num"], [[k, v] for k, v in doc["data"].items()]])
            else:
                self.obs.append(["doc", name])

    # ---- running a case
    def run(self):
        from bluesky.run_engine import RunEngine, TransitionError
        from bluesky.utils import RunEngineInterrupted
        case = self.case
        loop = ScaledLoop()
        loop.drv = self
        loop.set_task_factory(lambda lp, coro, **kw: asyncio.Task(LoggedCoro(coro, self), loop=lp, **kw))
        RE = RunEngine({}, loop=loop, context_managers=[])
        self.RE = RE
        RE.record_interruptions = bool(case.get("record_interruptions", False))
        RE.msg_hook = self.on_msg
        def state_hook(new, old):
            if str(new) == "paused":
                self.at_paused_wait = True
            self.obs.append(["state", str(old), str(new)])
        RE.state_hook = state_hook
        import logging
        logging.disable(logging.CRITICAL)
        loop.set_exception_handler(lambda lp, ctx: None)
        RE.subscribe(self.on_doc)
        # silence the engine's prints
        import builtins, bluesky.run_engine as rem
        rem.print = lambda *a, **k: None
        # logged permit
        drv = self

        class LoggedEvent(asyncio.Event):
            def set(self_):
                drv.at_paused_wait = False
                drv.sched.append(["permit_set"])
                super().set()

        def swap():
            ev = LoggedEvent()
            asyncio.Event.set(ev)
            RE._run_permit = ev
        fut = asyncio.run_coroutine_threadsafe(_acall(swap), loop)
        fut.result()
        def wrap_cmd(name, orig):
            async def wrapped(msg):
                try:
                    r = await orig(msg)
                except asyncio.CancelledError:
                    raise
                except Exception as e:
                    with self.lock:
                        self.obs.append(["resp", ["exn", exn_name(e)]])
                    raise
                with self.lock:
                    self.obs.append(["resp", self.canon_val(r)])
                return r
            return wrapped
        for name, orig in list(RE._command_registry.items()):
            RE._command_registry[name] = wrap_cmd(name, orig)
        orig_rt = RE._resume_task

        def resume_task(*a, **k):
            if self.cur_action in ("abort", "stop", "halt"):
                self.sched.append(["resume_task"])
            return orig_rt(*a, **k)
        RE._resume_task = resume_task
        orig_soc = RE._status_object_completed

        def soc(ret, fut, pardon):
            with self.lock:
                self.sched.append(["status_done", ret.sid, bool(ret.success), bool(pardon.is_set())])
            return orig_soc(ret, fut, pardon)
        RE._status_object_completed = soc

        self.devs = [make_dev(self, i, set(fl)) for i, fl in enumerate(case.get("devs", [["stage"], [], ["pause"]]))]
        script = list(case.get("script", []))
        calls = list(case.get("calls", [case.get("plan")]))
        outcomes = []
        ncall = 0

        def do(action):
            nonlocal ncall
            self.cur_action = action
            self.sched.append(["main", action])
            self.obs.append(["main", action])
            try:
                if action == "call":
                    spec = calls[ncall]
                    t = self.tapes.setdefault(str(ncall), [])
                    pid = ncall
                    ncall += 1
                    ret = RE(taped(build_plan(spec, self), t, self, pid))
                elif action == "resume":
                    ret = RE.resume()
                elif action == "abort":
                    self.req_params["abort"].append("main")
                    ret = RE.abort("main")
                elif action == "stop":
                    ret = RE.stop()
                elif action == "halt":
                    ret = RE.halt()
                else:
                    raise ValueError(action)
                out = ["return", self.canon_val(list(ret))]
            except RunEngineInterrupted:
                out = ["interrupted"]
            except BaseException as e:
                cause = e.__cause__
                out = ["raise", exn_name(e), exn_name(cause) if cause is not None else None]
            # let the loop settle (pending request tasks etc.)
            settle(loop)
            out.append(str(RE.state))
            out.append(bool(RE.deferred_pause_requested))
            out.append(bool(RE.resumable))
            with self.lock:
                self.sched.append(["main_done", action])
                self.obs.append(["out", action] + out)

        t0 = _time.time()
        try:
            do("call")
            while True:
                st = str(RE.state)
                if st == "paused":
                    if script:
                        do(script.pop(0))
                    else:
                        do("halt")
                elif st == "idle" and ncall < len(calls):
                    do("call")
                else:
                    break
        except BaseException as e:  # harness failure
            self.errors.append("driver: %s: %s\n%s" % (type(e).__name__, e, traceback.format_exc()[-800:]))
        finally:
            final_obs = list(self.obs)
            final_sched = list(self.sched)
            final_state = str(RE.state)
            try:
                loop.call_soon_threadsafe(loop.stop)
                RE._th.join(timeout=5)
                loop.close()
            except Exception as e:
                self.errors.append("teardown: %r" % (e,))
        return {
            "sched": final_sched, "obs": final_obs, "tapes": self.tapes, "msgs": self.msg_list,
            "devcalls": self.devcalls, "errors": self.errors, "final_state": final_state,
            "wall": round(_time.time() - t0, 3),
        }


async def _acall(f):
    return f()


def kind_of(lc, tok):
    return None


def settle(loop):
    """Wait until the loop thread has drained what is ready (bounded)."""
    for _ in range(3):
        ev = threading.Event()
        loop.call_soon_threadsafe(ev.set)
        ev.wait(2)


def run_case(case, timeout=20.0):
    """Run one case; a case that does not finish within `timeout` s is reported as a driver error
    (its thread is abandoned; pool workers are recycled)."""
    import bluesky.run_engine  # noqa: F401  (the first import can take seconds under load: keep it out of the timed part)
    import bluesky.plans  # noqa: F401
    d = Driver(case)
    box = {}

    def target():
        try:
            box["out"] = d.run()
        except BaseException as e:  # pragma: no cover
            box["out"] = {"errors": ["driver crashed: %r" % (e,)], "sched": d.sched, "obs": d.obs, "tapes": d.tapes,
                          "msgs": d.msg_list, "devcalls": d.devcalls}
    th = threading.Thread(target=target, daemon=True)
    th.start()
    th.join(timeout)
    if th.is_alive():
        return {"errors": ["timeout: case did not finish in %.0fs (state %s)" % (timeout, getattr(d, "RE", None) and str(d.RE.state))],
                "sched": list(d.sched), "obs": list(d.obs), "tapes": d.tapes, "msgs": d.msg_list, "devcalls": d.devcalls}
    return box["out"]


if __name__ == "__main__":
    import json
    import sys
    case = json.loads(sys.argv[1]) if len(sys.argv) > 1 else {
        "plan": ["seq", ["m", "open_run", None, [], {}, None], ["m", "checkpoint", None, [], {}, None],
                 ["m", "null", None, [], {}, None], ["m", "null", None, [], {}, None],
                 ["m", "close_run", None, [], {}, None]],
        "inject": [{"at": 4, "req": "pause"}], "script": ["resume"]}
    out = run_case(case)
    for k in ("sched", "obs"):
        print(k)
        for x in out[k]:
            print("   ", x)
    print({k: v for k, v in out.items() if k not in ("sched", "obs")})
