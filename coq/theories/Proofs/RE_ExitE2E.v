(* C02, end to end: over a whole schedule from [init], the way the outermost plan frame ended
   (the *decision* of a call: the one [CExit x] the `_run` interpreter reaches) determines the
   RunStop of every run the engine closes itself and what the blocking call reports.

   decision   [visited s (s1, CExit x, os1)]: the task step taken from the reachable state s brings
              the interpreter of Engine/RE.v (Proofs/RE_Inv.v: dstep / dreach / visited) to CExit x.
   links      Proofs/RE_Exit.v (exit ladder, finally block), Proofs/RE_Inv.v (pc/state typing).
   override   between the decision and the finally block exactly one thing changes status / reason:
              an abort request (`_abort_coro` writes exit_status 'abort' and its reason before it
              tries the state change, accepted or not); a halt request writes the status only when the
              engine is paused, which it never is while `_run` sits in its final sleep.
   Everything is proved for every plan coalgebra, device oracle and schedule; the only hypothesis is
   that the interpreter's fuel did not run out (reported by the model as OBad 1). *)
From Coq Require Import List String ZArith Bool Arith Lia.
From BV Require Import Engine.RE Engine.REInst Engine.DocMon Proofs.RE_Docs Proofs.RE_DocsCor Proofs.RE_Exit
  Proofs.RE_Small Proofs.RE_Inv Proofs.RE_ExitFrame.
Import ListNotations.
Local Open Scope nat_scope.

Section E2E.
Variable P : Type.
Variable presume : P -> input -> outcome P.
Variable plan_of : nat -> P.
Variable D : Type.
Variable dev : D -> nat -> devmeth -> D * devres.

Local Notation st := (RE.st P D).
Local Notation state := (RE.state P D).
Local Notation pc := (RE.pc P D).
Local Notation must_cancel := (RE.must_cancel P D).
Local Notation stashed := (RE.stashed P D).
Local Notation interrupted := (RE.interrupted P D).
Local Notation bundlers := (RE.bundlers P D).
Local Notation exit_status := (RE.exit_status P D).
Local Notation reason := (RE.reason P D).
Local Notation exit_reason_set := (RE.exit_reason_set P D).
Local Notation main_err := (RE.main_err P D).
Local Notation run_uids := (RE.run_uids P D).
Local Notation deferred := (RE.deferred P D).
Local Notation resumable := (RE.resumable P D).
Local Notation set_state := (RE.set_state P D).
Local Notation dcall := (RE.dcall P D dev).
Local Notation stop_movables := (RE.stop_movables P D dev).
Local Notation call_pausables := (RE.call_pausables P D dev).
Local Notation record_interruptions := (RE.record_interruptions P D).
Local Notation request_pause := (RE.request_pause P D).
Local Notation exec_cmd := (RE.exec_cmd P D dev).
Local Notation exec_start_suspender := (RE.exec_start_suspender P plan_of D dev).
Local Notation finalize := (RE.finalize P presume D dev).
Local Notation drive := (RE.drive P presume plan_of D dev).
Local Notation task_step := (RE.task_step P presume plan_of D dev).
Local Notation step := (RE.step P presume plan_of D dev).
Local Notation run := (RE.run P presume plan_of D dev).
Local Notation init := (RE.init P D).
Local Notation dstep := (RE_Inv.dstep P presume plan_of D dev).
Local Notation dreach := (RE_Inv.dreach P presume plan_of D dev).
Local Notation visited := (RE_Inv.visited P presume plan_of D dev).
Local Notation tentry := (RE_Inv.tentry P presume D dev).
Local Notation IT := (RE_Inv.Inv P D True).
Local Notation DIT := (RE_Inv.DInv P D True).

Local Notation xr := (RE_ExitFrame.xr P D).
Local Notation dstep_xr := (RE_ExitFrame.dstep_xr P presume plan_of D dev).
Local Notation dstep_inr_pc := (RE_ExitFrame.dstep_inr_pc P presume plan_of D dev).

Notation cst cfg := (fst (fst cfg)).
Notation cct cfg := (snd (fst cfg)).

Lemma fin_no_step s r pend os cfg : dstep s (CFinalize r pend) os = inl cfg -> False.
Proof. cbn [RE_Inv.dstep]. destruct (finalize s r pend). discriminate. Qed.

Lemma exit_step_fin s x os cfg : dstep s (CExit x) os = inl cfg -> is_fin (cct cfg) = true.
Proof.
  cbn [RE_Inv.dstep]. intros H. destruct x as [v|e]; [discriminate H|].
  destruct e; inversion H; subst; reflexivity.
Qed.

Lemma dreach_from_fin cfg1 cfg2 : dreach cfg1 cfg2 -> is_fin (cct cfg1) = true -> cfg2 = cfg1.
Proof.
  intros H. destruct H as [cfg | s c os cfgm cfg2 Hst _]; [reflexivity|].
  cbn [fst snd]. intros Hf. destruct c; try discriminate Hf. exfalso. eapply fin_no_step; exact Hst.
Qed.

(* status, reason and the "reason is the exception text" mark are constant from the entry of the
   interpreter up to the CExit it reaches *)
Lemma dreach_xr cfg1 cfg2 :
  dreach cfg1 cfg2 -> is_fin (cct cfg1) = false -> is_exit (cct cfg2) = true -> xr (cst cfg2) = xr (cst cfg1).
Proof.
  induction 1 as [cfg | s c os cfgm cfg2 Hst Hr IH]; intros Hf He; [reflexivity|].
  cbn [fst snd] in *. destruct (is_exit c) eqn:Ec.
  - destruct c; try discriminate Ec. pose proof (exit_step_fin _ _ _ _ Hst) as Hfin.
    pose proof (dreach_from_fin _ _ Hr Hfin). subst cfg2. destruct cfgm as [[sm cm] om]. cbn [fst snd] in *.
    destruct cm; cbn in *; congruence.
  - destruct cfgm as [[sm cm] om]. destruct (dstep_xr _ _ _ _ _ _ Hst Ec) as [Hx Hfm].
    cbn [fst snd] in IH. rewrite (IH Hfm He). exact Hx.
Qed.

(* a task step makes at most one decision *)
Lemma dreach_exit_unique cfg a b :
  dreach cfg a -> dreach cfg b -> is_exit (cct a) = true -> is_exit (cct b) = true -> a = b.
Proof.
  induction 1 as [cfg | s c os cfgm a Hst Hr IH]; intros Hb Ha Heb.
  - destruct Hb as [cfg | s c os cfgm b Hst Hr]; [reflexivity|]. cbn [fst snd] in Ha.
    destruct c; try discriminate Ha. pose proof (exit_step_fin _ _ _ _ Hst) as Hfin.
    pose proof (dreach_from_fin _ _ Hr Hfin). subst b.
    destruct cfgm as [[sm cm] om]. cbn [fst snd] in *. destruct cm; cbn in *; congruence.
  - inversion Hb as [cfg' E1 | s' c' os' cfgm' b' Hst' Hr' E1 E2]; subst.
    + cbn [fst snd] in Heb. destruct c; try discriminate Heb. pose proof (exit_step_fin _ _ _ _ Hst) as Hfin.
      pose proof (dreach_from_fin _ _ Hr Hfin). subst a. destruct cfgm as [[sm cm] om]. cbn [fst snd] in *.
      destruct cm; cbn in *; congruence.
    + rewrite Hst in Hst'. inversion Hst'; subst cfgm'. apply IH; assumption.
Qed.

Theorem decision_unique s s1 x os1 s2 y os2 :
  visited s (s1, CExit x, os1) -> visited s (s2, CExit y, os2) -> (s1, x, os1) = (s2, y, os2).
Proof.
  intros [cfg0 [E0 R0]] [cfg0' [E0' R0']]. rewrite E0 in E0'. inversion E0'; subst cfg0'.
  pose proof (dreach_exit_unique _ _ _ R0 R0' eq_refl eq_refl) as E. inversion E; subst. reflexivity.
Qed.

(* the interpreter follows [dreach] as long as it has fuel *)
Lemma drive_reach cfg1 cfg2 :
  dreach cfg1 cfg2 -> forall fuel,
  In (OBad 1) (snd (drive fuel (cst cfg1) (cct cfg1) (snd cfg1))) \/
  exists k, drive fuel (cst cfg1) (cct cfg1) (snd cfg1) = drive (S k) (cst cfg2) (cct cfg2) (snd cfg2).
Proof.
  induction 1 as [cfg | s c os cfgm cfg2 Hst Hr IH]; intros fuel.
  - destruct fuel as [|k]; [left | right; exists k; reflexivity].
    cbn [RE.drive snd]. apply in_or_app; right; left; reflexivity.
  - cbn [fst snd]. destruct fuel as [|k].
    + left. cbn [RE.drive snd]. apply in_or_app; right; left; reflexivity.
    + rewrite RE_Inv.drive_dstep, Hst. destruct cfgm as [[sm cm] om]. exact (IH k).
Qed.

Lemma finalize_pc s r pend : exists res, pc (fst (finalize s r pend)) = PcDone res.
Proof.
  destruct (finalize s r pend) as [s' o] eqn:E. apply (RE_Exit.finalize_spec P presume D dev) in E as (_ & _ & _ & [F|F]);
    eexists; exact F.
Qed.

(* a CExit configuration, run: either the final sleep, or (unhandled error) the finally block at once *)
Lemma drive_exit_sleep k s x os :
  sleeps x = true ->
  drive (S k) s (CExit x) os =
    (RE.set_pc P D (RE.set_exit P D s (exit_of x) (reason s)) (PcFinalSleep (result_of x)), os ++ [OTask WSleep0]).
Proof. intros Hs. rewrite (exit_mapping P presume plan_of D dev), Hs. reflexivity. Qed.

Definition fail_state (s : st) (e : exn) : st :=
  match e with
  | EGeneratorExit => RE.set_exit P D s XFail (reason s)
  | _ => RE.set_ers P D (RE.set_exit P D s XFail (reason s)) true
  end.

Lemma drive_exit_fail k s e os :
  sleeps (XExn e) = false ->
  drive (S (S k)) s (CExit (XExn e)) os =
    (fst (finalize (fail_state s e) (TReturn NO_RETURN) (Some (raised_of e))),
     os ++ snd (finalize (fail_state s e) (TReturn NO_RETURN) (Some (raised_of e)))).
Proof.
  intros Hs. rewrite (exit_mapping P presume plan_of D dev), Hs. cbv zeta. unfold fail_state. cbn [RE.drive].
  destruct (finalize _ _ _) as [s1 o1]. reflexivity.
Qed.

(* ------------------------------------------------------------------ backwards: how the loop was left *)
Lemma in_bad_snoc (os : list obs) : In (OBad 1) (os ++ [OBad 1]).
Proof. apply in_or_app; right; left; reflexivity. Qed.

Lemma drive_back fuel : forall s c os s' o,
  drive fuel s c os = (s', o) -> ~ In (OBad 1) o -> is_fin c = false ->
  (exists s1 x os1, dreach (s, c, os) (s1, CExit x, os1) /\
     ((sleeps x = true /\ s' = RE.set_pc P D (RE.set_exit P D s1 (exit_of x) (reason s1)) (PcFinalSleep (result_of x)) /\
       o = os1 ++ [OTask WSleep0]) \/
      (exists e, x = XExn e /\ sleeps x = false /\
         s' = fst (finalize (fail_state s1 e) (TReturn NO_RETURN) (Some (raised_of e))) /\
         o = os1 ++ snd (finalize (fail_state s1 e) (TReturn NO_RETURN) (Some (raised_of e))))))
  \/ (xr s' = xr s /\ (pc s' = PcPaused \/ pc s' = PcSleep0 \/ exists k, pc s' = PcCmd k) /\
      forall s1 x os1, ~ dreach (s, c, os) (s1, CExit x, os1)).
Proof.
  induction fuel as [|fuel IH]; intros s c os s' o H Hb Hf.
  { cbn [RE.drive] in H. inversion H; subst. exfalso. apply Hb, in_bad_snoc. }
  destruct (is_exit c) eqn:Ec.
  - destruct c as [| | | | | |x|]; try discriminate Ec. left. exists s, x, os. split; [apply dreach_refl|].
    destruct (sleeps x) eqn:Es.
    + left. rewrite (drive_exit_sleep _ _ _ _ Es) in H. inversion H; subst. repeat split.
    + right. destruct x as [v|e]; [discriminate Es|]. exists e. split; [reflexivity|]. split; [reflexivity|].
      destruct fuel as [|k].
      * exfalso. rewrite (exit_mapping P presume plan_of D dev), Es in H. cbv zeta in H. cbn [RE.drive] in H.
        inversion H; subst. apply Hb, in_bad_snoc.
      * rewrite (drive_exit_fail _ _ _ _ Es) in H. inversion H; subst. split; reflexivity.
  - rewrite RE_Inv.drive_dstep in H. destruct (dstep s c os) as [[[sm cm] om]|[sm om]] eqn:Hst.
    + destruct (dstep_xr _ _ _ _ _ _ Hst Ec) as [Hx Hfm].
      destruct (IH _ _ _ _ _ H Hb Hfm) as [(s1 & x & os1 & Hr & Hcase)|(Hx2 & Hpc & Hno)].
      * left. exists s1, x, os1. split; [eapply dreach_step; eassumption | exact Hcase].
      * right. split; [congruence|]. split; [exact Hpc|].
        intros s1 x os1 Hr. inversion Hr as [cfg' E1 | s0 c0 os0 cfgm' b' Hst' Hr' E1 E2]; subst.
        -- discriminate Ec.
        -- rewrite Hst in Hst'. inversion Hst'; subst cfgm'. exact (Hno _ _ _ Hr').
    + inversion H; subst. right. destruct (dstep_inr_pc _ _ _ _ _ Hst Ec Hf) as [Hx Hpc].
      split; [exact Hx|]. split; [exact Hpc|].
      intros s1 x os1 Hr. inversion Hr as [cfg' E1 | s0 c0 os0 cfgm' b' Hst' Hr' E1 E2]; subst.
      * discriminate Ec.
      * rewrite Hst in Hst'. discriminate Hst'.
Qed.

(* ------------------------------------------------------------------ one step of the task, classified *)
Lemma tentry_fields s s1 c1 os1 :
  tentry s = inl (s1, c1, os1) ->
  is_fin c1 = false /\ exit_status s1 = exit_status s /\ exit_reason_set s1 = exit_reason_set s /\
  reason s1 = (match pc s with PcNotStarted | PcPermit0 => RsEmpty | _ => reason s end).
Proof.
  unfold RE_Inv.tentry. cbv zeta. intros H.
  destruct (pc s) eqn:Epc; repeat (bm_hyp H); inversion H; subst; clear H; norm_if;
    repeat match goal with
           | Hx : request_pause _ _ = _ |- _ => apply request_pause_xr in Hx
           | Hx : RE.finish_read _ _ _ _ _ _ _ = _ |- _ => apply finish_read_xr in Hx
           | Hx : set_state _ _ = Some _ |- _ => apply set_state_xr in Hx
           end;
    rewrite ?(mark_cached_xr P D) in *; unfold RE_ExitFrame.xr in *; simp_st;
    repeat match goal with Hx : (_, _, _) = (_, _, _) |- _ => inversion Hx; clear Hx end;
    repeat split; congruence.
Qed.

Definition is_task (e : event) : bool := match e with EvTask => true | _ => false end.

(* the forward link: the step that makes the decision x *)
Theorem decision_step s s1 x os1 :
  visited s (s1, CExit x, os1) -> ~ In (OBad 1) (snd (task_step s)) ->
  task_step s =
    if sleeps x
    then (RE.set_pc P D (RE.set_exit P D s1 (exit_of x) (reason s1)) (PcFinalSleep (result_of x)), os1 ++ [OTask WSleep0])
    else match x with
         | XExn e => (fst (finalize (fail_state s1 e) (TReturn NO_RETURN) (Some (raised_of e))),
                      os1 ++ snd (finalize (fail_state s1 e) (TReturn NO_RETURN) (Some (raised_of e))))
         | XRet _ => task_step s
         end.
Proof.
  intros [[[sa ca] osa] [He Hr]] Hb. rewrite (task_step_tentry P presume plan_of D dev) in *. rewrite He in *.
  destruct (drive_reach _ _ Hr (RE.FUEL P D sa)) as [Hbad|[k Hk]]; [contradiction|].
  cbn [fst snd] in Hk. rewrite Hk in *. destruct (sleeps x) eqn:Es.
  - apply drive_exit_sleep; exact Es.
  - destruct x as [v|e]; [discriminate Es|]. destruct k as [|k].
    + exfalso. apply Hb. rewrite (exit_mapping P presume plan_of D dev), Es. cbv zeta. cbn [RE.drive snd]. apply in_bad_snoc.
    + apply drive_exit_fail; exact Es.
Qed.

(* the backward link: every way a task step can end *)
Inductive task_end (s s' : st) (o : list obs) : Prop :=
| te_sleep s1 x os1 :              (* the decision, `_run` goes to its final sleep *)
    visited s (s1, CExit x, os1) -> sleeps x = true ->
    s' = RE.set_pc P D (RE.set_exit P D s1 (exit_of x) (reason s1)) (PcFinalSleep (result_of x)) ->
    o = os1 ++ [OTask WSleep0] -> task_end s s' o
| te_fail s1 e os1 :               (* the decision is an unhandled error: the finally block runs at once *)
    visited s (s1, CExit (XExn e), os1) -> sleeps (XExn e) = false ->
    s' = fst (finalize (fail_state s1 e) (TReturn NO_RETURN) (Some (raised_of e))) ->
    o = os1 ++ snd (finalize (fail_state s1 e) (TReturn NO_RETURN) (Some (raised_of e))) -> task_end s s' o
| te_final r :                     (* the step out of the final sleep: the finally block *)
    pc s = PcFinalSleep r ->
    (s', o) = finalize (RE.set_must_cancel P D s false) r (if must_cancel s then Some ECancelled else None) ->
    task_end s s' o
| te_loop :                        (* `_run` stays in its loop: no decision, no finally block *)
    (forall s1 x os1, ~ visited s (s1, CExit x, os1)) ->
    RE_ExitFrame.xr P D s' = (exit_status s, match pc s with PcNotStarted | PcPermit0 => RsEmpty | _ => reason s end, exit_reason_set s) ->
    (pc s' = PcPaused \/ pc s' = PcSleep0 \/ exists k, pc s' = PcCmd k) -> task_end s s' o
| te_idle :                        (* nothing to run, or the task still waits for its permit *)
    (forall s1 x os1, ~ visited s (s1, CExit x, os1)) -> RE_ExitFrame.xr P D s' = RE_ExitFrame.xr P D s ->
    (s' = s \/ (pc s = PcNotStarted /\ pc s' = PcPermit0)) -> docs_of o = [] -> task_end s s' o
| te_cancelled :                   (* cancelled before it started *)
    (forall s1 x os1, ~ visited s (s1, CExit x, os1)) -> RE_ExitFrame.xr P D s' = RE_ExitFrame.xr P D s ->
    (pc s = PcNotStarted \/ pc s = PcPermit0) -> must_cancel s = true ->
    pc s' = PcDone (TRaise ECancelled) -> o = [OTask (WRaise ECancelled)] -> task_end s s' o.

Lemma not_visited_inr s r : tentry s = inr r -> forall s1 x os1, ~ visited s (s1, CExit x, os1).
Proof. intros E s1 x os1 [cfg0 [E0 _]]. rewrite E in E0. discriminate E0. Qed.

Theorem task_step_classified s s' o :
  task_step s = (s', o) -> ~ In (OBad 1) o -> task_end s s' o.
Proof.
  intros H Hb. rewrite (task_step_tentry P presume plan_of D dev) in H.
  destruct (tentry s) as [[[sa ca] osa]|[sr or]] eqn:Et.
  - destruct (tentry_fields _ _ _ _ Et) as (Hf & Hxs & Hers & Hrs).
    destruct (drive_back _ _ _ _ _ _ H Hb Hf) as [(s1 & x & os1 & Hr & [(Es & E1 & E2)|(e & -> & Es & E1 & E2)])|(Hx & Hpc & Hno)].
    + eapply te_sleep; try eassumption. exists (sa, ca, osa). split; [exact Et | exact Hr].
    + eapply te_fail; try eassumption. exists (sa, ca, osa). split; [exact Et | exact Hr].
    + apply te_loop; try assumption.
      * intros s1 x os1 [cfg0 [E0 R0]]. rewrite Et in E0. inversion E0; subst cfg0. exact (Hno _ _ _ R0).
      * rewrite Hx. unfold RE_ExitFrame.xr. rewrite Hxs, Hers, Hrs. reflexivity.
  - inversion H; subst sr or. clear H. pose proof (not_visited_inr _ _ Et) as Hnv.
    unfold RE_Inv.tentry in Et. cbv zeta in Et.
    destruct (pc s) eqn:Epc.
    + inversion Et; subst. apply te_idle; auto.
    + destruct (must_cancel s) eqn:Emc.
      * inversion Et; subst. apply te_cancelled; auto.
      * simp_st. destruct (RE.permit P D s) eqn:Ep.
        -- unfold RE.set_state in Et. simp_st. destruct (allowed (state s) Running); discriminate Et.
        -- inversion Et; subst. apply te_idle; auto.
    + destruct (must_cancel s) eqn:Emc.
      * inversion Et; subst. apply te_cancelled; auto.
      * unfold RE.set_state in Et. simp_st. destruct (allowed (state s) Running); discriminate Et.
    + destruct (must_cancel s); discriminate Et.
    + destruct (must_cancel s); [discriminate Et|]. simp_st. destruct (negb (RE.permit P D s)).
      * inversion Et; subst. apply te_idle; auto.
      * unfold RE.set_state in Et. simp_st. destruct (rstate_eqb (state s) Paused); [destruct (allowed (state s) Running)|]; discriminate Et.
    + destruct (must_cancel s); [discriminate Et|]. destruct k; try discriminate Et.
      * destruct (request_pause _ _) as [[? ?] ?]. discriminate Et.
      * destruct (RE.finish_read _ _ _ _ _ _ _) as [[? ?] ?]. discriminate Et.
    + eapply te_final; [exact Epc|]. destruct (must_cancel s); inversion Et; reflexivity.
    + inversion Et; subst. apply te_idle; auto.
Qed.

(* ------------------------------------------------------------------ every other event *)
Definition accepted_call (s : st) (e : event) : bool :=
  match e with EvMain (ACall _) => rstate_eqb (state s) Idle | _ => false end.

(* THE OVERRIDE RULE of the model (= of `_abort_coro` / `_halt_coro`): besides the `_run` task itself
   and a new call, exit status and reason are written by
   - an abort request on an engine that is not idle: status 'abort' and the given reason, whether or
     not the state machine then accepts the move to 'aborting';
   - a halt request that finds the engine paused: status 'abort', reason untouched. *)
Definition override_at (s : st) (e : event) : exit_st * reason_t :=
  match e with
  | EvReqAbort rs => if rstate_eqb (state s) Idle then (exit_status s, reason s) else (XAbort, rs)
  | EvReqHalt => if rstate_eqb (state s) Paused then (XAbort, reason s) else (exit_status s, reason s)
  | _ => (exit_status s, reason s)
  end.

Lemma record_interruptions_pc s s' o ok : record_interruptions s = (s', o, ok) -> pc s' = pc s.
Proof. intros H. apply (RE_Inv.record_interruptions_same P D) in H. apply H. Qed.
Lemma rewind_pc s s' l : RE.rewind P D s = (s', l) -> pc s' = pc s.
Proof. intros H. apply (RE_Inv.rewind_same P D) in H. apply H. Qed.
Lemma call_pausables_pc s m s' e o : call_pausables s m = (s', e, o) -> pc s' = pc s.
Proof. intros H. apply (RE_Inv.call_pausables_same P D dev) in H. apply H. Qed.

Lemma keep_fields s s' : keep P D s s' ->
  pc s' = pc s /\ exit_reason_set s' = exit_reason_set s /\ (exit_status s', reason s') = (exit_status s, reason s).
Proof. intros (A & B & C & E). repeat split; try assumption. congruence. Qed.

Lemma step_nontask s e s' o :
  is_task e = false -> accepted_call s e = false -> step s e = (s', o) ->
  pc s' = pc s /\ exit_reason_set s' = exit_reason_set s /\ (exit_status s', reason s') = override_at s e.
Proof.
  intros Ht Ha H.
  assert (Hk : decides e = false -> pc s' = pc s /\ exit_reason_set s' = exit_reason_set s /\
                                    (exit_status s', reason s') = (exit_status s, reason s)).
  { intros Hd. apply keep_fields. eapply keep_until_finalize; eassumption. }
  destruct e as [a|a| | |defer|rs| | |sid pre post|sid|sid ok| |]; try discriminate Ht; try (apply Hk; reflexivity);
    cbn [override_at].
  - (* EvMain *)
    destruct a as [pid| | | |].
    + cbn [accepted_call] in Ha. cbn [RE.step] in H. rewrite Ha in H. cbn [negb] in H. inversion H; subst. repeat split.
    + cbn [RE.step] in H. destruct (negb (rstate_eqb (state s) Paused)) eqn:Ep; rewrite ?Ep in H; [inversion H; subst; repeat split|].
      repeat (bm_hyp H);
        repeat match goal with
               | Hx : record_interruptions _ = _ |- _ =>
                   pose proof (record_interruptions_pc _ _ _ _ Hx); apply (record_interruptions_xr P D) in Hx
               | Hx : RE.rewind _ _ _ = _ |- _ => pose proof (rewind_pc _ _ _ Hx); apply (rewind_xr P D) in Hx
               | Hx : call_pausables _ _ = _ |- _ =>
                   pose proof (call_pausables_pc _ _ _ _ _ Hx); apply (call_pausables_xr P D dev) in Hx
               end;
        inversion H; subst; clear H; unfold RE_ExitFrame.xr in *; simp_st;
        repeat match goal with Hx : (_, _, _) = (_, _, _) |- _ => inversion Hx; clear Hx end;
        repeat split; congruence.
    + cbn [RE.step] in H. inversion H; subst. repeat split.
    + cbn [RE.step] in H. inversion H; subst. repeat split.
    + cbn [RE.step] in H. inversion H; subst. repeat split.
  - (* EvReqAbort *)
    cbn [RE.step] in H. destruct (rstate_eqb (state s) Idle) eqn:Ei; rewrite ?Ei in H.
    + unfold RE.req_result in H. inversion H; subst. destruct (RE.mreq P D s); repeat split.
    + unfold RE.set_state, RE.req_result, RE.cancel_task in H. simp_st.
      repeat (bm_hyp H); norm_if; inversion H; subst; clear H; simp_st; repeat split; congruence.
  - (* EvReqHalt *)
    cbn [RE.step] in H. destruct (rstate_eqb (state s) Idle) eqn:Ei; rewrite ?Ei in H.
    + assert (Hp : rstate_eqb (state s) Paused = false).
      { apply rstate_eqb_true in Ei. rewrite Ei. reflexivity. }
      rewrite Hp. unfold RE.req_result in H. inversion H; subst. destruct (RE.mreq P D s); repeat split.
    + simp_st. destruct (rstate_eqb (state s) Paused) eqn:Ep; rewrite ?Ep in H.
      * apply rstate_eqb_true in Ep. unfold RE.set_state, RE.req_result in H. simp_st. rewrite Ep in H.
        change (allowed Paused Halting) with true in H. cbv iota in H.
        repeat (bm_hyp H); norm_if; inversion H; subst; clear H; simp_st; repeat split; congruence.
      * unfold RE.set_state, RE.req_result, RE.cancel_task in H. simp_st.
        repeat (bm_hyp H); norm_if; inversion H; subst; clear H; simp_st; repeat split; congruence.
Qed.

(* a call accepted by the idle engine starts from a clean slate *)
Lemma step_call s pid s' o :
  state s = Idle -> step s (EvMain (ACall pid)) = (s', o) ->
  pc s' = PcNotStarted /\ exit_status s' = XSuccess /\ reason s' = RsEmpty /\ exit_reason_set s' = false /\
  interrupted s' = false /\ main_err s' = None /\ run_uids s' = [] /\ state s' = Idle.
Proof.
  intros Hi. cbn [RE.step]. rewrite Hi. change (negb (rstate_eqb Idle Idle)) with false. cbv iota.
  intros H; inversion H; subst. simp_st. repeat split; assumption.
Qed.

(* ------------------------------------------------------------------ schedules without fuel exhaustion *)
Definition nobad (s : st) (evs : list event) : Prop := ~ In (OBad 1) (snd (run s evs)).

Lemma run_cons s e evs :
  run s (e :: evs) = (fst (run (fst (step s e)) evs), snd (step s e) ++ snd (run (fst (step s e)) evs)).
Proof. cbn [RE.run]. destruct (step s e) as [s1 o1]. cbn [fst snd]. destruct (run s1 evs); reflexivity. Qed.

Lemma nobad_cons s e evs : nobad s (e :: evs) -> ~ In (OBad 1) (snd (step s e)) /\ nobad (fst (step s e)) evs.
Proof.
  unfold nobad. rewrite run_cons. cbn [snd]. intros H. split; intros Hx; apply H, in_or_app; [left | right]; exact Hx.
Qed.

Lemma run_app_eq s a b :
  run s (a ++ b) = (fst (run (fst (run s a)) b), snd (run s a) ++ snd (run (fst (run s a)) b)).
Proof.
  rewrite (RE_Small.run_app P presume plan_of D dev). destruct (run s a) as [s1 o1]. cbn [fst snd].
  destruct (run s1 b); reflexivity.
Qed.

Lemma nobad_app s a b : nobad s (a ++ b) -> nobad s a /\ nobad (fst (run s a)) b.
Proof.
  unfold nobad. rewrite run_app_eq. cbn [snd]. intros H. split; intros Hx; apply H, in_or_app; [left | right]; exact Hx.
Qed.

(* the invariant used below: the typing invariant of Proofs/RE_Inv.v (without its ghost clause) and
   "the reason is marked as the exception text only once the task has finished" *)
Definition Good (s : st) : Prop := IT s /\ (exit_reason_set s = true -> exists r, pc s = PcDone r).

Lemma Good_init d paus stag rec : Good (init d paus stag rec).
Proof. split; [apply RE_Inv.Inv_init | intros H; discriminate H]. Qed.

Lemma visited_fields s s1 x os1 :
  visited s (s1, CExit x, os1) ->
  exit_status s1 = exit_status s /\ exit_reason_set s1 = exit_reason_set s /\
  reason s1 = (match pc s with PcNotStarted | PcPermit0 => RsEmpty | _ => reason s end) /\
  (forall r, pc s <> PcDone r).
Proof.
  intros [[[sa ca] osa] [Et Hr]]. destruct (tentry_fields _ _ _ _ Et) as (Hf & A & B & C).
  pose proof (dreach_xr _ _ Hr Hf eq_refl) as Hx. cbn [fst snd] in Hx. unfold RE_ExitFrame.xr in Hx.
  inversion Hx. repeat split; try congruence.
  intros r Hp. unfold RE_Inv.tentry in Et. rewrite Hp in Et. discriminate Et.
Qed.

Lemma Good_step s e : Good s -> ~ In (OBad 1) (snd (step s e)) -> Good (fst (step s e)).
Proof.
  intros [HI HJ] Hb. destruct (step s e) as [s' o] eqn:Hs. cbn [fst snd] in *. split.
  - destruct (RE_Inv.step_inv P presume plan_of D dev True (fun _ => I) s e s' o (fun _ => I) HI Hs) as [H|(_ & _ & H)];
      [exact H | contradiction].
  - destruct (is_task e) eqn:Et.
    + destruct e; try discriminate Et. cbn [RE.step] in Hs.
      destruct (exit_reason_set s) eqn:Ee.
      * destruct (HJ eq_refl) as [r Hp]. unfold RE.task_step in Hs. rewrite Hp in Hs. inversion Hs; subst. intros _. exists r; exact Hp.
      * destruct (task_step_classified _ _ _ Hs Hb) as
          [s1 x os1 Hv Es -> _ | s1 e1 os1 Hv Es -> _ | r Hp Hf | _ Hx _ | _ Hx _ _ | _ Hx _ _ _ _].
        -- destruct (visited_fields _ _ _ _ Hv) as (_ & B & _). simp_st. congruence.
        -- intros _. apply finalize_pc.
        -- intros _. destruct (finalize_pc (RE.set_must_cancel P D s false) r (if must_cancel s then Some ECancelled else None)) as [res Hr].
           rewrite <- Hf in Hr. exists res; exact Hr.
        -- unfold RE_ExitFrame.xr in Hx. inversion Hx. congruence.
        -- unfold RE_ExitFrame.xr in Hx. inversion Hx. congruence.
        -- unfold RE_ExitFrame.xr in Hx. inversion Hx. congruence.
    + destruct (accepted_call s e) eqn:Ea.
      * destruct e as [a| | | | | | | | | | | |]; try discriminate Ea. destruct a; try discriminate Ea.
        cbn [accepted_call] in Ea. apply rstate_eqb_true in Ea.
        destruct (step_call _ _ _ _ Ea Hs) as (_ & _ & _ & E & _). congruence.
      * destruct (step_nontask _ _ _ _ Et Ea Hs) as (A & B & _). rewrite A, B. exact HJ.
Qed.

Lemma Good_run : forall evs s, Good s -> nobad s evs -> Good (fst (run s evs)).
Proof.
  induction evs as [|e evs IH]; intros s HG Hb; [exact HG|].
  rewrite run_cons. cbn [fst]. apply nobad_cons in Hb as [Hb1 Hb2]. apply IH; [apply Good_step; assumption | exact Hb2].
Qed.

Lemma Good_live_final s r : Good s -> pc s = PcFinalSleep r -> live_state (state s) = true /\ exit_reason_set s = false.
Proof.
  intros [HI HJ] Hp. pose proof (RE_Inv.inv_pc_state P D True s HI) as H1. rewrite Hp in H1. split; [exact H1|].
  destruct (exit_reason_set s); [|reflexivity]. destruct (HJ eq_refl) as [r' Hr]. congruence.
Qed.

(* ------------------------------------------------------------------ the final sleep *)
Definition override (sr : exit_st * reason_t) (e : event) : exit_st * reason_t :=
  match e with EvReqAbort rs => (XAbort, rs) | _ => sr end.
Definition no_task (evs : list event) : bool := forallb (fun e => negb (is_task e)) evs.

Lemma sleep_window : forall evsB s r,
  Good s -> pc s = PcFinalSleep r -> no_task evsB = true -> nobad s evsB ->
  Good (fst (run s evsB)) /\ pc (fst (run s evsB)) = PcFinalSleep r /\
  (exit_status (fst (run s evsB)), reason (fst (run s evsB))) = fold_left override evsB (exit_status s, reason s).
Proof.
  induction evsB as [|e evsB IH]; intros s r HG Hp Hn Hb; [cbn [RE.run fst fold_left]; split; [exact HG | split; [exact Hp | reflexivity]]|].
  cbn [no_task forallb] in Hn. apply andb_true_iff in Hn as [Hn1 Hn2]. apply negb_true_iff in Hn1.
  apply nobad_cons in Hb as [Hb1 Hb2]. pose proof (Good_step _ e HG Hb1) as HG1.
  rewrite run_cons. cbn [fst fold_left].
  destruct (Good_live_final _ _ HG Hp) as [Hl _].
  assert (Hni : rstate_eqb (state s) Idle = false) by (destruct (state s); try discriminate Hl; reflexivity).
  assert (Hnp : rstate_eqb (state s) Paused = false) by (destruct (state s); try discriminate Hl; reflexivity).
  assert (Ha : accepted_call s e = false).
  { destruct e as [a| | | | | | | | | | | |]; try reflexivity. destruct a; try reflexivity. exact Hni. }
  destruct (step s e) as [s1 o1] eqn:Hs. cbn [fst snd] in *.
  destruct (step_nontask _ _ _ _ Hn1 Ha Hs) as (A & _ & C).
  assert (Ho : override_at s e = override (exit_status s, reason s) e).
  { destruct e; cbn [override_at override]; rewrite ?Hni, ?Hnp; reflexivity. }
  rewrite <- Ho, <- C. apply IH; try assumption. congruence.
Qed.

(* the step out of the final sleep *)
Lemma final_step s r s' o :
  Good s -> pc s = PcFinalSleep r -> step s EvTask = (s', o) ->
  docs_of o = stops_of (bundlers s) (exit_status s) (reason s) /\
  state s' = Idle /\ bundlers s' = [] /\ interrupted s' = interrupted s /\
  exists res, pc s' = PcDone res /\ (normal_done r = true -> normal_done res = true).
Proof.
  intros HG Hp Hs. destruct (Good_live_final _ _ HG Hp) as [Hl He].
  cbn [RE.step] in Hs. rewrite (final_sleep_step P presume plan_of D dev s r Hp) in Hs.
  pose proof (RE_Exit.finalize_spec P presume D dev _ _ _ _ _ Hs) as (F1 & _).
  pose proof (RE_Inv.finalize_spec P presume D dev _ _ _ _ _ Hs) as F.
  simp_st. rewrite He in F1.
  destruct F as (G1 & G2 & _ & G4 & _ & _ & _ & _ & _ & _ & G11 & _); [apply RE_Inv.allowed_to_idle; left; exact Hl|].
  repeat split; try assumption.
  - eexists. split; [exact G4|]. unfold RE_Inv.final_res. simp_st. intros Hr.
    destruct (must_cancel s); [reflexivity|]. destruct (stashed s) as [[]|]; try reflexivity; exact Hr.
Qed.

(* ------------------------------------------------------------------ the interruption mark in the final sleep *)
Definition marks (e : event) : bool :=
  match e with EvReqAbort _ | EvReqStop | EvReqHalt => true | _ => false end.
Definition is_main (e : event) : bool := match e with EvMain _ => true | _ => false end.
Definition no_main (evs : list event) : bool := forallb (fun e => negb (is_main e)) evs.
Definition is_call (a : mainact) : bool := match a with ACall _ | AResume => true | _ => false end.

Lemma live_step_mark s e s' o :
  live_state (state s) = true -> is_task e = false -> step s e = (s', o) ->
  (interrupted s = true \/ marks e = true) -> interrupted s' = true.
Proof.
  intros Hl Ht Hs Hm.
  assert (Hni : state s <> Idle) by (intros E; rewrite E in Hl; discriminate Hl).
  assert (Hnp : rstate_eqb (state s) Paused = false) by (destruct (state s); try discriminate Hl; reflexivity).
  destruct (marks e) eqn:Em.
  - destruct e; try discriminate Em.
    + eapply abort_request_sets_reason; eassumption.
    + eapply stop_halt_request_marks; [left; reflexivity | exact Hni | exact Hs].
    + eapply stop_halt_request_marks; [right; reflexivity | exact Hni | exact Hs].
  - destruct Hm as [Hm|Hm]; [|discriminate Hm].
    destruct e as [a| | | | | | | | | | | |]; try discriminate Ht;
      try (eapply interrupted_sticky; [|exact Hs|exact Hm]; exact I).
    destruct a; try (eapply interrupted_sticky; [|exact Hs|exact Hm]; exact I).
    + cbn [RE.step] in Hs. apply rstate_eqb_false in Hni. rewrite Hni in Hs. cbn [negb] in Hs. inversion Hs; subst. exact Hm.
    + cbn [RE.step] in Hs. rewrite Hnp in Hs. cbn [negb] in Hs. inversion Hs; subst. exact Hm.
Qed.

Lemma sleep_window_mark : forall evsB s r,
  Good s -> pc s = PcFinalSleep r -> no_task evsB = true -> nobad s evsB ->
  (interrupted s = true \/ existsb marks evsB = true) -> interrupted (fst (run s evsB)) = true.
Proof.
  induction evsB as [|e evsB IH]; intros s r HG Hp Hn Hb Hm.
  - destruct Hm as [Hm|Hm]; [exact Hm | discriminate Hm].
  - cbn [no_task forallb] in Hn. apply andb_true_iff in Hn as [Hn1 Hn2]. apply negb_true_iff in Hn1.
    pose proof (sleep_window [e] s r HG Hp) as Hw. cbn [no_task forallb] in Hw. rewrite Hn1 in Hw.
    apply nobad_cons in Hb as [Hb1 Hb2].
    assert (Hb1' : nobad s [e]).
    { unfold nobad. rewrite run_cons. cbn [RE.run snd]. rewrite app_nil_r. exact Hb1. }
    destruct (Hw eq_refl Hb1') as (HG1 & Hp1 & _). rewrite run_cons in HG1, Hp1. cbn [RE.run fst] in HG1, Hp1.
    rewrite run_cons. cbn [fst]. eapply IH; try eassumption.
    cbn [existsb] in Hm. destruct (Good_live_final _ _ HG Hp) as [Hl _].
    destruct (step s e) as [s1 o1] eqn:Hs. cbn [fst] in *.
    destruct (existsb marks evsB) eqn:Ex; [right; reflexivity|]. left.
    eapply live_step_mark; [exact Hl | exact Hn1 | exact Hs |].
    destruct Hm as [Hm|Hm]; [left; exact Hm | right]. rewrite orb_false_r in Hm. exact Hm.
Qed.

(* ------------------------------------------------------------------ after the task has finished *)
Lemma done_window : forall evsC s res,
  Good s -> pc s = PcDone res -> no_main evsC = true -> nobad s evsC ->
  Good (fst (run s evsC)) /\ pc (fst (run s evsC)) = PcDone res /\
  (interrupted s = true -> interrupted (fst (run s evsC)) = true).
Proof.
  induction evsC as [|e evsC IH]; intros s res HG Hp Hn Hb; [cbn [RE.run fst]; auto|].
  cbn [no_main forallb] in Hn. apply andb_true_iff in Hn as [Hn1 Hn2]. apply negb_true_iff in Hn1.
  apply nobad_cons in Hb as [Hb1 Hb2]. pose proof (Good_step _ e HG Hb1) as HG1.
  rewrite run_cons. cbn [fst].
  destruct (step s e) as [s1 o1] eqn:Hs. cbn [fst snd] in *.
  assert (Hp1 : pc s1 = PcDone res).
  { destruct (is_task e) eqn:Et.
    - destruct e; try discriminate Et. cbn [RE.step] in Hs. unfold RE.task_step in Hs. rewrite Hp in Hs. inversion Hs; subst. exact Hp.
    - assert (Ha : accepted_call s e = false) by (destruct e; try reflexivity; discriminate Hn1).
      destruct (step_nontask _ _ _ _ Et Ha Hs) as (A & _). congruence. }
  destruct (IH s1 res HG1 Hp1 Hn2 Hb2) as (I1 & I2 & I3). split; [exact I1 | split; [exact I2|]].
  intros Hi. apply I3. eapply interrupted_sticky; [|exact Hs|exact Hi].
  destruct e as [a| | | | | | | | | | | |]; try exact I. discriminate Hn1.
Qed.

(* what RE(...) / resume() report, in every case *)
Lemma maindone_call s a :
  is_call a = true ->
  snd (step s (EvMainDone a)) =
    [OOut (match main_err s with
           | Some e => OutRaise e
           | None => match pc s with
                     | PcDone (TRaise ECancelled) => if interrupted s then OutInterrupted else OutReturn (run_uids s)
                     | PcDone (TRaise e) => OutRaise e
                     | _ => if interrupted s then OutInterrupted else OutReturn (run_uids s)
                     end
           end) (state s) (deferred s) (resumable s)].
Proof.
  intros Ha. cbn [RE.step snd]. destruct (main_err s); [reflexivity|].
  destruct a; try discriminate Ha; destruct (pc s) as [| | | | |k|r|r]; try reflexivity;
    destruct r as [v|e]; try reflexivity; destruct e; reflexivity.
Qed.

Lemma normal_done_outcome s res a :
  is_call a = true -> pc s = PcDone res -> normal_done res = true ->
  snd (step s (EvMainDone a)) =
    [OOut (match main_err s with
           | Some e => OutRaise e
           | None => if interrupted s then OutInterrupted else OutReturn (run_uids s)
           end) (state s) (deferred s) (resumable s)].
Proof.
  intros Ha Hp Hn. rewrite (maindone_call _ _ Ha), Hp. destruct (main_err s); [reflexivity|].
  destruct res as [v|e]; [reflexivity|]. destruct e; try discriminate Hn. reflexivity.
Qed.


(* ------------------------------------------------------------------ where the reason comes from *)
Lemma finalize_xr s r pend s' o : finalize s r pend = (s', o) -> RE_ExitFrame.xr P D s' = RE_ExitFrame.xr P D s.
Proof.
  unfold RE.finalize.
  destruct (stop_movables (RE.set_pardon P D s true)) as [s2 o2] eqn:E2. apply (stop_movables_xr P D dev) in E2.
  match goal with |- context [fold_left ?f ?l ?a] => destruct (fold_left f l a) as [s3 o3] eqn:E3 end.
  assert (E3' : RE_ExitFrame.xr P D s3 = RE_ExitFrame.xr P D s2).
  { revert E3. generalize (RE.staged P D s2) (@nil obs). intros l. generalize s2.
    induction l as [|d0 l IH]; intros sx o0 H; cbn in H.
    - inversion H; subst; reflexivity.
    - destruct (dcall sx d0 MUnstage) as [[sa ra] oa] eqn:E. apply (dcall_xr P D dev) in E. apply IH in H. congruence. }
  unfold RE.set_state. destruct (allowed _ Idle); intros H; inversion H; subst; unfold RE_ExitFrame.xr in *; simp_st; congruence.
Qed.

(* the reason recorded in an engine-made RunStop is "" or the reason of an abort request: [reason]
   is written by nothing else (RsExnText is substituted by the finally block when the task failed) *)
Theorem reason_provenance s e s' o :
  step s e = (s', o) -> ~ In (OBad 1) o ->
  reason s' = reason s \/ reason s' = RsEmpty \/ exists rs, e = EvReqAbort rs /\ reason s' = rs.
Proof.
  intros Hs Hb. destruct (is_task e) eqn:Et.
  - destruct e; try discriminate Et. cbn [RE.step] in Hs.
    destruct (task_step_classified _ _ _ Hs Hb) as
      [s1 x os1 Hv Es -> _ | s1 e1 os1 Hv Es -> _ | r Hp Hf | _ Hx _ | _ Hx _ _ | _ Hx _ _ _ _].
    + destruct (visited_fields _ _ _ _ Hv) as (_ & _ & C & _). simp_st. rewrite C. destruct (pc s); auto.
    + destruct (visited_fields _ _ _ _ Hv) as (_ & _ & C & _).
      destruct (finalize (fail_state s1 e1) (TReturn NO_RETURN) (Some (raised_of e1))) as [sx ox] eqn:Ef.
      apply finalize_xr in Ef. cbn [fst]. unfold RE_ExitFrame.xr in Ef. inversion Ef as [[A B E]].
      assert (Hr : reason (fail_state s1 e1) = reason s1) by (unfold fail_state; destruct e1; reflexivity).
      rewrite B, Hr, C. destruct (pc s); auto.
    + symmetry in Hf. apply finalize_xr in Hf. unfold RE_ExitFrame.xr in Hf. inversion Hf. left. simp_st. congruence.
    + unfold RE_ExitFrame.xr in Hx. inversion Hx as [[A B E]]. rewrite B. destruct (pc s); auto.
    + unfold RE_ExitFrame.xr in Hx. inversion Hx. auto.
    + unfold RE_ExitFrame.xr in Hx. inversion Hx. auto.
  - destruct (accepted_call s e) eqn:Ea.
    + destruct e as [a| | | | | | | | | | | |]; try discriminate Ea. destruct a; try discriminate Ea.
      cbn [accepted_call] in Ea. apply rstate_eqb_true in Ea.
      destruct (step_call _ _ _ _ Ea Hs) as (_ & _ & E & _). auto.
    + destruct (step_nontask _ _ _ _ Et Ea Hs) as (_ & _ & C).
      destruct e; cbn [override_at] in C; try (inversion C; auto; fail).
      * destruct (rstate_eqb (state s) Idle); inversion C; [auto|]. right; right. eexists; split; reflexivity.
      * destruct (rstate_eqb (state s) Paused); inversion C; auto.
Qed.

(* ------------------------------------------------------------------ the decision, computed *)
Fixpoint find_exit (fuel : nat) (s : st) (c : ctl) (os : list obs) : option (st * xkind * list obs) :=
  match c with
  | CExit x => Some (s, x, os)
  | _ => match fuel with
         | 0 => None
         | S k => match dstep s c os with
                  | inl (s1, c1, os1) => find_exit k s1 c1 os1
                  | inr _ => None
                  end
         end
  end.

Definition decision (s : st) : option (st * xkind * list obs) :=
  match tentry s with
  | inl (s1, c1, os1) => find_exit (RE.FUEL P D s1) s1 c1 os1
  | inr _ => None
  end.

Lemma find_exit_S k s c os :
  is_exit c = false ->
  find_exit (S k) s c os = match dstep s c os with
                           | inl (s1, c1, os1) => find_exit k s1 c1 os1
                           | inr _ => None
                           end.
Proof. destruct c; intros H; try discriminate H; reflexivity. Qed.

Lemma find_exit_dreach fuel : forall s c os s1 x os1,
  find_exit fuel s c os = Some (s1, x, os1) -> dreach (s, c, os) (s1, CExit x, os1).
Proof.
  induction fuel as [|k IH]; intros s c os s1 x os1 H.
  - destruct c; try discriminate H. inversion H; subst. apply dreach_refl.
  - destruct (is_exit c) eqn:Ec.
    + destruct c; try discriminate Ec. inversion H; subst. apply dreach_refl.
    + rewrite (find_exit_S _ _ _ _ Ec) in H.
      destruct (dstep s c os) as [[[sm cm] om]|r] eqn:Hst; [|discriminate H].
      eapply dreach_step; [exact Hst | apply IH; exact H].
Qed.

Theorem decision_visited s s1 x os1 : decision s = Some (s1, x, os1) -> visited s (s1, CExit x, os1).
Proof.
  unfold decision. destruct (tentry s) as [[[sa ca] osa]|r] eqn:Et; [|discriminate].
  
  intros H. exists (sa, ca, osa). split; [exact Et | apply find_exit_dreach with (fuel := RE.FUEL P D sa); exact H].
Qed.

(* ================================================================== C02, end to end *)
Section Schedule.
Variables (d : D) (paus stag : list nat) (rec : bool).
Let s_i := init d paus stag rec.

(* (A) the outermost plan frame ended in a way `_run` survives (plan returned, RequestStop,
   RequestAbort, PlanHalt, FailedPause, CancelledError): at the decision the status is [exit_of x];
   whatever happens while `_run` sleeps, its next step closes every run still open with that status,
   overridden by the abort requests that arrived meanwhile (the last one wins: status 'abort' and its
   reason); the engine is idle with no run left; RE()/resume() then report RunEngineInterrupted iff
   the interruption mark is set (and it is set whenever it was set at the decision or a
   stop/abort/halt request arrived during the sleep), else the run uids. *)
Theorem end_to_end_sleep evs0 evsB evsC a s1 x os1 :
  nobad s_i (evs0 ++ EvTask :: evsB ++ EvTask :: evsC) ->
  let s0 := fst (run s_i evs0) in
  visited s0 (s1, CExit x, os1) -> sleeps x = true ->
  no_task evsB = true -> no_main evsC = true -> is_call a = true ->
  let sd := fst (step s0 EvTask) in
  let sb := fst (run sd evsB) in
  let sf := fst (step sb EvTask) in
  let sC := fst (run sf evsC) in
  let xr_fin := fold_left override evsB (exit_of x, reason s1) in
  step s0 EvTask = (RE.set_pc P D (RE.set_exit P D s1 (exit_of x) (reason s1)) (PcFinalSleep (result_of x)), os1 ++ [OTask WSleep0]) /\
  docs_of (snd (step sb EvTask)) = stops_of (bundlers sb) (fst xr_fin) (snd xr_fin) /\
  state sf = Idle /\ bundlers sf = [] /\
  snd (step sC (EvMainDone a)) =
    [OOut (match main_err sC with
           | Some e => OutRaise e
           | None => if interrupted sC then OutInterrupted else OutReturn (run_uids sC)
           end) Idle (deferred sC) (resumable sC)] /\
  (interrupted sd = true \/ existsb marks evsB = true -> interrupted sC = true).
Proof.
  intros Hb s0 Hv Es HnB HnC Ha sd sb sf sC xr_fin.
  apply nobad_app in Hb as [Hb0 Hb]. fold s0 in Hb.
  apply nobad_cons in Hb as [HbT Hb]. fold sd in Hb.
  apply nobad_app in Hb as [HbB Hb]. fold sb in Hb.
  apply nobad_cons in Hb as [HbT2 HbC]. fold sf in HbC.
  assert (HG0 : Good s0) by (apply Good_run; [apply Good_init | exact Hb0]).
  pose proof (decision_step _ _ _ _ Hv HbT) as Hd. rewrite Es in Hd.
  assert (Hsd : step s0 EvTask = (RE.set_pc P D (RE.set_exit P D s1 (exit_of x) (reason s1)) (PcFinalSleep (result_of x)), os1 ++ [OTask WSleep0]))
    by exact Hd.
  assert (HGd : Good sd) by (apply Good_step; assumption).
  assert (Hpd : pc sd = PcFinalSleep (result_of x)) by (unfold sd; rewrite Hsd; reflexivity).
  destruct (sleep_window evsB sd _ HGd Hpd HnB HbB) as (HGb & Hpb & Hxb). fold sb in HGb, Hpb, Hxb.
  assert (Exd : (exit_status sd, reason sd) = (exit_of x, reason s1)) by (unfold sd; rewrite Hsd; reflexivity).
  rewrite Exd in Hxb. fold xr_fin in Hxb.
  assert (HGf : Good sf).
  { unfold sf. apply Good_step; [exact HGb | exact HbT2]. }
  destruct (step sb EvTask) as [sf' of] eqn:Hsf. assert (Esf : sf = sf') by (unfold sf; rewrite ?Hsf; reflexivity).
  destruct (final_step _ _ _ _ HGb Hpb Hsf) as (F1 & F2 & F3 & F4 & res & F5 & F6).
  rewrite <- Esf in *.
  assert (Hnd : normal_done res = true) by (apply F6; destruct x; reflexivity).
  destruct (done_window evsC sf res HGf F5 HnC HbC) as (HGC & HpC & HiC). fold sC in HGC, HpC, HiC.
  assert (HsC : state sC = Idle).
  { pose proof (RE_Inv.inv_done_is_idle P D True sC res (proj1 HGC) HpC) as [A _]. exact A. }
  split; [exact Hsd|]. split.
  { cbn [snd]. rewrite F1. inversion Hxb. reflexivity. }
  split; [exact F2|]. split; [exact F3|]. split.
  { rewrite (normal_done_outcome _ _ _ Ha HpC Hnd), HsC. reflexivity. }
  intros Hm. apply HiC. rewrite F4. eapply sleep_window_mark; eassumption.
Qed.

(* (B) the outermost plan frame ended with an unhandled error e: the same step closes every run
   still open with status 'fail' and the exception text as reason, the task raises e, the engine is
   idle with no run left, and RE()/resume() re-raise e.  (A stray GeneratorExit is reported as
   ValueError and leaves the reason alone, as the code does.) *)
Theorem end_to_end_fail evs0 evsC a s1 e os1 :
  nobad s_i (evs0 ++ EvTask :: evsC) ->
  let s0 := fst (run s_i evs0) in
  visited s0 (s1, CExit (XExn e), os1) -> sleeps (XExn e) = false ->
  no_main evsC = true -> is_call a = true ->
  let sf := fst (step s0 EvTask) in
  let sC := fst (run sf evsC) in
  docs_of (snd (step s0 EvTask)) =
    docs_of os1 ++ stops_of (bundlers s1) XFail (match e with EGeneratorExit => reason s1 | _ => RsExnText end) /\
  state sf = Idle /\ bundlers sf = [] /\ pc sf = PcDone (TRaise (raised_of e)) /\
  snd (step sC (EvMainDone a)) =
    [OOut (match main_err sC with Some e' => OutRaise e' | None => OutRaise (raised_of e) end)
          Idle (deferred sC) (resumable sC)].
Proof.
  intros Hb s0 Hv Es HnC Ha sf sC.
  apply nobad_app in Hb as [Hb0 Hb]. fold s0 in Hb.
  apply nobad_cons in Hb as [HbT HbC]. fold sf in HbC.
  assert (HG0 : Good s0) by (apply Good_run; [apply Good_init | exact Hb0]).
  pose proof (decision_step _ _ _ _ Hv HbT) as Hd. rewrite Es in Hd.
  assert (Hstep : step s0 EvTask = task_step s0) by reflexivity.
  destruct (visited_fields _ _ _ _ Hv) as (_ & Hers & _ & Hnd).
  assert (He0 : exit_reason_set s0 = false).
  { destruct (exit_reason_set s0) eqn:E; [|reflexivity]. destruct (proj2 HG0 E) as [r Hr]. exfalso; exact (Hnd r Hr). }
  pose proof (RE_Inv.visited_DInv P presume plan_of D dev True (fun _ => I) _ _ _ _ (proj1 HG0) Hv) as HD.
  assert (Hl : live_state (state s1) = true) by apply HD.
  destruct (finalize (fail_state s1 e) (TReturn NO_RETURN) (Some (raised_of e))) as [sx ox] eqn:Ef.
  cbn [fst snd] in Hd.
  pose proof (RE_Exit.finalize_spec P presume D dev _ _ _ _ _ Ef) as (F1 & _).
  pose proof (RE_Inv.finalize_spec P presume D dev _ _ _ _ _ Ef) as F.
  assert (Hst : state (fail_state s1 e) = state s1) by (unfold fail_state; destruct e; reflexivity).
  destruct F as (G1 & G2 & _ & G4 & _); [rewrite Hst; apply RE_Inv.allowed_to_idle; left; exact Hl|].
  assert (Esf : sf = sx) by (unfold sf; rewrite Hstep, Hd; reflexivity).
  assert (HGf : Good sf) by (unfold sf; apply Good_step; assumption).
  assert (Hpf : pc sf = PcDone (TRaise (raised_of e))) by (rewrite Esf, G4; reflexivity).
  destruct (done_window evsC sf _ HGf Hpf HnC HbC) as (HGC & HpC & _). fold sC in HGC, HpC.
  assert (HsC : state sC = Idle).
  { pose proof (RE_Inv.inv_done_is_idle P D True sC _ (proj1 HGC) HpC) as [A _]. exact A. }
  split.
  { rewrite Hstep, Hd. cbn [snd]. rewrite docs_of_app, F1. f_equal.
    unfold fail_state. destruct e; simp_st; rewrite ?Hers, ?He0; try reflexivity; discriminate Es. }
  rewrite Esf. split; [exact G1|]. split; [exact G2|]. split; [rewrite G4; reflexivity|].
  rewrite (maindone_call _ _ Ha), HpC, HsC. destruct (main_err sC); [reflexivity|].
  destruct e; try reflexivity; discriminate Es.
Qed.

(* (C) there is nothing else: every final sleep of `_run` was entered by a decision of kind (A),
   earlier in the same schedule, with only non-task events since *)
Theorem final_sleep_has_decision : forall evs r,
  nobad s_i evs -> pc (fst (run s_i evs)) = PcFinalSleep r ->
  exists evs0 evsB s1 x os1,
    evs = evs0 ++ EvTask :: evsB /\ no_task evsB = true /\
    visited (fst (run s_i evs0)) (s1, CExit x, os1) /\ sleeps x = true /\ r = result_of x.
Proof.
  intros evs. induction evs as [|e evs IH] using rev_ind; intros r Hb Hp.
  { cbn in Hp. discriminate Hp. }
  apply nobad_app in Hb as [Hb0 Hb1]. rewrite run_app_eq in Hp. cbn [fst] in Hp.
  set (s := fst (run s_i evs)) in *.
  assert (Hb1' : ~ In (OBad 1) (snd (step s e))).
  { unfold nobad in Hb1. rewrite run_cons in Hb1. cbn [RE.run snd] in Hb1. rewrite app_nil_r in Hb1. exact Hb1. }
  rewrite run_cons in Hp. cbn [RE.run fst] in Hp.
  destruct (step s e) as [s' o] eqn:Hs. cbn [fst snd] in *.
  destruct (is_task e) eqn:Et.
  - destruct e; try discriminate Et. cbn [RE.step] in Hs.
    destruct (task_step_classified _ _ _ Hs Hb1') as
      [s1 x os1 Hv Es E1 _ | s1 e1 os1 Hv Es E1 _ | r0 Hp0 Hf | _ _ Hpc | _ _ Hpc _ | _ _ _ _ Hpc _].
    + exists evs, [], s1, x, os1. subst s'. simp_st. inversion Hp; subst. repeat split; auto.
    + exfalso. subst s'. destruct (finalize_pc (fail_state s1 e1) (TReturn NO_RETURN) (Some (raised_of e1))) as [res Hr]. congruence.
    + exfalso. destruct (finalize_pc (RE.set_must_cancel P D s false) r0 (if must_cancel s then Some ECancelled else None)) as [res Hr].
      rewrite <- Hf in Hr. cbn [fst] in Hr. congruence.
    + exfalso. destruct Hpc as [Hpc|[Hpc|[k Hpc]]]; congruence.
    + destruct Hpc as [->|[Hq Hpc]]; [|congruence].
      destruct (IH r Hb0 Hp) as (evs0 & evsB & s1 & x & os1 & E & Hn & Hv & Es & Er).
      exfalso. clear -Hs Hp. unfold RE.task_step in Hs. rewrite Hp in Hs.
      destruct (must_cancel s); destruct (finalize_pc (RE.set_must_cancel P D s false) r (Some ECancelled)) as [res1 Hr1];
        destruct (finalize_pc (RE.set_must_cancel P D s false) r None) as [res2 Hr2]; rewrite Hs in *; cbn [fst] in *; congruence.
    + congruence.
  - destruct (accepted_call s e) eqn:Ea.
    + destruct e as [a| | | | | | | | | | | |]; try discriminate Ea. destruct a; try discriminate Ea.
      cbn [accepted_call] in Ea. apply rstate_eqb_true in Ea.
      destruct (step_call _ _ _ _ Ea Hs) as (E & _). congruence.
    + destruct (step_nontask _ _ _ _ Et Ea Hs) as (A & _). rewrite A in Hp.
      destruct (IH r Hb0 Hp) as (evs0 & evsB & s1 & x & os1 & E & Hn & Hv & Es & Er).
      exists evs0, (evsB ++ [e]), s1, x, os1. repeat split; try assumption.
      * rewrite E. rewrite <- app_assoc. reflexivity.
      * unfold no_task in *. rewrite forallb_app, Hn. cbn. rewrite Et. reflexivity.
Qed.
End Schedule.

End E2E.
