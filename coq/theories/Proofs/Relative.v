(* C24: relative_set_wrapper / reset_positions_wrapper (Gen/Relative.v, Gen/Insert.v). *)
From BV Require Import Base.Prelude Gen.Coalg Gen.Mutators Gen.Paired Gen.Insert Gen.Relative.
From BV Require Import Proofs.Coalg Proofs.Paired Proofs.PairedThm.

(* a property of single steps holds along every run once it is inductive *)
Section Always.
  Context {X : Type}.
  Variable res : X -> input -> outcome X.
  Variable Inv : X -> Prop.
  Hypothesis inv_step : forall x i m x', Inv x -> res x i = Yielded m x' -> Inv x'.

  Lemma after_inv : forall s x y, Inv x -> after res x s = Some y -> Inv y.
  Proof.
    induction s as [|i s IH]; intros x y HI HA; cbn in HA.
    - now inversion HA; subst.
    - destruct (res x i) as [m x'|v|e|] eqn:E; try discriminate. eapply IH; [|exact HA]. eapply inv_step; eassumption.
  Qed.
End Always.

Section RelativeProofs.
  Context {T P : Type}.
  Variable add : T -> T -> T.
  Variable zero : T.
  Variable pos_of : val -> T.
  Variable kind : dev -> dkind.
  Variable position : dev -> T.
  Variable resume : P -> input -> outcome P.
  Variable view : msg -> rview T.
  Variable mk : rview T -> msg.
  Variable elig : dev -> bool.
  Variable parent : dev -> option dev.
  Variable coupled : dev -> bool.
  Variable pseudos : dev -> list dev.
  Variable comps : T -> list T.
  Hypothesis view_mk : forall v, view (mk v) = v.
  (* the per-step theorem is for device sets without a coupled pseudo-positioner (coupled_parents empty: `devices` is
     None or names no pseudo-positioner); parents of any other kind are allowed.  The reset theorems below have no
     such restriction. *)
  Hypothesis uncoupled : forall p, coupled p = false.

  Notation decide := (rel_decide zero pos_of kind position view mk elig parent coupled pseudos comps).
  Notation ins := (ins_resume resume decide).
  Notation st_of x := (ins_store x Close).

  (* what a step may do to initial_positions: nothing, or record ONE new device, with the value the code documents *)
  Inductive recorded (st st' : @pstore T) : Prop :=
    | rec_same : st' = st -> recorded st st'
    | rec_new d v :
        st' = st ++ [(d, v)] -> ps_get d st = None -> elig d = true ->
        (kind d = KPosition /\ v = position d \/
         kind d <> KPosition /\ exists ans, v = match ans with VNone => zero | _ => pos_of ans end) ->
        recorded st st'.

  (* the state invariant: a pending original message is a set on an eligible, not yet recorded device, and the
     pending update records exactly that device *)
  Definition pend_ok (x : @istate P (@pstore T)) : Prop :=
    match x with
    | IRun _ st _ (Some (m, upd)) =>
        exists d off g, view m = RSet d off g /\ elig d = true /\ ps_get d st = None /\ kind d <> KPosition /\
                        upd = stash zero pos_of position parent coupled pseudos comps d
    | _ => True
    end.

  Lemma ps_get_app_other :
    forall (st : @pstore T) d d' v, ps_get d (st ++ [(d', v)]) = match ps_get d st with Some p => Some p | None => if Nat.eqb d d' then Some v else None end.
  Proof.
    induction st as [|[k w] r IH]; intros d d' v; cbn.
    - reflexivity.
    - destruct (Nat.eqb d k); [reflexivity|apply IH].
  Qed.

  Lemma ps_set_fresh : forall (st : @pstore T) d v, ps_get d st = None -> ps_set d v st = st ++ [(d, v)].
  Proof.
    induction st as [|[k w] r IH]; intros d v H; cbn in *; [reflexivity|].
    destruct (Nat.eqb d k); [discriminate|]. now rewrite IH.
  Qed.

  Lemma record_fresh :
    forall d v (st : @pstore T), ps_get d st = None ->
      record position parent coupled pseudos comps d v st = st ++ [(d, v)].
  Proof.
    intros d v st H. unfold record. rewrite (uncoupled d).
    destruct (parent d) as [p|]; [rewrite (uncoupled p); cbn [andb]|]; now apply ps_set_fresh.
  Qed.

  Lemma ps_get_app_same : forall (st : @pstore T) d v, ps_get d st = None -> ps_get d (st ++ [(d, v)]) = Some v.
  Proof. intros st d v H. rewrite ps_get_app_other, H, Nat.eqb_refl. reflexivity. Qed.

  (* a recorded position never changes afterwards *)
  Lemma recorded_stable :
    forall st st' d p, recorded st st' -> ps_get d st = Some p -> ps_get d st' = Some p.
  Proof.
    intros st st' d p [->|d' v -> _ _ _] H; [exact H|]. now rewrite ps_get_app_other, H.
  Qed.

  (* one message arriving from the wrapped plan *)
  Lemma on_msg_facts :
    forall p' st seen m m' x',
      ins_on_msg decide p' st seen m = Yielded m' x' ->
      pend_ok x' /\ recorded st (st_of x') /\
      (forall d off g, view m' = RSet d off g -> elig d = true ->
         m' = m /\ (ps_get d (st_of x') <> None \/ c24a_msg view elig st seen m = true)).
  Proof.
    intros p' st seen m m' x' H. unfold ins_on_msg in H.
    destruct (mem_nat m seen) eqn:Hseen.
    - inversion H; subst. cbn. split; [exact I|]. split; [now left|].
      intros d off g Hv He. split; [reflexivity|].
      destruct (ps_get d st) eqn:Hg; [left; congruence|right].
      unfold c24a_msg. now rewrite Hseen, Hv, He, Hg.
    - unfold rel_decide in H. destruct (view m) as [d off g|d|d|g|c] eqn:Hv;
        try (inversion H; subst; cbn; split; [exact I|]; split; [now left|]; intros d0 off0 g0 Hv0 _; congruence).
      destruct (elig d) eqn:He; cbn [andb] in H.
      + destruct (ps_get d st) as [p0|] eqn:Hg; cbn [negb] in H.
        * inversion H; subst. cbn. split; [exact I|]. split; [now left|].
          intros d0 off0 g0 Hv0 _. split; [reflexivity|]. left. rewrite Hv in Hv0. inversion Hv0; subst. congruence.
        * rewrite (record_fresh d (position d) st Hg) in H.
          destruct (kind d) eqn:Hk; inversion H; subst; cbn.
          -- split; [exists d, off, g; repeat split; auto; congruence|]. split; [now left|].
             intros d0 off0 g0 Hv0 _. rewrite view_mk in Hv0. discriminate.
          -- split; [exact I|]. split.
             ++ eapply rec_new; eauto.
             ++ intros d0 off0 g0 Hv0 _. split; [reflexivity|]. left. rewrite Hv in Hv0. inversion Hv0; subst.
                now rewrite ps_get_app_same.
          -- split; [exists d, off, g; repeat split; auto; congruence|]. split; [now left|].
             intros d0 off0 g0 Hv0 _. rewrite view_mk in Hv0. discriminate.
      + inversion H; subst. cbn. split; [exact I|]. split; [now left|].
        intros d0 off0 g0 Hv0 He0. rewrite Hv in Hv0. inversion Hv0; subst. congruence.
  Qed.

  (* the shape of a step: either the host is resumed with [i'] and its next message goes through ins_on_msg, or the
     pending query is answered and the original message leaves *)
  Lemma ins_step_cases :
    forall x i m' x', pend_ok x -> ins x i = Yielded m' x' ->
      (exists i' m p', ins_host_input x i = Some i' /\ i' <> Close /\ resume (ins_plan x) i' = Yielded m p' /\
                       ins_on_msg decide p' (st_of x) (ins_seen x) m = Yielded m' x')
      \/
      (exists p st seen upd r st', x = IRun p st seen (Some (m', upd)) /\ i = Send r /\ upd r st = UOk st' /\
                                   x' = IRun p st' seen None).
  Proof.
    intros x i m' x' HI H. destruct x as [p st|p st seen [[m upd]|]]; cbn in H.
    - destruct i as [[|z]|e|]; try discriminate. left. cbn.
      destruct (resume p (Send VNone)) as [m p'|v|e|] eqn:E; try discriminate.
      exists (Send VNone), m, p'. repeat split; auto; discriminate.
    - destruct i as [r|e|].
      + destruct (upd r st) as [st'|e] eqn:EU.
        * inversion H; subst. right. exists p, st, seen, upd, r, st'. repeat split; auto.
        * left. cbn. rewrite EU. destruct (resume p (Throw e)) as [m2 p'|v|e2|] eqn:E; try discriminate.
          exists (Throw e), m2, p'. repeat split; auto; discriminate.
      + left. cbn. destruct (is_GeneratorExit e) eqn:G.
        * unfold ins_close in H. destruct (close_result (resume p Close)); discriminate.
        * destruct (is_Exception e) eqn:Ex; [|discriminate].
          destruct (resume p (Throw e)) as [m2 p'|v|e2|] eqn:E; try discriminate.
          exists (Throw e), m2, p'. repeat split; auto; discriminate.
      + unfold ins_close in H. destruct (close_result (resume p Close)); discriminate.
    - destruct i as [r|e|].
      + left. cbn. destruct (resume p (Send r)) as [m2 p'|v|e2|] eqn:E; try discriminate.
        exists (Send r), m2, p'. repeat split; auto; discriminate.
      + left. cbn. destruct (is_GeneratorExit e) eqn:G.
        * unfold ins_close in H. destruct (close_result (resume p Close)); discriminate.
        * destruct (is_Exception e) eqn:Ex; [|discriminate].
          destruct (resume p (Throw e)) as [m2 p'|v|e2|] eqn:E; try discriminate.
          exists (Throw e), m2, p'. repeat split; auto; discriminate.
      + unfold ins_close in H. destruct (close_result (resume p Close)); discriminate.
  Qed.

  (* every step of plan_mutator(plan, insert_reads) that yields a message *)
  Theorem ins_step_facts :
    forall x i m' x', pend_ok x -> ins x i = Yielded m' x' ->
      pend_ok x' /\ recorded (st_of x) (st_of x') /\
      (forall d off g, view m' = RSet d off g -> elig d = true ->
         ps_get d (st_of x') <> None \/ c24a_step resume view elig x i = true).
  Proof.
    intros x i m' x' HI H.
    destruct (ins_step_cases x i m' x' HI H) as [(i' & m & p' & Hin & Hnc & Hres & Hon)|(p & st & seen & upd & r & st' & -> & -> & HU & ->)].
    - destruct (on_msg_facts p' (st_of x) (ins_seen x) m m' x' Hon) as (HP & HR & HS).
      repeat split; try assumption.
      intros d off g Hv He. destruct (HS d off g Hv He) as [-> [Hk|Hc]]; [now left|right].
      unfold c24a_step, ins_step_exists. rewrite Hin. destruct i'; try congruence; now rewrite Hres.
    - cbn in HI. destruct HI as (d & off & g & Hv & He & Hg & Hk & ->).
      unfold stash in HU. rewrite (record_fresh d _ st Hg) in HU. inversion HU; subst. cbn. split; [exact I|]. split.
      + eapply rec_new; eauto; right; (split; [exact Hk|now exists r]).
      + intros d0 off0 g0 Hv0 _. left. rewrite Hv in Hv0. inversion Hv0; subst. now rewrite ps_get_app_same.
  Qed.

  Lemma pend_ok_step : forall x i m x', pend_ok x -> ins x i = Yielded m x' -> pend_ok x'.
  Proof. intros x i m x' HI H. now destruct (ins_step_facts x i m x' HI H). Qed.

  Lemma pend_ok_reach : forall p s x, after ins (IStart p []) s = Some x -> pend_ok x.
  Proof. intros p s x H. eapply (after_inv ins pend_ok pend_ok_step); [|exact H]. exact I. Qed.

  (* ---------------- relative_set_wrapper: what leaves the plan_mutator layer, and what rewrite_pos makes of it.
     Along every run (any script), at every step that yields: initial_positions is unchanged or gains one new device
     with its documented initial value; recorded values never change; and a set on an eligible device leaves -- outside
     finding class C24-a -- only once its device is recorded, and is then re-created as set(initial + offset). *)
  Theorem relative_step :
    forall p s x i m x',
      after ins (IStart p []) s = Some x -> ins x i = Yielded m x' ->
      recorded (st_of x) (st_of x') /\
      (forall d p0, ps_get d (st_of x) = Some p0 -> ps_get d (st_of x') = Some p0) /\
      (forall d off g, view m = RSet d off g -> elig d = true -> c24a_step resume view elig x i = false ->
         exists p0, ps_get d (st_of x') = Some p0 /\ rewrite_pos add view x' m = Some (RSet d (add p0 off) g)) /\
      (forall d off g, view m = RSet d off g -> elig d = false -> ps_get d (st_of x') = None) /\
      (forall c, view m = c -> (forall d off g, c <> RSet d off g) -> rewrite_pos add view x' m = None).
  Proof.
    intros p s x i m x' HA H.
    pose proof (pend_ok_reach p s x HA) as HI.
    destruct (ins_step_facts x i m x' HI H) as (_ & HR & HS).
    split; [exact HR|]. split; [intros d p0; now apply recorded_stable|]. split; [|split].
    - intros d off g Hv He Hc. destruct (HS d off g Hv He) as [Hk|Hk]; [|congruence].
      destruct (ps_get d (st_of x')) as [p0|] eqn:Hg; [|congruence].
      exists p0. split; [reflexivity|]. unfold rewrite_pos. now rewrite Hv, Hg.
    - (* ineligible devices are never recorded *)
      intros d off g Hv He.
      assert (Hall : forall y, (forall d', elig d' = false -> ps_get d' (st_of y) = None) ->
                     forall j mm y', pend_ok y -> ins y j = Yielded mm y' -> forall d', elig d' = false -> ps_get d' (st_of y') = None).
      { intros y Hy j mm y' HIy Hj d' Hd'. destruct (ins_step_facts y j mm y' HIy Hj) as (_ & [->|d2 v -> _ He2 _] & _).
        - now apply Hy.
        - rewrite ps_get_app_other, (Hy d' Hd'). destruct (Nat.eqb d' d2) eqn:E; [|reflexivity].
          apply Nat.eqb_eq in E. subst. congruence. }
      assert (Hx : forall d', elig d' = false -> ps_get d' (st_of x) = None).
      { clear H HR HS Hv. revert x HA HI.
        assert (G : forall s0 y0 x0, pend_ok y0 -> (forall d', elig d' = false -> ps_get d' (st_of y0) = None) ->
                      after ins y0 s0 = Some x0 -> forall d', elig d' = false -> ps_get d' (st_of x0) = None).
        { induction s0 as [|j s0 IH]; intros y0 x0 HI0 H0 HA0; cbn in HA0.
          - inversion HA0; subst. exact H0.
          - destruct (ins y0 j) as [mm y1|v|e|] eqn:E; try discriminate.
            eapply (IH y1); [eapply pend_ok_step; eassumption| |exact HA0].
            eapply Hall; eassumption. }
        intros x HA HI. eapply (G s (IStart p []) x); [exact I| |exact HA]. reflexivity. }
      eapply Hall; eassumption.
    - intros c Hv Hn. unfold rewrite_pos. rewrite Hv. destruct c; try reflexivity. exfalso. eapply Hn. reflexivity.
  Qed.

End RelativeProofs.

Section ResetProofs.
  Context {T P : Type}.
  Variable zero : T.
  Variable pos_of : val -> T.
  Variable kind : dev -> dkind.
  Variable position : dev -> T.
  Variable resume : P -> input -> outcome P.
  Variable view : msg -> rview T.
  Variable mk : rview T -> msg.
  Variable elig : dev -> bool.
  Variable parent : dev -> option dev.
  Variable coupled : dev -> bool.
  Variable pseudos : dev -> list dev.
  Variable comps : T -> list T.

  Notation decide := (rel_decide zero pos_of kind position view mk elig parent coupled pseudos comps).
  Notation ins := (ins_resume resume decide).

  (* ---------------- reset_positions_wrapper *)
  Notation lp := (lp_resume (fun _ : val => false)).

  Theorem reset_trace :
    forall p s, plain s = true ->
      trace (reset_resume zero pos_of kind position resume view mk elig parent coupled pseudos comps) (reset_init p) (Send VNone :: s)
      = s2_ref ins ins_store lp (fw_next (reset_plan mk parent coupled)) (IStart p []) (Send VNone :: s).
  Proof.
    intros p s Hp. unfold reset_resume, reset_init, reset_fin_resume, fw_resume.
    etransitivity; [apply d_start_trace; exact Hp|].
    apply s2_start_trace. exact Hp.
  Qed.

  (* the plan_mutator layer ended plainly with [st] recorded, and the cleanup's messages are all answered: every
     recorded device whose parent is not a coupled pseudo-positioner parent ([restored]; with ordinary parents or no
     parents: every recorded device) is sent back to its recorded position, in first-touch order, in one group,
     followed by one wait on that group; then the wrapper ends the way the plan ended.  (The axes of a coupled
     pseudo-positioner are carried back by their parent, which is recorded and restored with them.) *)
  Theorem reset_restores_all :
    forall p s ms t st vs rest c,
      plain s = true ->
      split ins ins_store (IStart p []) (Send VNone :: s) = (ms, Some (t, st, map Send vs ++ rest)) ->
      plain_end t = Some c -> length vs = S (length (restored parent coupled st)) ->
      trace (reset_resume zero pos_of kind position resume view mk elig parent coupled pseudos comps) (reset_init p) (Send VNone :: s)
      = map OYield ms
        ++ map OYield (map (fun kv => mk (RSet (fst kv) (snd kv) G_RESET)) (restored parent coupled st) ++ [mk (RWait G_RESET)])
        ++ [compl_obs c].
  Proof.
    intros p s ms t st vs rest c Hp HS HE HL.
    rewrite reset_trace by exact Hp. unfold s2_ref. rewrite HS. f_equal.
    assert (HN : fw_next (reset_plan mk parent coupled) st t = Some (reset_plan mk parent coupled st, c)).
    { destruct t as [v|e|]; cbn in *; [now inversion HE| |discriminate].
      destruct (is_GeneratorExit e); [discriminate|now inversion HE]. }
    destruct t as [v|e|]; [| |discriminate HE]; rewrite HN;
      (apply (undo_complete (fun _ : val => false) _ None c vs rest); [|now left]);
      now rewrite app_length, map_length, Nat.add_comm.
  Qed.

  (* with ordinary parents only (no coupled pseudo-positioner parent) nothing is left out *)
  Lemma restored_all : (forall p, coupled p = false) -> forall st : @pstore T, restored parent coupled st = st.
  Proof.
    intros H st. unfold restored. induction st as [|[k v] r IH]; [reflexivity|]. cbn [filter fst].
    unfold carried at 1. destruct (parent k) as [p|]; [rewrite (H p)|]; cbn; now rewrite IH.
  Qed.

  Lemma restored_In :
    forall (st : @pstore T) d v,
      In (d, v) (restored parent coupled st) <-> In (d, v) st /\ (forall p, parent d = Some p -> coupled p = false).
  Proof.
    intros st d v. unfold restored. rewrite filter_In. cbn [fst]. unfold carried. split.
    - intros [HI HC]. split; [exact HI|]. intros p Hp. rewrite Hp in HC. now apply negb_true_iff in HC.
    - intros [HI HC]. split; [exact HI|]. destruct (parent d) as [p|]; [|reflexivity]. now rewrite (HC p eq_refl).
  Qed.
End ResetProofs.

Lemma restored_spec :
  forall (T : Type) (parent : dev -> option dev) (coupled : dev -> bool) (st : @pstore T),
    (forall d v, In (d, v) (restored parent coupled st) <->
                 In (d, v) st /\ (forall p, parent d = Some p -> coupled p = false)) /\
    ((forall p, coupled p = false) -> restored parent coupled st = st).
Proof.
  intros T parent coupled st. split.
  - intros d v. apply restored_In.
  - intros H. now apply restored_all.
Qed.

(* ------------------------------------------------------------------ the per-step theorem WITH coupled pseudo-positioners *)
Section RelativeCoupled.
  Context {T P : Type}.
  Variable add : T -> T -> T.
  Variable zero : T.
  Variable pos_of : val -> T.
  Variable kind : dev -> dkind.
  Variable position : dev -> T.
  Variable resume : P -> input -> outcome P.
  Variable view : msg -> rview T.
  Variable mk : rview T -> msg.
  Variable elig : dev -> bool.
  Variable parent : dev -> option dev.
  Variable coupled : dev -> bool.
  Variable pseudos : dev -> list dev.
  Variable comps : T -> list T.
  Hypothesis view_mk : forall v, view (mk v) = v.

  Notation decide := (rel_decide zero pos_of kind position view mk elig parent coupled pseudos comps).
  Notation ins := (ins_resume resume decide).
  Notation st_of x := (ins_store x Close).
  Notation rec := (record position parent coupled pseudos comps).

  (* what a step may do to initial_positions: nothing, or ONE run of the recording code for an eligible device that
     was not recorded, with the value the code documents *)
  Inductive recorded_c (st st' : @pstore T) : Prop :=
    | recc_same : st' = st -> recorded_c st st'
    | recc_new d v :
        st' = rec d v st -> ps_get d st = None -> elig d = true ->
        (kind d = KPosition /\ v = position d \/
         kind d <> KPosition /\ exists ans, v = match ans with VNone => zero | _ => pos_of ans end) ->
        recorded_c st st'.

  Definition has (d : dev) (st : @pstore T) : Prop := ps_get d st <> None.

  Lemma has_ps_set : forall (st : @pstore T) d k v, has d st \/ d = k -> has d (ps_set k v st).
  Proof.
    unfold has. induction st as [|[k' w] r IH]; intros d k v H; cbn.
    - destruct H as [H|E]; [exfalso; apply H; reflexivity|]. subst. rewrite Nat.eqb_refl. discriminate.
    - destruct (Nat.eqb k k') eqn:E; cbn.
      + destruct (Nat.eqb d k') eqn:E2; [discriminate|].
        destruct H as [H|E3]; [cbn in H; rewrite E2 in H; exact H|]. subst. congruence.
      + destruct (Nat.eqb d k') eqn:E2; [discriminate|]. apply IH.
        destruct H as [H|E3]; [left; cbn in H; rewrite E2 in H; exact H|now right].
  Qed.

  Lemma has_ps_set_zip : forall cs vs (st : @pstore T) d, has d st -> has d (ps_set_zip cs vs st).
  Proof.
    induction cs as [|c cs IH]; intros vs st d H; [exact H|].
    destruct vs as [|v vs]; [exact H|]. cbn. apply IH. apply has_ps_set. now left.
  Qed.

  (* the recording code never forgets: every key stays, and the device it was run for is recorded *)
  Lemma has_record_self : forall d v (st : @pstore T), has d (rec d v st).
  Proof.
    intros d v st. unfold record.
    assert (H1 : has d (ps_set d v st)) by (apply has_ps_set; now right).
    assert (H2 : has d (if coupled d then ps_set_zip (pseudos d) (comps v) (ps_set d v st) else ps_set d v st)).
    { destruct (coupled d); [now apply has_ps_set_zip|exact H1]. }
    destruct (parent d) as [p|]; [|exact H2].
    destruct (coupled p && mem_d d (pseudos p)); [|exact H2].
    apply has_ps_set_zip. apply has_ps_set. now left.
  Qed.

  Lemma has_record_keeps : forall d v (st : @pstore T) k, has k st -> has k (rec d v st).
  Proof.
    intros d v st k H. unfold record.
    assert (H1 : has k (ps_set d v st)) by (apply has_ps_set; now left).
    assert (H2 : has k (if coupled d then ps_set_zip (pseudos d) (comps v) (ps_set d v st) else ps_set d v st)).
    { destruct (coupled d); [now apply has_ps_set_zip|exact H1]. }
    destruct (parent d) as [p|]; [|exact H2].
    destruct (coupled p && mem_d d (pseudos p)); [|exact H2].
    apply has_ps_set_zip. apply has_ps_set. now left.
  Qed.

  Definition pend_ok_c (x : @istate P (@pstore T)) : Prop :=
    match x with
    | IRun _ st _ (Some (m, upd)) =>
        exists d off g, view m = RSet d off g /\ elig d = true /\ ps_get d st = None /\ kind d <> KPosition /\
                        upd = stash zero pos_of position parent coupled pseudos comps d
    | _ => True
    end.

  Lemma on_msg_facts_c :
    forall p' st seen m m' x',
      ins_on_msg decide p' st seen m = Yielded m' x' ->
      pend_ok_c x' /\ recorded_c st (st_of x') /\
      (forall d off g, view m' = RSet d off g -> elig d = true ->
         m' = m /\ (has d (st_of x') \/ c24a_msg view elig st seen m = true)).
  Proof.
    intros p' st seen m m' x' H. unfold ins_on_msg in H.
    destruct (mem_nat m seen) eqn:Hseen.
    - inversion H; subst. cbn. split; [exact I|]. split; [now left|].
      intros d off g Hv He. split; [reflexivity|].
      destruct (ps_get d st) eqn:Hg; [left; unfold has; congruence|right].
      unfold c24a_msg. now rewrite Hseen, Hv, He, Hg.
    - unfold rel_decide in H. destruct (view m) as [d off g|d|d|g|c] eqn:Hv;
        try (inversion H; subst; cbn; split; [exact I|]; split; [now left|]; intros d0 off0 g0 Hv0 _; congruence).
      destruct (elig d) eqn:He; cbn [andb] in H.
      + destruct (ps_get d st) as [p0|] eqn:Hg; cbn [negb] in H.
        * inversion H; subst. cbn. split; [exact I|]. split; [now left|].
          intros d0 off0 g0 Hv0 _. split; [reflexivity|]. left. rewrite Hv in Hv0. inversion Hv0; subst. unfold has. congruence.
        * destruct (kind d) eqn:Hk; inversion H; subst; cbn.
          -- split; [exists d, off, g; repeat split; auto; congruence|]. split; [now left|].
             intros d0 off0 g0 Hv0 _. rewrite view_mk in Hv0. discriminate.
          -- split; [exact I|]. split.
             ++ eapply recc_new; eauto.
             ++ intros d0 off0 g0 Hv0 _. split; [reflexivity|]. left. rewrite Hv in Hv0. inversion Hv0; subst.
                apply has_record_self.
          -- split; [exists d, off, g; repeat split; auto; congruence|]. split; [now left|].
             intros d0 off0 g0 Hv0 _. rewrite view_mk in Hv0. discriminate.
      + inversion H; subst. cbn. split; [exact I|]. split; [now left|].
        intros d0 off0 g0 Hv0 He0. rewrite Hv in Hv0. inversion Hv0; subst. congruence.
  Qed.

  Lemma ins_step_cases_c :
    forall x i m' x', ins x i = Yielded m' x' ->
      (exists i' m p', ins_host_input x i = Some i' /\ i' <> Close /\ resume (ins_plan x) i' = Yielded m p' /\
                       ins_on_msg decide p' (st_of x) (ins_seen x) m = Yielded m' x')
      \/
      (exists p st seen upd r st', x = IRun p st seen (Some (m', upd)) /\ i = Send r /\ upd r st = UOk st' /\
                                   x' = IRun p st' seen None).
  Proof.
    intros x i m' x' H. destruct x as [p st|p st seen [[m upd]|]]; cbn in H.
    - destruct i as [[|z]|e|]; try discriminate. left. cbn.
      destruct (resume p (Send VNone)) as [m p'|v|e|] eqn:E; try discriminate.
      exists (Send VNone), m, p'. repeat split; auto; discriminate.
    - destruct i as [r|e|].
      + destruct (upd r st) as [st'|e] eqn:EU.
        * inversion H; subst. right. exists p, st, seen, upd, r, st'. repeat split; auto.
        * left. cbn. rewrite EU. destruct (resume p (Throw e)) as [m2 p'|v|e2|] eqn:E; try discriminate.
          exists (Throw e), m2, p'. repeat split; auto; discriminate.
      + left. cbn. destruct (is_GeneratorExit e) eqn:G.
        * unfold ins_close in H. destruct (close_result (resume p Close)); discriminate.
        * destruct (is_Exception e) eqn:Ex; [|discriminate].
          destruct (resume p (Throw e)) as [m2 p'|v|e2|] eqn:E; try discriminate.
          exists (Throw e), m2, p'. repeat split; auto; discriminate.
      + unfold ins_close in H. destruct (close_result (resume p Close)); discriminate.
    - destruct i as [r|e|].
      + left. cbn. destruct (resume p (Send r)) as [m2 p'|v|e2|] eqn:E; try discriminate.
        exists (Send r), m2, p'. repeat split; auto; discriminate.
      + left. cbn. destruct (is_GeneratorExit e) eqn:G.
        * unfold ins_close in H. destruct (close_result (resume p Close)); discriminate.
        * destruct (is_Exception e) eqn:Ex; [|discriminate].
          destruct (resume p (Throw e)) as [m2 p'|v|e2|] eqn:E; try discriminate.
          exists (Throw e), m2, p'. repeat split; auto; discriminate.
      + unfold ins_close in H. destruct (close_result (resume p Close)); discriminate.
  Qed.

  Theorem ins_step_facts_c :
    forall x i m' x', pend_ok_c x -> ins x i = Yielded m' x' ->
      pend_ok_c x' /\ recorded_c (st_of x) (st_of x') /\
      (forall d off g, view m' = RSet d off g -> elig d = true ->
         has d (st_of x') \/ c24a_step resume view elig x i = true).
  Proof.
    intros x i m' x' HI H.
    destruct (ins_step_cases_c x i m' x' H) as [(i' & m & p' & Hin & Hnc & Hres & Hon)|(p & st & seen & upd & r & st' & -> & -> & HU & ->)].
    - destruct (on_msg_facts_c p' (st_of x) (ins_seen x) m m' x' Hon) as (HP & HR & HS).
      split; [exact HP|]. split; [exact HR|].
      intros d off g Hv He. destruct (HS d off g Hv He) as [-> [Hk|Hc]]; [now left|right].
      unfold c24a_step, ins_step_exists. rewrite Hin. destruct i'; try congruence; now rewrite Hres.
    - cbn in HI. destruct HI as (d & off & g & Hv & He & Hg & Hk & ->).
      unfold stash in HU. inversion HU; subst. cbn. split; [exact I|]. split.
      + eapply recc_new; eauto; right; (split; [exact Hk|now exists r]).
      + intros d0 off0 g0 Hv0 _. left. rewrite Hv in Hv0. inversion Hv0; subst. apply has_record_self.
  Qed.

  Lemma pend_ok_c_step : forall x i m x', pend_ok_c x -> ins x i = Yielded m x' -> pend_ok_c x'.
  Proof. intros x i m x' HI H. now destruct (ins_step_facts_c x i m x' HI H). Qed.

  (* With ANY coupled_parents: along every run, at every yielding step, initial_positions is unchanged or extended by ONE
     run of the recording code ([record]: the device -- and, for an axis of a coupled pseudo-positioner, its parent and
     siblings) for an eligible device not recorded before; nothing recorded is ever forgotten; a set on an eligible device
     leaves -- outside class C24-a -- only once its device is recorded and is re-created as set(initial + offset) with the
     value recorded for it at that moment; non-set messages pass unchanged. *)
  Theorem relative_step_coupled :
    forall p s x i m x',
      after ins (IStart p []) s = Some x -> ins x i = Yielded m x' ->
      recorded_c (st_of x) (st_of x') /\
      (forall k, has k (st_of x) -> has k (st_of x')) /\
      (forall d off g, view m = RSet d off g -> elig d = true -> c24a_step resume view elig x i = false ->
         exists p0, ps_get d (st_of x') = Some p0 /\ rewrite_pos add view x' m = Some (RSet d (add p0 off) g)) /\
      (forall c, view m = c -> (forall d off g, c <> RSet d off g) -> rewrite_pos add view x' m = None).
  Proof.
    intros p s x i m x' HA H.
    assert (HI : pend_ok_c x).
    { eapply (after_inv ins pend_ok_c pend_ok_c_step); [|exact HA]. exact I. }
    destruct (ins_step_facts_c x i m x' HI H) as (_ & HR & HS).
    split; [exact HR|]. split; [|split].
    - intros k Hk. destruct HR as [->|d v -> _ _ _]; [exact Hk|now apply has_record_keeps].
    - intros d off g Hv He Hc. destruct (HS d off g Hv He) as [Hk|Hk]; [|congruence].
      unfold has in Hk. destruct (ps_get d (st_of x')) as [p0|] eqn:Hg; [|congruence].
      exists p0. split; [reflexivity|]. unfold rewrite_pos. now rewrite Hv, Hg.
    - intros c Hv Hn. unfold rewrite_pos. rewrite Hv. destruct c; try reflexivity. exfalso. eapply Hn. reflexivity.
  Qed.
End RelativeCoupled.
