"""Drives the real RunEngine through monitor scenarios (C41) and keeps ONE chronological log of
  inputs : ("in", "OpenRun", key) / CloseRun / Monitor / Unmonitor (from msg_hook, i.e. when the engine starts
           processing the message), ("in", "SuspendStart") / ("in", "SuspendResume") (msg_hook on the two internal
           messages), ("in", "PauseBlock") (state_hook: the engine became 'paused'), ("in", "ResumeWake") (the main
           thread is about to resume/abort/stop/halt a paused engine), ("in", "Finalize") (the call is over, engine
           idle), ("in", "Update", obj, v) (the fake device is about to call its subscribers)
  outputs: ("sub", obj, run, channel) / ("clr", obj, run) device ledger, ("events", [(run, obj, v), ...]) Event documents emitted during one
           update (sorted), ("out", outcome) what a message returned/raised.
Nothing is timing dependent: updates happen inside plan code (between messages), inside the coroutine the
suspension waits for, or from the main thread while the engine is paused; no sleeps, no timers.

Scenario steps (plan level):
  ["open", key] ["close", key] ["monitor", key, obj(, channel(, "fault"))]   ("fault": subscribe() registers, then raises)
  ["unmonitor", key, obj] ["update", obj, v(, channel)]
  ["resume_msg"]        (channel: the event_type keyword of the 'monitor' message / the channel the device updates)
  ["pause", [updates...], decision]                      decision in resume/abort/stop/halt
  ["suspend", pre_steps, during, post_steps]             pre/post: simple steps run as pre_plan/post_plan;
       during: updates, optionally ending with ["suspend2", during2] (a second, overlapping suspension)
       or ["pause", [updates...], decision] (a pause inside the suspension)
  ["raise"]
"""
import asyncio
import contextlib
import io
import logging

logging.getLogger("bluesky").setLevel(logging.CRITICAL + 1)


class Ctx:
    def __init__(self):
        self.log = []
        self.sigs = {}
        self.run_of_uid = {}      # run start uid -> run number
        self.desc = {}            # descriptor uid -> run number
        self.pending = []         # pause steps waiting for the main thread
        self.starts = 0
        self.resumes = 0
        self.monctr = 0
        self.cur_events = None
        self.errors = []

    def add(self, e):
        self.log.append(e)


class Sig:
    """Subscribable + Readable fake: a ledger of registrations, each made for a channel (subscribe's event_type
    keyword; "default" without one); clear_sub removes every registration of the callback (ophyd semantics);
    an update on a channel calls every registration made for that channel once."""
    parent = None

    def __init__(self, name, ctx):
        self.name = name
        self.ctx = ctx
        self.v = 0
        self.subs = []
        self.fault_next = False     # the next subscribe() registers the callback and THEN raises (ophyd's run=True: the first
        #                             delivery to the new callback fails on a transient read time-out)

    def read(self):
        return {self.name: {"value": self.v, "timestamp": 0.0}}

    def describe(self):
        return {self.name: {"source": "fake:" + self.name, "dtype": "integer", "shape": []}}

    def _run_of(self, cb):
        from bluesky.bundlers import RunBundler
        for cell in (cb.__closure__ or ()):
            try:
                c = cell.cell_contents
            except ValueError:
                continue
            if isinstance(c, RunBundler):
                return self.ctx.run_of_uid.get(c._run_start_uid, -1)
        return -1

    def subscribe(self, cb, event_type=None, **kw):
        chan = event_type or "default"
        self.ctx.add(("sub", self.name, self._run_of(cb), chan))
        self.subs.append((cb, chan))
        if self.fault_next:
            self.fault_next = False
            raise TimeoutError("first delivery to the new callback timed out")

    def clear_sub(self, cb):
        self.ctx.add(("clr", self.name, self._run_of(cb)))
        self.subs = [s for s in self.subs if s[0] is not cb]

    def update(self, v, chan="default"):
        self.v = v
        self.ctx.add(("in", "Update", self.name, chan, v))
        self.ctx.cur_events = []
        try:
            for cb, ch in list(self.subs):
                if ch == chan:
                    cb()
        finally:
            evs, self.ctx.cur_events = self.ctx.cur_events, None
        self.ctx.add(("events", sorted(evs)))


def run_scenario(case, RE):
    """-> {"log": [...], "left": live registrations on all devices at the end, "errors": [...]}"""
    from bluesky.utils import IllegalMessageSequence, Msg, RunEngineInterrupted
    ctx = Ctx()
    for n in case.get("objs", ["o1", "o2"]):
        ctx.sigs[n] = Sig(n, ctx)

    def on_doc(name, doc):
        if name == "start":
            ctx.run_of_uid[doc["uid"]] = len(ctx.run_of_uid)
        elif name == "descriptor":
            ctx.desc[doc["uid"]] = ctx.run_of_uid.get(doc["run_start"], -1)
        elif name == "event":
            r = ctx.desc.get(doc["descriptor"], -1)
            for k, v in doc["data"].items():
                if k in ctx.sigs:
                    ev = (r, k, v)
                    if ctx.cur_events is not None:
                        ctx.cur_events.append(ev)
                    else:
                        ctx.add(("stray_event", ev))

    def msg_hook(msg):
        c = msg.command
        if c == "open_run":
            ctx.add(("in", "OpenRun", msg.run))
        elif c == "close_run":
            ctx.add(("in", "CloseRun", msg.run))
        elif c == "monitor":
            ctx.add(("in", "Monitor", msg.run, msg.obj.name, msg.kwargs.get("event_type") or "default"))
        elif c == "unmonitor":
            ctx.add(("in", "Unmonitor", msg.run, msg.obj.name))
        elif c == "_start_suspender":
            ctx.starts += 1
            ctx.add(("in", "SuspendStart"))
        elif c == "_resume_from_suspender":
            ctx.resumes += 1
            ctx.add(("in", "SuspendResume"))

    def state_hook(new, old):
        if new == "paused":
            ctx.add(("in", "PauseBlock"))

    def simple(st):
        kind = st[0]
        if kind == "update":
            ctx.sigs[st[1]].update(*st[2:])
            return
        if kind == "resume_msg":      # a plan may send the internal message itself: restore without a suspend
            yield Msg("_resume_from_suspender")
            return
        try:
            if kind == "open":
                yield Msg("open_run", run=st[1])
            elif kind == "close":
                yield Msg("close_run", run=st[1])
            elif kind == "monitor":
                ctx.monctr += 1
                kw = {"event_type": st[3]} if len(st) > 3 and st[3] != "default" else {}
                if len(st) > 4 and st[4] == "fault":
                    ctx.sigs[st[2]].fault_next = True
                yield Msg("monitor", ctx.sigs[st[2]], run=st[1], name="%s_mon%d" % (st[2], ctx.monctr), **kw)
            elif kind == "unmonitor":
                yield Msg("unmonitor", ctx.sigs[st[2]], run=st[1])
            else:
                raise ValueError(st)
            ctx.add(("out", "Ok"))
        except IllegalMessageSequence:
            ctx.add(("out", "RejectedDup" if kind == "open" else "Illegal"))
        except TimeoutError:
            ctx.add(("out", "Fault"))
        finally:
            if kind == "monitor":
                ctx.sigs[st[2]].fault_next = False

    def simple_plan(steps):
        for st in steps:
            yield from simple(st)

    def make_fut(during):
        async def coro():
            for act in during:
                if act[0] == "update":
                    ctx.sigs[act[1]].update(*act[2:])
                elif act[0] == "suspend2":
                    n0 = ctx.starts
                    RE.request_suspend(make_fut(act[1]), justification="second")
                    for _ in range(200):
                        if ctx.starts > n0:
                            break
                        await asyncio.sleep(0)
                    return
                elif act[0] == "pause":
                    ctx.pending.append(act)
                    RE.loop.create_task(RE._request_pause_coro(False))
                    return
        return lambda: coro()

    def plan(steps):
        for st in steps:
            kind = st[0]
            if kind == "pause":
                yield Msg("checkpoint")
                ctx.pending.append(st)
                yield Msg("pause")
            elif kind == "suspend":
                yield Msg("checkpoint")
                target = ctx.resumes + 1 + sum(1 for a in st[2] if a[0] == "suspend2")
                RE.request_suspend(make_fut(st[2]), pre_plan=(lambda s=st: simple_plan(s[1])),
                                   post_plan=(lambda s=st: simple_plan(s[3])), justification="first")
                guard = 0
                while ctx.resumes < target and guard < 400:
                    guard += 1
                    yield Msg("null")
                if ctx.resumes < target:
                    ctx.errors.append("suspension did not finish")
            elif kind == "raise":
                raise KeyError("boom")
            else:
                yield from simple(st)

    tok = RE.subscribe(on_doc)
    RE.msg_hook = msg_hook
    RE.state_hook = state_hook
    sink = io.StringIO()
    try:
        with contextlib.redirect_stdout(sink):
            for call in case["calls"]:
                action = (lambda c=call: RE(plan(c["steps"])))
                for _ in range(12):
                    try:
                        action()
                    except RunEngineInterrupted:
                        pass
                    except KeyError:
                        pass
                    except Exception as e:  # noqa: BLE001
                        ctx.errors.append("%s: %s" % (type(e).__name__, e))
                    if RE.state != "paused":
                        break
                    if not ctx.pending:
                        ctx.errors.append("paused without a pending pause step")
                        RE.halt()
                        break
                    st = ctx.pending.pop(0)
                    for act in st[1]:
                        ctx.sigs[act[1]].update(*act[2:])
                    ctx.add(("in", "ResumeWake"))
                    action = {"resume": RE.resume, "abort": RE.abort, "stop": RE.stop, "halt": RE.halt}[st[2]]
                if RE.state != "idle":
                    ctx.errors.append("engine left in state %s" % RE.state)
                    break
                ctx.add(("in", "Finalize"))
    finally:
        RE.unsubscribe(tok)
        RE.msg_hook = None
        RE.state_hook = None
    left = sum(len(s.subs) for s in ctx.sigs.values())   # registrations of any channel
    return {"log": [list(e) for e in ctx.log], "left": left, "errors": ctx.errors}
