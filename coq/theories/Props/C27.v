(* C27 - spiral patterns stay in bounds and square spirals cover the grid.
   Models: Pure/Spiral.v (spiral_fermat WITH fixes/C27-a.diff).  Arithmetic: exact rationals. *)
From Coq Require Import ZArith QArith Qabs List.
From BV Require Import Base.Prelude Base.OrdField Pure.Spiral Proofs.Spiral.

(* (a) For arbitrary cos/sin/tan/sqrt/pow functions and constants (T), every emitted point is
   (x_start + x, y_start + y) with (x, y) inside the sheared rectangle: |y| <= |y_range|/2
   (<= y_range/2 when the aspect dr_y/dr is positive) and |x - (y/aspect)/tan(tilt+pi/2)| <= x_range/2. *)
Theorem C27_spiral_in_bounds :
  forall (T : Trig Q) x0 y0 xr yr dr nth dr_y tilt pts,
    spiral QO T x0 y0 xr yr dr nth dr_y tilt = Ok pts ->
    exists a, aspect QO dr dr_y = Ok a /\ ~ a == 0 /\
      forall p, In p pts ->
        exists x y, p = (x0 + x, y0 + y)%Q /\ in_rect xr yr a (tanf T (tilt + pi T / 2)%Q) x y.
Proof. exact spiral_in_bounds. Qed.
Print Assumptions C27_spiral_in_bounds.

Theorem C27_spiral_fermat_in_bounds :
  forall (T : Trig Q) x0 y0 xr yr dr factor dr_y tilt pts,
    spiral_fermat QO T x0 y0 xr yr dr factor dr_y tilt = Ok pts ->
    exists a, aspect QO dr dr_y = Ok a /\ ~ a == 0 /\
      forall p, In p pts ->
        exists x y, p = (x0 + x, y0 + y)%Q /\ in_rect xr yr a (tanf T (tilt + pi T / 2)%Q) x y.
Proof. exact spiral_fermat_in_bounds. Qed.
Print Assumptions C27_spiral_fermat_in_bounds.

(* (b) For all x_num, y_num >= 2 (x_num = 1 or y_num = 1 is a ZeroDivisionError in the code): the index
   pairs walked are duplicate-free, are exactly the pairs of [kmin, kmin + num) x [kmin, kmin + num),
   and there are x_num * y_num of them: a permutation of the full grid. *)
Theorem C27_square_permutation :
  forall x_num y_num, (2 <= x_num)%Z -> (2 <= y_num)%Z ->
    NoDup (square_idx x_num y_num) /\
    (forall kx ky, In (kx, ky) (square_idx x_num y_num) <->
                   (kmin x_num (xo2 x_num) <= kx < kmin x_num (xo2 x_num) + x_num)%Z /\
                   (kmin y_num (yo2 y_num) <= ky < kmin y_num (yo2 y_num) + y_num)%Z) /\
    length (square_idx x_num y_num) = Z.to_nat (x_num * y_num).
Proof. exact square_permutation. Qed.
Print Assumptions C27_square_permutation.

(* ... and the point emitted for index pair (kx, ky) is the (kx - kmin)-th / (ky - kmin)-th element of
   linspace(center - range/2, center + range/2, num) on each axis. *)
Theorem C27_square_coordinates :
  forall xc yc xr yr x_num y_num pts, (2 <= x_num)%Z -> (2 <= y_num)%Z ->
    spiral_square_pattern QO xc yc xr yr x_num y_num = Ok pts ->
    Forall2 (fun (k : Z * Z) (p : Q * Q) =>
               fst p == linspace (xc - xr / 2) (xc + xr / 2) x_num (fst k - kmin x_num (xo2 x_num)) /\
               snd p == linspace (yc - yr / 2) (yc + yr / 2) y_num (snd k - kmin y_num (yo2 y_num)))
            (square_idx x_num y_num) pts.
Proof. exact square_coordinates. Qed.
Print Assumptions C27_square_coordinates.

(* ---- the hypotheses are met by concrete non-trivial inputs *)
(* a rational "circle": cos t = (1-u^2)/(1+u^2), sin t = 2u/(1+u^2) with u = t/4 *)
Definition T0 : Trig Q :=
  mkTrig Q 3 (137508 # 1000)
         (fun t => let u := t / 4 in (1 - u * u) / (1 + u * u))%Q
         (fun t => let u := t / 4 in (2 * u) / (1 + u * u))%Q
         (fun _ => 1000%Q) (fun x => x / 2)%Q (fun x => x * x)%Q.

Example C27_spiral_nonvacuous :
  match spiral QO T0 0 0 2 2 (1 # 2) 3 (Some (1 # 4)) 0 with
  | Ok pts => (4 <=? length pts)%nat | _ => false end = true.
Proof. vm_compute. reflexivity. Qed.

Example C27_spiral_fermat_nonvacuous :
  match spiral_fermat QO T0 0 0 2 2 (1 # 2) 1 (Some (1 # 4)) 0 with
  | Ok pts => (4 <=? length pts)%nat | _ => false end = true.
Proof. vm_compute. reflexivity. Qed.

Example C27_square_nonvacuous :
  square_idx 3 4 = [(0, 0); (1, 0); (1, -1); (0, -1); (-1, -1); (-1, 0); (-1, 1); (0, 1); (1, 1);
                    (1, -2); (0, -2); (-1, -2)]%Z
  /\ match spiral_square_pattern QO 0 0 2 3 3 4 with Ok pts => (length pts =? 12)%nat | _ => false end = true.
Proof. split; vm_compute; reflexivity. Qed.

(* finding C27-a (repaired by fixes/C27-a.diff): the test of the unrepaired spiral_fermat,
   abs(y) <= half_y, accepts a point outside the rectangle *)
Example C27_a_unfixed_test_refuted :
  exists xr yr a tt x y, (~ 2 * a == 0 /\ accept_unfixed (xr / 2) (yr / (2 * a)) a tt x y = true /\
                          ~ in_rect xr yr a tt x y)%Q.
Proof. exact unfixed_test_refuted. Qed.
