"""Deterministic fake devices for driving bluesky's RunBundler / RunEngine from the harness.

A device is built from a *spec* (JSON-able dict):

  {"id": 3,                       # small int; also the hash, so set/frozenset iteration is by id
   "caps": ["readable", "configurable", "subscribable", "collectable", "flyable",
            "wsa" | "wea", "evc", "pgc"],
   "describe": [[key, ext], ...],           # ext in "none" | "stream" | "other"
   "describe_collect": [[key, ext], ...]}   # flat (new style) describe_collect

Only the methods of the listed capabilities exist on the object, so the runtime-checkable
protocols in bluesky.protocols (isinstance checks in the bundler) see exactly the declared kind.
Every call is appended to the shared ledger (a list of tuples).  Dynamic answers (what the next
collect_asset_docs / get_index / read returns) are *programmed* by the harness before each
operation: `dev.next_assets`, `dev.next_index`, `dev.next_reading`; the configuration value is
`dev.cfg` (changed only by `configure`).  Callbacks handed to `subscribe` are kept in `dev.subs`
(duplicates allowed, `clear_sub` removes every occurrence, as ophyd does) and fired by
`dev.fire(readings)`.

Names: object i is "o<i>", data key k is "k<k>" (key 0 is "interruption", the engine's own key),
stream n is "s<n>" (stream 0 is "interruptions").
"""
import itertools


def key_name(k):
    return "interruption" if k == 0 else "k%d" % k


def key_id(s):
    return 0 if s == "interruption" else int(s[1:])


def stream_name(n):
    return "interruptions" if n == 0 else "s%d" % n


def stream_id(s):
    return 0 if s == "interruptions" else int(s[1:])


def obj_name(i):
    return "o%d" % i


def obj_id(s):
    return int(s[1:])


EXT = {"none": None, "stream": "STREAM:", "other": "FILESTORE:"}


def data_key(k, ext):
    d = {"source": "fake:%s" % key_name(k), "dtype": "number", "shape": []}
    if EXT[ext] is not None:
        d["external"] = EXT[ext]
    return d


def reading_dict(pairs):
    """[[key, value], ...] -> {name: {"value": v, "timestamp": 0.0}} (later duplicates win, as dict)."""
    out = {}
    for k, v in pairs:
        out[key_name(k)] = {"value": v, "timestamp": 0.0}
    return out


class _Base:
    def __init__(self, spec, ledger):
        self.id = spec["id"]
        self.name = obj_name(self.id)
        self.spec = spec
        self.ledger = ledger
        self.cfg = 0
        self.subs = []
        self.next_assets = []
        self.next_index = 0
        self.next_reading = {}
        self.fail = {}          # method name -> exception instance to raise (fault injection)

    def __hash__(self):
        return self.id

    def __eq__(self, other):
        return self is other

    def __repr__(self):
        return "<fake %s>" % self.name

    def _log(self, *call):
        self.ledger.append(tuple(call))
        exc = self.fail.get(call[0])
        if exc is not None:
            raise exc


class _Readable:
    def read(self):
        self._log("read", self.id)
        return dict(self.next_reading)

    def describe(self):
        self._log("describe", self.id)
        return {key_name(k): data_key(k, e) for k, e in self.spec.get("describe", [])}


class _Configurable:
    def read_configuration(self):
        self._log("read_configuration", self.id)
        return {self.name + "_cfg": {"value": self.cfg, "timestamp": 0.0}}

    def describe_configuration(self):
        self._log("describe_configuration", self.id)
        return {self.name + "_cfg": {"source": "fake:cfg", "dtype": "integer", "shape": []}}

    def configure(self, value):
        self._log("configure", self.id, value)
        old = self.cfg
        self.cfg = value
        return ({self.name + "_cfg": old}, {self.name + "_cfg": value})


class _ConfigureOnly:
    """`configure` without read_configuration/describe_configuration (not Configurable)."""

    def configure(self, value):
        self._log("configure", self.id, value)
        old = self.cfg
        self.cfg = value
        return ({}, {})


class _Subscribable:
    def subscribe(self, function, **kwargs):
        self._log("subscribe", self.id, function)
        self.subs.append(function)

    def clear_sub(self, function):
        self._log("clear_sub", self.id, function)
        self.subs = [f for f in self.subs if f is not function]

    def fire(self, readings):
        for f in list(self.subs):
            f(readings)


class _Collectable:
    def describe_collect(self):
        self._log("describe_collect", self.id)
        return {key_name(k): data_key(k, e) for k, e in self.spec.get("describe_collect", [])}


class _Flyable:
    def kickoff(self):
        self._log("kickoff", self.id)
        return None

    def complete(self):
        self._log("complete", self.id)
        return None


class _WSA:
    def collect_asset_docs(self, index=None):
        self._log("collect_asset_docs", self.id, index)
        yield from [(n, dict(d)) for n, d in self.next_assets]

    def get_index(self):
        self._log("get_index", self.id)
        return self.next_index


class _WEA:
    def collect_asset_docs(self):
        self._log("collect_asset_docs", self.id, None)
        yield from [(n, dict(d)) for n, d in self.next_assets]


class _EVC:
    next_events = ()           # programmed by the harness: partial event documents ({"data", "timestamps", "time"})

    def collect(self):
        self._log("collect", self.id)
        yield from [dict(e) for e in self.next_events]


class _PGC:
    next_events = ()

    def collect_pages(self):
        self._log("collect_pages", self.id)
        evs = [dict(e) for e in self.next_events]
        if evs:                # one page holding all programmed events
            keys = list(evs[0]["data"])
            yield {"data": {k: [e["data"][k] for e in evs] for k in keys},
                   "timestamps": {k: [e["timestamps"][k] for e in evs] for k in keys},
                   "time": [e["time"] for e in evs]}


_MIX = {"readable": _Readable, "configurable": _Configurable, "subscribable": _Subscribable,
        "collectable": _Collectable, "flyable": _Flyable, "wsa": _WSA, "wea": _WEA,
        "evc": _EVC, "pgc": _PGC}
_ORDER = ["readable", "configurable", "subscribable", "collectable", "flyable", "wsa", "wea", "evc", "pgc"]
_classes = {}


def make_device(spec, ledger):
    caps = tuple(c for c in _ORDER if c in spec.get("caps", []))
    if caps not in _classes:
        bases = tuple(_MIX[c] for c in caps)
        if "configurable" not in caps:
            bases = bases + (_ConfigureOnly,)
        _classes[caps] = type("Fake_" + "_".join(caps or ("bare",)), bases + (_Base,), {})
    return _classes[caps](spec, ledger)


# ---- asset documents as a WritesStreamAssets / WritesExternalAssets device would yield them

def dev_uid(n):
    return "dev:%d" % n


def asset_doc(a):
    """JSON asset description -> (name, doc) pair as yielded by collect_asset_docs.

    ["sres", uid, key]                         stream_resource
    ["sdatum", uid, sres, pre, seqz, a, b]     stream_datum, indices [a,b); pre: descriptor pre-filled;
                                               seqz: seq_nums left at (0,0) as the engine requires
    ["res", uid]                               resource
    ["datum", uid, res]                        datum
    ["bad", uid]                               a document name the bundler does not accept
    """
    kind = a[0]
    if kind == "sres":
        return ("stream_resource", {"uid": dev_uid(a[1]), "data_key": key_name(a[2]), "mimetype": "application/x-fake",
                                    "uri": "file://localhost/fake", "parameters": {}})
    if kind == "sdatum":
        return ("stream_datum", {"uid": dev_uid(a[1]), "stream_resource": dev_uid(a[2]),
                                 "descriptor": "prefilled" if a[3] else "",
                                 "seq_nums": {"start": 0, "stop": 0} if a[4] else {"start": 1, "stop": 2},
                                 "indices": {"start": a[5], "stop": a[6]}})
    if kind == "res":
        return ("resource", {"uid": dev_uid(a[1]), "spec": "FAKE", "root": "/", "resource_path": "x",
                             "resource_kwargs": {}, "path_semantics": "posix"})
    if kind == "datum":
        return ("datum", {"datum_id": dev_uid(a[1]), "resource": dev_uid(a[2]), "datum_kwargs": {}})
    if kind == "bad":
        return ("bulk_events", {"uid": dev_uid(a[1])})
    raise ValueError(a)
