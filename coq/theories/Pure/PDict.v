(* C43 -- model of bluesky.utils.PersistentDict (with fix C43-a: reload() refills the cache
   dict in place, so the finalizer registered in __init__ keeps seeing the live cache).

   Keys and values are numbers (the harness numbers the strings / msgpack values it uses).
   disk  = zict.File's `filenames` dict: insertion ordered; File.__setitem__ discards the key
           and adds it again at the end; a new File instance lists the directory in an order
           the OS chooses (an input of the Reopen operation).
   cache = the Python dict `_cache`: assignment to an existing key keeps its position,
           popitem() takes the last item.
   The msgpack codec is the identity on value numbers (values are chosen so that
   load (dump v) = v).  MODEL ONLY -- proofs are in Proofs/PDict.v. *)
From BV Require Import Base.Prelude.
From Coq Require Import NArith.
Local Open Scope N_scope.

Definition key := N.
Definition val := N.
Definition amap := list (key * val).

Fixpoint lookup (k : key) (m : amap) : option val :=
  match m with
  | [] => None
  | (k', v) :: r => if N.eqb k' k then Some v else lookup k r
  end.

Fixpoint remove (k : key) (m : amap) : amap :=
  match m with
  | [] => []
  | (k', v) :: r => if N.eqb k' k then remove k r else (k', v) :: remove k r
  end.

(* dict.__setitem__ *)
Fixpoint dict_set (k : key) (v : val) (m : amap) : amap :=
  match m with
  | [] => [(k, v)]
  | (k', v') :: r => if N.eqb k' k then (k', v) :: r else (k', v') :: dict_set k v r
  end.

(* zict.File.__setitem__: self.discard(key); write a new file; filenames[key] = fn *)
Definition file_set (k : key) (v : val) (m : amap) : amap := remove k m ++ [(k, v)].

(* dict.popitem(): the last item *)
Definition pop_last (m : amap) : option (key * val * amap) :=
  match rev m with
  | [] => None
  | (k, v) :: r => Some (k, v, rev r)
  end.

(* the entries of m, those named in [order] first and in that order (listdir order of a new
   zict.File); always a permutation of m *)
Fixpoint reorder (order : list key) (m : amap) : amap :=
  match order with
  | [] => m
  | k :: r => match lookup k m with
              | Some v => (k, v) :: reorder r (remove k m)
              | None => reorder r m
              end
  end.

Record st := mk_st { disk : amap; cache : amap }.
Definition init : st := mk_st [] [].

Inductive op :=
| OSet (k : key) (v : val)            (* d[k] = v *)
| ODel (k : key)                      (* del d[k] *)
| OPop (k : key)                      (* d.pop(k) *)
| OPopD (k : key) (dflt : val)        (* d.pop(k, default) *)
| OPopItem                            (* d.popitem() *)
| OClear                              (* d.clear() *)
| OUpdate (kvs : list (key * val))    (* d.update(pairs) *)
| OSetDefault (k : key) (v : val)     (* d.setdefault(k, v) *)
| OGet (k : key)                      (* d[k] *)
| OFlush                              (* d.flush() *)
| OReload                             (* d.reload() *)
| OMutate (k : key) (v : val)         (* x = d[k]; change x in place so that it equals v *)
| OReopen (graceful : bool) (order : list key).
   (* graceful: the instance is dropped and collected (finalizer runs), then PersistentDict(dir);
      not graceful: the process dies without the finalizer, then PersistentDict(dir) *)

Inductive res := ROk | RKeyError | RVal (v : val) | RPair (k : key) (v : val) | RInapplicable.

(* value numbering convention of the harness: v mod 4 = 0 dict, 1 list (mutable in place,
   into a value of the same kind), 2 immutable scalar, 3 ndarray (treated as immutable) *)
Definition compat (old new : val) : bool := N.eqb (old mod 4) (new mod 4) && (new mod 4 <? 2).

(* __setitem__ *)
Definition do_set (s : st) (k : key) (v : val) : st :=
  mk_st (file_set k v (disk s)) (dict_set k v (cache s)).

(* __delitem__: del self._cache[key]; del self._func[key] *)
Definition do_del (s : st) (k : key) : st * res :=
  match lookup k (cache s) with
  | None => (s, RKeyError)
  | Some _ =>
      let c := remove k (cache s) in
      match lookup k (disk s) with
      | None => (mk_st (disk s) c, RKeyError)
      | Some _ => (mk_st (remove k (disk s)) c, ROk)
      end
  end.

(* popitem: key, value = self._cache.popitem(); del self._func[key] *)
Definition do_popitem (s : st) : st * res :=
  match pop_last (cache s) with
  | None => (s, RKeyError)
  | Some (k, v, c) =>
      match lookup k (disk s) with
      | None => (mk_st (disk s) c, RKeyError)
      | Some _ => (mk_st (remove k (disk s)) c, RPair k v)
      end
  end.

(* MutableMapping.clear: try: while True: self.popitem()  except KeyError: pass.
   n = len(cache): each successful popitem shortens the cache by one. *)
Fixpoint do_clear (n : nat) (s : st) : st :=
  match n with
  | O => s
  | S n' => match do_popitem s with
            | (s', RKeyError) => s'
            | (s', _) => do_clear n' s'
            end
  end.

(* for k, v in cache.items(): file[k] = dump(v)      (flush, and the finalizer) *)
Definition sync (s : st) : st :=
  mk_st (fold_left (fun d kv => file_set (fst kv) (snd kv) d) (cache s) (disk s)) (cache s).

Definition step (s : st) (o : op) : st * res :=
  match o with
  | OSet k v => (do_set s k v, ROk)
  | ODel k => do_del s k
  | OPop k =>
      match lookup k (cache s) with
      | None => (s, RKeyError)
      | Some v => let '(s', r) := do_del s k in (s', match r with ROk => RVal v | _ => r end)
      end
  | OPopD k dflt =>
      match lookup k (cache s) with
      | None => (s, RVal dflt)
      | Some v => let '(s', r) := do_del s k in (s', match r with ROk => RVal v | _ => r end)
      end
  | OPopItem => do_popitem s
  | OClear => (do_clear (length (cache s)) s, ROk)
  | OUpdate kvs => (fold_left (fun s kv => do_set s (fst kv) (snd kv)) kvs s, ROk)
  | OSetDefault k v =>
      match lookup k (cache s) with
      | Some v' => (s, RVal v')
      | None => (do_set s k v, RVal v)
      end
  | OGet k => match lookup k (cache s) with Some v => (s, RVal v) | None => (s, RKeyError) end
  | OFlush => (sync s, ROk)
  | OReload => (mk_st (disk s) (disk s), ROk)
  | OMutate k v =>
      match lookup k (cache s) with
      | None => (s, RKeyError)
      | Some old => if compat old v then (mk_st (disk s) (dict_set k v (cache s)), ROk) else (s, RInapplicable)
      end
  | OReopen graceful order =>
      let s1 := if graceful then sync s else s in
      let d := reorder order (disk s1) in
      (mk_st d d, ROk)
  end.

Fixpoint run (s : st) (h : list op) : st * list res :=
  match h with
  | [] => (s, [])
  | o :: r => let '(s1, x) := step s o in let '(s2, xs) := run s1 r in (s2, x :: xs)
  end.

(* every intermediate state, for the correspondence: state after each operation *)
Fixpoint trace (s : st) (h : list op) : list (res * amap * amap) :=
  match h with
  | [] => []
  | o :: r => let '(s1, x) := step s o in (x, cache s1, disk s1) :: trace s1 r
  end.

(* ---- the specification: plain finite maps, no order, no two-level storage ------------ *)
Definition fmap := key -> option val.
Definition fempty : fmap := fun _ => None.
Definition fupd (k : key) (v : val) (m : fmap) : fmap := fun x => if N.eqb x k then Some v else m x.
Definition fdel (k : key) (m : fmap) : fmap := fun x => if N.eqb x k then None else m x.
Definition fover (top bottom : fmap) : fmap := fun x => match top x with Some v => Some v | None => bottom x end.

(* cur: what the user's dict holds;  wr: what was last written (set / deleted / popped / flushed) *)
Record sp := mk_sp { cur : fmap; wr : fmap }.
Definition sp_init : sp := mk_sp fempty fempty.

Definition sp_set (s : sp) (k : key) (v : val) : sp := mk_sp (fupd k v (cur s)) (fupd k v (wr s)).
Definition sp_del (s : sp) (k : key) : sp := mk_sp (fdel k (cur s)) (fdel k (wr s)).

(* the only use of the observed result: which key popitem() returned *)
Definition spec_step (s : sp) (o : op) (r : res) : sp :=
  match o with
  | OSet k v => sp_set s k v
  | ODel k | OPop k | OPopD k _ => match cur s k with Some _ => sp_del s k | None => s end
  | OPopItem => match r with RPair k _ => sp_del s k | _ => s end
  | OClear => mk_sp fempty fempty
  | OUpdate kvs => fold_left (fun s kv => sp_set s (fst kv) (snd kv)) kvs s
  | OSetDefault k v => match cur s k with Some _ => s | None => sp_set s k v end
  | OGet _ => s
  | OFlush => mk_sp (cur s) (fover (cur s) (wr s))
  | OReload => mk_sp (wr s) (wr s)
  | OMutate k v => match cur s k with
                   | Some old => if compat old v then mk_sp (fupd k v (cur s)) (wr s) else s
                   | None => s
                   end
  | OReopen graceful _ =>
      let w := if graceful then fover (cur s) (wr s) else wr s in mk_sp w w
  end.

Fixpoint spec_run (s : sp) (h : list op) (rs : list res) : sp :=
  match h, rs with
  | o :: h', r :: rs' => spec_run (spec_step s o r) h' rs'
  | _, _ => s
  end.

(* what each operation must answer, given the specification state before it *)
Definition spec_res (s : sp) (o : op) (r : res) : Prop :=
  match o with
  | OSet _ _ | OClear | OUpdate _ | OFlush | OReload | OReopen _ _ => r = ROk
  | ODel k => r = match cur s k with Some _ => ROk | None => RKeyError end
  | OPop k | OGet k => r = match cur s k with Some v => RVal v | None => RKeyError end
  | OPopD k dflt => r = match cur s k with Some v => RVal v | None => RVal dflt end
  | OPopItem => match r with
                | RPair k v => cur s k = Some v
                | RKeyError => forall k, cur s k = None
                | _ => False
                end
  | OSetDefault k v => r = match cur s k with Some v' => RVal v' | None => RVal v end
  | OMutate k v => r = match cur s k with
                       | Some old => if compat old v then ROk else RInapplicable
                       | None => RKeyError
                       end
  end.

(* ---- comparison helpers for the correspondence ------------------------------------- *)
Definition kv_beq : key * val -> key * val -> bool := prod_beq N.eqb N.eqb.
Definition amap_beq : amap -> amap -> bool := list_beq kv_beq.
Definition res_beq (a b : res) : bool :=
  match a, b with
  | ROk, ROk | RKeyError, RKeyError | RInapplicable, RInapplicable => true
  | RVal x, RVal y => N.eqb x y
  | RPair k x, RPair l y => N.eqb k l && N.eqb x y
  | _, _ => false
  end.
Definition obs_beq (a b : res * amap * amap) : bool :=
  let '(r1, c1, d1) := a in let '(r2, c2, d2) := b in res_beq r1 r2 && amap_beq c1 c2 && amap_beq d1 d2.
Definition trace_beq (h : list op) (obs : list (res * amap * amap)) : bool := list_beq obs_beq (trace init h) obs.
