(* C02 support: the helpers of Engine/RE.v and one iteration of the `_run` interpreter
   (Proofs/RE_Inv.v: dstep) keep exit status, reason and the "reason is the exception text" mark
   until the interpreter reaches CExit. *)
From Coq Require Import List String ZArith Bool Arith Lia.
From BV Require Import Engine.RE Engine.REInst Engine.DocMon Proofs.RE_Docs Proofs.RE_DocsCor Proofs.RE_Exit
  Proofs.RE_Small Proofs.RE_Inv.
Import ListNotations.
Local Open Scope nat_scope.

Ltac bm_hyp H :=
  match type of H with
  | context [match ?x with _ => _ end] => destruct x eqn:?
  end.

Ltac simp_st :=
  cbn [RE.state RE.pc RE.must_cancel RE.permit RE.blocking RE.task_set RE.plans RE.resps RE.cache RE.rewindable
       RE.exc_slot RE.stashed RE.interrupted RE.deferred RE.exit_status RE.reason RE.bundlers RE.staged RE.moved
       RE.pausables RE.stageables RE.seen RE.groups RE.statuses RE.failed_seen RE.futs RE.uid_supply RE.run_uids
       RE.record_intr RE.pardon RE.mreq RE.was_paused RE.main_err RE.exit_reason_set RE.icause RE.late_pause
       RE.intr_err RE.dst
       RE.upd RE.upd2 RE.set_ghost RE.set_main RE.set_mreq RE.set_ers RE.interrupt
       RE.set_state_raw RE.set_pc RE.set_must_cancel RE.set_permit RE.set_blocking RE.set_plans RE.set_resps
       RE.set_cache RE.set_rewindable RE.set_exc_slot RE.set_stashed RE.set_interrupted RE.set_deferred RE.set_exit
       RE.set_bundlers RE.set_staged RE.set_moved RE.set_seen RE.set_groups RE.set_statuses RE.set_futs RE.set_uids
       RE.set_pardon RE.set_dst RE.set_task_set RE.map_bundlers RE.put_bundler RE.push_frame RE.pop_plan
       RE.replace_top RE.resumable RE.add_status RE.clear_call] in *.

Ltac norm_if :=
  repeat match goal with
         | H : (if ?c then _ else _) = Some _ |- _ => destruct c eqn:?
         | H : Some (_, _) = Some (_, _) |- _ => inversion H; subst; clear H
         end.
(* the three fields the engine-made RunStop is computed from *)
Section Frame.
Variable P : Type.
Variable presume : P -> input -> outcome P.
Variable plan_of : nat -> P.
Variable D : Type.
Variable dev : D -> nat -> devmeth -> D * devres.

Local Notation st := (RE.st P D).
Local Notation state := (RE.state P D).
Local Notation pc := (RE.pc P D).
Local Notation must_cancel := (RE.must_cancel P D).
Local Notation stashed := (RE.stashed P D).
Local Notation interrupted := (RE.interrupted P D).
Local Notation bundlers := (RE.bundlers P D).
Local Notation exit_status := (RE.exit_status P D).
Local Notation reason := (RE.reason P D).
Local Notation exit_reason_set := (RE.exit_reason_set P D).
Local Notation main_err := (RE.main_err P D).
Local Notation run_uids := (RE.run_uids P D).
Local Notation deferred := (RE.deferred P D).
Local Notation resumable := (RE.resumable P D).
Local Notation set_state := (RE.set_state P D).
Local Notation dcall := (RE.dcall P D dev).
Local Notation stop_movables := (RE.stop_movables P D dev).
Local Notation call_pausables := (RE.call_pausables P D dev).
Local Notation record_interruptions := (RE.record_interruptions P D).
Local Notation request_pause := (RE.request_pause P D).
Local Notation request_pause_in_task := (RE.request_pause_in_task P D).
Local Notation exec_cmd := (RE.exec_cmd P D dev).
Local Notation exec_start_suspender := (RE.exec_start_suspender P plan_of D dev).
Local Notation finalize := (RE.finalize P presume D dev).
Local Notation drive := (RE.drive P presume plan_of D dev).
Local Notation task_step := (RE.task_step P presume plan_of D dev).
Local Notation step := (RE.step P presume plan_of D dev).
Local Notation run := (RE.run P presume plan_of D dev).
Local Notation init := (RE.init P D).
Local Notation dstep := (RE_Inv.dstep P presume plan_of D dev).
Local Notation dreach := (RE_Inv.dreach P presume plan_of D dev).
Local Notation visited := (RE_Inv.visited P presume plan_of D dev).
Local Notation tentry := (RE_Inv.tentry P presume D dev).
Local Notation IT := (RE_Inv.Inv P D True).
Local Notation DIT := (RE_Inv.DInv P D True).

Definition xr (s : st) : exit_st * reason_t * bool := (exit_status s, reason s, exit_reason_set s).

(* ------------------------------------------------------------------ helpers keep status / reason *)
Lemma dcall_xr s d m s' r o : dcall s d m = (s', r, o) -> xr s' = xr s.
Proof. unfold RE.dcall. destruct (dev _ _ _). intros H; inversion H; subst. reflexivity. Qed.

Lemma stop_movables_xr s s' o : stop_movables s = (s', o) -> xr s' = xr s.
Proof.
  intros H. apply (stop_movables_keep P D dev) in H as [((_ & A & B & C) & _) _]. unfold xr. congruence.
Qed.

Lemma call_pausables_xr s m s' e o : call_pausables s m = (s', e, o) -> xr s' = xr s.
Proof.
  unfold RE.call_pausables.
  assert (G : forall l (s0 : st) e0 o0 s1 e1 o1,
             fold_left (fun acc d =>
               let '(s0, e, os) := acc in
               match e with
               | Some _ => acc
               | None => if mem_nat d (RE.seen P D s0)
                         then let '(s1, r, o) := dcall s0 d m in
                              (s1, match r with DRaise x => Some x | _ => None end, os ++ o)
                         else acc
               end) l (s0, e0, o0) = (s1, e1, o1) -> xr s1 = xr s0).
  { induction l as [|d l IH]; intros s0 e0 o0 s1 e1 o1 H; cbn in H.
    - inversion H; subst; reflexivity.
    - destruct e0.
      + eapply IH; eassumption.
      + destruct (mem_nat d (RE.seen P D s0)).
        * destruct (dcall s0 d m) as [[sa ra] oa] eqn:E. apply dcall_xr in E. apply IH in H. congruence.
        * eapply IH; eassumption. }
  intros H. eapply G; exact H.
Qed.

Lemma record_interruptions_xr s s' o ok : record_interruptions s = (s', o, ok) -> xr s' = xr s.
Proof.
  unfold RE.record_interruptions. destruct (record_intr_list (bundlers s)) as [[bs os] ok0].
  intros H; inversion H; subst. reflexivity.
Qed.

Lemma request_pause_xr s d s' e o : request_pause s d = (s', e, o) -> xr s' = xr s.
Proof. intros H. apply (request_pause_keep P D) in H as (_ & A & B & C). unfold xr. congruence. Qed.

Lemma reset_checkpoint_xr s : xr (RE.reset_checkpoint P D s) = xr s.
Proof. unfold RE.reset_checkpoint. destruct (RE.cache P D s); reflexivity. Qed.

Lemma rewind_xr s s' l : RE.rewind P D s = (s', l) -> xr s' = xr s.
Proof.
  unfold RE.rewind. destruct (RE.cache P D s) as [l0|]; intros H; inversion H; subst; [|reflexivity].
  destruct (Nat.eqb (List.length l) 0); reflexivity.
Qed.

Lemma finish_read_xr s rn d z o0 s' c o : RE.finish_read P D s rn d z o0 = (s', c, o) -> xr s' = xr s.
Proof.
  unfold RE.finish_read, RE.get_bundler, RE.put_bundler. destruct (alookup rn (bundlers s)) as [b|].
  - destruct (mem_nat d (bobjs b)); intros H; inversion H; subst; reflexivity.
  - intros H; inversion H; subst; reflexivity.
Qed.

Lemma mark_cached_xr s rn d : xr (RE.mark_cached P D s rn d) = xr s.
Proof. unfold RE.mark_cached, RE.get_bundler, RE.put_bundler. destruct (alookup rn (bundlers s)); reflexivity. Qed.

Lemma set_state_xr s x s' o : set_state s x = Some (s', o) -> xr s' = xr s.
Proof. unfold RE.set_state. destruct (allowed (state s) x); intros H; inversion H; subst. reflexivity. Qed.

Lemma cancel_task_xr s : xr (RE.cancel_task P D s) = xr s.
Proof. unfold RE.cancel_task. destruct (pc s); reflexivity. Qed.

Lemma req_result_xr s e s' o : RE.req_result P D s e = (s', o) -> xr s' = xr s.
Proof. unfold RE.req_result. intros H; inversion H; subst. destruct (RE.mreq P D s); reflexivity. Qed.

Ltac use_xr :=
  repeat match goal with
         | H : dcall _ _ _ = _ |- _ => apply dcall_xr in H
         | H : stop_movables _ = _ |- _ => apply stop_movables_xr in H
         | H : call_pausables _ _ = _ |- _ => apply call_pausables_xr in H
         | H : set_state _ _ = Some _ |- _ => apply set_state_xr in H
         | H : record_interruptions _ = _ |- _ => apply record_interruptions_xr in H
         | H : request_pause _ _ = _ |- _ => apply request_pause_xr in H
         | H : RE.finish_read _ _ _ _ _ _ _ = _ |- _ => apply finish_read_xr in H
         | H : RE.rewind _ _ _ = _ |- _ => apply rewind_xr in H
         | H : RE.req_result _ _ _ _ = _ |- _ => apply req_result_xr in H
         | H : RE.frame_resume _ _ _ _ = _ |- _ => clear H
         end.
Ltac solve_xr :=
  rewrite ?reset_checkpoint_xr, ?mark_cached_xr, ?cancel_task_xr in *;
  unfold xr in *; simp_st;
  try reflexivity; try congruence.

Lemma request_pause_in_task_xr s d s' e o : request_pause_in_task s d = (s', e, o) -> xr s' = xr s.
Proof.
  unfold RE.request_pause_in_task. destruct (request_pause s d) as [[s1 e1] o1] eqn:E.
  apply request_pause_xr in E. intros H; inversion H; subst; clear H. destruct (RE.resumable P D s); exact E.
Qed.

Lemma exec_cmd_xr s m s' c o : exec_cmd s m = (s', c, o) -> xr s' = xr s.
Proof.
  unfold RE.exec_cmd, RE.get_bundler. intros H.
  destruct (mcmd m);
    repeat (bm_hyp H); use_xr;
    repeat match goal with Hx : request_pause_in_task _ _ = _ |- _ => apply request_pause_in_task_xr in Hx end;
    inversion H; subst; clear H;
    rewrite ?reset_checkpoint_xr; try (unfold xr in *; simp_st; congruence).
Qed.

Lemma exec_start_suspender_xr s sid pre post s' c o :
  exec_start_suspender s sid pre post = (s', c, o) -> xr s' = xr s.
Proof.
  unfold RE.exec_start_suspender. intros H.
  repeat (bm_hyp H); use_xr; inversion H; subst; clear H; unfold xr in *; simp_st; congruence.
Qed.

(* ------------------------------------------------------------------ the interpreter keeps them until CExit *)
Definition is_exit (c : ctl) : bool := match c with CExit _ => true | _ => false end.
Definition is_fin (c : ctl) : bool := match c with CFinalize _ _ => true | _ => false end.

Lemma dstep_xr s c os s' c' os' :
  dstep s c os = inl (s', c', os') -> is_exit c = false -> xr s' = xr s /\ is_fin c' = false.
Proof.
  intros H Hc. destruct c; try discriminate Hc; cbn [RE_Inv.dstep] in H.
  - (* CTop *) repeat (bm_hyp H); inversion H; subst; clear H; norm_if; use_xr; split; try reflexivity; solve_xr.
  - (* CBody *) repeat (bm_hyp H); inversion H; subst; clear H; split; reflexivity.
  - (* CAfterSleep *) repeat (bm_hyp H); inversion H; subst; clear H; split; try reflexivity; solve_xr.
  - (* CProcess *)
    set (s1 := match mobj m with Some _ => _ | None => _ end) in H.
    set (s2 := match RE.cache P D s1 with Some _ => _ | None => _ end) in H.
    assert (H2 : xr s2 = xr s).
    { subst s2 s1. repeat match goal with |- context [match ?x with _ => _ end] => destruct x end; reflexivity. }
    clearbody s2. clear s1.
    destruct (match mcmd m with
              | CStartSuspender sid pre post => exec_start_suspender s2 sid pre post
              | _ => exec_cmd s2 m
              end) as [[s3 cr] o3] eqn:Ex.
    assert (H3 : xr s3 = xr s2).
    { destruct (mcmd m); try (eapply exec_cmd_xr; exact Ex). eapply exec_start_suspender_xr; exact Ex. }
    destruct cr; inversion H; subst; clear H. split; [congruence | reflexivity].
  - (* CContinue *) inversion H; subst; clear H. destruct popped; split; reflexivity.
  - (* CCancelled *) repeat (bm_hyp H); inversion H; subst; clear H; split; try reflexivity; solve_xr.
  - (* CFinalize *) destruct (finalize s r pending); discriminate H.
Qed.

(* where the interpreter can leave the loop without going through CExit *)
Lemma dstep_inr_pc s c os s' o :
  dstep s c os = inr (s', o) -> is_exit c = false -> is_fin c = false ->
  xr s' = xr s /\ (pc s' = PcPaused \/ pc s' = PcSleep0 \/ exists k, pc s' = PcCmd k).
Proof.
  intros H Hc Hf. destruct c; try discriminate Hc; try discriminate Hf; cbn [RE_Inv.dstep] in H.
  - repeat (bm_hyp H); inversion H; subst; clear H; norm_if; use_xr; (split; [solve_xr | left; reflexivity]).
  - repeat (bm_hyp H); inversion H; subst; clear H; (split; [reflexivity | right; left; reflexivity]).
  - repeat (bm_hyp H); inversion H.
  - set (s1 := match mobj m with Some _ => _ | None => _ end) in H.
    set (s2 := match RE.cache P D s1 with Some _ => _ | None => _ end) in H.
    assert (H2 : xr s2 = xr s).
    { subst s2 s1. repeat match goal with |- context [match ?x with _ => _ end] => destruct x end; reflexivity. }
    clearbody s2. clear s1.
    destruct (match mcmd m with
              | CStartSuspender sid pre post => exec_start_suspender s2 sid pre post
              | _ => exec_cmd s2 m
              end) as [[s3 cr] o3] eqn:Ex.
    assert (H3 : xr s3 = xr s2).
    { destruct (mcmd m); try (eapply exec_cmd_xr; exact Ex). eapply exec_start_suspender_xr; exact Ex. }
    destruct cr; inversion H; subst; clear H. split; [unfold xr in *; simp_st; congruence | right; right; eexists; reflexivity].
  - inversion H.
  - repeat (bm_hyp H); inversion H.
Qed.

End Frame.
