(* C13, last clause: RE(...) / resume() return the uids of the runs opened since the call started, in order.
   For all plans, devices and schedules: [run_uids] grows exactly by the RunStart documents emitted. *)
From Coq Require Import List ZArith Bool Arith Lia.
From BV Require Import Engine.RE Proofs.RE_Small.
Import ListNotations.
(* file-local implicit arguments for the model's functions (the model file itself is untouched) *)
Local Arguments upd {P D}.
Local Arguments set_state_raw {P D}.
Local Arguments set_pc {P D}.
Local Arguments set_must_cancel {P D}.
Local Arguments set_permit {P D}.
Local Arguments set_blocking {P D}.
Local Arguments set_plans {P D}.
Local Arguments set_resps {P D}.
Local Arguments set_cache {P D}.
Local Arguments set_rewindable {P D}.
Local Arguments set_exc_slot {P D}.
Local Arguments set_stashed {P D}.
Local Arguments set_interrupted {P D}.
Local Arguments set_deferred {P D}.
Local Arguments set_exit {P D}.
Local Arguments upd2 {P D}.
Local Arguments set_bundlers {P D}.
Local Arguments set_staged {P D}.
Local Arguments set_moved {P D}.
Local Arguments set_seen {P D}.
Local Arguments set_groups {P D}.
Local Arguments set_statuses {P D}.
Local Arguments set_futs {P D}.
Local Arguments set_uids {P D}.
Local Arguments set_pardon {P D}.
Local Arguments set_dst {P D}.
Local Arguments set_task_set {P D}.
Local Arguments set_ghost {P D}.
Local Arguments interrupt {P D}.
Local Arguments resumable {P D}.
Local Arguments set_state {P D}.
Local Arguments cancel_task {P D}.
Local Arguments map_bundlers {P D}.
Local Arguments record_interruptions {P D}.
Local Arguments reset_checkpoint {P D}.
Local Arguments rewind {P D}.
Local Arguments dcall {P D}.
Local Arguments stop_movables {P D}.
Local Arguments call_pausables {P D}.
Local Arguments get_bundler {P D}.
Local Arguments put_bundler {P D}.
Local Arguments any_bundling {P D}.
Local Arguments add_status {P D}.
Local Arguments request_pause {P D}.
Local Arguments request_pause_in_task {P D}.
Local Arguments finish_read {P D}.
Local Arguments mark_cached {P D}.
Local Arguments exec_cmd {P D}.
Local Arguments set_main {P D}.
Local Arguments set_mreq {P D}.
Local Arguments set_ers {P D}.
Local Arguments push_frame {P D}.
Local Arguments pop_plan {P D}.
Local Arguments replace_top {P D}.
Local Arguments all_resolved {P D}.
Local Arguments all_released {P D}.
Local Arguments close_runs {P D}.
Local Arguments FUEL {P D}.
Local Arguments req_result {P D}.
Local Arguments clear_call {P D}.
Local Arguments state {P D}.
Local Arguments pc {P D}.
Local Arguments must_cancel {P D}.
Local Arguments permit {P D}.
Local Arguments blocking {P D}.
Local Arguments task_set {P D}.
Local Arguments plans {P D}.
Local Arguments resps {P D}.
Local Arguments cache {P D}.
Local Arguments rewindable {P D}.
Local Arguments exc_slot {P D}.
Local Arguments stashed {P D}.
Local Arguments interrupted {P D}.
Local Arguments deferred {P D}.
Local Arguments exit_status {P D}.
Local Arguments reason {P D}.
Local Arguments bundlers {P D}.
Local Arguments staged {P D}.
Local Arguments moved {P D}.
Local Arguments pausables {P D}.
Local Arguments stageables {P D}.
Local Arguments seen {P D}.
Local Arguments groups {P D}.
Local Arguments statuses {P D}.
Local Arguments failed_seen {P D}.
Local Arguments futs {P D}.
Local Arguments uid_supply {P D}.
Local Arguments run_uids {P D}.
Local Arguments record_intr {P D}.
Local Arguments pardon {P D}.
Local Arguments mreq {P D}.
Local Arguments was_paused {P D}.
Local Arguments main_err {P D}.
Local Arguments exit_reason_set {P D}.
Local Arguments icause {P D}.
Local Arguments late_pause {P D}.
Local Arguments intr_err {P D}.
Local Arguments dst {P D}.
Local Arguments start_sub {P}.
Local Arguments helper_after_pre {P}.
Local Arguments helper_after_post {P}.
Local Arguments helper_set {P}.
Local Arguments helper_rewind_next {P}.
Local Arguments helper_resume {P}.
Local Arguments frame_resume {P}.
Local Arguments exec_start_suspender {P} plan_of {D} dev.
Local Arguments close_frames {P} presume {D}.
Local Arguments finalize {P} presume {D} dev.
Local Arguments drive {P} presume plan_of {D} dev.
Local Arguments task_step {P} presume plan_of {D} dev.
Local Arguments step {P} presume plan_of {D} dev.
Local Arguments run {P} presume plan_of {D} dev.

(* uids of the RunStart documents among the observations, in order *)
Definition starts (os : list obs) : list nat :=
  flat_map (fun o => match o with ODoc (DStart u) => [u] | _ => [] end) os.
Lemma starts_app a b : starts (a ++ b) = starts a ++ starts b.
Proof. unfold starts. apply flat_map_app. Qed.

Ltac bm_hyp H :=
  match type of H with
  | context [match ?x with _ => _ end] => destruct x eqn:?
  end.
Ltac norm_hyps :=
  repeat match goal with
         | H : (if ?c then _ else _) = _ |- _ => destruct c eqn:?
         | H : match ?x with _ => _ end = (_, _) |- _ => destruct x eqn:?
         | H : (_, _) = (_, _) |- _ => inversion H; subst; clear H
         | H : Some _ = Some _ |- _ => inversion H; subst; clear H
         end.

Section Proofs.
Variable P : Type.
Variable presume : P -> input -> outcome P.
Variable plan_of : nat -> P.
Variable D : Type.
Variable dev : D -> nat -> devmeth -> D * devres.
Notation st := (st P D).

(* U s s' o: going from s to s' while emitting o opened exactly the runs announced in o *)
Definition U (s s' : st) (o : list obs) : Prop := run_uids s' = run_uids s ++ starts o.
Lemma U_refl s : U s s []. Proof. unfold U. cbn. rewrite app_nil_r. reflexivity. Qed.
Lemma U_trans s1 s2 s3 o1 o2 : U s1 s2 o1 -> U s2 s3 o2 -> U s1 s3 (o1 ++ o2).
Proof. unfold U. intros H1 H2. rewrite H2, H1, starts_app, app_assoc. reflexivity. Qed.
Lemma U_pure (s s' : st) : run_uids s' = run_uids s -> U s s' [].
Proof. unfold U. intros ->. cbn. rewrite app_nil_r. reflexivity. Qed.
Lemma U_quiet (s s' : st) o : run_uids s' = run_uids s -> starts o = [] -> U s s' o.
Proof. unfold U. intros -> ->. rewrite app_nil_r. reflexivity. Qed.

Lemma set_state_U (s : st) x s' o : set_state s x = Some (s', o) -> U s s' o.
Proof. unfold set_state. destruct (allowed (state s) x); intros H; inversion H; subst. apply U_quiet; reflexivity. Qed.
Lemma dcall_U (s : st) d m s' r o : dcall dev s d m = (s', r, o) -> U s s' o.
Proof. unfold dcall. destruct (dev (dst s) d m). intros H; inversion H; subst. apply U_quiet; reflexivity. Qed.

Lemma stop_movables_U (s : st) s' o : stop_movables dev s = (s', o) -> U s s' o.
Proof.
  unfold stop_movables.
  assert (G : forall l (s0 : st) o0 s1 o1,
             fold_left (fun acc d => let '(s0, os) := acc in
                                     let '(s1, _, o) := dcall dev s0 d MStop in (s1, os ++ o)) l (s0, o0) = (s1, o1) ->
             exists o', o1 = o0 ++ o' /\ U s0 s1 o').
  { induction l as [|d l IH]; intros s0 o0 s1 o1 H; cbn in H.
    - inversion H; subst. exists []. rewrite app_nil_r. split; [reflexivity|apply U_refl].
    - destruct (dcall dev s0 d MStop) as [[sa ra] oa] eqn:E. apply IH in H. destruct H as (o' & -> & Hq).
      apply dcall_U in E. exists (oa ++ o'). rewrite app_assoc. split; [reflexivity|]. eapply U_trans; eassumption. }
  intros H. apply G in H. destruct H as (o' & -> & Hq). cbn. assumption.
Qed.
Lemma unstage_fold_U (l : list nat) : forall (s0 : st) o0 s1 o1,
  fold_left (fun acc d => let '(s0, os) := acc in
                          let '(sa, _, o) := dcall dev s0 d MUnstage in (sa, os ++ o)) l (s0, o0) = (s1, o1) ->
  exists o', o1 = o0 ++ o' /\ U s0 s1 o'.
Proof.
  induction l as [|d l IH]; intros s0 o0 s1 o1 H; cbn in H.
  - inversion H; subst. exists []. rewrite app_nil_r. split; [reflexivity|apply U_refl].
  - destruct (dcall dev s0 d MUnstage) as [[sa ra] oa] eqn:E. apply IH in H. destruct H as (o' & -> & Hq).
    apply dcall_U in E. exists (oa ++ o'). rewrite app_assoc. split; [reflexivity|]. eapply U_trans; eassumption.
Qed.
Lemma call_pausables_U (s : st) m s' e o : call_pausables dev s m = (s', e, o) -> U s s' o.
Proof.
  unfold call_pausables.
  assert (G : forall l (s0 : st) e0 o0 s1 e1 o1,
             fold_left (fun acc d =>
               let '(s0, e, os) := acc in
               match e with
               | Some _ => acc
               | None => if mem_nat d (seen s0)
                         then let '(s1, r, o) := dcall dev s0 d m in
                              (s1, match r with DRaise x => Some x | _ => None end, os ++ o)
                         else acc
               end) l (s0, e0, o0) = (s1, e1, o1) ->
             exists o', o1 = o0 ++ o' /\ U s0 s1 o').
  { induction l as [|d l IH]; intros s0 e0 o0 s1 e1 o1 H; cbn in H.
    - inversion H; subst. exists []. rewrite app_nil_r. split; [reflexivity|apply U_refl].
    - destruct e0.
      + apply IH in H. exact H.
      + destruct (mem_nat d (seen s0)).
        * destruct (dcall dev s0 d m) as [[sa ra] oa] eqn:E. apply IH in H. destruct H as (o' & -> & Hq).
          apply dcall_U in E. exists (oa ++ o'). rewrite app_assoc. split; [reflexivity|]. eapply U_trans; eassumption.
        * apply IH in H. exact H. }
  intros H. apply G in H. destruct H as (o' & -> & Hq). cbn. assumption.
Qed.

Lemma b_record_intr_ns b b' o : b_record_intr b = Some (b', o) -> starts o = [].
Proof.
  unfold b_record_intr. destruct (bintr b); [destruct (alookup INTR (bseq b))|]; intros H; inversion H; subst; reflexivity.
Qed.
Lemma record_intr_list_ns l r o ok : record_intr_list l = (r, o, ok) -> starts o = [].
Proof.
  revert r o ok; induction l as [|[k b] l IH]; intros r o ok H; cbn in H.
  - inversion H; subst; reflexivity.
  - destruct (b_record_intr b) as [[b' o']|] eqn:E.
    + destruct (record_intr_list l) as [[r0 os] ok0] eqn:E2. inversion H; subst.
      rewrite starts_app, (b_record_intr_ns _ _ _ E), (IH _ _ _ eq_refl). reflexivity.
    + inversion H; subst; reflexivity.
Qed.
Lemma record_interruptions_U (s : st) s' o ok : record_interruptions s = (s', o, ok) -> U s s' o.
Proof.
  unfold record_interruptions. destruct (record_intr_list (bundlers s)) as [[bs os] ok0] eqn:E.
  intros H; inversion H; subst. apply U_quiet; [reflexivity|eapply record_intr_list_ns; eassumption].
Qed.

Ltac use_U :=
  repeat match goal with
         | H : dcall _ _ _ _ = _ |- _ => apply dcall_U in H
         | H : set_state _ _ = Some _ |- _ => apply set_state_U in H
         | H : stop_movables _ _ = _ |- _ => apply stop_movables_U in H
         | H : call_pausables _ _ _ = _ |- _ => apply call_pausables_U in H
         | H : record_interruptions _ = _ |- _ => apply record_interruptions_U in H
         end.
(* close a goal [U s S O] from hypotheses [U a b o]: everything is an equation on run_uids *)
Ltac u_close :=
  unfold U in *; cbn in *;
  repeat match goal with H : run_uids _ = _ |- _ => rewrite H; clear H end;
  rewrite ?starts_app; cbn; rewrite ?app_nil_r, <- ?app_assoc; try reflexivity;
  repeat break_match_goal; cbn; try reflexivity.

Lemma request_pause_U (s : st) d s' e o : request_pause s d = (s', e, o) -> U s s' o.
Proof.
  unfold request_pause, cancel_task. intros H.
  repeat bm_hyp H; inversion H; subst; clear H; use_U; u_close.
Qed.

Lemma request_pause_in_task_U (s : st) d s' e o : request_pause_in_task s d = (s', e, o) -> U s s' o.
Proof.
  unfold request_pause_in_task. destruct (request_pause s d) as [[s1 e1] o1] eqn:E.
  apply request_pause_U in E. intros H; inversion H; subst; clear H.
  unfold U in *. destruct (resumable s); [exact E | cbn in *; exact E].
Qed.

Lemma rewind_U (s : st) s' l : rewind s = (s', l) -> U s s' [].
Proof. unfold rewind. intros H. repeat bm_hyp H; inversion H; subst; apply U_pure; reflexivity. Qed.

Ltac unfold_pure := unfold reset_checkpoint, put_bundler, get_bundler, map_bundlers, add_status, mark_cached, finish_read, push_frame, pop_plan, replace_top in *.

Lemma exec_cmd_U (s : st) m s' c o : exec_cmd dev s m = (s', c, o) -> U s s' o.
Proof.
  unfold exec_cmd. intros H. destruct (mcmd m) eqn:Em.
  6: { destruct (request_pause_in_task s defer) as [[s1 e] o1] eqn:E. inversion H; subst. eapply request_pause_in_task_U; eassumption. }
  20: { destruct (call_pausables dev s MResume) as [[s1 e] o1] eqn:E. inversion H; subst. eapply call_pausables_U; eassumption. }
  all: unfold dcall, finish_read in H.
  all: repeat bm_hyp H; inversion H; subst; clear H; norm_hyps; unfold_pure; u_close.
Qed.

Lemma exec_start_suspender_U (s : st) sid pre post s' c o :
  exec_start_suspender plan_of dev s sid pre post = (s', c, o) -> U s s' o.
Proof.
  unfold exec_start_suspender. intros H.
  repeat bm_hyp H; inversion H; subst; clear H; norm_hyps; use_U;
    repeat match goal with H0 : rewind _ = _ |- _ => apply rewind_U in H0 end; unfold_pure; u_close.
Qed.

Lemma helper_resume_ns (h : helper P) i o po : helper_resume presume h i = (o, po) -> starts po = [].
Proof.
  unfold helper_resume. intros H. repeat bm_hyp H; inversion H; subst; reflexivity.
Qed.
Lemma frame_resume_ns (f : frame P) i o po : frame_resume presume f i = (o, po) -> starts po = [].
Proof.
  unfold frame_resume. destruct f.
  - intros H. repeat bm_hyp H; inversion H; subst; reflexivity.
  - intros H. repeat bm_hyp H; inversion H; subst; reflexivity.
  - intros H. repeat bm_hyp H; inversion H; subst; reflexivity.
  - destruct (helper_resume presume h i) as [o0 os0] eqn:E. intros H; inversion H; subst.
    eapply helper_resume_ns; eassumption.
Qed.
Lemma close_runs_ns (s : st) xs rs : starts (close_runs s xs rs) = [].
Proof.
  unfold close_runs. induction (bundlers s) as [|kb l IH]; cbn; [reflexivity|].
  rewrite starts_app, IH. destruct (bopen (snd kb)); reflexivity.
Qed.
Lemma close_frames_ns (s : st) : starts (close_frames presume s) = [].
Proof.
  unfold close_frames. induction (rev (plans s)) as [|f l IH]; cbn; [reflexivity|].
  rewrite starts_app, IH. destruct (frame_resume presume f Close) eqn:E. cbn [snd].
  rewrite (frame_resume_ns _ _ _ _ E). reflexivity.
Qed.

Lemma finalize_U (s : st) r pend s' o : finalize presume dev s r pend = (s', o) -> U s s' o.
Proof.
  unfold finalize. intros H.
  destruct (stop_movables dev (set_pardon s true)) as [s2 o2] eqn:E2.
  match type of H with context [fold_left ?f ?l ?a] => destruct (fold_left f l a) as [s3 o3] eqn:E3 end.
  apply stop_movables_U in E2. apply unstage_fold_U in E3. destruct E3 as (o3' & -> & E3). cbn in E3.
  repeat bm_hyp H; inversion H; subst; clear H; use_U; unfold U in *;
    rewrite ?starts_app, ?close_runs_ns, ?close_frames_ns; cbn in *;
    repeat match goal with H0 : run_uids _ = _ |- _ => rewrite H0; clear H0 end; cbn;
    rewrite ?app_nil_r, <- ?app_assoc; reflexivity.
Qed.

Notation dstep := (dstep P presume plan_of D dev).

Ltac use_U2 :=
  use_U;
  repeat match goal with
         | H : request_pause _ _ = _ |- _ => apply request_pause_U in H
         | H : exec_cmd _ _ _ = _ |- _ => apply exec_cmd_U in H
         | H : exec_start_suspender _ _ _ _ _ _ = _ |- _ => apply exec_start_suspender_U in H
         | H : frame_resume _ _ _ = _ |- _ => apply frame_resume_ns in H
         | H : finalize _ _ _ _ _ = _ |- _ => apply finalize_U in H
         | H : rewind _ = _ |- _ => apply rewind_U in H
         end.
Ltac u_close2 :=
  unfold U in *; cbn in *;
  repeat match goal with H : run_uids _ = _ |- _ => rewrite H; clear H end;
  rewrite ?starts_app; cbn;
  repeat match goal with H : starts _ = [] |- _ => rewrite H; clear H end;
  cbn; rewrite ?app_nil_r, <- ?app_assoc; try reflexivity;
  repeat break_match_goal; cbn; rewrite ?app_nil_r; try reflexivity;
  repeat (progress (repeat break_match_goal; cbn;
                    repeat match goal with H : run_uids _ = _ |- _ => rewrite H; clear H end));
  rewrite ?app_nil_r, <- ?app_assoc; try reflexivity.

Lemma dstep_U_l (s : st) c s' c' o : dstep s c = inl (s', c', o) -> U s s' o.
Proof.
  unfold RE_Small.dstep. intros H. destruct c.
  all: repeat bm_hyp H; inversion H; subst; clear H; norm_hyps; use_U2; unfold_pure; u_close2.
Qed.
Lemma dstep_U_r (s : st) c s' o : dstep s c = inr (s', o) -> U s s' o.
Proof.
  unfold RE_Small.dstep. intros H. destruct c.
  all: repeat bm_hyp H; inversion H; subst; clear H; norm_hyps; use_U2; unfold_pure; u_close2.
Qed.

Lemma finish_read_U (s : st) rn d z o0 s' c o : finish_read s rn d z o0 = (s', c, o) -> run_uids s' = run_uids s /\ o = o0.
Proof. unfold finish_read. intros H. repeat bm_hyp H; inversion H; subst; split; reflexivity. Qed.

Lemma drive_U fuel (s0 : st) : forall (s : st) c os s' o,
  U s0 s os -> drive presume plan_of dev fuel s c os = (s', o) -> U s0 s' o.
Proof.
  intros s c os s' o HU H.
  eapply (drive_inv P presume plan_of D dev (fun s c os => U s0 s os) (fun s' o => U s0 s' o)); [| | | |exact H].
  - intros s1 c1 os1 s2 c2 o2 H1 Hd. eapply U_trans; [exact H1|eapply dstep_U_l; exact Hd].
  - intros s1 c1 os1 s2 o2 H1 Hd. eapply U_trans; [exact H1|eapply dstep_U_r; exact Hd].
  - intros s1 c1 os1 H1. eapply U_trans; [exact H1|]. apply U_quiet; reflexivity.
  - exact HU.
Qed.

Lemma task_step_U (s : st) s' o : task_step presume plan_of dev s = (s', o) -> U s s' o.
Proof.
  unfold RE.task_step. intros H.
  repeat bm_hyp H;
    try (inversion H; subst; clear H; apply U_quiet; reflexivity);
    try (apply finalize_U in H; unfold U in *; cbn in *; exact H);
    norm_hyps; use_U2;
    repeat match goal with H0 : finish_read _ _ _ _ _ = _ |- _ => apply finish_read_U in H0; destruct H0 as [? ?]; subst end.
  all: try (eapply drive_U; [|exact H]; unfold mark_cached, get_bundler, put_bundler in *; u_close2).
Qed.

Lemma req_result_U (s : st) e s' o : req_result s e = (s', o) -> U s s' o.
Proof. unfold req_result. intros H. inversion H; subst. destruct (mreq s); apply U_quiet; reflexivity. Qed.

(* every event except a new call: the uids grow exactly by the runs opened *)
Lemma step_U (s : st) e s' o : (forall q, e <> EvMain (ACall q)) -> step presume plan_of dev s e = (s', o) -> U s s' o.
Proof.
  intros Hne H. destruct e; try (apply task_step_U in H; exact H).
  all: cbn [step] in H.
  1: destruct a; [exfalso; eapply Hne; reflexivity| | | |].
  all: unfold cancel_task in H.
  all: repeat bm_hyp H; inversion H; subst; clear H; norm_hyps; use_U2;
       repeat match goal with H0 : req_result _ _ = _ |- _ => apply req_result_U in H0 end; unfold_pure; u_close2.
Qed.

Definition not_call (e : event) : Prop := match e with EvMain (ACall _) => False | _ => True end.

Lemma run_U evs : forall (s : st) s' o, Forall not_call evs -> run presume plan_of dev s evs = (s', o) -> U s s' o.
Proof.
  induction evs as [|e evs IH]; intros s s' o Hn H; cbn [run] in H.
  - inversion H; subst. apply U_refl.
  - inversion Hn as [|? ? He Hn']; subst.
    destruct (step presume plan_of dev s e) as [s1 o1] eqn:E1.
    destruct (run presume plan_of dev s1 evs) as [s2 o2] eqn:E2. inversion H; subst.
    eapply U_trans; [eapply step_U; [|exact E1]|eapply IH; eassumption].
    intros q ->. exact He.
Qed.

(* the value RE(...) / resume() return *)
Lemma main_done_returns (s : st) a uids st_ d r :
  In (OOut (OutReturn uids) st_ d r) (snd (step presume plan_of dev s (EvMainDone a))) ->
  match a with ACall _ | AResume => uids = run_uids s | _ => True end.
Proof.
  cbn [step snd]. intros [H|[]]. destruct a; try exact I.
  all: repeat bm_hyp H; inversion H; reflexivity.
Qed.

(* a call accepted by an idle engine starts with no uids *)
Lemma call_clears (s : st) q : state s = Idle -> run_uids (fst (step presume plan_of dev s (EvMain (ACall q)))) = [].
Proof. intros E. cbn [step]. rewrite E. reflexivity. Qed.

Theorem returns_run_uids (s : st) q evs a uids st_ d r :
  state s = Idle -> Forall not_call evs -> (match a with ACall _ | AResume => True | _ => False end) ->
  let s1 := fst (step presume plan_of dev s (EvMain (ACall q))) in
  let '(s2, o) := run presume plan_of dev s1 evs in
  In (OOut (OutReturn uids) st_ d r) (snd (step presume plan_of dev s2 (EvMainDone a))) ->
  uids = starts o.
Proof.
  intros Hid Hn Ha s1. destruct (run presume plan_of dev s1 evs) as [s2 o] eqn:E.
  intros Hout. apply main_done_returns in Hout. apply run_U in E; [|exact Hn].
  unfold U in E. subst s1. rewrite call_clears in E by exact Hid. cbn in E.
  destruct a; try contradiction; congruence.
Qed.

End Proofs.
