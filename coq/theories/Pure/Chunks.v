(* Model of
     bluesky.callbacks.tiled_writer.concatenate_stream_datums
     bluesky.consolidators.ConsolidatorBase.__init__ / shape / chunks (with list_summands) /
       consume_stream_datum, the subclasses CSV / HDF5 / MultipartRelated (TIFF, JPEG) / NPY
       and consolidator_factory
   as coded (error kinds included).  Integers are Z; Python // and % are Z.div / Z.modulo
   (same floor convention; the divisor chunk_shape[0] is > 0 wherever the code divides, because
   the constructor rejects chunk dims <= 0).  `[b] * k` and `tuple * k` with k <= 0 are empty:
   Z.to_nat.  The dict _seqnums_to_indices_map is a key-sorted association list with
   insert-or-replace (= dict.update, observed through sorted(items())).
   File names / templates / dtypes are not modelled (only the NUMBER of assets is).
   No proofs in this file. *)
From BV Require Import Base.Prelude.
Local Open Scope Z_scope.

Inductive err := ValueError | IndexError | AssertionError | NotImplementedError | KeyError.
Inductive res (A : Type) := Ok (a : A) | Err (e : err).
Arguments Ok {A} a.
Arguments Err {A} e.

Definition err_beq (a b : err) : bool :=
  match a, b with
  | ValueError, ValueError | IndexError, IndexError | AssertionError, AssertionError
  | NotImplementedError, NotImplementedError | KeyError, KeyError => true
  | _, _ => false
  end.
Definition res_beq {A} (eqb : A -> A -> bool) (x y : res A) : bool :=
  match x, y with
  | Ok a, Ok b => eqb a b
  | Err e, Err f => err_beq e f
  | _, _ => false
  end.

(* ------------------------------------------------------------------ stream datums *)

Record datum := mkDatum {
  uid : N; descr : N; sres : N;              (* identities: harness-assigned ids *)
  istart : Z; istop : Z;                     (* indices  = [istart, istop) *)
  sstart : Z; sstop : Z }.                   (* seq_nums = [sstart, sstop) *)

Definition datum_beq (a b : datum) : bool :=
  N.eqb (uid a) (uid b) && N.eqb (descr a) (descr b) && N.eqb (sres a) (sres b) &&
  (istart a =? istart b) && (istop a =? istop b) && (sstart a =? sstart b) && (sstop a =? sstop b).

(* len({doc[f] for doc in docs}) <= 1 *)
Definition all_same (f : datum -> N) (ds : list datum) : bool :=
  match ds with
  | [] => true
  | d :: r => forallb (fun x => N.eqb (f x) (f d)) r
  end.

(* sorted(docs, key=start): a STABLE sort; insertion sort taking the list from the right *)
Fixpoint insert (d : datum) (l : list datum) : list datum :=
  match l with
  | [] => [d]
  | y :: l' => if istart d <=? istart y then d :: l else y :: insert d l'
  end.
Definition isort (ds : list datum) : list datum := fold_right insert [] ds.

(* for d1, d2 in zip(docs[:-1], docs[1:]): d1.stop == d2.start *)
Fixpoint adjacent (l : list datum) : bool :=
  match l with
  | d1 :: ((d2 :: _) as r) => (istop d1 =? istart d2) && adjacent r
  | _ => true
  end.

Definition concatenate (ds : list datum) : res datum :=
  match ds with
  | [d] => Ok d                                              (* returned unchanged *)
  | _ =>
    if negb (all_same descr ds) then Err ValueError
    else if negb (all_same sres ds) then Err ValueError
    else
      let s := isort ds in
      if negb (adjacent s) then Err ValueError
      else match s with
           | [] => Err IndexError                            (* docs[-1] of the empty tuple *)
           | f :: _ =>
             let l := last s f in
             Ok (mkDatum (uid l) (descr l) (sres l) (istart f) (istop l) (sstart f) (sstop l))
           end
  end.

(* ------------------------------------------------------------------ consolidators *)

Inductive kind := KUnknown | KBase | KCsv | KHdf5 | KTiff | KJpeg | KNpy.
(* KUnknown: a mimetype that is in no registry entry and is not application/octet-stream:
   the defaultdict gives ConsolidatorBase, whose get_supported_mimetype raises ValueError.
   KBase: application/octet-stream. *)
Inductive join := Stack | Concat.

Definition kind_beq (a b : kind) : bool :=
  match a, b with
  | KUnknown, KUnknown | KBase, KBase | KCsv, KCsv | KHdf5, KHdf5 | KTiff, KTiff
  | KJpeg, KJpeg | KNpy, KNpy => true
  | _, _ => false
  end.
Definition join_beq (a b : join) : bool :=
  match a, b with Stack, Stack | Concat, Concat => true | _, _ => false end.

(* what the StreamResource / descriptor say *)
Record params := mkParams {
  p_kind : kind;
  p_shape : list (option Z);       (* descriptor data_keys[..].shape; None = variable-sized *)
  p_mult : option Z;               (* parameters.get("multiplier") *)
  p_chunk : option (list Z);       (* parameters.get("chunk_shape") *)
  p_join : option join;            (* parameters.get("join_method") *)
  p_jchunks : option bool;         (* parameters.get("join_chunks") *)
  p_template : bool }.             (* "template" in parameters (TIFF/JPEG read it) *)

Record cons := mkCons {
  c_kind : kind;
  c_dshape : list Z;               (* datum_shape *)
  c_join : join;
  c_jchunks : bool;
  c_chunk : list Z;                (* chunk_shape *)
  c_rows : Z;                      (* _num_rows *)
  c_map : list (Z * Z);            (* _seqnums_to_indices_map, sorted by key *)
  c_assets : Z }.                  (* len(assets) *)

Definition class_join (k : kind) : join := match k with KNpy => Stack | _ => Concat end.
Definition class_jchunks (k : kind) : bool := match k with KCsv => false | _ => true end.
Definition is_multipart (k : kind) : bool :=
  match k with KTiff | KJpeg | KNpy => true | _ => false end.

Fixpoint all_some (l : list (option Z)) : option (list Z) :=
  match l with
  | [] => Some []
  | Some x :: r => match all_some r with Some r' => Some (x :: r') | None => None end
  | None :: _ => None
  end.

(* `if multiplier := params.get("multiplier"):` is a truthiness test: None and 0 skip it *)
Definition apply_mult (m : option Z) (ds : list Z) : list Z :=
  match m with
  | None => ds
  | Some m =>
    if m =? 0 then ds
    else match ds with
         | [] => [m]
         | d0 :: dt => if d0 =? m then ds else if d0 =? 1 then m :: dt else m :: ds
         end
  end.

(* ConsolidatorBase.__init__ with the (possibly injected) chunk_shape parameter [chunk] *)
Definition base_init (p : params) (chunk : option (list Z)) : res cons :=
  let k := p_kind p in
  match k with
  | KUnknown => Err ValueError
  | _ =>
    match all_some (p_shape p) with
    | None => Err NotImplementedError
    | Some sh =>
      (* the CLASS attribute join_method is consulted here, before the override below *)
      let ds1 := if lZ_beq sh [1] && join_beq (class_join k) Stack then [] else sh in
      let ds2 := apply_mult (p_mult p) ds1 in
      let cs := match chunk with Some c => c | None => [] end in
      if existsb (fun d => d <=? 0) cs then Err ValueError
      else Ok (mkCons k ds2
                 (match p_join p with Some j => j | None => class_join k end)
                 (match p_jchunks p with Some b => b | None => class_jchunks k end)
                 cs 0 [] 0)
    end
  end.

Definition set_assets (c : cons) (n : Z) : cons :=
  mkCons (c_kind c) (c_dshape c) (c_join c) (c_jchunks c) (c_chunk c) (c_rows c) (c_map c) n.
Definition set_chunk (c : cons) (cs : list Z) : cons :=
  mkCons (c_kind c) (c_dshape c) (c_join c) (c_jchunks c) cs (c_rows c) (c_map c) (c_assets c).

(* chunk_shape or (1,) *)
Definition or_one (l : list Z) : list Z := match l with [] => [1] | _ :: _ => l end.

(* MultipartRelatedConsolidator.__init__ after super().__init__ *)
Definition multipart_init (has_template : bool) (c : cons) : res cons :=
  let cs := or_one (c_chunk c) in
  let c0 := match c_chunk c with [] => 1 | x :: _ => x end in  (* its first entry *)
  let c' := set_chunk c cs in
  let fin := if has_template then Ok c' else Err KeyError in
  match c_join c with
  | Stack => fin
  | Concat =>
    match c_dshape c with
    | [] => Err IndexError                                     (* datum_shape[0] of () *)
    | d0 :: _ => if d0 mod c0 =? 0 then fin else Err AssertionError
    end
  end.

(* consolidator_factory(stream_resource, descriptor) *)
Definition construct (p : params) : res cons :=
  match p_kind p with
  | KUnknown | KBase => base_init p (p_chunk p)
  | KCsv | KHdf5 =>
    match base_init p (p_chunk p) with
    | Ok c => Ok (set_assets c 1)
    | Err e => Err e
    end
  | KTiff | KJpeg =>
    match base_init p (p_chunk p) with
    | Ok c => multipart_init (p_template p) c
    | Err e => Err e
    end
  | KNpy =>
    (* injects template and chunk_shape = (1, *descriptor shape) *)
    let inj := match all_some (p_shape p) with Some sh => Some (1 :: sh) | None => None end in
    match base_init p inj with
    | Ok c => multipart_init true c
    | Err e => Err e
    end
  end.

Definition shape (c : cons) : list Z :=
  match c_join c, c_dshape c with
  | Concat, d0 :: dt => c_rows c * d0 :: dt
  | _, ds => c_rows c :: ds
  end.

(* tuple([b] * (A // b) + ([A % b] if A % b > 0 else [])) * repeat or (0,) *)
Definition list_summands (A b r : Z) : list Z :=
  let base := repeat b (Z.to_nat (A / b)) ++ (if A mod b >? 0 then [A mod b] else []) in
  match concat (repeat base (Z.to_nat r)) with
  | [] => [0]
  | t => t
  end.

Definition summands_zip (sh cs : list Z) : list (list Z) :=
  map (fun dc => list_summands (fst dc) (snd dc) 1) (combine sh cs).

Definition chunks (c : cons) : res (list (list Z)) :=
  let sh := shape c in
  let cs := c_chunk c in
  let k := length cs in
  if (k <=? length sh)%nat then
    let rest := map (fun d => [d]) (skipn k sh) in
    let branch1 := Ok (summands_zip (firstn k sh) cs ++ rest) in
    match cs with
    | [] => branch1
    | c0 :: ct =>
      if join_beq (c_join c) Stack || (join_beq (c_join c) Concat && c_jchunks c) then branch1
      else match c_dshape c with
           | [] => Err IndexError                              (* self.datum_shape[0] *)
           | d0 :: _ =>
             Ok ((list_summands d0 c0 (c_rows c) :: summands_zip (skipn 1 (firstn k sh)) ct) ++ rest)
           end
    end
  else Err ValueError.

(* range(a, b) *)
Definition zrange (a b : Z) : list Z := map (fun i => a + Z.of_nat i) (seq 0 (Z.to_nat (b - a))).

Fixpoint map_set (k v : Z) (m : list (Z * Z)) : list (Z * Z) :=
  match m with
  | [] => [(k, v)]
  | (k', v') :: m' =>
    if k <? k' then (k, v) :: m
    else if k =? k' then (k, v) :: m'
    else (k', v') :: map_set k v m'
  end.
Definition map_update (m : list (Z * Z)) (kvs : list (Z * Z)) : list (Z * Z) :=
  fold_left (fun m kv => map_set (fst kv) (snd kv) m) kvs m.
Fixpoint map_get (k : Z) (m : list (Z * Z)) : option Z :=
  match m with
  | [] => None
  | (k', v') :: m' => if k =? k' then Some v' else map_get k m'
  end.

(* number of files appended by MultipartRelatedConsolidator.consume_stream_datum *)
Definition files_per_datum (c : cons) : res Z :=
  match c_join c with
  | Stack => Ok 1
  | Concat =>
    match c_dshape c, c_chunk c with
    | d0 :: _, c0 :: _ => Ok (d0 / c0)
    | _, _ => Err IndexError
    end
  end.

Definition base_consume (c : cons) (d : datum) (assets : Z) : cons :=
  mkCons (c_kind c) (c_dshape c) (c_join c) (c_jchunks c) (c_chunk c)
    (c_rows c + (istop d - istart d))
    (map_update (c_map c) (combine (zrange (sstart d) (sstop d)) (zrange (istart d) (istop d))))
    assets.

Definition consume (c : cons) (d : datum) : res cons :=
  if is_multipart (c_kind c) then
    match files_per_datum c with
    | Err e => Err e
    | Ok f => Ok (base_consume c d (c_assets c + Z.max 0 (istop d * f - istart d * f)))
    end
  else Ok (base_consume c d (c_assets c)).

Fixpoint consume_all (c : cons) (ds : list datum) : res cons :=
  match ds with
  | [] => Ok c
  | d :: r => match consume c d with Ok c' => consume_all c' r | Err e => Err e end
  end.

(* ------------------------------------------------------------------ finding classes *)

(* C36-a: chunks reads datum_shape[0] of a scalar datum: IndexError instead of a chunking *)
Definition finding_C36_a (c : cons) : bool :=
  join_beq (c_join c) Concat && negb (c_jchunks c) &&
  (length (c_dshape c) =? 0)%nat && (length (c_chunk c) =? 1)%nat.
(* C36-b: the NPY consolidator's self-injected chunk_shape is longer than its own shape *)
Definition finding_C36_b (c : cons) : bool :=
  kind_beq (c_kind c) KNpy && (length (shape c) <? length (c_chunk c))%nat.

Definition cons_findings (p : params) : bool * bool :=
  match construct p with
  | Ok c => (finding_C36_a c, finding_C36_b c)
  | Err _ => (false, false)
  end.

(* ------------------------------------------------------------------ whole-run observation *)

Definition snapshot := (Z * list Z * res (list (list Z)))%type.   (* _num_rows, shape, chunks *)
Definition snap (c : cons) : snapshot := (c_rows c, shape c, chunks c).

Fixpoint run_steps (c : cons) (ds : list datum) : list snapshot * res cons :=
  match ds with
  | [] => ([], Ok c)
  | d :: r =>
    match consume c d with
    | Err e => ([], Err e)
    | Ok c' => let '(ss, fin) := run_steps c' r in (snap c' :: ss, fin)
    end
  end.

Inductive cobs :=
| CErr (e : err)                                  (* the constructor raised *)
| CRun (dshape : list Z) (j : join) (jc : bool) (cs : list Z)
       (steps : list snapshot)                    (* initial state, then after each datum *)
       (fin : res (list (Z * Z) * Z)).            (* sorted map items, len(assets); or consume raised *)

Definition run_cons (p : params) (ds : list datum) : cobs :=
  match construct p with
  | Err e => CErr e
  | Ok c =>
    let '(ss, fin) := run_steps c ds in
    CRun (c_dshape c) (c_join c) (c_jchunks c) (c_chunk c) (snap c :: ss)
         (match fin with Ok c' => Ok (c_map c', c_assets c') | Err e => Err e end)
  end.

Definition zz_beq (a b : Z * Z) : bool := (fst a =? fst b) && (snd a =? snd b).
Definition snapshot_beq (a b : snapshot) : bool :=
  let '(r1, s1, c1) := a in let '(r2, s2, c2) := b in
  (r1 =? r2) && lZ_beq s1 s2 && res_beq llZ_beq c1 c2.
Definition cobs_beq (a b : cobs) : bool :=
  match a, b with
  | CErr e, CErr f => err_beq e f
  | CRun d1 j1 b1 c1 s1 f1, CRun d2 j2 b2 c2 s2 f2 =>
    lZ_beq d1 d2 && join_beq j1 j2 && Bool.eqb b1 b2 && lZ_beq c1 c2 &&
    list_beq snapshot_beq s1 s2 &&
    res_beq (fun x y => list_beq zz_beq (fst x) (fst y) && (snd x =? snd y)) f1 f2
  | _, _ => false
  end.

(* the term the correspondence evaluates for a consolidator case *)
Definition cons_case (p : params) (ds : list datum) (expected : cobs) (pyA pyB : bool) : bool :=
  cobs_beq (run_cons p ds) expected &&
  Bool.eqb (fst (cons_findings p)) pyA && Bool.eqb (snd (cons_findings p)) pyB.
Definition concat_case (ds : list datum) (expected : res datum) : bool :=
  res_beq datum_beq (concatenate ds) expected.

(* ------------------------------------------------------------------ specification side *)

(* the chain condition on a list in chain order *)
Fixpoint chain (l : list datum) : Prop :=
  match l with
  | d1 :: ((d2 :: _) as r) => istop d1 = istart d2 /\ chain r
  | _ => True
  end.
Definition wf_strict (ds : list datum) : Prop := forall d, In d ds -> istart d < istop d.
Definition wf_weak (ds : list datum) : Prop := forall d, In d ds -> istart d <= istop d.
Definition same_on (f : datum -> N) (ds : list datum) : Prop :=
  forall x y, In x ds -> In y ds -> f x = f y.
(* seq_nums ordered consistently with indices *)
Definition seq_consistent (ds : list datum) : Prop :=
  forall d1 d2, In d1 ds -> In d2 ds -> istart d1 <= istart d2 ->
                sstart d1 <= sstart d2 /\ sstop d1 <= sstop d2.
Definition is_min (v : Z) (l : list Z) : Prop := In v l /\ forall x, In x l -> v <= x.
Definition is_max (v : Z) (l : list Z) : Prop := In v l /\ forall x, In x l -> x <= v.

Definition zsum (l : list Z) : Z := fold_right Z.add 0 l.
(* the chunk sizes of one dimension: the single empty chunk (0,), or a non-empty list of positive sizes *)
Definition proper_dim (l : list Z) : Prop := l = [0] \/ (l <> [] /\ Forall (fun s => 0 < s) l).

(* seq_num s is among the pairs zip(range(seq), range(idx)) written for datum d *)
Definition covers (d : datum) (s : Z) : bool :=
  (sstart d <=? s) && (s <? sstart d + Z.min (Z.max 0 (sstop d - sstart d)) (Z.max 0 (istop d - istart d))).
Definition row_of (d : datum) (s : Z) : Z := istart d + (s - sstart d).
(* the LAST datum of the history covering s decides *)
Fixpoint last_cover (ds : list datum) (s : Z) : option Z :=
  match ds with
  | [] => None
  | d :: r => match last_cover r s with
              | Some v => Some v
              | None => if covers d s then Some (row_of d s) else None
              end
  end.
Definition seq_disjoint (d1 d2 : datum) : Prop := forall s, covers d1 s = true -> covers d2 s = false.

(* well-formed constructor input: no negative dims, no negative multiplier *)
Definition params_nonneg (p : params) : Prop :=
  (forall x, In (Some x) (p_shape p) -> 0 <= x) /\
  (forall m, p_mult p = Some m -> 0 <= m).
