(* C13 / C12(i), part C: the coupling invariant between the response monitor and the engine's two
   stacks, and its preservation by every control point of the `_run` loop ([dstep]). *)
From Coq Require Import List ZArith Bool Arith Lia.
From BV Require Import Engine.RE Engine.REInst Engine.RespMon Proofs.RE_Small Proofs.RE_RespA Proofs.RE_RespB.
Import ListNotations.
(* file-local implicit arguments for the model's functions (the model file itself is untouched) *)
Local Arguments upd {P D}.
Local Arguments set_state_raw {P D}.
Local Arguments set_pc {P D}.
Local Arguments set_must_cancel {P D}.
Local Arguments set_permit {P D}.
Local Arguments set_blocking {P D}.
Local Arguments set_plans {P D}.
Local Arguments set_resps {P D}.
Local Arguments set_cache {P D}.
Local Arguments set_rewindable {P D}.
Local Arguments set_exc_slot {P D}.
Local Arguments set_stashed {P D}.
Local Arguments set_interrupted {P D}.
Local Arguments set_deferred {P D}.
Local Arguments set_exit {P D}.
Local Arguments upd2 {P D}.
Local Arguments set_bundlers {P D}.
Local Arguments set_staged {P D}.
Local Arguments set_moved {P D}.
Local Arguments set_seen {P D}.
Local Arguments set_groups {P D}.
Local Arguments set_statuses {P D}.
Local Arguments set_futs {P D}.
Local Arguments set_uids {P D}.
Local Arguments set_pardon {P D}.
Local Arguments set_dst {P D}.
Local Arguments set_task_set {P D}.
Local Arguments set_ghost {P D}.
Local Arguments interrupt {P D}.
Local Arguments resumable {P D}.
Local Arguments set_state {P D}.
Local Arguments cancel_task {P D}.
Local Arguments map_bundlers {P D}.
Local Arguments record_interruptions {P D}.
Local Arguments reset_checkpoint {P D}.
Local Arguments rewind {P D}.
Local Arguments dcall {P D}.
Local Arguments stop_movables {P D}.
Local Arguments call_pausables {P D}.
Local Arguments get_bundler {P D}.
Local Arguments put_bundler {P D}.
Local Arguments any_bundling {P D}.
Local Arguments add_status {P D}.
Local Arguments request_pause {P D}.
Local Arguments finish_read {P D}.
Local Arguments mark_cached {P D}.
Local Arguments exec_cmd {P D}.
Local Arguments set_main {P D}.
Local Arguments set_mreq {P D}.
Local Arguments set_ers {P D}.
Local Arguments push_frame {P D}.
Local Arguments pop_plan {P D}.
Local Arguments replace_top {P D}.
Local Arguments all_resolved {P D}.
Local Arguments all_released {P D}.
Local Arguments close_runs {P D}.
Local Arguments FUEL {P D}.
Local Arguments req_result {P D}.
Local Arguments clear_call {P D}.
Local Arguments state {P D}.
Local Arguments pc {P D}.
Local Arguments must_cancel {P D}.
Local Arguments permit {P D}.
Local Arguments blocking {P D}.
Local Arguments task_set {P D}.
Local Arguments plans {P D}.
Local Arguments resps {P D}.
Local Arguments cache {P D}.
Local Arguments rewindable {P D}.
Local Arguments exc_slot {P D}.
Local Arguments stashed {P D}.
Local Arguments interrupted {P D}.
Local Arguments deferred {P D}.
Local Arguments exit_status {P D}.
Local Arguments reason {P D}.
Local Arguments bundlers {P D}.
Local Arguments staged {P D}.
Local Arguments moved {P D}.
Local Arguments pausables {P D}.
Local Arguments stageables {P D}.
Local Arguments seen {P D}.
Local Arguments groups {P D}.
Local Arguments statuses {P D}.
Local Arguments failed_seen {P D}.
Local Arguments futs {P D}.
Local Arguments uid_supply {P D}.
Local Arguments run_uids {P D}.
Local Arguments record_intr {P D}.
Local Arguments pardon {P D}.
Local Arguments mreq {P D}.
Local Arguments was_paused {P D}.
Local Arguments main_err {P D}.
Local Arguments exit_reason_set {P D}.
Local Arguments icause {P D}.
Local Arguments late_pause {P D}.
Local Arguments intr_err {P D}.
Local Arguments dst {P D}.
Local Arguments start_sub {P}.
Local Arguments helper_after_pre {P}.
Local Arguments helper_after_post {P}.
Local Arguments helper_set {P}.
Local Arguments helper_rewind_next {P}.
Local Arguments helper_resume {P}.
Local Arguments frame_resume {P}.
Local Arguments exec_start_suspender {P} plan_of {D} dev.
Local Arguments close_frames {P} presume {D}.
Local Arguments finalize {P} presume {D} dev.
Local Arguments drive {P} presume plan_of {D} dev.
Local Arguments task_step {P} presume plan_of {D} dev.
Local Arguments step {P} presume plan_of {D} dev.
Local Arguments run {P} presume plan_of {D} dev.

Ltac bm_hyp H :=
  match type of H with
  | context [match ?x with _ => _ end] => destruct x eqn:?
  end.
Ltac norm_hyps :=
  repeat match goal with
         | H : (if ?c then _ else _) = _ |- _ => destruct c eqn:?
         | H : match ?x with _ => _ end = (_, _) |- _ => destruct x eqn:?
         | H : (_, _) = (_, _) |- _ => inversion H; subst; clear H
         | H : Some _ = Some _ |- _ => inversion H; subst; clear H
         end.

Section Proofs.
Variable P : Type.
Variable presume : P -> input -> outcome P.
Variable plan_of : nat -> P.
Variable D : Type.
Variable dev : D -> nat -> devmeth -> D * devres.
Notation st := (st P D).
Variable pid : nat.
Hypothesis Hpid : pid < 1000.
Hypothesis Hnc : forall p i, presume p i <> Raised ECancelled.
Local Hint Resolve Hpid Hnc : core.
Notation eng := (eng P).
Notation okf := (okf P pid).
Notation opl := (opl pid).
Notation startedF := (@startedF P).

(* ------------------------------------------------------------------ the coupling invariant *)
Definition aE (ms : mon) (e : exn) : Prop := allowed_exn ms e = true.
Definition rok (ms : mon) (r : resp) : Prop := match r with RExn e => aE ms e | RVal _ => True end.
(* a response slot and the frame it will be delivered to *)
Definition pairE (ms : mon) (f : frame P) (r : resp) : Prop := rok ms r /\ (startedF f \/ r = RVal VNone).
Definition exc_ok (s : st) : Prop := forall e, exc_slot s = Some e -> ext_exn e = true.
Definition stash_ok (s : st) (ms : mon) : Prop := forall e, stashed s = Some e -> aE ms e.
Definition allNone (l : list resp) : Prop := Forall (eq (RVal VNone)) l.

(* the response slot g of the tracked plan (started = b) is what the monitor recorded *)
Definition owed (ms : mon) (b : bool) (g : resp) : Prop :=
  match mp ms with
  | SNone => b = false /\ g = RVal VNone
  | SAwait _ | SCanc _ => b = true /\ g = RVal VNone
  | SGot _ r => b = true /\ g = r
  | SIn | SDead => False
  end.
Definition closeable (ms : mon) (b : bool) : Prop :=
  match mp ms with
  | SNone => b = false
  | SAwait _ | SCanc _ | SGot _ _ => b = true
  | SIn | SDead => False
  end.
Lemma owed_closeable ms b g : owed ms b g -> closeable ms b.
Proof. unfold owed, closeable. destruct (mp ms); tauto. Qed.

(* monitor states that allow at least the same exceptions *)
Definition mono (ms ms' : mon) : Prop := forall e, aE ms e -> aE ms' e.
Lemma mono_refl ms : mono ms ms. Proof. intros e H; exact H. Qed.
Lemma mono_trans a b c : mono a b -> mono b c -> mono a c. Proof. intros H1 H2 e H; auto. Qed.
Lemma rok_mono ms ms' r : mono ms ms' -> rok ms r -> rok ms' r.
Proof. intros Hm. destruct r; cbn; auto. Qed.
Lemma pairE_mono ms ms' f r : mono ms ms' -> pairE ms f r -> pairE ms' f r.
Proof. intros Hm [H1 H2]. split; [eapply rok_mono; eassumption|exact H2]. Qed.
Lemma pairs_mono ms ms' fs rs : mono ms ms' -> Forall2 (pairE ms) fs rs -> Forall2 (pairE ms') fs rs.
Proof. intros Hm H. induction H; constructor; [eapply pairE_mono; eassumption|assumption]. Qed.
Lemma owed_mp ms ms' b g : mp ms' = mp ms -> owed ms b g -> owed ms' b g.
Proof. unfold owed. intros ->. auto. Qed.
Lemma pairE_none ms f : pairE ms f (RVal VNone).
Proof. split; [exact I|right; reflexivity]. Qed.
Lemma pairs_none ms fs l : allNone l -> length l = length fs -> Forall2 (pairE ms) fs l.
Proof.
  revert l; induction fs as [|f fs IH]; intros l Hn Hl; destruct l; try discriminate; constructor.
  - inversion Hn; subst. apply pairE_none.
  - inversion Hn; subst. apply IH; [assumption|]. cbn in Hl. lia.
Qed.
Lemma allNone_cons_snoc l : allNone l -> RVal VNone :: l = l ++ [RVal VNone].
Proof. induction 1 as [|x l Hx _ IH]; [reflexivity|]. subst x. cbn. rewrite <- IH. reflexivity. Qed.

Lemma mono_set_mstate ms x : mono ms (set_mstate ms x). Proof. intros e H; exact H. Qed.
Lemma mono_after ms po : mono ms (ms_after ms po). Proof. intros e H. apply allowed_after; exact H. Qed.
Lemma mono_add_seen ms e0 : mono ms (add_seen ms e0).
Proof.
  intros e H. unfold aE, allowed_exn in *. cbn.
  apply orb_true_iff in H. destruct H as [H|H]; [apply orb_true_iff in H; destruct H as [H|H]|].
  - rewrite H. reflexivity.
  - rewrite H. rewrite !orb_true_r. reflexivity.
  - rewrite H. rewrite orb_true_r. reflexivity.
Qed.
Lemma aE_add_seen ms e : aE (add_seen ms e) e.
Proof.
  unfold aE, allowed_exn. cbn. unfold exn_eqb at 1. destruct (exn_eq_dec e e); [|congruence].
  cbn. rewrite orb_true_r. reflexivity.
Qed.
Lemma aE_ext ms e : ext_exn e = true -> aE ms e.
Proof. intros H. unfold aE, allowed_exn. rewrite H. reflexivity. Qed.

(* the phases *)
Definition Gone (s : st) (ms : mon) : Prop := Forall okf (plans s) /\ dead2 (mp ms).
Definition Bal (s : st) (ms : mon) : Prop :=
  exists fs p b rs g,
    plans s = fs ++ [FUser pid p b] /\ Forall eng fs /\ resps s = rs ++ [g] /\ Forall2 (pairE ms) fs rs /\
    owed ms b g /\ stash_ok s ms.
Definition ExitP (s : st) (ms : mon) : Prop :=
  (Forall okf (plans s) /\ dead3 (mp ms)) \/
  (exists fs p b, plans s = fs ++ [FUser pid p b] /\ Forall eng fs /\ closeable ms b).

(* a command is being processed: its frame fr, what lies below it and the responses owed below *)
Inductive below_ok (ms : mon) (uc : bool -> Prop) (oc : Prop) : frame P -> list (frame P) -> list resp -> Prop :=
  | BU p b : uc b -> below_ok ms uc oc (FUser pid p b) [] []
  | BO fr fs p b rs g : eng fr -> oc -> Forall eng fs -> Forall2 (pairE ms) fs rs -> owed ms b g ->
                        below_ok ms uc oc fr (fs ++ [FUser pid p b]) (rs ++ [g]).
(* ps: frames pushed (each with a None response) since the command started *)
Definition Proc (s : st) (ms : mon) (uc : bool -> Prop) (oc : Prop) (ps : list (frame P)) (fr : frame P) : Prop :=
  exists below rb nones,
    plans s = ps ++ fr :: below /\ resps s = nones ++ rb /\ length nones = length ps /\ allNone nones /\
    Forall eng ps /\ below_ok ms uc oc fr below rb /\ stash_ok s ms.

Definition ucProc (ms : mon) (b : bool) : Prop := b = true /\ mp ms = SIn.
Definition ucCmd (ms : mon) (b : bool) : Prop := b = true /\ exists m, mp ms = SAwait m.
Definition ucCanc (ms : mon) (b : bool) : Prop := (b = true /\ exists m, mp ms = SAwait m) \/ (b = false /\ mp ms = SNone).
Definition ucCont (ms : mon) (r : resp) (b : bool) : Prop :=
  (b = true /\ ((exists m, mp ms = SGot m r) \/ (r = RVal VNone /\ exists m, mp ms = SAwait m))) \/
  (b = false /\ mp ms = SNone /\ r = RVal VNone).
Definition ocCmd (ms : mon) : Prop := forall m, mp ms <> SAwait m.

Definition exitc (c : ctl) : Prop := match c with CExit _ | CFinalize _ _ => True | _ => False end.

Definition QP (s : st) (c : ctl) (ms : mon) : Prop :=
  match c with
  | CTop | CBody | CAfterSleep | CContinue false _ | CCancelled false => Gone s ms \/ Bal s ms
  | CProcess _ => Gone s ms \/ exists fr, Proc s ms (ucProc ms) True [] fr /\ startedF fr
  | CContinue true r =>
      Gone s ms \/ exists ps fr, Proc s ms (ucCont ms r) (rok ms r) ps fr /\ (r = RVal VNone \/ (ps = [] /\ startedF fr))
  | CCancelled true => Gone s ms \/ exists ps fr, Proc s ms (ucCanc ms) True ps fr
  | CExit _ | CFinalize _ _ => ExitP s ms
  end.
Definition Q (s : st) (c : ctl) (ms : mon) : Prop :=
  mstate ms = state s /\ exc_ok s /\ (state s = Paused -> exitc c) /\ QP s c ms.

(* between events *)
Definition IP (s : st) (ms : mon) : Prop :=
  match pc s with
  | PcNone | PcDone _ => True
  | PcNotStarted | PcPermit0 => Gone s ms \/ Bal (set_stashed s None) ms      (* `_run` clears its stash when it starts *)
  | PcSleep0 | PcPaused => Gone s ms \/ Bal s ms
  | PcCmd _ => Gone s ms \/ exists ps fr, Proc s ms (ucCmd ms) (ocCmd ms) ps fr /\ startedF fr /\ (ps <> [] -> must_cancel s = true)
  | PcFinalSleep _ => ExitP s ms
  end.
Definition TYP (s : st) : Prop :=
  state s = Paused -> match pc s with PcSleep0 | PcCmd _ | PcNotStarted | PcPermit0 => False | _ => True end.
Definition Inv (s : st) (ms : mon) : Prop :=
  mstate ms = state s /\ exc_ok s /\ TYP s /\ mp ms <> SIn /\ IP s ms.

(* ------------------------------------------------------------------ transfer lemmas *)
Lemma Gone_tr (s s' : st) ms ms' : plans s' = plans s -> mp ms' = mp ms -> Gone s ms -> Gone s' ms'.
Proof. unfold Gone. intros -> ->. auto. Qed.
Lemma stash_ok_tr (s s' : st) ms ms' :
  (stashed s' = stashed s \/ (exists e, stashed s' = Some e /\ ext_exn e = true) \/ stashed s' = None) ->
  mono ms ms' -> stash_ok s ms -> stash_ok s' ms'.
Proof.
  intros [E|[(e0 & E & X)|E]] Hm H e He.
  - rewrite E in He. apply Hm, H, He.
  - rewrite E in He. inversion He; subst. apply aE_ext; exact X.
  - congruence.
Qed.
Lemma Bal_tr (s s' : st) ms ms' :
  plans s' = plans s -> resps s' = resps s ->
  (stashed s' = stashed s \/ (exists e, stashed s' = Some e /\ ext_exn e = true) \/ stashed s' = None) ->
  mono ms ms' -> mp ms' = mp ms -> Bal s ms -> Bal s' ms'.
Proof.
  intros Ep Er Es Hm Hmp (fs & p & b & rs & g & H1 & H2 & H3 & H4 & H5 & H6).
  exists fs, p, b, rs, g. rewrite Ep, Er. repeat split; try assumption.
  - eapply pairs_mono; eassumption.
  - eapply owed_mp; eassumption.
  - eapply stash_ok_tr; eassumption.
Qed.
Lemma ExitP_tr (s s' : st) ms ms' : plans s' = plans s -> mp ms' = mp ms -> ExitP s ms -> ExitP s' ms'.
Proof.
  unfold ExitP, closeable. intros -> ->. auto.
Qed.
Lemma below_tr' ms ms' (uc uc' : bool -> Prop) (oc oc' : Prop) fr below rb :
  mono ms ms' -> (forall b g, owed ms b g -> owed ms' b g) -> (forall b, uc b -> uc' b) -> (oc -> oc') ->
  below_ok ms uc oc fr below rb -> below_ok ms' uc' oc' fr below rb.
Proof.
  intros Hm Hmp Hu Ho H. destruct H.
  - constructor. auto.
  - constructor; auto. eapply pairs_mono; eassumption.
Qed.
Lemma below_tr ms ms' (uc uc' : bool -> Prop) (oc oc' : Prop) fr below rb :
  mono ms ms' -> mp ms' = mp ms -> (forall b, uc b -> uc' b) -> (oc -> oc') ->
  below_ok ms uc oc fr below rb -> below_ok ms' uc' oc' fr below rb.
Proof. intros Hm Hmp. apply below_tr'; [exact Hm|]. intros b g. apply owed_mp; exact Hmp. Qed.
Lemma Proc_tr (s s' : st) ms ms' (uc uc' : bool -> Prop) (oc oc' : Prop) ps fr :
  plans s' = plans s -> resps s' = resps s ->
  (stashed s' = stashed s \/ (exists e, stashed s' = Some e /\ ext_exn e = true) \/ stashed s' = None) ->
  mono ms ms' -> mp ms' = mp ms -> (forall b, uc b -> uc' b) -> (oc -> oc') ->
  Proc s ms uc oc ps fr -> Proc s' ms' uc' oc' ps fr.
Proof.
  intros Ep Er Es Hm Hmp Hu Ho (below & rb & nones & H1 & H2 & H3 & H4 & H5 & H6 & H7).
  exists below, rb, nones. rewrite Ep, Er. repeat split; try assumption.
  - eapply below_tr; eassumption.
  - eapply stash_ok_tr; eassumption.
Qed.

Lemma Gone_nin s ms : Gone s ms -> mp ms <> SIn.
Proof. intros [_ [H|H]]; congruence. Qed.
Lemma Bal_nin s ms : Bal s ms -> mp ms <> SIn.
Proof. intros (fs & p & b & rs & g & _ & _ & _ & _ & H & _). unfold owed in H. destruct (mp ms); try tauto; congruence. Qed.
Lemma Gone_exit s ms : Gone s ms -> ExitP s ms.
Proof. intros [H [E|E]]; left; split; try assumption; unfold dead3; auto. Qed.
Lemma Bal_exit s ms : Bal s ms -> ExitP s ms.
Proof.
  intros (fs & p & b & rs & g & H1 & H2 & _ & _ & H5 & _). right. exists fs, p, b. repeat split; try assumption.
  eapply owed_closeable; eassumption.
Qed.
Lemma Proc_exit (s : st) ms (uc : bool -> Prop) (oc : Prop) ps fr : (forall b, uc b -> closeable ms b) -> Proc s ms uc oc ps fr -> ExitP s ms.
Proof.
  intros Hu (below & rb & nones & H1 & _ & _ & _ & H5 & H6 & _). right. destruct H6.
  - exists ps, p, b. repeat split; auto.
  - exists (ps ++ fr :: fs), p, b. rewrite H1. split; [rewrite <- app_assoc; reflexivity|].
    split; [apply Forall_app; split; [assumption|constructor; assumption]|]. eapply owed_closeable; eassumption.
Qed.

(* helper steps as seen by the phases: stacks untouched, stash only replaced by an engine exception *)
Definition HS (s s' : st) (o : list obs) : Prop :=
  plans s' = plans s /\ resps s' = resps s /\ exc_slot s' = exc_slot s /\
  (stashed s' = stashed s \/ (exists e, stashed s' = Some e /\ ext_exn e = true) \/ stashed s' = None) /\
  Forall qobs o /\ track (state s) o = state s' /\ (state s' = Paused -> state s = Paused).
Lemma HQ_HS s s' o : HQ s s' o -> HS s s' o.
Proof. intros ((a & b & c & d) & q & t & pz). repeat split; auto. Qed.
Lemma HS_refl s : HS s s [].
Proof. repeat split; auto. Qed.
Lemma HS_trans s1 s2 s3 o1 o2 : HS s1 s2 o1 -> HS s2 s3 o2 -> HS s1 s3 (o1 ++ o2).
Proof.
  intros (a1 & a2 & a3 & a4 & a5 & a6 & a7) (b1 & b2 & b3 & b4 & b5 & b6 & b7).
  split; [congruence|]. split; [congruence|]. split; [congruence|].
  split.
  { destruct b4 as [E|[E|E]]; [|right; left; exact E|right; right; exact E].
    destruct a4 as [F|[F|F]]; [left; congruence|right; left|right; right]; rewrite E; exact F. }
  split; [apply Forall_app; split; assumption|]. split; [rewrite track_app, a6; exact b6|]. auto.
Qed.

Definition balc (c : ctl) : Prop :=
  match c with CTop | CBody | CAfterSleep | CContinue false _ | CCancelled false => True | _ => False end.
Lemma balc_QP s c ms : balc c -> QP s c ms -> Gone s ms \/ Bal s ms.
Proof. destruct c; cbn; try tauto; destruct popped; cbn; tauto. Qed.
Lemma QP_balc s c ms : balc c -> Gone s ms \/ Bal s ms -> QP s c ms.
Proof. destruct c; cbn; try tauto; destruct popped; cbn; tauto. Qed.
Lemma QP_exitc s c ms : exitc c -> ExitP s ms -> QP s c ms.
Proof. destruct c; cbn; tauto. Qed.

Lemma exc_ok_tr (s s' : st) : exc_slot s' = exc_slot s -> exc_ok s -> exc_ok s'.
Proof. unfold exc_ok. intros ->. auto. Qed.

(* a quiet step between two balanced control points (or towards the exit) *)
Lemma Q_quiet_bal (s s' : st) c c' ms o :
  Q s c ms -> balc c -> HS s s' o -> balc c' \/ exitc c' ->
  exists ms', MA pid ms o ms' /\ Q s' c' ms'.
Proof.
  intros (Hst & Hex & Hty & Hq) Hc (Ep & Er & Ee & Es & Eq & Et & Epz) Hc'.
  apply balc_QP in Hq; [|exact Hc].
  assert (Hn : mp ms <> SIn) by (destruct Hq; [eapply Gone_nin|eapply Bal_nin]; eassumption).
  exists (set_mstate ms (track (mstate ms) o)). split; [apply MA_quiet; assumption|].
  split; [cbn; rewrite Hst; exact Et|]. split; [eapply exc_ok_tr; eassumption|].
  split.
  { intros Hp. apply Epz, Hty in Hp. destruct c; cbn in Hc, Hp; tauto. }
  destruct Hc' as [Hc'|Hc'].
  - apply QP_balc; [exact Hc'|]. destruct Hq as [Hq|Hq]; [left; eapply Gone_tr|right; eapply Bal_tr]; try eassumption; try reflexivity; try apply mono_set_mstate.
  - apply QP_exitc; [exact Hc'|]. destruct Hq as [Hq|Hq]; [eapply ExitP_tr; [| |apply Gone_exit; exact Hq]|eapply ExitP_tr; [| |apply Bal_exit; exact Hq]]; try assumption; reflexivity.
Qed.

Notation dstep := (dstep P presume plan_of D dev).

Ltac hs_pure :=
  unfold HS; cbn; repeat split; auto; try (right; left; eexists; split; reflexivity); try (repeat constructor; fail).
Lemma HS_set_state (s s1 s2 : st) x o : HS s s1 [] -> set_state s1 x = Some (s2, o) -> x <> Paused -> HS s s2 o.
Proof.
  intros H1 H2 Hx. apply set_state_HQ' in H2; [|exact Hx]. change o with ([] ++ o).
  eapply HS_trans; [exact H1|apply HQ_HS; exact H2].
Qed.
Lemma HS_HQ2 (s s1 s2 : st) o1 o2 : HS s s1 o1 -> HQ2 s1 s2 o2 -> HS s s2 (o1 ++ o2).
Proof. intros H1 (H2 & _). eapply HS_trans; [exact H1|apply HQ_HS; exact H2]. Qed.

Ltac qb HQ0 := eapply Q_quiet_bal; [exact HQ0|exact I| |first [left; exact I|right; exact I]].

Lemma dstep_CTop (s : st) ms s' c' o : Q s CTop ms -> dstep s CTop = inl (s', c', o) ->
  exists ms', MA pid ms o ms' /\ Q s' c' ms'.
Proof.
  intros HQ0 H. unfold RE_Small.dstep in H.
  repeat bm_hyp H; inversion H; subst; clear H.
  - qb HQ0. eapply HS_set_state; [|eassumption|discriminate]. hs_pure.
  - qb HQ0. hs_pure.
  - qb HQ0. destruct (rstate_eqb (state s) Suspending).
    + eapply HS_set_state; [apply HS_refl|eassumption|discriminate].
    + inversion Heqo0; subst. apply HS_refl.
  - qb HQ0.
    assert (H1 : HS s s0 l).
    { destruct (rstate_eqb (state s) Suspending).
      + eapply HS_set_state; [apply HS_refl|eassumption|discriminate].
      + inversion Heqo0; subst. apply HS_refl. }
    apply stop_movables_HQ in Heqp1. apply call_pausables_HQ in Heqp2.
    eapply HS_HQ2 in Heqp1; [|exact H1]. eapply HS_HQ2 in Heqp2; [|exact Heqp1].
    rewrite <- app_assoc in Heqp2. exact Heqp2.
  - qb HQ0.
    assert (H1 : HS s s0 l).
    { destruct (rstate_eqb (state s) Suspending).
      + eapply HS_set_state; [apply HS_refl|eassumption|discriminate].
      + inversion Heqo0; subst. apply HS_refl. }
    apply stop_movables_HQ in Heqp1. apply call_pausables_HQ in Heqp2.
    eapply HS_HQ2 in Heqp1; [|exact H1]. eapply HS_HQ2 in Heqp2; [|exact Heqp1].
    rewrite <- app_assoc in Heqp2. exact Heqp2.
  - qb HQ0. destruct (rstate_eqb (state s) Suspending).
    + eapply HS_set_state; [apply HS_refl|eassumption|discriminate].
    + inversion Heqo0; subst. apply HS_refl.
  - qb HQ0. apply HS_refl.
Qed.

(* the same without the "does not enter Paused" clause: for the step that pauses *)
Definition HS0 (s s' : st) (o : list obs) : Prop :=
  plans s' = plans s /\ resps s' = resps s /\ exc_slot s' = exc_slot s /\
  (stashed s' = stashed s \/ (exists e, stashed s' = Some e /\ ext_exn e = true) \/ stashed s' = None) /\
  Forall qobs o /\ track (state s) o = state s'.
Lemma HS_HS0 s s' o : HS s s' o -> HS0 s s' o.
Proof. intros (a & b & c & d & e & f & _). repeat split; assumption. Qed.
Lemma HS0_trans s1 s2 s3 o1 o2 : HS0 s1 s2 o1 -> HS0 s2 s3 o2 -> HS0 s1 s3 (o1 ++ o2).
Proof.
  intros (a1 & a2 & a3 & a4 & a5 & a6) (b1 & b2 & b3 & b4 & b5 & b6).
  split; [congruence|]. split; [congruence|]. split; [congruence|].
  split.
  { destruct b4 as [E|[E|E]]; [|right; left; exact E|right; right; exact E].
    destruct a4 as [F|[F|F]]; [left; congruence|right; left|right; right]; rewrite E; exact F. }
  split; [apply Forall_app; split; assumption|]. rewrite track_app, a6; exact b6.
Qed.

Definition restpc (x : pcs) : Prop := match x with PcSleep0 | PcPaused | PcNotStarted | PcPermit0 => True | _ => False end.

(* a quiet step from a balanced control point to a point where the task rests *)
Lemma Q_quiet_fin (s s' : st) c ms o :
  Q s c ms -> balc c -> HS0 s s' o -> restpc (pc s') -> TYP s' ->
  exists ms', MA pid ms o ms' /\ Inv s' ms'.
Proof.
  intros (Hst & Hex & Hty & Hq) Hc (Ep & Er & Ee & Es & Eq & Et) Hpc Htyp.
  apply balc_QP in Hq; [|exact Hc].
  assert (Hn : mp ms <> SIn) by (destruct Hq; [eapply Gone_nin|eapply Bal_nin]; eassumption).
  exists (set_mstate ms (track (mstate ms) o)). split; [apply MA_quiet; assumption|].
  split; [cbn; rewrite Hst; exact Et|]. split; [eapply exc_ok_tr; eassumption|].
  split; [exact Htyp|]. split; [exact Hn|].
  unfold IP. assert (G : Gone s' (set_mstate ms (track (mstate ms) o)) \/ Bal s' (set_mstate ms (track (mstate ms) o))).
  { destruct Hq as [Hq|Hq]; [left; eapply Gone_tr|right; eapply Bal_tr]; try eassumption; try reflexivity; try apply mono_set_mstate. }
  destruct (pc s'); cbn in Hpc; try contradiction; try exact G.
  all: destruct G as [G|G]; [left; exact G|right; eapply Bal_tr; [| | | | |exact G]; try reflexivity; [right; right; reflexivity|apply mono_refl]].
Qed.

Lemma dstep_CTop_fin (s : st) ms s' o : Q s CTop ms -> dstep s CTop = inr (s', o) ->
  exists ms', MA pid ms o ms' /\ Inv s' ms'.
Proof.
  intros HQ0 H. unfold RE_Small.dstep in H.
  repeat bm_hyp H; inversion H; subst; clear H.
  eapply Q_quiet_fin; [exact HQ0|exact I| |exact I|intros _; exact I].
  assert (H1 : HS s s0 l).
  { destruct (rstate_eqb (state s) Suspending).
    + eapply HS_set_state; [apply HS_refl|eassumption|discriminate].
    + inversion Heqo0; subst. apply HS_refl. }
  apply stop_movables_HQ in Heqp1. apply call_pausables_HQ in Heqp2.
  eapply HS_HQ2 in Heqp1; [|exact H1]. eapply HS_HQ2 in Heqp2; [|exact Heqp1].
  apply HS_HS0 in Heqp2. apply set_state_HQ in Heqo2. destruct Heqo2 as ((a1 & a2 & a3 & a4) & -> & a5 & _).
  rewrite <- app_assoc in Heqp2.
  assert (H4 : HS0 s2 (set_pc (set_blocking s3 true) PcPaused) ([OState (state s2) Paused] ++ [OTask WFuture])).
  { repeat split; cbn; auto. repeat constructor. }
  pose proof (HS0_trans _ _ _ _ _ Heqp2 H4) as H5. rewrite <- !app_assoc in H5. cbn in H5. cbn. exact H5.
Qed.

Lemma dstep_CBody (s : st) ms s' c' o : Q s CBody ms -> dstep s CBody = inl (s', c', o) ->
  exists ms', MA pid ms o ms' /\ Q s' c' ms'.
Proof.
  intros HQ0 H. unfold RE_Small.dstep in H.
  repeat bm_hyp H; inversion H; subst; clear H; qb HQ0; apply HS_refl.
Qed.
Lemma dstep_CBody_fin (s : st) ms s' o : Q s CBody ms -> dstep s CBody = inr (s', o) ->
  exists ms', MA pid ms o ms' /\ Inv s' ms'.
Proof.
  intros HQ0 H. unfold RE_Small.dstep in H.
  repeat bm_hyp H; inversion H; subst; clear H.
  eapply Q_quiet_fin; [exact HQ0|exact I| |exact I|].
  - repeat split; cbn; auto. repeat constructor.
  - destruct HQ0 as (_ & _ & Hty & _). intros Hp. cbn in Hp. apply Hty in Hp. exact Hp.
Qed.

Lemma dstep_CContinue_false (s : st) r ms s' c' o : Q s (CContinue false r) ms -> dstep s (CContinue false r) = inl (s', c', o) ->
  exists ms', MA pid ms o ms' /\ Q s' c' ms'.
Proof.
  intros HQ0 H. unfold RE_Small.dstep in H. inversion H; subst; clear H. qb HQ0. apply HS_refl.
Qed.

Lemma dstep_CCancelled_false (s : st) ms s' c' o : Q s (CCancelled false) ms -> dstep s (CCancelled false) = inl (s', c', o) ->
  exists ms', MA pid ms o ms' /\ Q s' c' ms'.
Proof.
  intros HQ0 H. unfold RE_Small.dstep in H.
  repeat bm_hyp H; inversion H; subst; clear H; qb HQ0; hs_pure.
Qed.

(* the response of a completed (or cancelled) command goes on top of the stack *)
Lemma last_split (A : Type) (x : A) (l : list A) : exists l' y, x :: l = l' ++ [y] /\ length l' = length l.
Proof.
  revert x; induction l as [|a l IH]; intros x.
  - exists [], x. split; reflexivity.
  - destruct (IH a) as (l' & y & E & L). exists (x :: l'), y. split; [cbn; rewrite E; reflexivity|cbn; rewrite L; reflexivity].
Qed.

Lemma Proc_to_Bal (s : st) ms r ps fr :
  Proc s ms (ucCont ms r) (rok ms r) ps fr -> (r = RVal VNone \/ (ps = [] /\ startedF fr)) ->
  Bal (set_resps s (r :: resps s)) ms.
Proof.
  intros (below & rb & nones & H1 & H2 & H3 & H4 & H5 & H6 & H7) Hr.
  destruct H6 as [p b Hu|fr fs p b rs g Hfr Hoc Hfs Hpairs Howed].
  - (* the tracked plan's own command *)
    rewrite app_nil_r in H2.
    assert (Hg : ps = [] \/ r = RVal VNone) by (destruct Hr as [Hr|[Hr _]]; auto).
    destruct ps as [|f0 ps'].
    + destruct nones; [|discriminate]. exists [], p, b, [], r. cbn. rewrite H1, H2. repeat split; auto.
      unfold owed. destruct Hu as [(-> & [(m & E)|(-> & m & E)])|(-> & E & ->)]; rewrite E; auto.
    + destruct Hg as [Hg| ->]; [discriminate|].
      exists (f0 :: ps'), p, b, nones, (RVal VNone). cbn [set_resps resps plans upd]. rewrite H1, H2.
      split; [reflexivity|]. split; [assumption|]. split; [apply allNone_cons_snoc; assumption|].
      split; [apply pairs_none; assumption|]. split; [|exact H7].
      unfold owed. destruct Hu as [(-> & [(m & E)|(_ & m & E)])|(-> & E & _)]; rewrite E; auto.
  - (* an engine frame's command *)
    exists (ps ++ fr :: fs), p, b, (r :: nones ++ rs), g. cbn [set_resps resps plans upd]. rewrite H1, H2.
    split; [rewrite <- app_assoc; reflexivity|].
    split; [apply Forall_app; split; [assumption|constructor; assumption]|].
    split; [cbn; rewrite <- app_assoc; reflexivity|].
    split; [|split; assumption].
    destruct Hr as [->|[-> Hsf]].
    + rewrite app_comm_cons. rewrite (allNone_cons_snoc nones H4). rewrite <- app_assoc. cbn.
      apply Forall2_app; [apply pairs_none; assumption|]. constructor; [apply pairE_none|assumption].
    + destruct nones; [|discriminate]. cbn. constructor; [split; [exact Hoc|left; exact Hsf]|assumption].
Qed.

Lemma Proc_nin (s : st) ms r ps fr : Proc s ms (ucCont ms r) (rok ms r) ps fr -> mp ms <> SIn.
Proof.
  intros (below & rb & nones & _ & _ & _ & _ & _ & H6 & _). destruct H6 as [p b Hu|fr fs p b rs g _ _ _ _ Howed].
  - destruct Hu as [(_ & [(m & E)|(_ & m & E)])|(_ & E & _)]; congruence.
  - unfold owed in Howed. destruct (mp ms); try tauto; congruence.
Qed.

Lemma dstep_CContinue_true (s : st) r ms s' c' o : Q s (CContinue true r) ms -> dstep s (CContinue true r) = inl (s', c', o) ->
  exists ms', MA pid ms o ms' /\ Q s' c' ms'.
Proof.
  intros (Hst & Hex & Hty & Hq) H. unfold RE_Small.dstep in H. inversion H; subst; clear H.
  exists ms. split; [apply MA_nil|]. split; [exact Hst|]. split; [exact Hex|].
  split; [intros Hp; apply Hty in Hp; exact Hp|]. cbn in Hq |- *.
  destruct Hq as [Hq|(ps & fr & Hp & Hr)].
  - left. eapply Gone_tr; [| |exact Hq]; reflexivity.
  - right. eapply Proc_to_Bal; eassumption.
Qed.

Lemma ucCanc_Cont ms b : ucCanc ms b -> ucCont ms (RVal VNone) b.
Proof. intros [(-> & m & E)|(-> & E)]; [left; split; [reflexivity|right; split; [reflexivity|eauto]]|right; auto]. Qed.
Lemma ucCanc_close ms b : ucCanc ms b -> closeable ms b.
Proof. unfold closeable. intros [(-> & m & E)|(-> & E)]; rewrite E; reflexivity. Qed.

Lemma dstep_CCancelled_true (s : st) ms s' c' o : Q s (CCancelled true) ms -> dstep s (CCancelled true) = inl (s', c', o) ->
  exists ms', MA pid ms o ms' /\ Q s' c' ms'.
Proof.
  intros (Hst & Hex & Hty & Hq) H. unfold RE_Small.dstep in H.
  assert (Hnp : state s <> Paused) by (intros Hp; apply Hty in Hp; exact Hp).
  assert (G : forall s1 : st, plans s1 = plans s -> resps s1 = resps s -> exc_slot s1 = exc_slot s -> state s1 = state s ->
              (stashed s1 = stashed s \/ (exists e, stashed s1 = Some e /\ ext_exn e = true) \/ stashed s1 = None) ->
              exists ms', MA pid ms [] ms' /\ Q s1 (CContinue true (RVal VNone)) ms').
  { intros s1 Ep Er Ee Est Es. exists ms. split; [apply MA_nil|]. split; [congruence|]. split; [eapply exc_ok_tr; eassumption|].
    split; [intros Hp; rewrite Est in Hp; contradiction|]. cbn in Hq |- *.
    destruct Hq as [Hq|(ps & fr & Hp)]; [left; eapply Gone_tr; [| |exact Hq]; auto|].
    right. exists ps, fr. split; [|left; reflexivity].
    eapply Proc_tr; [exact Ep|exact Er|exact Es|apply mono_refl|reflexivity|apply ucCanc_Cont|auto|exact Hp]. }
  repeat bm_hyp H; inversion H; subst; clear H.
  all: try (apply G; cbn; auto; try (right; left; eexists; split; reflexivity); fail).
  (* the second CancelledError: leave *)
  all: exists ms; (split; [apply MA_nil|]); (split; [cbn; congruence|]); (split; [exact Hex|]); (split; [intros; exact I|]);
    cbn in Hq |- *; destruct Hq as [Hq|(ps & fr & Hp)];
    [ eapply ExitP_tr; [| |apply Gone_exit; exact Hq]; reflexivity
    | eapply ExitP_tr; [| |eapply Proc_exit; [apply ucCanc_close|exact Hp]]; reflexivity ].
Qed.

Lemma ExitP_dead_or (s : st) ms : ExitP s ms -> True. Proof. auto. Qed.

(* quiet observations in the exit phase *)
Lemma ExitP_quiet (s s' : st) ms o :
  ExitP s ms -> plans s' = plans s -> Forall qobs o ->
  exists ms', MA pid ms o ms' /\ ExitP s' ms' /\ mstate ms' = track (mstate ms) o /\ (o <> [] -> mp ms' <> SIn).
Proof.
  intros [[Hok Hd]|(fs & p & b & H1 & H2 & H3)] Ep Hq.
  - destruct (mon_quiet_dead pid o ms Hq Hd) as (ms' & Hma & Hd' & Hst & Hne & _).
    exists ms'. split; [exact Hma|]. split; [left; split; [rewrite Ep; exact Hok|exact Hd']|]. split; [exact Hst|].
    intros Hn. apply Hne in Hn. destruct Hn; congruence.
  - assert (Hn : mp ms <> SIn) by (unfold closeable in H3; destruct (mp ms); try tauto; congruence).
    exists (set_mstate ms (track (mstate ms) o)). split; [apply MA_quiet; assumption|].
    split; [right; exists fs, p, b; rewrite Ep; repeat split; assumption|]. split; [reflexivity|]. intros _; exact Hn.
Qed.

Lemma dstep_CExit (s : st) x ms s' c' o : Q s (CExit x) ms -> dstep s (CExit x) = inl (s', c', o) ->
  exists ms', MA pid ms o ms' /\ Q s' c' ms'.
Proof.
  intros (Hst & Hex & Hty & Hq) H. unfold RE_Small.dstep in H.
  repeat bm_hyp H; inversion H; subst; clear H.
  all: exists ms; (split; [apply MA_nil|]); (split; [exact Hst|]); (split; [exact Hex|]); (split; [intros; exact I|]);
       cbn in Hq |- *; eapply ExitP_tr; [| |exact Hq]; reflexivity.
Qed.

Lemma dstep_CExit_fin (s : st) x ms s' o : Q s (CExit x) ms -> dstep s (CExit x) = inr (s', o) ->
  exists ms', MA pid ms o ms' /\ Inv s' ms'.
Proof.
  intros (Hst & Hex & Hty & Hq) H. unfold RE_Small.dstep in H. cbn in Hq.
  assert (G : forall (s1 : st) r, plans s1 = plans s -> exc_slot s1 = exc_slot s -> state s1 = state s -> pc s1 = PcFinalSleep r ->
              exists ms', MA pid ms [OTask WSleep0] ms' /\ Inv s1 ms').
  { intros s1 r Ep Ee Est Epc.
    destruct (ExitP_quiet s s1 ms [OTask WSleep0] Hq Ep) as (ms' & Hma & Hx & Hs' & Hn); [repeat constructor|].
    exists ms'. split; [exact Hma|]. split; [rewrite Hs'; cbn; congruence|]. split; [eapply exc_ok_tr; eassumption|].
    split; [unfold TYP; rewrite Epc; intros; exact I|]. split; [apply Hn; discriminate|].
    unfold IP. rewrite Epc. exact Hx. }
  repeat bm_hyp H; inversion H; subst; clear H; eapply G; reflexivity.
Qed.

(* ------------------------------------------------------------------ the finally block *)
Lemma unstage_fold_HQ2 (l : list nat) : forall (s0 : st) o0 s1 o1,
  fold_left (fun acc d => let '(s0, os) := acc in
                          let '(sa, _, o) := dcall dev s0 d MUnstage in (sa, os ++ o)) l (s0, o0) = (s1, o1) ->
  exists o', o1 = o0 ++ o' /\ HQ2 s0 s1 o'.
Proof.
  induction l as [|d l IH]; intros s0 o0 s1 o1 H; cbn in H.
  - inversion H; subst. exists []. rewrite app_nil_r. split; [reflexivity|apply HQ2_refl].
  - destruct (dcall dev s0 d MUnstage) as [[sa ra] oa] eqn:E. apply IH in H. destruct H as (o' & -> & Hq).
    apply dcall_HQ in E. exists (oa ++ o'). rewrite app_assoc. split; [reflexivity|]. eapply HQ2_trans; eassumption.
Qed.

Lemma close_runs_quiet (s : st) xs rs : Forall qobs (close_runs s xs rs) /\ track (state s) (close_runs s xs rs) = state s.
Proof.
  unfold close_runs. generalize (state s) as a. induction (bundlers s) as [|kb l IH]; intros a; cbn; [split; [constructor|reflexivity]|].
  destruct (IH a) as [I1 I2]. destruct (bopen (snd kb)); cbn.
  - split; [constructor; [exact I|exact I1]|exact I2].
  - split; assumption.
Qed.

Definition fin_task (w : where_t) : Prop := match w with WReturn | WRaise _ => True | _ => False end.

(* shape of what [finalize] emits: quiet device calls / documents, the closing of the frames, the state change, the task's end *)
Lemma finalize_shape (s : st) r pend s' o : finalize presume dev s r pend = (s', o) ->
  exists oq os w,
    o = oq ++ close_frames presume s ++ os ++ [OTask w] /\ Forall qobs oq /\ track (state s) oq = state s /\
    Forall qobs os /\ track (state s) os = state s' /\ exc_slot s' = exc_slot s /\ (exists res, pc s' = PcDone res).
Proof.
  unfold finalize. intros H.
  destruct (stop_movables dev (set_pardon s true)) as [s2 o2] eqn:E2.
  match type of H with context [fold_left ?f ?l ?a] => destruct (fold_left f l a) as [s3 o3] eqn:E3 end.
  apply stop_movables_HQ in E2. apply unstage_fold_HQ2 in E3. destruct E3 as (o3' & -> & E3). cbn in E3.
  destruct E2 as (((p2 & r2 & st2 & e2) & q2 & t2 & _) & ss2 & _).
  destruct E3 as (((p3 & r3 & st3 & e3) & q3 & t3 & _) & ss3 & _).
  cbn in p2, r2, st2, e2, t2, ss2.
  set (s4 := set_staged s3 []) in *.
  set (s5 := set_bundlers s4 []) in *.
  assert (Ecf : close_frames presume s5 = close_frames presume s).
  { unfold close_frames. cbn. rewrite p3, p2. reflexivity. }
  destruct (close_runs_quiet s4 (exit_status s4) (if exit_reason_set s then RsExnText else reason s)) as [q4 t4].
  assert (Est : state s5 = state s) by (cbn; congruence).
  rewrite Ecf in H.
  assert (Etr : track (state s) (o2 ++ o3' ++ close_runs s4 (exit_status s4) (if exit_reason_set s then RsExnText else reason s)) = state s).
  { rewrite !track_app, t2, t3. change (state s4) with (state s3) in t4. rewrite t4. congruence. }
  destruct (set_state s5 Idle) as [[s6 o6]|] eqn:E6.
  - apply set_state_HQ in E6. destruct E6 as ((p6 & r6 & st6 & e6) & -> & sst6 & _).
    inversion H; subst; clear H.
    eexists (o2 ++ o3' ++ close_runs s4 (exit_status s4) (if exit_reason_set s then RsExnText else reason s)), [OState (state s5) Idle], _.
    split; [rewrite <- !app_assoc; cbn; reflexivity|].
    split; [repeat (apply Forall_app; split); assumption|].
    split; [exact Etr|].
    split; [repeat constructor|]. split; [cbn; congruence|]. split; [subst s5 s4; cbn in *; congruence|]. cbn. eauto.
  - inversion H; subst; clear H.
    eexists (o2 ++ o3' ++ close_runs s4 (exit_status s4) (if exit_reason_set s then RsExnText else reason s)), [], _.
    split; [rewrite <- !app_assoc; cbn; reflexivity|].
    split; [repeat (apply Forall_app; split); assumption|].
    split; [exact Etr|].
    split; [constructor|]. split; [subst s5 s4; cbn in *; congruence|]. split; [subst s5 s4; cbn in *; congruence|]. cbn. eauto.
Qed.

Lemma close_frames_live (s : st) fs p b : plans s = fs ++ [FUser pid p b] ->
  close_frames presume s =
  (if b then [OPlanIn pid Close] else []) ++ flat_map (fun f => snd (frame_resume presume f Close)) (rev fs).
Proof.
  intros Ep. unfold close_frames. rewrite Ep, rev_app_distr. cbn [rev app flat_map].
  f_equal. destruct b; cbn; [destruct (presume p Close)|]; reflexivity.
Qed.

Lemma MA_opl_dead ms po : opl po -> dead3 (mp ms) ->
  exists ms', MA pid ms po ms' /\ dead3 (mp ms') /\ mstate ms' = mstate ms.
Proof.
  intros [->|(q & j & -> & Hq)] Hd; [exists ms; split; [apply MA_nil|split; [exact Hd|reflexivity]]|].
  apply Nat.eqb_neq in Hq.
  destruct Hd as [E|[E|E]].
  - exists (set_mother ms). split; [eapply MA_one with (fl := []); unfold mon_obs, settle; rewrite Hq, E; reflexivity|].
    split; [left; exact E|reflexivity].
  - exists (set_mother (set_mp ms SDead)). split; [eapply MA_one with (fl := []); unfold mon_obs, settle; rewrite Hq, E; reflexivity|].
    split; [right; right; reflexivity|reflexivity].
  - exists (set_mother ms). split; [eapply MA_one with (fl := []); unfold mon_obs, settle; rewrite Hq, E; reflexivity|].
    split; [right; right; exact E|reflexivity].
Qed.

Lemma close_frames_okf (fs : list (frame P)) : forall ms, Forall okf fs -> dead3 (mp ms) ->
  exists ms', MA pid ms (flat_map (fun f => snd (frame_resume presume f Close)) fs) ms' /\ dead3 (mp ms') /\ mstate ms' = mstate ms.
Proof.
  induction fs as [|f fs IH]; intros ms Hf Hd.
  - exists ms. split; [apply MA_nil|]. split; [exact Hd|reflexivity].
  - inversion Hf as [|? ? Hf1 Hf2]; subst. cbn.
    destruct (frame_resume presume f Close) as [o0 po] eqn:E. cbn.
    assert (Ho : opl po) by (eapply frame_resume_opl; eauto).
    destruct (MA_opl_dead ms po Ho Hd) as (ms1 & M1 & D1 & S1).
    destruct (IH ms1 Hf2 D1) as (ms2 & M2 & D2 & S2).
    exists ms2. split; [eapply MA_app; eassumption|]. split; [exact D2|congruence].
Qed.

Lemma MA_quiet_dead ms o : Forall qobs o -> dead3 (mp ms) ->
  exists ms', MA pid ms o ms' /\ dead3 (mp ms') /\ mstate ms' = track (mstate ms) o /\ (o <> [] -> mp ms' <> SIn).
Proof.
  intros Hq Hd. destruct (mon_quiet_dead pid o ms Hq Hd) as (ms' & Hma & Hd' & Hst & Hne & _).
  exists ms'. repeat split; try assumption. intros Hn. apply Hne in Hn. destruct Hn; congruence.
Qed.

(* the monitor accepts everything the finally block emits; afterwards the task is gone *)
Lemma finalize_MA (s : st) ms r pend s' o :
  ExitP s ms -> mstate ms = state s -> exc_ok s -> finalize presume dev s r pend = (s', o) ->
  exists ms', MA pid ms o ms' /\ Inv s' ms'.
Proof.
  intros Hx Hst Hex H. apply finalize_shape in H.
  destruct H as (oq & os & w & -> & Hq1 & Ht1 & Hq2 & Ht2 & He & (res & Hpc)).
  assert (Hfin : forall ms1, mstate ms1 = state s -> dead3 (mp ms1) ->
            exists ms', MA pid ms1 (os ++ [OTask w]) ms' /\ Inv s' ms').
  { intros ms1 Hs1 Hd1.
    destruct (MA_quiet_dead ms1 (os ++ [OTask w])) as (ms' & M & Dd & S & N); [apply Forall_app; split; [exact Hq2|repeat constructor]|exact Hd1|].
    exists ms'. split; [exact M|]. split.
    { rewrite S, track_app, Hs1, Ht2. reflexivity. }
    split; [eapply exc_ok_tr; eassumption|]. split; [unfold TYP; rewrite Hpc; intros; exact I|].
    split; [apply N; destruct os; discriminate|]. unfold IP. rewrite Hpc. exact I. }
  destruct Hx as [[Hok Hd]|(fs & p & b & H1 & H2 & H3)].
  - destruct (MA_quiet_dead ms oq Hq1 Hd) as (ms1 & M1 & D1 & S1 & _).
    destruct (close_frames_okf (rev (plans s)) ms1) as (ms2 & M2 & D2 & S2); [apply Forall_rev; exact Hok|exact D1|].
    destruct (Hfin ms2) as (ms3 & M3 & I3); [rewrite S2, S1, Hst; exact Ht1|exact D2|].
    exists ms3. split; [|exact I3]. eapply MA_app; [exact M1|]. eapply MA_app; [exact M2|exact M3].
  - assert (Hn : mp ms <> SIn) by (unfold closeable in H3; destruct (mp ms); try tauto; congruence).
    rewrite (close_frames_live s fs p b H1).
    assert (Hokf : Forall okf (rev fs)).
    { apply Forall_rev. eapply Forall_impl; [|exact H2]. intros f. apply eng_okf. }
    set (ms1 := set_mstate ms (track (mstate ms) oq)).
    assert (M1 : MA pid ms oq ms1) by (apply MA_quiet; assumption).
    destruct b.
    + (* the started plan is closed, then the frames above it *)
      assert (Hio : input_ok ms1 Close = Some []).
      { unfold input_ok. cbn. unfold closeable in H3. destruct (mp ms) as [| | | |? r0|]; try tauto; try discriminate; try reflexivity.
        destruct r0; reflexivity. }
      set (ms2 := {| mstate := mstate ms1; mp := SIn; mseen := []; mother := false |}).
      assert (M2 : MA pid ms1 [OPlanIn pid Close] ms2).
      { eapply MA_one with (fl := []). unfold mon_obs. rewrite Nat.eqb_refl.
        assert (Es : settle ms1 (OPlanIn pid Close) = ms1).
        { unfold settle. cbn. destruct (mp ms) eqn:E; try reflexivity. congruence. }
        rewrite Es, Hio. reflexivity. }
      destruct (close_frames_okf (rev fs) ms2 Hokf) as (ms2' & M2' & D2' & S2'); [right; left; reflexivity|].
      destruct (Hfin ms2') as (ms3 & M3 & I3); [rewrite S2'; cbn; rewrite Hst; exact Ht1|exact D2'|].
      exists ms3. split; [|exact I3]. eapply MA_app; [exact M1|]. eapply MA_app; [eapply MA_app; [exact M2|exact M2']|exact M3].
    + assert (D1 : dead3 (mp ms1)).
      { unfold closeable in H3. cbn. destruct (mp ms); try tauto; try discriminate. left; reflexivity. }
      destruct (close_frames_okf (rev fs) ms1 Hokf D1) as (ms2' & M2' & D2' & S2').
      destruct (Hfin ms2') as (ms3 & M3 & I3); [rewrite S2'; cbn; rewrite Hst; exact Ht1|exact D2'|].
      exists ms3. split; [|exact I3]. eapply MA_app; [exact M1|]. cbn [app]. eapply MA_app; [exact M2'|exact M3].
Qed.

Lemma dstep_CFinalize_fin (s : st) r pend ms s' o : Q s (CFinalize r pend) ms -> dstep s (CFinalize r pend) = inr (s', o) ->
  exists ms', MA pid ms o ms' /\ Inv s' ms'.
Proof.
  intros (Hst & Hex & Hty & Hq) H. unfold RE_Small.dstep in H. inversion H as [H1]; clear H.
  cbn in Hq. eapply finalize_MA; eassumption.
Qed.
Lemma dstep_CFinalize (s : st) r pend s' c' o : dstep s (CFinalize r pend) = inl (s', c', o) -> False.
Proof. unfold RE_Small.dstep. discriminate. Qed.

(* ------------------------------------------------------------------ processing a message *)
Lemma rewind_eqv (s : st) : eqv s (fst (rewind s)).
Proof. unfold rewind. destruct (cache s); [destruct (Nat.eqb (length l) 0)|]; repeat split. Qed.

(* what the command of a message does to the stacks: nothing, or (only `_start_suspender`) one helper frame with a None response *)
Definition cmd_effect (s s' : st) (c : cres) (o : list obs) : Prop :=
  Forall qobs o /\ track (state s) o = state s' /\ (state s' = Paused -> state s = Paused) /\
  exc_slot s' = exc_slot s /\ stashed s' = stashed s /\ pc s' = pc s /\
  ((plans s' = plans s /\ resps s' = resps s) \/
   (exists h, wfh h /\ plans s' = FHelper h :: plans s /\ resps s' = RVal VNone :: resps s /\ c = Done (RVal VNone))).

Lemma exec_start_suspender_effect (s : st) sid pre post s' c o :
  exec_start_suspender plan_of dev s sid pre post = (s', c, o) -> cmd_effect s s' c o /\ exists r, c = Done r.
Proof.
  unfold exec_start_suspender. intros H.
  destruct (record_interruptions s) as [[s1 o1] ok] eqn:E1. apply record_interruptions_HQ in E1.
  destruct E1 as (((p1 & r1 & st1 & e1) & q1 & t1 & _) & ss1 & pc1 & _).
  destruct ok; cbn in H.
  2: { inversion H; subst. split; [|eauto]. repeat split; auto; try congruence. }
  destruct (stop_movables dev s1) as [s2 o2] eqn:E2. apply stop_movables_HQ in E2.
  destruct E2 as (((p2 & r2 & st2 & e2) & q2 & t2 & _) & ss2 & pc2 & _).
  destruct (call_pausables dev s2 MPause) as [[s3 e] o3] eqn:E3. apply call_pausables_HQ in E3.
  destruct E3 as (((p3 & r3 & st3 & e3) & q3 & t3 & _) & ss3 & pc3 & _).
  assert (Hq : Forall qobs (o1 ++ o2 ++ o3)) by (repeat (apply Forall_app; split); assumption).
  assert (Ht : track (state s) (o1 ++ o2 ++ o3) = state s3) by (rewrite !track_app, t1, t2, t3; reflexivity).
  assert (Hs : state s3 = state s) by congruence.
  destruct e as [x|].
  { inversion H; subst. split; [|eauto]. repeat split; auto; try congruence. left; split; congruence. }
  destruct (cache s3) eqn:Ec.
  2: { inversion H; subst. split; [|eauto]. repeat split; auto; try congruence. left; split; congruence. }
  destruct (rewind s3) as [s4 l0] eqn:E4.
  pose proof (rewind_eqv s3) as E5. rewrite E4 in E5. cbn in E5. destruct E5 as (a1&a2&a3&a4&a5&a6&a7).
  inversion H; subst; clear H. split; [|eauto].
  split; [exact Hq|]. split; [cbn; congruence|]. split; [cbn; congruence|]. split; [cbn; congruence|].
  split; [cbn; congruence|]. split; [cbn; congruence|]. right.
  eexists. split; [|split; [cbn; rewrite a1, p3, p2, p1; reflexivity|split; [cbn; rewrite a2, r3, r2, r1; reflexivity|reflexivity]]].
  unfold wfh. cbn. split; [|split; [|exact I]].
  - intros q p0. destruct pre; intros E; inversion E; subst. unfold pid_pre. lia.
  - intros q p0. destruct post; intros E; inversion E; subst. unfold pid_post. lia.
Qed.

Lemma exec_cmd_effect (s : st) m s' c o : exec_cmd dev s m = (s', c, o) -> cmd_effect s s' c o.
Proof.
  intros H. apply exec_cmd_HQ in H. destruct H as (((a1 & a2 & a3 & a4) & q & t & pz) & pcs).
  repeat split; auto.
Qed.
Lemma exec_cmd_unknown (s : st) m : mcmd m = CUnknown -> exec_cmd dev s m = (s, Done (RExn EInvalidCommand), []).
Proof. intros E. unfold exec_cmd. rewrite E. reflexivity. Qed.
Lemma exec_cmd_susp (s : st) m s' k o : exec_cmd dev s m = (s', Susp k, o) -> is_unknown (mcmd m) = false.
Proof. unfold exec_cmd. destruct (mcmd m); try reflexivity. intros H; inversion H. Qed.

Definition canc (ms : mon) : mon := match mp ms with SAwait m0 => set_mp ms (SCanc m0) | _ => ms end.
Definition seen_resp (ms : mon) (r : resp) : mon := match r with RExn e => add_seen ms e | RVal _ => ms end.

Lemma mon_msg_own ms m : mp ms = SIn ->
  mon_obs pid ms (OMsg m) = Some (set_mp ms (if is_unknown (mcmd m) then SGot m (RExn EInvalidCommand) else SAwait m), []).
Proof. intros E. unfold mon_obs, settle. rewrite E. cbn. rewrite E. reflexivity. Qed.
Lemma mon_msg_other ms m : mp ms <> SIn -> mon_obs pid ms (OMsg m) = Some (note_unknown m (canc ms), []).
Proof. intros E. unfold mon_obs, settle, canc. destruct (mp ms) eqn:E0; try congruence; cbn; rewrite ?E0; reflexivity. Qed.
Lemma mon_resp_own ms m r : mp ms = SAwait m -> mon_obs pid ms (OResp r) = Some (set_mp ms (SGot m r), []).
Proof. intros E. unfold mon_obs, settle. rewrite E. cbn. rewrite E. reflexivity. Qed.
Lemma mon_resp_other ms r : (forall m, mp ms <> SAwait m) -> mp ms <> SIn -> mon_obs pid ms (OResp r) = Some (seen_resp ms r, []).
Proof. intros E1 E2. unfold mon_obs, settle, seen_resp. destruct (mp ms) eqn:E; try congruence; cbn; rewrite ?E; try reflexivity; exfalso; eapply E1; reflexivity. Qed.

Lemma mono_note_unknown ms m : mono ms (note_unknown m ms).
Proof. unfold note_unknown. destruct (is_unknown (mcmd m)); [apply mono_add_seen|apply mono_refl]. Qed.
Lemma mono_canc ms : mono ms (canc ms).
Proof. unfold canc. destruct (mp ms); intros e H; exact H. Qed.
Lemma mono_seen_resp ms r : mono ms (seen_resp ms r).
Proof. destruct r; [apply mono_refl|apply mono_add_seen]. Qed.
Lemma owed_canc ms b g : owed ms b g -> owed (canc ms) b g.
Proof. unfold owed, canc. destruct (mp ms) eqn:E; cbn; rewrite ?E; auto. Qed.
Lemma mp_note_unknown ms m : mp (note_unknown m ms) = mp ms.
Proof. unfold note_unknown. destruct (is_unknown (mcmd m)); reflexivity. Qed.
Lemma mp_seen_resp ms r : mp (seen_resp ms r) = mp ms.
Proof. destruct r; reflexivity. Qed.
Lemma mstate_note_unknown ms m : mstate (note_unknown m ms) = mstate ms.
Proof. unfold note_unknown. destruct (is_unknown (mcmd m)); reflexivity. Qed.
Lemma mstate_canc ms : mstate (canc ms) = mstate ms.
Proof. unfold canc. destruct (mp ms); reflexivity. Qed.
Lemma mstate_seen_resp ms r : mstate (seen_resp ms r) = mstate ms.
Proof. destruct r; reflexivity. Qed.
Lemma canc_nawait ms : forall m, mp (canc ms) <> SAwait m.
Proof. intros m. unfold canc. destruct (mp ms) eqn:E; cbn; congruence. Qed.
Lemma canc_nin ms : mp ms <> SIn -> mp (canc ms) <> SIn.
Proof. unfold canc. destruct (mp ms) eqn:E; cbn; congruence. Qed.
Lemma canc_dead2 ms : dead2 (mp ms) -> mp (canc ms) = mp ms.
Proof. unfold canc. intros [E|E]; rewrite E; exact E. Qed.

(* the observations of one processed message, from a monitor state that is not waiting for the tracked plan's message:
   the message, the command's quiet observations, its response *)
Lemma MA_cmd_other ms m o3 (tail : list obs) r :
  mp ms <> SIn -> Forall qobs o3 -> (tail = [] \/ tail = [OResp r]) ->
  exists ms', MA pid ms ([OMsg m] ++ o3 ++ tail) ms' /\ mono ms ms' /\ mp ms' = mp (canc ms) /\
              mstate ms' = track (mstate ms) o3 /\ (tail = [OResp r] -> rok ms' r) /\
              (is_unknown (mcmd m) = true -> aE ms' EInvalidCommand).
Proof.
  intros Hn Hq Ht.
  set (ms1 := note_unknown m (canc ms)).
  assert (N1 : mp ms1 <> SIn) by (subst ms1; rewrite mp_note_unknown; apply canc_nin; exact Hn).
  set (ms2 := set_mstate ms1 (track (mstate ms1) o3)).
  assert (M12 : MA pid ms ([OMsg m] ++ o3) ms2).
  { eapply MA_app; [eapply MA_one; apply mon_msg_other; exact Hn|apply MA_quiet; assumption]. }
  assert (Hm2 : mono ms ms2).
  { eapply mono_trans; [apply mono_canc|]. eapply mono_trans; [apply mono_note_unknown|]. apply mono_set_mstate. }
  assert (Hu : is_unknown (mcmd m) = true -> aE ms2 EInvalidCommand).
  { intros Eu. apply mono_set_mstate. subst ms1. unfold note_unknown. rewrite Eu. apply aE_add_seen. }
  assert (Es : mstate ms2 = track (mstate ms) o3).
  { cbn. subst ms1. rewrite mstate_note_unknown, mstate_canc. reflexivity. }
  destruct Ht as [->| ->].
  - exists ms2. rewrite app_nil_r. split; [exact M12|]. split; [exact Hm2|].
    split; [cbn; subst ms1; apply mp_note_unknown|]. split; [exact Es|]. split; [discriminate|exact Hu].
  - exists (seen_resp ms2 r). split.
    { rewrite app_assoc. eapply MA_app; [exact M12|]. eapply MA_one. apply mon_resp_other.
      - intros m0. cbn. subst ms1. rewrite mp_note_unknown. apply canc_nawait.
      - exact N1. }
    split; [eapply mono_trans; [exact Hm2|apply mono_seen_resp]|].
    split; [rewrite mp_seen_resp; cbn; subst ms1; apply mp_note_unknown|].
    split; [rewrite mstate_seen_resp; exact Es|].
    split; [intros _; destruct r; cbn; [exact I|apply aE_add_seen]|].
    intros Eu. apply mono_seen_resp, Hu, Eu.
Qed.

(* the same for the tracked plan's own message *)
Lemma MA_cmd_own ms m o3 (tail : list obs) r :
  mp ms = SIn -> Forall qobs o3 ->
  ((is_unknown (mcmd m) = true /\ tail = [] /\ r = RExn EInvalidCommand) \/ (is_unknown (mcmd m) = false /\ tail = [OResp r])) ->
  exists ms', MA pid ms ([OMsg m] ++ o3 ++ tail) ms' /\ mp ms' = SGot m r /\ mstate ms' = track (mstate ms) o3 /\
              mseen ms' = mseen ms /\ mother ms' = mother ms.
Proof.
  intros Hi Hq Ht.
  destruct Ht as [(Eu & -> & ->)|(Eu & ->)].
  - set (ms1 := set_mp ms (SGot m (RExn EInvalidCommand))).
    exists (set_mstate ms1 (track (mstate ms1) o3)). rewrite app_nil_r. split.
    { eapply MA_app; [eapply MA_one; rewrite mon_msg_own, Eu; [reflexivity|exact Hi]|apply MA_quiet; [assumption|discriminate]]. }
    repeat split.
  - set (ms1 := set_mp ms (SAwait m)).
    set (ms2 := set_mstate ms1 (track (mstate ms1) o3)).
    exists (set_mp ms2 (SGot m r)). split.
    { rewrite app_assoc. eapply MA_app; [eapply MA_app; [eapply MA_one; rewrite mon_msg_own, Eu; [reflexivity|exact Hi]|apply MA_quiet; [assumption|discriminate]]|].
      eapply MA_one. apply mon_resp_own. reflexivity. }
    repeat split.
Qed.

(* the command is suspended: the message and the quiet observations only *)
Lemma MA_susp_own ms m o3 :
  mp ms = SIn -> Forall qobs o3 -> is_unknown (mcmd m) = false ->
  exists ms', MA pid ms ([OMsg m] ++ o3) ms' /\ mp ms' = SAwait m /\ mstate ms' = track (mstate ms) o3 /\
              mseen ms' = mseen ms /\ mother ms' = mother ms.
Proof.
  intros Hi Hq Eu. set (ms1 := set_mp ms (SAwait m)).
  exists (set_mstate ms1 (track (mstate ms1) o3)). split.
  { eapply MA_app; [eapply MA_one; rewrite mon_msg_own, Eu; [reflexivity|exact Hi]|apply MA_quiet; [assumption|discriminate]]. }
  repeat split.
Qed.

Lemma cproc_decomp (s : st) m :
  exists s2 s3 cr o3,
    eqv s s2 /\ cmd_effect s2 s3 cr o3 /\
    (is_unknown (mcmd m) = true -> cr = Done (RExn EInvalidCommand) /\ o3 = []) /\
    (forall k, cr = Susp k -> is_unknown (mcmd m) = false) /\
    dstep s (CProcess m) =
      match cr with
      | Done r => inl (s3, CContinue true r, [OMsg m] ++ o3 ++ (if is_unknown (mcmd m) then [] else [OResp r]))
      | Susp k => inr (set_pc s3 (PcCmd k), [OMsg m] ++ o3 ++ [OTask WFuture])
      end.
Proof.
  unfold RE_Small.dstep.
  match goal with |- context [exec_cmd dev ?x m] => set (s2 := x) end.
  assert (E2 : eqv s s2).
  { subst s2. destruct (mobj m); cbn; repeat break_match_goal; repeat split. }
  destruct (match mcmd m with
            | CStartSuspender sid pre post => exec_start_suspender plan_of dev s2 sid pre post
            | _ => exec_cmd dev s2 m
            end) as [[s3 cr] o3] eqn:E3.
  exists s2, s3, cr, o3. split; [exact E2|].
  assert (Heff : cmd_effect s2 s3 cr o3 /\
                 (is_unknown (mcmd m) = true -> cr = Done (RExn EInvalidCommand) /\ o3 = []) /\
                 (forall k, cr = Susp k -> is_unknown (mcmd m) = false)).
  { destruct (mcmd m) eqn:Em.
    all: try (split; [eapply exec_cmd_effect; exact E3|]; split; [cbn; discriminate|];
              intros k ->; apply exec_cmd_susp in E3; rewrite Em in E3; exact E3).
    - (* _start_suspender *)
      apply exec_start_suspender_effect in E3. destruct E3 as (E3 & r & ->).
      split; [exact E3|]. split; [cbn; discriminate|]. intros k Hk; discriminate.
    - (* unknown *)
      rewrite exec_cmd_unknown in E3 by exact Em. inversion E3; subst.
      split; [|split; [auto|intros k Hk; discriminate]].
      repeat split; auto. }
  destruct Heff as (Heff & Hu & Hs). split; [exact Heff|]. split; [exact Hu|]. split; [exact Hs|].
  destruct cr; [|reflexivity]. destruct (mcmd m); reflexivity.
Qed.

Lemma pst_eq_SIn (x : pst) : x = SIn \/ x <> SIn.
Proof. destruct x; (left; reflexivity) || (right; discriminate). Qed.

Lemma mono_same ms ms' : mseen ms' = mseen ms -> mother ms' = mother ms -> mono ms ms'.
Proof. intros E1 E2 e H. unfold aE, allowed_exn in *. rewrite E1, E2. exact H. Qed.

(* the stacks after the command of a message: unchanged, or one helper frame pushed *)
Lemma effect_stacks (s s2 s3 : st) cr o3 : eqv s s2 -> cmd_effect s2 s3 cr o3 ->
  stashed s3 = stashed s /\ exc_slot s3 = exc_slot s /\ track (state s) o3 = state s3 /\ (state s3 = Paused -> state s = Paused) /\
  Forall qobs o3 /\ pc s3 = pc s /\
  ((plans s3 = plans s /\ resps s3 = resps s) \/
   (exists h, wfh h /\ plans s3 = FHelper h :: plans s /\ resps s3 = RVal VNone :: resps s /\ cr = Done (RVal VNone))).
Proof.
  intros (a1&a2&a3&a4&a5&a6&a7) (q & t & pz & e & st3 & pc3 & Hst).
  repeat split; try congruence; try assumption.
  - intros Hp. apply pz in Hp. congruence.
  - destruct Hst as [(b1 & b2)|(h & Hw & b1 & b2 & b3)]; [left; split; congruence|right].
    exists h. split; [exact Hw|]. split; [congruence|]. split; [congruence|exact b3].
Qed.

Lemma Proc_stacks (s s3 : st) ms (uc : bool -> Prop) (oc : Prop) fr cr :
  Proc s ms uc oc [] fr -> stashed s3 = stashed s ->
  ((plans s3 = plans s /\ resps s3 = resps s) \/
   (exists h, wfh h /\ plans s3 = FHelper h :: plans s /\ resps s3 = RVal VNone :: resps s /\ cr = Done (RVal VNone))) ->
  exists ps, Proc s3 ms uc oc ps fr /\ (ps = [] \/ cr = Done (RVal VNone)).
Proof.
  intros (below & rb & nones & H1 & H2 & H3 & H4 & H5 & H6 & H7) Es [(Ep & Er)|(h & Hw & Ep & Er & Ec)].
  - exists []. split; [|left; reflexivity]. exists below, rb, nones. rewrite Ep, Er. repeat split; try assumption.
    intros e He. rewrite Es in He. apply H7, He.
  - exists [FHelper h]. split; [|right; exact Ec]. destruct nones; [|discriminate].
    exists below, rb, [RVal VNone]. rewrite Ep, Er, H1, H2.
    split; [reflexivity|]. split; [reflexivity|]. split; [reflexivity|].
    split; [constructor; [reflexivity|constructor]|]. split; [constructor; [exact Hw|constructor]|].
    split; [exact H6|]. intros e He. rewrite Es in He. apply H7, He.
Qed.

Lemma Gone_stacks (s s3 : st) ms ms' cr :
  Gone s ms -> mp ms' = mp ms ->
  ((plans s3 = plans s /\ resps s3 = resps s) \/
   (exists h, wfh h /\ plans s3 = FHelper h :: plans s /\ resps s3 = RVal VNone :: resps s /\ cr = Done (RVal VNone))) ->
  Gone s3 ms'.
Proof.
  intros [Hok Hd] Emp [(Ep & _)|(h & Hw & Ep & _)]; split; try (rewrite Emp; exact Hd).
  - rewrite Ep; exact Hok.
  - rewrite Ep. constructor; [exact Hw|exact Hok].
Qed.

Lemma dstep_CProcess (s : st) m ms s' c' o : Q s (CProcess m) ms -> dstep s (CProcess m) = inl (s', c', o) ->
  exists ms', MA pid ms o ms' /\ Q s' c' ms'.
Proof.
  intros (Hst & Hex & Hty & Hq) H.
  destruct (cproc_decomp s m) as (s2 & s3 & cr & o3 & E2 & Heff & Hu & Hs & Hd). rewrite Hd in H. clear Hd.
  destruct cr as [r|k]; [|discriminate]. inversion H; subst; clear H.
  destruct (effect_stacks _ _ _ _ _ E2 Heff) as (Est & Eex & Etr & Epz & Hqo & Epc & Hstk).
  assert (Hnp : state s' <> Paused) by (intros Hp; apply Epz, Hty in Hp; exact Hp).
  assert (Htail : (if is_unknown (mcmd m) then [] else [OResp r]) = [] \/ (if is_unknown (mcmd m) then [] else [OResp r]) = [OResp r])
    by (destruct (is_unknown (mcmd m)); auto).
  cbn in Hq.
  destruct (pst_eq_SIn (mp ms)) as [Hin|Hin].
  - (* the tracked plan's own message *)
    destruct Hq as [Hq|(fr & Hp & Hsf)]; [destruct Hq as [_ [E|E]]; congruence|].
    assert (Hown : (is_unknown (mcmd m) = true /\ (if is_unknown (mcmd m) then [] else [OResp r]) = [] /\ r = RExn EInvalidCommand) \/
                   (is_unknown (mcmd m) = false /\ (if is_unknown (mcmd m) then [] else [OResp r]) = [OResp r])).
    { destruct (is_unknown (mcmd m)) eqn:Eu; [left|right; auto]. destruct (Hu eq_refl) as [Er _]. inversion Er; auto. }
    destruct (MA_cmd_own ms m o3 _ r Hin Hqo Hown) as (ms' & M & Emp & Ems & Esn & Emo).
    exists ms'. split; [exact M|]. split; [rewrite Ems, Hst; exact Etr|]. split; [eapply exc_ok_tr; eassumption|].
    split; [intros Hp'; contradiction|]. cbn. right.
    destruct (Proc_stacks s s' ms (ucProc ms) True fr (Done r) Hp Est Hstk) as (ps & Hp' & Hps).
    exists ps, fr. split.
    + destruct Hp' as (below & rb & nones & H1 & H2 & H3 & H4 & H5 & H6 & H7).
      exists below, rb, nones. repeat split; try assumption.
      * destruct H6 as [p b (-> & _)|fr fs p b rs g _ _ _ _ Howed]; [|unfold owed in Howed; rewrite Hin in Howed; contradiction].
        constructor. left. split; [reflexivity|]. left. eauto.
      * intros e He. apply (mono_same ms ms' Esn Emo), H7, He.
    + destruct Hps as [->|Er]; [right; split; [reflexivity|exact Hsf]|left; inversion Er; reflexivity].
  - (* a message of an engine frame (or the tracked plan is gone) *)
    destruct (MA_cmd_other ms m o3 _ r Hin Hqo Htail) as (ms' & M & Hmono & Emp & Ems & Hrok & Hunk).
    exists ms'. split; [exact M|]. split; [rewrite Ems, Hst; exact Etr|]. split; [eapply exc_ok_tr; eassumption|].
    split; [intros Hp'; contradiction|]. cbn.
    destruct Hq as [Hq|(fr & Hp & Hsf)].
    + left. eapply Gone_stacks; [exact Hq| |exact Hstk]. rewrite Emp. apply canc_dead2. exact (proj2 Hq).
    + right. destruct (Proc_stacks s s' ms (ucProc ms) True fr (Done r) Hp Est Hstk) as (ps & Hp' & Hps).
      exists ps, fr. split.
      * destruct Hp' as (below & rb & nones & H1 & H2 & H3 & H4 & H5 & H6 & H7).
        exists below, rb, nones. repeat split; try assumption.
        -- destruct H6 as [p b (_ & Hb)|fr fs p b rs g Hfr _ Hfs Hpairs Howed]; [congruence|].
           constructor; try assumption.
           ++ destruct (is_unknown (mcmd m)) eqn:Eu.
              ** destruct (Hu eq_refl) as [Er _]. inversion Er; subst. cbn. apply Hunk. reflexivity.
              ** apply Hrok. reflexivity.
           ++ eapply pairs_mono; eassumption.
           ++ unfold owed. rewrite Emp. apply owed_canc in Howed. exact Howed.
        -- intros e He. apply Hmono, H7, He.
      * destruct Hps as [->|Er]; [right; split; [reflexivity|exact Hsf]|left; inversion Er; reflexivity].
Qed.

Lemma track_snoc_task a o w : track a (o ++ [OTask w]) = track a o.
Proof. rewrite track_app. reflexivity. Qed.

Lemma dstep_CProcess_fin (s : st) m ms s' o : Q s (CProcess m) ms -> dstep s (CProcess m) = inr (s', o) ->
  exists ms', MA pid ms o ms' /\ Inv s' ms'.
Proof.
  intros (Hst & Hex & Hty & Hq) H.
  destruct (cproc_decomp s m) as (s2 & s3 & cr & o3 & E2 & Heff & Hu & Hs & Hd). rewrite Hd in H. clear Hd.
  destruct cr as [r|k]; [discriminate|]. inversion H; subst; clear H.
  destruct (effect_stacks _ _ _ _ _ E2 Heff) as (Est & Eex & Etr & Epz & Hqo & Epc & Hstk).
  assert (Hnp : state s3 <> Paused) by (intros Hp; apply Epz, Hty in Hp; exact Hp).
  assert (Hstk' : plans s3 = plans s /\ resps s3 = resps s) by (destruct Hstk as [Hs'|(h & _ & _ & _ & Hc)]; [exact Hs'|discriminate]).
  destruct Hstk' as (Ep & Er).
  assert (Hq3 : Forall qobs (o3 ++ [OTask WFuture])) by (apply Forall_app; split; [exact Hqo|repeat constructor]).
  specialize (Hs k eq_refl).
  cbn in Hq.
  destruct (pst_eq_SIn (mp ms)) as [Hin|Hin].
  - destruct Hq as [Hq|(fr & Hp & Hsf)]; [destruct Hq as [_ [E|E]]; congruence|].
    destruct (MA_susp_own ms m (o3 ++ [OTask WFuture]) Hin Hq3 Hs) as (ms' & M & Emp & Ems & Esn & Emo).
    exists ms'. split; [exact M|]. split; [rewrite Ems, track_snoc_task, Hst; cbn; exact Etr|].
    split; [eapply exc_ok_tr; [|exact Hex]; cbn; exact Eex|]. split; [intros Hp'; cbn in Hp'; contradiction|].
    split; [congruence|]. unfold IP. cbn. right.
    destruct Hp as (below & rb & nones & H1 & H2 & H3 & H4 & H5 & H6 & H7).
    exists [], fr. split; [|split; [exact Hsf|intros Hx; congruence]].
    exists below, rb, nones. cbn [plans resps stashed set_pc upd]. rewrite Ep, Er. repeat split; try assumption.
    + destruct H6 as [p b (-> & _)|fr fs p b rs g _ _ _ _ Howed]; [|unfold owed in Howed; rewrite Hin in Howed; contradiction].
      constructor. split; [reflexivity|eauto].
    + intros e He. cbn in He. rewrite Est in He. apply (mono_same ms ms' Esn Emo), H7, He.
  - destruct (MA_cmd_other ms m (o3 ++ [OTask WFuture]) [] (RVal VNone) Hin Hq3 (or_introl eq_refl)) as (ms' & M & Hmono & Emp & Ems & _ & _).
    rewrite app_nil_r in M.
    exists ms'. split; [exact M|]. split; [rewrite Ems, track_snoc_task, Hst; cbn; exact Etr|].
    split; [eapply exc_ok_tr; [|exact Hex]; cbn; exact Eex|]. split; [intros Hp'; cbn in Hp'; contradiction|].
    split; [rewrite Emp; apply canc_nin; exact Hin|]. unfold IP. cbn.
    destruct Hq as [Hq|(fr & Hp & Hsf)].
    + left. destruct Hq as [Hok Hd]. split; [cbn; rewrite Ep; exact Hok|rewrite Emp, canc_dead2; assumption].
    + right. destruct Hp as (below & rb & nones & H1 & H2 & H3 & H4 & H5 & H6 & H7).
      exists [], fr. split; [|split; [exact Hsf|intros Hx; congruence]].
      exists below, rb, nones. cbn [plans resps stashed set_pc upd]. rewrite Ep, Er. repeat split; try assumption.
      * destruct H6 as [p b (_ & Hb)|fr fs p b rs g Hfr _ Hfs Hpairs Howed]; [congruence|].
        constructor; try assumption.
        -- intros m0. rewrite Emp. apply canc_nawait.
        -- eapply pairs_mono; eassumption.
        -- unfold owed. rewrite Emp. apply owed_canc in Howed. exact Howed.
      * intros e He. cbn in He. rewrite Est in He. apply Hmono, H7, He.
Qed.

(* ------------------------------------------------------------------ resuming the top frame *)
Definition aft_s2 (s : st) : st :=
  let s1 := set_resps s (tl (resps s)) in
  match exc_slot s1 with
  | Some e => set_exc_slot (set_stashed s1 (Some e)) None
  | None => s1
  end.
Definition aft_in (s : st) (r : resp) : input :=
  match stashed (aft_s2 s), r with
  | Some e, _ => Throw e
  | None, RExn e => Throw e
  | None, RVal v => Send v
  end.
Definition is_throw (i : input) : bool := match i with Throw _ => true | _ => false end.
Definition aft_res (s2 : st) (thr : bool) (x : outcome (frame P) * list obs) : (st * ctl * list obs) + (st * list obs) :=
  let '(o, po) := x in
  match o with
  | Yielded m f' => inl ((if thr then set_stashed (replace_top s2 f') None else replace_top s2 f'), CProcess m, po)
  | Returned v =>
      let s3 := pop_plan s2 in
      match plans s3 with
      | [] => inl (s3, CExit (XRet v), po)
      | _ => inl ((if thr then set_stashed s3 (Some EStopIteration) else s3), CContinue false (RVal VNone), po)
      end
  | Raised e' =>
      if is_Exception e' then
        let s3 := pop_plan s2 in
        match plans s3 with
        | [] => inl (s3, CExit (XExn e'), po)
        | _ => inl (set_stashed s3 (Some e'), CContinue false (RVal VNone), po)
        end
      else
        match e' with
        | ECancelled => inl (s2, CCancelled true, po)
        | _ => inl (set_resps (replace_top s2 (FList [])) (RVal VNone :: resps s2), CExit (XExn e'), po)
        end
  end.

Lemma aft_eq (s : st) r rest top pl : resps s = r :: rest -> plans s = top :: pl ->
  dstep s CAfterSleep = aft_res (aft_s2 s) (is_throw (aft_in s r)) (frame_resume presume top (aft_in s r)).
Proof.
  intros Er Ep. unfold RE_Small.dstep, aft_in, aft_res, aft_s2. rewrite Er, Ep. cbn [tl].
  set (s2 := match exc_slot (set_resps s rest) with
             | Some e => set_exc_slot (set_stashed (set_resps s rest) (Some e)) None
             | None => set_resps s rest
             end).
  destruct (stashed s2) eqn:Es; [|destruct r]; cbn [is_throw];
    (match goal with |- context [frame_resume presume ?f ?i] => destruct (frame_resume presume f i) as [o0 po] end);
    destruct o0; try reflexivity;
    (match goal with |- context [is_Exception ?x] => destruct (is_Exception x) end); reflexivity.
Qed.

Lemma aft_s2_facts (s : st) :
  plans (aft_s2 s) = plans s /\ resps (aft_s2 s) = tl (resps s) /\ state (aft_s2 s) = state s /\
  exc_slot (aft_s2 s) = None /\
  stashed (aft_s2 s) = match exc_slot s with Some e => Some e | None => stashed s end.
Proof. unfold aft_s2. cbn. destruct (exc_slot s) eqn:E; cbn; repeat split; auto. Qed.

Lemma aft_res_com (s2 : st) thr x s' c' o : aft_res s2 thr x = inl (s', c', o) ->
  state s' = state s2 /\ exc_slot s' = exc_slot s2 /\ o = snd x.
Proof.
  unfold aft_res. destruct x as [o0 po]. intros H.
  repeat bm_hyp H; inversion H; subst; clear H; repeat split; try reflexivity; destruct thr; reflexivity.
Qed.
Lemma aft_res_inr (s2 : st) thr x s' o : aft_res s2 thr x = inr (s', o) -> False.
Proof. unfold aft_res. destruct x as [o0 po]. intros H. repeat bm_hyp H; inversion H. Qed.

Lemma exc_ok_none (s : st) : exc_slot s = None -> exc_ok s.
Proof. intros E e He. congruence. Qed.

(* resuming a frame when the tracked plan is not on the stack *)
Lemma aft_gone (s2 : st) ms thr top pl i o0 po s' c' o :
  Forall okf (plans s2) -> dead2 (mp ms) -> plans s2 = top :: pl ->
  frame_resume presume top i = (o0, po) -> aft_res s2 thr (o0, po) = inl (s', c', o) ->
  exists ms', MA pid ms o ms' /\ mstate ms' = mstate ms /\ QP s' c' ms'.
Proof.
  intros Hok Hd Ep Hfr H. rewrite Ep in Hok. inversion Hok as [|? ? Htop Hpl]; subst.
  assert (Hopl : opl po) by (eapply frame_resume_opl; eauto).
  assert (Hn : mp ms <> SIn) by (destruct Hd; congruence).
  exists (ms_after ms po). split.
  { apply aft_res_com in H as (_ & _ & ->). cbn. apply MA_opl; assumption. }
  split; [apply ms_after_mstate|].
  assert (Hd' : dead2 (mp (ms_after ms po))) by (rewrite ms_after_mp; exact Hd).
  assert (Hd3 : dead3 (mp (ms_after ms po))) by (destruct Hd' as [E|E]; rewrite E; unfold dead3; auto).
  unfold aft_res in H.
  destruct o0 as [m f'|v|e'].
  - inversion H; subst; clear H. cbn. left. split; [|exact Hd'].
    assert (Hf' : okf f') by (eapply frame_resume_yield_okf; eauto).
    destruct thr; cbn; rewrite Ep; cbn; constructor; assumption.
  - assert (Hpl' : plans (pop_plan s2) = pl) by (cbn; rewrite Ep; reflexivity).
    destruct (plans (pop_plan s2)) eqn:E3; inversion H; subst; clear H; cbn.
    + left. split; [rewrite E3; constructor|exact Hd3].
    + left. split; [|exact Hd']. destruct thr; cbn; rewrite Ep; cbn; exact Hpl.
  - destruct (is_Exception e').
    + assert (Hpl' : plans (pop_plan s2) = pl) by (cbn; rewrite Ep; reflexivity).
      destruct (plans (pop_plan s2)) eqn:E3; inversion H; subst; clear H; cbn.
      * left. split; [rewrite E3; constructor|exact Hd3].
      * left. split; [|exact Hd']. cbn. rewrite Ep; cbn; exact Hpl.
    + destruct e'; inversion H; subst; clear H; cbn;
        try (left; split; [cbn; rewrite Ep; cbn; constructor; [exact I|exact Hpl]|exact Hd3]).
      left. split; [rewrite Ep; constructor; assumption|exact Hd'].
Qed.

(* resuming an engine frame above the tracked plan *)
Lemma aft_eng (s2 : st) ms f fs' p b rs' g i o0 po s' c' o :
  plans s2 = f :: fs' ++ [FUser pid p b] -> resps s2 = rs' ++ [g] ->
  eng f -> Forall eng fs' -> Forall2 (pairE ms) fs' rs' -> owed ms b g -> stash_ok s2 ms ->
  ((exists e, i = Throw e /\ aE ms e) \/ (exists v, i = Send v /\ stashed s2 = None /\ (startedF f \/ v = VNone))) ->
  frame_resume presume f i = (o0, po) -> aft_res s2 (is_throw i) (o0, po) = inl (s', c', o) ->
  exists ms', MA pid ms o ms' /\ mstate ms' = mstate ms /\ QP s' c' ms'.
Proof.
  intros Ep Er Hf Hfs Hpairs Howed Hstash Hi Hfr H.
  assert (Hopl : opl po) by (eapply frame_resume_opl; eauto using eng_okf).
  assert (Hn : mp ms <> SIn) by (unfold owed in Howed; destruct (mp ms); try tauto; congruence).
  set (ms' := ms_after ms po).
  assert (Hmono : mono ms ms') by apply mono_after.
  assert (Emp : mp ms' = mp ms) by apply ms_after_mp.
  assert (Howed' : owed ms' b g) by (eapply owed_mp; eassumption).
  assert (Hpairs' : Forall2 (pairE ms') fs' rs') by (eapply pairs_mono; eassumption).
  exists ms'. split.
  { apply aft_res_com in H as (_ & _ & ->). cbn. apply MA_opl; assumption. }
  split; [apply ms_after_mstate|].
  unfold aft_res in H.
  destruct o0 as [m f'|v0|e'].
  - (* the frame yields a message *)
    inversion H; subst; clear H. cbn. right.
    destruct (frame_resume_yield_eng _ _ _ Hpid _ _ _ _ _ Hf Hfr) as [Hf' Hsf'].
    exists f'. split; [|exact Hsf'].
    exists (fs' ++ [FUser pid p b]), (rs' ++ [g]), []. 
    assert (Est : stashed (if is_throw i then set_stashed (replace_top s2 f') None else replace_top s2 f') = None).
    { destruct Hi as [(e & -> & _)|(v & -> & Es & _)]; cbn; [reflexivity|exact Es]. }
    split; [destruct (is_throw i); cbn; rewrite Ep; reflexivity|].
    split; [destruct (is_throw i); cbn; rewrite Er; reflexivity|].
    split; [reflexivity|]. split; [constructor|]. split; [constructor|].
    split; [constructor; auto|]. intros e He. rewrite Est in He. discriminate.
  - (* the frame returns: only when sent a value *)
    destruct Hi as [(e & -> & _)|(v & -> & Es & _)]; [exfalso; eapply frame_resume_throw_ret; eauto|].
    assert (Hpl' : plans (pop_plan s2) = fs' ++ [FUser pid p b]) by (cbn; rewrite Ep; reflexivity).
    destruct (plans (pop_plan s2)) eqn:E3; [destruct fs'; discriminate|].
    inversion H; subst; clear H. cbn [is_throw QP]. right.
    exists fs', p, b, rs', g. cbn. rewrite Ep, Er. cbn. repeat split; try assumption.
    intros e He. cbn in He. rewrite Es in He. discriminate.
  - (* the frame raises *)
    assert (Hprov : is_Exception e' = true -> aE ms' e').
    { intros _. destruct (frame_resume_raise _ _ _ _ _ _ Hf Hfr) as [Hne|[Et|[Ec|(-> & Hns & v & Ev & Hv)]]].
      - apply allowed_after_ne. exact Hne.
      - destruct Hi as [(e & -> & Ha)|(v & -> & _)]; [|discriminate]. inversion Et; subst. apply Hmono, Ha.
      - destruct Hi as [(e & -> & _)|(v & -> & _)]; discriminate.
      - destruct Hi as [(e & -> & _)|(v1 & -> & _ & [Hs|Hs])]; [discriminate| |]; inversion Ev; subst; tauto. }
    destruct (is_Exception e') eqn:Eex.
    + assert (Hpl' : plans (pop_plan s2) = fs' ++ [FUser pid p b]) by (cbn; rewrite Ep; reflexivity).
      destruct (plans (pop_plan s2)) eqn:E3; [destruct fs'; discriminate|].
      inversion H; subst; clear H. cbn [QP]. right.
      exists fs', p, b, rs', g. cbn. rewrite Ep, Er. cbn. repeat split; try assumption.
      intros e He. cbn in He. inversion He; subst. apply Hprov. reflexivity.
    + assert (Hstash' : stash_ok s2 ms') by (intros e He; apply Hmono, Hstash, He).
      destruct e'; try discriminate; inversion H; subst; clear H; cbn [QP].
      * (* PlanHalt: the frame is replaced by an exhausted one *)
        right. exists (FList [] :: fs'), p, b. cbn. rewrite Ep. cbn. split; [reflexivity|].
        split; [constructor; [exact I|exact Hfs]|]. eapply owed_closeable; exact Howed'.
      * (* CancelledError: the frame stays, its response slot is gone *)
        right. exists [], f. exists (fs' ++ [FUser pid p b]), (rs' ++ [g]), [].
        rewrite Ep, Er. repeat split; try assumption; try constructor; auto.
      * right. exists (FList [] :: fs'), p, b. cbn. rewrite Ep. cbn. split; [reflexivity|].
        split; [constructor; [exact I|exact Hfs]|]. eapply owed_closeable; exact Howed'.
Qed.

(* the monitor accepts the input the tracked plan is given *)
Lemma input_accepted ms b g i (st2 : option exn) :
  owed ms b g -> b = true \/ (exists v, i = Send v) ->
  ((exists e, i = Throw e /\ (aE ms e \/ g = RExn e)) \/ (exists v, i = Send v /\ g = RVal v)) ->
  exists fl, input_ok ms i = Some fl.
Proof.
  unfold owed, input_ok. intros Ho Hb Hi.
  destruct (mp ms) as [| |m0|m0|m0 r0|] eqn:E; try contradiction.
  - destruct Ho as (-> & ->). destruct Hb as [Hb|(v & ->)]; [discriminate|].
    destruct Hi as [(e & Ei & _)|(v1 & Ei & Eg)]; [discriminate|]. inversion Ei; inversion Eg; subst. eauto.
  - destruct Ho as (-> & ->). destruct Hi as [(e & -> & [Ha|Eg])|(v1 & -> & Eg)].
    + unfold aE in Ha. rewrite Ha. eauto.
    + discriminate.
    + inversion Eg; subst. eauto.
  - destruct Ho as (-> & ->). destruct Hi as [(e & -> & [Ha|Eg])|(v1 & -> & Eg)].
    + unfold aE in Ha. rewrite Ha. eauto.
    + discriminate.
    + inversion Eg; subst. eauto.
  - destruct Ho as (-> & ->). destruct Hi as [(e & -> & [Ha|Eg])|(v1 & -> & Eg)].
    + unfold aE in Ha. destruct r0; [rewrite Ha; eauto|rewrite Ha, orb_true_r; eauto].
    + subst r0. unfold exn_eqb. destruct (exn_eq_dec e e); [cbn; eauto|congruence].
    + subst r0. unfold val_eqb. destruct (val_eq_dec v1 v1); [eauto|congruence].
Qed.

(* resuming the tracked plan itself *)
Lemma aft_user (s2 : st) ms p b g i o0 po s' c' o :
  plans s2 = [FUser pid p b] -> resps s2 = [] -> owed ms b g -> stash_ok s2 ms ->
  ((exists e, i = Throw e /\ (aE ms e \/ g = RExn e)) \/ (exists v, i = Send v /\ g = RVal v /\ stashed s2 = None)) ->
  frame_resume presume (FUser pid p b) i = (o0, po) -> aft_res s2 (is_throw i) (o0, po) = inl (s', c', o) ->
  exists ms', MA pid ms o ms' /\ mstate ms' = mstate ms /\ QP s' c' ms'.
Proof.
  intros Ep Er Howed Hstash Hi Hfr H.
  assert (Hn : mp ms <> SIn) by (unfold owed in Howed; destruct (mp ms); try tauto; congruence).
  assert (Ho : o = po) by (apply aft_res_com in H as (_ & _ & ->); reflexivity). subst o.
  (* was the plan really resumed? *)
  assert (Hcase : (b = false /\ (exists e, i = Throw e) /\ po = [] /\ exists e, i = Throw e /\ o0 = Raised e) \/
                  (po = [OPlanIn pid i] /\ (b = true \/ exists v, i = Send v) /\
                   match o0 with
                   | Yielded m f' => exists p', f' = FUser pid p' true
                   | Raised e' => e' <> ECancelled
                   | Returned _ => True
                   end)).
  { unfold frame_resume in Hfr. destruct i as [v|e|]; destruct b.
    all: try (destruct Hi as [(e0 & Ei & _)|(v0 & Ei & _)]; discriminate).
    all: try (left; inversion Hfr; subst; repeat split; eauto; fail).
    all: right; destruct (presume p _) eqn:Epr; inversion Hfr; subst;
         (split; [reflexivity|]); (split; [eauto|]); eauto; try exact I;
         intros ->; eapply Hnc; exact Epr. }
  destruct Hcase as [(-> & (e0 & Ei) & -> & e & Ei' & ->)|(-> & Hb & Hout)].
  - (* an exception thrown into the plan before it ever ran: it is raised again without running the plan *)
    subst i. inversion Ei'; subst e0. cbn [is_throw] in H.
    assert (Emp : mp ms = SNone) by (unfold owed in Howed; destruct (mp ms); try tauto; destruct Howed; discriminate).
    exists ms. split; [apply MA_nil|]. split; [reflexivity|].
    unfold aft_res in H. destruct (is_Exception e) eqn:Eex.
    + assert (Hpl' : plans (pop_plan s2) = []) by (cbn; rewrite Ep; reflexivity). rewrite Hpl' in H.
      inversion H; subst; clear H. cbn. left. split; [rewrite Hpl'; constructor|left; exact Emp].
    + destruct e; try discriminate; inversion H; subst; clear H; cbn [QP].
      * left. split; [cbn; rewrite Ep; cbn; repeat constructor|left; exact Emp].
      * right. exists [], (FUser pid p false). exists [], [], [].
        rewrite Ep, Er. repeat split; try assumption; try constructor; auto. right. auto.
      * left. split; [cbn; rewrite Ep; cbn; repeat constructor|left; exact Emp].
  - (* the plan is resumed with input i *)
    destruct (input_accepted ms b g i (stashed s2) Howed Hb) as (fl & Hio).
    { destruct Hi as [Hi|(v & Ei & Eg & _)]; [left; exact Hi|right; eauto]. }
    set (ms' := {| mstate := mstate ms; mp := SIn; mseen := []; mother := false |}).
    assert (M : MA pid ms [OPlanIn pid i] ms').
    { eapply MA_one with (fl := fl). unfold mon_obs. rewrite Nat.eqb_refl.
      assert (Es : settle ms (OPlanIn pid i) = ms) by (unfold settle; destruct (mp ms); try reflexivity; congruence).
      rewrite Es, Hio. reflexivity. }
    exists ms'. split; [exact M|]. split; [reflexivity|].
    unfold aft_res in H.
    destruct o0 as [m f'|v0|e'].
    + destruct Hout as (p' & ->). inversion H; subst; clear H. cbn [QP]. right.
      exists (FUser pid p' true). split; [|exact I].
      exists [], [], [].
      assert (Est : stashed (if is_throw i then set_stashed (replace_top s2 (FUser pid p' true)) None else replace_top s2 (FUser pid p' true)) = None).
      { destruct Hi as [(e & -> & _)|(v & -> & _ & Es)]; cbn; [reflexivity|exact Es]. }
      split; [destruct (is_throw i); cbn; rewrite Ep; reflexivity|].
      split; [destruct (is_throw i); cbn; rewrite Er; reflexivity|].
      split; [reflexivity|]. split; [constructor|]. split; [constructor|].
      split; [constructor; split; reflexivity|]. intros e He. rewrite Est in He. discriminate.
    + assert (Hpl' : plans (pop_plan s2) = []) by (cbn; rewrite Ep; reflexivity). rewrite Hpl' in H.
      inversion H; subst; clear H. cbn. left. split; [rewrite Hpl'; constructor|right; left; reflexivity].
    + destruct (is_Exception e') eqn:Eex.
      * assert (Hpl' : plans (pop_plan s2) = []) by (cbn; rewrite Ep; reflexivity). rewrite Hpl' in H.
        inversion H; subst; clear H. cbn. left. split; [rewrite Hpl'; constructor|right; left; reflexivity].
      * destruct e'; try discriminate; try congruence; inversion H; subst; clear H; cbn [QP];
          left; (split; [cbn; rewrite Ep; cbn; repeat constructor|right; left; reflexivity]).
Qed.

Lemma stash_ok_s2 (s : st) ms : exc_ok s -> stash_ok s ms -> stash_ok (aft_s2 s) ms.
Proof.
  intros Hex Hs e He. destruct (aft_s2_facts s) as (_ & _ & _ & _ & Es). rewrite Es in He.
  destruct (exc_slot s) eqn:E; [inversion He; subst; apply aE_ext, Hex; exact E|apply Hs, He].
Qed.

Lemma dstep_CAfterSleep (s : st) ms s' c' o : Q s CAfterSleep ms -> dstep s CAfterSleep = inl (s', c', o) ->
  exists ms', MA pid ms o ms' /\ Q s' c' ms'.
Proof.
  intros HQ0 H. pose proof HQ0 as (Hst & Hex & Hty & Hq).
  assert (Hnp : state s <> Paused) by (intros Hp; apply Hty in Hp; exact Hp).
  destruct (resps s) as [|r rest] eqn:Er.
  { unfold RE_Small.dstep in H. rewrite Er in H. inversion H; subst.
    eapply Q_quiet_bal; [exact HQ0|exact I| |right; exact I]. repeat split; auto. repeat constructor. }
  destruct (plans s) as [|top pl] eqn:Ep.
  { unfold RE_Small.dstep in H. rewrite Er, Ep in H. inversion H; subst.
    eapply Q_quiet_bal; [exact HQ0|exact I| |right; exact I]. repeat split; auto. repeat constructor. }
  rewrite (aft_eq s r rest top pl Er Ep) in H.
  destruct (aft_s2_facts s) as (Ep2 & Er2 & Est2 & Eex2 & Esh2).
  destruct (frame_resume presume top (aft_in s r)) as [o0 po] eqn:Hfr.
  destruct (aft_res_com _ _ _ _ _ _ H) as (Est' & Eex' & _).
  assert (Hfin : forall ms', mstate ms' = mstate ms -> QP s' c' ms' -> Q s' c' ms').
  { intros ms' Em Hqp. split; [rewrite Em, Hst; congruence|]. split; [apply exc_ok_none; congruence|].
    split; [intros Hp; exfalso; apply Hnp; congruence|exact Hqp]. }
  cbn in Hq. destruct Hq as [[Hok Hd]|(fs & p & b & rs & g & H1 & H2 & H3 & H4 & H5 & H6)].
  - destruct (aft_gone (aft_s2 s) ms (is_throw (aft_in s r)) top pl (aft_in s r) o0 po s' c' o) as (ms' & M & Em & Hqp); try assumption.
    + rewrite Ep2. exact Hok.
    + rewrite Ep2. exact Ep.
    + exists ms'. split; [exact M|apply Hfin; assumption].
  - assert (Hs2 : stash_ok (aft_s2 s) ms) by (apply stash_ok_s2; assumption).
    rewrite Ep in H1. rewrite Er in H3.
    destruct fs as [|f fs'].
    + (* the tracked plan is on top *)
      inversion H4; subst. cbn in H1, H3. inversion H1; subst. inversion H3; subst.
      destruct (aft_user (aft_s2 s) ms p b g (aft_in s g) o0 po s' c' o) as (ms' & M & Em & Hqp); try assumption.
      * rewrite Ep2. exact Ep.
      * rewrite Er2, Er. reflexivity.
      * unfold aft_in. destruct (stashed (aft_s2 s)) eqn:Es; [left; eexists; split; [reflexivity|left; apply Hs2; exact Es]|].
        destruct g; [right; eexists; repeat split; auto|left; eexists; split; [reflexivity|right; reflexivity]].
      * exists ms'. split; [exact M|apply Hfin; assumption].
    + (* an engine frame is on top *)
      inversion H2 as [|? ? Hf Hfs]; subst. inversion H4 as [|? r0 ? rs' Hp0 Hps]; subst.
      cbn in H1, H3. inversion H1; subst. inversion H3; subst.
      destruct Hp0 as [Hrok Hsn].
      destruct (aft_eng (aft_s2 s) ms f fs' p b rs' g (aft_in s r0) o0 po s' c' o) as (ms' & M & Em & Hqp); try assumption.
      * rewrite Ep2. exact Ep.
      * rewrite Er2, Er. reflexivity.
      * unfold aft_in. destruct (stashed (aft_s2 s)) eqn:Es; [left; eexists; split; [reflexivity|apply Hs2; exact Es]|].
        destruct r0; [right; eexists; split; [reflexivity|split; [reflexivity|]]|left; eexists; split; [reflexivity|exact Hrok]].
        destruct Hsn as [Hsn|Hsn]; [left; exact Hsn|right; inversion Hsn; reflexivity].
      * exists ms'. split; [exact M|apply Hfin; assumption].
Qed.
Lemma dstep_CAfterSleep_fin (s : st) s' o : dstep s CAfterSleep = inr (s', o) -> False.
Proof.
  intros H. destruct (resps s) as [|r rest] eqn:Er; [unfold RE_Small.dstep in H; rewrite Er in H; discriminate|].
  destruct (plans s) as [|top pl] eqn:Ep; [unfold RE_Small.dstep in H; rewrite Er, Ep in H; discriminate|].
  rewrite (aft_eq s r rest top pl Er Ep) in H. eapply aft_res_inr; exact H.
Qed.

(* ------------------------------------------------------------------ all control points together *)
Lemma dstep_Q (s : st) c ms s' c' o : Q s c ms -> dstep s c = inl (s', c', o) ->
  exists ms', MA pid ms o ms' /\ Q s' c' ms'.
Proof.
  intros HQ0 H. destruct c.
  - eapply dstep_CTop; eassumption.
  - eapply dstep_CBody; eassumption.
  - eapply dstep_CAfterSleep; eassumption.
  - eapply dstep_CProcess; eassumption.
  - destruct popped; [eapply dstep_CContinue_true|eapply dstep_CContinue_false]; eassumption.
  - destruct popped; [eapply dstep_CCancelled_true|eapply dstep_CCancelled_false]; eassumption.
  - eapply dstep_CExit; eassumption.
  - exfalso. eapply dstep_CFinalize; eassumption.
Qed.

Lemma dstep_Q_fin (s : st) c ms s' o : Q s c ms -> dstep s c = inr (s', o) ->
  exists ms', MA pid ms o ms' /\ Inv s' ms'.
Proof.
  intros HQ0 H. destruct c.
  - eapply dstep_CTop_fin; eassumption.
  - eapply dstep_CBody_fin; eassumption.
  - exfalso. eapply dstep_CAfterSleep_fin; eassumption.
  - eapply dstep_CProcess_fin; eassumption.
  - unfold RE_Small.dstep in H. discriminate.
  - unfold RE_Small.dstep in H. repeat bm_hyp H; discriminate.
  - eapply dstep_CExit_fin; eassumption.
  - eapply dstep_CFinalize_fin; eassumption.
Qed.

(* the `_run` loop from any control point: either the model ran out of fuel (reported as OBad 1), or the
   monitor accepts everything emitted and the invariant holds where the task comes to rest *)
Lemma drive_resp fuel : forall (s : st) c os ms0 ms s' o,
  MA pid ms0 os ms -> Q s c ms -> drive presume plan_of dev fuel s c os = (s', o) ->
  In (OBad 1) o \/ exists ms', MA pid ms0 o ms' /\ Inv s' ms'.
Proof.
  intros s c os ms0 ms s' o HM HQ0 H.
  eapply (drive_inv P presume plan_of D dev
            (fun s c os => exists ms, MA pid ms0 os ms /\ Q s c ms)
            (fun s' o => In (OBad 1) o \/ exists ms', MA pid ms0 o ms' /\ Inv s' ms')); [| | | |exact H].
  - intros s1 c1 os1 s2 c2 o2 (ms1 & M1 & Q1) Hd. destruct (dstep_Q _ _ _ _ _ _ Q1 Hd) as (ms2 & M2 & Q2).
    exists ms2. split; [eapply MA_app; eassumption|exact Q2].
  - intros s1 c1 os1 s2 o2 (ms1 & M1 & Q1) Hd. destruct (dstep_Q_fin _ _ _ _ _ Q1 Hd) as (ms2 & M2 & I2).
    right. exists ms2. split; [eapply MA_app; eassumption|exact I2].
  - intros s1 c1 os1 _. left. apply in_or_app. right. left. reflexivity.
  - exists ms. split; assumption.
Qed.

End Proofs.
