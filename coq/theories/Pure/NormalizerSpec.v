(* C35 (b) - executable restatement, over a whole run, of "nothing is lost":
   used as the boolean form of the full run-level statement (Props/C35.v: C35_b_full), evaluated on
   every correspondence case next to the implementation-side oracle, and by the model search.
   No proofs in this file. *)
From Coq Require Import String List ZArith Bool Arith.
From BV Require Import Pure.Normalizer.
Import ListNotations.
Open Scope string_scope.
Open Scope list_scope.

Definition dict_of (v : val) : dict := match v with VDict kv => kv | _ => [] end.
Definition get_or (k : string) (d : dict) (dflt : val) : val := match dget k d with Some x => x | None => dflt end.

(* the Events received, pages unpacked, in arrival order *)
Definition rows_of (v : val) : list dict := match transpose_dict v with inl r => r | inr _ => [] end.

Definition expand_events (docs : list (string * val)) : list dict :=
  flat_map (fun nd =>
    let '(name, d) := nd in
    let kv := dict_of d in
    if String.eqb name "event" then [kv]
    else if String.eqb name "event_page" then
      let uids := match dget "uid" kv with Some (VList l) => l | _ => [] end in
      let seqs := match dget "seq_num" kv with Some (VList l) => l | _ => [] end in
      let datas := rows_of (get_or "data" kv (VDict [])) in
      let fls := rows_of (get_or "filled" kv (VDict [])) in
      map (fun i => [("uid", nth i uids VNone); ("descriptor", get_or "descriptor" kv VNone);
                     ("seq_num", nth i seqs VNone); ("data", VDict (nth i datas []));
                     ("filled", VDict (nth i fls []))]) (seq 0 (List.length uids))
    else []) docs.

(* descriptor uid -> data_keys *)
Definition descriptors (docs : list (string * val)) : list (val * val) :=
  flat_map (fun nd =>
    let '(name, d) := nd in
    if String.eqb name "descriptor" then [(get_or "uid" (dict_of d) VNone, get_or "data_keys" (dict_of d) (VDict []))]
    else []) docs.

Definition is_external (spec : val) : bool := dhas "external" (dict_of spec).

(* the external references of one Event according to its descriptor: (key, datum id) pairs, in data order *)
Definition ext_items_of (ds : list (val * val)) (e : dict) : list (string * val) :=
  match vget (get_or "descriptor" e VNone) ds with
  | None => []
  | Some dksv =>
      let dks := dict_of dksv in
      let fl := dict_of (get_or "filled" e (VDict [])) in
      filter (fun kv =>
          match dget (fst kv) dks with
          | Some spec => is_external spec && negb (truthy (get_or (fst kv) fl (VBool false)))
          | None => false
          end) (dict_of (get_or "data" e (VDict [])))
  end.

(* the (event, external key, datum id) triples that must each become one StreamDatum *)
Definition expected_refs (docs : list (string * val)) : list (dict * string * val) :=
  let ds := descriptors docs in
  flat_map (fun e => map (fun kv => (e, fst kv, snd kv)) (ext_items_of ds e)) (expand_events docs).

Definition passthrough_uids (docs : list (string * val)) : list val :=
  flat_map (fun nd => if String.eqb (fst nd) "stream_datum" then [get_or "uid" (dict_of (snd nd)) VNone] else []) docs.

Definition out_uids (name : string) (o : list (string * val)) : list val :=
  flat_map (fun nd => if String.eqb (fst nd) name then [get_or "uid" (dict_of (snd nd)) VNone] else []) o.

Definition converted_uids (docs : list (string * val)) (o : list (string * val)) : list val :=
  filter (fun u => negb (existsb (atom_eqb u) (passthrough_uids docs))) (out_uids "stream_datum" o).

Fixpoint count_val (u : val) (l : list val) : nat :=
  match l with [] => O | x :: l' => (if atom_eqb u x then 1 else 0) + count_val u l' end.

Definition same_multiset (a b : list val) : bool :=
  Nat.eqb (List.length a) (List.length b) && forallb (fun u => Nat.eqb (count_val u a) (count_val u b)) a.

(* datum id -> frame entry, from the datum / datum_page documents of the stream *)
Definition datum_frames (docs : list (string * val)) : list (val * val) :=
  flat_map (fun nd =>
    let '(name, d) := nd in
    let kv := dict_of d in
    if String.eqb name "datum" then
      match dget "datum_id" kv with
      | Some id => [(id, get_or "frame" (dict_of (get_or "datum_kwargs" kv (VDict []))) VNone)]
      | None => []
      end
    else if String.eqb name "datum_page" then
      let ids := match dget "datum_id" kv with Some (VList l) => l | _ => [] end in
      let fs := match dget "frame" (dict_of (get_or "datum_kwargs" kv (VDict []))) with Some (VList l) => l | _ => [] end in
      map (fun i => (nth i ids VNone, nth i fs VNone)) (seq 0 (List.length ids))
    else []) docs.

(* descriptor uid -> stream name *)
Definition descriptor_names (docs : list (string * val)) : list (val * val) :=
  flat_map (fun nd =>
    let '(name, d) := nd in
    if String.eqb name "descriptor" then [(get_or "uid" (dict_of d) VNone, get_or "name" (dict_of d) VNone)]
    else []) docs.

(* The index ranges every referenced Datum must get, as a function of the Events in arrival order and
   of the table of Datum frames only - the arrival times of the Datums do not enter:
   no frame: [seq_num - 1, seq_num); frame: the frame counters advanced in Event order. *)
Fixpoint spec_items (frames : list (val * val)) (dn : string) (q : val)
         (nf : list ((string * string) * (Z * Z))) (items : list (string * val))
  : list ((string * string) * (Z * Z)) * list (val * (Z * Z)) :=
  match items with
  | [] => (nf, [])
  | (k, id) :: r =>
      match vget id frames with
      | Some (VInt f) =>
          let '(ci', rg) := frame_step (nf_get (dn, k) nf) f in
          let '(nf2, l) := spec_items frames dn q (nf_set (dn, k) ci' nf) r in
          (nf2, (id, rg) :: l)
      | _ =>
          let rg := match q with VInt z => ((z - 1)%Z, z) | _ => (0%Z, 0%Z) end in
          let '(nf2, l) := spec_items frames dn q nf r in
          (nf2, (id, rg) :: l)
      end
  end.

Fixpoint spec_events (ds names frames : list (val * val)) (nf : list ((string * string) * (Z * Z)))
         (evs : list dict) : list (val * (Z * Z)) :=
  match evs with
  | [] => []
  | e :: r =>
      let dn := match vget (get_or "descriptor" e VNone) names with Some (VStr s) => s | _ => "" end in
      let '(nf2, l) := spec_items frames dn (get_or "seq_num" e VNone) nf (ext_items_of ds e) in
      l ++ spec_events ds names frames nf2 r
  end.

Definition spec_ranges (docs : list (string * val)) : list (val * (Z * Z)) :=
  spec_events (descriptors docs) (descriptor_names docs) (datum_frames docs) [] (expand_events docs).

Fixpoint rget (id : val) (l : list (val * (Z * Z))) : option (Z * Z) :=
  match l with [] => None | (k, v) :: l' => if atom_eqb id k then Some v else rget id l' end.

(* the same stream with every datum / datum_page moved in front of the first event:
   the arrival order in which no Event ever waits for its Datum *)
Definition is_datum_doc (nd : string * val) : bool := String.eqb (fst nd) "datum" || String.eqb (fst nd) "datum_page".
Definition is_event_doc (nd : string * val) : bool := String.eqb (fst nd) "event" || String.eqb (fst nd) "event_page".

Fixpoint split_at_first_event (docs : list (string * val)) : list (string * val) * list (string * val) :=
  match docs with
  | [] => ([], [])
  | nd :: r => if is_event_doc nd then ([], docs)
               else let '(a, b) := split_at_first_event r in (nd :: a, b)
  end.

Definition datums_first (docs : list (string * val)) : list (string * val) :=
  let '(pre, post) := split_at_first_event docs in
  filter (fun nd => negb (is_datum_doc nd)) pre ++ filter is_datum_doc docs ++ filter (fun nd => negb (is_datum_doc nd)) post.

Definition ranges_eqb (a b : option ((Z * Z) * (Z * Z))) : bool :=
  match a, b with
  | Some ((a1, a2), (a3, a4)), Some ((b1, b2), (b3, b4)) => Z.eqb a1 b1 && Z.eqb a2 b2 && Z.eqb a3 b3 && Z.eqb a4 b4
  | None, None => true
  | _, _ => false
  end.

Definition keys_overlap (docs : list (string * val)) : bool :=
  let ds := descriptors docs in
  let exts := flat_map (fun p => map fst (filter (fun kv => is_external (snd kv)) (dict_of (snd p)))) ds in
  let ints := flat_map (fun p => map fst (filter (fun kv => negb (is_external (snd kv))) (dict_of (snd p)))) ds in
  existsb (fun k => mem_str k ints) exts.

(* the run-level statement (for runs in which no handler raised):
   1. one Event out per Event in, in order (same uids);
   2. the StreamDatums made from Datums are, as a multiset of uids, exactly the datum ids referred to by
      (Event, unfilled external key) pairs - each exactly once;
   3. each has exactly the ranges of [spec_ranges]: seq_nums = indices + 1, indices = [seq_num - 1, seq_num)
      when its Datum has no frame, the frame counters advanced in Event order otherwise - a function of
      the Events and of the Datum contents, not of whether the Datum or the Event arrived first
      (spec_ranges (datums_first docs) = spec_ranges docs, Proofs/NormalizerRun.v). *)
Definition b_holds_b (docs : list (string * val)) : bool :=
  let r := run Deep [] docs in
  let evs := expand_events docs in
  atoms_eqb (out_uids "event" (r_out r)) (map (fun e => get_or "uid" e VNone) evs)
  && (keys_overlap docs
      || (let exp := expected_refs docs in
          let sp := spec_ranges docs in
          same_multiset (map (fun t => snd t) exp) (converted_uids docs (r_out r))
          && forallb (fun t =>
               let '(e, k, id) := t in
               match sdat_ranges id (r_out r), rget id sp with
               | Some ((i0, i1), (q0, q1)), Some (a, b) =>
                   Z.eqb i0 a && Z.eqb i1 b && Z.eqb q0 (a + 1) && Z.eqb q1 (b + 1)
               | _, _ => false
               end) exp)).

(* ------------------------------------------------------------------ well-formed streams (hypothesis of the run-level theorem) *)

Definition is_page_doc (nd : string * val) : bool := String.eqb (fst nd) "event_page" || String.eqb (fst nd) "datum_page".

Definition reserved_free (d : dict) : bool :=
  negb (dhas "time" d || dhas "seq_num" d || dhas "_time" d || dhas "_seq_num" d).

Fixpoint nodup_atoms (l : list val) : bool :=
  match l with [] => true | x :: l' => is_atom x && negb (existsb (atom_eqb x) l') && nodup_atoms l' end.

Definition keys_subset (a b : dict) : bool := forallb (fun kv => dhas (fst kv) b) a.

(* every Event: its descriptor has been received before it; its data keys are data keys of that descriptor;
   neither data nor filled use the reserved names *)
Fixpoint events_ok (seen : list (val * val)) (docs : list (string * val)) : bool :=
  match docs with
  | [] => true
  | (name, d) :: r =>
      if String.eqb name "event" then
        (match vget (get_or "descriptor" (dict_of d) VNone) seen with
         | Some dks => keys_subset (dict_of (get_or "data" (dict_of d) (VDict []))) (dict_of dks)
         | None => false
         end)
        && reserved_free (dict_of (get_or "data" (dict_of d) (VDict [])))
        && reserved_free (dict_of (get_or "filled" (dict_of d) (VDict [])))
        && events_ok seen r
      else if String.eqb name "descriptor" then
        events_ok (seen ++ [(get_or "uid" (dict_of d) VNone, get_or "data_keys" (dict_of d) (VDict []))]) r
      else events_ok seen r
  end.

Fixpoint stop_last (docs : list (string * val)) : bool :=
  match docs with
  | [] => false
  | [(name, _)] => String.eqb name "stop"
  | (name, _) :: r => negb (String.eqb name "stop") && stop_last r
  end.

Definition wf_b (docs : list (string * val)) : bool :=
  negb (existsb is_page_doc docs)
  && negb (keys_overlap docs)
  && stop_last docs
  && nodup_atoms (map fst (descriptors docs))
  && forallb (fun p => reserved_free (dict_of (snd p))) (descriptors docs)
  && events_ok [] docs
  && nodup_atoms (map fst (datum_frames docs))
  && nodup_atoms (map (fun t => snd t) (expected_refs docs))
  && negb (existsb (fun u => existsb (atom_eqb u) (passthrough_uids docs)) (map (fun t => snd t) (expected_refs docs)))
  && forallb is_atom (passthrough_uids docs)
  && forallb is_atom (map (fun e => get_or "uid" e VNone) (expand_events docs)).
