"""C26 - snaked grids are a continuous back-and-forth ordering of the full grid."""
import itertools

ID = "C26"
PROP_FILE = "Props/C26.v"
SA_FORMS = ["list", "tuple", "set", "frozenset", "dictkeys"]
THEOREMS = ["C26_total", "C26_closed_form", "C26_permutation", "C26_unsnaked_product_order",
            "C26_turnaround", "C26_continuity", "C26_first_flag_irrelevant"]
COQ_IMPORTS = "From BV Require Import Pure.Snake Pure.Patterns."
MODELLED = ("bluesky.utils.snake_cyclers is modelled at list level (np.tile/np.repeat/np.concatenate/slicing and "
            "cycler +,* as list functions); axis values are integer labels 0..L-1; plan_patterns.outer_product "
            "(classify/chunk_outer_product_args, both argument patterns) and outer_list_product (snake_axes "
            "None/False/True/list) are modelled as argument parsing + snake_cyclers on the labels; cycler, numpy and "
            "toolz.partition themselves are trusted (modelled, not verified).")
RULE = ("exhaustive: all axis-length vectors with 1..4 axes (quick: lengths<=3; thorough: <=4) x all snake flag vectors "
        "through snake_cyclers; all vectors with 1..3 axes through outer_product (both argument patterns, all snake "
        "booleans) and outer_list_product (snake_axes None/False/True/every subset of motors); pattern-ambiguous "
        "argument counts (24 = 6x4 = 4+4x5); random vectors up to 6 axes x length 9 (product <= 600 quick, <= 3000 thorough) through all three entry points; "
        "malformed stream: length mismatches, misplaced motors, wrong argument counts, odd list arguments, repeated "
        "motors.  non-trivial = at least one snaked axis after the first and more than one point")


# ----------------------------------------------------------------------------- case construction

def _op_tokens(lens, flags, pattern):
    """argument tokens of outer_product for integer labels 0..L-1"""
    toks = []
    for i, L in enumerate(lens):
        toks += [["m", i], ["v", 0], ["v", L - 1], ["n", L]]
        if pattern == 2 and i > 0:
            toks.append(["b", bool(flags[i])])
    return toks


def _olp_tokens(lens, motors=None):
    toks = []
    for i, L in enumerate(lens):
        toks += [["m", i if motors is None else motors[i]], ["l", L]]
    return toks


def _prod(lens):
    t = 1
    for x in lens:
        t *= x
    return t


def cases(rng, tier):
    small, heavy = [], []
    maxlen = 3 if tier == "quick" else 4
    for n in range(1, 5):
        for lens in itertools.product(range(1, maxlen + 1), repeat=n):
            for flags in itertools.product([False, True], repeat=n):
                small.append({"lens": list(lens), "flags": list(flags), "via": "snake_cyclers"})
    # the two plan_patterns entry points, exhaustive on small grids
    for n in range(1, 4):
        for lens in itertools.product(range(1, maxlen + 1), repeat=n):
            small.append({"via": "outer_product", "pattern": 1, "args": _op_tokens(lens, [False] * n, 1)})
            for fl in itertools.product([False, True], repeat=n - 1):
                if n > 1:
                    small.append({"via": "outer_product", "pattern": 2, "args": _op_tokens(lens, [False] + list(fl), 2)})
            for sa in [None, False, True]:
                small.append({"via": "outer_list_product", "args": _olp_tokens(lens), "snake_axes": sa})
            for r in range(0, n + 1):
                for sub in itertools.combinations(range(n), r):
                    # the iterable of motors in every container form a caller may use (same meaning as the list)
                    small.append({"via": "outer_list_product", "args": _olp_tokens(lens), "snake_axes": list(sub),
                                  "sa_form": SA_FORMS[len(small) % len(SA_FORMS)]})
    # argument counts for which both patterns have the right length: 24 = 6*4 = 4 + 4*5, 44 = 11*4 = 4 + 8*5
    for fl in itertools.product([False, True], repeat=4):
        small.append({"via": "outer_product", "pattern": 2, "args": _op_tokens([2, 1, 2, 1, 2], [False] + list(fl), 2)})
    small.append({"via": "outer_product", "pattern": 1, "args": _op_tokens([2, 1, 2, 1, 2, 1], [False] * 6, 1)})
    small.append({"via": "outer_product", "pattern": 1, "args": _op_tokens([1] * 11, [False] * 11, 1)})
    small.append({"via": "outer_product", "pattern": 2, "args": _op_tokens([1, 2] + [1] * 7, [False, True] + [False] * 7, 2)})
    # random larger grids
    nrand = 90 if tier == "quick" else 1200
    cap = 600 if tier == "quick" else 3000
    for j in range(nrand):
        n = rng.randint(1, 6)
        while True:
            lens = [rng.randint(1, 9) for _ in range(n)]
            if _prod(lens) <= cap:
                break
        flags = [rng.random() < 0.6 for _ in range(n)]
        k = j % 3
        if k == 0:
            heavy.append({"lens": lens, "flags": flags, "via": "snake_cyclers"})
        elif k == 1:
            pat = 2 if (n > 1 and rng.random() < 0.8) else 1
            heavy.append({"via": "outer_product", "pattern": pat, "args": _op_tokens(lens, [False] + flags[1:], pat)})
        else:
            r = rng.random()
            sa = True if r < 0.3 else False if r < 0.4 else [i for i in range(n) if flags[i]]
            heavy.append({"via": "outer_list_product", "args": _olp_tokens(lens), "snake_axes": sa})
    # malformed stream
    bad = []
    for n in range(1, 4):
        bad.append({"lens": [2] * n, "flags": [True] * (n + 1), "via": "snake_cyclers"})
        bad.append({"lens": [2] * (n + 1), "flags": [True] * n, "via": "snake_cyclers"})
    for n in range(1, 4):
        good2 = _op_tokens([2] * n, [False] + [True] * (n - 1), 2)
        good1 = _op_tokens([2] * n, [False] * n, 1)
        for good, pat in ((good1, 1), (good2, 2)):
            for i in range(len(good)):
                dr = good[:i] + good[i + 1:]
                if _typed_ok(dr) or not (_placement_ok(dr, 1) or _placement_ok(dr, 2)):
                    bad.append({"via": "outer_product", "pattern": pat, "mal": "drop", "args": dr})
            for i in range(len(good) - 1):
                sw = list(good)
                sw[i], sw[i + 1] = sw[i + 1], sw[i]
                if not (_placement_ok(sw, 1) or _placement_ok(sw, 2)):
                    bad.append({"via": "outer_product", "pattern": pat, "mal": "swap", "args": sw})
            bad.append({"via": "outer_product", "pattern": pat, "mal": "extra", "args": good + [["m", 7]]})
            if n > 1:
                dup = [list(t) for t in good]
                for t in dup:
                    if t[0] == "m":
                        t[1] = 0
                bad.append({"via": "outer_product", "pattern": pat, "mal": "dup", "args": dup})
        gl = _olp_tokens([2] * n)
        bad.append({"via": "outer_list_product", "mal": "odd", "args": gl + [["m", 7]], "snake_axes": True})
        bad.append({"via": "outer_list_product", "mal": "odd", "args": gl[:-1], "snake_axes": [0]})
        if n > 1:
            bad.append({"via": "outer_list_product", "mal": "dup", "args": _olp_tokens([2] * n, [0] * n), "snake_axes": True})
            bad.append({"via": "outer_list_product", "mal": "dup", "args": _olp_tokens([2] * n, [0] * n), "snake_axes": False})
    bad.append({"via": "outer_product", "pattern": 1, "mal": "empty", "args": []})
    bad.append({"via": "outer_list_product", "mal": "empty", "args": [], "snake_axes": False})
    # interleave the heavy cases so that every Coq shard gets its share
    out = []
    step = max(1, len(small) // max(1, len(heavy)))
    hi = 0
    for i, c in enumerate(small):
        out.append(c)
        if i % step == step - 1 and hi < len(heavy):
            out.append(heavy[hi])
            hi += 1
    out += heavy[hi:]
    return out + bad


def _placement_ok(toks, pat):
    n = len(toks)
    if pat == 1:
        if n % 4:
            return False
        pos = set(range(0, n, 4))
    else:
        if not (n > 4 and (n - 4) % 5 == 0):
            return False
        pos = set([0] + list(range(4, n, 5)))
    return all((t[0] == "m") == (i in pos) for i, t in enumerate(toks))


def _typed_ok(toks):
    """the pattern the classifier picks holds numbers/counts/booleans where the model expects them (the
    model covers the motor placement check, not Python's duck typing of the other slots)"""
    for pat in (1, 2):
        if _placement_ok(toks, pat):
            rest = toks if pat == 1 else toks[:4] + [["b", False]] + toks[4:]
            w = 4 if pat == 1 else 5
            want = ["m", "v", "v", "n", "b"][:w]
            return all(rest[i][0] == want[i % w] for i in range(len(rest)))
    return False


# ----------------------------------------------------------------------------- implementation side

def _build_args(toks, motors):
    from harness.drivers.scan_fakes import FakeMotor
    args = []
    for kind, v in toks:
        if kind == "m":
            if v not in motors:
                motors[v] = FakeMotor("m%d" % v)
            args.append(motors[v])
        elif kind == "l":
            args.append(list(range(v)))
        else:
            args.append(v)
    return args


def _project(cyc, motors):
    ids = {id(m): k for k, m in motors.items()}
    pts, keys = [], None
    for p in cyc:
        ks = [ids[id(m)] for m in p.keys()]
        if keys is None:
            keys = ks
        elif keys != ks:
            return {"error": "KeyOrderChanges"}
        row = []
        for v in p.values():
            if float(v) != int(v):
                return {"error": "NonIntegerLabel"}
            row.append(int(v))
        pts.append(row)
    return {"points": pts, "keys": keys}


def impl(case):
    via = case["via"]
    try:
        if via == "snake_cyclers":
            from cycler import cycler
            from bluesky.utils import snake_cyclers
            lens, flags = case["lens"], case["flags"]
            cyc = [cycler("a%d" % i, list(range(L))) for i, L in enumerate(lens)]
            res = snake_cyclers(cyc, flags)
            return {"points": [[int(p["a%d" % i]) for i in range(len(lens))] for p in res]}
        from bluesky import plan_patterns
        motors = {}
        args = _build_args(case["args"], motors)
        if via == "outer_product":
            return _project(plan_patterns.outer_product(args), motors)
        sa = case["snake_axes"]
        if isinstance(sa, list):
            for k in sa:
                _build_args([["m", k]], motors)
            sa = [motors[k] for k in sa]
            form = case.get("sa_form", "list")
            sa = {"list": list, "tuple": tuple, "set": set, "frozenset": frozenset,
                  "dictkeys": lambda l: dict.fromkeys(l).keys()}[form](sa)
        return _project(plan_patterns.outer_list_product(args, sa), motors)
    except ValueError:
        return {"error": "ValueError"}
    except TypeError:
        return {"error": "TypeError"}


# ----------------------------------------------------------------------------- model side

def cl(xs, f=str):
    return "[" + "; ".join(f(x) for x in xs) + "]"


def cb(b):
    return "true" if b else "false"


def _tok(t):
    kind, v = t
    if kind == "m":
        return "AMot %d" % v
    if kind == "v":
        return "AVal %d" % v
    if kind == "n":
        return "ANum %d" % v
    if kind == "b":
        return "ABool %s" % cb(v)
    return "AList %s" % cl(range(v))


def _sa(sa):
    if sa is None:
        return "SANone"
    if sa is True:
        return "SATrue"
    if sa is False:
        return "SAFalse"
    return "(SAList %s)" % cl(sa)


def coq_term(case, obs):
    exp = "None" if "error" in obs else "Some " + cl(obs["points"], cl)
    if case["via"] == "snake_cyclers":
        return "olln_beq (snake_cyclers %s %s) (%s)" % (cl(case["lens"]), cl(case["flags"], cb), exp)
    args = "(%s : list (@arg nat))" % cl(case["args"], _tok)
    if case["via"] == "outer_product":
        t = "olln_beq (outer_product_labels %s) (%s)" % (args, exp)
        if "keys" in obs and obs["keys"] is not None:
            t += " && option_beq lnat_beq (option_map (map (@ax_motor nat)) (outer_product_axes %s)) (Some %s)" % (args, cl(obs["keys"]))
        return t
    t = "olln_beq (outer_list_product_labels %s %s) (%s)" % (args, _sa(case["snake_axes"]), exp)
    if "keys" in obs and obs["keys"] is not None:
        t += (" && option_beq lnat_beq (option_map (map fst) (all_some (map to_list_axis (part2 %s)))) (Some %s)"
              % (args, cl(obs["keys"])))
    return t


# ----------------------------------------------------------------------------- property, implementation side

def _point(lens, flags, t):
    pt = []
    for k, L in enumerate(lens):
        R = 1
        for x in lens[k + 1:]:
            R *= x
        d = (t // R) % L
        if flags[k] and ((t // (R * L)) % 2 == 1):
            pt.append(L - 1 - d)
        else:
            pt.append(d)
    return pt


def _documented(case):
    """(lens, flags, keys) the documentation promises for a well-formed call, or None if the call is
    malformed (must raise) or 'drops' (documented silent truncation by partition)."""
    via = case["via"]
    if via == "snake_cyclers":
        if len(case["lens"]) != len(case["flags"]):
            return None
        return case["lens"], case["flags"], None
    toks = case["args"]
    if via == "outer_product":
        for pat in (1, 2):
            if _placement_ok(toks, pat) and _typed_ok(toks) and toks:
                w = 4 if pat == 1 else 5
                full = toks if pat == 1 else toks[:4] + [["b", False]] + toks[4:]
                rows = [full[i:i + w] for i in range(0, len(full), w)]
                keys = [r[0][1] for r in rows]
                if len(set(keys)) != len(keys):
                    return None
                return [r[3][1] for r in rows], [False if pat == 1 else r[4][1] for r in rows], keys
        return None
    pairs = [toks[i:i + 2] for i in range(0, len(toks) - 1, 2)]
    if not pairs or any(p[0][0] != "m" or p[1][0] != "l" for p in pairs):
        return None
    keys = [p[0][1] for p in pairs]
    if len(set(keys)) != len(keys):
        return None
    sa = case["snake_axes"]
    if sa is True:
        flags = [i > 0 for i in range(len(keys))]
    elif not sa:
        flags = [False] * len(keys)
    else:
        flags = [k in sa for k in keys]
    return [p[1][1] for p in pairs], flags, keys


def oracle(case, obs):
    doc = _documented(case)
    if doc is None:
        return None if "error" in obs else "malformed call accepted"
    lens, flags, keys = doc
    if "error" in obs:
        return "valid input rejected: " + obs["error"]
    pts = obs["points"]
    if keys is not None and obs.get("keys") != keys and pts:
        return "axes come out in order %s, arguments give %s" % (obs.get("keys"), keys)
    tot = _prod(lens)
    if len(pts) != tot:
        return "trajectory has %d points, grid has %d" % (len(pts), tot)
    if sorted(map(tuple, pts)) != sorted(itertools.product(*[range(L) for L in lens])):
        return "trajectory is not a permutation of the full grid"
    for t, p in enumerate(pts):
        if p != _point(lens, flags, t):
            return "point %d is %s, documented back-and-forth order gives %s" % (t, p, _point(lens, flags, t))
    for t in range(len(pts) - 1):
        ch = [k for k in range(len(lens)) if pts[t][k] != pts[t + 1][k]]
        if not ch:
            return "points %d and %d coincide" % (t, t + 1)
        j = ch[0]
        if abs(pts[t][j] - pts[t + 1][j]) != 1:
            return "slowest changing axis jumps by more than one between points %d and %d" % (t, t + 1)
        for k in ch[1:]:
            if flags[k]:
                return "snaked axis %d moves while slower axis %d advances (points %d,%d)" % (k, j, t, t + 1)
    return None


def nontrivial(case, obs):
    doc = _documented(case)
    return "points" in obs and len(obs["points"]) > 1 and doc is not None and any(doc[1][1:])


def describe(case):
    via = case["via"]
    if "mal" in case:
        return "%s malformed:%s" % (via, case["mal"])
    doc = _documented(case)
    if doc is None:
        return "%s malformed" % via
    tag = via if via != "outer_product" else "outer_product/p%d" % case["pattern"]
    return "%s axes=%d snaked=%d" % (tag, len(doc[0]), sum(1 for f in doc[1][1:] if f))
