"""C40 - interruption records are complete and uniquely numbered."""
from harness.props.engine_common import *  # noqa: F401,F403
from harness.props import docs_common as dc
from harness.props import engine_common as ec

ID = "C40"
PROP_FILE = "Props/C40.v"
THEOREMS = ["C40_interruption_records", "C40_interruptions_exact", "C40_no_records_when_disabled"]
COQ_IMPORTS = dc.COQ_IMPORTS
RULE = dc.RULE
cases = dc.cases
coq_term = dc.coq_term


def oracle(case, obs):
    e = dc.driver_error(obs)
    if e:
        return e
    res = dc.mon(case, obs)
    why = dc.docs_monitor.first(res, ("intr",))
    if why:
        return why
    rec = bool(case.get("record_interruptions", False))
    for o in obs["obs"]:
        if o[0] == "doc" and o[1] in ("descriptor", "event") and o[3] == "interruptions" and not rec:
            return "interruptions stream present although recording is disabled"
        if o[0] == "doc" and o[1] == "stop":
            num = dict(o[5])
            if rec and "interruptions" not in num:
                return "RunStop of run %s does not count the interruptions stream" % o[2]
            if not rec and "interruptions" in num:
                return "RunStop of run %s counts an interruptions stream although recording is disabled" % o[2]
    return None


def finding(case, obs):
    return None


def nontrivial(case, obs):
    return bool(case.get("record_interruptions")) and any(
        o[0] == "doc" and o[1] == "event" and o[3] == "interruptions" for o in obs.get("obs", []))
