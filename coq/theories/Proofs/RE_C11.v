(* C11, end to end: on EVERY schedule outside the two finding classes (and inside the explicit, decidable
   well-formedness conditions below) the trace of the engine model satisfies [hold_ok] (Proofs/RE_Hold.v):
   while an accepted suspension is unreleased no plan other than a suspender's pre/post plan is advanced and no
   plan message is executed or replayed.  For all plan coalgebras and device oracles.

   [C11_full] (Props/C11.v) as stated is FALSE on the model ([c11_full_refuted] below): a suspension accepted
   while `_run` is in its final sleep (the plan is complete) is never served, the call ends, and the next RE(...)
   call advances its plan although the future was never released.  The real RunEngine.__call__ makes a new plan
   wait for tripped *installed* suspenders; install_suspender is not part of Engine/RE.v.  Hence the conditions:
     - [call_while_suspended evs = false]  no RE(...) call is started while a requested suspension is unreleased;
     - [stale_future evs = false]          a suspension is not requested with a future that was released before
                                           (a fresh asyncio future per suspension);
     - [plain_susp_plans tr = true]        the pre/post plans of suspenders do not themselves issue `pause`,
                                           `checkpoint` (the hook of a deferred pause) or `_start_suspender`;
   together with the finding classes C11-a / C11-b and the absence of impossible-step markers ([no_bad]). *)
From Coq Require Import List String ZArith Bool Arith Lia.
From BV Require Import Engine.RE Engine.REInst Proofs.RE_Small Proofs.RE_Inv Proofs.RE_Ctl Proofs.RE_Replay Proofs.RE_Hold Proofs.RE_Shape.
Import ListNotations.
(* file-local implicit arguments for the model's functions (the model file itself is untouched) *)
Local Arguments upd {P D}.
Local Arguments set_state_raw {P D}.
Local Arguments set_pc {P D}.
Local Arguments set_must_cancel {P D}.
Local Arguments set_permit {P D}.
Local Arguments set_blocking {P D}.
Local Arguments set_plans {P D}.
Local Arguments set_resps {P D}.
Local Arguments set_cache {P D}.
Local Arguments set_rewindable {P D}.
Local Arguments set_exc_slot {P D}.
Local Arguments set_stashed {P D}.
Local Arguments set_interrupted {P D}.
Local Arguments set_deferred {P D}.
Local Arguments set_exit {P D}.
Local Arguments upd2 {P D}.
Local Arguments set_bundlers {P D}.
Local Arguments set_staged {P D}.
Local Arguments set_moved {P D}.
Local Arguments set_seen {P D}.
Local Arguments set_groups {P D}.
Local Arguments set_statuses {P D}.
Local Arguments set_futs {P D}.
Local Arguments set_uids {P D}.
Local Arguments set_pardon {P D}.
Local Arguments set_dst {P D}.
Local Arguments set_task_set {P D}.
Local Arguments set_ghost {P D}.
Local Arguments interrupt {P D}.
Local Arguments resumable {P D}.
Local Arguments set_state {P D}.
Local Arguments cancel_task {P D}.
Local Arguments map_bundlers {P D}.
Local Arguments record_interruptions {P D}.
Local Arguments reset_checkpoint {P D}.
Local Arguments rewind {P D}.
Local Arguments dcall {P D}.
Local Arguments stop_movables {P D}.
Local Arguments call_pausables {P D}.
Local Arguments get_bundler {P D}.
Local Arguments put_bundler {P D}.
Local Arguments any_bundling {P D}.
Local Arguments add_status {P D}.
Local Arguments request_pause {P D}.
Local Arguments finish_read {P D}.
Local Arguments mark_cached {P D}.
Local Arguments exec_cmd {P D}.
Local Arguments set_main {P D}.
Local Arguments set_mreq {P D}.
Local Arguments set_ers {P D}.
Local Arguments push_frame {P D}.
Local Arguments pop_plan {P D}.
Local Arguments replace_top {P D}.
Local Arguments all_resolved {P D}.
Local Arguments all_released {P D}.
Local Arguments close_runs {P D}.
Local Arguments FUEL {P D}.
Local Arguments req_result {P D}.
Local Arguments clear_call {P D}.
Local Arguments state {P D}.
Local Arguments pc {P D}.
Local Arguments must_cancel {P D}.
Local Arguments permit {P D}.
Local Arguments blocking {P D}.
Local Arguments task_set {P D}.
Local Arguments plans {P D}.
Local Arguments resps {P D}.
Local Arguments cache {P D}.
Local Arguments rewindable {P D}.
Local Arguments exc_slot {P D}.
Local Arguments stashed {P D}.
Local Arguments interrupted {P D}.
Local Arguments deferred {P D}.
Local Arguments exit_status {P D}.
Local Arguments reason {P D}.
Local Arguments bundlers {P D}.
Local Arguments staged {P D}.
Local Arguments moved {P D}.
Local Arguments pausables {P D}.
Local Arguments stageables {P D}.
Local Arguments seen {P D}.
Local Arguments groups {P D}.
Local Arguments statuses {P D}.
Local Arguments failed_seen {P D}.
Local Arguments futs {P D}.
Local Arguments uid_supply {P D}.
Local Arguments run_uids {P D}.
Local Arguments record_intr {P D}.
Local Arguments pardon {P D}.
Local Arguments mreq {P D}.
Local Arguments was_paused {P D}.
Local Arguments main_err {P D}.
Local Arguments exit_reason_set {P D}.
Local Arguments icause {P D}.
Local Arguments late_pause {P D}.
Local Arguments intr_err {P D}.
Local Arguments dst {P D}.
Local Arguments start_sub {P}.
Local Arguments helper_after_pre {P}.
Local Arguments helper_after_post {P}.
Local Arguments helper_set {P}.
Local Arguments helper_rewind_next {P}.
Local Arguments helper_resume {P}.
Local Arguments frame_resume {P}.
Local Arguments exec_start_suspender {P} plan_of {D} dev.
Local Arguments close_frames {P} presume {D}.
Local Arguments finalize {P} presume {D} dev.
Local Arguments drive {P} presume plan_of {D} dev.
Local Arguments task_step {P} presume plan_of {D} dev.
Local Arguments step {P} presume plan_of {D} dev.
Local Arguments run {P} presume plan_of {D} dev.

(* ------------------------------------------------------------------ the new decidable conditions *)
Fixpoint call_inside_from (active : list nat) (evs : list event) : bool :=
  match evs with
  | [] => false
  | EvReqSuspend sid _ _ :: evs' => call_inside_from (sid :: active) evs'
  | EvRelease sid :: evs' => call_inside_from (remove_nat sid active) evs'
  | EvMain (ACall _) :: evs' => negb (is_nil active) || call_inside_from active evs'
  | _ :: evs' => call_inside_from active evs'
  end.
(* a new RE(...) call is started while a requested suspension has not been released *)
Definition call_while_suspended (evs : list event) : bool := call_inside_from [] evs.

Fixpoint stale_from (rel : list nat) (evs : list event) : bool :=
  match evs with
  | [] => false
  | EvReqSuspend sid _ _ :: evs' => mem_nat sid rel || stale_from rel evs'
  | EvRelease sid :: evs' => stale_from (sid :: rel) evs'
  | _ :: evs' => stale_from rel evs'
  end.
(* a suspension is requested with a future that was already released *)
Definition stale_future (evs : list event) : bool := stale_from [] evs.

(* commands a suspender's pre/post plan must not issue for the theorem below *)
Definition plain_cmd (c : cmd) : bool :=
  match c with CPause _ | CCheckpoint | CStartSuspender _ _ _ => false | _ => true end.

(* one monitor for [hold_ok], [no_bad] and the plainness of pre/post plans (a message right after a value was
   sent into a plan with pid >= 1000 is that plan's message) *)
Record gm := { gh : hold; gnb : bool; gpl : bool }.
Definition g0 : gm := {| gh := hold0; gnb := true; gpl := true |}.
Definition g_item (g : gm) (t : titem) : gm :=
  {| gh := hold_item (gh g) t;
     gnb := gnb g && match t with TObs (OBad _) => false | _ => true end;
     gpl := gpl g && match t with
                     | TObs (OMsg x) => match hlast (gh g) with
                                        | Some pid => Nat.ltb pid 1000 || plain_cmd (mcmd x)
                                        | None => true
                                        end
                     | _ => true
                     end |}.
Definition g_run (g : gm) (tr : list titem) : gm := fold_left g_item tr g.
Definition gobs (g : gm) (o : list obs) : gm := g_run g (map TObs o).
Definition plain_susp_plans (tr : list titem) : bool := gpl (g_run g0 tr).

Lemma g_run_app g a b : g_run g (a ++ b) = g_run (g_run g a) b.
Proof. unfold g_run. apply fold_left_app. Qed.
Lemma gobs_app g a b : gobs g (a ++ b) = gobs (gobs g a) b.
Proof. unfold gobs. rewrite map_app. apply g_run_app. Qed.
Lemma gobs_cons g x o : gobs g (x :: o) = gobs (g_item g (TObs x)) o.
Proof. reflexivity. Qed.
Lemma gobs_nil g : gobs g [] = g.
Proof. reflexivity. Qed.

Lemma gh_run tr : forall g, gh (g_run g tr) = fold_left hold_item tr (gh g).
Proof. unfold g_run. induction tr as [|t tr IH]; intros g; cbn [fold_left]; [reflexivity | rewrite IH; reflexivity]. Qed.

Lemma gnb_run tr : forall g, gnb (g_run g tr) = gnb g && no_bad (obs_of tr).
Proof.
  induction tr as [|t tr IH]; intros g; cbn [g_run fold_left obs_of].
  - cbn. rewrite andb_true_r. reflexivity.
  - change (fold_left g_item tr (g_item g t)) with (g_run (g_item g t) tr). rewrite IH. cbn [gnb g_item].
    destruct t as [e|o]; [rewrite andb_true_r; reflexivity|]. unfold no_bad; cbn [forallb].
    destruct o; cbn; rewrite ?andb_true_r, ?andb_false_r; reflexivity.
Qed.

Lemma gnb_mono tr : forall g, gnb (g_run g tr) = true -> gnb g = true.
Proof. intros g H. rewrite gnb_run in H. apply andb_true_iff in H. tauto. Qed.
Lemma gpl_mono tr : forall g, gpl (g_run g tr) = true -> gpl g = true.
Proof.
  induction tr as [|t tr IH]; intros g H; cbn in H; [exact H|]. apply IH in H. cbn [gpl g_item] in H.
  apply andb_true_iff in H. tauto.
Qed.

(* ------------------------------------------------------------------ what [hold_item] does with observations *)
(* observations that cannot hurt: everything except a value sent into a plan, a message, the acceptance *)
Definition hsafe (x : obs) : Prop :=
  match x with OPlanIn _ (Send _) | OMsg _ | OState Running Suspending => False | _ => True end.

Lemma dq_hsafe x : dq x -> hsafe x. Proof. destruct x; cbn; tauto. Qed.
Lemma rpq_hsafe x : rpq x -> hsafe x.
Proof. destruct x; cbn; try tauto. destruct a, b; tauto. Qed.
Lemma finq_hsafe x : finq x -> hsafe x.
Proof. destruct x; cbn; try tauto. - destruct a, b; tauto. - destruct i; tauto. Qed.

Lemma g_safe g x : hsafe x ->
  let g' := g_item g (TObs x) in
  hgood (gh g') = hgood (gh g) /\ (hactive (gh g') = hactive (gh g) \/ hactive (gh g') = []) /\
  hreq (gh g') = hreq (gh g) /\ gpl g' = gpl g.
Proof.
  intros Hs. destruct x; cbn in Hs |- *; try contradiction; rewrite ?andb_true_r; auto.
  - destruct a, b; cbn; try contradiction; auto.
  - destruct i; cbn; try contradiction; auto.
Qed.

Lemma gobs_safe o : forall g, Forall hsafe o ->
  hgood (gh (gobs g o)) = hgood (gh g) /\ (hactive (gh (gobs g o)) = hactive (gh g) \/ hactive (gh (gobs g o)) = []) /\
  hreq (gh (gobs g o)) = hreq (gh g) /\ gpl (gobs g o) = gpl g.
Proof.
  induction o as [|x o IH]; intros g F.
  - rewrite gobs_nil. auto.
  - inversion F; subst. rewrite gobs_cons. destruct (g_safe g x H1) as (A & B & C & E).
    destruct (IH (g_item g (TObs x)) H2) as (A' & B' & C' & E'). repeat split; try congruence.
    destruct B' as [B'|B']; [|right; exact B']. destruct B as [B|B]; [left | right]; congruence.
Qed.

(* nothing is suspended and no request is being decided: any observations keep it so *)
Lemma gobs_idle o : forall g, hactive (gh g) = [] -> hreq (gh g) = None ->
  hactive (gh (gobs g o)) = [] /\ hreq (gh (gobs g o)) = None /\ hgood (gh (gobs g o)) = hgood (gh g).
Proof.
  induction o as [|x o IH]; intros g Ha Hr.
  - rewrite gobs_nil. auto.
  - rewrite gobs_cons.
    assert (K : hactive (gh (g_item g (TObs x))) = [] /\ hreq (gh (g_item g (TObs x))) = None /\
                hgood (gh (g_item g (TObs x))) = hgood (gh g)).
    { destruct x; cbn; rewrite ?Ha, ?Hr; cbn; rewrite ?andb_true_r; auto.
      - destruct a, b; cbn; rewrite ?Ha, ?Hr; auto.
      - destruct i; cbn; rewrite ?Ha, ?Hr; cbn; rewrite ?andb_true_r; auto. }
    destruct K as (K1 & K2 & K3). destruct (IH _ K1 K2) as (A & B & C). repeat split; congruence.
Qed.

(* a value sent into a pre/post plan *)
Lemma g_send g pid v : 1000 <= pid ->
  let g' := g_item g (TObs (OPlanIn pid (Send v))) in
  hgood (gh g') = hgood (gh g) /\ hactive (gh g') = hactive (gh g) /\ hreq (gh g') = hreq (gh g) /\
  hlast (gh g') = Some pid /\ gpl g' = gpl g.
Proof.
  intros Hp. apply Nat.leb_le in Hp. cbv zeta. unfold g_item. cbn [gh gpl hold_item hgood hactive hreq hlast].
  rewrite Hp, orb_true_r, !andb_true_r. auto.
Qed.

(* an exception thrown into a plan, or its close(): every suspension is over *)
Lemma g_clear g pid i : (match i with Send _ => False | _ => True end) ->
  let g' := g_item g (TObs (OPlanIn pid i)) in
  hgood (gh g') = hgood (gh g) /\ hactive (gh g') = [] /\ hreq (gh g') = hreq (gh g).
Proof. destruct i; cbn; try contradiction; auto. Qed.

Ltac simp_st :=
  cbn [state pc must_cancel permit blocking task_set plans resps cache rewindable
       exc_slot stashed interrupted deferred exit_status reason bundlers staged moved
       pausables stageables seen groups statuses failed_seen futs uid_supply run_uids
       record_intr pardon mreq was_paused main_err exit_reason_set icause late_pause
       intr_err dst
       upd upd2 set_ghost set_main set_mreq set_ers interrupt
       set_state_raw set_pc set_must_cancel set_permit set_blocking set_plans set_resps
       set_cache set_rewindable set_exc_slot set_stashed set_interrupted set_deferred set_exit
       set_bundlers set_staged set_moved set_seen set_groups set_statuses set_futs set_uids
       set_pardon set_dst set_task_set map_bundlers put_bundler push_frame pop_plan
       replace_top] in *.

Section C11.
Variable P : Type.
Variable presume : P -> input -> outcome P.
Variable plan_of : nat -> P.
Variable D : Type.
Variable dev : D -> nat -> devmeth -> D * devres.
Notation st := (st P D).
Local Notation dstep := (RE_Small.dstep P presume plan_of D dev).

(* ------------------------------------------------------------------ the engine while a suspension is held *)
Definition nps (x : rstate) : Prop := x <> Pausing /\ x <> Suspending.
(* the `_start_suspender` frame of the request, not yet started, is on top *)
Definition topA (sid : nat) (s : st) : Prop :=
  exists pre post tl, plans s = FSingle (mk (CStartSuspender sid pre post)) false :: tl.
Definition hpre_ok (h : helper P) : Prop := match hpre h with Some (pid, _) => 1000 <= pid | None => True end.
(* the helper plan has not reached its wait yet *)
Definition ph_early (h : helper P) : Prop :=
  match hph h with H0 | HRwFalse => True | HPre _ => hpre h <> None | _ => False end.
(* the helper plan of this suspension is on top, above its exhausted `_start_suspender` frame *)
Definition topB (sid : nat) (s : st) (h : helper P) : Prop :=
  exists m tl, plans s = FHelper h :: FSingle m true :: tl /\ hsid h = sid /\ hpre_ok h.
Definition running (s : st) : Prop := state s = Running /\ must_cancel s = false /\ stashed s = None.
(* `_start_suspender` failed: its frame is about to be thrown the error *)
Definition topC (s : st) (c : ctl) : Prop :=
  exists m tl, plans s = FSingle m true :: tl /\
    match c with CContinue true r => exists e, r = RExn e | _ => exists e rs, resps s = RExn e :: rs end.
Definition loop_pt (c : ctl) : Prop := match c with CTop | CContinue _ _ => True | _ => False end.

(* per control point of the `_run` loop *)
Definition heldD (sid : nat) (g : gm) (s : st) (c : ctl) : Prop :=
  match c with
  | CExit _ | CFinalize _ _ => True
  | CCancelled _ => (state s = Suspending /\ must_cancel s = false /\ topA sid s) \/ nps (state s)
  | CProcess m =>
      running s /\
      ((exists pre post tl, m = mk (CStartSuspender sid pre post) /\ plans s = FSingle m true :: tl) \/
       (exists h, topB sid s h /\
          ((hph h = HRwFalse /\ m = mk (CRewindable (Some false))) \/
           (hph h = HWait /\ m = mk (CWaitFor [sid])) \/
           (exists p pid, hph h = HPre p /\ hpre h <> None /\ hlast (gh g) = Some pid /\ 1000 <= pid))))
  | _ =>
      (state s = Suspending /\ must_cancel s = false /\ topA sid s /\ loop_pt c)
      \/ (nps (state s) /\ stashed s <> None)
      \/ (running s /\ (topA sid s \/ (exists h, topB sid s h /\ ph_early h) \/ topC s c))
  end.

(* at the await points *)
Definition heldA (sid : nat) (s : st) : Prop :=
  match pc s with
  | PcNone | PcDone _ | PcFinalSleep _ => True
  | PcNotStarted | PcPermit0 | PcPaused => must_cancel s = true
  | PcSleep0 | PcCmd _ =>
      (state s = Suspending /\ must_cancel s = true /\ topA sid s)
      \/ (running s /\ pc s = PcSleep0 /\
          (topA sid s \/ exists m tl e rs, plans s = FSingle m true :: tl /\ resps s = RExn e :: rs))
      \/ (running s /\ exists h, topB sid s h /\
            ((hph h = HWait /\ pc s = PcCmd (KWaitFor [sid])) \/ (ph_early h /\ pc s <> PcCmd KCkptSleep)))
  end.

Definition HQ (g : gm) (s : st) (c : ctl) : Prop :=
  hgood (gh g) = true /\ hreq (gh g) = None /\
  (hactive (gh g) = [] \/ exists sid, hactive (gh g) = [sid] /\ heldD sid g s c).
Definition HA (g : gm) (s : st) : Prop :=
  hgood (gh g) = true /\ (hactive (gh g) = [] \/ exists sid, hactive (gh g) = [sid] /\ heldA sid s).

Lemma heldD_g sid g g' s c : (forall m, c <> CProcess m) -> heldD sid g s c -> heldD sid g' s c.
Proof. destruct c; cbn; auto. intros H. exfalso. eapply H; reflexivity. Qed.

Lemma HQ_safe g s c o s' c' :
  HQ g s c -> Forall hsafe o ->
  (forall sid, hactive (gh g) = [sid] -> heldD sid g s c -> heldD sid (gobs g o) s' c') ->
  HQ (gobs g o) s' c'.
Proof.
  intros (G1 & G2 & G3) F K. destruct (gobs_safe o g F) as (A & B & C & _). unfold HQ. rewrite A, C.
  split; [exact G1|]. split; [exact G2|].
  destruct G3 as [G3|(sid & G3 & G4)].
  - left. destruct B as [B|B]; congruence.
  - destruct B as [B|B]; [right; exists sid; split; [congruence | apply K; assumption] | left; exact B].
Qed.

Lemma HQ_nil g s c s' c' :
  HQ g s c -> (forall sid, hactive (gh g) = [sid] -> heldD sid g s c -> heldD sid g s' c') -> HQ g s' c'.
Proof. intros H K. apply (HQ_safe g s c [] s' c' H); [constructor | exact K]. Qed.

Lemma HQ_clear g s c pid i s' c' :
  HQ g s c -> (match i with Send _ => False | _ => True end) -> HQ (gobs g [OPlanIn pid i]) s' c'.
Proof.
  intros (G1 & G2 & _) Hi. rewrite gobs_cons, gobs_nil. destruct (g_clear g pid i Hi) as (A & B & C).
  unfold HQ. rewrite A, B, C. auto.
Qed.

Lemma HQ_send g s c pid v s' c' :
  HQ g s c -> 1000 <= pid ->
  (forall sid, hactive (gh g) = [sid] -> heldD sid g s c -> heldD sid (gobs g [OPlanIn pid (Send v)]) s' c') ->
  HQ (gobs g [OPlanIn pid (Send v)]) s' c'.
Proof.
  intros (G1 & G2 & G3) Hp K. pose proof (K) as K'. rewrite gobs_cons, gobs_nil in *.
  destruct (g_send g pid v Hp) as (A & B & C & _). unfold HQ. rewrite A, B, C.
  split; [exact G1|]. split; [exact G2|]. destruct G3 as [G3|(sid & G3 & G4)]; [left; exact G3|].
  right. exists sid. split; [exact G3 | apply K; assumption].
Qed.

Lemma HA_safe g s c o s' :
  HQ g s c -> Forall hsafe o ->
  (forall sid, hactive (gh g) = [sid] -> heldD sid g s c -> heldA sid s') ->
  HA (gobs g o) s'.
Proof.
  intros (G1 & G2 & G3) F K. destruct (gobs_safe o g F) as (A & B & C & _). unfold HA. rewrite A.
  split; [exact G1|].
  destruct G3 as [G3|(sid & G3 & G4)].
  - left. destruct B as [B|B]; congruence.
  - destruct B as [B|B]; [right; exists sid; split; [congruence | apply K; assumption] | left; exact B].
Qed.

(* ------------------------------------------------------------------ the loop, control point by control point *)
Lemma held_continue g s p r s' c' o :
  HQ g s (CContinue p r) -> dstep s (CContinue p r) = inl (s', c', o) -> HQ (gobs g o) s' c'.
Proof.
  intros HQ0 H. cbn [RE_Small.dstep] in H. invc H. rewrite gobs_nil. apply (HQ_nil _ _ _ _ _ HQ0).
  intros sid _ HD. cbn [heldD] in *.
  destruct HD as [(A1 & A2 & A3 & _)|[(U1 & U2)|(R & T)]].
  - left. destruct p; simp_st; repeat split; auto. all: destruct A3 as (pre & post & tl & A3); exists pre, post, tl; exact A3.
  - right; left. destruct p; simp_st; split; assumption.
  - right; right. split; [destruct p; exact R|].
    destruct T as [T|[(h & T1 & T2)|T]].
    + left. destruct p; exact T.
    + right; left. exists h. destruct p; split; assumption.
    + right; right. destruct T as (m & tl & T1 & T2). exists m, tl. destruct p; simp_st; split; try assumption.
      destruct T2 as [e ->]. eexists _, _; reflexivity.
Qed.


Lemma nps_eqb x : nps x -> rstate_eqb x Pausing = false /\ rstate_eqb x Suspending = false.
Proof. intros [A B]. split; apply RE_Inv.rstate_eqb_neq; assumption. Qed.

Lemma held_cancelled g s p s' c' o :
  HQ g s (CCancelled p) -> dstep s (CCancelled p) = inl (s', c', o) -> HQ (gobs g o) s' c'.
Proof.
  intros HQ0 H. cbn [RE_Small.dstep] in H.
  assert (K : o = [] /\ forall sid, heldD sid g s (CCancelled p) -> heldD sid g s' c').
  { destruct (state s) eqn:Es; repeat (bmh H); invc H; (split; [reflexivity|]); intros sid HD; cbn [heldD] in *;
      destruct HD as [(A1 & A2 & A3)|[N1 N2]]; try congruence; try (exfalso; congruence).
    all: try (right; left; simp_st; rewrite ?Es; split; [split; discriminate | congruence]).
    all: try exact I.
    left. repeat split; assumption. }
  destruct K as [-> K]. rewrite gobs_nil. apply (HQ_nil _ _ _ _ _ HQ0). intros sid _. apply K.
Qed.

Lemma held_top g s s' c' o :
  HQ g s CTop -> dstep s CTop = inl (s', c', o) -> HQ (gobs g o) s' c'.
Proof.
  intros HQ0 H. apply (HQ_safe _ _ _ _ _ _ HQ0).
  - (* observations: lifecycle changes and device calls only *)
    cbn [RE_Small.dstep] in H. unfold set_state in H.
    repeat (bmh H); invc H;
      repeat match goal with
             | Hx : (if ?c then _ else _) = Some _ |- _ => destruct c eqn:?; invc Hx
             | Hx : Some _ = Some _ |- _ => invc Hx
             | Hx : stop_movables _ _ = _ |- _ => apply stop_movables_dq in Hx
             | Hx : call_pausables _ _ _ = _ |- _ => apply call_pausables_dq in Hx
             end; fa; try exact I; try (eapply Forall_imp'; [exact dq_hsafe | eassumption]).
    all: match goal with |- hsafe (OState ?a ?b) => destruct a; exact I end.
  - intros sid _ HD. cbn [heldD] in HD. cbn [RE_Small.dstep] in H.
    destruct HD as [(A1 & A2 & A3 & _)|[(U1 & U2)|(R & T)]].
    + (* suspending: back to running, or FailedPause when the checkpoint is gone *)
      rewrite A1 in H. change (rstate_eqb Suspending Pausing) with false in H. change (rstate_eqb Suspending Suspending) with true in H.
      cbn [orb andb] in H. unfold set_state in H. simp_st. rewrite A1 in H.
      destruct (negb (resumable s)).
      * destruct (allowed Suspending Aborting); invc H; [|exact I].
        cbn [heldD]. right; left. simp_st. split; [split; discriminate | discriminate].
      * destruct (allowed Suspending Running); [|invc H; exact I]. simp_st.
        destruct (negb (permit s)); [invc H; exact I|]. invc H. cbn [heldD].
        destruct (stashed s) eqn:Est.
        -- right; left. simp_st. split; [split; discriminate | congruence].
        -- right; right. split; [repeat split; simp_st; auto|]. left. exact A3.
    + destruct (nps_eqb _ U1) as [E1 E2]. rewrite E1, E2 in H. cbn [orb andb] in H.
      destruct (negb (permit s)); [rewrite E1 in H; cbn [negb] in H; invc H; exact I|]. invc H.
      cbn [heldD]. right; left. split; assumption.
    + destruct R as (R1 & R2 & R3). rewrite R1 in H. change (rstate_eqb Running Pausing) with false in H.
      change (rstate_eqb Running Suspending) with false in H. cbn [orb andb negb] in H.
      destruct (negb (permit s)); [rewrite R1 in H; change (rstate_eqb Running Pausing) with false in H; invc H; exact I|]. invc H.
      cbn [heldD]. right; right. split; [repeat split; assumption|]. exact T.
Qed.

(* the pause branch of the loop top is never taken while a suspension is held *)
Lemma held_top_fin g s s' o :
  HQ g s CTop -> dstep s CTop = inr (s', o) -> hactive (gh g) = [].
Proof.
  intros (G1 & G2 & [G3|(sid & G3 & HD)]) H; [exact G3|]. exfalso. cbn [heldD] in HD. cbn [RE_Small.dstep] in H.
  assert (Hn : rstate_eqb (state s) Pausing = false).
  { destruct HD as [(A1 & _)|[(U1 & _)|((R1 & _) & _)]]; [rewrite A1; reflexivity | apply nps_eqb; exact U1 | rewrite R1; reflexivity]. }
  unfold set_state in H. rewrite Hn in H. cbn [orb] in H. simp_st.
  destruct (rstate_eqb (state s) Suspending) eqn:Es.
  - destruct (negb (resumable s)); cbn [andb] in H; [destruct (allowed (state s) Aborting); discriminate H|].
    destruct (allowed (state s) Running); [|discriminate H]. simp_st.
    destruct (negb (permit s)); [|discriminate H]. change (rstate_eqb Running Pausing) with false in H. discriminate H.
  - cbn [andb] in H. destruct (negb (permit s)); [|discriminate H]. rewrite Hn in H. discriminate H.
Qed.

Lemma held_body g s s' c' o :
  HQ g s CBody -> dstep s CBody = inl (s', c', o) -> HQ (gobs g o) s' c'.
Proof.
  intros HQ0 H. cbn [RE_Small.dstep] in H.
  destruct (negb (Nat.eqb (List.length (resps s)) (List.length (plans s)))).
  - invc H. rewrite gobs_nil. apply (HQ_nil _ _ _ _ _ HQ0). intros; exact I.
  - destruct (stashed s) eqn:Est; invc H. rewrite gobs_nil. apply (HQ_nil _ _ _ _ _ HQ0).
    intros sid _ HD. cbn [heldD] in *. destruct HD as [(_ & _ & _ & [])|[(U1 & U2)|((_ & _ & R3) & _)]].
    + right; left. split; assumption.
    + congruence.
Qed.

Lemma held_body_fin g s s' o :
  HQ g s CBody -> dstep s CBody = inr (s', o) -> HA (gobs g o) s'.
Proof.
  intros HQ0 H. cbn [RE_Small.dstep] in H.
  destruct (negb (Nat.eqb (List.length (resps s)) (List.length (plans s)))); [discriminate H|].
  destruct (stashed s) eqn:Est; invc H.
  apply (HA_safe _ _ _ _ _ HQ0); [repeat constructor|].
  intros sid _ HD. cbn [heldD] in HD. unfold heldA. simp_st.
  destruct HD as [(_ & _ & _ & [])|[(U1 & U2)|(R & T)]]; [congruence|].
  destruct T as [T|[(h & T1 & T2)|(m & tl & T1 & e & rs & T2)]].
  - right; left. split; [exact R|]. split; [reflexivity|]. left. exact T.
  - right; right. split; [exact R|]. exists h. split; [exact T1|]. right. split; [exact T2 | discriminate].
  - right; left. split; [exact R|]. split; [reflexivity|]. right. exists m, tl, e, rs. split; assumption.
Qed.

Lemma held_exit g s x s' c' o :
  HQ g s (CExit x) -> dstep s (CExit x) = inl (s', c', o) -> HQ (gobs g o) s' c'.
Proof.
  intros HQ0 H. cbn [RE_Small.dstep] in H.
  assert (K : o = [] /\ exists r pnd, c' = CFinalize r pnd) by (repeat (bmh H); invc H; split; try reflexivity; eexists _, _; reflexivity).
  destruct K as (-> & r & pnd & ->). rewrite gobs_nil. apply (HQ_nil _ _ _ _ _ HQ0). intros; exact I.
Qed.

Lemma held_exit_fin g s x s' o :
  HQ g s (CExit x) -> dstep s (CExit x) = inr (s', o) -> HA (gobs g o) s'.
Proof.
  intros HQ0 H. cbn [RE_Small.dstep] in H.
  assert (K : o = [OTask WSleep0] /\ exists r, pc s' = PcFinalSleep r) by (repeat (bmh H); invc H; split; try reflexivity; eexists; reflexivity).
  destruct K as (-> & r & K). apply (HA_safe _ _ _ _ _ HQ0); [repeat constructor|].
  intros sid _ _. unfold heldA. rewrite K. exact I.
Qed.

Lemma held_finalize_fin g s r pnd s' o :
  HQ g s (CFinalize r pnd) -> dstep s (CFinalize r pnd) = inr (s', o) -> HA (gobs g o) s'.
Proof.
  intros HQ0 H. cbn [RE_Small.dstep] in H. invc H.
  destruct (finalize_pc _ presume _ dev _ _ _ _ _ H1) as [r' K].
  apply (HA_safe _ _ _ _ _ HQ0).
  - eapply Forall_imp'; [exact finq_hsafe | eapply finalize_finq; exact H1].
  - intros sid _ _. unfold heldA. rewrite K. exact I.
Qed.


Lemma HQ_idle g s c o s' c' : HQ g s c -> hactive (gh g) = [] -> HQ (gobs g o) s' c'.
Proof.
  intros (G1 & G2 & _) Ha. destruct (gobs_idle o g Ha G2) as (A & B & C). unfold HQ. rewrite A, B, C. auto.
Qed.
Lemma HA_idle g s c o s' : HQ g s c -> hactive (gh g) = [] -> HA (gobs g o) s'.
Proof.
  intros (G1 & G2 & _) Ha. destruct (gobs_idle o g Ha G2) as (A & B & C). unfold HA. rewrite A, C. auto.
Qed.

(* a frame answers by raising: the exception travels on (or the loop is left) *)
Lemma heldD_post_raised sid g' (s2 : st) thr e' po :
  nps (state s2) -> let '(s', c', _) := as_post P D s2 thr (Raised e') po in heldD sid g' s' c'.
Proof.
  intros Hn. unfold as_post. destruct (is_Exception e').
  - cbv zeta. destruct (plans (pop_plan s2)); [exact I|]. cbn [heldD]. right; left. simp_st. split; [exact Hn | discriminate].
  - destruct e'; try exact I. cbn [heldD]. right. exact Hn.
Qed.

Lemma post_throw g s c (s2 : st) top e ou po :
  HQ g s c -> nps (state s2) -> frame_resume presume top (Throw e) = (ou, po) ->
  let '(s', c', o) := as_post P D s2 true ou po in HQ (gobs g o) s' c'.
Proof.
  intros HQ0 Hn Hf. destruct (frame_resume_throw _ presume _ _ _ _ Hf) as [[-> ->]|[[pid ->]|(pid & -> & -> & Hx)]].
  - pose proof (heldD_post_raised) as K. destruct (as_post P D s2 true (Raised e) []) as [[s' c'] o] eqn:E.
    assert (o = []) by (unfold as_post in E; repeat (bmh E); invc E; reflexivity). subst o. rewrite gobs_nil.
    apply (HQ_nil _ _ _ _ _ HQ0). intros sid _ _. specialize (K sid g s2 true e [] Hn). rewrite E in K. exact K.
  - destruct (as_post P D s2 true ou [OPlanIn pid (Throw e)]) as [[s' c'] o] eqn:E.
    assert (o = [OPlanIn pid (Throw e)]) by (unfold as_post in E; repeat (bmh E); invc E; reflexivity). subst o.
    apply (HQ_clear _ _ _ _ _ _ _ HQ0). exact I.
  - destruct (as_post P D s2 true (Raised e) [OPlanIn pid Close]) as [[s' c'] o] eqn:E.
    assert (o = [OPlanIn pid Close]) by (unfold as_post in E; repeat (bmh E); invc E; reflexivity). subst o.
    apply (HQ_clear _ _ _ _ _ _ _ HQ0). exact I.
Qed.

(* a value sent into the helper plan before its wait *)
Lemma helper_send_early (h : helper P) v ou po :
  ph_early h -> hpre_ok h -> helper_resume presume h (Send v) = (ou, po) ->
  (po = [] /\ hph h = H0 /\ ou = Yielded (mk (CRewindable (Some false))) (helper_set h HRwFalse))
  \/ (po = [] /\ ou = helper_after_pre h)
  \/ (exists pid v', 1000 <= pid /\ po = [OPlanIn pid (Send v')] /\ hpre h <> None /\
        ((exists m p', ou = Yielded m (helper_set h (HPre p'))) \/ ou = helper_after_pre h \/ exists e, ou = Raised e)).
Proof.
  unfold ph_early, hpre_ok, helper_resume. intros He Hp.
  destruct (hph h) eqn:Eph; try contradiction.
  - intros H; invc H. left. auto.
  - destruct (hpre h) as [[pid p]|] eqn:Epre.
    + destruct (presume p (Send VNone)) eqn:Er; intros H; invc H; right; right; exists pid, VNone;
        (split; [exact Hp|]); (split; [reflexivity|]); (split; [discriminate|]); eauto.
    + intros H; invc H. right; left. auto.
  - destruct (hpre h) as [[pid p0]|] eqn:Epre; [|contradiction (He eq_refl)].
    destruct (presume p (Send v)) eqn:Er; intros H; invc H; right; right; exists pid, v;
      (split; [exact Hp|]); (split; [reflexivity|]); (split; [discriminate|]); eauto.
Qed.

Lemma gnb_bad g n o : gnb (gobs g (OBad n :: o)) = true -> False.
Proof.
  intros H. rewrite gobs_cons in H. apply gnb_mono in H. cbn in H. rewrite andb_false_r in H. discriminate H.
Qed.

Lemma held_aftersleep g s s' c' o :
  HQ g s CAfterSleep -> dstep s CAfterSleep = inl (s', c', o) -> gnb (gobs g o) = true -> HQ (gobs g o) s' c'.
Proof.
  intros HQ0 H Hnb.
  destruct (resps s) as [|r rest] eqn:Er; [rewrite dstep_aftersleep_bad in H by (left; exact Er); invc H; exfalso; eapply gnb_bad; exact Hnb|].
  destruct (plans s) as [|top tl] eqn:Ep; [rewrite dstep_aftersleep_bad in H by (right; exact Ep); invc H; exfalso; eapply gnb_bad; exact Hnb|].
  rewrite (dstep_aftersleep _ presume plan_of _ dev s r rest top tl Er Ep) in H. cbv zeta in H.
  destruct (as_state_fields P D s rest) as (F1 & F2 & F3 & F4 & F5 & F6 & F7 & F8 & F9 & F10).
  set (s2 := as_state P D s rest) in *. clearbody s2.
  destruct HQ0 as (G1 & G2 & [G3|(sid & G3 & HD)]).
  { apply HQ_idle with (s := s) (c := CAfterSleep); [repeat split; auto | exact G3]. }
  assert (HQ0 : HQ g s CAfterSleep) by (repeat split; auto; right; exists sid; auto).
  cbn [heldD] in HD.
  assert (Hn : nps (state s2)).
  { rewrite F1. destruct HD as [(_ & _ & _ & [])|[(U1 & _)|((R1 & _) & _)]]; [exact U1 | rewrite R1; split; discriminate]. }
  destruct (as_input P D s2 r) as [v|e|] eqn:Ei.
  2:{ (* an exception is thrown into the top frame *)
      cbn [is_throw] in H. destruct (frame_resume presume top (Throw e)) as [ou po] eqn:Ef.
      pose proof (post_throw g s CAfterSleep s2 top e ou po HQ0 Hn Ef) as K. invc H. rewrite H1 in K. exact K. }
  2:{ exfalso. unfold as_input in Ei. destruct (stashed s2); [discriminate|]. destruct r; discriminate. }
  (* a value is sent: the exception slots are empty *)
  assert (Hs2 : stashed s2 = None) by (unfold as_input in Ei; destruct (stashed s2); [discriminate | reflexivity]).
  destruct HD as [(_ & _ & _ & [])|[(U1 & U2)|(R & T)]].
  { exfalso. rewrite F9 in Hs2. destruct (exc_slot s); [discriminate | contradiction]. }
  destruct R as (R1 & R2 & R3).
  assert (Rn : running s2) by (repeat split; congruence).
  cbn [is_throw] in H. destruct (frame_resume presume top (Send v)) as [ou po] eqn:Ef.
  destruct T as [(pre & post & tl' & T)|[(h & (m0 & tl' & T1 & T2 & T3) & T4)|(m0 & tl' & T1 & e & rs & T2)]].
  - (* the `_start_suspender` frame *)
    rewrite T in Ep. invc Ep. cbn [frame_resume] in Ef. destruct v; invc Ef.
    all: try (pose proof (fun sid' => heldD_post_raised sid' g s2 false ETypeError [] Hn) as K;
              destruct (as_post P D s2 false (Raised ETypeError) []) as [[sx cx] ox] eqn:E; invc H;
              assert (o = []) by (unfold as_post in E; cbn [is_Exception] in E; cbv zeta in E; repeat (bmh E); invc E; reflexivity);
              subst o; rewrite gobs_nil; apply (HQ_nil _ _ _ _ _ HQ0); intros; apply K).
    cbn [as_post] in H. invc H. rewrite gobs_nil. apply (HQ_nil _ _ _ _ _ HQ0). intros sid' G3' _.
    assert (sid' = sid) by congruence. subst sid'. cbn [heldD]. split; [exact Rn|]. left.
    exists pre, post, tl. split; [reflexivity|]. simp_st. rewrite F5, T. reflexivity.
  - (* the helper plan *)
    rewrite T1 in Ep. invc Ep. cbn [frame_resume] in Ef.
    destruct (helper_resume presume h (Send v)) as [ho hpo] eqn:Eh. invc Ef.
    assert (TB : forall h', hsid h' = hsid h -> hpre h' = hpre h -> topB (hsid h) (replace_top s2 (FHelper h')) h').
    { intros h' E1 E2. exists m0, tl'. simp_st. rewrite F5, T1. cbn [tl]. repeat split; auto. unfold hpre_ok. rewrite E2. exact T3. }
    destruct (helper_send_early h v ho po T4 T3 Eh) as [(-> & Eph & ->)|[(-> & ->)|(pid & v' & Hpid & -> & Hpre & Hou)]].
    + cbn [as_post] in H. invc H. rewrite gobs_nil. apply (HQ_nil _ _ _ _ _ HQ0). intros sid' G3' _.
      assert (sid' = hsid h) by congruence. subst sid'. cbn [heldD]. split; [exact Rn|]. right.
      exists (helper_set h HRwFalse). split; [apply TB; reflexivity|]. left. split; reflexivity.
    + unfold helper_after_pre in H. cbn [as_post] in H. invc H. rewrite gobs_nil. apply (HQ_nil _ _ _ _ _ HQ0). intros sid' G3' _.
      assert (sid' = hsid h) by congruence. subst sid'. cbn [heldD]. split; [exact Rn|]. right.
      eexists. split; [apply TB; reflexivity|]. right; left. split; reflexivity.
    + destruct Hou as [(m & p' & ->)|[->|(e & ->)]].
      * cbn [as_post] in H. invc H. apply (HQ_send _ _ _ _ _ _ _ HQ0 Hpid). intros sid' G3' _.
        assert (sid' = hsid h) by congruence. subst sid'. cbn [heldD]. split; [exact Rn|]. right.
        exists (helper_set h (HPre p')). split; [apply TB; reflexivity|]. right; right.
        exists p', pid. split; [reflexivity|]. split; [exact Hpre|]. split; [|exact Hpid].
        rewrite gobs_cons, gobs_nil. apply (g_send g pid v' Hpid).
      * unfold helper_after_pre in H. cbn [as_post] in H. invc H. apply (HQ_send _ _ _ _ _ _ _ HQ0 Hpid). intros sid' G3' _.
        assert (sid' = hsid h) by congruence. subst sid'. cbn [heldD]. split; [exact Rn|]. right.
        eexists. split; [apply TB; reflexivity|]. right; left. split; reflexivity.
      * pose proof (heldD_post_raised) as K.
        destruct (as_post P D s2 false (Raised e) [OPlanIn pid (Send v')]) as [[sx cx] ox] eqn:E. invc H.
        assert (o = [OPlanIn pid (Send v')]) by (unfold as_post in E; repeat (bmh E); invc E; reflexivity). subst o.
        apply (HQ_send _ _ _ _ _ _ _ HQ0 Hpid). intros sid' _ _.
        specialize (K sid' (gobs g [OPlanIn pid (Send v')]) s2 false e [OPlanIn pid (Send v')] Hn). rewrite E in K. exact K.
  - (* `_start_suspender` failed: its response is an exception, so nothing is sent *)
    exfalso. rewrite T2 in Er. invc Er. unfold as_input in Ei. rewrite Hs2 in Ei. discriminate Ei.
Qed.


(* ------------------------------------------------------------------ processing a message *)
Lemma g_msg g m :
  (mid m = None \/ exists pid, hlast (gh g) = Some pid /\ 1000 <= pid) ->
  hgood (gh (g_item g (TObs (OMsg m)))) = hgood (gh g) /\ hactive (gh (g_item g (TObs (OMsg m)))) = hactive (gh g) /\
  hreq (gh (g_item g (TObs (OMsg m)))) = hreq (gh g).
Proof.
  intros Hc. unfold g_item. cbn [gh hold_item hgood hactive hreq]. repeat split.
  destruct Hc as [->|(pid & -> & Hp)]; [rewrite orb_true_r, andb_true_r; reflexivity|].
  apply Nat.leb_le in Hp. rewrite Hp. destruct (mid m); rewrite orb_true_r, andb_true_r; reflexivity.
Qed.

Lemma HQ_msg g s c m rest s' c' :
  HQ g s c -> (mid m = None \/ exists pid, hlast (gh g) = Some pid /\ 1000 <= pid) -> Forall hsafe rest ->
  (forall sid, hactive (gh g) = [sid] -> heldD sid g s c -> forall g', heldD sid g' s' c') ->
  HQ (gobs g (OMsg m :: rest)) s' c'.
Proof.
  intros (G1 & G2 & G3) Hc F K. rewrite gobs_cons. destruct (g_msg g m Hc) as (A1 & A2 & A3).
  destruct (gobs_safe rest (g_item g (TObs (OMsg m))) F) as (A & B & C & _). unfold HQ. rewrite A, C, A1, A3.
  split; [exact G1|]. split; [exact G2|]. rewrite A2 in B.
  destruct G3 as [G3|(sid & G3 & G4)].
  - left. destruct B as [B|B]; congruence.
  - destruct B as [B|B]; [right; exists sid; split; [congruence | apply K; assumption] | left; exact B].
Qed.

Lemma HA_msg g s c m rest s' :
  HQ g s c -> (mid m = None \/ exists pid, hlast (gh g) = Some pid /\ 1000 <= pid) -> Forall hsafe rest ->
  (forall sid, hactive (gh g) = [sid] -> heldD sid g s c -> heldA sid s') ->
  HA (gobs g (OMsg m :: rest)) s'.
Proof.
  intros (G1 & G2 & G3) Hc F K. rewrite gobs_cons. destruct (g_msg g m Hc) as (A1 & A2 & A3).
  destruct (gobs_safe rest (g_item g (TObs (OMsg m))) F) as (A & B & C & _). unfold HA. rewrite A, A1.
  split; [exact G1|]. rewrite A2 in B.
  destruct G3 as [G3|(sid & G3 & G4)].
  - left. destruct B as [B|B]; congruence.
  - destruct B as [B|B]; [right; exists sid; split; [congruence | apply K; assumption] | left; exact B].
Qed.

(* which command suspended the task *)
Lemma exec_cmd_susp_kind (s : st) m s' k o :
  exec_cmd dev s m = (s', Susp k, o) ->
  match k with
  | KSleep => mcmd m = CSleep
  | KCkptSleep => mcmd m = CCheckpoint
  | KWait _ => exists gp, mcmd m = CWait gp
  | KWaitFor fs => mcmd m = CWaitFor fs
  | KReadCache _ _ _ => mcmd m = CRead
  end.
Proof.
  unfold exec_cmd, finish_read. destruct (mcmd m); repeat bmg; intros H; invc H; try reflexivity; eauto.
Qed.

Lemma plain_not_pause c : plain_cmd c = true -> forall d, c <> CPause d.
Proof. intros H d E; subst; discriminate H. Qed.

(* `_start_suspender`: it fails and leaves the stacks alone, or it pushes the helper plan of this suspension *)
Lemma exec_start_suspender_cases (s : st) sid pre post s' cr o :
  exec_start_suspender plan_of dev s sid pre post = (s', cr, o) ->
  (exists e, cr = Done (RExn e) /\ RE_Inv.same P D s s') \/
  (cr = Done (RVal VNone) /\ exists h, RE_Inv.same P D (push_frame s (FHelper h)) s' /\ hph h = H0 /\ hsid h = sid /\ hpre_ok h).
Proof.
  unfold exec_start_suspender.
  destruct (record_interruptions s) as [[s1 o1] ok] eqn:E1. apply RE_Inv.record_interruptions_same in E1. destruct E1 as [E1 _].
  destruct ok; cbn [negb]; [|intros H; invc H; left; eexists; split; [reflexivity | exact E1]].
  destruct (stop_movables dev s1) as [s2 o2] eqn:E2. apply RE_Inv.stop_movables_same in E2. destruct E2 as [[E2 _] _].
  destruct (call_pausables dev s2 MPause) as [[s3 e] o3] eqn:E3. apply RE_Inv.call_pausables_same in E3. destruct E3 as [[[E3 _] _] _].
  assert (E : RE_Inv.same P D s s3) by (eapply RE_Inv.same_trans; [eapply RE_Inv.same_trans|]; eassumption).
  destruct e; [intros H; invc H; left; eexists; split; [reflexivity | exact E]|].
  destruct (cache s3) eqn:Ec; [|intros H; invc H; left; eexists; split; [reflexivity | exact E]].
  destruct (rewind s3) as [s4 l0] eqn:E4. apply RE_Inv.rewind_same in E4. destruct E4 as [E4 _].
  intros H; invc H. right. split; [reflexivity|].
  exists {| hph := H0; hsid := sid;
            hpre := if pre then Some (pid_pre sid, plan_of (pid_pre sid)) else None;
            hpost := if post then Some (pid_post sid, plan_of (pid_post sid)) else None;
            hwas := rewindable s4; hrw := l0 |}.
  split; [|split; [reflexivity|split; [reflexivity|]]].
  - pose proof (RE_Inv.same_trans _ _ _ _ _ E E4) as E5. unfold RE_Inv.same in *. simp_st.
    destruct E5 as (S1 & S2 & S3 & S4 & S5 & S6 & S7 & S8 & S9 & S10 & S11 & S12). repeat split; congruence.
  - unfold hpre_ok. cbn [hpre]. destruct pre; [|exact I]. unfold pid_pre. lia.
Qed.

Lemma pre_same (s : st) (m : msg) :
  let s1 := match mobj m with Some d => set_seen s (insert_sorted d (seen s)) | None => s end in
  let s2 := match cache s1 with
            | Some l => if rewindable s1 && cacheable (mcmd m) then set_cache s1 (Some (l ++ [m])) else s1
            | None => s1
            end in
  RE_Inv.same P D s s2.
Proof.
  cbv zeta. unfold RE_Inv.same. repeat bmg; simp_st; repeat split; reflexivity.
Qed.

Lemma plain_dispatch (c : cmd) {A} (f : nat -> bool -> bool -> A) (x : A) :
  plain_cmd c = true -> match c with CStartSuspender sid pre post => f sid pre post | _ => x end = x.
Proof. destruct c; try reflexivity. discriminate. Qed.

Ltac use_same E :=
  unfold RE_Inv.same in E; simp_st;
  let S1 := fresh "S" in let S2 := fresh "S" in let S3 := fresh "S" in let S6 := fresh "S" in
  let S7 := fresh "S" in let S8 := fresh "S" in
  destruct E as (S1 & S2 & S3 & _ & _ & S6 & S7 & S8 & _).

Lemma held_process_gen g s m r0 :
  HQ g s (CProcess m) -> dstep s (CProcess m) = r0 ->
  match r0 with
  | inl (s', c', o) => gpl (gobs g o) = true -> HQ (gobs g o) s' c'
  | inr (s', o) => gpl (gobs g o) = true -> HA (gobs g o) s'
  end.
Proof.
  intros HQ0 H. destruct HQ0 as (G1 & G2 & [G3|(sid & G3 & HD)]).
  { destruct r0 as [[[s' c'] o]|[s' o]]; intros _;
      [apply HQ_idle with (s := s) (c := CProcess m) | apply HA_idle with (s := s) (c := CProcess m)];
      try exact G3; repeat split; auto. }
  assert (HQ0 : HQ g s (CProcess m)) by (repeat split; auto; right; exists sid; auto).
  cbn [RE_Small.dstep] in H. cbv zeta in H. pose proof (pre_same s m) as E2. cbv zeta in E2.
  match type of E2 with RE_Inv.same _ _ _ ?x => set (s2 := x) in * end. clearbody s2.
  cbn [heldD] in HD. destruct HD as ((R1 & R2 & R3) & HD).
  assert (Rn2 : running s2 /\ plans s2 = plans s).
  { use_same E2. repeat split; congruence. }
  destruct Rn2 as [Rn2 Pl2]. clear E2.
  destruct HD as [(pre & post & tl & -> & Tp)|(h & (m0 & tl & T1 & T2 & T3) & HD)].
  - (* `_start_suspender` *)
    cbn [mcmd mk] in H.
    destruct (exec_start_suspender plan_of dev s2 sid pre post) as [[s3 cr] o3] eqn:Ex.
    pose proof (exec_start_suspender_dq _ plan_of _ dev _ _ _ _ _ _ _ Ex) as Hq.
    destruct (exec_start_suspender_cases _ _ _ _ _ _ _ Ex) as [(e & -> & E3)|(-> & h & E3 & Hh1 & Hh2 & Hh3)]; subst r0; intros _.
    + apply (HQ_msg _ _ _ _ _ _ _ HQ0); [left; reflexivity | |].
      { fa; try exact I. eapply Forall_imp'; [exact dq_hsafe | exact Hq]. }
      intros sid' _ _ g'. cbn [heldD]. right; right. destruct Rn2 as (A & B & C). use_same E3.
      split; [repeat split; congruence|]. right; right. eexists _, tl. split; [rewrite S2, Pl2; exact Tp|]. eexists; reflexivity.
    + apply (HQ_msg _ _ _ _ _ _ _ HQ0); [left; reflexivity | |].
      { fa; try exact I. eapply Forall_imp'; [exact dq_hsafe | exact Hq]. }
      intros sid' G3' _ g'. assert (sid' = sid) by congruence. subst sid'.
      cbn [heldD]. right; right. destruct Rn2 as (A & B & C). use_same E3.
      split; [repeat split; congruence|]. right; left. exists h. split; [|unfold ph_early; rewrite Hh1; exact I].
      eexists _, tl. rewrite S2, Pl2, Tp. repeat split; assumption.
  - (* a message of the helper plan or of the pre-plan it delegates to *)
    destruct r0 as [[[s' c'] o]|[s' o]].
    + (* the command finished *)
      intros Hpl.
      assert (Hfirst : exists rest, o = OMsg m :: rest) by (repeat (bmh H); invc H; eexists; reflexivity).
      destruct Hfirst as [rest ->].
      assert (Hplain : plain_cmd (mcmd m) = true /\ (mid m = None \/ exists pid, hlast (gh g) = Some pid /\ 1000 <= pid)).
      { destruct HD as [(_ & ->)|[(_ & ->)|(p & pid & _ & _ & Hl & Hp)]]; [split; [reflexivity | left; reflexivity] ..|].
        split; [|right; eauto]. rewrite gobs_cons in Hpl. apply gpl_mono in Hpl. cbn [gpl g_item] in Hpl. rewrite Hl in Hpl.
        apply andb_true_iff in Hpl. destruct Hpl as [_ Hpl]. apply orb_true_iff in Hpl. destruct Hpl as [Hpl|Hpl]; [|exact Hpl].
        apply Nat.ltb_lt in Hpl. lia. }
      destruct Hplain as [Hplain Hmid].
      rewrite (plain_dispatch (mcmd m) _ _ Hplain) in H.
      destruct (exec_cmd dev s2 m) as [[s3 cr] o3] eqn:Ex.
      pose proof (exec_cmd_rpq _ _ _ _ _ _ _ _ Ex) as Hq.
      pose proof (RE_Inv.exec_cmd_same _ _ _ _ _ _ _ _ (plain_not_pause _ Hplain) Ex) as E3.
      destruct cr as [r|k]; [|discriminate H]. invc H.
      apply (HQ_msg _ _ _ _ _ _ _ HQ0 Hmid).
      { fa; try (eapply Forall_imp'; [exact rpq_hsafe | exact Hq]). destruct (mcmd m); fa; exact I. }
      intros sid' G3' _ g'. assert (sid' = hsid h) by congruence. subst sid'.
      cbn [heldD]. right; right. destruct Rn2 as (A & B & C). use_same E3.
      split; [repeat split; congruence|]. right; left. exists h. split; [exists m0, tl; rewrite S2, Pl2; auto|].
      unfold ph_early. destruct HD as [(-> & _)|[(_ & ->)|(p & pid & -> & Hn & _)]]; [exact I | | exact Hn].
      exfalso. unfold exec_cmd in Ex. cbn [mcmd mk] in Ex. discriminate Ex.
    + (* the command suspended the task *)
      intros Hpl.
      assert (Hfirst : exists rest, o = OMsg m :: rest) by (repeat (bmh H); invc H; eexists; reflexivity).
      destruct Hfirst as [rest ->].
      assert (Hplain : plain_cmd (mcmd m) = true /\ (mid m = None \/ exists pid, hlast (gh g) = Some pid /\ 1000 <= pid)).
      { destruct HD as [(_ & ->)|[(_ & ->)|(p & pid & _ & _ & Hl & Hp)]]; [split; [reflexivity | left; reflexivity] ..|].
        split; [|right; eauto]. rewrite gobs_cons in Hpl. apply gpl_mono in Hpl. cbn [gpl g_item] in Hpl. rewrite Hl in Hpl.
        apply andb_true_iff in Hpl. destruct Hpl as [_ Hpl]. apply orb_true_iff in Hpl. destruct Hpl as [Hpl|Hpl]; [|exact Hpl].
        apply Nat.ltb_lt in Hpl. lia. }
      destruct Hplain as [Hplain Hmid].
      rewrite (plain_dispatch (mcmd m) _ _ Hplain) in H.
      destruct (exec_cmd dev s2 m) as [[s3 cr] o3] eqn:Ex.
      pose proof (exec_cmd_rpq _ _ _ _ _ _ _ _ Ex) as Hq.
      pose proof (RE_Inv.exec_cmd_same _ _ _ _ _ _ _ _ (plain_not_pause _ Hplain) Ex) as E3.
      destruct cr as [r|k]; [discriminate H|]. invc H.
      pose proof (exec_cmd_susp_kind _ _ _ _ _ Ex) as Hk.
      apply (HA_msg _ _ _ _ _ _ HQ0 Hmid).
      { fa; try (eapply Forall_imp'; [exact rpq_hsafe | exact Hq]). exact I. }
      intros sid' G3' _. assert (sid' = hsid h) by congruence. subst sid'.
      unfold heldA. simp_st. right; right. destruct Rn2 as (A & B & C). use_same E3.
      split; [unfold running; simp_st; repeat split; congruence|]. exists h.
      split; [exists m0, tl; simp_st; rewrite S2, Pl2; auto|].
      destruct HD as [(Eph & ->)|[(Eph & ->)|(p & pid & Eph & Hn & _)]].
      * exfalso. cbn [mcmd mk] in Hk. destruct k; try discriminate Hk. destruct Hk as [? Hk]; discriminate Hk.
      * left. split; [exact Eph|]. cbn [mcmd mk] in Hk. destruct k; try discriminate Hk; [destruct Hk as [? Hk]; discriminate Hk|].
        invc Hk. reflexivity.
      * right. split; [unfold ph_early; rewrite Eph; exact Hn|]. intros Ek. invc Ek. rewrite Hk in Hplain. discriminate Hplain.
Qed.


(* ------------------------------------------------------------------ the whole loop *)
Lemma held_dstep_l g s c s' c' o :
  HQ g s c -> dstep s c = inl (s', c', o) -> gnb (gobs g o) = true -> gpl (gobs g o) = true -> HQ (gobs g o) s' c'.
Proof.
  intros HQ0 H Hnb Hpl. destruct c.
  - eapply held_top; eassumption.
  - eapply held_body; eassumption.
  - eapply held_aftersleep; eassumption.
  - exact (held_process_gen g s m _ HQ0 H Hpl).
  - eapply held_continue; eassumption.
  - eapply held_cancelled; eassumption.
  - eapply held_exit; eassumption.
  - cbn [RE_Small.dstep] in H. discriminate H.
Qed.

Lemma held_dstep_r g s c s' o :
  HQ g s c -> dstep s c = inr (s', o) -> gnb (gobs g o) = true -> gpl (gobs g o) = true -> HA (gobs g o) s'.
Proof.
  intros HQ0 H Hnb Hpl. destruct c.
  - eapply HA_idle; [exact HQ0 | eapply held_top_fin; eassumption].
  - eapply held_body_fin; eassumption.
  - exfalso. cbn [RE_Small.dstep] in H. repeat (bmh H); discriminate H.
  - exact (held_process_gen g s m _ HQ0 H Hpl).
  - cbn [RE_Small.dstep] in H. discriminate H.
  - exfalso. cbn [RE_Small.dstep] in H. repeat (bmh H); discriminate H.
  - eapply held_exit_fin; eassumption.
  - eapply held_finalize_fin; eassumption.
Qed.

Lemma gobs_nb_mono g a b : gnb (gobs g (a ++ b)) = true -> gnb (gobs g a) = true.
Proof. rewrite gobs_app. unfold gobs at 1. apply gnb_mono. Qed.
Lemma gobs_pl_mono g a b : gpl (gobs g (a ++ b)) = true -> gpl (gobs g a) = true.
Proof. rewrite gobs_app. unfold gobs at 1. apply gpl_mono. Qed.

Lemma held_drive g1 fuel s c os s' o :
  (gnb (gobs g1 os) = true -> gpl (gobs g1 os) = true -> HQ (gobs g1 os) s c) ->
  drive presume plan_of dev fuel s c os = (s', o) ->
  gnb (gobs g1 o) = true -> gpl (gobs g1 o) = true -> HA (gobs g1 o) s'.
Proof.
  refine (RE_Small.drive_inv P presume plan_of D dev
           (fun s c os => gnb (gobs g1 os) = true -> gpl (gobs g1 os) = true -> HQ (gobs g1 os) s c)
           (fun s' o => gnb (gobs g1 o) = true -> gpl (gobs g1 o) = true -> HA (gobs g1 o) s') _ _ _ fuel s c os s' o).
  - intros s0 c0 os0 s1 c1 o1 Q0 Hd Hnb Hpl. rewrite gobs_app in *.
    eapply held_dstep_l; [|exact Hd|exact Hnb|exact Hpl].
    apply Q0; [unfold gobs at 1 in Hnb; apply gnb_mono in Hnb; exact Hnb | unfold gobs at 1 in Hpl; apply gpl_mono in Hpl; exact Hpl].
  - intros s0 c0 os0 s1 o1 Q0 Hd Hnb Hpl. rewrite gobs_app in *.
    eapply held_dstep_r; [|exact Hd|exact Hnb|exact Hpl].
    apply Q0; [unfold gobs at 1 in Hnb; apply gnb_mono in Hnb; exact Hnb | unfold gobs at 1 in Hpl; apply gpl_mono in Hpl; exact Hpl].
  - intros s0 c0 os0 _ Hnb _. exfalso. rewrite gobs_app in Hnb. eapply gnb_bad; exact Hnb.
Qed.


(* ------------------------------------------------------------------ one step of the task *)
Lemma g_task g :
  hgood (gh (g_item g (TEv EvTask))) = hgood (gh g) /\ hactive (gh (g_item g (TEv EvTask))) = hactive (gh g) /\
  hreq (gh (g_item g (TEv EvTask))) = None.
Proof. cbn. auto. Qed.

Lemma HQ_from g1 sid o s1 c1 :
  hgood (gh g1) = true -> hreq (gh g1) = None -> hactive (gh g1) = [sid] -> Forall hsafe o ->
  (forall g', heldD sid g' s1 c1) -> HQ (gobs g1 o) s1 c1.
Proof.
  intros G1 G2 G3 F K. destruct (gobs_safe o g1 F) as (A & B & C & _). unfold HQ. rewrite A, C.
  split; [exact G1|]. split; [exact G2|]. destruct B as [B|B]; [right; exists sid; split; [congruence | apply K] | left; exact B].
Qed.
Lemma HA_from g1 sid o s1 :
  hgood (gh g1) = true -> hactive (gh g1) = [sid] -> Forall hsafe o -> heldA sid s1 -> HA (gobs g1 o) s1.
Proof.
  intros G1 G3 F K. destruct (gobs_safe o g1 F) as (A & B & C & _). unfold HA. rewrite A.
  split; [exact G1|]. destruct B as [B|B]; [right; exists sid; split; [congruence | exact K] | left; exact B].
Qed.

Lemma held_tentry g s r0 :
  HA g s -> (forall sid, hactive (gh g) = [sid] -> alookup sid (futs s) <> Some true) ->
  RE_Inv.tentry P presume D dev s = r0 ->
  match r0 with
  | inl (s1, c1, os1) => gnb (gobs (g_item g (TEv EvTask)) os1) = true -> HQ (gobs (g_item g (TEv EvTask)) os1) s1 c1
  | inr (s', o) => gnb (gobs (g_item g (TEv EvTask)) o) = true -> HA (gobs (g_item g (TEv EvTask)) o) s'
  end.
Proof.
  intros (G1 & G3) Hf H. destruct (g_task g) as (A1 & A2 & A3).
  set (g1 := g_item g (TEv EvTask)) in *. rewrite <- A1 in G1. rewrite <- A2 in G3.
  destruct G3 as [G3|(sid & G3 & HD)].
  { destruct r0 as [[[s1 c1] os1]|[s' o]]; intros _.
    - destruct (gobs_idle os1 g1 G3 A3) as (B1 & B2 & B3). unfold HQ. rewrite B1, B2, B3. auto.
    - destruct (gobs_idle o g1 G3 A3) as (B1 & B2 & B3). unfold HA. rewrite B1, B3. auto. }
  specialize (Hf sid). rewrite <- A2 in Hf. specialize (Hf G3). clearbody g1. clear A1 A2.
  unfold heldA in HD. unfold RE_Inv.tentry in H. cbv zeta in H.
  destruct (pc s) eqn:Epc.
  - (* no task *) subst r0. intros Hnb. exfalso. eapply gnb_bad; exact Hnb.
  - (* not started: cancelled *) rewrite HD in H. subst r0. intros _.
    apply (HA_from g1 sid _ _ G1 G3); [repeat constructor|]. unfold heldA. simp_st. exact I.
  - rewrite HD in H. subst r0. intros _.
    apply (HA_from g1 sid _ _ G1 G3); [repeat constructor|]. unfold heldA. simp_st. exact I.
  - (* asleep *)
    destruct HD as [(S1 & S2 & S3)|[((R1 & R2 & R3) & _ & T)|((R1 & R2 & R3) & h & TB & T)]].
    + rewrite S2 in H. subst r0. intros _. apply (HQ_from g1 sid _ _ _ G1 A3 G3); [constructor|]. intros g'. cbn [heldD]. left.
      simp_st. repeat split; auto.
    + rewrite R2 in H. subst r0. intros _. apply (HQ_from g1 sid _ _ _ G1 A3 G3); [constructor|]. intros g'. cbn [heldD]. right; right.
      split; [repeat split; simp_st; auto|]. destruct T as [T|(m & tl & e & rs & T1 & T2)]; [left; exact T|].
      right; right. exists m, tl. split; [exact T1|]. exists e, rs. exact T2.
    + rewrite R2 in H. subst r0. intros _. apply (HQ_from g1 sid _ _ _ G1 A3 G3); [constructor|]. intros g'. cbn [heldD]. right; right.
      split; [repeat split; simp_st; auto|]. right; left. exists h. split; [exact TB|].
      destruct T as [(_ & T)|(T & _)]; [discriminate T | exact T].
  - (* paused: cancelled *) rewrite HD in H. subst r0. intros _. apply (HQ_from g1 sid _ _ _ G1 A3 G3); [constructor|]. intros; exact I.
  - (* inside a command *)
    destruct HD as [(S1 & S2 & S3)|[(_ & T & _)|((R1 & R2 & R3) & h & TB & T)]]; [| discriminate T |].
    + rewrite S2 in H. subst r0. intros _. apply (HQ_from g1 sid _ _ _ G1 A3 G3); [constructor|]. intros g'. cbn [heldD]. left.
      simp_st. repeat split; auto.
    + rewrite R2 in H.
      assert (Rn : running (set_must_cancel s false)) by (repeat split; simp_st; auto).
      assert (Kc : forall (s1 : st) r, RE_Inv.samec P D (set_must_cancel s false) s1 -> ph_early h ->
                                      forall g', heldD sid g' s1 (CContinue true r)).
      { intros s1 r [E _] He g'. cbn [heldD]. right; right. destruct Rn as (X1 & X2 & X3). unfold RE_Inv.same in E. simp_st.
        destruct E as (E1 & E2 & E3 & _ & _ & E6 & E7 & E8 & _).
        split; [repeat split; congruence|]. right; left. exists h. split; [|exact He].
        destruct TB as (m & tl & TB1 & TB2 & TB3). exists m, tl. repeat split; congruence. }
      destruct k as [| |sids|fs|rn dd z].
      * (* sleep *) subst r0. intros _. destruct T as [(_ & T)|(T & _)]; [discriminate T|].
        apply (HQ_from g1 sid _ _ _ G1 A3 G3); [repeat constructor|]. apply Kc; [apply RE_Inv.samec_refl | exact T].
      * (* grace sleep of a checkpoint: not while a suspension is held *)
        exfalso. destruct T as [(_ & T)|(_ & T)]; [discriminate T | apply T; reflexivity].
      * subst r0. intros _. destruct T as [(_ & T)|(T & _)]; [discriminate T|].
        apply (HQ_from g1 sid _ _ _ G1 A3 G3); [|apply Kc; [apply RE_Inv.samec_refl | exact T]].
        destruct (all_resolved (set_must_cancel s false) sids); repeat constructor.
      * (* wait_for: the helper's own wait cannot complete before the release *)
        subst r0. intros Hnb. destruct T as [(T1 & T2)|(T & _)].
        -- exfalso. invc T2. unfold all_released in Hnb. cbn [forallb] in Hnb. simp_st.
           destruct (alookup sid (futs s)) as [[|]|] eqn:El; [contradiction (Hf eq_refl) | |]; cbn [andb app] in Hnb; eapply gnb_bad; exact Hnb.
        -- apply (HQ_from g1 sid _ _ _ G1 A3 G3); [|apply Kc; [apply RE_Inv.samec_refl | exact T]].
           destruct (all_released (set_must_cancel s false) fs); repeat constructor.
      * (* the caches of a bundled read *)
        destruct T as [(_ & T)|(T & _)]; [discriminate T|].
        pose proof (RE_Inv.mark_cached_same P D (set_must_cancel s false) rn dd) as Em.
        destruct (finish_read (mark_cached (set_must_cancel s false) rn dd) rn dd z []) as [[s1 cr] o] eqn:Efr.
        pose proof (finish_read_obs _ _ _ _ _ _ _ _ _ _ Efr) as ->. apply RE_Inv.finish_read_same in Efr.
        subst r0. intros _. apply (HQ_from g1 sid _ _ _ G1 A3 G3); [repeat constructor|].
        apply Kc; [eapply RE_Inv.samec_trans; eassumption | exact T].
  - (* final sleep: the finally block *)
    destruct (must_cancel s); subst r0;
      match goal with |- context [finalize presume dev ?a ?b ?c] => destruct (finalize presume dev a b c) as [s' o] eqn:Ef end;
      intros _;
      (apply (HA_from g1 sid _ _ G1 G3);
       [eapply Forall_imp'; [exact finq_hsafe | eapply finalize_finq; exact Ef]
       | destruct (finalize_pc _ _ _ _ _ _ _ _ _ Ef) as [r' K]; unfold heldA; rewrite K; exact I]).
  - subst r0. intros Hnb. exfalso. eapply gnb_bad; exact Hnb.
Qed.

Lemma held_task g s s' o :
  HA g s -> (forall sid, hactive (gh g) = [sid] -> alookup sid (futs s) <> Some true) ->
  task_step presume plan_of dev s = (s', o) ->
  gnb (gobs (g_item g (TEv EvTask)) o) = true -> gpl (gobs (g_item g (TEv EvTask)) o) = true ->
  HA (gobs (g_item g (TEv EvTask)) o) s'.
Proof.
  intros HA0 Hf H Hnb Hpl. rewrite RE_Inv.task_step_tentry in H.
  pose proof (held_tentry g s _ HA0 Hf eq_refl) as K.
  destruct (RE_Inv.tentry P presume D dev s) as [[[s1 c1] os1]|[s2 o2]].
  - eapply held_drive; [|exact H|exact Hnb|exact Hpl]. intros Hnb1 _. apply K. exact Hnb1.
  - invc H. apply K. exact Hnb.
Qed.


(* ------------------------------------------------------------------ the other events *)
Definition nextfuts (e : event) (f : list (nat * bool)) : list (nat * bool) :=
  match e with
  | EvRelease sid => aset sid true f
  | EvReqSuspend sid _ _ => if amem sid f then f else aset sid false f
  | _ => f
  end.

Lemma req_result_futs (s : st) e s' o : req_result s e = (s', o) -> futs s' = futs s.
Proof. unfold req_result. intros H; invc H. destruct (mreq s); reflexivity. Qed.

Lemma aux_futs (s s' : st) : aux P D s' = aux P D s -> futs s' = futs s.
Proof. unfold aux. intros H; invc H. reflexivity. Qed.

Lemma step_futs (s : st) e s' o :
  e <> EvTask -> step presume plan_of dev s e = (s', o) -> futs s' = nextfuts e (futs s).
Proof.
  intros Hne H. destruct e as [a|a| | |defer|rs| | |sid pre post|sid|sid ok| |]; try (exfalso; apply Hne; reflexivity);
    cbn [step nextfuts] in *.
  - (* EvMain *)
    destruct a.
    + destruct (negb (rstate_eqb (state s) Idle)); invc H; reflexivity.
    + destruct (negb (rstate_eqb (state s) Paused)); [invc H; reflexivity|].
      match type of H with context [record_interruptions ?x] => destruct (record_interruptions x) as [[s2 o2] ok] eqn:E2 end.
      apply record_interruptions_aux, aux_futs in E2. simp_st.
      destruct ok; cbn [negb] in H; [|invc H; exact E2].
      destruct (cache s2); [|invc H; exact E2].
      destruct (rewind s2) as [s3 l0] eqn:E3. apply rewind_aux, aux_futs in E3.
      match type of H with context [call_pausables dev ?x MResume] => destruct (call_pausables dev x MResume) as [[s5 e5] o5] eqn:E5 end.
      apply call_pausables_aux, aux_futs in E5. simp_st. destruct e5; invc H; simp_st; congruence.
    + invc H; reflexivity.
    + invc H; reflexivity.
    + invc H; reflexivity.
  - invc H; reflexivity.
  - invc H; reflexivity.
  - destruct (request_pause s defer) as [[s1 e1] o1] eqn:E1. apply request_pause_aux, aux_futs in E1.
    destruct (req_result s1 e1) as [s2 o2] eqn:E2. apply req_result_futs in E2. invc H. congruence.
  - unfold set_state in H. repeat (bmh H); invc H;
      repeat match goal with
             | Hx : req_result _ _ = _ |- _ => apply req_result_futs in Hx
             | Hx : (if ?c then _ else _) = Some _ |- _ => destruct c; invc Hx
             end; rewrite ?(aux_futs _ _ (cancel_task_aux _ _ _)) in *; simp_st; try congruence;
      repeat match goal with Hx : futs _ = futs _ |- _ => rewrite Hx; clear Hx end;
      repeat bmg; rewrite ?(aux_futs _ _ (cancel_task_aux _ _ _)); simp_st; try reflexivity; try congruence.
  - unfold set_state in H. repeat (bmh H); invc H;
      repeat match goal with
             | Hx : req_result _ _ = _ |- _ => apply req_result_futs in Hx
             | Hx : (if ?c then _ else _) = Some _ |- _ => destruct c; invc Hx
             end; rewrite ?(aux_futs _ _ (cancel_task_aux _ _ _)) in *; simp_st; try congruence;
      repeat match goal with Hx : futs _ = futs _ |- _ => rewrite Hx; clear Hx end;
      repeat bmg; rewrite ?(aux_futs _ _ (cancel_task_aux _ _ _)); simp_st; try reflexivity; try congruence.
  - unfold set_state in H. repeat (bmh H); invc H;
      repeat match goal with
             | Hx : req_result _ _ = _ |- _ => apply req_result_futs in Hx
             | Hx : (if ?c then _ else _) = Some _ |- _ => destruct c; invc Hx
             end; rewrite ?(aux_futs _ _ (cancel_task_aux _ _ _)) in *; simp_st; try congruence;
      repeat match goal with Hx : futs _ = futs _ |- _ => rewrite Hx; clear Hx end;
      repeat bmg; rewrite ?(aux_futs _ _ (cancel_task_aux _ _ _)); simp_st; try reflexivity; try congruence.
  - (* EvReqSuspend *)
    cbv zeta in H.
    set (s0 := set_futs s (if amem sid (futs s) then futs s else aset sid false (futs s))) in *.
    match type of H with
    | context [match ?x with _ => _ end] =>
        match x with context [resumable] => destruct x as [[s3 e3] o3] eqn:E1 end
    end.
    assert (K3 : futs s3 = futs s0).
    { destruct (negb (resumable s0)); [|invc E1; reflexivity].
      unfold set_state in E1. destruct (allowed _ Aborting); [|invc E1; reflexivity].
      destruct (rstate_eqb _ Paused); invc E1; rewrite ?(aux_futs _ _ (cancel_task_aux _ _ _)); reflexivity. }
    assert (K0 : futs s0 = if amem sid (futs s) then futs s else aset sid false (futs s)) by reflexivity.
    clearbody s0.
    destruct e3.
    + destruct (req_result s3 (Some e)) as [s4 o4] eqn:E4. apply req_result_futs in E4. invc H. congruence.
    + destruct (rstate_eqb (state s3) Paused).
      * match type of H with context [req_result ?sx None] => destruct (req_result sx None) as [s5 o5] eqn:E5 end.
        apply req_result_futs in E5. invc H. simp_st. congruence.
      * unfold set_state in H. destruct (allowed (state s3) Suspending).
        -- match type of H with context [req_result ?sx None] => destruct (req_result sx None) as [s6 o6] eqn:E6 end.
           apply req_result_futs in E6. invc H. rewrite (aux_futs _ _ (cancel_task_aux _ _ _)) in E6. simp_st. congruence.
        -- destruct (req_result s3 (Some ETransition)) as [s5 o5] eqn:E5. apply req_result_futs in E5. invc H. congruence.
  - invc H; reflexivity.
  - destruct (negb ok && negb (pardon (set_statuses s (aset sid (Some ok) (statuses s))))); invc H; reflexivity.
  - invc H; reflexivity.
  - invc H. repeat bmg; try reflexivity. apply aux_futs, mark_cached_aux.
Qed.


Lemma gobs_active_mono o : forall g, hreq (gh g) = None ->
  (hactive (gh (gobs g o)) = hactive (gh g) \/ hactive (gh (gobs g o)) = []) /\ hreq (gh (gobs g o)) = None.
Proof.
  induction o as [|x o IH]; intros g Hr.
  - rewrite gobs_nil. auto.
  - rewrite gobs_cons.
    assert (K : (hactive (gh (g_item g (TObs x))) = hactive (gh g) \/ hactive (gh (g_item g (TObs x))) = []) /\
                hreq (gh (g_item g (TObs x))) = None).
    { destruct x; cbn; rewrite ?Hr; auto.
      - destruct a, b; cbn; rewrite ?Hr; auto.
      - destruct i; cbn; auto. }
    destruct K as [K1 K2]. destruct (IH _ K2) as [A B]. split; [|exact B].
    destruct A as [A|A]; [|right; exact A]. destruct K1 as [K1|K1]; [left | right]; congruence.
Qed.

Definition quiet_ev (e : event) : bool :=
  match e with
  | EvMain (ACall _) => false
  | EvMain _ | EvMainDone _ | EvPermit | EvResumeTask | EvStatus _ _ | EvCacheDone | EvReqPause true => true
  | _ => false
  end.

Lemma step_quiet (s : st) e s' o :
  quiet_ev e = true -> step presume plan_of dev s e = (s', o) ->
  Forall hsafe o /\ pc s' = pc s /\ must_cancel s' = must_cancel s /\
  (state s <> Paused -> state s' = state s /\ stashed s' = stashed s /\ plans s' = plans s /\ resps s' = resps s).
Proof.
  intros Hq H. destruct e as [a|a| | |defer|rs| | |sid pre post|sid|sid ok| |]; try discriminate Hq; cbn [step] in H.
  - destruct a; try discriminate Hq.
    + (* resume() *)
      destruct (rstate_eqb (state s) Paused) eqn:Ep; cbn [negb] in H.
      2:{ invc H. repeat split; try reflexivity. constructor. }
      apply RE_Inv.rstate_eqb_eq in Ep.
      match type of H with context [record_interruptions ?x] => destruct (record_interruptions x) as [[s2 o2] ok] eqn:E2 end.
      pose proof (record_interruptions_dq _ _ _ _ _ _ E2) as Q2. apply RE_Inv.record_interruptions_same in E2. destruct E2 as [E2 _].
      assert (B2 : pc s2 = pc s /\ must_cancel s2 = must_cancel s).
      { unfold RE_Inv.same in E2. simp_st. destruct E2 as (_ & X2 & X3 & _). auto. }
      destruct B2 as [B2 B3].
      assert (Fin : forall x : st, pc x = pc s2 -> must_cancel x = must_cancel s2 -> forall ox, Forall dq ox ->
                 Forall hsafe ox /\ pc x = pc s /\ must_cancel x = must_cancel s /\
                 (state s <> Paused -> state x = state s /\ stashed x = stashed s /\ plans x = plans s /\ resps x = resps s)).
      { intros x X1 X2 ox Qx. split; [eapply Forall_imp'; [exact dq_hsafe | exact Qx]|]. repeat split; try congruence; contradiction. }
      destruct ok; cbn [negb] in H; [|invc H; apply Fin; simp_st; auto].
      destruct (cache s2); [|invc H; apply Fin; simp_st; auto].
      destruct (rewind s2) as [s3 l0] eqn:E3. apply RE_Inv.rewind_same in E3. destruct E3 as [E3 _].
      match type of H with context [call_pausables dev ?x MResume] => destruct (call_pausables dev x MResume) as [[s5 e5] o5] eqn:E5 end.
      pose proof (call_pausables_dq _ _ _ _ _ _ _ _ E5) as Q5. apply RE_Inv.call_pausables_same in E5. destruct E5 as [[[E5 _] _] _].
      unfold RE_Inv.same in E3, E5. simp_st.
      destruct E3 as (_ & Y2 & Y3 & _). destruct E5 as (_ & Z2 & Z3 & _).
      destruct e5; invc H; apply Fin; simp_st; try congruence; apply Forall_app; split; assumption.
    + invc H. repeat split; try reflexivity. constructor.
    + invc H. repeat split; try reflexivity. constructor.
    + invc H. repeat split; try reflexivity. constructor.
  - invc H. repeat split; try reflexivity. repeat constructor.
  - invc H. repeat split; try reflexivity. constructor.
  - destruct defer; [|discriminate Hq]. unfold request_pause in H.
    destruct (negb (allowed (state s) Pausing)); unfold req_result in H; invc H;
      (split; [repeat constructor|]); destruct (mreq _); simp_st; repeat split; reflexivity.
  - destruct (negb ok && negb (pardon (set_statuses s (aset sid (Some ok) (statuses s))))); invc H;
      repeat split; try reflexivity; constructor.
  - invc H. repeat split; try reflexivity. constructor.
  - invc H. split; [constructor|].
    destruct (pc s) as [| | | | |k|r|r] eqn:Epc; try (repeat split; first [reflexivity | assumption]).
    destruct k as [| | | |rn dd z]; try (repeat split; first [reflexivity | assumption]).
    pose proof (RE_Inv.mark_cached_same P D s rn dd) as [E _]. unfold RE_Inv.same in E.
    destruct E as (X1 & X2 & X3 & _ & _ & X6 & X7 & X8 & _). repeat split; congruence.
Qed.

Lemma heldA_quiet sid (s s' : st) :
  heldA sid s -> pc s' = pc s -> must_cancel s' = must_cancel s ->
  (state s <> Paused -> state s' = state s /\ stashed s' = stashed s /\ plans s' = plans s /\ resps s' = resps s) ->
  heldA sid s'.
Proof.
  intros HD E1 E2 K. unfold heldA in *. rewrite E1. destruct (pc s) eqn:Epc; try exact I; try congruence.
  all: assert (Hn : state s <> Paused)
         by (destruct HD as [(X & _)|[((X & _) & _)|((X & _) & _)]]; rewrite X; discriminate).
  all: destruct (K Hn) as (K1 & K2 & K3 & K4); unfold running, topA, topB in *; rewrite ?K1, ?K2, ?K3, ?K4, ?E1, ?E2; exact HD.
Qed.

Lemma suspend_step_cases (s : st) sid pre post s' o :
  step presume plan_of dev s (EvReqSuspend sid pre post) = (s', o) ->
  (o = [OState Running Suspending; OReq true] /\ state s' = Suspending /\ pc s' = pc s /\
   must_cancel s' = (match pc s with PcNone | PcDone _ => must_cancel s | _ => true end) /\
   plans s' = FSingle (mk (CStartSuspender sid pre post)) false :: plans s)
  \/ Forall hsafe o.
Proof.
  intros H. cbn [step] in H. cbv zeta in H.
  set (s0 := set_futs s (if amem sid (futs s) then futs s else aset sid false (futs s))) in *.
  assert (K0 : state s0 = state s /\ pc s0 = pc s /\ must_cancel s0 = must_cancel s /\ plans s0 = plans s) by (repeat split; reflexivity).
  clearbody s0. destruct K0 as (K1 & K2 & K3 & K4).
  assert (Hreq : forall (x : st) e y oo, req_result x e = (y, oo) ->
            oo = [OReq (match e with Some _ => false | None => true end)] /\ state y = state x /\ pc y = pc x /\
            must_cancel y = must_cancel x /\ plans y = plans x).
  { intros x e y oo Hx. unfold req_result in Hx. invc Hx. destruct (mreq x); repeat split; reflexivity. }
  destruct (negb (resumable s0)).
  - (* no checkpoint: aborting, then the frame is refused *)
    right. set (s1 := set_exc_slot (interrupt s0 CzFailedPause) (Some EFailedPause)) in *. clearbody s1.
    destruct (set_state s1 Aborting) as [[s2 o2]|] eqn:Ea.
    + unfold set_state in Ea. destruct (allowed (state s1) Aborting); [|discriminate Ea]. invc Ea.
      set (s3 := if rstate_eqb (state s1) Paused then set_state_raw s1 Aborting else cancel_task (set_state_raw s1 Aborting)) in *.
      assert (Hs3 : state s3 = Aborting).
      { subst s3. destruct (rstate_eqb (state s1) Paused); [reflexivity|].
        destruct (RE_Inv.cancel_task_spec P D (set_state_raw s1 Aborting)) as (C1 & _). rewrite C1. reflexivity. }
      clearbody s3. cbv iota beta in H. rewrite Hs3 in H. change (rstate_eqb Aborting Paused) with false in H. cbv iota in H.
      unfold set_state in H. rewrite Hs3 in H. destruct (allowed Aborting Suspending).
      * match type of H with context [req_result ?sx None] => destruct (req_result sx None) as [s6 o6] eqn:E6 end.
        apply Hreq in E6. destruct E6 as (-> & _). invc H. fa; try exact I. destruct (state s1); exact I.
      * destruct (req_result s3 (Some ETransition)) as [s5 o5] eqn:E5. apply Hreq in E5. destruct E5 as (-> & _). invc H.
        fa; try exact I. destruct (state s1); exact I.
    + cbv iota beta in H. destruct (req_result s1 (Some ETransition)) as [s5 o5] eqn:E5. apply Hreq in E5. destruct E5 as (-> & _).
      invc H. repeat constructor.
  - cbv iota beta in H. destruct (rstate_eqb (state s0) Paused).
    + right. match type of H with context [req_result ?sx None] => destruct (req_result sx None) as [s5 o5] eqn:E5 end.
      apply Hreq in E5. destruct E5 as (-> & _). invc H. repeat constructor.
    + unfold set_state in H. destruct (allowed (state s0) Suspending).
      * match type of H with context [req_result ?sx None] => destruct (req_result sx None) as [s6 o6] eqn:E6 end.
        apply Hreq in E6. destruct E6 as (-> & E6a & E6b & E6c & E6d). invc H.
        destruct (RE_Inv.cancel_task_spec P D (push_frame (set_state_raw s0 Suspending) (FSingle (mk (CStartSuspender sid pre post)) false)))
          as (C1 & C2 & C3 & _ & _ & C6 & _).
        simp_st. destruct (state s0) eqn:Es0; try solve [right; repeat constructor].
        left. split; [reflexivity|]. rewrite E6a, E6b, E6c, E6d, C1, C2, C3, C6. simp_st. rewrite K2, K3, K4. repeat split; reflexivity.
      * right. destruct (req_result s0 (Some ETransition)) as [s5 o5] eqn:E5. apply Hreq in E5. destruct E5 as (-> & _). invc H. repeat constructor.
Qed.


(* ------------------------------------------------------------------ the invariant over whole schedules *)
Definition sched_inv (g : gm) (A Rel : list nat) (s : st) : Prop :=
  (forall x, In x (hactive (gh g)) -> In x A) /\ List.length A <= 1 /\
  (forall x, In x A -> ~ In x Rel) /\ (forall x, alookup x (futs s) = Some true -> In x Rel).
Definition INV (g : gm) (A Rel : list nat) (s : st) : Prop := HA g s /\ sched_inv g A Rel s.

Definition nextA (A : list nat) (e : event) : list nat :=
  match e with EvReqSuspend sid _ _ => sid :: A | EvRelease sid => remove_nat sid A | _ => A end.
Definition nextRel (Rel : list nat) (e : event) : list nat :=
  match e with EvRelease sid => sid :: Rel | _ => Rel end.
Definition ev_ok (A Rel : list nat) (e : event) : bool :=
  match e with
  | EvReqSuspend sid _ _ => is_nil A && negb (mem_nat sid Rel)
  | EvReqPause false => is_nil A
  | EvMain (ACall _) => is_nil A
  | _ => true
  end.

Lemma In_remove_nat x y l : In x (remove_nat y l) <-> In x l /\ x <> y.
Proof.
  unfold remove_nat. rewrite filter_In. split; intros [H1 H2]; (split; [exact H1|]).
  - intros E. subst. rewrite Nat.eqb_refl in H2. discriminate H2.
  - apply negb_true_iff. apply Nat.eqb_neq. intros E. apply H2. symmetry; exact E.
Qed.
Lemma remove_nat_length y l : List.length (remove_nat y l) <= List.length l.
Proof. unfold remove_nat. induction l as [|z l IH]; cbn; [lia|]. destruct (negb (Nat.eqb y z)); cbn; lia. Qed.
Lemma mem_nat_false x l : mem_nat x l = false -> ~ In x l.
Proof.
  unfold mem_nat. intros H Hin. assert (K : existsb (Nat.eqb x) l = true) by (apply existsb_exists; exists x; split; [exact Hin | apply Nat.eqb_refl]).
  congruence.
Qed.
Lemma is_nil_true {X} (l : list X) : is_nil l = true -> l = [].
Proof. destruct l; [reflexivity | discriminate]. Qed.

Lemma futs_inv_next e f Rel :
  (forall x, alookup x f = Some true -> In x Rel) ->
  forall x, alookup x (nextfuts e f) = Some true -> In x (nextRel Rel e).
Proof.
  intros K x. destruct e; cbn [nextfuts nextRel]; try apply K.
  - destruct (amem sid f); [apply K|]. rewrite alookup_aset. destruct (Nat.eqb x sid); [discriminate | apply K].
  - rewrite alookup_aset. destruct (Nat.eqb x sid) eqn:E; [apply Nat.eqb_eq in E; subst; left; reflexivity | intros H; right; apply K; exact H].
Qed.

Lemma INV_idle g1 o A' Rel' s' :
  hgood (gh g1) = true -> hactive (gh g1) = [] -> hreq (gh g1) = None ->
  List.length A' <= 1 -> (forall x, In x A' -> ~ In x Rel') -> (forall x, alookup x (futs s') = Some true -> In x Rel') ->
  INV (gobs g1 o) A' Rel' s'.
Proof.
  intros G1 G3 G2 I2 I3 I4. destruct (gobs_idle o g1 G3 G2) as (B1 & B2 & B3).
  split; [unfold HA; rewrite B1, B3; auto|]. unfold sched_inv. rewrite B1. repeat split; auto. intros x [].
Qed.

Theorem step_INV g A Rel (s : st) e s' o :
  INV g A Rel s -> ev_ok A Rel e = true -> step presume plan_of dev s e = (s', o) ->
  gnb (gobs (g_item g (TEv e)) o) = true -> gpl (gobs (g_item g (TEv e)) o) = true ->
  INV (gobs (g_item g (TEv e)) o) (nextA A e) (nextRel Rel e) s'.
Proof.
  intros [HA0 (I1 & I2 & I3 & I4)] Hok H Hnb Hpl.
  assert (Hidle : A = [] -> hactive (gh g) = []).
  { intros ->. destruct (hactive (gh g)) as [|x l] eqn:E; [reflexivity|]. exfalso. apply (I1 x). left; reflexivity. }
  assert (I4' : e <> EvTask -> forall x, alookup x (futs s') = Some true -> In x (nextRel Rel e)).
  { intros Hne. rewrite (step_futs _ _ _ _ Hne H). apply futs_inv_next. exact I4. }
  destruct HA0 as [G1 G3].
  assert (Hq : quiet_ev e = true -> INV (gobs (g_item g (TEv e)) o) (nextA A e) (nextRel Rel e) s').
  { intros Hqe. destruct (step_quiet _ _ _ _ Hqe H) as (F & Q1 & Q2 & Q3).
    assert (Hne : e <> EvTask) by (intros ->; discriminate Hqe).
    assert (T : hgood (gh (g_item g (TEv e))) = hgood (gh g) /\ hactive (gh (g_item g (TEv e))) = hactive (gh g) /\
                nextA A e = A /\ nextRel Rel e = Rel).
    { destruct e as [a|a| | |defer|rs| | |sid pre post|sid|sid ok| |]; try discriminate Hqe; cbn; auto. }
    destruct T as (T1 & T2 & -> & T4). specialize (I4' Hne). rewrite T4 in *.
    destruct (gobs_safe o (g_item g (TEv e)) F) as (B1 & B2 & _).
    split.
    - unfold HA. rewrite B1, T1. split; [exact G1|]. rewrite T2 in B2.
      destruct G3 as [G3|(sid & G3 & HD)].
      + left. destruct B2 as [B2|B2]; congruence.
      + destruct B2 as [B2|B2]; [|left; exact B2]. right. exists sid. split; [congruence|].
        eapply heldA_quiet; eassumption.
    - unfold sched_inv. repeat split; auto. intros x Hx. apply I1. rewrite T2 in B2. destruct B2 as [B2|B2]; rewrite B2 in Hx; [exact Hx | destruct Hx]. }
  destruct e as [a|a| | |defer|rs| | |sid pre post|sid|sid ok| |]; try (apply Hq; reflexivity).
  - (* main thread *)
    destruct a; try (apply Hq; reflexivity).
    cbn [ev_ok] in Hok. apply is_nil_true in Hok. apply INV_idle; cbn; auto; try (apply Hidle; exact Hok).
    apply I4'. discriminate.
  - (* the task *)
    assert (Hf : forall sid, hactive (gh g) = [sid] -> alookup sid (futs s) <> Some true).
    { intros sid E Hx. apply (I3 sid); [apply I1; rewrite E; left; reflexivity | apply I4; exact Hx]. }
    cbn [step] in H. pose proof (held_task g s s' o (conj G1 G3) Hf H Hnb Hpl) as HA'.
    split; [exact HA'|]. cbn [nextA nextRel]. unfold sched_inv. repeat split; auto.
    + intros x Hx. apply I1. destruct (g_task g) as (_ & T2 & T3).
      destruct (gobs_active_mono o (g_item g (TEv EvTask)) T3) as [[B|B] _]; rewrite B in Hx; [rewrite T2 in Hx; exact Hx | destruct Hx].
    + rewrite (aux_futs _ _ (task_step_aux _ _ _ _ _ _ _ _ H)). exact I4.
  - (* pause request *)
    destruct defer; [apply Hq; reflexivity|].
    cbn [ev_ok] in Hok. apply is_nil_true in Hok. apply INV_idle; cbn; auto; try (apply Hidle; exact Hok).
    apply I4'. discriminate.
  - apply INV_idle; cbn; auto. apply I4'. discriminate.
  - apply INV_idle; cbn; auto. apply I4'. discriminate.
  - apply INV_idle; cbn; auto. apply I4'. discriminate.
  - (* suspension request *)
    cbn [ev_ok] in Hok. apply andb_true_iff in Hok. destruct Hok as [Hok1 Hok2]. apply is_nil_true in Hok1. subst A.
    apply negb_true_iff, mem_nat_false in Hok2. pose proof (Hidle eq_refl) as Ha.
    assert (I4'' : forall x, alookup x (futs s') = Some true -> In x Rel) by (apply I4'; discriminate).
    cbn [nextA nextRel].
    assert (S2 : List.length [sid] <= 1) by (cbn; lia).
    assert (S3 : forall x, In x [sid] -> ~ In x Rel) by (intros x [<-|[]]; exact Hok2).
    destruct (suspend_step_cases _ _ _ _ _ _ H) as [(-> & E1 & E2 & E3 & E4)|F].
    + (* accepted *)
      assert (K : hgood (gh (gobs (g_item g (TEv (EvReqSuspend sid pre post))) [OState Running Suspending; OReq true])) = hgood (gh g) /\
                  hactive (gh (gobs (g_item g (TEv (EvReqSuspend sid pre post))) [OState Running Suspending; OReq true])) = [sid]).
      { cbn. rewrite Ha. auto. }
      destruct K as [K1 K2]. split.
      * unfold HA. rewrite K1, K2. split; [exact G1|]. right. exists sid. split; [reflexivity|].
        unfold heldA. rewrite E2. destruct (pc s) eqn:Epc; try exact I; try exact E3.
        all: left; repeat split; try assumption; eexists _, _, _; exact E4.
      * unfold sched_inv. rewrite K2. repeat split; auto.
    + (* not accepted *)
      assert (T : hgood (gh (g_item g (TEv (EvReqSuspend sid pre post)))) = hgood (gh g) /\
                  hactive (gh (g_item g (TEv (EvReqSuspend sid pre post)))) = hactive (gh g)) by (cbn; auto).
      destruct T as [T1 T2]. destruct (gobs_safe o (g_item g (TEv (EvReqSuspend sid pre post))) F) as (B1 & B2 & _). rewrite T2, Ha in B2.
      assert (B : hactive (gh (gobs (g_item g (TEv (EvReqSuspend sid pre post))) o)) = []) by (destruct B2; assumption).
      split; [unfold HA; rewrite B1, T1, B; auto|]. unfold sched_inv. rewrite B. repeat split; auto. intros x [].
  - (* release *)
    cbn [step] in H. invc H. rewrite gobs_nil. cbn [nextA nextRel].
    assert (T : hgood (gh (g_item g (TEv (EvRelease sid)))) = hgood (gh g) /\
                hactive (gh (g_item g (TEv (EvRelease sid)))) = remove_nat sid (hactive (gh g))) by (cbn; auto).
    destruct T as [T1 T2]. split.
    + unfold HA. rewrite T1, T2. split; [exact G1|]. destruct G3 as [G3|(x & G3 & HD)]; [left; rewrite G3; reflexivity|].
      rewrite G3. cbn. destruct (Nat.eqb sid x); cbn; [left; reflexivity|]. right. exists x. split; [reflexivity|]. exact HD.
    + unfold sched_inv. rewrite T2. repeat split.
      * intros x Hx. apply In_remove_nat in Hx. apply In_remove_nat. split; [apply I1|]; tauto.
      * pose proof (remove_nat_length sid A). lia.
      * intros x Hx [Hr|Hr]; apply In_remove_nat in Hx; [subst; tauto | apply (I3 x); tauto].
      * apply (I4' ltac:(discriminate)).
Qed.


Lemma sched_split A Rel e evs :
  overlap_from A (e :: evs) = false -> pause_inside_from A (e :: evs) = false ->
  call_inside_from A (e :: evs) = false -> stale_from Rel (e :: evs) = false ->
  ev_ok A Rel e = true /\ overlap_from (nextA A e) evs = false /\ pause_inside_from (nextA A e) evs = false /\
  call_inside_from (nextA A e) evs = false /\ stale_from (nextRel Rel e) evs = false.
Proof.
  destruct e as [a|a| | |defer|rs| | |sid pre post|sid|sid ok| |]; try destruct a; try destruct defer;
    cbn [overlap_from pause_inside_from call_inside_from stale_from ev_ok nextA nextRel];
    intros H1 H2 H3 H4;
    repeat match goal with Hx : _ || _ = false |- _ => apply orb_false_iff in Hx; destruct Hx end;
    repeat match goal with Hx : negb _ = false |- _ => apply negb_false_iff in Hx end;
    repeat split; auto.
  apply andb_true_iff. split; [assumption | apply negb_true_iff; assumption].
Qed.

Lemma run_INV evs : forall g A Rel (s : st),
  INV g A Rel s ->
  overlap_from A evs = false -> pause_inside_from A evs = false -> call_inside_from A evs = false -> stale_from Rel evs = false ->
  gnb (g_run g (trace P presume plan_of D dev s evs)) = true -> gpl (g_run g (trace P presume plan_of D dev s evs)) = true ->
  hgood (gh (g_run g (trace P presume plan_of D dev s evs))) = true.
Proof.
  induction evs as [|e evs IH]; intros g A Rel s HI H1 H2 H3 H4 Hnb Hpl.
  - cbn. apply HI.
  - destruct (sched_split _ _ _ _ H1 H2 H3 H4) as (Hok & K1 & K2 & K3 & K4).
    cbn [trace] in *. destruct (step presume plan_of dev s e) as [s1 o1] eqn:Es.
    change (g_run g (TEv e :: map TObs o1 ++ trace P presume plan_of D dev s1 evs))
      with (g_run (g_item g (TEv e)) (map TObs o1 ++ trace P presume plan_of D dev s1 evs)) in *.
    rewrite g_run_app in *. change (g_run (g_item g (TEv e)) (map TObs o1)) with (gobs (g_item g (TEv e)) o1) in *.
    eapply IH; try eassumption.
    eapply step_INV; try eassumption; [eapply gnb_mono; exact Hnb | eapply gpl_mono; exact Hpl].
Qed.

(* THE THEOREM: outside the finding classes C11-a / C11-b and inside the well-formedness conditions, every run
   holds every accepted suspension until its release *)
Theorem hold_ok_all_runs d paus stag rec evs :
  finding_C11_a evs = false -> finding_C11_b evs = false ->
  call_while_suspended evs = false -> stale_future evs = false ->
  no_bad (snd (run presume plan_of dev (init P D d paus stag rec) evs)) = true ->
  plain_susp_plans (trace P presume plan_of D dev (init P D d paus stag rec) evs) = true ->
  hold_ok (trace P presume plan_of D dev (init P D d paus stag rec) evs) = true.
Proof.
  intros H1 H2 H3 H4 Hnb Hpl. unfold hold_ok. change hold0 with (gh g0). rewrite <- gh_run.
  apply run_INV with (A := []) (Rel := []); try assumption.
  - split; [split; [reflexivity | left; reflexivity]|]. unfold sched_inv. cbn. repeat split; auto; try lia.
    intros x Hx. discriminate Hx.
  - rewrite gnb_run, trace_obs. exact Hnb.
Qed.

End C11.

