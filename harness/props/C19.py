"""C19 - callbacks see every document once, in order; errors follow policy."""
import copy
import itertools

from harness.drivers import dispatch_cases as G
from harness.drivers import dispatch_driver as D
from harness.drivers import dispatch_oracle as O

ID = "C19"
PROP_FILE = "Props/C19.v"
THEOREMS = ["C19_delivery_policy", "C19_subscription_order", "C19_calls_follow_policy",
            "C19_ignored_exceptions_change_nothing", "C19_a_refuted"]
COQ_IMPORTS = "From BV Require Import Engine.Dispatcher."
PARALLEL = False
MODELLED = (
    "Same model as C18 (Engine/Dispatcher.v): CallbackRegistry.process (dict order = cid order, ignore_exceptions), "
    "Dispatcher/RunEngine subscription handling, and as much of open_run/create-read-save/close_run and _run's "
    "except/finally as decides which documents a non-catching plan emits, where it is aborted and how an open run is "
    "closed (exit_status fail, errors of the re-close swallowed, event_model's compose_stop poison pill). Callbacks are "
    "functions of the document that may call RE.unsubscribe(token) / RE.subscribe(plain callable, name) and then return or "
    "raise (process iterates over a list() snapshot); they do not otherwise re-enter the engine. "
    "warnings emitted for ignored exceptions, logging, and the traceback objects are not observed."
)
RULE = (
    "exhaustive: three distinct callables (function, bound method, callable object) subscribed to 'all' in 2 (thorough: all 6) "
    "orders x every assignment of raise patterns from {never, start, event#2, stop} (thorough: also descriptor, every event, "
    "everything) x both policies x 3 plans (two events; two runs; run left open), plus seeded random histories where each "
    "callable is subscribed at most once (permanent / per-call dict / in-plan, random kinds) with policy changes between "
    "calls, plus C18's random histories with raising callbacks (sharing allowed; only model agreement is checked on those); "
    "callbacks that change the subscriptions WHILE a document is delivered: exhaustively one of three callables x {start, "
    "event#1, stop} x {unsubscribe own / either other token, subscribe a fourth callable to all / event} x both policies x 2 "
    "plans, and random such actions on half of the random histories. "
    "Non-trivial = some callback raised."
)


def cases(rng, tier):
    out = []
    if tier == "quick":
        out += list(G.enumerate_policy(G.RAISE_SMALL, [(0, 1, 2), (2, 0, 1)]))
        nrand, nshare = 250, 80
        out += list(G.enumerate_mutating())
    else:
        out += list(G.enumerate_policy(G.RAISE_FULL, list(itertools.permutations(range(3)))))
        nrand, nshare = 6000, 3000
        out += list(G.enumerate_mutating())
    for i in range(nrand):
        c = G.rand_policy_history(rng)
        out.append(G.add_random_acts(rng, c) if i % 2 else c)
    for i in range(nshare):
        c = G.rand_history(rng, maxops=6, p_raise=0.5, p_ignore=0.15)
        out.append(G.add_random_acts(rng, c) if i % 2 else c)
    return out


def _always_ignoring(case):
    ops = case["ops"]
    return bool(ops) and ops[0] == ["ignore", True] and not any(o[0] == "ignore" and not o[1] for o in ops)


def impl(case):
    obs = D.run_history(case)
    if _always_ignoring(case) and any(f["raises"] for f in case["fns"]):
        q = copy.deepcopy(case)
        for f in q["fns"]:
            f["raises"] = []
        obs["quiet"] = D.run_history(q)["ops"]
    return obs


def coq_term(case, obs):
    o = D.obs_term(obs)
    if o is None:
        return "false"
    h = D.history_term(case)
    return ("lobs_eqb (run_hist %s) %s && Bool.eqb (finding_C19_a %s) %s && Bool.eqb (finding_C18_a %s) %s "
            "&& counts_eqb (final_counts %s) (%d, %d)" % (
                h, o, h, D.cb(O.stop_raise(case, obs)), h, D.cb(O.sharing(case, obs)), h, obs["counts"][0], obs["counts"][1]))


def _strip(ops):
    out = []
    for o in ops:
        if isinstance(o, dict) and "ems" in o:
            out.append({"ems": [[d, [f for f, _ in inv]] for d, inv in o["ems"]], "toks": o["toks"], "out": o["out"]})
        else:
            out.append(o)
    return out


def oracle(case, obs):
    if O.sharing(case, obs):
        return None          # equal callables registered twice: C18's finding class, not judged here
    ign = False
    # 1. every document: every subscription live when the document is emitted and asking for its kind, once, in
    #    subscription order - whatever callbacks do to the subscriptions during the delivery; with exceptions
    #    not ignored, up to and including the first one that raises
    for ev in O.walk(case, obs):
        if ev[0] != "emission":
            continue
        _, oi, k, d, inv, live, ignore = ev
        want = [s[1] for s in live]
        got = [f for f, _ in inv]
        for f, r in inv:
            if r != O.raises(case, f, d):
                return "op %d, %s: callable %d raised=%s, its definition says %s" % (oi, d, f, r, not r)
        if ignore:
            if got != want:
                return "op %d, %s (exceptions ignored): invoked %s, live subscriptions in order are %s" % (oi, d, got, want)
        else:
            cut = len(want)
            for i, f in enumerate(want):
                if O.raises(case, f, d):
                    cut = i + 1
                    break
            if got != want[:cut]:
                return "op %d, %s (exceptions raised): invoked %s, expected %s of live %s" % (oi, d, got, want[:cut], want)
    # 2. per call: what a raising callback does to the plan
    for oi, (op, o) in enumerate(zip(case["ops"], obs["ops"])):
        if op[0] == "ignore":
            ign = bool(op[1])
        if op[0] != "call":
            continue
        cb_out = isinstance(o["out"], list) and o["out"][0] == "cb"
        if not cb_out and o["out"] not in ("ok", "KeyError", "Illegal"):
            return "op %d: the call ended with %r, which neither the plan nor a callback raised" % (oi, o["out"])
        if ign:
            if cb_out:
                return "op %d: exceptions are ignored but the call raised callback exception %s" % (oi, o["out"])
            continue
        first = None
        for k, (d, inv) in enumerate(o["ems"]):
            if any(r for _, r in inv):
                first = k
                break
        if first is None:
            if cb_out:
                return "op %d: call raised %s although no callback raised" % (oi, o["out"])
            continue
        d, inv = o["ems"][first]
        who = [f for f, r in inv if r][0]
        if d[0] == "stop" and not d[2]:
            continue      # raised on the engine's own closing stop document: swallowed, the call's outcome stands
        if o["out"] != ["cb", who]:
            return "op %d: callback %d raised on %s but the call ended with %r" % (oi, who, d, o["out"])
        rest = o["ems"][first + 1:]
        if d[0] == "stop":
            # the regular stop document raised: the run must still end up closed as failed for everybody
            return ("op %d: callback %d raised on %s; the run is not closed as failed: no further stop document was emitted "
                    "(later callbacks never see a stop for run %d)" % (oi, who, d, d[1])) if not rest else None
        if len(rest) != 1 or rest[0][0][0] != "stop" or rest[0][0][1] != d[1] or rest[0][0][2]:
            return "op %d: callback %d raised on %s; expected exactly one closing stop(fail) for run %d afterwards, saw %s" % (
                oi, who, d, d[1], [e[0] for e in rest])
    # 3. ignored exceptions change nothing but the raise flags
    if "quiet" in obs and _strip(obs["ops"]) != _strip(obs["quiet"]):
        return "with exceptions ignored, raising callbacks changed what was emitted/invoked/returned"
    return None


def finding(case, obs):
    return "a" if O.stop_raise(case, obs) else None


def nontrivial(case, obs):
    return any(isinstance(o, dict) and any(r for _, inv in o.get("ems", []) for _, r in inv) for o in obs["ops"])


def describe(case):
    ign = [o[1] for o in case["ops"] if o[0] == "ignore"]
    nr = sum(1 for f in case["fns"] if f["raises"])
    return "%s raisers=%d policy=%s" % (case.get("gen", "corpus"), nr, "".join("I" if b else "R" for b in ign) or "default")


def model_search(rng, tier):
    """Search the model's boolean restatement of the policy theorem for a counterexample."""
    from harness import core
    cs = [G.rand_policy_history(rng) for _ in range(300 if tier == "quick" else 3000)]
    terms = ["finding_C19_a %s || policy_ok_from false %s (run_hist %s)" % ((D.history_term(c),) * 3) for c in cs]
    try:
        ok, bad, _ = core.eval_cases_in_coq(ID + "_search", COQ_IMPORTS, terms)
    except Exception:
        return None
    if ok and bad:
        c = min((cs[i] for i in bad), key=lambda c: len(c["ops"]))
        return {"case": c, "what": "a call of the model does not follow the exception policy outside class C19-a"}
    return None
