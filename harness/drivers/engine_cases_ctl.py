"""Extra cases for the control-flow engine properties C03, C04, C09, C10, C11 (added to the shared
engine corpus of engine_cases.py, which is not edited).  Cases marked {"ctl": true} need
harness/drivers/engine_driver_ctl.py (callable arguments, position-determined readings)."""
from harness.drivers.engine_cases import m, seq, base, count_msgs, DEVS, BUNDLE


def _ctl(c):
    c["ctl"] = True
    return c


# ----------------------------------------------------------------------------- C04

def p_monitor():
    return seq(m("open_run"), m("checkpoint"), m("null"), m("monitor", 1, [], {"name": "mon"}), m("null"), m("null"),
               m("unmonitor", 1), m("null"), m("close_run"))


def p_subscribe():
    return seq(m("open_run"), m("checkpoint"), m("null"), m("subscribe", None, ["@cb", "all"]), m("null"), m("null"),
               m("unsubscribe", None, [1]), m("null"), m("close_run"))


def p_stage_mid():
    return seq(m("open_run"), m("checkpoint"), m("null"), m("stage", 0), m("null"), m("stage", 1), m("null"),
               m("unstage", 0), m("null"), m("close_run"))


def p_rw_regions():
    return seq(m("open_run"), m("checkpoint"), m("null"), m("rewindable", None, [False]), m("null"), m("rewindable", None, [False]),
               m("null"), m("rewindable", None, [True]), m("null"), m("rewindable", None, [True]), m("null"), m("close_run"))


def p_runs():
    return seq(m("open_run"), m("checkpoint"), m("null"), m("close_run"), m("null"), m("null"), m("open_run"), m("null"),
               m("checkpoint"), m("null"), m("close_run"), m("null"))


def p_clear_then_ckpt():
    return seq(m("open_run"), m("checkpoint"), m("null"), m("clear_checkpoint"), m("null"), m("checkpoint"), m("null"),
               m("null"), m("close_run"))


def p_bundle_rw():
    return seq(m("open_run"), m("checkpoint"), *BUNDLE, m("rewindable", None, [False]), *BUNDLE, m("rewindable", None, [True]),
               *BUNDLE, m("close_run"))


C04_PLANS = [("mon", p_monitor, True), ("sub", p_subscribe, True), ("stagemid", p_stage_mid, False), ("rw", p_rw_regions, False),
             ("runs", p_runs, False), ("clrckpt", p_clear_then_ckpt, False), ("bundlerw", p_bundle_rw, False)]


def c04_cases(rng, tier):
    out = []
    for name, t, ctl in C04_PLANS:
        plan = t()
        n = count_msgs(plan) + 3
        for at in range(1, n + 1):
            cs = [base(plan, inject=[{"at": at, "req": "pause"}], script=["resume"], tag="c04 %s pause@%d" % (name, at)),
                  base(plan, inject=[{"at": at, "req": "suspend"}, {"at": at + 4, "req": "release", "sid": 0}],
                       tag="c04 %s suspend@%d" % (name, at))]
            if tier == "thorough" or at % 2 == 0:
                cs.append(base(plan, inject=[{"at": at, "req": "pause"}, {"at": at + 2, "req": "pause"}], script=["resume", "resume"],
                               tag="c04 %s pause2@%d" % (name, at)))
                cs.append(base(plan, inject=[{"at": at, "req": "pause"}, {"at": at + 1, "req": "suspend"}, {"at": at + 6, "req": "release", "sid": 0}],
                               script=["resume"], tag="c04 %s pause+suspend@%d" % (name, at)))
            out += [_ctl(c) if ctl else c for c in cs]
    return out


# ----------------------------------------------------------------------------- C09

def p_spacing(k, tail_ckpt=True):
    """open_run; checkpoint; k nulls; checkpoint; null; (checkpoint;) null; close_run"""
    body = [m("open_run"), m("checkpoint")] + [m("null")] * k + [m("checkpoint"), m("null")]
    if tail_ckpt:
        body += [m("checkpoint")]
    body += [m("null"), m("close_run")]
    return seq(*body)


def p_no_more_ckpt():
    return seq(m("open_run"), m("checkpoint"), m("null"), m("null"), m("null"), m("close_run"))


def p_defer_msg_pos():
    """the positional form of the message: Msg('pause', None, True)"""
    return seq(m("open_run"), m("checkpoint"), m("null"), m("pause", None, [True], {}), m("null"), *BUNDLE,
               m("checkpoint"), m("null"), m("close_run"))


def p_defer_msg():
    return seq(m("open_run"), m("checkpoint"), m("null"), m("pause", None, [], {"defer": True}), m("null"), *BUNDLE,
               m("checkpoint"), m("null"), m("close_run"))


def p_ckpt_in_bundle():
    return seq(m("open_run"), m("checkpoint"), m("null"), m("create", None, [], {"name": "primary"}), m("read", 1),
               ["tryexc", m("checkpoint"), m("null")], m("save"), m("checkpoint"), m("null"), m("close_run"))


def c09_cases(rng, tier):
    out = []
    for k in range(0, 6):
        plan = p_spacing(k)
        n = count_msgs(plan) + 3
        for at in range(1, n + 1):
            out.append(base(plan, inject=[{"at": at, "req": "defer"}], script=["resume", "resume"], tag="c09 sp%d defer@%d" % (k, at)))
            if tier == "thorough" or (at + k) % 2 == 0:
                out.append(base(plan, inject=[{"at": at, "req": "defer"}, {"at": at + 1, "req": "defer"}], script=["resume", "resume", "resume"],
                                tag="c09 sp%d defer2@%d" % (k, at)))
    for name, t in (("nockpt", p_no_more_ckpt), ("defermsg", p_defer_msg), ("defermsgpos", p_defer_msg_pos),
                    ("inbundle", p_ckpt_in_bundle)):
        plan = t()
        n = count_msgs(plan) + 3
        out.append(base(plan, script=["resume", "resume"], tag="c09 %s plain" % name))
        for at in range(1, n + 1):
            out.append(base(plan, inject=[{"at": at, "req": "defer"}], script=["resume", "resume"], tag="c09 %s defer@%d" % (name, at)))
            # a second call: the pending request is reported until it starts
            c = base(plan, inject=[{"at": at, "req": "defer"}], script=["resume", "resume"], tag="c09 %s defer@%d 2calls" % (name, at))
            c["calls"] = [plan, p_no_more_ckpt()]
            out.append(c)
            for r2 in ("pause", "abort", "suspend"):
                inj = [{"at": at, "req": "defer"}, {"at": at + 2, "req": r2}]
                if r2 == "suspend":
                    inj.append({"at": at + 6, "req": "release", "sid": 0})
                out.append(base(plan, inject=inj, script=["resume", "resume"], tag="c09 %s defer@%d+%s" % (name, at, r2)))
    return out


# ----------------------------------------------------------------------------- C10

def p_clear_at(pos, variant):
    """clear_checkpoint inserted at position pos of a plan with cleanup"""
    if variant == "fin":
        body = [m("stage", 0), m("open_run"), m("checkpoint"), m("set", 1, [1], {"group": "g"}), m("wait", None, [], {"group": "g"}),
                m("null"), *BUNDLE, m("null")]
        body.insert(min(pos, len(body)), m("clear_checkpoint"))
        return ["tryfin", seq(*body), seq(m("null"), m("close_run"), m("unstage", 0))]
    if variant == "nested":
        body = [m("open_run", run="a"), m("checkpoint"), m("open_run", run="b"), m("null"), m("create", None, [], {"name": "primary"}, run="b"),
                m("read", 1, run="b"), m("save", run="b"), m("null"), m("close_run", run="b"), m("null"), m("close_run", run="a")]
        body.insert(min(pos, len(body)), m("clear_checkpoint"))
        return seq(*body)
    if variant == "catch":
        body = [m("open_run"), m("checkpoint"), m("null"), m("null"), m("null"), m("null")]
        body.insert(min(pos, len(body)), m("clear_checkpoint"))
        return seq(["tryexc", seq(*body), seq(m("null"))], m("null"), m("close_run"))
    if variant == "pausefin":
        # a pause MESSAGE inside try/finally: the clean-up (three messages) must run after FailedPause (defect C10-a)
        body = [m("open_run"), m("checkpoint"), m("null"), m("pause"), m("null")]
        body.insert(min(pos, len(body)), m("clear_checkpoint"))
        return ["tryfin", seq(*body), seq(m("null"), m("null"), m("close_run"))]
    body = [m("open_run"), m("checkpoint"), m("null"), m("pause"), m("null"), m("checkpoint"), m("null"), m("close_run")]
    body.insert(min(pos, len(body)), m("clear_checkpoint"))
    return seq(*body)


def c10_cases(rng, tier):
    out = []
    for variant, npos in (("fin", 9), ("nested", 10), ("catch", 6), ("pausemsg", 6), ("pausefin", 4)):
        for pos in range(1, npos + 1):
            if tier != "thorough" and variant in ("fin", "nested") and pos % 2 == 0:
                continue
            plan = p_clear_at(pos, variant)
            n = count_msgs(plan) + 3
            out.append(base(plan, tag="c10 %s clear@%d plain" % (variant, pos)))
            for at in range(max(1, pos), n + 1):
                out.append(base(plan, inject=[{"at": at, "req": "pause"}], script=["resume"], tag="c10 %s clear@%d pause@%d" % (variant, pos, at)))
                out.append(base(plan, inject=[{"at": at, "req": "suspend"}, {"at": at + 4, "req": "release", "sid": 0}],
                                tag="c10 %s clear@%d suspend@%d" % (variant, pos, at)))
                if tier == "thorough" or at % 3 == 0:
                    out.append(base(plan, inject=[{"at": at, "req": "defer"}], script=["resume"], tag="c10 %s clear@%d defer@%d" % (variant, pos, at)))
                    out.append(base(plan, inject=[{"at": at, "req": "pause"}, {"at": at + 1, "req": "abort"}], script=["resume"],
                                    tag="c10 %s clear@%d pause+abort@%d" % (variant, pos, at)))
    return out


# ----------------------------------------------------------------------------- C11

def p_c11_move():
    return seq(m("stage", 0), m("open_run"), m("checkpoint"), m("set", 1, [1], {"group": "g"}), m("set", 2, [1], {"group": "g"}),
               m("wait", None, [], {"group": "g"}), *BUNDLE, m("checkpoint"), m("null"), m("null"), m("close_run"), m("unstage", 0))


def p_c11_simple():
    return seq(m("open_run"), m("checkpoint"), m("null"), m("null"), m("null"), m("null"), m("close_run"))


def c11_cases(rng, tier):
    out = []
    pre, post = seq(m("null"), m("stop", 1)), seq(m("null"))
    for name, t in (("move", p_c11_move), ("simple", p_c11_simple)):
        plan = t()
        n = count_msgs(plan) + 3
        for at in range(1, n + 1):
            for pp in (0, 1, 2, 3):
                if tier != "thorough" and pp in (1, 2) and at % 2 == 0:
                    continue
                inj = {"at": at, "req": "suspend"}
                if pp & 1:
                    inj["pre"] = pre
                if pp & 2:
                    inj["post"] = post
                out.append(base(plan, inject=[inj, {"at": 200, "req": "release", "sid": 0}], record_interruptions=(pp == 3),
                                tag="c11 %s suspend@%d pp%d" % (name, at, pp)))
            # overlapping suspensions: the second one lands `gap` steps later or while the first waits (at=150: fired when idle)
            for at2 in (at + 1, at + 2, at + 3, 150):
                for order in ((0, 1), (1, 0)):
                    if tier != "thorough" and (at + at2) % 2 == 1 and at2 != 150:
                        continue
                    out.append(base(plan, inject=[{"at": at, "req": "suspend"}, {"at": at2, "req": "suspend"},
                                                  {"at": 200, "req": "release", "sid": order[0]}, {"at": 201, "req": "release", "sid": order[1]}],
                                    tag="c11 %s overlap@%d,%d rel%d%d" % (name, at, at2, order[0], order[1])))
            # pause + resume while suspended
            out.append(base(plan, inject=[{"at": at, "req": "suspend"}, {"at": 150, "req": "pause"}, {"at": 200, "req": "release", "sid": 0}],
                            script=["resume"], tag="c11 %s suspend@%d pause-resume" % (name, at)))
            out.append(base(plan, inject=[{"at": at, "req": "suspend"}, {"at": 150, "req": "defer"}, {"at": 200, "req": "release", "sid": 0}],
                            script=["resume"], tag="c11 %s suspend@%d defer" % (name, at)))
    return [_ctl(c) for c in out]


# ----------------------------------------------------------------------------- C03

def p_points(xs, two_streams=False, keys=False):
    """stage; open_run; for each point: checkpoint; set(1, x); wait; create; read 1; read 2; save; close_run; unstage"""
    run = "k" if keys else None
    body = [m("stage", 0), m("open_run", run=run)]
    for j, x in enumerate(xs):
        g = "g%d" % j
        body += [m("checkpoint"), m("set", 1, [x], {"group": g}), m("wait", None, [], {"group": g}),
                 m("create", None, [], {"name": "primary"}, run=run), m("read", 1, run=run), m("read", 2, run=run), m("save", run=run)]
        if two_streams:
            body += [m("create", None, [], {"name": "other"}, run=run), m("read", 2, run=run), m("save", run=run)]
    body += [m("close_run", run=run), m("unstage", 0)]
    return seq(*body)


def p_two_runs_points():
    a = [m("open_run")]
    for j, x in enumerate((1, 2)):
        a += [m("checkpoint"), m("set", 1, [x], {"group": "a%d" % j}), m("wait", None, [], {"group": "a%d" % j}),
              m("create", None, [], {"name": "primary"}), m("read", 1), m("save")]
    a += [m("close_run")]
    b = [m("open_run", run="r1"), m("open_run", run="r2")]
    for j, x in enumerate((3, 4)):
        b += [m("checkpoint"), m("set", 2, [x], {"group": "b%d" % j}), m("wait", None, [], {"group": "b%d" % j}),
              m("create", None, [], {"name": "primary"}, run="r1"), m("read", 2, run="r1"), m("save", run="r1"),
              m("create", None, [], {"name": "primary"}, run="r2"), m("read", 1, run="r2"), m("read", 2, run="r2"), m("save", run="r2")]
    b += [m("close_run", run="r2"), m("close_run", run="r1")]
    return seq(*(a + b))


def p_points_norewind(xs, settle="sleep", two_streams=False):
    """a detector that cannot be rewound (what trigger_and_read's rewindable_wrapper does): per point
    checkpoint; rewindable False; set; wait; create; read; read; save; rewindable True; settle (cached); null"""
    body = [m("stage", 0), m("open_run")]
    for j, x in enumerate(xs):
        g = "n%d" % j
        body += [m("checkpoint"), m("rewindable", None, [False]), m("set", 1, [x], {"group": g}), m("wait", None, [], {"group": g}),
                 m("create", None, [], {"name": "primary"}), m("read", 1), m("read", 2), m("save")]
        if two_streams:
            body += [m("create", None, [], {"name": "other"}), m("read", 2), m("save")]
        body += [m("rewindable", None, [True]), m("sleep", None, [0.1]) if settle == "sleep" else m("null"), m("null")]
    body += [m("close_run"), m("unstage", 0)]
    return seq(*body)


C03_PLANS = [
    ("points3", lambda: p_points((1, 2, 3))),
    ("points2s", lambda: p_points((5, 7), two_streams=True)),
    ("points2k", lambda: p_points((2, 4), keys=True)),
    ("tworuns", p_two_runs_points),
    ("norw3", lambda: p_points_norewind((1, 2, 3))),
    ("norw2n", lambda: p_points_norewind((4, 6), settle="null", two_streams=True)),
    ("count", lambda: ["builtin", "count", [1, 2], 3]),
    ("scan", lambda: ["builtin", "scan", [2], 1, 0, 4, 3]),
]
C03_LEN = {"norw3": 37, "norw2n": 32, "points3": 25, "points2s": 24, "points2k": 18, "tworuns": 37, "count": 33, "scan": 36}


def c03_cases(rng, tier):
    out = []
    for name, t in C03_PLANS:
        plan = t()
        n = C03_LEN[name] + 3
        out.append(base(plan, tag="c03 %s plain" % name))
        for at in range(1, n + 1):
            cs = [base(plan, inject=[{"at": at, "req": "pause"}], script=["resume"] * 3, tag="c03 %s pause@%d" % (name, at)),
                  base(plan, inject=[{"at": at, "req": "suspend"}, {"at": 300, "req": "release", "sid": 0}], tag="c03 %s suspend@%d" % (name, at))]
            if tier == "thorough" or at % 3 == 0:
                cs.append(base(plan, inject=[{"at": at, "req": "defer"}], script=["resume"] * 3, tag="c03 %s defer@%d" % (name, at)))
                cs.append(base(plan, inject=[{"at": at, "req": "pause"}, {"at": at + 3, "req": "pause"}], script=["resume"] * 4,
                               tag="c03 %s pause2@%d" % (name, at)))
                cs.append(base(plan, inject=[{"at": at, "req": "suspend", "pre": seq(m("null")), "post": seq(m("null"))},
                                             {"at": at + 5, "req": "pause"}, {"at": 300, "req": "release", "sid": 0}],
                               script=["resume"] * 3, tag="c03 %s suspend+pause@%d" % (name, at)))
            if tier == "thorough" and at % 2 == 0:
                cs.append(base(plan, inject=[{"at": at, "req": "pause"}, {"at": at + 1, "req": "suspend"}, {"at": 300, "req": "release", "sid": 0}],
                               script=["resume"] * 3, tag="c03 %s pause+suspend@%d" % (name, at)))
            out += cs
    # random repeated interruptions
    nrand = 60 if tier == "quick" else 1500
    for _ in range(nrand):
        name, t = C03_PLANS[rng.randrange(len(C03_PLANS))]
        n = C03_LEN[name] + 3
        inj, ns = [], 0
        for _k in range(rng.randint(2, 4)):
            at = rng.randint(1, n + 6)
            if rng.random() < 0.5:
                inj.append({"at": at, "req": rng.choice(["pause", "pause", "defer"])})
            else:
                inj.append({"at": at, "req": "suspend"})
                inj.append({"at": at + rng.randint(2, 8), "req": "release", "sid": ns})
                ns += 1
        out.append(base(t(), inject=inj, script=["resume"] * 6, tag="c03 %s random" % name))
    for c in out:
        c["ctl"] = True
        c["posdev"] = True
        c["baseline"] = True
    return out
