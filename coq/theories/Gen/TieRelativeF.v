(* Gen/TieRelativeF.v -- the binary64 instance of the C24 correspondence function (Python floats, compared bit for
   bit through float.hex()).  MODEL SIDE ONLY; used by generated cases files, by no theorem and by no Props file. *)
From Coq Require Import PrimFloat.
From BV Require Import Base.Prelude Base.FloatOps Gen.Coalg Gen.PyGen Gen.Relative Gen.TieRelative.

Definition c24_f := @c24_case float PrimFloat.add 0%float fbits_eqb (fun _ => []).
