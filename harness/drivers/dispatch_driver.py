"""Implementation-side driver shared by C18 and C19: run an operation history against a real RunEngine
and record, per operation, what the model's `obs` type records.

Case format (JSON):
  {"fns": [{"kind": "func"|"method"|"obj", "eq": <int>, "raises": [[sig, run|null, seq|null], ...],
            "acts": [[[sig, run|null, seq|null], ["unsub", tok] | ["sub", fn, name]], ...]   (optional)}, ...],
   "ops": [["sub", fn, name] | ["unsub", tok] | ["ignore", bool] | ["unsub_all"] | ["reset"]
           | ["call", {"form": "dict"|"list"|"callable"|"none", "items": [[name, [fn, ...]], ...]}, [msg, ...]]]}
  msg = ["open"] | ["event"] | ["close"] | ["null"] | ["sub", fn, name] | ["unsub", tok, "arg"|"kw"]
fn = index into fns.  "eq" is the Python-equality class: functions and bound methods are only equal to
themselves (the harness asserts their eq value is unique); "obj" callables are instances of a class whose
__eq__/__hash__ compare that key, so two distinct objects can be equal.
"acts": when invoked on a document matching the pattern the callable calls RE.unsubscribe(tok) or
RE.subscribe(fns[fn], name) (fn must itself have no acts; name is 'all' or a document name) before it returns/raises.
"""
import asyncio
import logging
import warnings

SIGS = ["stop", "start", "descriptor", "event", "datum", "resource", "event_page", "datum_page",
        "stream_resource", "stream_datum", "bulk_datum", "bulk_events"]

_loop = None       # (pid, loop): one background event loop per process, shared by the RunEngines of all cases


def _get_loop():
    global _loop
    import os
    if _loop is None or _loop[0] != os.getpid():
        _loop = (os.getpid(), asyncio.new_event_loop())
    return _loop[1]


class Det:
    name = "det"
    parent = None

    def read(self):
        return {"det": {"value": 1, "timestamp": 0.0}}

    def describe(self):
        return {"det": {"source": "fake", "dtype": "number", "shape": []}}

    def read_configuration(self):
        return {}

    def describe_configuration(self):
        return {}


class World:
    """The callables of one case, the shared invocation log and the per-call document canonicaliser."""

    def __init__(self, fns):
        self.log = []          # ("emit", doc) | ("call", fn_id, doc)
        self.runs = {}         # start uid -> run index (per call)
        self.descs = {}        # descriptor uid -> run index
        self.specs = fns
        self.objs = []
        eqs = [f["eq"] for f in fns if f["kind"] != "obj"]
        assert len(eqs) == len(set(eqs)), "functions/bound methods must have unique eq classes"
        assert not (set(eqs) & {f["eq"] for f in fns if f["kind"] == "obj"}), "eq classes overlap kinds"
        for i, f in enumerate(fns):
            self.objs.append(self._make(i, f))

    def canon(self, name, doc):
        if name == "start":
            r = self.runs.setdefault(doc["uid"], len(self.runs))
            return ["start", r]
        if name == "descriptor":
            r = self.runs[doc["run_start"]]
            self.descs[doc["uid"]] = r
            return ["descriptor", r]
        if name == "event":
            return ["event", self.descs[doc["descriptor"]], int(doc["seq_num"])]
        if name == "stop":
            return ["stop", self.runs[doc["run_start"]], doc["exit_status"] == "success"]
        return [name]

    @staticmethod
    def _pat(p, cd):
        s, r, q = p
        if s != cd[0]:
            return False
        if r is not None and r != cd[1]:
            return False
        if cd[0] == "event" and q is not None and q != cd[2]:
            return False
        return True

    def _matches(self, i, cd):
        return any(self._pat(p, cd) for p in self.specs[i]["raises"])

    def _invoke(self, i, name, doc):
        cd = self.canon(name, doc)
        r = self._matches(i, cd)
        self.log.append(("call", i, cd, r))
        for pat, act in self.specs[i].get("acts", []):
            if self._pat(pat, cd):
                if act[0] == "unsub":
                    self.RE.unsubscribe(act[1])
                    self.log.append(("cb_unsub", act[1]))
                else:
                    assert not self.specs[act[1]].get("acts"), "a callable subscribed by a callback must be plain"
                    t = self.RE.subscribe(self.callable(act[1]), act[2])
                    self.log.append(("cb_sub", act[1], act[2], int(t)))
        if r:
            raise ValueError("cb%d" % i)

    def _make(self, i, f):
        world = self
        if f["kind"] == "func":
            def cb(name, doc):
                world._invoke(i, name, doc)
            return cb
        if f["kind"] == "method":
            class Owner:
                def cb(self, name, doc):
                    world._invoke(i, name, doc)
            return Owner()
        if f["kind"] == "obj":
            return _KeyedCallable(f["eq"], lambda name, doc: world._invoke(i, name, doc))
        raise ValueError(f["kind"])

    def callable(self, i):
        o = self.objs[i]
        if self.specs[i]["kind"] == "method":
            return o.cb          # a fresh bound-method object each time, equal to the previous ones
        return o


class _KeyedCallable:
    """Distinct objects that compare (and hash) equal when their keys are equal."""

    def __init__(self, key, fn):
        self.key = key
        self.fn = fn

    def __eq__(self, other):
        return isinstance(other, _KeyedCallable) and other.key == self.key

    def __hash__(self):
        return hash(("keyed", self.key))

    def __call__(self, name, doc):
        return self.fn(name, doc)


def _exc_name(e):
    from bluesky.utils import IllegalMessageSequence
    if isinstance(e, ValueError) and str(e).startswith("cb"):
        return ["cb", int(str(e)[2:])]
    if isinstance(e, KeyError):
        return "KeyError"
    if isinstance(e, IllegalMessageSequence):
        return "Illegal"
    return type(e).__name__


def run_history(case):
    warnings.simplefilter("ignore")
    logging.disable(logging.CRITICAL)
    from bluesky import Msg, RunEngine
    from bluesky.utils import SUBS_NAMES
    from event_model import DocumentNames

    RE = RunEngine({}, loop=_get_loop(), context_managers=[])
    w = World(case["fns"])
    w.RE = RE
    det = Det()

    # emission marker: Dispatcher.process is looked up on the instance at every emit
    orig_process = RE.dispatcher.process

    def process(name, doc):
        w.log.append(("emit", w.canon(name.name, doc)))
        return orig_process(name, doc)
    RE.dispatcher.process = process

    out = []
    for op in case["ops"]:
        kind = op[0]
        if kind == "sub":
            try:
                out.append({"tok": RE.subscribe(w.callable(op[1]), op[2])})
            except Exception as e:
                out.append({"err": _exc_name(e)})
        elif kind == "unsub":
            RE.unsubscribe(op[1])
            out.append(None)
        elif kind == "ignore":
            RE.ignore_callback_exceptions = bool(op[1])
            out.append(None)
        elif kind == "unsub_all":
            RE.dispatcher.unsubscribe_all()
            out.append(None)
        elif kind == "reset":
            RE.reset()
            out.append(None)
        elif kind == "call":
            subs_spec, msgs = op[1], op[2]
            form = subs_spec["form"]
            items = subs_spec["items"]
            if form == "none":
                subs = None
            elif form == "callable":
                subs = w.callable(items[0][1][0])
            elif form == "list":
                subs = [w.callable(i) for i in items[0][1]]
            else:
                subs = {n: [w.callable(i) for i in fs] for n, fs in items}
            toks = []

            def plan():
                for m in msgs:
                    if m[0] == "open":
                        yield Msg("open_run")
                    elif m[0] == "event":
                        yield Msg("create", name="primary")
                        yield Msg("read", det)
                        yield Msg("save")
                    elif m[0] == "close":
                        yield Msg("close_run")
                    elif m[0] == "null":
                        yield Msg("null")
                    elif m[0] == "sub":
                        w.log.append(("try_sub", m[1], m[2]))
                        toks.append((yield Msg("subscribe", None, w.callable(m[1]), m[2])))
                        w.log.append(("sub", m[1], m[2], int(toks[-1])))
                    elif m[0] == "unsub":
                        w.log.append(("unsub", m[1]))
                        if m[2] == "kw":
                            yield Msg("unsubscribe", token=m[1])
                        else:
                            yield Msg("unsubscribe", None, m[1])
                    else:
                        raise AssertionError(m)

            w.log.clear()
            w.runs.clear()
            w.descs.clear()
            outcome = "ok"
            try:
                RE(plan(), subs)
            except Exception as e:
                outcome = _exc_name(e)
            ems = []
            timeline = []       # in-plan subscribe/unsubscribe markers interleaved with emission indices
            for ent in w.log:
                if ent[0] == "emit":
                    ems.append([ent[1], []])
                    timeline.append(["emit", len(ems) - 1])
                elif ent[0] in ("sub", "unsub", "try_sub", "cb_sub", "cb_unsub"):
                    timeline.append(list(ent))
                else:
                    if not ems or ems[-1][0] != ent[2]:
                        ems.append([["ORPHAN"] + list(ent[2]), []])     # a call without a preceding emit
                    ems[-1][1].append([ent[1], ent[3]])
            if RE.state != "idle":
                outcome = [outcome, "state=" + str(RE.state)]
            out.append({"ems": ems, "toks": [int(t) for t in toks], "out": outcome, "timeline": timeline})
        else:
            raise AssertionError(op)
    reg = RE.dispatcher.cb_registry
    counts = [sum(len(v) for v in reg.callbacks.values()), len(RE.dispatcher._token_mapping)]
    return {"ops": out, "doc_names": [d.name for d in DocumentNames], "subs_names": list(SUBS_NAMES), "counts": counts}


# ----------------------------------------------------------------------------- Coq rendering

def cl(xs, f=str):
    return "[" + "; ".join(f(x) for x in xs) + "]"


def cb(b):
    return "true" if b else "false"


def cstr(s):
    assert all(32 <= ord(ch) < 127 and ch != '"' for ch in s), s
    return '"%s"%%string' % s


def csig(s):
    return {"stop": "SStop", "start": "SStart", "descriptor": "SDescriptor", "event": "SEvent", "datum": "SDatum",
            "resource": "SResource", "event_page": "SEventPage", "datum_page": "SDatumPage",
            "stream_resource": "SStreamResource", "stream_datum": "SStreamDatum", "bulk_datum": "SBulkDatum",
            "bulk_events": "SBulkEvents"}[s]


def cname(n):
    if n == "all":
        return "NAll"
    if n in SIGS:
        return "(NSig %s)" % csig(n)
    return "NBad"


def copt(x):
    return "None" if x is None else "(Some %d)" % x


def cpat(p):
    return "(%s, %s, %s)" % (csig(p[0]), copt(p[1]), copt(p[2]))


def cfn(case, i):
    f = case["fns"][i]
    pats = cl(f["raises"], cpat)
    if not f.get("acts"):
        return "(mk_fn %d %d %s)" % (i, f["eq"], pats)

    def cact(pa):
        pat, act = pa
        if act[0] == "unsub":
            return "(%s, CbUnsub %d)" % (cpat(pat), act[1])
        g = case["fns"][act[1]]
        n = "None" if act[2] == "all" else "(Some %s)" % csig(act[2])
        return "(%s, CbSub %d %d (pats_fun %s) %s)" % (cpat(pat), act[1], g["eq"], cl(g["raises"], cpat), n)
    return "(mk_fn_a %d %d %s %s)" % (i, f["eq"], pats, cl(f["acts"], cact))


def cmsg(case, m):
    if m[0] == "open":
        return "POpen"
    if m[0] == "event":
        return "PEvent"
    if m[0] == "close":
        return "PClose"
    if m[0] == "null":
        return "PNull"
    if m[0] == "sub":
        return "(PSub %s %s)" % (cfn(case, m[1]), cname(m[2]))
    if m[0] == "unsub":
        return "(PUnsub %d)" % m[1]
    raise AssertionError(m)


def cop(case, op):
    k = op[0]
    if k == "sub":
        return "(Subscribe %s %s)" % (cfn(case, op[1]), cname(op[2]))
    if k == "unsub":
        return "(Unsubscribe %d)" % op[1]
    if k == "ignore":
        return "(SetIgnore %s)" % cb(op[1])
    if k == "unsub_all":
        return "UnsubscribeAll"
    if k == "reset":
        return "Reset"
    if k == "call":
        spec = op[1]
        if spec["form"] == "none":
            items = []
        elif spec["form"] in ("callable", "list"):
            items = [["all", spec["items"][0][1]]]
        else:
            items = spec["items"]
        subs = cl(items, lambda it: "(%s, %s)" % (cname(it[0]), cl(it[1], lambda i: cfn(case, i))))
        return "(RunCall %s %s)" % (subs, cl(op[2], lambda m: cmsg(case, m)))
    raise AssertionError(op)


def cdoc(d):
    if d[0] == "start":
        return "(DStart %d)" % d[1]
    if d[0] == "descriptor":
        return "(DDescriptor %d)" % d[1]
    if d[0] == "event":
        return "(DEvent %d %d)" % (d[1], d[2])
    if d[0] == "stop":
        return "(DStop %d %s)" % (d[1], cb(d[2]))
    return None


def cexn(e):
    if isinstance(e, list) and len(e) == 2 and e[0] == "cb":
        return "(ExCb %d)" % e[1]
    if e == "KeyError":
        return "ExKeyError"
    if e == "Illegal":
        return "ExIllegal"
    return None


def cobs(o):
    """Coq term for one observed op result, or None when it is outside the model's vocabulary."""
    if o is None:
        return "ONone"
    if "tok" in o:
        return "(OTok %d)" % o["tok"]
    if "err" in o:
        x = cexn(o["err"])
        return None if x is None else "(OErr %s)" % x
    ems = []
    for d, inv in o["ems"]:
        cd = cdoc(d)
        if cd is None:
            return None
        ems.append("(E %s %s)" % (cd, cl(inv, lambda c: "(%d, %s)" % (c[0], cb(c[1])))))
    if o["out"] == "ok":
        out = "Done"
    else:
        x = cexn(o["out"])
        if x is None:
            return None
        out = "(Raised %s)" % x
    return "(OCall %s %s %s)" % (cl(ems), cl(o["toks"]), out)


def history_term(case):
    return cl(case["ops"], lambda op: cop(case, op))


def obs_term(obs):
    parts = [cobs(o) for o in obs["ops"]]
    if any(p is None for p in parts):
        return None
    return cl(parts)
