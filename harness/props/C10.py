"""C10 - interrupting a non-resumable section aborts cleanly."""
from harness.props.engine_common import *  # noqa: F401,F403
from harness.props import engine_common as ec
from harness.props import ctl_common as cc
from harness.drivers import engine_cases_ctl as ecc

ID = "C10"
PROP_FILE = "Props/C10.v"
THEOREMS = ["C10_paused_only_when_resumable", "C10_failed_pause_at_top_of_loop", "C10_failed_pause_runs_cleanup",
            "C10_failed_pause_exit_aborts", "C10_finalize_closes_open_runs", "C10_suspend_request_without_checkpoint_aborts",
            "C10_end_to_end", "C10_any_requests", "C10_full_refuted", "C10_pause_message_without_checkpoint_keeps_task"]
impl_batch = cc.impl_batch
coq_term = cc.coq_term
RULE = ec.RULE + ("; plus C10 extras: clear_checkpoint at every position of plans with cleanup (try/finally, nested runs, staged and moved "
                  "devices; a pause message inside try/finally with a three-message clean-up), a pause / pause message / suspension at every "
                  "later `_run` step")


def cases(rng, tier):
    return ec.gen_cases(rng, tier) + ecc.c10_cases(rng, tier)


def oracle(case, obs):
    if obs.get("errors"):
        return "driver: " + str(obs["errors"][0])[:200]
    tl = cc.timeline(obs)
    sp = cc.Spec()
    armed = None          # description of the interruption that hit a non-resumable section in the current call
    terminal = False      # abort/stop/halt accepted in the current call
    open_runs = set()
    thrown = []           # exceptions thrown into the call's plan since `armed`
    cur = None
    pid = -1
    status_failed = False
    for i, e in enumerate(tl):
        k = e[0]
        if k == "main" and e[1] == "call" and sp.state == "idle":
            pid += 1
            armed, terminal, thrown, open_runs = None, False, [], set()
        if k == "msg":
            cur = e[2]
        if k == "req" and e[1] and e[2] in ("abort", "stop", "halt"):
            terminal = True
        if k == "inject" and e[1] == "status" and len(e) > 3 and e[3] is False:
            status_failed = True      # a device status failed: FailedStatus is a legitimate exception in flight
        # interruptions
        hit = None
        if k == "req" and e[2] == "pause" and e[3] is False and e[1] and sp.cache is None:
            hit = "pause request"
        if k == "req" and e[2] == "suspend" and sp.cache is None and sp.state not in ("idle", "paused"):
            hit = "suspension request"
        if k == "resp" and cur is not None and cur["cmd"] == "pause" and not cur["args"][0] and not cc.is_exn(e[1]) and sp.cache is None:
            hit = "pause message"
        if hit and armed is None and sp.state != "idle":
            armed = hit
            thrown = []
        if k == "doc" and e[1] == "start":
            open_runs.add(e[2])
        if k == "doc" and e[1] == "stop":
            open_runs.discard(e[2])
        if armed:
            if k == "state" and e[2] == "paused":
                return "%s while no checkpoint was in effect, yet the engine paused" % armed
            if k == "plan_in" and e[1] < 1000 and e[2][0] in ("throw", "close"):
                thrown.append(e[2][1] if e[2][0] == "throw" else "close")
                # C10-a: the plan was handed FailedPause because of its own pause message; its clean-up must not be hit by
                # an interruption exception that no abort/stop/halt request accounts for (a left-over self-cancellation
                # of the task used to arrive as RequestAbort at the first clean-up message)
                if (armed == "pause message" and not terminal and len(thrown) > 1 and thrown[0] == "FailedPause"
                        and thrown[-1] in ("RequestAbort", "RequestStop", "PlanHalt")):
                    return ("pause message while no checkpoint was in effect: after FailedPause, %s was thrown into the plan although "
                            "no abort/stop/halt was requested -- clean-up interrupted by an exception nobody requested" % thrown[-1])
            if k == "out":
                if e[2] == "return" and e[1] in ("call", "resume"):
                    return "%s while no checkpoint was in effect, yet the call returned normally" % armed
                if e[-3] != "idle":
                    return "%s while no checkpoint was in effect: the call ended with the engine %s, not idle" % (armed, e[-3])
                if open_runs:
                    return "%s while no checkpoint was in effect: runs %s were left without a RunStop" % (armed, sorted(open_runs))
                tape = obs["tapes"].get(str(pid), [])
                finished_before = bool(tape) and not thrown and tape[-1][1][0] in ("ret", "raise")
                if not finished_before:
                    if not thrown:
                        return "%s while no checkpoint was in effect: nothing was thrown into the plan, its cleanup code did not run" % armed
                    if not terminal and thrown[0] != "FailedPause" and not (status_failed and thrown[0] == "FailedStatus"):
                        return "%s while no checkpoint was in effect: %s (not FailedPause) was thrown into the plan" % (armed, thrown[0])
                armed = None
        sp.feed(e)
    return None


def finding(case, obs):
    return None
