(* C02 - exit status, reason and raised exception reflect how the run ended.

   Model: Engine/RE.v.  The statement is split along the code path (`_run`'s exception ladder, its
   finally block, __call__/resume), each part for every state, plan and device:
   (1) the mapping cause -> exit status (the ladder), (2) the cause is how the outermost plan ended,
   (3) the finally block gives every run still open a RunStop with the engine's status and reason,
   (4) between the decision and the finally block only an abort/halt request (or a new call) changes
   status or reason, an abort request always leaves status 'abort' and its reason, (5) what the
   blocking call reports, (6) FailedStatus originates only in a status that finished unsuccessfully.
   (7) the interruption mark is set by the requests and sticky until the next call/resume.
   (8) END TO END (Proofs/RE_ExitE2E.v), over a whole schedule from [init], for every plan, device and
   schedule whose interpreter fuel does not run out (the model reports that as OBad 1):
   the *decision* of a call is the one CExit x the `_run` interpreter reaches (how the outermost plan
   frame ended; unique: C02_decision_unique).  C02_end_to_end: when `_run` survives the cause (plan
   returned / RequestStop -> success; RequestAbort, PlanHalt, FailedPause, CancelledError -> abort),
   every RunStop emitted by the finally block carries that status, overridden only by abort requests
   that arrive during the final sleep (status abort + their reason, accepted or not: the model's
   `_abort_coro`; a halt request writes the status only on a paused engine, which cannot be the case
   there: C02_override_rule), the engine ends idle with no run left, and RE()/resume() report
   RunEngineInterrupted iff the interruption mark is set, else the run uids.  C02_end_to_end_fail:
   an unhandled error closes the runs at once with 'fail' and the exception text and is re-raised by
   RE()/resume().  C02_final_sleep_has_decision + C02_task_step_classified: there is no other way
   into the finally block.  C02_reason_provenance: the reason is "" or the reason of an abort request.
   C02_full_stmt_refuted: the earlier reading "a non-success RunStop means interrupted or raised" is
   false (a plan that raises RequestAbort itself: abort, normal return); the exception class decides.
   Outside this model: run_wrapper's own close_run (Gen/Wrappers.v, C22/C23) and the exception
   chaining (`FailedStatus` -> device exception, a Python `__cause__`), checked on the implementation
   side only. *)
From Coq Require Import List ZArith Bool.
From BV Require Import Engine.RE Engine.REInst Engine.DocMon Proofs.RE_Docs Proofs.RE_DocsCor Proofs.RE_Exit Proofs.RE_ExitE2E.
From BV Require Proofs.RE_Inv Proofs.RE_ExitCause.
Import ListNotations.

(* (1) success for normal completion and RequestStop; abort for FailedPause, RequestAbort, a
   cancellation, PlanHalt; fail otherwise, with the reason marked "exception text" (except for a
   stray GeneratorExit, reported as ValueError) and the task raising the error *)
Theorem C02_exit_mapping :
  forall (P : Type) (presume : P -> input -> outcome P) (plan_of : nat -> P)
         (D : Type) (dev : D -> nat -> devmeth -> D * devres) fuel (s : st P D) x os,
    drive P presume plan_of D dev (S fuel) s (CExit x) os =
      if sleeps x
      then (set_pc P D (set_exit P D s (exit_of x) (reason P D s)) (PcFinalSleep (result_of x)), os ++ [OTask WSleep0])
      else match x with
           | XExn e =>
               let s1 := set_exit P D s XFail (reason P D s) in
               let s2 := match e with EGeneratorExit => s1 | _ => set_ers P D s1 true end in
               drive P presume plan_of D dev fuel s2 (CFinalize (TReturn NO_RETURN) (Some (raised_of e))) os
           | XRet _ => (s, os)
           end.
Proof. exact exit_mapping. Qed.
Print Assumptions C02_exit_mapping.

Example C02_mapping_table :
  exit_of (XRet VNone) = XSuccess /\ exit_of (XExn ERequestStop) = XSuccess /\
  exit_of (XExn ERequestAbort) = XAbort /\ exit_of (XExn EPlanHalt) = XAbort /\ exit_of (XExn EFailedPause) = XAbort /\
  exit_of (XExn ECancelled) = XAbort /\
  exit_of (XExn EUser1) = XFail /\ exit_of (XExn EDev) = XFail /\ exit_of (XExn EFailedStatus) = XFail /\ exit_of (XExn EIMS) = XFail.
Proof. repeat split. Qed.

(* (2) with one plan frame left, the way that frame ends is the cause *)
Theorem C02_plan_end_decides :
  forall (P : Type) (presume : P -> input -> outcome P) (plan_of : nat -> P)
         (D : Type) (dev : D -> nat -> devmeth -> D * devres) fuel (s : st P D) top r os,
    plans P D s = [top] -> resps P D s = [r] -> exc_slot P D s = None -> stashed P D s = None ->
    let i := match r with RVal v => Send v | RExn e => Throw e end in
    let s2 := set_resps P D s [] in
    match frame_resume P presume top i with
    | (Returned v, po) =>
        drive P presume plan_of D dev (S (S fuel)) s CAfterSleep os =
        drive P presume plan_of D dev (S fuel) (pop_plan P D s2) (CExit (XRet v)) (os ++ po)
    | (Raised e, po) =>
        is_Exception e = true ->
        drive P presume plan_of D dev (S (S fuel)) s CAfterSleep os =
        drive P presume plan_of D dev (S fuel) (pop_plan P D s2) (CExit (XExn e)) (os ++ po)
    | (Yielded _ _, _) => True
    end.
Proof. exact plan_end_decides. Qed.
Print Assumptions C02_plan_end_decides.

(* (3) the finally block: one RunStop per bundler still open, carrying the engine's exit status and
   reason (the exception text when the run failed), nothing else; the bundler table is emptied *)
Theorem C02_finalize_closes_open_runs :
  forall (P : Type) (presume : P -> input -> outcome P)
         (D : Type) (dev : D -> nat -> devmeth -> D * devres) (s : st P D) r pend s' o,
    finalize P presume D dev s r pend = (s', o) ->
    docs_of o = stops_of (bundlers P D s) (exit_status P D s) (if exit_reason_set P D s then RsExnText else reason P D s) /\
    bundlers P D s' = [] /\ exit_status P D s' = exit_status P D s /\
    (pc P D s' = PcDone (final_result P D s r pend) \/ pc P D s' = PcDone (TRaise ETransition)).
Proof. exact finalize_spec. Qed.
Print Assumptions C02_finalize_closes_open_runs.

(* (4) *)
Theorem C02_status_stable_until_finalize :
  forall (P : Type) (presume : P -> input -> outcome P) (plan_of : nat -> P)
         (D : Type) (dev : D -> nat -> devmeth -> D * devres) (s : st P D) e s' o,
    decides e = false -> step P presume plan_of D dev s e = (s', o) -> keep P D s s'.
Proof. exact keep_until_finalize. Qed.
Print Assumptions C02_status_stable_until_finalize.

Theorem C02_abort_request_sets_reason :
  forall (P : Type) (presume : P -> input -> outcome P) (plan_of : nat -> P)
         (D : Type) (dev : D -> nat -> devmeth -> D * devres) (s : st P D) rs s' o,
    state P D s <> Idle -> step P presume plan_of D dev s (EvReqAbort rs) = (s', o) ->
    exit_status P D s' = XAbort /\ reason P D s' = rs /\ interrupted P D s' = true.
Proof. exact abort_request_sets_reason. Qed.
Print Assumptions C02_abort_request_sets_reason.

Theorem C02_final_sleep_step :
  forall (P : Type) (presume : P -> input -> outcome P) (plan_of : nat -> P)
         (D : Type) (dev : D -> nat -> devmeth -> D * devres) (s : st P D) r,
    pc P D s = PcFinalSleep r ->
    task_step P presume plan_of D dev s =
      finalize P presume D dev (set_must_cancel P D s false) r (if must_cancel P D s then Some ECancelled else None).
Proof. exact final_sleep_step. Qed.
Print Assumptions C02_final_sleep_step.

(* (3)+(4) composed: the decision reaches the RunStops *)
Theorem C02_decision_reaches_stops :
  forall (P : Type) (presume : P -> input -> outcome P) (plan_of : nat -> P)
         (D : Type) (dev : D -> nat -> devmeth -> D * devres) (s : st P D) r evs s1 o1 s2 o2,
    pc P D s = PcFinalSleep r -> forallb (fun e => negb (decides e)) evs = true ->
    run P presume plan_of D dev s evs = (s1, o1) -> step P presume plan_of D dev s1 EvTask = (s2, o2) ->
    docs_of o2 = stops_of (bundlers P D s1) (exit_status P D s) (if exit_reason_set P D s then RsExnText else reason P D s) /\
    bundlers P D s2 = [] /\ exists res, pc P D s2 = PcDone res.
Proof. exact decision_reaches_stops. Qed.
Print Assumptions C02_decision_reaches_stops.

Theorem C02_fail_closes_at_once :
  forall (P : Type) (presume : P -> input -> outcome P) (plan_of : nat -> P)
         (D : Type) (dev : D -> nat -> devmeth -> D * devres) fuel (s : st P D) e os s' o,
    sleeps (XExn e) = false -> e <> EGeneratorExit ->
    drive P presume plan_of D dev (S (S fuel)) s (CExit (XExn e)) os = (s', o) ->
    docs_of o = docs_of os ++ stops_of (bundlers P D s) XFail RsExnText /\ bundlers P D s' = [] /\
    (pc P D s' = PcDone (TRaise e) \/ pc P D s' = PcDone (TRaise ETransition)).
Proof. exact fail_closes_at_once. Qed.
Print Assumptions C02_fail_closes_at_once.

(* (5) RE(...) / resume(): the task's own exception is re-raised; otherwise RunEngineInterrupted
   iff the engine was interrupted, else the run uids *)
Theorem C02_outcome_of_call :
  forall (P : Type) (presume : P -> input -> outcome P) (plan_of : nat -> P)
         (D : Type) (dev : D -> nat -> devmeth -> D * devres) (s : st P D) a,
    (a = AResume \/ exists pid, a = ACall pid) -> main_err P D s = None ->
    snd (step P presume plan_of D dev s (EvMainDone a)) =
      [OOut (match pc P D s with
             | PcDone (TRaise ECancelled) => if interrupted P D s then OutInterrupted else OutReturn (run_uids P D s)
             | PcDone (TRaise e) => OutRaise e
             | _ => if interrupted P D s then OutInterrupted else OutReturn (run_uids P D s)
             end) (state P D s) (deferred P D s) (resumable P D s)].
Proof. exact outcome_of_call. Qed.
Print Assumptions C02_outcome_of_call.

(* (6) *)
Theorem C02_failed_status_origin :
  forall (P : Type) (presume : P -> input -> outcome P) (plan_of : nat -> P)
         (D : Type) (dev : D -> nat -> devmeth -> D * devres) (s : st P D) e s' o,
    e <> EvTask -> step P presume plan_of D dev s e = (s', o) ->
    exc_slot P D s' = Some EFailedStatus ->
    exc_slot P D s = Some EFailedStatus \/ exists sid, e = EvStatus sid false.
Proof. exact failed_status_only_from_status. Qed.
Print Assumptions C02_failed_status_origin.

(* (7) the interruption mark: set by every stop / halt / abort request on an engine that is not idle
   (and by an accepted pause), it survives every event except a new call and a resume: so after such a
   request the blocking call reports RunEngineInterrupted unless the task itself raises, by (5) *)
Theorem C02_interrupted_sticky :
  forall (P : Type) (presume : P -> input -> outcome P) (plan_of : nat -> P)
         (D : Type) (dev : D -> nat -> devmeth -> D * devres) (s : st P D) e s' o,
    match e with EvMain (ACall _) | EvMain AResume => False | _ => True end ->
    step P presume plan_of D dev s e = (s', o) -> interrupted P D s = true -> interrupted P D s' = true.
Proof. exact interrupted_sticky. Qed.
Print Assumptions C02_interrupted_sticky.

Theorem C02_stop_halt_request_marks :
  forall (P : Type) (presume : P -> input -> outcome P) (plan_of : nat -> P)
         (D : Type) (dev : D -> nat -> devmeth -> D * devres) (s : st P D) e s' o,
    (e = EvReqStop \/ e = EvReqHalt) -> state P D s <> Idle ->
    step P presume plan_of D dev s e = (s', o) -> interrupted P D s' = true.
Proof. exact stop_halt_request_marks. Qed.
Print Assumptions C02_stop_halt_request_marks.

(* (8) end to end *)
Theorem C02_end_to_end :
  forall (P : Type) (presume : P -> input -> outcome P) (plan_of : nat -> P)
         (D : Type) (dev : D -> nat -> devmeth -> D * devres) (d : D) (paus stag : list nat) (rec : bool)
         (evs0 evsB evsC : list event) (a : mainact) (s1 : st P D) (x : xkind) (os1 : list obs),
    nobad P presume plan_of D dev (init P D d paus stag rec) (evs0 ++ EvTask :: evsB ++ EvTask :: evsC) ->
    let s0 := fst (run P presume plan_of D dev (init P D d paus stag rec) evs0) in
    RE_Inv.visited P presume plan_of D dev s0 (s1, CExit x, os1) -> sleeps x = true ->
    no_task evsB = true -> no_main evsC = true -> is_call a = true ->
    let sd := fst (step P presume plan_of D dev s0 EvTask) in
    let sb := fst (run P presume plan_of D dev sd evsB) in
    let sf := fst (step P presume plan_of D dev sb EvTask) in
    let sC := fst (run P presume plan_of D dev sf evsC) in
    let xr_fin := fold_left override evsB (exit_of x, reason P D s1) in
    step P presume plan_of D dev s0 EvTask =
      (set_pc P D (set_exit P D s1 (exit_of x) (reason P D s1)) (PcFinalSleep (result_of x)), os1 ++ [OTask WSleep0]) /\
    docs_of (snd (step P presume plan_of D dev sb EvTask)) = stops_of (bundlers P D sb) (fst xr_fin) (snd xr_fin) /\
    state P D sf = Idle /\ bundlers P D sf = [] /\
    snd (step P presume plan_of D dev sC (EvMainDone a)) =
      [OOut (match main_err P D sC with
             | Some e => OutRaise e
             | None => if interrupted P D sC then OutInterrupted else OutReturn (run_uids P D sC)
             end) Idle (deferred P D sC) (resumable P D sC)] /\
    (interrupted P D sd = true \/ existsb marks evsB = true -> interrupted P D sC = true).
Proof. exact end_to_end_sleep. Qed.
Print Assumptions C02_end_to_end.

Theorem C02_end_to_end_fail :
  forall (P : Type) (presume : P -> input -> outcome P) (plan_of : nat -> P)
         (D : Type) (dev : D -> nat -> devmeth -> D * devres) (d : D) (paus stag : list nat) (rec : bool)
         (evs0 evsC : list event) (a : mainact) (s1 : st P D) (e : exn) (os1 : list obs),
    nobad P presume plan_of D dev (init P D d paus stag rec) (evs0 ++ EvTask :: evsC) ->
    let s0 := fst (run P presume plan_of D dev (init P D d paus stag rec) evs0) in
    RE_Inv.visited P presume plan_of D dev s0 (s1, CExit (XExn e), os1) -> sleeps (XExn e) = false ->
    no_main evsC = true -> is_call a = true ->
    let sf := fst (step P presume plan_of D dev s0 EvTask) in
    let sC := fst (run P presume plan_of D dev sf evsC) in
    docs_of (snd (step P presume plan_of D dev s0 EvTask)) =
      docs_of os1 ++ stops_of (bundlers P D s1) XFail (match e with EGeneratorExit => reason P D s1 | _ => RsExnText end) /\
    state P D sf = Idle /\ bundlers P D sf = [] /\ pc P D sf = PcDone (TRaise (raised_of e)) /\
    snd (step P presume plan_of D dev sC (EvMainDone a)) =
      [OOut (match main_err P D sC with Some e' => OutRaise e' | None => OutRaise (raised_of e) end)
            Idle (deferred P D sC) (resumable P D sC)].
Proof. exact end_to_end_fail. Qed.
Print Assumptions C02_end_to_end_fail.

(* there is no other way: every final sleep was entered by a decision, every task step is classified *)
Theorem C02_final_sleep_has_decision :
  forall (P : Type) (presume : P -> input -> outcome P) (plan_of : nat -> P)
         (D : Type) (dev : D -> nat -> devmeth -> D * devres) (d : D) (paus stag : list nat) (rec : bool)
         (evs : list event) (r : tres),
    nobad P presume plan_of D dev (init P D d paus stag rec) evs ->
    pc P D (fst (run P presume plan_of D dev (init P D d paus stag rec) evs)) = PcFinalSleep r ->
    exists evs0 evsB s1 x os1,
      evs = evs0 ++ EvTask :: evsB /\ no_task evsB = true /\
      RE_Inv.visited P presume plan_of D dev (fst (run P presume plan_of D dev (init P D d paus stag rec) evs0)) (s1, CExit x, os1) /\
      sleeps x = true /\ r = result_of x.
Proof. exact final_sleep_has_decision. Qed.
Print Assumptions C02_final_sleep_has_decision.

Theorem C02_task_step_classified :
  forall (P : Type) (presume : P -> input -> outcome P) (plan_of : nat -> P)
         (D : Type) (dev : D -> nat -> devmeth -> D * devres) (s s' : st P D) (o : list obs),
    task_step P presume plan_of D dev s = (s', o) -> ~ In (OBad 1) o -> task_end P presume plan_of D dev s s' o.
Proof. exact task_step_classified. Qed.
Print Assumptions C02_task_step_classified.

Theorem C02_decision_unique :
  forall (P : Type) (presume : P -> input -> outcome P) (plan_of : nat -> P)
         (D : Type) (dev : D -> nat -> devmeth -> D * devres) (s s1 : st P D) x os1 (s2 : st P D) y os2,
    RE_Inv.visited P presume plan_of D dev s (s1, CExit x, os1) -> RE_Inv.visited P presume plan_of D dev s (s2, CExit y, os2) ->
    (s1, x, os1) = (s2, y, os2).
Proof. exact decision_unique. Qed.
Print Assumptions C02_decision_unique.

(* the override rule, exactly: what any event other than a task step or an accepted new call does to
   pc, status and reason *)
Theorem C02_override_rule :
  forall (P : Type) (presume : P -> input -> outcome P) (plan_of : nat -> P)
         (D : Type) (dev : D -> nat -> devmeth -> D * devres) (s : st P D) e s' o,
    is_task e = false -> accepted_call P D s e = false -> step P presume plan_of D dev s e = (s', o) ->
    pc P D s' = pc P D s /\ exit_reason_set P D s' = exit_reason_set P D s /\
    (exit_status P D s', reason P D s') = override_at P D s e.
Proof. exact step_nontask. Qed.
Print Assumptions C02_override_rule.

Theorem C02_reason_provenance :
  forall (P : Type) (presume : P -> input -> outcome P) (plan_of : nat -> P)
         (D : Type) (dev : D -> nat -> devmeth -> D * devres) (s : st P D) e s' o,
    step P presume plan_of D dev s e = (s', o) -> ~ In (OBad 1) o ->
    reason P D s' = reason P D s \/ reason P D s' = RsEmpty \/ exists rs, e = EvReqAbort rs /\ reason P D s' = rs.
Proof. exact reason_provenance. Qed.
Print Assumptions C02_reason_provenance.

(* (9) from the accepted request to the decision (Proofs/RE_ExitCause.v): a stop / abort / halt request
   accepted while `_run` is in its loop leaves the task cancelled in state stopping / aborting / halting
   with the interruption mark set; if every frame on the plan stack lets the substituted exception
   propagate and no failed status is pending, the next task step decides exactly that exception - so,
   by (8): stop -> success, abort / halt -> abort, and RunEngineInterrupted for the caller *)
Theorem C02_request_lands :
  forall (P : Type) (presume : P -> input -> outcome P) (plan_of : nat -> P)
         (D : Type) (dev : D -> nat -> devmeth -> D * devres) (s : st P D) e x s' o,
    RE_ExitCause.req_state e = Some x -> state P D s = Running -> RE_ExitCause.in_loop (pc P D s) = true ->
    step P presume plan_of D dev s e = (s', o) ->
    state P D s' = x /\ must_cancel P D s' = true /\ pc P D s' = pc P D s /\ plans P D s' = plans P D s /\
    resps P D s' = resps P D s /\ stashed P D s' = stashed P D s /\ exc_slot P D s' = exc_slot P D s /\
    interrupted P D s' = true.
Proof. exact RE_ExitCause.request_lands. Qed.
Print Assumptions C02_request_lands.

Theorem C02_request_decides :
  forall (P : Type) (presume : P -> input -> outcome P) (plan_of : nat -> P)
         (D : Type) (dev : D -> nat -> devmeth -> D * devres) (s : st P D) e,
    RE_Inv.Inv P D True s -> RE_ExitCause.in_loop (pc P D s) = true -> must_cancel P D s = true ->
    RE_ExitCause.cancel_exn (state P D s) = Some e -> stashed P D s = None -> exc_slot P D s = None ->
    Forall (RE_ExitCause.propagates P presume e) (plans P D s) ->
    exists s1 os1, RE_Inv.visited P presume plan_of D dev s (s1, CExit (XExn e), os1) /\ state P D s1 = state P D s.
Proof. exact RE_ExitCause.request_decides. Qed.
Print Assumptions C02_request_decides.

(* The earlier end-to-end reading (kept for the record): "a RunStop that is not 'success' means the
   engine was interrupted or the task raised".  It is FALSE: the exception class decides, whoever
   raised it.  A plan that raises RequestAbort itself gets 'abort' and a normal return. *)
Definition C02_full_stmt : Prop :=
  forall (P : Type) (presume : P -> input -> outcome P) (plan_of : nat -> P)
         (D : Type) (dev : D -> nat -> devmeth -> D * devres) (d : D) (paus stag : list nat) (rec : bool) (evs : list event),
    forall u xs rs num, In (ODoc (DStop u xs rs num)) (snd (run P presume plan_of D dev (init P D d paus stag rec) evs)) ->
    xs = XSuccess \/ interrupted P D (fst (run P presume plan_of D dev (init P D d paus stag rec) evs)) = true \/
    exists e, In (OTask (WRaise e)) (snd (run P presume plan_of D dev (init P D d paus stag rec) evs)).

Definition own_abort_tapes := [(0, [TY {| mid := (Some 0); mcmd := COpenRun; mobj := None; mrun := 0 |}; TE ERequestAbort])].
Definition own_abort_evs := [EvMain (ACall 0); EvPermit; EvTask; EvTask; EvTask; EvTask; EvMainDone (ACall 0)].
Lemma own_abort_obs :
  snd (run TP (t_resume own_abort_tapes) t_plan_of nat (t_dev []) (init TP nat 0 [] [] false) own_abort_evs) =
    [OState Idle Running; OTask WSleep0; OPlanIn 0 (Send VNone);
     OMsg {| mid := Some 0; mcmd := COpenRun; mobj := None; mrun := 0 |};
     ODoc (DStart 0); OResp (RVal (VUid 0)); OTask WSleep0;
     OPlanIn 0 (Send (VUid 0)); OTask WSleep0;
     ODoc (DStop 0 XAbort RsEmpty []); OState Running Idle;
     OTask WReturn; OOut (OutReturn [0]) Idle false true].
Proof. vm_compute. reflexivity. Qed.
Lemma own_abort_intr :
  interrupted TP nat (fst (run TP (t_resume own_abort_tapes) t_plan_of nat (t_dev []) (init TP nat 0 [] [] false) own_abort_evs)) = false.
Proof. vm_compute. reflexivity. Qed.
Example C02_full_stmt_refuted : ~ C02_full_stmt.
Proof.
  intros H.
  pose proof (H TP (t_resume own_abort_tapes) t_plan_of nat (t_dev [])) as H0.
  pose proof (H0 0 [] [] false own_abort_evs 0 XAbort RsEmpty []) as H1. clear H H0.
  rewrite own_abort_obs, own_abort_intr in H1.
  destruct H1 as [E|[E|[e E]]].
  - cbn. auto 20.
  - discriminate E.
  - discriminate E.
  - cbn in E. repeat (destruct E as [E|E]; [discriminate E|]). exact E.
Qed.

(* non-vacuity, recorded from the implementation: a plan raising with its run open (fail, exception
   text, re-raised), an abort (abort, given reason, interrupted), a stop (success, interrupted) *)
(* exf: {"plan": ["seq", ["m", "open_run", null, [], {}, null], ["m", "checkpoint", null, [], {}, null], ["m", "create", null, [], {"name": "primary"}, null], ["m", "read", 1, [], {}, null], ["m", "save", null, [], {}, null], ["m", "null", null, [], {}, null], ["raise", "EUser1"]], "devs": [["stage"], [], ["pause"], ["stage"]], "inject": [], "script": [], "tag": "dx1 plain"} *)
Definition exf_tapes := [(0, [TY {| mid := (Some 0); mcmd := COpenRun; mobj := None; mrun := 0 |}; TY {| mid := (Some 1); mcmd := CCheckpoint; mobj := None; mrun := 0 |}; TY {| mid := (Some 2); mcmd := (CCreate 0); mobj := None; mrun := 0 |}; TY {| mid := (Some 3); mcmd := CRead; mobj := (Some 1); mrun := 0 |}; TY {| mid := (Some 4); mcmd := CSave; mobj := None; mrun := 0 |}; TY {| mid := (Some 5); mcmd := CNull; mobj := None; mrun := 0 |}; TE EUser1])].
Definition exf_ledger := [DVal (0)%Z].
Definition exf_paus := [2].
Definition exf_stag := [0; 3].
Definition exf_rec := false.
Definition exf_evs := [EvMain (ACall 0); EvPermit; EvTask; EvTask; EvTask; EvTask; EvTask; EvCacheDone; EvTask; EvTask; EvTask; EvTask; EvMainDone (ACall 0)].
Definition exf_obs : list obs := [(OState Idle Running); (OTask WSleep0); (OPlanIn 0 (Send VNone)); (OMsg {| mid := (Some 0); mcmd := COpenRun; mobj := None; mrun := 0 |}); (ODoc (DStart 0)); (OResp (RVal (VUid 0))); (OTask WSleep0); (OPlanIn 0 (Send (VUid 0))); (OMsg {| mid := (Some 1); mcmd := CCheckpoint; mobj := None; mrun := 0 |}); (OResp (RVal VNone)); (OTask WSleep0); (OPlanIn 0 (Send VNone)); (OMsg {| mid := (Some 2); mcmd := (CCreate 0); mobj := None; mrun := 0 |}); (OResp (RVal VNone)); (OTask WSleep0); (OPlanIn 0 (Send VNone)); (OMsg {| mid := (Some 3); mcmd := CRead; mobj := (Some 1); mrun := 0 |}); (ODev 1 MRead); (OTask WFuture); (OResp (RVal (VReading 1 (0)%Z))); (OTask WSleep0); (OPlanIn 0 (Send (VReading 1 (0)%Z))); (OMsg {| mid := (Some 4); mcmd := CSave; mobj := None; mrun := 0 |}); (ODoc (DDescr 0 0 [1])); (ODoc (DEvent 0 0 1 [(1, (0)%Z)])); (OResp (RVal VNone)); (OTask WSleep0); (OPlanIn 0 (Send VNone)); (OMsg {| mid := (Some 5); mcmd := CNull; mobj := None; mrun := 0 |}); (OResp (RVal VNone)); (OTask WSleep0); (OPlanIn 0 (Send VNone)); (ODoc (DStop 0 XFail RsExnText [(0, 1)])); (OState Running Idle); (OTask (WRaise EUser1)); (OOut (OutRaise EUser1) Idle false true)].
(* exa: {"plan": ["seq", ["m", "open_run", null, [], {}, null], ["m", "checkpoint", null, [], {}, null], ["m", "create", null, [], {"name": "primary"}, null], ["m", "read", 1, [], {}, null], ["m", "save", null, [], {}, null], ["m", "null", null, [], {}, null], ["m", "null", null, [], {}, null]], "devs": [["stage"], [], ["pause"], ["stage"]], "inject": [{"at": 5, "req": "abort"}], "script": [], "tag": "dx0 abort@5"} *)
Definition exa_tapes := [(0, [TY {| mid := (Some 0); mcmd := COpenRun; mobj := None; mrun := 0 |}; TY {| mid := (Some 1); mcmd := CCheckpoint; mobj := None; mrun := 0 |}; TY {| mid := (Some 2); mcmd := (CCreate 0); mobj := None; mrun := 0 |}; TY {| mid := (Some 3); mcmd := CRead; mobj := (Some 1); mrun := 0 |}; TE ERequestAbort])].
Definition exa_ledger := [DVal (0)%Z].
Definition exa_paus := [2].
Definition exa_stag := [0; 3].
Definition exa_rec := false.
Definition exa_evs := [EvMain (ACall 0); EvPermit; EvTask; EvTask; EvTask; EvTask; EvTask; EvCacheDone; EvReqAbort (RsGiven 1); EvTask; EvTask; EvMainDone (ACall 0)].
Definition exa_obs : list obs := [(OState Idle Running); (OTask WSleep0); (OPlanIn 0 (Send VNone)); (OMsg {| mid := (Some 0); mcmd := COpenRun; mobj := None; mrun := 0 |}); (ODoc (DStart 0)); (OResp (RVal (VUid 0))); (OTask WSleep0); (OPlanIn 0 (Send (VUid 0))); (OMsg {| mid := (Some 1); mcmd := CCheckpoint; mobj := None; mrun := 0 |}); (OResp (RVal VNone)); (OTask WSleep0); (OPlanIn 0 (Send VNone)); (OMsg {| mid := (Some 2); mcmd := (CCreate 0); mobj := None; mrun := 0 |}); (OResp (RVal VNone)); (OTask WSleep0); (OPlanIn 0 (Send VNone)); (OMsg {| mid := (Some 3); mcmd := CRead; mobj := (Some 1); mrun := 0 |}); (ODev 1 MRead); (OTask WFuture); (OState Running Aborting); (OReq true); (OPlanIn 0 (Throw ERequestAbort)); (OTask WSleep0); (ODoc (DStop 0 XAbort (RsGiven 1) [])); (OState Aborting Idle); (OTask WReturn); (OOut OutInterrupted Idle false true)].
(* exs: {"plan": ["seq", ["m", "open_run", null, [], {}, null], ["m", "checkpoint", null, [], {}, null], ["m", "create", null, [], {"name": "primary"}, null], ["m", "read", 1, [], {}, null], ["m", "save", null, [], {}, null], ["m", "null", null, [], {}, null], ["m", "null", null, [], {}, null]], "devs": [["stage"], [], ["pause"], ["stage"]], "inject": [{"at": 5, "req": "stop"}], "script": [], "tag": "dx0 stop@5"} *)
Definition exs_tapes := [(0, [TY {| mid := (Some 0); mcmd := COpenRun; mobj := None; mrun := 0 |}; TY {| mid := (Some 1); mcmd := CCheckpoint; mobj := None; mrun := 0 |}; TY {| mid := (Some 2); mcmd := (CCreate 0); mobj := None; mrun := 0 |}; TY {| mid := (Some 3); mcmd := CRead; mobj := (Some 1); mrun := 0 |}; TE ERequestStop])].
Definition exs_ledger := [DVal (0)%Z].
Definition exs_paus := [2].
Definition exs_stag := [0; 3].
Definition exs_rec := false.
Definition exs_evs := [EvMain (ACall 0); EvPermit; EvTask; EvTask; EvTask; EvTask; EvTask; EvCacheDone; EvReqStop; EvTask; EvTask; EvMainDone (ACall 0)].
Definition exs_obs : list obs := [(OState Idle Running); (OTask WSleep0); (OPlanIn 0 (Send VNone)); (OMsg {| mid := (Some 0); mcmd := COpenRun; mobj := None; mrun := 0 |}); (ODoc (DStart 0)); (OResp (RVal (VUid 0))); (OTask WSleep0); (OPlanIn 0 (Send (VUid 0))); (OMsg {| mid := (Some 1); mcmd := CCheckpoint; mobj := None; mrun := 0 |}); (OResp (RVal VNone)); (OTask WSleep0); (OPlanIn 0 (Send VNone)); (OMsg {| mid := (Some 2); mcmd := (CCreate 0); mobj := None; mrun := 0 |}); (OResp (RVal VNone)); (OTask WSleep0); (OPlanIn 0 (Send VNone)); (OMsg {| mid := (Some 3); mcmd := CRead; mobj := (Some 1); mrun := 0 |}); (ODev 1 MRead); (OTask WFuture); (OState Running Stopping); (OReq true); (OPlanIn 0 (Throw ERequestStop)); (OTask WSleep0); (ODoc (DStop 0 XSuccess RsEmpty [])); (OState Stopping Idle); (OTask WReturn); (OOut OutInterrupted Idle false true)].
Example C02_nonvacuous :
  let of_ t l p s r e := model_obs t l p s r e in
  check exf_tapes exf_ledger exf_paus exf_stag exf_rec exf_evs exf_obs = true /\
  In (ODoc (DStop 0 XFail RsExnText [(0, 1)])) (of_ exf_tapes exf_ledger exf_paus exf_stag exf_rec exf_evs) /\
  In (OOut (OutRaise EUser1) Idle false true) (of_ exf_tapes exf_ledger exf_paus exf_stag exf_rec exf_evs) /\
  check exa_tapes exa_ledger exa_paus exa_stag exa_rec exa_evs exa_obs = true /\
  In (ODoc (DStop 0 XAbort (RsGiven 1) [])) (of_ exa_tapes exa_ledger exa_paus exa_stag exa_rec exa_evs) /\
  In (OOut OutInterrupted Idle false true) (of_ exa_tapes exa_ledger exa_paus exa_stag exa_rec exa_evs) /\
  check exs_tapes exs_ledger exs_paus exs_stag exs_rec exs_evs exs_obs = true /\
  In (ODoc (DStop 0 XSuccess RsEmpty [])) (of_ exs_tapes exs_ledger exs_paus exs_stag exs_rec exs_evs) /\
  In (OOut OutInterrupted Idle false true) (of_ exs_tapes exs_ledger exs_paus exs_stag exs_rec exs_evs).
Proof. vm_compute. repeat split; auto 40. Qed.

(* non-vacuity of (8): on the recorded runs above the decision hypothesis holds with the expected
   cause (fail: the plan's own error; abort: RequestAbort thrown by the engine; stop: RequestStop), and
   on a model schedule a plan that has returned (decision: success) gets 'abort' + the given reason
   because the abort request lands during the final sleep (the override rule) *)
Definition ov_tapes := [(0, [TY {| mid := (Some 0); mcmd := COpenRun; mobj := None; mrun := 0 |}; TR VNone])].
Definition ov_evs0 := [EvMain (ACall 0); EvPermit; EvTask; EvTask].
Definition ov_evsB := [EvReqAbort (RsGiven 7)].
Definition pre_state tapes ledger paus stag rec evs :=
  fst (run TP (t_resume tapes) t_plan_of nat (t_dev ledger) (init TP nat 0 paus stag rec) evs).
Definition decision_of tapes ledger paus stag rec evs : option (xkind * list obs) :=
  match decision TP (t_resume tapes) t_plan_of nat (t_dev ledger) (pre_state tapes ledger paus stag rec evs) with
  | Some (_, x, os) => Some (x, os)
  | None => None
  end.
Lemma decision_of_visited tapes ledger paus stag rec evs x os :
  decision_of tapes ledger paus stag rec evs = Some (x, os) ->
  exists s1, RE_Inv.visited TP (t_resume tapes) t_plan_of nat (t_dev ledger) (pre_state tapes ledger paus stag rec evs) (s1, CExit x, os).
Proof.
  unfold decision_of. destruct (decision _ _ _ _ _ _) as [[[s1 x'] os']|] eqn:E; [|discriminate].
  intros H; inversion H; subst. exists s1. apply decision_visited. exact E.
Qed.

Example C02_end_to_end_nonvacuous :
  (exists s1, RE_Inv.visited TP (t_resume exf_tapes) t_plan_of nat (t_dev exf_ledger)
                (pre_state exf_tapes exf_ledger exf_paus exf_stag exf_rec (firstn 11 exf_evs)) (s1, CExit (XExn EUser1), [OPlanIn 0 (Send VNone)])) /\
  sleeps (XExn EUser1) = false /\ nth_error exf_evs 11 = Some EvTask /\
  (exists os1 s1, RE_Inv.visited TP (t_resume exa_tapes) t_plan_of nat (t_dev exa_ledger)
                (pre_state exa_tapes exa_ledger exa_paus exa_stag exa_rec (firstn 9 exa_evs)) (s1, CExit (XExn ERequestAbort), os1)) /\
  sleeps (XExn ERequestAbort) = true /\ skipn 9 exa_evs = [EvTask; EvTask; EvMainDone (ACall 0)] /\
  (exists os1 s1, RE_Inv.visited TP (t_resume exs_tapes) t_plan_of nat (t_dev exs_ledger)
                (pre_state exs_tapes exs_ledger exs_paus exs_stag exs_rec (firstn 9 exs_evs)) (s1, CExit (XExn ERequestStop), os1)) /\
  exit_of (XExn ERequestStop) = XSuccess /\
  (exists os1 s1, RE_Inv.visited TP (t_resume ov_tapes) t_plan_of nat (t_dev [])
                (pre_state ov_tapes [] [] [] false ov_evs0) (s1, CExit (XRet VNone), os1)) /\
  fold_left override ov_evsB (exit_of (XRet VNone), RsEmpty) = (XAbort, RsGiven 7) /\
  no_task ov_evsB = true /\ existsb marks ov_evsB = true /\
  model_obs ov_tapes [] [] [] false (ov_evs0 ++ EvTask :: ov_evsB ++ [EvTask; EvMainDone (ACall 0)]) =
    [OState Idle Running; OTask WSleep0; OPlanIn 0 (Send VNone);
     OMsg {| mid := Some 0; mcmd := COpenRun; mobj := None; mrun := 0 |}; ODoc (DStart 0); OResp (RVal (VUid 0)); OTask WSleep0;
     OPlanIn 0 (Send (VUid 0)); OTask WSleep0; OState Running Aborting; OReq true;
     ODoc (DStop 0 XAbort (RsGiven 7) []); OState Aborting Idle; OTask (WRaise ECancelled); OOut OutInterrupted Idle false true].
Proof.
  split; [apply decision_of_visited; vm_compute; reflexivity|].
  split; [reflexivity|]. split; [reflexivity|].
  split; [eexists; apply decision_of_visited; vm_compute; reflexivity|].
  split; [reflexivity|]. split; [reflexivity|].
  split; [eexists; apply decision_of_visited; vm_compute; reflexivity|].
  split; [reflexivity|].
  split; [eexists; apply decision_of_visited; vm_compute; reflexivity|].
  repeat split; vm_compute; reflexivity.
Qed.

(* non-vacuity of (9) on the recorded abort: after the abort request the engine is aborting, the task
   cancelled inside `read`, nothing stashed or pending, and the one frame on the stack (the recorded plan)
   lets RequestAbort propagate *)
Example C02_request_decides_nonvacuous :
  let s := pre_state exa_tapes exa_ledger exa_paus exa_stag exa_rec (firstn 9 exa_evs) in
  nth_error exa_evs 8 = Some (EvReqAbort (RsGiven 1)) /\
  RE_ExitCause.in_loop (pc TP nat s) = true /\ must_cancel TP nat s = true /\
  RE_ExitCause.cancel_exn (state TP nat s) = Some ERequestAbort /\ stashed TP nat s = None /\ exc_slot TP nat s = None /\
  Forall (RE_ExitCause.propagates TP (t_resume exa_tapes) ERequestAbort) (plans TP nat s) /\ plans TP nat s <> [].
Proof.
  cbv zeta. split; [reflexivity|]. split; [vm_compute; reflexivity|]. split; [vm_compute; reflexivity|].
  split; [vm_compute; reflexivity|]. split; [vm_compute; reflexivity|]. split; [vm_compute; reflexivity|].
  assert (E : plans TP nat (pre_state exa_tapes exa_ledger exa_paus exa_stag exa_rec (firstn 9 exa_evs)) = [FUser 0 (0, 4) true])
    by (vm_compute; reflexivity).
  rewrite E. split; [|discriminate]. constructor; [vm_compute; reflexivity | constructor].
Qed.
