import argparse
import importlib
import os
import sys


def main():
    ap = argparse.ArgumentParser()
    ap.add_argument("prop")
    ap.add_argument("--tier", default=os.environ.get("VERIF_TIER", "quick"), choices=["quick", "thorough"])
    ap.add_argument("--replay", default=None)
    a = ap.parse_args()
    seed = int(os.environ.get("VERIF_SEED", "20260921"))
    from harness import core
    mod = importlib.import_module("harness.props." + a.prop)
    sys.exit(core.run_check(mod, a.tier, seed, replay=a.replay))


if __name__ == "__main__":
    main()
