(* C28 - count and repeat run the plan exactly num times with the right delays.
   Model: Gen/Repeat.v ([rresume]: bluesky.plan_stubs.repeat as a state machine).  Everything is
   universally quantified: the inner plan is any coalgebra (M V E P resume), plan() any function
   [mk] of the call index, the clock any function [now] of the number of processed messages,
   [num] any option Z, [ds] any delay source, [xs] any list of consumer inputs (sends and throws). *)
From Coq Require Import ZArith QArith List.
From BV Require Import Gen.Repeat Proofs.Repeat.
Import ListNotations.

(* The trace (checkpoints, calls of plan(), passed-through inner messages, sleeps) of every run is
   a sequence of complete repetitions  [ECheckpoint i; EInst i; inner messages...; ESleep i d']
   - the sleep present iff the i-th delay d exists, is not None and
     d' = d - (now(after the inner plan) - now(before the checkpoint)) > 0  ([spec_blocks], [sleep_of]) -
   followed by at most one unfinished repetition while running / when an exception passes through;
   it RETURNS only when range(num) is exhausted or the delays ran out in the last allowed
   repetition (or with num = None); its own ValueError comes only (a) before any message, for a
   sized iterable with fewer than num-1 entries, or (b) right after repetition k+1 when an unsized
   iterable had only k entries and k+1 < num - and no further repetition starts. *)
Theorem C28_trace_shape :
  forall (M V E P : Type) (vnone : V) (resume : P -> input V E -> outcome M V E P) (mk : nat -> P)
         (now : nat -> Q) (num : option Z) (ds : delays) (xs : list (input V E)),
    shape M E P now num ds
          (fst (run M V E P vnone resume mk now num ds (init P) xs))
          (snd (run M V E P vnone resume mk now num ds (init P) xs)).
Proof. exact trace_shape. Qed.
Print Assumptions C28_trace_shape.

(* when repeat returns, plan() was called exactly num times (0 for num <= 0) *)
Theorem C28_exactly_num :
  forall (M V E P : Type) (vnone : V) (resume : P -> input V E -> outcome M V E P) (mk : nat -> P)
         (now : nat -> Q) (num : option Z) (ds : delays) (xs : list (input V E)) (z : Z),
    num = Some z ->
    snd (run M V E P vnone resume mk now num ds (init P) xs) = FReturned ->
    inst_count M (fst (run M V E P vnone resume mk now num ds (init P) xs)) = Z.to_nat z.
Proof. exact exactly_num. Qed.
Print Assumptions C28_exactly_num.

(* ... and never more than num times, however the run goes *)
Theorem C28_at_most_num :
  forall (M V E P : Type) (vnone : V) (resume : P -> input V E -> outcome M V E P) (mk : nat -> P)
         (now : nat -> Q) (num : option Z) (ds : delays) (xs : list (input V E)) (z : Z),
    num = Some z ->
    (inst_count M (fst (run M V E P vnone resume mk now num ds (init P) xs)) <= Z.to_nat z)%nat.
Proof. exact at_most_num. Qed.
Print Assumptions C28_at_most_num.

(* each call of plan() is immediately preceded by one checkpoint (of the same repetition), and a
   checkpoint is followed by nothing else than that call *)
Theorem C28_checkpoint_before_each_run :
  forall (M V E P : Type) (vnone : V) (resume : P -> input V E -> outcome M V E P) (mk : nat -> P)
         (now : nat -> Q) (num : option Z) (ds : delays) (xs : list (input V E)),
    paired M (fst (run M V E P vnone resume mk now num ds (init P) xs)).
Proof. exact checkpoint_before_each_run. Qed.
Print Assumptions C28_checkpoint_before_each_run.

(* a sized iterable with fewer than num - 1 entries: ValueError before the first message *)
Theorem C28_sized_delays_too_short :
  forall (M V E P : Type) (vnone : V) (resume : P -> input V E -> outcome M V E P) (mk : nat -> P)
         (now : nat -> Q) (num : option Z) (ds : delays) (v : V) (xs : list (input V E)),
    sized_too_short num ds = true ->
    run M V E P vnone resume mk now num ds (init P) (Send v :: xs) = ([], FValueError).
Proof. exact sized_delays_too_short. Qed.
Print Assumptions C28_sized_delays_too_short.

(* with enough delays (a scalar; a sized iterable with >= num-1 entries; any source whose first
   num-1 entries exist) repeat never raises its ValueError *)
Theorem C28_enough_delays_no_error :
  forall (M V E P : Type) (vnone : V) (resume : P -> input V E -> outcome M V E P) (mk : nat -> P)
         (now : nat -> Q) (num : option Z) (ds : delays) (xs : list (input V E)),
    sized_too_short num ds = false -> enough_delays num ds ->
    snd (run M V E P vnone resume mk now num ds (init P) xs) <> FValueError.
Proof. exact enough_delays_no_error. Qed.
Print Assumptions C28_enough_delays_no_error.

Theorem C28_scalar_and_sized_are_enough :
  (forall num d, sized_too_short num (DScalar d) = false /\ enough_delays num (DScalar d)) /\
  (forall z l, (z - 1 <= Z.of_nat (length l))%Z ->
               sized_too_short (Some z) (DSized l) = false /\ enough_delays (Some z) (DSized l)).
Proof. split; [exact scalar_enough|exact sized_enough]. Qed.
Print Assumptions C28_scalar_and_sized_are_enough.

(* progress: if every instantiation of the inner plan returns within L messages whatever it is
   sent, and the delays are enough, then 1 + num*(L+2) sends finish the repeat: it returns after
   exactly num calls of plan() *)
Theorem C28_completes :
  forall (M V E P : Type) (vnone : V) (resume : P -> input V E -> outcome M V E P) (mk : nat -> P)
         (now : nat -> Q) (num : option Z) (ds : delays) (z : Z) (L : nat),
    num = Some z ->
    (forall k, returns_within M V E P resume L (mk k)) ->
    sized_too_short num ds = false -> enough_delays num ds ->
    forall vs : list V,
      (1 + Z.to_nat z * (L + 2) <= length vs)%nat ->
      snd (run M V E P vnone resume mk now num ds (init P) (map Send vs)) = FReturned /\
      inst_count M (fst (run M V E P vnone resume mk now num ds (init P) (map Send vs))) = Z.to_nat z.
Proof. exact completes. Qed.
Print Assumptions C28_completes.

(* not vacuous: a concrete two-message inner plan, num = 3, delays [1/2; None], a clock that makes
   the first repetition faster and the rest slower than the delay: three runs, one sleep *)
Example C28_nonvacuous :
  let now := fun n : nat => (inject_Z (Z.of_nat n) * (1#8))%Q in
  let r := srun [] (mkScript 2 None false) now (Some 3%Z) (DSized [Some (1#2)%Q; None])
                (map Send [0;0;0;0;0;0;0;0;0;0;0;0]%nat) in
  snd r = FReturned /\ inst_count smsg (fst r) = 3%nat /\
  (exists d, In (ESleep 0 d) (fst r) /\ (d == 1#8)%Q) /\
  returns_within smsg nat nat splan s_resume 2 (s_mk [] (mkScript 2 None false) 0) /\
  sized_too_short (Some 3%Z) (DSized [Some (1#2)%Q; None]) = false.
Proof.
  cbv zeta. split; [vm_compute; reflexivity|]. split; [vm_compute; reflexivity|].
  split; [|split; [|reflexivity]].
  - eexists. split; [vm_compute; right; right; right; right; left; reflexivity|]. vm_compute. reflexivity.
  - cbn. intros v. cbn. intros v'. cbn. intros v''. exact I.
Qed.
