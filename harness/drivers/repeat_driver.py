"""Drive bluesky.plan_stubs.repeat / bluesky.plans.count as plain generators under a virtual clock.

The clock seen by `repeat` (plan_stubs.time.time) is a table indexed by the number of messages of
the repeat part the consumer has processed so far: the plan itself takes no time, time passes
while a message is being handled.  Inner plans are scripts (see `make_plan`)."""
import itertools
from fractions import Fraction


class EUser(Exception):
    def __init__(self, ident):
        super().__init__(ident)
        self.ident = ident


class FakeTimeModule:
    def __init__(self, table, default):
        self.table, self.default, self.n = table, default, 0
        self.calls = 0

    def time(self):
        self.calls += 1
        return self.table[self.n] if self.n < len(self.table) else self.default


class FakeDet:
    parent = None
    name = "det"

    def read(self):
        raise AssertionError

    def describe(self):
        raise AssertionError

    def trigger(self):
        raise AssertionError

    def read_configuration(self):
        return {}

    def describe_configuration(self):
        return {}


def make_plan(scripts, default, log):
    """plan() callable: the k-th call yields Msg('m', k, j, last_sent) for j < len, then returns k
    or raises EUser; a thrown EUser is swallowed at the yield or propagates, per script."""
    from bluesky.utils import Msg
    counter = itertools.count()

    def plan(*_ignored):
        k = next(counter)
        log.append(["inst", k])
        sc = scripts[k] if k < len(scripts) else default

        def gen():
            last = 0
            for j in range(sc["len"]):
                try:
                    r = yield Msg("m", None, k, j, last)
                    last = r if isinstance(r, int) else 0
                except EUser:
                    if not sc["swallow"]:
                        raise
                    last = 0
            if sc["raise"] is not None:
                raise EUser(sc["raise"])
            return k
        return gen()
    return plan


def make_delay(spec):
    import numpy as np
    kind = spec["kind"]
    if kind == "scalar":
        return None if spec["d"] is None else float(Fraction(spec["d"]))
    vals = [None if v is None else float(Fraction(v)) for v in spec.get("vals", [])]
    if kind == "list":
        return list(vals)
    if kind == "tuple":
        return tuple(vals)
    if kind == "ndarray":
        return np.array(vals, dtype=float)
    if kind == "gen":
        return (v for v in vals)
    if kind == "count_gen":            # infinite generator  a, a+b, a+2b, ...
        a, b = float(Fraction(spec["a"])), float(Fraction(spec["b"]))
        return (a + b * i for i in itertools.count())
    raise ValueError(kind)


def drive_repeat(case):
    """Returns {"events": [...], "final": "running"|"returned"|"ValueError"|["raised", id]|other class,
    "prefix": [...commands before the repeat part...], "suffix": [...commands after it...]}"""
    import bluesky.plan_stubs as bps
    import bluesky.plans as bp
    log = []
    clock = FakeTimeModule([float(Fraction(t)) for t in case["clock"]], float(Fraction(case["clock_default"])))
    plan = make_plan(case["scripts"], case["script_default"], log)
    delay = make_delay(case["delay"])
    real_time = bps.time
    bps.time = clock
    prefix, suffix = [], []
    final = "running"
    try:
        via = case["via"]
        if via == "repeat":
            gen = bps.repeat(plan, num=case["num"], delay=delay)
            in_repeat = True
        else:
            det = FakeDet()
            gen = bp.count([det], num=case["num"], delay=delay, per_shot=plan)
            in_repeat = False
        inputs = list(case["inputs"])
        pos = 0
        done_repeat = False
        try:
            msg = None
            first = True
            while True:
                if not in_repeat and not done_repeat:
                    # wrapper prefix (stage, open_run): plain next() until open_run was yielded
                    msg = next(gen) if first else gen.send(None)
                    first = False
                    prefix.append(msg.command)
                    if msg.command == "open_run":
                        in_repeat = True
                    continue
                if done_repeat:
                    msg = gen.send(None)
                    suffix.append(msg.command)
                    continue
                if pos >= len(inputs):
                    final = "running"
                    gen.close()
                    break
                x = inputs[pos]
                pos += 1
                if x[0] == "send":
                    msg = (next(gen) if first else gen.send(x[1] if not first else None))
                else:
                    msg = gen.throw(EUser(x[1]))
                first = False
                if msg.command == "checkpoint":
                    log.append(["cp"])
                elif msg.command == "sleep":
                    d = msg.args[0]
                    f = Fraction(float(d))
                    log.append(["sleep", "%d/%d" % (f.numerator, f.denominator)])
                elif msg.command == "m":
                    log.append(["msg", msg.args[0], msg.args[1], msg.args[2]])
                else:
                    # a wrapper message after the repeat part (close_run, unstage, ...)
                    done_repeat = True
                    suffix.append(msg.command)
                    continue
                clock.n += 1
        except StopIteration:
            final = "returned"
        except EUser as e:
            final = ["raised", e.ident]
        except Exception as e:  # noqa: BLE001
            final = type(e).__name__
    finally:
        bps.time = real_time
    return {"events": log, "final": final, "prefix": prefix, "suffix": suffix, "clock_calls": clock.calls}
