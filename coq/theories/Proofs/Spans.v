(* Proofs about Engine/Spans.v (C42). *)
From BV Require Import Base.Prelude Base.KeyMap Engine.Spans.
From Coq Require Import NArith Lia.

(* values of a dict of span numbers *)
Lemma vals_aremove_subset k (l : list (key * nat)) x : In x (map snd (aremove k l)) -> In x (map snd l).
Proof.
  induction l as [|[k1 v1] t IH]; cbn; [tauto|].
  destruct (N.eqb_spec k k1) as [->|N1]; cbn; [tauto|]. intros [E|E]; [now left|right; now apply IH].
Qed.

Lemma NoDup_vals_aremove k (l : list (key * nat)) : NoDup (map snd l) -> NoDup (map snd (aremove k l)).
Proof.
  induction l as [|[k1 v1] t IH]; cbn; [trivial|].
  intros ND. inversion ND as [|? ? Hn ND']; subst.
  destruct (N.eqb_spec k k1) as [->|N1]; cbn; [assumption|].
  constructor; [|now apply IH]. intros H. apply Hn. eapply vals_aremove_subset; eauto.
Qed.

Lemma vals_aremove_gone k s (l : list (key * nat)) :
  NoDup (map snd l) -> afind k l = Some s -> ~ In s (map snd (aremove k l)).
Proof.
  induction l as [|[k1 v1] t IH]; cbn; [discriminate|].
  intros ND. inversion ND as [|? ? Hn ND']; subst.
  destruct (N.eqb_spec k k1) as [->|N1]; cbn.
  - intros E; inversion E; subst. exact Hn.
  - intros E [H|H].
    + subst v1. apply Hn. apply afind_Some_In in E. change s with (snd (k, s)). now apply in_map.
    + now apply IH in H.
Qed.

Lemma vals_aremove_keep k s (l : list (key * nat)) :
  In s (map snd l) -> afind k l <> Some s -> NoDup (map fst l) -> In s (map snd (aremove k l)).
Proof.
  induction l as [|[k1 v1] t IH]; cbn; [tauto|].
  intros HI HN ND. inversion ND as [|? ? Hn ND']; subst.
  destruct (N.eqb_spec k k1) as [->|N1]; cbn.
  - destruct HI as [E|E]; [subst; congruence|assumption].
  - destruct HI as [E|E]; [now left|right]. apply IH; assumption.
Qed.

Lemma vals_aset_subset k v (l : list (key * nat)) x : In x (map snd (aset k v l)) -> x = v \/ In x (map snd l).
Proof.
  induction l as [|[k1 v1] t IH]; cbn; [intuition|].
  destruct (N.eqb_spec k k1) as [->|N1]; cbn; [intuition|].
  intros [E|E]; [right; now left|]. apply IH in E. intuition.
Qed.

Lemma NoDup_vals_aset k v (l : list (key * nat)) :
  NoDup (map snd l) -> ~ In v (map snd l) -> NoDup (map snd (aset k v l)).
Proof.
  induction l as [|[k1 v1] t IH]; cbn.
  - intros _ _. constructor; [tauto|constructor].
  - intros ND Hn. inversion ND as [|? ? Hn1 ND']; subst.
    destruct (N.eqb_spec k k1) as [->|N1]; cbn.
    + constructor; [tauto|assumption].
    + constructor.
      * intros H. apply vals_aset_subset in H. destruct H as [H|H]; [subst; tauto|tauto].
      * apply IH; tauto.
Qed.

Lemma vals_aset_in k v (l : list (key * nat)) x :
  In x (map snd l) -> afind k l <> Some x -> In x (map snd (aset k v l)).
Proof.
  induction l as [|[k1 v1] t IH]; cbn; [tauto|].
  destruct (N.eqb_spec k k1) as [->|N1]; cbn.
  - intros [E|E] HN; [subst; congruence|now right].
  - intros [E|E] HN; [now left|right; now apply IH].
Qed.

Lemma afind_vals k s (l : list (key * nat)) : afind k l = Some s -> In s (map snd l).
Proof. intros E. apply afind_Some_In in E. change s with (snd (k, s)). now apply in_map. Qed.

Lemma vals_same_key k k' s (l : list (key * nat)) :
  NoDup (map snd l) -> afind k l = Some s -> afind k' l = Some s -> k = k'.
Proof.
  induction l as [|[k1 v1] t IH]; cbn; [discriminate|].
  intros ND. inversion ND as [|? ? Hn ND']; subst.
  destruct (N.eqb_spec k k1) as [->|N1]; destruct (N.eqb_spec k' k1) as [->|N2]; intros E1 E2; try reflexivity.
  - inversion E1; subst. exfalso. apply Hn. now apply afind_vals in E2.
  - inversion E2; subst. exfalso. apply Hn. now apply afind_vals in E1.
  - now apply IH.
Qed.

Lemma vals_In_afind s (l : list (key * nat)) : In s (map snd l) -> NoDup (map fst l) -> exists k, afind k l = Some s.
Proof.
  intros H ND. apply in_map_iff in H as [[k s'] [E H]]. cbn in E; subst. exists k. now apply afind_In.
Qed.

(* ------------------------------------------------------------------ reading logs *)

Lemma starts_for_app r l1 l2 : starts_for r (l1 ++ l2) = starts_for r l1 ++ starts_for r l2.
Proof.
  induction l1 as [|e t IH]; cbn; [reflexivity|].
  destruct e; try exact IH. destruct (Nat.eqb r r0); cbn; now rewrite IH.
Qed.

Lemma ends_of_app s l1 l2 : ends_of s (l1 ++ l2) = ends_of s l1 ++ ends_of s l2.
Proof.
  induction l1 as [|e t IH]; cbn; [reflexivity|].
  destruct e; try exact IH. destruct (Nat.eqb s s0); cbn; now rewrite IH.
Qed.

Lemma stops_of_app r l1 l2 : stops_of r (l1 ++ l2) = stops_of r l1 ++ stops_of r l2.
Proof.
  induction l1 as [|e t IH]; cbn; [reflexivity|].
  destruct e; try exact IH. destruct (Nat.eqb r r0); cbn; now rewrite IH.
Qed.

Lemma span_starts_app l1 l2 : span_starts (l1 ++ l2) = span_starts l1 ++ span_starts l2.
Proof.
  induction l1 as [|e t IH]; cbn; [reflexivity|]. destruct e; try exact IH. cbn. now rewrite IH.
Qed.

Lemma run_starts_app l1 l2 : run_starts (l1 ++ l2) = run_starts l1 ++ run_starts l2.
Proof.
  induction l1 as [|e t IH]; cbn; [reflexivity|]. destruct e; try exact IH. cbn. now rewrite IH.
Qed.

Lemma starts_for_In r s l : In s (starts_for r l) <-> In (s, r) (span_starts l).
Proof.
  induction l as [|e t IH]; cbn; [tauto|].
  destruct e; try exact IH. cbn. destruct (Nat.eqb_spec r r0) as [->|N0]; cbn; rewrite IH.
  - split; intros [E|E]; auto. inversion E; auto.
  - split; [tauto|]. intros [E|E]; [inversion E; congruence|assumption].
Qed.

(* the ends produced by _destroy_open_run_tracing_spans *)
Lemma ends_of_destroy_notin s (l : list (key * nat)) :
  ~ In s (map snd l) -> ends_of s (map (fun ks => ESpanEnd (snd ks) (Some s_aborted) None) l) = [].
Proof.
  induction l as [|[k v] t IH]; cbn; [reflexivity|].
  intros H. destruct (Nat.eqb_spec s v) as [->|N0]; [tauto|]. apply IH. tauto.
Qed.

Lemma ends_of_destroy_in s (l : list (key * nat)) :
  NoDup (map snd l) -> In s (map snd l) ->
  ends_of s (map (fun ks => ESpanEnd (snd ks) (Some s_aborted) None) l) = [(Some s_aborted, None)].
Proof.
  induction l as [|[k v] t IH]; cbn; [tauto|].
  intros ND H. inversion ND as [|? ? Hn ND']; subst.
  destruct (Nat.eqb_spec s v) as [->|N0].
  - now rewrite ends_of_destroy_notin.
  - destruct H as [E|E]; [congruence|]. now apply IH.
Qed.

Lemma keys_aremove_eq {A B} k (l1 : list (key * A)) (l2 : list (key * B)) :
  map fst l1 = map fst l2 -> map fst (aremove k l1) = map fst (aremove k l2).
Proof.
  revert l2. induction l1 as [|[k1 v1] t IH]; intros [|[k2 v2] t2]; cbn; try discriminate; [reflexivity|].
  intros E. inversion E; subst. destruct (N.eqb_spec k k2); cbn; [assumption|]. f_equal. now apply IH.
Qed.

(* ------------------------------------------------------------------ the invariant *)

Definition mkb (y : rstate) (r : nat) : bentry := {| b_run := r; b_poisoned := rr_raised (recs y r) |}.

Record Inv (x : state) (y : rstate) (L : list ev) : Prop := {
  iA1 : nrun x = nruns y;
  iA2 : active x = ract y;
  iB1 : map fst (bund x) = map fst (ropen y);
  iB2 : forall k, afind k (bund x) = option_map (mkb y) (afind k (ropen y));
  iC1 : NoDup (map fst (ropen y));
  iC2 : forall k r, afind k (ropen y) = Some r ->
          r < nruns y /\ rr_key (recs y r) = k /\ (rr_raised (recs y r) = false -> rr_stop (recs y r) = None);
  iD1 : NoDup (map fst (spans x));
  iD2 : NoDup (map snd (spans x));
  iE1 : forall s r, In (s, r) (span_starts L) -> s < nspan x /\ r < nruns y;
  iE2 : forall s r r', In (s, r) (span_starts L) -> In (s, r') (span_starts L) -> r = r';
  iE3 : forall s, ends_of s L <> [] -> s < nspan x;
  iE4 : forall s, In s (map snd (spans x)) -> s < nspan x;
  iF : forall r, r < nruns y -> exists s, starts_for r L = [s];
  iG : forall r s, r < nruns y -> rr_raised (recs y r) = false -> starts_for r L = [s] ->
         ends_of s L = expected_ends (recs y r) /\
         (In s (map snd (spans x)) -> rr_stop (recs y r) = None /\ rr_intr (recs y r) = false) /\
         (rr_stop (recs y r) = None ->
            afind (rr_key (recs y r)) (ropen y) = Some r /\
            afind (rr_key (recs y r)) (spans x) = if rr_intr (recs y r) then None else Some s);
  iI : forall s, length (ends_of s L) <= 1 /\ (In s (map snd (spans x)) -> ends_of s L = [])
}.

Lemma inv_init : Inv init rinit [].
Proof.
  constructor; cbn; try reflexivity; try (constructor; fail); try tauto; try (intros; lia); try (intros; discriminate).
  all: try (intros; congruence).
  all: try (intros; split; [lia|tauto]).
Qed.

Lemma starts_for_single_In r s l : starts_for r l = [s] -> In (s, r) (span_starts l).
Proof. intros E. apply starts_for_In. rewrite E. now left. Qed.

Lemma afind_fun {A} k (l : list (key * A)) v v' : afind k l = Some v -> afind k l = Some v' -> v = v'.
Proof. congruence. Qed.

Lemma inv_newcall x y L : Inv x y L ->
  Inv {| bund := bund x; spans := spans x; nspan := nspan x; nrun := nrun x; active := true |}
      {| recs := recs y; nruns := nruns y; ropen := ropen y; ract := true |} (L ++ [ECall]).
Proof.
  intros I. destruct I. constructor; cbn; auto;
    try (intros *; rewrite ?span_starts_app, ?starts_for_app, ?ends_of_app; cbn; rewrite ?app_nil_r; eauto; fail).
Qed.

Ltac facts I :=
  pose proof (iA1 _ _ _ I) as hA1; pose proof (iA2 _ _ _ I) as hA2; pose proof (iB1 _ _ _ I) as hB1;
  pose proof (iB2 _ _ _ I) as hB2; pose proof (iC1 _ _ _ I) as hC1; pose proof (iC2 _ _ _ I) as hC2;
  pose proof (iD1 _ _ _ I) as hD1; pose proof (iD2 _ _ _ I) as hD2; pose proof (iE1 _ _ _ I) as hE1;
  pose proof (iE2 _ _ _ I) as hE2; pose proof (iE3 _ _ _ I) as hE3; pose proof (iE4 _ _ _ I) as hE4;
  pose proof (iF _ _ _ I) as hF; pose proof (iG _ _ _ I) as hG; pose proof (iI _ _ _ I) as hII.

Lemma no_start_for_fresh x y L r : Inv x y L -> nruns y <= r -> starts_for r L = [].
Proof.
  intros I Hr. destruct (starts_for r L) as [|s t] eqn:E; [reflexivity|exfalso].
  assert (H : In (s, r) (span_starts L)) by (apply starts_for_In; rewrite E; now left).
  apply (iE1 _ _ _ I) in H. lia.
Qed.

Lemma no_end_for_fresh x y L s : Inv x y L -> nspan x <= s -> ends_of s L = [].
Proof.
  intros I Hs. destruct (ends_of s L) eqn:E; [reflexivity|exfalso].
  assert (H : ends_of s L <> []) by (rewrite E; discriminate).
  apply (iE3 _ _ _ I) in H. lia.
Qed.

Lemma inv_open x y L k : Inv x y L -> afind k (ropen y) = None ->
  Inv {| bund := bund x ++ [(k, {| b_run := nrun x; b_poisoned := false |})];
         spans := aset k (nspan x) (spans x);
         nspan := S (nspan x); nrun := S (nrun x); active := active x |}
      {| recs := upd (recs y) (nruns y) {| rr_key := k; rr_intr := false; rr_stop := None; rr_raised := false |};
         nruns := S (nruns y); ropen := ropen y ++ [(k, nruns y)]; ract := ract y |}
      (L ++ [ERunStart (nrun x); ESpanStart (nspan x) (nrun x); EOut OStarted]).
Proof.
  intros I Hk. pose proof I as I0. facts I. clear I.
  assert (Hfresh_s : ~ In (nspan x) (map snd (spans x))) by (intros H; apply hE4 in H; lia).
  constructor; cbn [bund spans nspan nrun active recs nruns ropen ract].
  - congruence.
  - assumption.
  - rewrite !map_app. cbn. congruence.
  - intros k'. rewrite !afind_app_last, hB2.
    destruct (afind k' (ropen y)) as [r|] eqn:E; cbn.
    + f_equal. unfold mkb, upd; cbn. apply hC2 in E. destruct (Nat.eqb_spec r (nruns y)); [lia|reflexivity].
    + destruct (N.eqb k' k); cbn; [|reflexivity]. unfold mkb, upd; cbn. rewrite hA1, Nat.eqb_refl. reflexivity.
  - rewrite map_app. cbn. apply NoDup_app_last; [assumption|]. now apply afind_None_notin.
  - intros k' r. rewrite afind_app_last. unfold upd.
    destruct (afind k' (ropen y)) as [r'|] eqn:E.
    + intros E'; inversion E'; subst r'. apply hC2 in E. destruct (Nat.eqb_spec r (nruns y)); [lia|].
      destruct E as (X1 & X2 & X3). repeat split; auto.
    + destruct (N.eqb_spec k' k) as [->|]; [|discriminate]. intros E'; inversion E'; subst r.
      rewrite Nat.eqb_refl. cbn. repeat split; auto.
  - now apply NoDup_keys_aset.
  - now apply NoDup_vals_aset.
  - intros s r. rewrite span_starts_app. cbn. rewrite in_app_iff. cbn. intros [H|[H|[]]].
    + apply hE1 in H. lia.
    + inversion H; subst. lia.
  - intros s r r'. rewrite span_starts_app. cbn. rewrite !in_app_iff. cbn.
    intros [H|[H|[]]] [H'|[H'|[]]]; try (inversion H; subst); try (inversion H'; subst); eauto.
    + apply hE1 in H. lia.
    + apply hE1 in H'. lia.
  - intros s. rewrite ends_of_app. cbn. rewrite app_nil_r. intros H. apply hE3 in H. lia.
  - intros s H. apply vals_aset_subset in H. destruct H as [->|H]; [lia|]. apply hE4 in H. lia.
  - intros r Hr. rewrite starts_for_app. cbn. rewrite hA1.
    destruct (Nat.eqb_spec r (nruns y)) as [->|N0].
    + rewrite (no_start_for_fresh _ _ _ _ I0) by lia. eexists; reflexivity.
    + destruct (hF r) as [s Hs]; [lia|]. exists s. now rewrite Hs.
  - intros r s Hr. rewrite starts_for_app, ends_of_app. cbn. rewrite hA1, app_nil_r. unfold upd.
    destruct (Nat.eqb_spec r (nruns y)) as [->|N0]; cbn.
    + rewrite (no_start_for_fresh _ _ _ _ I0) by lia. cbn. intros _ E; inversion E; subst s.
      rewrite (no_end_for_fresh _ _ _ _ I0) by lia.
      repeat split.
      * rewrite afind_app_last, Hk, N.eqb_refl. reflexivity.
      * apply afind_aset_eq.
    + rewrite app_nil_r. intros Hra Hs. destruct (hG r s) as (G1 & G2 & G3); [lia|assumption|assumption|].
      split; [assumption|]. split.
      * intros H. apply vals_aset_subset in H. destruct H as [->|H]; [|auto].
        apply starts_for_single_In in Hs. apply hE1 in Hs. lia.
      * intros Hst. destruct (G3 Hst) as [G4 G5]. split.
        -- rewrite afind_app_last, G4. reflexivity.
        -- rewrite afind_aset_neq; [assumption|]. intros Ek. rewrite Ek in G4. congruence.
  - intros s. rewrite ends_of_app. cbn. rewrite app_nil_r. split; [apply hII|].
    intros H. apply vals_aset_subset in H. destruct H as [->|H]; [|now apply hII].
    apply (no_end_for_fresh _ _ _ _ I0). lia.
Qed.

Lemma NoDup_keys_bund x y L : Inv x y L -> NoDup (map fst (bund x)).
Proof. intros I. rewrite (iB1 _ _ _ I). apply (iC1 _ _ _ I). Qed.

Lemma registered_run_unique x y L k k' r :
  Inv x y L -> afind k (ropen y) = Some r -> afind k' (ropen y) = Some r -> k = k'.
Proof.
  intros I H H'. apply (iC2 _ _ _ I) in H. apply (iC2 _ _ _ I) in H'. destruct H as (_ & <- & _). now destruct H' as (_ & <- & _).
Qed.

Lemma inv_close_one x y L k st rs raises x' e o :
  Inv x y L -> close_one k st rs raises x = (x', e, o) ->
  Inv x' (rclose_one k st rs raises y) (L ++ e).
Proof.
  intros I Hc. pose proof I as I0. facts I. clear I.
  unfold close_one in Hc. unfold rclose_one. rewrite hB2 in Hc.
  destruct (afind k (ropen y)) as [r|] eqn:Ek; cbn [option_map] in Hc;
    [|inversion Hc; subst; now rewrite app_nil_r].
  unfold mkb at 1 in Hc. cbn [b_poisoned b_run] in Hc.
  destruct (rr_raised (recs y r)) eqn:Era; [inversion Hc; subst; now rewrite app_nil_r|].
  destruct (hC2 _ _ Ek) as (Hr & Hkey & Hst). specialize (Hst Era).
  destruct (hF r Hr) as [sr Hsr].
  destruct (hG r sr Hr Era Hsr) as (G1 & G2 & G3). destruct (G3 Hst) as [_ G5]. rewrite Hkey in G5.
  assert (Hother : forall k' r', afind k' (ropen y) = Some r' -> k' <> k -> r' <> r).
  { intros k' r' H N0 ->. apply N0. eapply registered_run_unique; eauto. }
  destruct raises.
  - (* a subscriber raises: the run stays registered, poisoned *)
    inversion Hc; subst x' e o; clear Hc.
    constructor; cbn [bund spans nspan nrun active recs nruns ropen ract]; auto.
    + rewrite keys_aset, hB2, Ek. cbn. assumption.
    + intros k'. destruct (N.eqb_spec k' k) as [->|N0].
      * rewrite afind_aset_eq, Ek. cbn. unfold mkb, upd. cbn. now rewrite Nat.eqb_refl.
      * rewrite afind_aset_neq, hB2 by assumption. destruct (afind k' (ropen y)) as [r'|] eqn:E'; cbn; [|reflexivity].
        unfold mkb; cbn [recs]; unfold upd. destruct (Nat.eqb_spec r' r) as [->|]; [|reflexivity]. exfalso. eapply Hother; eauto.
    + intros k' r' E'. unfold upd. destruct (Nat.eqb_spec r' r) as [->|N0]; cbn.
      * destruct (hC2 _ _ E') as (X1 & X2 & X3). repeat split; auto. discriminate.
      * now apply hC2.
    + intros s r'. rewrite span_starts_app. cbn. rewrite app_nil_r. apply hE1.
    + intros s r' r''. rewrite span_starts_app. cbn. rewrite app_nil_r. apply hE2.
    + intros s. rewrite ends_of_app. cbn. rewrite app_nil_r. apply hE3.
    + intros r' Hr'. rewrite starts_for_app. cbn. rewrite app_nil_r. now apply hF.
    + intros r' s Hr'. rewrite starts_for_app, ends_of_app. cbn. rewrite !app_nil_r. unfold upd.
      destruct (Nat.eqb_spec r' r) as [->|N0]; cbn; [discriminate|]. now apply hG.
    + intros s. rewrite ends_of_app. cbn. rewrite app_nil_r. apply hII.
  - (* the run is closed: unregistered, its span (if still filed) ended *)
    unfold end_span in Hc.
    assert (Hsr_in : In (sr, r) (span_starts L)) by now apply starts_for_single_In.
    assert (Hne : forall r' s', r' <> r -> starts_for r' L = [s'] -> s' <> sr).
    { intros r' s' N0 H ->. apply N0. apply starts_for_single_In in H. eapply hE2; eauto. }
    destruct (rr_intr (recs y r)) eqn:Eintr; rewrite G5 in Hc; inversion Hc; subst x' e o; clear Hc.
    + (* interrupted before: its span was ended by abort()/halt() *)
      constructor; cbn [bund spans nspan nrun active recs nruns ropen ract]; auto.
      * now apply keys_aremove_eq.
      * intros k'. destruct (N.eqb_spec k' k) as [->|N0].
        -- rewrite !afind_aremove_eq; [reflexivity|assumption|eapply NoDup_keys_bund; eauto].
        -- rewrite !afind_aremove_neq, hB2 by assumption. destruct (afind k' (ropen y)) as [r'|] eqn:E'; cbn; [|reflexivity].
           unfold mkb; cbn [recs]; unfold upd. destruct (Nat.eqb_spec r' r) as [->|]; [|reflexivity]. exfalso. eapply Hother; eauto.
      * now apply NoDup_keys_aremove.
      * intros k' r' E'. destruct (N.eqb_spec k' k) as [->|N0]; [rewrite afind_aremove_eq in E' by assumption; discriminate|].
        rewrite afind_aremove_neq in E' by assumption. unfold upd.
        destruct (Nat.eqb_spec r' r) as [->|N1]; [exfalso; eapply Hother; eauto|]. now apply hC2.
      * intros s r'. rewrite span_starts_app. cbn. rewrite app_nil_r. apply hE1.
      * intros s r' r''. rewrite span_starts_app. cbn. rewrite app_nil_r. apply hE2.
      * intros s. rewrite ends_of_app. cbn. rewrite app_nil_r. apply hE3.
      * intros r' Hr'. rewrite starts_for_app. cbn. rewrite app_nil_r. now apply hF.
      * intros r' s Hr'. rewrite starts_for_app, ends_of_app. cbn. rewrite !app_nil_r. unfold upd.
        destruct (Nat.eqb_spec r' r) as [->|N0]; cbn.
        -- intros _ Hs. rewrite Hsr in Hs. inversion Hs; subst s. unfold expected_ends. cbn.
           split; [rewrite G1; unfold expected_ends; now rewrite Eintr|].
           split; [intros H; apply G2 in H; destruct H; congruence|discriminate].
        -- intros Hra Hs. destruct (hG r' s Hr' Hra Hs) as (X1 & X2 & X3). split; [assumption|]. split; [assumption|].
           intros Hst'. destruct (X3 Hst') as [X4 X5]. split; [|assumption].
           rewrite afind_aremove_neq; [assumption|]. intros Ek'. rewrite Ek' in X4. congruence.
      * intros s. rewrite ends_of_app. cbn. rewrite app_nil_r. apply hII.
    + (* its span is filed under k: ended with the RunStop's values *)
      constructor; cbn [bund spans nspan nrun active recs nruns ropen ract]; auto.
      * now apply keys_aremove_eq.
      * intros k'. destruct (N.eqb_spec k' k) as [->|N0].
        -- rewrite !afind_aremove_eq; [reflexivity|assumption|eapply NoDup_keys_bund; eauto].
        -- rewrite !afind_aremove_neq, hB2 by assumption. destruct (afind k' (ropen y)) as [r'|] eqn:E'; cbn; [|reflexivity].
           unfold mkb; cbn [recs]; unfold upd. destruct (Nat.eqb_spec r' r) as [->|]; [|reflexivity]. exfalso. eapply Hother; eauto.
      * now apply NoDup_keys_aremove.
      * intros k' r' E'. destruct (N.eqb_spec k' k) as [->|N0]; [rewrite afind_aremove_eq in E' by assumption; discriminate|].
        rewrite afind_aremove_neq in E' by assumption. unfold upd.
        destruct (Nat.eqb_spec r' r) as [->|N1]; [exfalso; eapply Hother; eauto|]. now apply hC2.
      * now apply NoDup_keys_aremove.
      * now apply NoDup_vals_aremove.
      * intros s r'. rewrite span_starts_app. cbn. rewrite app_nil_r. apply hE1.
      * intros s r' r''. rewrite span_starts_app. cbn. rewrite app_nil_r. apply hE2.
      * intros s. rewrite ends_of_app. cbn. destruct (Nat.eqb_spec s sr) as [->|N0].
        -- intros _. now apply hE1 in Hsr_in.
        -- rewrite app_nil_r. apply hE3.
      * intros s H. apply vals_aremove_subset in H. now apply hE4.
      * intros r' Hr'. rewrite starts_for_app. cbn. rewrite app_nil_r. now apply hF.
      * intros r' s Hr'. rewrite starts_for_app, ends_of_app. cbn. rewrite !app_nil_r. unfold upd.
        destruct (Nat.eqb_spec r' r) as [->|N0]; cbn.
        -- intros _ Hs. rewrite Hsr in Hs. inversion Hs; subst s. rewrite Nat.eqb_refl, G1.
           unfold expected_ends. cbn. rewrite Eintr, Hst. cbn.
           split; [reflexivity|]. split; [|discriminate].
           intros H. exfalso. revert H. now apply vals_aremove_gone.
        -- intros Hra Hs. destruct (hG r' s Hr' Hra Hs) as (X1 & X2 & X3).
           destruct (Nat.eqb_spec s sr) as [->|N1]; [exfalso; eapply Hne; eauto|]. rewrite app_nil_r.
           split; [assumption|]. split; [intros H; apply vals_aremove_subset in H; auto|].
           intros Hst'. destruct (X3 Hst') as [X4 X5].
           assert (rr_key (recs y r') <> k) by (intros Ek'; rewrite Ek' in X4; congruence).
           rewrite !afind_aremove_neq by assumption. now split.
      * intros s. rewrite ends_of_app. cbn. destruct (Nat.eqb_spec s sr) as [->|N0].
        -- rewrite G1. unfold expected_ends. rewrite Eintr, Hst. cbn. split; [lia|].
           intros H. exfalso. revert H. now apply vals_aremove_gone.
        -- rewrite app_nil_r. split; [apply hII|]. intros H. apply vals_aremove_subset in H. now apply hII.
Qed.

Lemma is_open_true y r : is_open y r = true <-> exists k, In (k, r) (ropen y).
Proof.
  unfold is_open. rewrite existsb_exists. split.
  - intros [[k r'] [H E]]. cbn in E. apply Nat.eqb_eq in E. subst. eauto.
  - intros [k H]. exists (k, r). split; [assumption|]. cbn. apply Nat.eqb_refl.
Qed.

Lemma is_open_afind x y L r :
  Inv x y L -> (is_open y r = true <-> afind (rr_key (recs y r)) (ropen y) = Some r).
Proof.
  intros I. rewrite is_open_true. split.
  - intros [k H]. apply (afind_In _ _ _ (iC1 _ _ _ I)) in H.
    destruct (iC2 _ _ _ I _ _ H) as (_ & -> & _). assumption.
  - intros H. eexists. eapply afind_Some_In; eauto.
Qed.

Lemma ends_of_destroy_rev_in s (l : list (key * nat)) :
  NoDup (map snd l) -> In s (map snd l) ->
  ends_of s (map (fun ks => ESpanEnd (snd ks) (Some s_aborted) None) (rev l)) = [(Some s_aborted, None)].
Proof.
  intros ND H. apply ends_of_destroy_in.
  - rewrite map_rev. now apply NoDup_rev.
  - rewrite map_rev. now apply -> in_rev.
Qed.

Lemma ends_of_destroy_rev_notin s (l : list (key * nat)) :
  ~ In s (map snd l) ->
  ends_of s (map (fun ks => ESpanEnd (snd ks) (Some s_aborted) None) (rev l)) = [].
Proof.
  intros H. apply ends_of_destroy_notin. rewrite map_rev. intros H'. apply H. now apply in_rev.
Qed.

Lemma starts_for_destroy r (l : list (key * nat)) :
  starts_for r (map (fun ks => ESpanEnd (snd ks) (Some s_aborted) None) l) = [].
Proof. induction l; cbn; auto. Qed.

Lemma span_starts_destroy (l : list (key * nat)) :
  span_starts (map (fun ks => ESpanEnd (snd ks) (Some s_aborted) None) l) = [].
Proof. induction l; cbn; auto. Qed.

Lemma inv_interrupt x y L : Inv x y L ->
  Inv {| bund := bund x; spans := []; nspan := nspan x; nrun := nrun x; active := active x |}
      {| recs := fun r => let c := recs y r in
                          if is_open y r
                          then {| rr_key := rr_key c; rr_intr := true; rr_stop := rr_stop c; rr_raised := rr_raised c |}
                          else c;
         nruns := nruns y; ropen := ropen y; ract := ract y |}
      (L ++ EInterrupt :: map (fun ks => ESpanEnd (snd ks) (Some s_aborted) None) (rev (spans x))).
Proof.
  intros I. pose proof I as I0. facts I. clear I.
  assert (Hends : forall s, ends_of s (L ++ EInterrupt :: map (fun ks => ESpanEnd (snd ks) (Some s_aborted) None) (rev (spans x)))
                  = ends_of s L ++ ends_of s (map (fun ks => ESpanEnd (snd ks) (Some s_aborted) None) (rev (spans x)))).
  { intros s. now rewrite ends_of_app. }
  constructor; cbn [bund spans nspan nrun active recs nruns ropen ract]; auto.
  - intros k. rewrite hB2. destruct (afind k (ropen y)); cbn; [|reflexivity]. unfold mkb. cbn. now destruct (is_open y n).
  - intros k r E. destruct (hC2 _ _ E) as (X1 & X2 & X3). destruct (is_open y r); cbn; auto.
  - constructor.
  - constructor.
  - intros s r. rewrite span_starts_app. cbn. rewrite span_starts_destroy, app_nil_r. apply hE1.
  - intros s r r'. rewrite span_starts_app. cbn. rewrite span_starts_destroy, app_nil_r. apply hE2.
  - intros s. rewrite Hends. destruct (in_dec Nat.eq_dec s (map snd (spans x))) as [Hin|Hnin].
    + intros _. now apply hE4.
    + rewrite ends_of_destroy_rev_notin, app_nil_r by assumption. apply hE3.
  - intros r Hr. rewrite starts_for_app. cbn. rewrite starts_for_destroy, app_nil_r. now apply hF.
  - intros r s Hr. rewrite starts_for_app. cbn. rewrite starts_for_destroy, app_nil_r, Hends.
    intros Hra Hs.
    assert (Hra' : rr_raised (recs y r) = false) by (destruct (is_open y r); assumption).
    destruct (hG r s Hr Hra' Hs) as (G1 & G2 & G3).
    destruct (is_open y r) eqn:Eop; cbn.
    + pose proof (proj1 (is_open_afind _ _ _ r I0) Eop) as Hreg.
      destruct (hC2 _ _ Hreg) as (_ & _ & Hst). specialize (Hst Hra'). destruct (G3 Hst) as [_ G5].
      destruct (rr_intr (recs y r)) eqn:Eintr.
      * assert (Hnin : ~ In s (map snd (spans x))) by (intros H; apply G2 in H; destruct H; congruence).
        rewrite ends_of_destroy_rev_notin, app_nil_r by assumption.
        rewrite G1. unfold expected_ends. rewrite Eintr. repeat split; auto. tauto.
      * assert (Hin : In s (map snd (spans x))) by (eapply afind_vals; eauto).
        rewrite ends_of_destroy_rev_in by assumption.
        rewrite G1. unfold expected_ends. rewrite Eintr, Hst. cbn. repeat split; auto. tauto.
    + destruct (rr_stop (recs y r)) as [[st rs]|] eqn:Est.
      * assert (Hnin : ~ In s (map snd (spans x))) by (intros H; apply G2 in H; destruct H; congruence).
        rewrite ends_of_destroy_rev_notin, app_nil_r by assumption.
        split; [assumption|]. split; [tauto|discriminate].
      * exfalso. destruct (G3 eq_refl) as [G4 _]. apply (is_open_afind _ _ _ r I0) in G4. congruence.
  - intros s. rewrite Hends. split; [|cbn; tauto].
    destruct (in_dec Nat.eq_dec s (map snd (spans x))) as [Hin|Hnin].
    + rewrite ends_of_destroy_rev_in by assumption. destruct (hII s) as [_ X]. rewrite (X Hin). cbn. lia.
    + rewrite ends_of_destroy_rev_notin, app_nil_r by assumption. apply hII.
Qed.

(* Q k y: whatever is still registered under k has had its RunStop spoilt by a raising subscriber *)
Definition Qk (k : key) (y : rstate) : Prop :=
  forall r, afind k (ropen y) = Some r -> rr_raised (recs y r) = true.

Lemma rclose_one_Q_self x y L k st rs : Inv x y L -> Qk k (rclose_one k st rs false y).
Proof.
  intros I r. unfold rclose_one.
  destruct (afind k (ropen y)) as [r0|] eqn:Ek; [|congruence].
  destruct (rr_raised (recs y r0)) eqn:Era.
  - rewrite Ek. intros E; inversion E; subst. assumption.
  - cbn. rewrite afind_aremove_eq by apply (iC1 _ _ _ I). discriminate.
Qed.

Lemma rclose_one_Q_other x y L k k' st rs : Inv x y L -> Qk k' y -> Qk k' (rclose_one k st rs false y).
Proof.
  intros I HQ r. unfold rclose_one.
  destruct (afind k (ropen y)) as [r0|] eqn:Ek; [|apply HQ].
  destruct (rr_raised (recs y r0)) eqn:Era; [apply HQ|].
  cbn. destruct (N.eqb_spec k' k) as [->|N0].
  - rewrite afind_aremove_eq by apply (iC1 _ _ _ I). discriminate.
  - rewrite afind_aremove_neq by assumption. intros E. unfold upd.
    destruct (Nat.eqb_spec r r0) as [->|N1].
    + exfalso. apply N0. eapply registered_run_unique; eauto.
    + now apply HQ.
Qed.

Lemma inv_close_all st rs ks : forall x y L x' e,
  Inv x y L -> close_all ks st rs x = (x', e) ->
  Inv x' (rclose_all ks st rs y) (L ++ e) /\
  (forall k, In k ks \/ Qk k y -> Qk k (rclose_all ks st rs y)).
Proof.
  induction ks as [|k0 ks IH]; intros x y L x' e I Hc; cbn in Hc |- *.
  - inversion Hc; subst. rewrite app_nil_r. split; [assumption|]. intros k [[]|H]; assumption.
  - destruct (close_one k0 (Some st) (Some rs) false x) as [[x1 e1] o1] eqn:E1.
    destruct (close_all ks st rs x1) as [x2 e2] eqn:E2. inversion Hc; subst x' e. clear Hc.
    pose proof (inv_close_one _ _ _ _ _ _ _ _ _ _ I E1) as I1.
    destruct (IH _ _ _ _ _ I1 E2) as [I2 HQ]. rewrite app_assoc. split; [assumption|].
    intros k [[->|H]|H]; apply HQ.
    + right. eapply rclose_one_Q_self; eauto.
    + now left.
    + right. eapply rclose_one_Q_other; eauto.
Qed.

Lemma inv_finalize x y L st rs x' e :
  Inv x y L -> close_all (map fst (bund x)) st rs x = (x', e) ->
  Inv {| bund := []; spans := spans x'; nspan := nspan x'; nrun := nrun x'; active := false |}
      (let y' := rclose_all (map fst (ropen y)) st rs y in
       {| recs := recs y'; nruns := nruns y'; ropen := []; ract := false |})
      (L ++ e).
Proof.
  intros I Hc. rewrite <- (iB1 _ _ _ I). destruct (inv_close_all _ _ _ _ _ _ _ _ I Hc) as [I1 HQ].
  set (y' := rclose_all (map fst (bund x)) st rs y) in *.
  assert (HQall : forall k, Qk k y').
  { intros k. apply HQ. destruct (afind k (ropen y)) eqn:E.
    - left. rewrite (iB1 _ _ _ I). apply afind_Some_In in E. change k with (fst (k, n)). now apply in_map.
    - right. intros r. congruence. }
  facts I1. clear I1. cbn zeta.
  constructor; cbn [bund spans nspan nrun active recs nruns ropen ract]; auto.
  - constructor.
  - intros k r; discriminate.
  - intros r s Hr Hra Hs. destruct (hG r s Hr Hra Hs) as (G1 & G2 & G3). split; [assumption|]. split; [assumption|].
    intros Hst. exfalso. destruct (G3 Hst) as [G4 _]. apply HQall in G4. congruence.
Qed.


Definition inert (e : list ev) : Prop :=
  span_starts e = [] /\ (forall s, ends_of s e = []) /\ (forall r, starts_for r e = []).

Lemma inv_app_inert x y L e : Inv x y L -> inert e -> Inv x y (L ++ e).
Proof.
  intros I (H1 & H2 & H3). facts I. clear I.
  constructor; auto.
  - intros s r. rewrite span_starts_app, H1, app_nil_r. apply hE1.
  - intros s r r'. rewrite span_starts_app, H1, app_nil_r. apply hE2.
  - intros s. rewrite ends_of_app, H2, app_nil_r. apply hE3.
  - intros r Hr. rewrite starts_for_app, H3, app_nil_r. now apply hF.
  - intros r s. rewrite starts_for_app, H3, app_nil_r, ends_of_app, H2, app_nil_r. apply hG.
  - intros s. rewrite ends_of_app, H2, app_nil_r. apply hII.
Qed.

Lemma inert_out o : inert [EOut o].
Proof. repeat split. Qed.

Lemma inv_step x y L o : Inv x y L -> Inv (fst (step x o)) (rstep y o) (L ++ snd (step x o)).
Proof.
  intros I. destruct o as [|k valid|k st rs raises| |st rs]; cbn [step rstep].
  - now apply inv_newcall.
  - rewrite (iB2 _ _ _ I). destruct (afind k (ropen y)) as [r|] eqn:Ek; cbn [option_map fst snd].
    + apply inv_app_inert; [assumption|apply inert_out].
    + destruct valid; cbn [negb fst snd].
      * now apply inv_open.
      * apply inv_app_inert; [assumption|apply inert_out].
  - destruct (close_one k st rs raises x) as [[x' e] o] eqn:E. cbn [fst snd].
    rewrite app_assoc. apply inv_app_inert; [|apply inert_out]. eapply inv_close_one; eauto.
  - pose proof (inv_interrupt _ _ _ I) as H. pose proof (iA2 _ _ _ I) as A.
    rewrite <- A in H |- *. destruct (active x); cbn [fst snd].
    + exact H.
    + apply inv_app_inert; [assumption|apply inert_out].
  - destruct (close_all (map fst (bund x)) st rs x) as [x' e] eqn:E. cbn [fst snd].
    eapply inv_finalize; eauto.
Qed.

Lemma inv_run h : forall x y L, Inv x y L ->
  Inv (fst (run_from x h)) (fold_left rstep h y) (L ++ snd (run_from x h)).
Proof.
  induction h as [|o h IH]; intros x y L I; cbn.
  - now rewrite app_nil_r.
  - pose proof (inv_step _ _ _ o I) as I1. destruct (step x o) as [x1 e1]. cbn [fst snd] in I1.
    specialize (IH _ _ _ I1). destruct (run_from x1 h) as [x2 e2]. cbn [fst snd] in *.
    now rewrite app_assoc.
Qed.

Lemma inv_history h : Inv (fst (run_from init h)) (runs_of h) (run_log h).
Proof. exact (inv_run h _ _ _ inv_init). Qed.

(* ------------------------------------------------------------------ the documents of the model are the runs of the specification *)

Record Inv2 (y : rstate) (L : list ev) : Prop := {
  jJ1 : run_starts L = seq 0 (nruns y);
  jJ2 : forall r, stops_of r L = match rr_stop (recs y r) with Some p => [p] | None => [] end;
  jJ3 : forall r, nruns y <= r -> rr_stop (recs y r) = None
}.

Lemma inv2_init : Inv2 rinit [].
Proof. constructor; cbn; auto. Qed.

Lemma inv2_inert y y' L e :
  Inv2 y L -> run_starts e = [] -> (forall r, stops_of r e = []) ->
  nruns y' = nruns y -> (forall r, rr_stop (recs y' r) = rr_stop (recs y r)) -> Inv2 y' (L ++ e).
Proof.
  intros [J1 J2 J3] H1 H2 Hn Hs. constructor.
  - now rewrite run_starts_app, H1, app_nil_r, Hn.
  - intros r. now rewrite stops_of_app, H2, app_nil_r, Hs.
  - intros r. rewrite Hn, Hs. apply J3.
Qed.

Lemma inv2_close_one x y L k st rs raises x' e o :
  Inv x y L -> Inv2 y L -> close_one k st rs raises x = (x', e, o) ->
  Inv2 (rclose_one k st rs raises y) (L ++ e).
Proof.
  intros I J Hc. unfold close_one in Hc. unfold rclose_one. rewrite (iB2 _ _ _ I) in Hc.
  destruct (afind k (ropen y)) as [r|] eqn:Ek; cbn [option_map] in Hc;
    [|inversion Hc; subst; now rewrite app_nil_r].
  unfold mkb at 1 in Hc. cbn [b_poisoned b_run] in Hc.
  destruct (rr_raised (recs y r)) eqn:Era; [inversion Hc; subst; now rewrite app_nil_r|].
  destruct (iC2 _ _ _ I _ _ Ek) as (Hr & Hkey & Hst). specialize (Hst Era).
  destruct J as [J1 J2 J3].
  assert (Hgoal : forall e0, run_starts e0 = [] -> (forall r', stops_of r' e0 = []) ->
            Inv2 {| recs := upd (recs y) r {| rr_key := rr_key (recs y r); rr_intr := rr_intr (recs y r);
                                              rr_stop := Some (norm_status st, norm_reason rs); rr_raised := raises |};
                    nruns := nruns y; ropen := if raises then ropen y else aremove k (ropen y); ract := ract y |}
                 (L ++ ERunStop r (norm_status st) (norm_reason rs) :: e0)).
  { intros e0 H1 H2. constructor; cbn [recs nruns].
    - rewrite run_starts_app. cbn. now rewrite H1, app_nil_r.
    - intros r'. rewrite stops_of_app. cbn. unfold upd. rewrite J2, H2.
      destruct (Nat.eqb_spec r' r) as [->|N0]; cbn.
      + now rewrite Hst.
      + now rewrite app_nil_r.
    - intros r' Hr'. unfold upd. destruct (Nat.eqb_spec r' r) as [->|N0]; [lia|]. now apply J3. }
  destruct raises.
  - inversion Hc; subst. now apply Hgoal.
  - unfold end_span in Hc. destruct (afind k (spans x)); inversion Hc; subst; apply Hgoal; auto.
Qed.

Lemma inv2_close_all st rs ks : forall x y L x' e,
  Inv x y L -> Inv2 y L -> close_all ks st rs x = (x', e) -> Inv2 (rclose_all ks st rs y) (L ++ e).
Proof.
  induction ks as [|k0 ks IH]; intros x y L x' e I J Hc; cbn in Hc |- *.
  - inversion Hc; subst. now rewrite app_nil_r.
  - destruct (close_one k0 (Some st) (Some rs) false x) as [[x1 e1] o1] eqn:E1.
    destruct (close_all ks st rs x1) as [x2 e2] eqn:E2. inversion Hc; subst x' e. clear Hc.
    rewrite app_assoc. eapply IH; eauto.
    + eapply inv_close_one; eauto.
    + eapply inv2_close_one; eauto.
Qed.

Lemma run_starts_destroy (l : list (key * nat)) :
  run_starts (map (fun ks => ESpanEnd (snd ks) (Some s_aborted) None) l) = [].
Proof. induction l; cbn; auto. Qed.

Lemma stops_of_destroy r (l : list (key * nat)) :
  stops_of r (map (fun ks => ESpanEnd (snd ks) (Some s_aborted) None) l) = [].
Proof. induction l; cbn; auto. Qed.

Lemma inv2_step x y L o : Inv x y L -> Inv2 y L -> Inv2 (rstep y o) (L ++ snd (step x o)).
Proof.
  intros I J. destruct o as [|k valid|k st rs raises| |st rs]; cbn [step rstep].
  - eapply inv2_inert; eauto.
  - rewrite (iB2 _ _ _ I). destruct (afind k (ropen y)) as [r|] eqn:Ek; cbn [option_map fst snd].
    + eapply inv2_inert; eauto.
    + destruct valid; cbn [negb fst snd]; [|eapply inv2_inert; eauto].
      destruct J as [J1 J2 J3]. constructor; cbn [recs nruns].
      * rewrite run_starts_app, J1, seq_S, (iA1 _ _ _ I). reflexivity.
      * intros r. rewrite stops_of_app. cbn. rewrite app_nil_r, J2. unfold upd.
        destruct (Nat.eqb_spec r (nruns y)) as [->|N0]; cbn; [|reflexivity]. now rewrite J3.
      * intros r Hr. unfold upd. destruct (Nat.eqb_spec r (nruns y)) as [->|N0]; [lia|]. apply J3. lia.
  - destruct (close_one k st rs raises x) as [[x' e] o] eqn:E. cbn [fst snd].
    rewrite app_assoc. eapply inv2_inert; eauto. eapply inv2_close_one; eauto.
  - rewrite <- (iA2 _ _ _ I). destruct (active x); cbn [fst snd]; [|eapply inv2_inert; eauto].
    eapply inv2_inert; eauto.
    + cbn. apply run_starts_destroy.
    + intros r. cbn. apply stops_of_destroy.
    + intros r. cbn. now destruct (is_open y r).
  - destruct (close_all (map fst (bund x)) st rs x) as [x' e] eqn:E. cbn [fst snd].
    rewrite <- (iB1 _ _ _ I). pose proof (inv2_close_all _ _ _ _ _ _ _ _ I J E) as [J1 J2 J3].
    constructor; auto.
Qed.

Lemma inv2_run h : forall x y L, Inv x y L -> Inv2 y L -> Inv2 (fold_left rstep h y) (L ++ snd (run_from x h)).
Proof.
  induction h as [|o h IH]; intros x y L I J; cbn.
  - now rewrite app_nil_r.
  - pose proof (inv_step _ _ _ o I) as I1. pose proof (inv2_step _ _ _ o I J) as J1.
    destruct (step x o) as [x1 e1]. cbn [fst snd] in *.
    specialize (IH _ _ _ I1 J1). destruct (run_from x1 h) as [x2 e2]. cbn [fst snd] in *.
    now rewrite app_assoc.
Qed.

Lemma inv2_history h : Inv2 (runs_of h) (run_log h).
Proof. exact (inv2_run h _ _ _ inv_init inv2_init). Qed.

(* ------------------------------------------------------------------ the theorems *)

Lemma exists_below_false n p : exists_below n p = false -> forall r, r < n -> p r = false.
Proof.
  induction n as [|n IH]; cbn; intros H r Hr; [lia|].
  apply orb_false_iff in H as [H1 H2]. destruct (Nat.eq_dec r n) as [->|N0]; [assumption|]. apply IH; [assumption|lia].
Qed.

Lemma exists_below_true n p : exists_below n p = true -> exists r, r < n /\ p r = true.
Proof.
  induction n as [|n IH]; cbn; intros H; [discriminate|].
  apply orb_true_iff in H as [H|H]; [exists n; split; [lia|assumption]|].
  destruct (IH H) as (r & Hr & Hp). exists r. split; [lia|assumption].
Qed.

(* the documents the model emits are those of the specification's runs *)
Theorem docs_are_the_runs h :
  run_starts (run_log h) = seq 0 (nruns (runs_of h)) /\
  forall r, stops_of r (run_log h) = match rr_stop (recs (runs_of h) r) with Some p => [p] | None => [] end.
Proof. destruct (inv2_history h) as [J1 J2 _]. now split. Qed.

(* every opened run has exactly one span; spans exist only for opened runs; span numbers are not reused *)
Theorem one_span_per_run h :
  (forall r, r < nruns (runs_of h) -> exists s, starts_for r (run_log h) = [s]) /\
  (forall s r, In (s, r) (span_starts (run_log h)) -> r < nruns (runs_of h)) /\
  (forall s r r', In (s, r) (span_starts (run_log h)) -> In (s, r') (span_starts (run_log h)) -> r = r').
Proof.
  pose proof (inv_history h) as I. split; [apply (iF _ _ _ I)|]. split.
  - intros s r H. now apply (iE1 _ _ _ I) in H.
  - apply (iE2 _ _ _ I).
Qed.

Theorem ended_at_most_once h s : length (ends_of s (run_log h)) <= 1.
Proof. apply (iI _ _ _ (inv_history h)). Qed.

(* the exact fate of the span of every run outside class f *)
Theorem span_fate h r :
  r < nruns (runs_of h) -> class_f (recs (runs_of h) r) = false ->
  exists s, starts_for r (run_log h) = [s] /\ ends_of s (run_log h) = expected_ends (recs (runs_of h) r).
Proof.
  intros Hr Hf. pose proof (inv_history h) as I. destruct (iF _ _ _ I r Hr) as [s Hs]. exists s. split; [assumption|].
  now destruct (iG _ _ _ I r s Hr Hf Hs).
Qed.

(* the property, per run *)
Definition run_span_ok (h : list op) (r : nat) : Prop :=
  forall st rs, rr_stop (recs (runs_of h) r) = Some (st, rs) ->
    exists s, starts_for r (run_log h) = [s] /\
      exists sst srs, ends_of s (run_log h) = [(sst, srs)] /\ status_agrees sst st.

Theorem closed_run_span_ok h r :
  r < nruns (runs_of h) -> class_e (recs (runs_of h) r) = false -> class_f (recs (runs_of h) r) = false ->
  run_span_ok h r.
Proof.
  intros Hr He Hf st rs Hst. destruct (span_fate h r Hr Hf) as (s & Hs & He'). exists s. split; [assumption|].
  unfold expected_ends in He'. unfold class_e in He. rewrite Hst in He, He'.
  destruct (rr_intr (recs (runs_of h) r)); cbn in He.
  - exists (Some s_aborted), None. split; [assumption|]. right. split; [reflexivity|].
    apply negb_false_iff in He. now apply N.eqb_eq in He.
  - exists (Some st), (Some rs). split; [assumption|]. now left.
Qed.

Definition all_spans_ok (h : list op) : Prop := forall r, r < nruns (runs_of h) -> run_span_ok h r.

Theorem history_spans_ok h : finding_C42_e h = false -> finding_C42_f h = false -> all_spans_ok h.
Proof.
  intros He Hf r Hr. unfold finding_C42_e, finding_C42_f in *.
  pose proof (exists_below_false _ _ Hf r Hr) as Hf'. pose proof (exists_below_false _ _ He r Hr) as He'.
  cbn beta in *. rewrite Hf' in He'. cbn in He'. rewrite andb_true_r in He'. now apply closed_run_span_ok.
Qed.

(* a run still open (not interrupted) keeps its span open *)
Theorem open_run_span_live h r :
  r < nruns (runs_of h) -> rr_stop (recs (runs_of h) r) = None -> rr_intr (recs (runs_of h) r) = false ->
  class_f (recs (runs_of h) r) = false ->
  exists s, starts_for r (run_log h) = [s] /\ ends_of s (run_log h) = [].
Proof.
  intros Hr Hst Hi Hf. destruct (span_fate h r Hr Hf) as (s & Hs & He). exists s. split; [assumption|].
  rewrite He. unfold expected_ends. now rewrite Hi, Hst.
Qed.

(* messages that are refused touch neither the state nor any span *)
Theorem refused_messages_are_silent x k :
  (forall b valid, afind k (bund x) = Some b -> step x (OpenRun k valid) = (x, [EOut ORejectedDup])) /\
  (afind k (bund x) = None -> step x (OpenRun k false) = (x, [EOut ORejectedInvalid])) /\
  (forall st rs raises, afind k (bund x) = None -> step x (CloseRun k st rs raises) = (x, [EOut OIllegal])) /\
  (active x = false -> step x Interrupt = (x, [EOut OTransitionError])).
Proof.
  repeat split; intros; cbn; unfold close_one; rewrite ?H; try reflexivity.
Qed.
