(* C24 -- relative moves are offsets from the start and are undone at the end.

   Models: Gen/Relative.v over Gen/Insert.v (plan_mutator with the insert_reads processor and its closure
   initial_positions) and Gen/Paired.v (finalize_wrapper with a final plan reading that closure; delegation layers).
   Positions are values of ANY type T with ANY binary operation [add] and ANY [zero]: no arithmetic law is used --
   "initial position plus offset" is literally [add p0 off].  The tie instantiates T = Z (Python ints) and T = binary64
   (Python floats, bit-exact).
   Devices may have parents; the pseudo-positioner coupling (coupled_parents non-empty: a pseudo axis also records its
   parent and siblings, the cleanup skips the axes of coupled parents) is in the model ([record], [restored]) and in the
   tie.  The reset theorems hold for every device tree and every coupled_parents.  The per-step offsets theorems keep
   the suffix _partial: the strong form is for device sets without a coupled pseudo-positioner, the form for arbitrary
   coupling has weaker clauses (witnesses below), and a set addressed to the pseudo-positioner OBJECT itself through
   relative_set_wrapper (Python: tuple + offset raises TypeError) is not modelled; see manifest_parts/C24.json.

   All theorems: for EVERY wrapped plan (any coalgebra P, resume, any state p), every message encoding with
   view (mk v) = v, every device classification [kind] / [elig] (`devices is None or obj in devices`), every answer
   decoding [pos_of], every attribute value [position].  Only `exact lemma` proofs (Proofs/Relative.v). *)
From Coq Require Import ZArith.
From BV Require Import Base.Prelude Gen.Coalg Gen.PyGen Gen.Mutators Gen.Paired Gen.Insert Gen.Relative.
From BV Require Import Proofs.Relative.
From BV Require Gen.Tie Gen.TiePaired Gen.TieRelative.

(* relative_set_wrapper = msg_mutator(plan_mutator(plan, insert_reads), rewrite_pos).
   [x] is ANY state of the plan_mutator layer reachable by ANY script s (every input kind, any length), [i] any next
   input, and the step yields message [m] reaching state [x'].  Then:
   1. initial_positions is unchanged or has gained exactly one device d that was not recorded, is eligible, with value
      obj.position (devices with that attribute) or the position decoded from an answer (0 for the answer None)
      -- so each initial position is read once;
   2. a recorded initial position never changes;
   3. if m is a set(d, off) on an eligible device and the step is outside finding class C24-a, d is recorded by then and
      rewrite_pos replaces m by a new message set(d, add p0 off) with p0 the recorded initial position of d
      -- so the position query was answered before the first set of d left;
   4. ineligible devices are never recorded (their set messages pass unchanged, by 5 and the definition of rewrite_pos);
   5. every message that is not a set passes unchanged. *)
Theorem C24_relative_sets_are_offsets_partial :
  forall (T P : Type) (add : T -> T -> T) (zero : T) (pos_of : val -> T) (kind : dev -> dkind) (position : dev -> T)
         (resume : P -> input -> outcome P) (view : msg -> rview T) (mk : rview T -> msg) (elig : dev -> bool)
         (parent : dev -> option dev) (coupled : dev -> bool) (pseudos : dev -> list dev) (comps : T -> list T),
    (forall v, view (mk v) = v) ->
    (forall p, coupled p = false) ->           (* any parents (stage.x ...), but no coupled pseudo-positioner *)
    forall (p : P) (s : list input) x i m x',
      let ins := ins_resume resume (rel_decide zero pos_of kind position view mk elig parent coupled pseudos comps) in
      after ins (IStart p []) s = Some x -> ins x i = Yielded m x' ->
      recorded zero pos_of kind position elig (ins_store x Close) (ins_store x' Close) /\
      (forall d p0, ps_get d (ins_store x Close) = Some p0 -> ps_get d (ins_store x' Close) = Some p0) /\
      (forall d off g, view m = RSet d off g -> elig d = true -> c24a_step resume view elig x i = false ->
         exists p0, ps_get d (ins_store x' Close) = Some p0 /\ rewrite_pos add view x' m = Some (RSet d (add p0 off) g)) /\
      (forall d off g, view m = RSet d off g -> elig d = false -> ps_get d (ins_store x' Close) = None) /\
      (forall c, view m = c -> (forall d off g, c <> RSet d off g) -> rewrite_pos add view x' m = None).
Proof. exact @relative_step. Qed.
Print Assumptions C24_relative_sets_are_offsets_partial.

(* The same WITHOUT the hypothesis on coupled_parents: any device tree, any coupled pseudo-positioner parents.
   Clauses 1, 3, 5 survive in this form: initial_positions is unchanged or extended by ONE run of the recording code
   [record] (Gen/Relative.v: the device and -- for an axis of a coupled pseudo-positioner -- its parent and siblings) for
   an eligible device not recorded before; nothing recorded is ever forgotten; a set on an eligible device leaves -- outside
   class C24-a -- only once its device is recorded and is re-created as set(add p0 off) with p0 the value recorded for it
   at that moment; non-set messages pass unchanged.  Clauses 2 and 4 of the theorem above, and "exactly one device" in
   clause 1, do NOT survive coupling: C24_coupled_clauses_refuted below. *)
Theorem C24_relative_sets_are_offsets_coupled_partial :
  forall (T P : Type) (add : T -> T -> T) (zero : T) (pos_of : val -> T) (kind : dev -> dkind) (position : dev -> T)
         (resume : P -> input -> outcome P) (view : msg -> rview T) (mk : rview T -> msg) (elig : dev -> bool)
         (parent : dev -> option dev) (coupled : dev -> bool) (pseudos : dev -> list dev) (comps : T -> list T),
    (forall v, view (mk v) = v) ->
    forall (p : P) (s : list input) x i m x',
      let ins := ins_resume resume (rel_decide zero pos_of kind position view mk elig parent coupled pseudos comps) in
      after ins (IStart p []) s = Some x -> ins x i = Yielded m x' ->
      recorded_c zero pos_of kind position elig parent coupled pseudos comps (ins_store x Close) (ins_store x' Close) /\
      (forall k, has k (ins_store x Close) -> has k (ins_store x' Close)) /\
      (forall d off g, view m = RSet d off g -> elig d = true -> c24a_step resume view elig x i = false ->
         exists p0, ps_get d (ins_store x' Close) = Some p0 /\ rewrite_pos add view x' m = Some (RSet d (add p0 off) g)) /\
      (forall c, view m = c -> (forall d off g, c <> RSet d off g) -> rewrite_pos add view x' m = None).
Proof. exact @relative_step_coupled. Qed.
Print Assumptions C24_relative_sets_are_offsets_coupled_partial.

(* reset_positions_wrapper = finalize_wrapper(plan_mutator(plan, insert_reads), reset()): for every script that
   neither closes nor halts the wrapper the whole trace is the reference: the plan_mutator layer (to which the theorem
   above applies verbatim: same machine), then -- when it ends by return or by any exception that is not a
   GeneratorExit kind -- the cleanup computed from the positions recorded by then *)
Theorem C24_reset_trace :
  forall (T P : Type) (zero : T) (pos_of : val -> T) (kind : dev -> dkind) (position : dev -> T)
         (resume : P -> input -> outcome P) (view : msg -> rview T) (mk : rview T -> msg) (elig : dev -> bool)
         (parent : dev -> option dev) (coupled : dev -> bool) (pseudos : dev -> list dev) (comps : T -> list T)
         (p : P) (s : list input),
    plain s = true ->
    trace (reset_resume zero pos_of kind position resume view mk elig parent coupled pseudos comps) (reset_init p) (Send VNone :: s)
    = s2_ref (ins_resume resume (rel_decide zero pos_of kind position view mk elig parent coupled pseudos comps)) ins_store
             (lp_resume (fun _ => false)) (fw_next (reset_plan mk parent coupled)) (IStart p []) (Send VNone :: s).
Proof. exact @reset_trace. Qed.
Print Assumptions C24_reset_trace.

(* the plan ended (success, failure, RequestStop, RequestAbort ...) with [st] recorded and the cleanup's messages are
   answered: every recorded device -- by the theorem above that includes every eligible device a set of which has left
   the wrapper, outside class C24-a -- is sent back to its recorded initial position, in first-touch order, in one
   group, followed by one wait on that group; then the wrapper ends the way the plan ended *)
Theorem C24_reset_restores_all :
  forall (T P : Type) (zero : T) (pos_of : val -> T) (kind : dev -> dkind) (position : dev -> T)
         (resume : P -> input -> outcome P) (view : msg -> rview T) (mk : rview T -> msg) (elig : dev -> bool)
         (parent : dev -> option dev) (coupled : dev -> bool) (pseudos : dev -> list dev) (comps : T -> list T)
         (p : P) (s : list input) ms t st vs rest c,
    plain s = true ->
    split (ins_resume resume (rel_decide zero pos_of kind position view mk elig parent coupled pseudos comps)) ins_store
          (IStart p []) (Send VNone :: s)
      = (ms, Some (t, st, map Send vs ++ rest)) ->
    plain_end t = Some c -> length vs = S (length (restored parent coupled st)) ->
    trace (reset_resume zero pos_of kind position resume view mk elig parent coupled pseudos comps) (reset_init p) (Send VNone :: s)
    = map OYield ms
      ++ map OYield (map (fun kv => mk (RSet (fst kv) (snd kv) G_RESET)) (restored parent coupled st) ++ [mk (RWait G_RESET)])
      ++ [compl_obs c].
Proof. exact @reset_restores_all. Qed.
Print Assumptions C24_reset_restores_all.

(* WHICH devices are restored: [restored] drops exactly the recorded devices whose parent is a coupled
   pseudo-positioner parent (`k.parent in coupled_parents`); a device whose parent is an ordinary device (stage.x),
   or that has no parent, is never dropped -- with no coupled parent at all, every recorded device is restored *)
Theorem C24_restored_spec :
  forall (T : Type) (parent : dev -> option dev) (coupled : dev -> bool) (st : @pstore T),
    (forall d v, In (d, v) (restored parent coupled st) <->
                 In (d, v) st /\ (forall p, parent d = Some p -> coupled p = false)) /\
    ((forall p, coupled p = false) -> restored parent coupled st = st).
Proof. exact @restored_spec. Qed.
Print Assumptions C24_restored_spec.

Definition C24_full : Prop :=
  (* the offsets clause for EVERY device set, coupled pseudo-positioners included and without the finding class; proved
     above: without coupled parents and outside class C24-a *)
  (forall (T P : Type) (add : T -> T -> T) (zero : T) (pos_of : val -> T) (kind : dev -> dkind) (position : dev -> T)
          (resume : P -> input -> outcome P) (view : msg -> rview T) (mk : rview T -> msg) (elig : dev -> bool)
          (parent : dev -> option dev) (coupled : dev -> bool) (pseudos : dev -> list dev) (comps : T -> list T),
      (forall v, view (mk v) = v) ->
      forall (p : P) (s : list input) x i m x' d off g,
        let ins := ins_resume resume (rel_decide zero pos_of kind position view mk elig parent coupled pseudos comps) in
        after ins (IStart p []) s = Some x -> ins x i = Yielded m x' ->
        view m = RSet d off g -> elig d = true ->
        exists p0, ps_get d (ins_store x' Close) = Some p0 /\ rewrite_pos add view x' m = Some (RSet d (add p0 off) g)).

(* ------------------------------------------------------------------ finding C24-a: C24_full does not hold of the code *)
Import Gen.Tie Gen.TiePaired Gen.TieRelative.
Definition fa_tbl : list (rview Z) := [RSet 0 1%Z 1; RLocate 0].
(* try: yield set(m0, +1)  except Exception: yield <the same Msg object> *)
Definition fa_plan : stmt := STry (SYield None 0) [(PException, SYield None 0)] SPass SPass.
Definition fa_ins := ins_resume (cl_resume tie_fuel)
                                (rel_decide 0%Z (pos_of_t 0%Z [0%Z; 5%Z]) (fun _ => KLocatable) (fun _ => 0%Z)
                                            (rview_t fa_tbl) (rmk_t Z.eqb fa_tbl) (fun _ => true)
                                            (fun _ => None) (fun _ => false) (fun _ => []) (fun _ => [])).

Definition is_none {A} (o : option A) : bool := match o with None => true | Some _ => false end.

(* the position query is out ([Send None]); the RunEngine throws an error at it; the plan yields the same message
   object again: it leaves (message 0 = set(m0, +1)) with no position recorded, rewrite_pos leaves it unchanged --
   an absolute move instead of a relative one -- and the step is in the finding class *)
Theorem C24_a_refuted :
  forallb (fun v => rview_eqb Z.eqb (rview_t fa_tbl (rmk_t Z.eqb fa_tbl v)) v) fa_tbl = true /\
  (match after fa_ins (IStart (cl_init fa_plan) []) [Send VNone] with
   | Some x =>
       match fa_ins x (Throw (EUser 0)) with
       | Yielded m x' =>
           Nat.eqb m 0
           && rview_eqb Z.eqb (rview_t fa_tbl m) (RSet 0 1%Z 1)
           && is_none (ps_get 0 (ins_store x' Close))
           && is_none (rewrite_pos Z.add (rview_t fa_tbl) x' m)
           && c24a_step (cl_resume tie_fuel) (rview_t fa_tbl) (fun _ => true) x (Throw (EUser 0))
       | _ => false
       end
   | None => false
   end) = true.
Proof. vm_compute. split; reflexivity. Qed.

(* Under coupling three clauses of the uncoupled theorem fail -- by design of the recording code, not by accident.
   Pseudo-positioner 3 (coupled) with pseudo axes 0 and 2, position (10, 20):
   (a) one recording step records THREE devices, and the axis gets the parent's component (10), not its own setpoint (5);
   (b) devices 2 and 3 are recorded although only device 0 is eligible;
   (c) a recorded value CAN change: the exact condition for "never changes" is that every tuple recorded for a coupled
       parent has as many components as the parent has pseudo axes (then all axes are recorded with the parent and none
       of them is ever recorded again) and that every pseudo axis names that parent as its .parent; with a 1-tuple (7)
       recorded for parent 3 first, recording axis 2 later overwrites the parent's value by its .position. *)
Definition cp_parent (d : dev) : option dev := match d with 0 | 2 => Some 3 | _ => None end.
Definition cp_coupled (d : dev) : bool := Nat.eqb d 3.
Definition cp_pseudos (d : dev) : list dev := match d with 3 => [0; 2] | _ => [] end.
Definition cp_position (d : dev) : tv := match d with 3 => TT [10; 20]%Z | _ => TS 0 end.
Definition cp_record := record cp_position cp_parent cp_coupled cp_pseudos tv_comps.

Theorem C24_coupled_clauses_refuted :
  cp_record 0 (TS 5) [] = [(0, TS 10); (3, TT [10; 20]%Z); (2, TS 20)] /\
  (let st1 := cp_record 3 (TT [7]%Z) [] in
   let st2 := cp_record 2 (TS 20) st1 in
   ps_get 3 st1 = Some (TT [7]%Z) /\ ps_get 3 st2 = Some (TT [10; 20]%Z)).
Proof. vm_compute. repeat split; reflexivity. Qed.

(* ------------------------------------------------------------------ non-vacuity *)
Definition nv_tbl : list (rview Z) :=
  [RSet 0 1%Z 1; RSet 1 (-4)%Z 1; RWait 1; RLocate 0; RSet 0 6%Z 1; RSet 1 (-6)%Z 1; RSet 0 5%Z 104; RSet 1 (-2)%Z 104; RWait 104].
Definition nv_plan : stmt := SSeq (SYield None 0) (SSeq (SYield None 1) (SSeq (SYield None 2) (SRaise (EUser 1)))).
Definition nv_kind (d : dev) : dkind := match d with 0 => KLocatable | _ => KPosition end.
Definition nv_pos_attr (d : dev) : Z := (-2)%Z.
Definition nv_parent (d : dev) : option dev := match d with 0 | 1 => Some 7 | _ => None end.   (* stage.x, stage.y *)

(* devices 0 and 1 are the axes of an ordinary parent device 7 (stage.x, stage.y).
   device 0 is located at 5, device 1 has position -2; the plan moves them by +1 and -4, waits, then fails:
   reset(relative(plan)) commands 6 and -6, then sends both back to 5 and -2 and re-raises *)
Example C24_nonvacuous :
  let rel := rel_resume Z.add 0%Z (pos_of_t 0%Z [0%Z; 5%Z]) nv_kind nv_pos_attr (cl_resume tie_fuel)
                        (rview_t nv_tbl) (rmk_t Z.eqb nv_tbl) (rmkn_t Z.eqb nv_tbl) (fun _ => true)
                        nv_parent (fun _ => false) (fun _ => []) (fun _ => []) in
  let s := [Send (VInt 1); Send (VInt 1); Send VNone; Send VNone; Send VNone; Send VNone; Send VNone; Send VNone] in
  plain s = true /\
  trace (reset_resume 0%Z (pos_of_t 0%Z [0%Z; 5%Z]) nv_kind nv_pos_attr rel (rview_t nv_tbl) (rmk_t Z.eqb nv_tbl) (fun _ => true)
                      nv_parent (fun _ => false) (fun _ => []) (fun _ => []))
        (reset_init (rel_init (cl_init nv_plan))) (Send VNone :: s)
  = [OYield 3; OYield 3; OYield (4 + 64); OYield (5 + 128); OYield 2; OYield 6; OYield 7; OYield 8; ORaise (EUser 1)].
Proof. vm_compute. split; reflexivity. Qed.
