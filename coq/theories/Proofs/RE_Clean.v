(* C06 - devices are left cleaned up when the RunEngine goes idle (stage/unstage, set/stop part).

   The engine model (Engine/RE.v) is run on an INSTRUMENTED device oracle [ldev dev] which, for an
   arbitrary device behaviour [dev], appends every device call with its result to a ledger kept
   next to the device state.  All theorems hold for every plan coalgebra, every device behaviour
   and every schedule.  Fuel exhaustion of [drive] leaves [pc = PcNone] with a lifecycle state
   other than Idle for good, so it never satisfies the premises [state = Idle] / [pc = PcDone]. *)
From Coq Require Import List String ZArith Bool Arith Lia.
From BV Require Import Engine.RE Engine.REInst Proofs.RE_Small.
Import ListNotations.
(* file-local implicit arguments for the model's functions (the model file itself is untouched) *)
Local Arguments upd {P D}.
Local Arguments set_state_raw {P D}.
Local Arguments set_pc {P D}.
Local Arguments set_must_cancel {P D}.
Local Arguments set_permit {P D}.
Local Arguments set_blocking {P D}.
Local Arguments set_plans {P D}.
Local Arguments set_resps {P D}.
Local Arguments set_cache {P D}.
Local Arguments set_rewindable {P D}.
Local Arguments set_exc_slot {P D}.
Local Arguments set_stashed {P D}.
Local Arguments set_interrupted {P D}.
Local Arguments set_deferred {P D}.
Local Arguments set_exit {P D}.
Local Arguments upd2 {P D}.
Local Arguments set_bundlers {P D}.
Local Arguments set_staged {P D}.
Local Arguments set_moved {P D}.
Local Arguments set_seen {P D}.
Local Arguments set_groups {P D}.
Local Arguments set_statuses {P D}.
Local Arguments set_futs {P D}.
Local Arguments set_uids {P D}.
Local Arguments set_pardon {P D}.
Local Arguments set_dst {P D}.
Local Arguments set_task_set {P D}.
Local Arguments set_ghost {P D}.
Local Arguments interrupt {P D}.
Local Arguments resumable {P D}.
Local Arguments set_state {P D}.
Local Arguments cancel_task {P D}.
Local Arguments map_bundlers {P D}.
Local Arguments record_interruptions {P D}.
Local Arguments reset_checkpoint {P D}.
Local Arguments rewind {P D}.
Local Arguments dcall {P D}.
Local Arguments stop_movables {P D}.
Local Arguments call_pausables {P D}.
Local Arguments get_bundler {P D}.
Local Arguments put_bundler {P D}.
Local Arguments any_bundling {P D}.
Local Arguments add_status {P D}.
Local Arguments request_pause {P D}.
Local Arguments request_pause_in_task {P D}.
Local Arguments finish_read {P D}.
Local Arguments mark_cached {P D}.
Local Arguments exec_cmd {P D}.
Local Arguments set_main {P D}.
Local Arguments set_mreq {P D}.
Local Arguments set_ers {P D}.
Local Arguments push_frame {P D}.
Local Arguments pop_plan {P D}.
Local Arguments replace_top {P D}.
Local Arguments all_resolved {P D}.
Local Arguments all_released {P D}.
Local Arguments close_runs {P D}.
Local Arguments FUEL {P D}.
Local Arguments req_result {P D}.
Local Arguments clear_call {P D}.
Local Arguments state {P D}.
Local Arguments pc {P D}.
Local Arguments must_cancel {P D}.
Local Arguments permit {P D}.
Local Arguments blocking {P D}.
Local Arguments task_set {P D}.
Local Arguments plans {P D}.
Local Arguments resps {P D}.
Local Arguments cache {P D}.
Local Arguments rewindable {P D}.
Local Arguments exc_slot {P D}.
Local Arguments stashed {P D}.
Local Arguments interrupted {P D}.
Local Arguments deferred {P D}.
Local Arguments exit_status {P D}.
Local Arguments reason {P D}.
Local Arguments bundlers {P D}.
Local Arguments staged {P D}.
Local Arguments moved {P D}.
Local Arguments pausables {P D}.
Local Arguments stageables {P D}.
Local Arguments seen {P D}.
Local Arguments groups {P D}.
Local Arguments statuses {P D}.
Local Arguments failed_seen {P D}.
Local Arguments futs {P D}.
Local Arguments uid_supply {P D}.
Local Arguments run_uids {P D}.
Local Arguments record_intr {P D}.
Local Arguments pardon {P D}.
Local Arguments mreq {P D}.
Local Arguments was_paused {P D}.
Local Arguments main_err {P D}.
Local Arguments exit_reason_set {P D}.
Local Arguments icause {P D}.
Local Arguments late_pause {P D}.
Local Arguments intr_err {P D}.
Local Arguments dst {P D}.
Local Arguments start_sub {P}.
Local Arguments helper_after_pre {P}.
Local Arguments helper_after_post {P}.
Local Arguments helper_set {P}.
Local Arguments helper_rewind_next {P}.
Local Arguments helper_resume {P}.
Local Arguments frame_resume {P}.
Local Arguments exec_start_suspender {P} plan_of {D} dev.
Local Arguments close_frames {P} presume {D}.
Local Arguments finalize {P} presume {D} dev.
Local Arguments drive {P} presume plan_of {D} dev.
Local Arguments task_step {P} presume plan_of {D} dev.
Local Arguments step {P} presume plan_of {D} dev.
Local Arguments run {P} presume plan_of {D} dev.
Local Arguments dstep {P} presume plan_of {D} dev.
Local Arguments init {P D}.

Ltac break_match :=
  match goal with
  | |- context [match ?x with _ => _ end] => destruct x eqn:?
  end.
Ltac bm_hyp H :=
  match type of H with
  | context [match ?x with _ => _ end] => destruct x eqn:?
  end.
Ltac inv_pairs :=
  repeat match goal with
         | H : (_, _) = (_, _) |- _ => inversion H; subst; clear H
         | H : Some _ = Some _ |- _ => inversion H; subst; clear H
         | H : inl _ = inl _ |- _ => inversion H; subst; clear H
         | H : inr _ = inr _ |- _ => inversion H; subst; clear H
         end.

Ltac norm_hyps :=
  repeat match goal with
         | H : (if ?c then _ else _) = _ |- _ => destruct c eqn:?
         | H : Some (_, _) = Some (_, _) |- _ => inversion H; subst; clear H
         | H : (_, _) = (_, _) |- _ => inversion H; subst; clear H
         | H : match ?x with _ => _ end = (_, _) |- _ => destruct x eqn:?
         end.

(* ------------------------------------------------------------------ the device ledger *)
Definition entry : Type := (nat * devmeth * devres)%type.
Definition e_dev (e : entry) : nat := fst (fst e).
Definition e_meth (e : entry) : devmeth := snd (fst e).
Definition e_res (e : entry) : devres := snd e.

Section Flag.
Variables on off : devmeth -> devres -> bool.
Definition fl (d : nat) (acc : bool) (e : entry) : bool :=
  if Nat.eqb (e_dev e) d
  then (if on (e_meth e) (e_res e) then true else if off (e_meth e) (e_res e) then false else acc)
  else acc.
(* the flag of device d: set by the last [on] call of d unless an [off] call of d came later *)
Definition flag (l : list entry) (d : nat) : bool := fold_left (fl d) l false.

Lemma flag_app l ml d : flag (l ++ ml) d = fold_left (fl d) ml (flag l d).
Proof. unfold flag. apply fold_left_app. Qed.

Definition noon (e : entry) : Prop := on (e_meth e) (e_res e) = false.
Definition isoff (e : entry) : Prop := on (e_meth e) (e_res e) = false /\ off (e_meth e) (e_res e) = true.

Lemma fold_noon d ml : Forall noon ml -> forall acc, fold_left (fl d) ml acc = true -> acc = true.
Proof.
  induction 1 as [|e ml He _ IH]; intros acc H; cbn in H; [exact H|].
  apply IH in H. unfold fl in H. red in He. rewrite He in H.
  destruct (Nat.eqb (e_dev e) d); [|exact H].
  destruct (off (e_meth e) (e_res e)); [discriminate | exact H].
Qed.

Lemma flag_noon l ml d : Forall noon ml -> flag (l ++ ml) d = true -> flag l d = true.
Proof. intros H. rewrite flag_app. apply fold_noon, H. Qed.

Lemma fold_off d ml : Forall isoff ml -> In d (map e_dev ml) -> forall acc, fold_left (fl d) ml acc = false.
Proof.
  induction 1 as [|e ml He Hml IH]; intros Hin acc; cbn in *; [contradiction|].
  destruct Hin as [Hd|Hin]; [|apply IH, Hin].
  destruct (fold_left (fl d) ml (fl d acc e)) eqn:E; [|reflexivity].
  apply fold_noon in E; [|eapply Forall_impl; [|exact Hml]; intros a Ha; apply Ha].
  unfold fl in E. destruct He as [H1 H2]. rewrite H1, H2, Hd, Nat.eqb_refl in E. discriminate.
Qed.

(* every device the flag could be raised for gets an [off] call: the flag is down everywhere *)
Lemma flag_cleared l ml d (S : list nat) :
  (flag l d = true -> In d S) -> S = map e_dev ml -> Forall isoff ml -> flag (l ++ ml) d = false.
Proof.
  intros HS -> Hml. destruct (in_dec Nat.eq_dec d (map e_dev ml)) as [Hin|Hn].
  - rewrite flag_app. apply fold_off; assumption.
  - destruct (flag (l ++ ml) d) eqn:E; [|reflexivity].
    apply flag_noon in E; [|eapply Forall_impl; [|exact Hml]; intros a Ha; apply Ha].
    elim Hn. apply HS, E.
Qed.
End Flag.

Definition on_us (m : devmeth) (r : devres) : bool :=
  match m, r with MStage, DRaise _ => false | MStage, _ => true | _, _ => false end.
Definition off_us (m : devmeth) (r : devres) : bool := match m with MUnstage => true | _ => false end.
Definition on_st (m : devmeth) (r : devres) : bool := match m with MSet => true | _ => false end.
Definition off_st (m : devmeth) (r : devres) : bool := match m with MStop => true | _ => false end.

(* after the last successful stage() of d there is no later unstage() call of d *)
Definition needs_unstage : list entry -> nat -> bool := flag on_us off_us.
(* after the last set() call of d there is no later stop() call of d *)
Definition needs_stop : list entry -> nat -> bool := flag on_st off_st.
Definition clean (l : list entry) : Prop := forall d, needs_unstage l d = false /\ needs_stop l d = false.

(* a call that raises neither flag *)
Definition calm (e : entry) : Prop := noon on_us e /\ noon on_st e.

(* ------------------------------------------------------------------ counting stage / unstage *)
Definition is_stage_ok (e : entry) : bool := on_us (e_meth e) (e_res e).
Definition is_unstage (e : entry) : bool := off_us (e_meth e) (e_res e).
Definition is_set (e : entry) : bool := on_st (e_meth e) (e_res e).
Definition is_stop (e : entry) : bool := off_st (e_meth e) (e_res e).

(* number of calls of device d in l selected by f *)
Definition cnt (f : entry -> bool) (l : list entry) (d : nat) : nat :=
  List.length (filter (fun e => Nat.eqb (e_dev e) d && f e) l).

(* staging depth of d: +1 per successful stage(), -1 (not below 0) per unstage() call *)
Definition depth_step (d : nat) (n : nat) (e : entry) : nat :=
  if Nat.eqb (e_dev e) d then (if is_stage_ok e then S n else if is_unstage e then pred n else n) else n.
Definition depth_from (n : nat) (l : list entry) (d : nat) : nat := fold_left (depth_step d) l n.
Definition depth (l : list entry) (d : nat) : nat := depth_from 0 l d.

(* finding class C06-b: some device is staged successfully while it is already staged *)
Fixpoint dbl (pre l : list entry) : bool :=
  match l with
  | [] => false
  | e :: l' => (is_stage_ok e && needs_unstage pre (e_dev e)) || dbl (pre ++ [e]) l'
  end.
Definition double_stage (l : list entry) : bool := dbl [] l.

(* executable form of [clean] over a finite set of devices (used by the correspondence check) *)
Definition clean_on (ds : list nat) (l : list entry) : bool :=
  forallb (fun d => negb (needs_unstage l d) && negb (needs_stop l d)) ds.

Lemma cnt_cons f e l d :
  cnt f (e :: l) d = (if Nat.eqb (e_dev e) d && f e then 1 else 0) + cnt f l d.
Proof. unfold cnt. cbn [filter]. destruct (Nat.eqb (e_dev e) d && f e); reflexivity. Qed.

Lemma depth_ge l : forall n d, n + cnt is_stage_ok l d <= depth_from n l d + cnt is_unstage l d.
Proof.
  induction l as [|e l IH]; intros n d.
  - cbn. lia.
  - rewrite !cnt_cons. unfold depth_from. cbn [fold_left]. fold (depth_from (depth_step d n e) l d).
    specialize (IH (depth_step d n e) d). unfold depth_step in *.
    destruct (Nat.eqb (e_dev e) d); cbn [andb] in *; [|lia].
    destruct (is_stage_ok e) eqn:E1; destruct (is_unstage e) eqn:E2; try lia.
Qed.

Lemma dbl_app a : forall pre b, dbl pre (a ++ b) = dbl pre a || dbl (pre ++ a) b.
Proof.
  induction a as [|e a IH]; intros pre b; cbn [dbl app].
  - rewrite app_nil_r. reflexivity.
  - rewrite IH, <- app_assoc. cbn [app]. rewrite orb_assoc. reflexivity.
Qed.

Definition b2n (b : bool) : nat := if b then 1 else 0.

Lemma depth_flag l : forall pre d,
  dbl pre l = false ->
  depth_from (b2n (needs_unstage pre d)) l d = b2n (needs_unstage (pre ++ l) d).
Proof.
  induction l as [|e l IH]; intros pre d H.
  - rewrite app_nil_r. reflexivity.
  - cbn [dbl] in H. apply orb_false_iff in H. destruct H as [H1 H2].
    unfold depth_from. cbn [fold_left]. fold (depth_from (depth_step d (b2n (needs_unstage pre d)) e) l d).
    replace (pre ++ e :: l) with ((pre ++ [e]) ++ l) by (rewrite <- app_assoc; reflexivity).
    rewrite <- (IH (pre ++ [e]) d H2). f_equal.
    unfold needs_unstage at 2. rewrite flag_app. cbn [fold_left]. fold (needs_unstage pre d).
    unfold depth_step, fl, is_stage_ok, is_unstage in *.
    destruct (Nat.eqb (e_dev e) d) eqn:E; [|reflexivity]. apply Nat.eqb_eq in E. subst d.
    destruct (on_us (e_meth e) (e_res e)); cbn [andb] in H1.
    + rewrite H1. reflexivity.
    + destruct (off_us (e_meth e) (e_res e)); [|reflexivity]. destruct (needs_unstage pre (e_dev e)); reflexivity.
Qed.

(* outside the class, the depth is 1 for the devices that still need an unstage and 0 otherwise *)
Lemma depth_needs l d : double_stage l = false -> depth l d = b2n (needs_unstage l d).
Proof. intros H. apply (depth_flag l [] d H). Qed.

(* a segment of the ledger that starts and ends with d not needing an unstage, without double
   staging: d was unstaged at least as often as it was (successfully) staged *)
Lemma count_segment l1 l2 d :
  double_stage (l1 ++ l2) = false -> needs_unstage l1 d = false -> needs_unstage (l1 ++ l2) d = false ->
  cnt is_stage_ok l2 d <= cnt is_unstage l2 d.
Proof.
  intros H H1 H2. unfold double_stage in H. rewrite dbl_app in H. apply orb_false_iff in H. destruct H as [_ H].
  pose proof (depth_flag l2 l1 d H) as E. rewrite H1, H2 in E. cbn [b2n] in E.
  pose proof (depth_ge l2 0 d) as G. rewrite E in G. lia.
Qed.

Section Clean.
Variable P : Type.
Variable presume : P -> input -> outcome P.
Variable plan_of : nat -> P.
Variable D : Type.
Variable dev : D -> nat -> devmeth -> D * devres.

(* the instrumented oracle: the device state carries the ledger of all calls with their results *)
Definition LD : Type := (D * list entry)%type.
Definition ldev (x : LD) (d : nat) (m : devmeth) : LD * devres :=
  let '(x', r) := dev (fst x) d m in ((x', snd x ++ [(d, m, r)]), r).

Notation st := (st P LD).
Definition ledger (s : st) : list entry := snd (dst s).

Definition A (s : st) : Prop := forall d, needs_unstage (ledger s) d = true -> In d (staged s).
Definition B (s : st) : Prop := forall d, needs_stop (ledger s) d = true -> In d (moved s).
Definition AB (s : st) : Prop := A s /\ B s.

Definition qpc (p : pcs) : Prop :=
  match p with PcNone | PcDone _ | PcNotStarted | PcPermit0 => True | _ => False end.
Definition quiet (s : st) : Prop :=
  match pc s with
  | PcDone _ | PcNotStarted | PcPermit0 => True
  | PcNone => state s = Idle
  | _ => False
  end.
Definition Cs (s : st) : Prop := clean (ledger s) /\ staged s = [] /\ bundlers s = [].
Definition Inv (s : st) : Prop := AB s /\ (state s = Idle -> qpc (pc s)) /\ (quiet s -> Cs s).

Definition st_mono (s s' : st) : Prop := state s' = state s \/ state s' <> Idle.
Definition cledger (s s' : st) : Prop := exists ml, Forall calm ml /\ ledger s' = ledger s ++ ml.
(* a transition that leaves the staged / moved sets alone and raises no flag *)
Definition frame0 (s s' : st) : Prop :=
  pc s' = pc s /\ staged s' = staged s /\ moved s' = moved s /\ cledger s s' /\ st_mono s s'.
Definition frame (s s' : st) : Prop := frame0 s s' /\ (bundlers s = [] -> bundlers s' = []).
(* the ledger only grows *)
Definition ext (s s' : st) : Prop := exists l, ledger s' = ledger s ++ l.
Definition R (s s' : st) : Prop := st_mono s s' /\ ext s s' /\ (AB s -> AB s').

Lemma st_mono_refl s : st_mono s s. Proof. left; reflexivity. Qed.
Lemma st_mono_trans a b c : st_mono a b -> st_mono b c -> st_mono a c.
Proof.
  unfold st_mono. intros [H1|H1] [H2|H2]; [left; congruence | right; assumption | right; congruence | right; assumption].
Qed.
Lemma cledger_refl s : cledger s s.
Proof. exists []. split; [constructor | rewrite app_nil_r; reflexivity]. Qed.
Lemma cledger_trans a b c : cledger a b -> cledger b c -> cledger a c.
Proof.
  intros [m1 [F1 E1]] [m2 [F2 E2]]. exists (m1 ++ m2). split; [apply Forall_app; split; assumption|].
  rewrite E2, E1, app_assoc. reflexivity.
Qed.

Lemma frame0_refl s : frame0 s s.
Proof.
  split; [reflexivity|]. split; [reflexivity|]. split; [reflexivity|].
  split; [apply cledger_refl | apply st_mono_refl].
Qed.
Lemma frame0_trans a b c : frame0 a b -> frame0 b c -> frame0 a c.
Proof.
  intros (p1 & s1 & m1 & l1 & t1) (p2 & s2 & m2 & l2 & t2).
  split; [congruence|]. split; [congruence|]. split; [congruence|].
  split; [eapply cledger_trans | eapply st_mono_trans]; eassumption.
Qed.
Lemma frame_refl s : frame s s.
Proof. split; [apply frame0_refl | tauto]. Qed.
Lemma frame_trans a b c : frame a b -> frame b c -> frame a c.
Proof. intros [F1 B1] [F2 B2]. split; [eapply frame0_trans; eassumption | tauto]. Qed.

Lemma ext_refl s : ext s s. Proof. exists []. rewrite app_nil_r. reflexivity. Qed.
Lemma ext_trans a b c : ext a b -> ext b c -> ext a c.
Proof. intros [l1 E1] [l2 E2]. exists (l1 ++ l2). rewrite E2, E1, app_assoc. reflexivity. Qed.
Lemma R_refl s : R s s. Proof. split; [apply st_mono_refl | split; [apply ext_refl | tauto]]. Qed.
Lemma R_trans a b c : R a b -> R b c -> R a c.
Proof.
  intros (t1 & e1 & H1) (t2 & e2 & H2).
  split; [eapply st_mono_trans; eassumption | split; [eapply ext_trans; eassumption | tauto]].
Qed.

Lemma calm_us l ml d : Forall calm ml -> needs_unstage (l ++ ml) d = true -> needs_unstage l d = true.
Proof. intros H. apply flag_noon. eapply Forall_impl; [|exact H]. intros a Ha; apply Ha. Qed.
Lemma calm_st l ml d : Forall calm ml -> needs_stop (l ++ ml) d = true -> needs_stop l d = true.
Proof. intros H. apply flag_noon. eapply Forall_impl; [|exact H]. intros a Ha; apply Ha. Qed.

Lemma cledger_clean s s' : cledger s s' -> clean (ledger s) -> clean (ledger s').
Proof.
  intros [ml [F E]] Hc d. rewrite E. destruct (Hc d) as [H1 H2]. split.
  - destruct (needs_unstage (ledger s ++ ml) d) eqn:X; [|reflexivity]. apply calm_us in X; [congruence | exact F].
  - destruct (needs_stop (ledger s ++ ml) d) eqn:X; [|reflexivity]. apply calm_st in X; [congruence | exact F].
Qed.

Lemma frame0_R s s' : frame0 s s' -> R s s'.
Proof.
  intros (p1 & s1 & m1 & [ml [F E]] & t1). split; [exact t1|]. split; [exists ml; exact E|].
  intros [HA HB]. split; intros d Hd.
  - rewrite s1. apply HA. rewrite E in Hd. eapply calm_us; eassumption.
  - rewrite m1. apply HB. rewrite E in Hd. eapply calm_st; eassumption.
Qed.
Lemma frame_R s s' : frame s s' -> R s s'.
Proof. intros [H _]. apply frame0_R, H. Qed.

(* same (pc, state, staged, moved, bundlers, device state) *)
Lemma frame0_same (s s' : st) :
  pc s' = pc s -> state s' = state s -> staged s' = staged s -> moved s' = moved s -> dst s' = dst s -> frame0 s s'.
Proof.
  intros Hp Hs Hst Hm Hd.
  split; [assumption|]. split; [assumption|]. split; [assumption|]. split; [|left; exact Hs].
  exists []. split; [constructor|]. unfold ledger. rewrite Hd, app_nil_r. reflexivity.
Qed.
Lemma frame_same (s s' : st) :
  pc s' = pc s -> state s' = state s -> staged s' = staged s -> moved s' = moved s -> dst s' = dst s ->
  bundlers s' = bundlers s -> frame s s'.
Proof.
  intros Hp Hs Hst Hm Hd Hb. split; [|intros E; rewrite Hb; exact E].
  split; [assumption|]. split; [assumption|]. split; [assumption|]. split; [|left; exact Hs].
  exists []. split; [constructor|]. unfold ledger. rewrite Hd, app_nil_r. reflexivity.
Qed.
Lemma R_same (s s' : st) :
  state s' = state s -> staged s' = staged s -> moved s' = moved s -> dst s' = dst s -> R s s'.
Proof.
  intros Hs Hst Hm Hd. split; [left; exact Hs|].
  split; [exists []; unfold ledger; rewrite Hd, app_nil_r; reflexivity|].
  unfold AB, A, B, ledger. rewrite Hst, Hm, Hd. tauto.
Qed.

Lemma Inv_frame s s' : frame s s' -> Inv s -> Inv s'.
Proof.
  intros [F Hb] (HAB & HT & HC). pose proof (frame0_R _ _ F) as (_ & _ & HR).
  destruct F as (p1 & s1 & m1 & Hl & t1).
  assert (Q : quiet s' -> quiet s).
  { unfold quiet. rewrite p1. destruct (pc s); auto. intros E. destruct t1 as [t1|t1]; congruence. }
  split; [apply HR, HAB|]. split.
  - intros E. rewrite p1. apply HT. destruct t1 as [t1|t1]; congruence.
  - intros Hq. destruct (HC (Q Hq)) as (c1 & c2 & c3).
    split; [eapply cledger_clean; eassumption|]. split; [congruence | auto].
Qed.

(* ------------------------------------------------------------------ helpers of the model *)
Notation ld := ldev.

Ltac fsame := apply frame_same; reflexivity.

Lemma set_state_eq (s : st) x s' o : set_state s x = Some (s', o) -> s' = set_state_raw s x.
Proof. unfold set_state. destruct (allowed (state s) x); intros H; inversion H; reflexivity. Qed.

Lemma set_state_frame (s : st) x s' o : set_state s x = Some (s', o) -> x <> Idle -> frame s s'.
Proof.
  intros H Hx. apply set_state_eq in H. subst s'. split; [|intros E; exact E].
  split; [reflexivity|]. split; [reflexivity|]. split; [reflexivity|].
  split; [|right; exact Hx]. exists []. split; [constructor | rewrite app_nil_r; reflexivity].
Qed.

Lemma dcall_eq (s : st) d m s' r o :
  dcall ld s d m = (s', r, o) -> exists x', s' = set_dst s (x', ledger s ++ [(d, m, r)]).
Proof.
  unfold dcall, ldev. destruct (dev (fst (dst s)) d m) as [x' r'] eqn:E. intros H; inversion H; subst.
  exists x'. reflexivity.
Qed.

Definition meth_is (m : devmeth) (e : entry) : Prop := e_meth e = m.

(* a loop of calls of method m over a list of devices (stop_movables, the unstage loop of the finally block) *)
Lemma dloop_eq m l : forall (s : st) o0 s' o',
  fold_left (fun acc d => let '(s0, os) := acc in
                          let '(s1, _, o) := dcall ld s0 d m in (s1, os ++ o)) l (s, o0) = (s', o') ->
  exists x' ml, s' = set_dst s (x', ledger s ++ ml) /\ map e_dev ml = l /\ Forall (meth_is m) ml.
Proof.
  induction l as [|d l IH]; intros s o0 s' o' H; cbn [fold_left] in H.
  - inversion H; subst. exists (fst (dst s')), []. rewrite app_nil_r. split; [|split; [reflexivity | constructor]].
    unfold ledger. destruct s'; cbn. destruct dst; reflexivity.
  - destruct (dcall ld s d m) as [[s1 r1] o1] eqn:E. apply dcall_eq in E. destruct E as [x1 ->].
    apply IH in H. destruct H as (x' & ml & -> & Hm & Hf).
    exists x', ((d, m, r1) :: ml). split; [|split].
    + unfold ledger; cbn. rewrite <- app_assoc. reflexivity.
    + cbn. rewrite Hm. reflexivity.
    + constructor; [reflexivity | exact Hf].
Qed.

Lemma stop_movables_eq (s : st) s' o :
  stop_movables ld s = (s', o) ->
  exists x' ml, s' = set_dst s (x', ledger s ++ ml) /\ map e_dev ml = moved s /\ Forall (meth_is MStop) ml.
Proof. unfold stop_movables. apply dloop_eq. Qed.

Lemma calm_meth m ml : m <> MStage -> m <> MSet -> Forall (meth_is m) ml -> Forall calm ml.
Proof.
  intros H1 H2 H. eapply Forall_impl; [|exact H]. intros [[d m'] r] E. unfold meth_is, e_meth in E; cbn in E. subst m'.
  split; unfold noon, on_us, on_st, e_meth; cbn; destruct m; try reflexivity; congruence.
Qed.

Lemma set_dst_frame (s : st) x' ml : Forall calm ml -> frame s (set_dst s (x', ledger s ++ ml)).
Proof.
  intros H. split; [|intros E; exact E].
  split; [reflexivity|]. split; [reflexivity|]. split; [reflexivity|].
  split; [|left; reflexivity]. exists ml. split; [exact H | reflexivity].
Qed.

Lemma stop_movables_frame (s : st) s' o : stop_movables ld s = (s', o) -> frame s s'.
Proof.
  intros H. apply stop_movables_eq in H. destruct H as (x' & ml & -> & _ & Hf).
  apply set_dst_frame. eapply calm_meth; [| |exact Hf]; discriminate.
Qed.

Lemma call_pausables_eq m l : forall (s : st) e0 o0 s' e' o',
  fold_left (fun acc d =>
               let '(s0, e, os) := acc in
               match e with
               | Some _ => acc
               | None => if mem_nat d (seen s0)
                         then let '(s1, r, o) := dcall ld s0 d m in
                              (s1, match r with DRaise x => Some x | _ => None end, os ++ o)
                         else acc
               end) l (s, e0, o0) = (s', e', o') ->
  exists x' ml, s' = set_dst s (x', ledger s ++ ml) /\ Forall (meth_is m) ml.
Proof.
  assert (Z : forall s : st, exists x' ml, s = set_dst s (x', ledger s ++ ml) /\ Forall (meth_is m) ml).
  { intros s. exists (fst (dst s)), []. rewrite app_nil_r. split; [|constructor].
    unfold ledger. destruct s; cbn. destruct dst; reflexivity. }
  induction l as [|d l IH]; intros s e0 o0 s' e' o' H; cbn [fold_left] in H.
  - inversion H; subst. apply Z.
  - destruct e0; [apply IH in H; exact H|].
    destruct (mem_nat d (seen s)); [|apply IH in H; exact H].
    destruct (dcall ld s d m) as [[s1 r1] o1] eqn:E. apply dcall_eq in E. destruct E as [x1 ->].
    apply IH in H. destruct H as (x' & ml & -> & Hf).
    exists x', ((d, m, r1) :: ml). split.
    + unfold ledger; cbn. rewrite <- app_assoc. reflexivity.
    + constructor; [reflexivity | exact Hf].
Qed.

Lemma call_pausables_frame (s : st) m s' e o :
  m <> MStage -> m <> MSet -> call_pausables ld s m = (s', e, o) -> frame s s'.
Proof.
  intros H1 H2 H. unfold call_pausables in H. apply call_pausables_eq in H. destruct H as (x' & ml & -> & Hf).
  apply set_dst_frame. eapply calm_meth; eassumption.
Qed.

Lemma record_intr_list_nil : record_intr_list [] = ([], [], true).
Proof. reflexivity. Qed.

Lemma record_interruptions_frame (s : st) s' o ok : record_interruptions s = (s', o, ok) -> frame s s'.
Proof.
  unfold record_interruptions. destruct (record_intr_list (bundlers s)) as [[bs os] ok0] eqn:E.
  intros H; inversion H; subst. split; [apply frame0_same; reflexivity|].
  intros Hb. rewrite Hb in E. rewrite record_intr_list_nil in E. inversion E; subst. reflexivity.
Qed.

Lemma map_bundlers_frame f (s : st) : frame s (map_bundlers f s).
Proof.
  split; [apply frame0_same; reflexivity|]. intros Hb. unfold map_bundlers. cbn. rewrite Hb. reflexivity.
Qed.

Lemma reset_checkpoint_frame (s : st) : frame s (reset_checkpoint s).
Proof.
  unfold reset_checkpoint. destruct (cache s); [|apply frame_refl].
  eapply frame_trans; [|apply map_bundlers_frame]. fsame.
Qed.

Lemma rewind_frame (s : st) s' l : rewind s = (s', l) -> frame s s'.
Proof.
  unfold rewind. destruct (cache s) as [l0|]; intros H; inversion H; subst; [|apply frame_refl].
  destruct (Nat.eqb (List.length l) 0); [fsame|].
  eapply frame_trans; [|apply map_bundlers_frame]. fsame.
Qed.

Lemma cancel_task_frame (s : st) : frame s (cancel_task s).
Proof. unfold cancel_task. destruct (pc s); first [apply frame_refl | fsame]. Qed.

Lemma dcall_frame (s : st) d m s' r o :
  dcall ld s d m = (s', r, o) -> calm (d, m, r) -> frame s s'.
Proof.
  intros H Hc. apply dcall_eq in H. destruct H as [x' ->]. apply set_dst_frame. constructor; [exact Hc | constructor].
Qed.

Lemma calm_other d m r : m <> MStage -> m <> MSet -> calm (d, m, r).
Proof. intros H1 H2. split; unfold noon, on_us, on_st, e_meth; cbn; destruct m; try reflexivity; congruence. Qed.

Ltac facts :=
  repeat match goal with
         | H : set_state _ _ = Some _ |- _ => apply set_state_frame in H; [|discriminate]
         | H : record_interruptions _ = _ |- _ => apply record_interruptions_frame in H
         | H : stop_movables _ _ = _ |- _ => apply stop_movables_frame in H
         | H : call_pausables _ _ _ = _ |- _ => apply call_pausables_frame in H; [|discriminate|discriminate]
         | H : rewind _ = _ |- _ => apply rewind_frame in H
         | H : dcall _ _ _ ?m = _ |- _ => apply dcall_frame in H; [|apply calm_other; discriminate]
         end.

Ltac fstep :=
  match goal with
  | H : frame ?a ?b |- frame ?s ?c =>
      apply (frame_trans s a c); [solve [fsame | apply frame_refl] | apply (frame_trans a b c); [exact H | clear H]]
  | |- frame ?s (cancel_task ?x) => apply (frame_trans s x); [|apply cancel_task_frame]
  | |- frame ?s (reset_checkpoint ?x) => apply (frame_trans s x); [|apply reset_checkpoint_frame]
  | |- frame ?s (map_bundlers ?f ?x) => apply (frame_trans s x); [|apply map_bundlers_frame]
  end.
Ltac fchain := repeat fstep; first [apply frame_refl | fsame].

Lemma request_pause_frame (s : st) d s' e o : request_pause s d = (s', e, o) -> frame s s'.
Proof.
  unfold request_pause. change (pc (interrupt (set_deferred s false) CzPause)) with (pc s).
  destruct (pc s); repeat break_match; intros H; inversion H; subst; clear H; facts; fchain.
Qed.

Lemma request_pause_in_task_frame (s : st) d s' e o : request_pause_in_task s d = (s', e, o) -> frame s s'.
Proof.
  unfold request_pause_in_task. destruct (request_pause s d) as [[s1 e1] o1] eqn:E.
  apply request_pause_frame in E. intros H; inversion H; subst; clear H.
  destruct (resumable s); [exact E|]. eapply frame_trans; [exact E | fsame].
Qed.

Lemma push_frame_frame (s : st) f : frame s (push_frame s f).
Proof. fsame. Qed.

Lemma mark_cached_frame (s : st) run d : frame s (mark_cached s run d).
Proof.
  unfold mark_cached, get_bundler. destruct (alookup run (bundlers s)) eqn:E; [|apply frame_refl].
  split; [apply frame0_same; reflexivity|]. intros Hb. rewrite Hb in E. discriminate.
Qed.

Ltac rsame := apply R_same; reflexivity.
Ltac rfacts :=
  facts;
  repeat match goal with
         | H : request_pause _ _ = _ |- _ => apply request_pause_frame in H
         | H : request_pause_in_task _ _ = _ |- _ => apply request_pause_in_task_frame in H
         | H : frame _ _ |- _ => apply frame_R in H
         end.
Ltac rstep :=
  match goal with
  | H : R ?a ?b |- R ?s ?c =>
      apply (R_trans s a c); [solve [rsame | apply R_refl | repeat break_match; rsame] | apply (R_trans a b c); [exact H | clear H]]
  | |- R ?s (cancel_task ?x) => apply (R_trans s x); [|apply frame_R, cancel_task_frame]
  | |- R ?s (reset_checkpoint ?x) => apply (R_trans s x); [|apply frame_R, reset_checkpoint_frame]
  | |- R ?s (map_bundlers ?f ?x) => apply (R_trans s x); [|apply frame_R, map_bundlers_frame]
  | |- R ?s (mark_cached ?x _ _) => apply (R_trans s x); [|apply frame_R, mark_cached_frame]
  end.
Ltac rchain := repeat rstep; first [apply R_refl | rsame].

Lemma finish_read_R (s : st) run d z o0 s' c o : finish_read s run d z o0 = (s', c, o) -> R s s'.
Proof. unfold finish_read. repeat break_match; intros H; inversion H; subst; rchain. Qed.

Lemma In_insert_sorted x y l : In x (insert_sorted y l) <-> x = y \/ In x l.
Proof.
  induction l as [|a l IH]; cbn [insert_sorted].
  - cbn. intuition.
  - destruct (Nat.eqb y a) eqn:E1.
    + apply Nat.eqb_eq in E1. subst. cbn [In]. intuition.
    + destruct (Nat.ltb y a); cbn [In]; [intuition|]. rewrite IH. intuition.
Qed.

Lemma In_remove_nat x y l : In x (remove_nat y l) <-> In x l /\ x <> y.
Proof.
  unfold remove_nat. rewrite filter_In. split; intros [H1 H2]; split; try assumption.
  - intros ->. rewrite Nat.eqb_refl in H2. discriminate.
  - apply Bool.negb_true_iff. apply Nat.eqb_neq. congruence.
Qed.

Lemma flag_snoc on off l e d : flag on off (l ++ [e]) d = fl on off d (flag on off l d) e.
Proof. rewrite flag_app. reflexivity. Qed.

Lemma AB_snoc (s s' : st) d m r :
  ledger s' = ledger s ++ [(d, m, r)] ->
  (forall d0, fl on_us off_us d0 (needs_unstage (ledger s) d0) (d, m, r) = true -> In d0 (staged s')) ->
  (forall d0, fl on_st off_st d0 (needs_stop (ledger s) d0) (d, m, r) = true -> In d0 (moved s')) -> AB s'.
Proof.
  intros E H1 H2. split; intros d0 H0; rewrite E in H0.
  - apply H1. unfold needs_unstage in *. rewrite flag_snoc in H0. exact H0.
  - apply H2. unfold needs_stop in *. rewrite flag_snoc in H0. exact H0.
Qed.

(* set: the object is recorded as moved before set() is called *)
Lemma set_R (s : st) d s1 r o :
  dcall ld (set_moved s (insert_sorted d (moved s))) d MSet = (s1, r, o) -> R s s1.
Proof.
  intros H. apply dcall_eq in H. destruct H as [x' ->]. split; [left; reflexivity|]. split; [eexists; reflexivity|].
  intros [HA HB]. apply AB_snoc with (s := s) (d := d) (m := MSet) (r := r); [reflexivity | |];
    intros d0; unfold fl, e_dev, e_meth, e_res; cbn [fst snd on_us off_us on_st off_st]; intros H0.
  - apply HA. destruct (Nat.eqb d d0); exact H0.
  - change (In d0 (insert_sorted d (moved s))). apply In_insert_sorted.
    destruct (Nat.eqb d d0) eqn:E; [left; symmetry; apply Nat.eqb_eq, E | right; apply HB, H0].
Qed.

Lemma stage_ok_R (s : st) d s1 r o :
  dcall ld s d MStage = (s1, r, o) -> (forall e, r <> DRaise e) ->
  R s (set_staged s1 (insert_sorted d (staged s1))).
Proof.
  intros H Hr. apply dcall_eq in H. destruct H as [x' ->]. split; [left; reflexivity|]. split; [eexists; reflexivity|].
  intros [HA HB]. apply AB_snoc with (s := s) (d := d) (m := MStage) (r := r); [reflexivity | |];
    intros d0; unfold fl, e_dev, e_meth, e_res; cbn [fst snd on_us off_us on_st off_st]; intros H0.
  - change (In d0 (insert_sorted d (staged s))). apply In_insert_sorted.
    destruct (Nat.eqb d d0) eqn:E; [left; symmetry; apply Nat.eqb_eq, E | right; apply HA, H0].
  - apply HB. destruct (Nat.eqb d d0); exact H0.
Qed.

Lemma stage_fail_frame (s : st) d s1 e o : dcall ld s d MStage = (s1, DRaise e, o) -> frame s s1.
Proof. intros H. eapply dcall_frame; [exact H|]. split; reflexivity. Qed.

Lemma unstage_ok_R (s : st) d s1 r o :
  dcall ld s d MUnstage = (s1, r, o) -> R s (set_staged s1 (remove_nat d (staged s1))).
Proof.
  intros H. apply dcall_eq in H. destruct H as [x' ->]. split; [left; reflexivity|]. split; [eexists; reflexivity|].
  intros [HA HB]. apply AB_snoc with (s := s) (d := d) (m := MUnstage) (r := r); [reflexivity | |];
    intros d0; unfold fl, e_dev, e_meth, e_res; cbn [fst snd on_us off_us on_st off_st]; intros H0.
  - change (In d0 (remove_nat d (staged s))). apply In_remove_nat.
    destruct (Nat.eqb d d0) eqn:E; [discriminate|]. split; [apply HA, H0|].
    apply Nat.eqb_neq in E. congruence.
  - apply HB. destruct (Nat.eqb d d0); exact H0.
Qed.

Lemma exec_cmd_R (s : st) m s' c o : exec_cmd ld s m = (s', c, o) -> R s s'.
Proof.
  unfold exec_cmd. destruct (mcmd m) eqn:Em.
  all: try (repeat break_match; intros H; inversion H; subst; clear H; rfacts;
            repeat match goal with Hf : finish_read _ _ _ _ _ = _ |- _ => apply finish_read_R in Hf end;
            rchain; fail).
  - (* set *)
    repeat break_match; intros H; inversion H; subst; clear H;
      try (apply R_refl);
      match goal with Hd : dcall _ _ _ MSet = _ |- _ => apply set_R in Hd end; rchain.
  - (* stage *)
    repeat break_match; intros H; inversion H; subst; clear H; try (apply R_refl);
      try (match goal with Hd : dcall _ _ _ MStage = (_, DRaise _, _) |- _ => apply stage_fail_frame in Hd end; rfacts; rchain);
      (eapply R_trans; [eapply stage_ok_R; [eassumption | intros ? ?; discriminate] | apply frame_R, reset_checkpoint_frame]).
  - (* unstage *)
    repeat break_match; intros H; inversion H; subst; clear H; try (apply R_refl);
      try (rfacts; rchain; fail);
      (eapply R_trans; [eapply unstage_ok_R; eassumption | apply frame_R, reset_checkpoint_frame]).
Qed.

Lemma exec_start_suspender_R (s : st) sid pre post s' c o :
  exec_start_suspender plan_of ld s sid pre post = (s', c, o) -> R s s'.
Proof.
  unfold exec_start_suspender. repeat break_match; intros H; inversion H; subst; clear H; rfacts; rchain.
Qed.

(* ------------------------------------------------------------------ the finally block *)
Lemma finally_clean l ml2 ml3 sg mv :
  (forall d, needs_unstage l d = true -> In d sg) -> (forall d, needs_stop l d = true -> In d mv) ->
  map e_dev ml2 = mv -> Forall (meth_is MStop) ml2 ->
  map e_dev ml3 = sg -> Forall (meth_is MUnstage) ml3 ->
  clean ((l ++ ml2) ++ ml3).
Proof.
  intros HA HB E2 F2 E3 F3 d.
  assert (C2 : Forall calm ml2) by (eapply calm_meth; [| |exact F2]; discriminate).
  assert (C3 : Forall calm ml3) by (eapply calm_meth; [| |exact F3]; discriminate).
  split.
  - unfold needs_unstage. eapply flag_cleared; [|symmetry; exact E3|].
    + intros H. apply HA. exact (calm_us l ml2 d C2 H).
    + eapply Forall_impl; [|exact F3]. intros [[d' m'] r'] E. unfold meth_is, e_meth in E; cbn in E; subst m'.
      split; reflexivity.
  - destruct (needs_stop ((l ++ ml2) ++ ml3) d) eqn:X; [|reflexivity].
    apply calm_st in X; [|exact C3].
    assert (Y : needs_stop (l ++ ml2) d = false).
    { unfold needs_stop. eapply flag_cleared; [exact (HB d)|symmetry; exact E2|].
      eapply Forall_impl; [|exact F2]. intros [[d' m'] r'] E. unfold meth_is, e_meth in E; cbn in E; subst m'.
      split; reflexivity. }
    congruence.
Qed.

Lemma clean_AB (s : st) : clean (ledger s) -> AB s.
Proof. intros H. split; intros d Hd; destruct (H d) as [H1 H2]; congruence. Qed.

Lemma finalize_spec (s : st) r p s' o :
  finalize presume ld s r p = (s', o) -> AB s ->
  Cs s' /\ (exists r', pc s' = PcDone r') /\ moved s' = moved s.
Proof.
  unfold finalize.
  destruct (stop_movables ld (set_pardon s true)) as [s2 o2] eqn:E2.
  match goal with |- context [fold_left ?f ?l ?a] => destruct (fold_left f l a) as [s3 o3] eqn:E3 end.
  apply stop_movables_eq in E2. destruct E2 as (x2 & ml2 & -> & M2 & F2).
  apply dloop_eq in E3. destruct E3 as (x3 & ml3 & -> & M3 & F3).
  intros H [HA HB].
  assert (Hc : clean ((ledger s ++ ml2) ++ ml3)) by (eapply finally_clean; eassumption).
  match type of H with context [set_state ?x Idle] => destruct (set_state x Idle) as [[s6 o6]|] eqn:E6 end.
  - apply set_state_eq in E6. subst s6. inversion H; subst; clear H.
    split; [split; [exact Hc | split; reflexivity] | split; [eexists; reflexivity | reflexivity]].
  - inversion H; subst; clear H.
    split; [split; [exact Hc | split; reflexivity] | split; [eexists; reflexivity | reflexivity]].
Qed.

Lemma finalize_ext (s : st) r p s' o : finalize presume ld s r p = (s', o) -> ext s s'.
Proof.
  unfold finalize.
  destruct (stop_movables ld (set_pardon s true)) as [s2 o2] eqn:E2.
  match goal with |- context [fold_left ?f ?l ?a] => destruct (fold_left f l a) as [s3 o3] eqn:E3 end.
  apply stop_movables_eq in E2. destruct E2 as (x2 & ml2 & -> & M2 & F2).
  apply dloop_eq in E3. destruct E3 as (x3 & ml3 & -> & M3 & F3).
  intros H.
  match type of H with context [set_state ?x Idle] => destruct (set_state x Idle) as [[s6 o6]|] eqn:E6 end.
  - apply set_state_eq in E6. subst s6. inversion H; subst; clear H.
    exists (ml2 ++ ml3). rewrite app_assoc. reflexivity.
  - inversion H; subst; clear H. exists (ml2 ++ ml3). rewrite app_assoc. reflexivity.
Qed.

(* ------------------------------------------------------------------ the _run loop *)
Definition exits (c : ctl) : Prop := c = CExit (XExn ETransition) \/ exists r p, c = CFinalize r p.
Definition Q (s : st) (c : ctl) : Prop := AB s /\ (state s <> Idle \/ (exits c /\ Cs s)).

Ltac cmd_facts :=
  repeat match goal with
         | Hp : match mcmd ?m with _ => _ end = _ |- _ =>
             destruct (mcmd m) eqn:?;
             first [apply exec_start_suspender_R in Hp | apply exec_cmd_R in Hp]
         | Hp : exec_cmd _ _ _ = _ |- _ => apply exec_cmd_R in Hp
         | Hp : exec_start_suspender _ _ _ _ _ _ = _ |- _ => apply exec_start_suspender_R in Hp
         end.

Lemma dstep_inl_R (s : st) c s' c' o : dstep presume plan_of ld s c = inl (s', c', o) -> R s s'.
Proof.
  unfold dstep. intros H. destruct c; repeat (bm_hyp H); try discriminate;
    inversion H; subst; clear H; norm_hyps; cmd_facts; rfacts; rchain.
Qed.

Lemma dstep_inr_R (s : st) c s' o :
  dstep presume plan_of ld s c = inr (s', o) ->
  (R s s' /\ ~ qpc (pc s')) \/ (exists r p, c = CFinalize r p).
Proof.
  unfold dstep. intros H. destruct c; [| | | | | | |right; eexists; eexists; reflexivity];
    repeat (bm_hyp H); try discriminate;
    inversion H; subst; clear H; norm_hyps; cmd_facts; rfacts; (left; split; [rchain | intros X; exact X]).
Qed.

Lemma quiet_qpc (s : st) : quiet s -> qpc (pc s).
Proof. unfold quiet, qpc. destruct (pc s); auto. Qed.

Lemma fin_Inv (s : st) r p s' o : finalize presume ld s r p = (s', o) -> AB s -> Inv s'.
Proof.
  intros H HAB. destruct (finalize_spec _ _ _ _ _ H HAB) as (HC & [r' Hp] & _).
  split; [apply clean_AB, HC|]. split; [intros _; rewrite Hp; exact I | intros _; exact HC].
Qed.

Lemma Q_step (s : st) c s' c' o : Q s c -> dstep presume plan_of ld s c = inl (s', c', o) -> Q s' c'.
Proof.
  intros [HAB [Hn|[Hx HC]]] H.
  - apply dstep_inl_R in H. destruct H as (Hm & _ & HR). split; [apply HR, HAB|]. left.
    destruct Hm as [E|E]; [rewrite E; exact Hn | exact E].
  - destruct Hx as [->|[r [p ->]]]; unfold dstep in H; [|discriminate].
    inversion H; subst; clear H. split; [exact HAB|]. right. split; [right; eexists; eexists; reflexivity | exact HC].
Qed.

Lemma Q_fin (s : st) c s' o : Q s c -> dstep presume plan_of ld s c = inr (s', o) -> Inv s'.
Proof.
  intros [HAB Hd] H. destruct (dstep_inr_R _ _ _ _ H) as [[(Hm & _ & HR) Hq]|[r [p ->]]].
  - destruct Hd as [Hn|[[->|[r [p ->]]] HC]].
    + split; [apply HR, HAB|]. split.
      * intros E. destruct Hm as [E'|E']; [rewrite E' in E; contradiction | contradiction].
      * intros Hqt. elim Hq. apply quiet_qpc, Hqt.
    + unfold dstep in H. discriminate.
    + unfold dstep in H. inversion H as [H1]. eapply fin_Inv; eassumption.
  - unfold dstep in H. inversion H as [H1]. eapply fin_Inv; eassumption.
Qed.

Lemma Q_oof (s : st) c : Q s c -> Inv (set_pc s PcNone).
Proof.
  intros [HAB Hd]. split; [exact HAB|]. split; [intros _; exact I|].
  intros Hq. change (state s = Idle) in Hq. destruct Hd as [Hn|[_ HC]]; [contradiction | exact HC].
Qed.

Lemma drive_Inv fuel (s : st) c os s' o :
  Q s c -> drive presume plan_of ld fuel s c os = (s', o) -> Inv s'.
Proof.
  intros HQ H.
  eapply (drive_inv P presume plan_of LD ld (fun s c _ => Q s c) (fun s _ => Inv s)); [| | |exact HQ|exact H].
  - intros; eapply Q_step; eassumption.
  - intros; eapply Q_fin; eassumption.
  - intros; eapply Q_oof; eassumption.
Qed.

Lemma Q_of_R (s s1 : st) c : AB s -> state s <> Idle -> R s s1 -> Q s1 c.
Proof.
  intros HAB Hn (Hm & _ & HR). split; [apply HR, HAB|]. left. destruct Hm as [E|E]; [rewrite E; exact Hn | exact E].
Qed.

Lemma task_step_Inv (s : st) s' o : Inv s -> task_step presume plan_of ld s = (s', o) -> Inv s'.
Proof.
  intros HI H. pose proof HI as (HAB & HT & HC). unfold task_step in H. destruct (pc s) eqn:Epc.
  - inversion H; subst; exact HI.
  - (* not started *)
    assert (Cq : Cs s) by (apply HC; unfold quiet; rewrite Epc; exact I).
    destruct (must_cancel s).
    { inversion H; subst; clear H. split; [exact HAB|]. split; [intros _; exact I | intros _; exact Cq]. }
    destruct (permit (set_must_cancel s false)).
    + match type of H with context [set_state ?x Running] => destruct (set_state x Running) as [[s2 o2]|] eqn:E end.
      * apply set_state_eq in E. subst s2. eapply drive_Inv; [|exact H]. split; [exact HAB | left; discriminate].
      * eapply drive_Inv; [|exact H]. split; [exact HAB|]. right. split; [left; reflexivity | exact Cq].
    + inversion H; subst; clear H. split; [exact HAB|]. split; [intros _; exact I | intros _; exact Cq].
  - (* waiting for the run permit *)
    assert (Cq : Cs s) by (apply HC; unfold quiet; rewrite Epc; exact I).
    destruct (must_cancel s).
    { inversion H; subst; clear H. split; [exact HAB|]. split; [intros _; exact I | intros _; exact Cq]. }
    match type of H with context [set_state ?x Running] => destruct (set_state x Running) as [[s2 o2]|] eqn:E end.
    + apply set_state_eq in E. subst s2. eapply drive_Inv; [|exact H]. split; [exact HAB | left; discriminate].
    + eapply drive_Inv; [|exact H]. split; [exact HAB|]. right. split; [left; reflexivity | exact Cq].
  - (* sleep(0) *)
    assert (Hn : state s <> Idle) by (intros E; apply HT in E; exact E).
    destruct (must_cancel s); (eapply drive_Inv; [|exact H]; split; [exact HAB | left; exact Hn]).
  - (* paused *)
    assert (Hn : state s <> Idle) by (intros E; apply HT in E; exact E).
    destruct (must_cancel s); [eapply drive_Inv; [|exact H]; split; [exact HAB | left; exact Hn]|].
    destruct (negb (permit (set_must_cancel s false))); [inversion H; subst; exact HI|].
    destruct (rstate_eqb (state (set_must_cancel s false)) Paused).
    + match type of H with context [set_state ?x Running] => destruct (set_state x Running) as [[s2 o2]|] eqn:E end.
      * apply set_state_eq in E. subst s2. eapply drive_Inv; [|exact H]. split; [exact HAB | left; discriminate].
      * eapply drive_Inv; [|exact H]. split; [exact HAB | left; exact Hn].
    + eapply drive_Inv; [|exact H]. split; [exact HAB | left; exact Hn].
  - (* suspended inside a command *)
    assert (Hn : state s <> Idle) by (intros E; apply HT in E; exact E).
    destruct (must_cancel s); [eapply drive_Inv; [|exact H]; split; [exact HAB | left; exact Hn]|].
    destruct k.
    + eapply drive_Inv; [|exact H]; split; [exact HAB | left; exact Hn].
    + destruct (request_pause (set_must_cancel s false) false) as [[s1 e1] o1] eqn:E.
      apply request_pause_frame, frame_R in E. eapply drive_Inv; [|exact H].
      eapply Q_of_R; [exact HAB | exact Hn |]. eapply R_trans; [|exact E]. rsame.
    + eapply drive_Inv; [|exact H]; split; [exact HAB | left; exact Hn].
    + eapply drive_Inv; [|exact H]; split; [exact HAB | left; exact Hn].
    + destruct (finish_read (mark_cached (set_must_cancel s false) run d) run d z []) as [[s1 cr] o1] eqn:E.
      apply finish_read_R in E. eapply drive_Inv; [|exact H].
      eapply Q_of_R; [exact HAB | exact Hn |]. eapply R_trans; [|exact E].
      eapply R_trans; [|apply frame_R, mark_cached_frame]. rsame.
  - (* final sleep(0): the finally block *)
    destruct (must_cancel s); (eapply fin_Inv; [exact H | exact HAB]).
  - inversion H; subst; exact HI.
Qed.

(* ------------------------------------------------------------------ events *)
Lemma rstate_eqb_Idle x : rstate_eqb x Idle = true -> x = Idle.
Proof. destruct x; cbn; intros H; first [reflexivity | discriminate]. Qed.

Ltac fsolve :=
  solve [ fsame | apply frame_refl | apply cancel_task_frame
        | repeat break_match;
          first [ fsame | apply frame_refl | apply cancel_task_frame
                | (eapply frame_trans; [|apply cancel_task_frame]; fsame) ] ].
Ltac fstep2 :=
  match goal with
  | H : frame ?a ?b |- frame ?s ?c =>
      apply (frame_trans s a c); [solve [fsolve] | apply (frame_trans a b c); [exact H | clear H]]
  | |- frame ?s (cancel_task ?x) => apply (frame_trans s x); [|apply cancel_task_frame]
  | |- frame ?s (mark_cached ?x _ _) => apply (frame_trans s x); [|apply mark_cached_frame]
  end.
Ltac fchain2 := repeat fstep2; fsolve.

Lemma req_result_frame (s : st) e s' o : req_result s e = (s', o) -> frame s s'.
Proof. unfold req_result. intros H; inversion H; subst. destruct (mreq s); [apply frame_refl | fsame]. Qed.

Lemma step_frame (s : st) e s' o :
  step presume plan_of ld s e = (s', o) ->
  match e with EvTask => False | EvMain (ACall _) => state s <> Idle | _ => True end ->
  frame s s'.
Proof.
  intros H He. destruct e; try contradiction; cbn [step] in H.
  - (* main-thread calls *)
    destruct a.
    + destruct (negb (rstate_eqb (state s) Idle)) eqn:E.
      * inversion H; subst. fsame.
      * apply Bool.negb_false_iff, rstate_eqb_Idle in E. contradiction.
    + repeat (bm_hyp H); inversion H; subst; clear H; norm_hyps; facts; fchain2.
    + inversion H; subst. fsame.
    + inversion H; subst. fsame.
    + inversion H; subst. fsame.
  - inversion H; subst. fsame.
  - inversion H; subst. fsame.
  - repeat (bm_hyp H); inversion H; subst; clear H; norm_hyps;
      repeat match goal with
             | Hr : req_result _ _ = _ |- _ => apply req_result_frame in Hr
             | Hr : request_pause _ _ = _ |- _ => apply request_pause_frame in Hr
             end; facts; fchain2.
  - repeat (bm_hyp H); try (apply req_result_frame in H; exact H); inversion H; subst; clear H; norm_hyps;
      repeat match goal with
             | Hr : req_result _ _ = _ |- _ => apply req_result_frame in Hr
             end; facts; fchain2.
  - repeat (bm_hyp H); try (apply req_result_frame in H; exact H); inversion H; subst; clear H; norm_hyps;
      repeat match goal with
             | Hr : req_result _ _ = _ |- _ => apply req_result_frame in Hr
             end; facts; fchain2.
  - repeat (bm_hyp H); try (apply req_result_frame in H; exact H); inversion H; subst; clear H; norm_hyps;
      repeat match goal with
             | Hr : req_result _ _ = _ |- _ => apply req_result_frame in Hr
             end; facts; fchain2.
  - repeat (bm_hyp H); try (apply req_result_frame in H; exact H); inversion H; subst; clear H; norm_hyps;
      repeat match goal with
             | Hr : req_result _ _ = _ |- _ => apply req_result_frame in Hr
             end; facts; fchain2.
  - inversion H; subst. fsame.
  - inversion H; subst. repeat break_match; fsame.
  - inversion H; subst. fsame.
  - inversion H; subst. repeat break_match; first [apply frame_refl | apply mark_cached_frame].
Qed.

Lemma step_Inv (s : st) e : Inv s -> Inv (fst (step presume plan_of ld s e)).
Proof.
  intros HI. destruct (step presume plan_of ld s e) as [s' o] eqn:H. cbn [fst].
  assert (Hf : match e with EvTask => False | EvMain (ACall _) => state s <> Idle | _ => True end -> Inv s').
  { intros He. eapply Inv_frame; [eapply step_frame; eassumption | exact HI]. }
  destruct e; try (apply Hf; exact I).
  - destruct a; try (apply Hf; exact I).
    destruct (rstate_eq_dec (state s) Idle) as [E|E]; [|apply Hf; exact E].
    (* a new call: the per-call caches are cleared; the ledger is clean because the engine is idle *)
    destruct HI as (HAB & HT & HC).
    assert (Cq : Cs s).
    { apply HC. unfold quiet. specialize (HT E). destruct (pc s); try contradiction; try exact I. exact E. }
    cbn [step] in H. rewrite E in H. cbn in H. inversion H; subst; clear H.
    destruct Cq as (c1 & c2 & c3).
    split; [apply clean_AB; exact c1|]. split; [intros _; exact I|]. intros _.
    split; [exact c1 | split; [reflexivity | exact c3]].
  - eapply task_step_Inv; [exact HI | exact H].
Qed.

Lemma Inv_init d0 paus stag rec : Inv (init (d0, []) paus stag rec).
Proof.
  assert (C : clean ([] : list entry)) by (intros d; split; reflexivity).
  split; [apply clean_AB; exact C|]. split; [intros _; exact I|]. intros _. split; [exact C | split; reflexivity].
Qed.

Lemma run_Inv evs (s : st) : Inv s -> Inv (fst (run presume plan_of ld s evs)).
Proof. apply (run_inv P presume plan_of LD ld Inv). intros s0 e. apply step_Inv. Qed.

(* the ledger only grows *)
Lemma drive_ext fuel (s0 s : st) c os s' o :
  ext s0 s -> drive presume plan_of ld fuel s c os = (s', o) -> ext s0 s'.
Proof.
  intros HQ H.
  eapply (drive_inv P presume plan_of LD ld (fun s c _ => ext s0 s) (fun s _ => ext s0 s)); [| | |exact HQ|exact H].
  - intros s1 c1 os1 s2 c2 o2 He Hd. apply dstep_inl_R in Hd. destruct Hd as (_ & E & _).
    eapply ext_trans; eassumption.
  - intros s1 c1 os1 s2 o2 He Hd. destruct (dstep_inr_R _ _ _ _ Hd) as [[(_ & E & _) _]|[r [p ->]]].
    + eapply ext_trans; eassumption.
    + unfold dstep in Hd. inversion Hd as [H1]. apply finalize_ext in H1. eapply ext_trans; eassumption.
  - intros s1 c1 os1 He. exact He.
Qed.

Lemma ext_same (s s' : st) : dst s' = dst s -> ext s s'.
Proof. intros E. exists []. unfold ledger. rewrite E, app_nil_r. reflexivity. Qed.

Lemma task_step_ext (s : st) s' o : task_step presume plan_of ld s = (s', o) -> ext s s'.
Proof.
  unfold task_step. intros H. destruct (pc s); repeat (bm_hyp H);
    try (inversion H; subst; apply ext_same; reflexivity);
    try (apply finalize_ext in H; exact H);
    try (eapply drive_ext; [|exact H]; norm_hyps;
         repeat match goal with
                | Hs : set_state _ _ = Some _ |- _ => apply set_state_eq in Hs; subst
                | Hr : request_pause _ _ = _ |- _ => apply request_pause_frame, frame_R in Hr; destruct Hr as (_ & Hr & _)
                | Hr : finish_read _ _ _ _ _ = _ |- _ => apply finish_read_R in Hr; destruct Hr as (_ & Hr & _)
                end;
         first [ apply ext_same; reflexivity
               | (eapply ext_trans; [|eassumption]); apply ext_same; reflexivity
               | (eapply ext_trans; [|eassumption]);
                 (eapply ext_trans; [|apply (frame_R _ _ (mark_cached_frame _ _ _))]); apply ext_same; reflexivity ]).
Qed.

Lemma step_ext (s : st) e : ext s (fst (step presume plan_of ld s e)).
Proof.
  destruct (step presume plan_of ld s e) as [s' o] eqn:H. cbn [fst].
  assert (Hf : match e with EvTask => False | EvMain (ACall _) => state s <> Idle | _ => True end -> ext s s').
  { intros He. pose proof (step_frame _ _ _ _ H He) as F. apply frame_R in F. apply F. }
  destruct e; try (apply Hf; exact I).
  - destruct a; try (apply Hf; exact I).
    destruct (rstate_eq_dec (state s) Idle) as [E|E]; [|apply Hf; exact E].
    cbn [step] in H. rewrite E in H. cbn in H. inversion H; subst; clear H. apply ext_same. reflexivity.
  - eapply task_step_ext; exact H.
Qed.

Lemma run_ext evs : forall s : st, ext s (fst (run presume plan_of ld s evs)).
Proof.
  induction evs as [|e evs IH]; intros s; cbn [run]; [apply ext_refl|].
  pose proof (step_ext s e) as E1. destruct (step presume plan_of ld s e) as [s1 o1]. cbn [fst] in E1.
  specialize (IH s1). destruct (run presume plan_of ld s1 evs) as [s2 o2]. cbn [fst] in *.
  eapply ext_trans; eassumption.
Qed.

Lemma Inv_idle (s : st) : Inv s -> state s = Idle -> Cs s.
Proof.
  intros (_ & HT & HC) E. apply HC. unfold quiet. specialize (HT E).
  destruct (pc s); try contradiction; try exact I. exact E.
Qed.

(* ------------------------------------------------------------------ main results *)
(* whenever the engine is idle: no device is left staged or moving, no run is left open *)
Theorem idle_clean (s : st) evs :
  Inv s -> let s' := fst (run presume plan_of ld s evs) in
  state s' = Idle -> clean (ledger s') /\ staged s' = [] /\ bundlers s' = [].
Proof.
  intros HI s' E. destruct (run_Inv evs s HI) as (_ & HT & HC). fold s' in HT, HC.
  apply HC. unfold quiet. specialize (HT E). destruct (pc s'); try contradiction; try exact I. exact E.
Qed.

(* whenever the `_run` task has finished (by completion, failure, abort, stop, halt, failed pause
   or cancellation before its first step) *)
Theorem done_clean (s : st) evs r :
  Inv s -> let s' := fst (run presume plan_of ld s evs) in
  pc s' = PcDone r -> clean (ledger s') /\ staged s' = [] /\ bundlers s' = [].
Proof.
  intros HI s' E. destruct (run_Inv evs s HI) as (_ & _ & HC). fold s' in HC.
  apply HC. unfold quiet. rewrite E. exact I.
Qed.

(* at every moment: a device whose last successful stage() has no later unstage() is in the engine's
   staged set, a device whose last set() has no later stop() is in its moved set *)
Theorem ledger_tracked (s : st) evs :
  Inv s -> let s' := fst (run presume plan_of ld s evs) in
  (forall d, needs_unstage (ledger s') d = true -> In d (staged s')) /\
  (forall d, needs_stop (ledger s') d = true -> In d (moved s')).
Proof. intros HI s'. destruct (run_Inv evs s HI) as (HAB & _ & _). exact HAB. Qed.

(* per call: between two idle moments every device was unstaged at least as often as it was staged,
   unless some device was staged while already staged (class C06-b) *)
Theorem call_counts (s : st) evs1 evs2 :
  Inv s ->
  let s1 := fst (run presume plan_of ld s evs1) in
  let s2 := fst (run presume plan_of ld s1 evs2) in
  state s1 = Idle -> state s2 = Idle ->
  exists l2, ledger s2 = ledger s1 ++ l2 /\
    (double_stage (ledger s2) = false -> forall d, cnt is_stage_ok l2 d <= cnt is_unstage l2 d).
Proof.
  intros HI s1 s2 E1 E2.
  pose proof (run_Inv evs1 s HI) as HI1. fold s1 in HI1.
  destruct (idle_clean s evs1 HI E1) as (C1 & _ & _). fold s1 in C1.
  destruct (idle_clean s1 evs2 HI1 E2) as (C2 & _ & _). fold s2 in C2.
  destruct (run_ext evs2 s1) as [l2 El]. fold s2 in El. exists l2. split; [exact El|].
  intros Hd d. rewrite El in Hd, C2. eapply count_segment; [exact Hd | apply C1 | apply C2].
Qed.

Theorem idle_depth (s : st) evs :
  Inv s -> let s' := fst (run presume plan_of ld s evs) in
  state s' = Idle -> double_stage (ledger s') = false -> forall d, depth (ledger s') d = 0.
Proof.
  intros HI s' E Hd d. destruct (idle_clean s evs HI E) as (C & _ & _). fold s' in C.
  rewrite (depth_needs _ d Hd). destruct (C d) as [-> _]. reflexivity.
Qed.
End Clean.

(* ------------------------------------------------------------------ closed statements *)
Arguments ldev {D} dev.
Arguments ledger {P D} s.

(* the property as far as the engine model can express it (no flyers, monitors, subscriptions in the
   model): between two idle moments of a run of the engine started in its initial state, every device
   was unstaged at least as many times as it was staged and every device that was set got a stop()
   after its last set() *)
Definition C06_full : Prop :=
  forall (P : Type) (presume : P -> input -> outcome P) (plan_of : nat -> P)
         (D : Type) (dev : D -> nat -> devmeth -> D * devres) (d0 : D) (paus stag : list nat) (rec : bool)
         (evs1 evs2 : list event),
    let s1 := fst (run presume plan_of (ldev dev) (init (d0, []) paus stag rec) evs1) in
    let s2 := fst (run presume plan_of (ldev dev) s1 evs2) in
    state s1 = Idle -> state s2 = Idle ->
    exists l2, ledger s2 = ledger s1 ++ l2 /\
      forall d, cnt is_stage_ok l2 d <= cnt is_unstage l2 d /\ needs_stop (ledger s2) d = false.

(* the part that holds: everything except the counting clause inside class C06-b *)
Theorem clean_when_idle_partial :
  forall (P : Type) (presume : P -> input -> outcome P) (plan_of : nat -> P)
         (D : Type) (dev : D -> nat -> devmeth -> D * devres) (d0 : D) (paus stag : list nat) (rec : bool)
         (evs1 evs2 : list event),
    let s1 := fst (run presume plan_of (ldev dev) (init (d0, []) paus stag rec) evs1) in
    let s2 := fst (run presume plan_of (ldev dev) s1 evs2) in
    state s1 = Idle -> state s2 = Idle ->
    exists l2, ledger s2 = ledger s1 ++ l2 /\
      (forall d, needs_unstage (ledger s2) d = false /\ needs_stop (ledger s2) d = false) /\
      staged s2 = [] /\ bundlers s2 = [] /\
      (double_stage (ledger s2) = false -> forall d, cnt is_stage_ok l2 d <= cnt is_unstage l2 d).
Proof.
  intros P presume plan_of D dev d0 paus stag rec evs1 evs2 s1 s2 E1 E2.
  pose proof (Inv_init P D d0 paus stag rec) as HI.
  pose proof (run_Inv P presume plan_of D dev evs1 _ HI) as HI1. fold s1 in HI1.
  destruct (call_counts P presume plan_of D dev _ evs1 evs2 HI E1 E2) as (l2 & El & Hc).
  destruct (idle_clean P presume plan_of D dev s1 evs2 HI1 E2) as (C2 & S2 & B2).
  exists l2. split; [exact El|]. split; [exact C2|]. split; [exact S2|]. split; [exact B2 | exact Hc].
Qed.

Theorem clean_when_done :
  forall (P : Type) (presume : P -> input -> outcome P) (plan_of : nat -> P)
         (D : Type) (dev : D -> nat -> devmeth -> D * devres) (d0 : D) (paus stag : list nat) (rec : bool)
         (evs : list event) (r : tres),
    let s' := fst (run presume plan_of (ldev dev) (init (d0, []) paus stag rec) evs) in
    pc s' = PcDone r ->
    (forall d, needs_unstage (ledger s') d = false /\ needs_stop (ledger s') d = false) /\
    staged s' = [] /\ bundlers s' = [].
Proof.
  intros P presume plan_of D dev d0 paus stag rec evs r s' E.
  exact (done_clean P presume plan_of D dev _ evs r (Inv_init P D d0 paus stag rec) E).
Qed.

Theorem ledger_tracked_always :
  forall (P : Type) (presume : P -> input -> outcome P) (plan_of : nat -> P)
         (D : Type) (dev : D -> nat -> devmeth -> D * devres) (d0 : D) (paus stag : list nat) (rec : bool)
         (evs : list event),
    let s' := fst (run presume plan_of (ldev dev) (init (d0, []) paus stag rec) evs) in
    (forall d, needs_unstage (ledger s') d = true -> In d (staged s')) /\
    (forall d, needs_stop (ledger s') d = true -> In d (moved s')).
Proof.
  intros P presume plan_of D dev d0 paus stag rec evs.
  exact (ledger_tracked P presume plan_of D dev _ evs (Inv_init P D d0 paus stag rec)).
Qed.

(* a blocking call (RE(...), resume, abort, stop, halt) that returns with the engine idle returns with a
   clean ledger: [OOut _ x _ _] reports the lifecycle state x at the moment the call returns *)
Theorem returns_idle_clean :
  forall (P : Type) (presume : P -> input -> outcome P) (plan_of : nat -> P)
         (D : Type) (dev : D -> nat -> devmeth -> D * devres) (d0 : D) (paus stag : list nat) (rec : bool)
         (pre : list event) (a : mainact) (o : out_t) (df rs : bool),
    let s := fst (run presume plan_of (ldev dev) (init (d0, []) paus stag rec) pre) in
    In (OOut o Idle df rs) (snd (step presume plan_of (ldev dev) s (EvMainDone a))) ->
    (forall d, needs_unstage (ledger s) d = false /\ needs_stop (ledger s) d = false) /\
    staged s = [] /\ bundlers s = [].
Proof.
  intros P presume plan_of D dev d0 paus stag rec pre a o df rs s H.
  cbn [step snd] in H. destruct H as [H|[]]. injection H as _ E _ _.
  exact (idle_clean P presume plan_of D dev _ pre (Inv_init P D d0 paus stag rec) E).
Qed.

(* ------------------------------------------------------------------ concrete runs (tape instance) *)
Definition mk' (c : cmd) (o : option nat) : msg := {| mid := None; mcmd := c; mobj := o; mrun := 0 |}.
Definition demo (tapes : list (nat * list tout)) (results : list devres) (paus stag : list nat) (evs : list event) :=
  let s' := fst (run (t_resume tapes) t_plan_of (ldev (t_dev results)) (init (0, []) paus stag false) evs) in
  (state s', pc s', ledger s', staged s', bundlers s').
Definition demo_obs (tapes : list (nat * list tout)) (results : list devres) (paus stag : list nat) (evs : list event) :=
  snd (run (t_resume tapes) t_plan_of (ldev (t_dev results)) (init (0, []) paus stag false) evs).

Definition no_bad (l : list obs) : bool := forallb (fun o => match o with OBad _ => false | _ => true end) l.

(* stage 0; open_run; set 1; then an abort request: the plan does not handle RequestAbort *)
Definition ex_tapes : list (nat * list tout) :=
  [(0, [TY (mk' CStage (Some 0)); TY (mk' COpenRun None); TY (mk' (CSet 1) (Some 1)); TE ERequestAbort])].
Definition ex_results : list devres := [DUnit; DStatus 0 true].
Definition ex_evs : list event :=
  [EvMain (ACall 0); EvTask; EvPermit; EvTask; EvTask; EvTask; EvTask; EvReqAbort RsEmpty; EvTask; EvTask;
   EvMainDone (ACall 0)].

(* the run reaches idle / PcDone without fuel exhaustion, with a non-empty ledger: the aborted run
   stopped the moved device and unstaged the staged one *)
Example clean_nonvacuous :
  demo ex_tapes ex_results [] [0] ex_evs =
    (Idle, PcDone (TReturn VOther),
     [(0, MStage, DUnit); (1, MSet, DStatus 0 true); (1, MStop, DUnit); (0, MUnstage, DUnit)], [], []) /\
  no_bad (demo_obs ex_tapes ex_results [] [0] ex_evs) = true /\
  double_stage [(0, MStage, DUnit); (1, MSet, DStatus 0 true); (1, MStop, DUnit); (0, MUnstage, DUnit)] = false /\
  In (OOut OutInterrupted Idle false true) (demo_obs ex_tapes ex_results [] [0] ex_evs).
Proof. vm_compute. repeat split; try reflexivity. auto 40. Qed.

(* mid-run the invariant is not trivial: after the set, device 0 needs an unstage and device 1 a stop *)
Example tracked_nonvacuous :
  let '(_, _, l, sg, _) := demo ex_tapes ex_results [] [0] (firstn 7 ex_evs) in
  needs_unstage l 0 = true /\ needs_stop l 1 = true /\ sg = [0].
Proof. vm_compute. repeat split; reflexivity. Qed.

(* C06-b: stage 0; stage 0; return *)
Definition dbl_tapes : list (nat * list tout) :=
  [(0, [TY (mk' CStage (Some 0)); TY (mk' CStage (Some 0)); TR VNone])].
Definition dbl_evs : list event :=
  [EvMain (ACall 0); EvTask; EvPermit; EvTask; EvTask; EvTask; EvTask; EvTask; EvMainDone (ACall 0)].

Definition finding_C06_b (l : list entry) : Prop := double_stage l = true.

Example C06_b_refuted :
  exists tapes evs,
    let '(x, _, l, _, _) := demo tapes [] [] [0] evs in
    x = Idle /\ finding_C06_b l /\ no_bad (demo_obs tapes [] [] [0] evs) = true /\
    ~ (forall d, cnt is_stage_ok l d <= cnt is_unstage l d).
Proof.
  exists dbl_tapes, dbl_evs. vm_compute. repeat split; try reflexivity.
  intros H. specialize (H 0). vm_compute in H. lia.
Qed.

Theorem C06_full_refuted : ~ C06_full.
Proof.
  intros H.
  specialize (H TP (t_resume dbl_tapes) t_plan_of nat (t_dev []) 0 [] [0] false [] dbl_evs). cbv zeta in H.
  destruct H as (l2 & El & Hc); [vm_compute; reflexivity | vm_compute; reflexivity |].
  vm_compute in El. subst l2. destruct (Hc 0) as [Hc0 _]. vm_compute in Hc0. lia.
Qed.

(* ------------------------------------------------------------------ the engine turns idle only in the finally block *)
(* (for every device oracle, instrumented or not) a step that emits a lifecycle change to Idle ends in state Idle *)
Definition nidle (o : obs) : Prop := match o with OState _ Idle => False | _ => True end.
Definition nil_ (l : list obs) : Prop := Forall nidle l.

Lemma nil_nil : nil_ []. Proof. constructor. Qed.
Lemma nil_app a b : nil_ a -> nil_ b -> nil_ (a ++ b).
Proof. intros; apply Forall_app; split; assumption. Qed.
Lemma nil_cons o l : nidle o -> nil_ l -> nil_ (o :: l).
Proof. intros; constructor; assumption. Qed.
Lemma nil_one o : nidle o -> nil_ [o].
Proof. intros; constructor; [assumption | constructor]. Qed.

Ltac nil_tac :=
  repeat match goal with
         | |- nil_ (_ ++ _) => apply nil_app
         | |- nil_ (_ :: _) => apply nil_cons
         | |- nil_ [] => apply nil_nil
         | |- nidle _ => exact I
         | |- nil_ _ => assumption
         end.

Section IdleOnly.
Variable P : Type.
Variable presume : P -> input -> outcome P.
Variable plan_of : nat -> P.
Variable D : Type.
Variable dev : D -> nat -> devmeth -> D * devres.
Notation st := (st P D).

Lemma set_state_nil (s : st) x s' o : set_state s x = Some (s', o) -> x <> Idle -> nil_ o.
Proof.
  unfold set_state. destruct (allowed (state s) x); intros H Hx; [|discriminate].
  inversion H; subst. apply nil_one. destruct x; try exact I. contradiction.
Qed.

Lemma dcall_nil (s : st) d m s' r o : dcall dev s d m = (s', r, o) -> nil_ o.
Proof. unfold dcall. destruct (dev _ _ _). intros H; inversion H; subst. apply nil_one; exact I. Qed.

Lemma dloop_nil m l : forall (s0 : st) o0 s1 o1, nil_ o0 ->
  fold_left (fun acc d => let '(s0, os) := acc in
                          let '(s1, _, o) := dcall dev s0 d m in (s1, os ++ o)) l (s0, o0) = (s1, o1) -> nil_ o1.
Proof.
  induction l as [|d l IH]; intros s0 o0 s1 o1 H0 H; cbn in H.
  - inversion H; subst; assumption.
  - destruct (dcall dev s0 d m) as [[sa ra] oa] eqn:E. apply IH in H; [assumption|].
    apply nil_app; [assumption | eapply dcall_nil; eassumption].
Qed.

Lemma stop_movables_nil (s : st) s' o : stop_movables dev s = (s', o) -> nil_ o.
Proof. unfold stop_movables. apply dloop_nil, nil_nil. Qed.

Lemma call_pausables_nil (s : st) m s' e o : call_pausables dev s m = (s', e, o) -> nil_ o.
Proof.
  unfold call_pausables.
  assert (G : forall l (s0 : st) e0 o0 s1 e1 o1, nil_ o0 ->
             fold_left (fun acc d =>
               let '(s0, e, os) := acc in
               match e with
               | Some _ => acc
               | None => if mem_nat d (seen s0)
                         then let '(s1, r, o) := dcall dev s0 d m in
                              (s1, match r with DRaise x => Some x | _ => None end, os ++ o)
                         else acc
               end) l (s0, e0, o0) = (s1, e1, o1) -> nil_ o1).
  { induction l as [|d l IH]; intros s0 e0 o0 s1 e1 o1 H0 H; cbn in H.
    - inversion H; subst; assumption.
    - destruct e0.
      + eapply IH; eassumption.
      + destruct (mem_nat d (seen s0)).
        * destruct (dcall dev s0 d m) as [[sa ra] oa] eqn:E.
          eapply IH; [|exact H]. apply nil_app; [assumption | eapply dcall_nil; eassumption].
        * eapply IH; eassumption. }
  intros H. eapply G; [apply nil_nil | exact H].
Qed.

Lemma b_record_intr_nil b b' o : b_record_intr b = Some (b', o) -> nil_ o.
Proof.
  unfold b_record_intr. destruct (bintr b); [destruct (alookup INTR (bseq b))|]; intros H; inversion H; subst;
    nil_tac.
Qed.

Lemma record_intr_list_nil_ l r o ok : record_intr_list l = (r, o, ok) -> nil_ o.
Proof.
  revert r o ok; induction l as [|[k b] l IH]; intros r o ok H; cbn [record_intr_list] in H.
  - inversion H; subst; apply nil_nil.
  - destruct (b_record_intr b) as [[b' o']|] eqn:E.
    + destruct (record_intr_list l) as [[r0 os] ok0] eqn:E2. inversion H; subst.
      apply nil_app; [eapply b_record_intr_nil; eassumption | eapply IH; reflexivity].
    + inversion H; subst; apply nil_nil.
Qed.

Lemma record_interruptions_nil (s : st) s' o ok : record_interruptions s = (s', o, ok) -> nil_ o.
Proof.
  unfold record_interruptions. destruct (record_intr_list (bundlers s)) as [[bs os] ok0] eqn:E.
  intros H; inversion H; subst. eapply record_intr_list_nil_; eassumption.
Qed.

Ltac nil_helpers :=
  repeat match goal with
         | H : dcall _ _ _ _ = _ |- _ => apply dcall_nil in H
         | H : set_state _ _ = Some _ |- _ => apply set_state_nil in H; [|discriminate]
         | H : stop_movables _ _ = _ |- _ => apply stop_movables_nil in H
         | H : call_pausables _ _ _ = _ |- _ => apply call_pausables_nil in H
         | H : record_interruptions _ = _ |- _ => apply record_interruptions_nil in H
         end.

Lemma request_pause_nil (s : st) d s' e o : request_pause s d = (s', e, o) -> nil_ o.
Proof.
  unfold request_pause. repeat break_match; intros H; inversion H; subst; nil_helpers; nil_tac.
Qed.

Lemma request_pause_in_task_nil (s : st) d s' e o : request_pause_in_task s d = (s', e, o) -> nil_ o.
Proof.
  unfold request_pause_in_task. destruct (request_pause s d) as [[s1 e1] o1] eqn:E.
  intros H; inversion H; subst. eapply request_pause_nil; exact E.
Qed.

Lemma helper_resume_nil h i o os : helper_resume presume h i = (o, os) -> nil_ os.
Proof. unfold helper_resume. repeat break_match; intros H; inversion H; subst; nil_tac. Qed.

Lemma frame_resume_nil f i o os : frame_resume presume f i = (o, os) -> nil_ os.
Proof.
  unfold frame_resume. destruct f.
  - repeat break_match; intros H; inversion H; subst; nil_tac.
  - repeat break_match; intros H; inversion H; subst; nil_tac.
  - repeat break_match; intros H; inversion H; subst; nil_tac.
  - destruct (helper_resume presume h i) as [o0 os0] eqn:E. intros H; inversion H; subst.
    eapply helper_resume_nil; eassumption.
Qed.

Lemma finish_read_nil (s : st) run d z o0 s' c o : nil_ o0 -> finish_read s run d z o0 = (s', c, o) -> nil_ o.
Proof. unfold finish_read. intros H0. repeat break_match; intros H; inversion H; subst; assumption. Qed.

Ltac nil_helpers2 :=
  nil_helpers;
  repeat match goal with
         | H : request_pause _ _ = _ |- _ => apply request_pause_nil in H
         | H : request_pause_in_task _ _ = _ |- _ => apply request_pause_in_task_nil in H
         | H : frame_resume _ _ _ = _ |- _ => apply frame_resume_nil in H
         end.

Lemma exec_cmd_nil (s : st) m s' c o : exec_cmd dev s m = (s', c, o) -> nil_ o.
Proof.
  unfold exec_cmd. destruct (mcmd m);
    repeat break_match; intros H; inversion H; subst; nil_helpers2; nil_tac;
    try (eapply finish_read_nil; [|eassumption]; assumption).
  all: repeat match goal with
              | H : (if ?c then _ else _) = _ |- _ => destruct c; inversion H; subst; clear H
              end; nil_tac.
Qed.

Lemma exec_start_suspender_nil (s : st) sid pre post s' c o :
  exec_start_suspender plan_of dev s sid pre post = (s', c, o) -> nil_ o.
Proof.
  unfold exec_start_suspender. repeat break_match; intros H; inversion H; subst; nil_helpers2; nil_tac.
Qed.

Lemma close_runs_nil (s : st) xs rs : nil_ (close_runs s xs rs).
Proof.
  unfold close_runs. induction (bundlers s) as [|kb l IH]; cbn; [apply nil_nil|].
  apply nil_app; [|exact IH]. destruct (bopen (snd kb)); nil_tac.
Qed.

Lemma close_frames_nil (s : st) : nil_ (close_frames presume s).
Proof.
  unfold close_frames. induction (rev (plans s)) as [|f l IH]; cbn; [apply nil_nil|].
  apply nil_app; [|exact IH]. destruct (frame_resume presume f Close) eqn:E. cbn. eapply frame_resume_nil; eassumption.
Qed.

(* the finally block: either no change to Idle is announced, or the engine is Idle afterwards *)
Lemma finalize_idle (s : st) r p s' o : finalize presume dev s r p = (s', o) -> nil_ o \/ state s' = Idle.
Proof.
  unfold finalize.
  destruct (stop_movables dev (set_pardon s true)) as [s2 o2] eqn:E2.
  match goal with |- context [fold_left ?f ?l ?a] => destruct (fold_left f l a) as [s3 o3] eqn:E3 end.
  apply stop_movables_nil in E2. apply dloop_nil in E3; [|apply nil_nil].
  match goal with |- context [set_state ?x Idle] => destruct (set_state x Idle) as [[s6 o6]|] eqn:E6 end.
  - intros H; inversion H; subst. right.
    unfold set_state in E6. match type of E6 with context [allowed ?a ?b] => destruct (allowed a b) end; [|discriminate].
    inversion E6; subst. reflexivity.
  - intros H; inversion H; subst. left. nil_tac; first [apply close_runs_nil | apply close_frames_nil].
Qed.

Lemma dstep_inl_nil (s : st) c s' c' o : dstep presume plan_of dev s c = inl (s', c', o) -> nil_ o.
Proof.
  unfold dstep. intros H. destruct c; repeat (bm_hyp H); try discriminate;
    inversion H; subst; clear H; norm_hyps;
    repeat match goal with
           | Hp : match mcmd ?m with _ => _ end = _ |- _ =>
               destruct (mcmd m) eqn:?;
               first [apply exec_start_suspender_nil in Hp | apply exec_cmd_nil in Hp]
           | Hp : exec_cmd _ _ _ = _ |- _ => apply exec_cmd_nil in Hp
           | Hp : exec_start_suspender _ _ _ _ _ _ = _ |- _ => apply exec_start_suspender_nil in Hp
           end; nil_helpers2; nil_tac.
Qed.

Lemma dstep_inr_nil (s : st) c s' o :
  dstep presume plan_of dev s c = inr (s', o) -> nil_ o \/ state s' = Idle.
Proof.
  unfold dstep. intros H. destruct c; [| | | | | | |inversion H as [H1]; eapply finalize_idle; exact H1];
    repeat (bm_hyp H); try discriminate;
    inversion H; subst; clear H; norm_hyps;
    repeat match goal with
           | Hp : match mcmd ?m with _ => _ end = _ |- _ =>
               destruct (mcmd m) eqn:?;
               first [apply exec_start_suspender_nil in Hp | apply exec_cmd_nil in Hp]
           | Hp : exec_cmd _ _ _ = _ |- _ => apply exec_cmd_nil in Hp
           | Hp : exec_start_suspender _ _ _ _ _ _ = _ |- _ => apply exec_start_suspender_nil in Hp
           end; nil_helpers2; left; nil_tac.
Qed.

Lemma drive_idle fuel (s : st) c os s' o :
  nil_ os -> drive presume plan_of dev fuel s c os = (s', o) -> nil_ o \/ state s' = Idle.
Proof.
  intros HQ H.
  eapply (drive_inv P presume plan_of D dev (fun _ _ os => nil_ os) (fun s' o => nil_ o \/ state s' = Idle));
    [| | |exact HQ|exact H].
  - intros s1 c1 os1 s2 c2 o2 Hn Hd. apply dstep_inl_nil in Hd. apply nil_app; assumption.
  - intros s1 c1 os1 s2 o2 Hn Hd. apply dstep_inr_nil in Hd. destruct Hd as [Hd|Hd]; [left; apply nil_app; assumption | right; exact Hd].
  - intros s1 c1 os1 Hn. left. apply nil_app; [assumption | apply nil_one; exact I].
Qed.

Lemma task_step_idle (s : st) s' o : task_step presume plan_of dev s = (s', o) -> nil_ o \/ state s' = Idle.
Proof.
  unfold task_step. intros H. destruct (pc s); repeat (bm_hyp H);
    try (inversion H; subst; left; nil_tac; fail);
    try (eapply finalize_idle; exact H);
    try (eapply drive_idle; [|exact H]; norm_hyps; nil_helpers2; nil_tac;
         try (eapply finish_read_nil; [|eassumption]; nil_tac); fail).
Qed.

Lemma req_result_nil (s : st) e s' o : req_result s e = (s', o) -> nil_ o.
Proof. unfold req_result. intros H; inversion H; subst. nil_tac. Qed.

Lemma step_idle (s : st) e s' o : step presume plan_of dev s e = (s', o) -> nil_ o \/ state s' = Idle.
Proof.
  unfold step. intros H. destruct e; try (apply task_step_idle in H; assumption).
  all: left; repeat (bm_hyp H);
    repeat match goal with Hr : req_result _ _ = _ |- _ => apply req_result_nil in Hr end;
    first [ assumption | apply req_result_nil in H; assumption
          | inversion H; subst; clear H; norm_hyps; nil_helpers2; nil_tac ].
Qed.

(* every lifecycle change to Idle announced by a step is the one of the finally block of `_run`:
   the step ends with the engine Idle (hence, by [idle_clean], with a clean ledger) *)
Theorem idle_only_finally (s : st) e s' o x :
  step presume plan_of dev s e = (s', o) -> In (OState x Idle) o -> state s' = Idle.
Proof.
  intros H Hin. destruct (step_idle _ _ _ _ H) as [Hn|E]; [|exact E].
  unfold nil_ in Hn. rewrite Forall_forall in Hn. elim (Hn _ Hin).
Qed.
End IdleOnly.

(* the only lifecycle change to Idle a step can announce is the one at the end of the finally block of
   `_run`; right after that step the engine is Idle and the ledger is clean *)
Theorem idle_transition_clean :
  forall (P : Type) (presume : P -> input -> outcome P) (plan_of : nat -> P)
         (D : Type) (dev : D -> nat -> devmeth -> D * devres) (d0 : D) (paus stag : list nat) (rec : bool)
         (pre : list event) (e : event) (x : rstate),
    let s := fst (run presume plan_of (ldev dev) (init (d0, []) paus stag rec) pre) in
    let s' := fst (step presume plan_of (ldev dev) s e) in
    In (OState x Idle) (snd (step presume plan_of (ldev dev) s e)) ->
    state s' = Idle /\
    (forall d, needs_unstage (ledger s') d = false /\ needs_stop (ledger s') d = false) /\
    staged s' = [] /\ bundlers s' = [].
Proof.
  intros P presume plan_of D dev d0 paus stag rec pre e x s s' Hin. subst s'.
  pose proof (run_Inv P presume plan_of D dev pre _ (Inv_init P D d0 paus stag rec)) as HI. fold s in HI.
  pose proof (step_Inv P presume plan_of D dev s e HI) as HI1.
  destruct (step presume plan_of (ldev dev) s e) as [s1 o1] eqn:H. cbn [fst snd] in *.
  pose proof (idle_only_finally P presume plan_of (LD D) (ldev dev) s e s1 o1 x H Hin) as E.
  split; [exact E | exact (Inv_idle P D s1 HI1 E)].
Qed.
