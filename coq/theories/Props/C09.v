(* C09 - a deferred pause takes effect exactly at the next checkpoint.

   Model: Engine/RE.v (all plan coalgebras, device oracles, schedules).  The specification is the monitor [mon] of
   Proofs/RE_Ctl.v (a function of the trace only): [mdef] becomes true when a deferred request is accepted (request
   coroutine while the lifecycle allows pausing, or a pause(defer=True) message), and false only when the engine
   starts pausing or a new call starts; [mcause] says when a move to `pausing` is justified.
   Proved for ALL schedules: the engine's flag is [mdef]; every move to `pausing` has a cause (hard request,
   pause(defer=False) message, end of the grace sleep of a checkpoint taken with the flag set) -- so a deferred
   request by itself never pauses; step level: the request only sets the flag, a checkpoint with the flag set takes
   the checkpoint (cache := []) and starts the grace sleep, whose end performs the hard pause.
   FIXED defect C09-a (fixes/C09-a.diff; the model follows the repaired code): an explicit checkpoint used NOT to
   re-establish resumability after clear_checkpoint, so a deferred pause reaching such a checkpoint aborted the plan
   (FailedPause) instead of pausing there.  [C09_checkpoint_honours_deferred] now states that the cache is Some []
   after ANY checkpoint outside a bundle; the former witness is the regression example [C09_regression_C09a].
   END TO END (Proofs/RE_Defer.v, for every plan coalgebra, device oracle and schedule prefix; the only model hypothesis
   is that the interpreter's fuel did not run out, OBad 1):
   [C09_deferred_pause_end_to_end]: a deferred request accepted (not during the grace sleep of an earlier checkpoint),
   then only "calm" events (no hard pause / abort / stop / halt / suspension request, no new call) and no
   pause(defer=False) message up to the step that processes the next checkpoint message (outside a bundle), calm
   non-task events during the grace sleep and while the cancelled task waits: the engine stays `running` with the
   flag set and nothing cancelled at every point before the checkpoint (no lifecycle change at all), the checkpoint
   step ends [OMsg ck; OTask WFuture] with cache = [], the next task step is the hard pause (running -> pausing, flag
   cleared, no message), the next one parks (pausing -> paused, no message executed, no plan advanced -- or a device's
   pause() hook raised), the blocked call reports RunEngineInterrupted / paused / flag false / resumable, and resume()
   pushes the empty replay plan.  [C09_deferred_pause_stays_pending]: if instead the task finishes with no checkpoint
   or pause(defer=False) message after the request, the only lifecycle change is the return to idle, the call's outcome
   is what it would have been (interrupted mark unchanged), it reports the flag as pending, the flag stays set under
   calm events and the next accepted call clears it (`_clear_call_cache`).  [C09_deferred_pause_after_clear_checkpoint]:
   the same when no checkpoint is in effect at the checkpoint message (C09-a).  The hypotheses are needed:
   [C09_hypotheses_needed] (abort/stop/halt/suspension in the grace sleep, hard pause before the checkpoint, request
   made during an earlier grace sleep).  [calm] excludes the requests altogether (on a running engine each of them is
   accepted).  Wall-clock: the 0.5 s grace sleep is an await point of the model, its length is not modelled. *)
From Coq Require Import List.
From BV Require Import Engine.RE Engine.REInst Proofs.RE_Ctl Proofs.RE_Replay Proofs.RE_Hold Proofs.RE_CtlExamples.
From BV Require Import Proofs.RE_Shape Proofs.RE_Defer Proofs.RE_DeferEx.
From BV Require Proofs.RE_ExitE2E Proofs.RE_Inv.
Import ListNotations.

(* after ANY schedule: deferred_pause_requested is what the trace specification says.  In particular (definition of
   [mon]) it stays true from the accepted request until the engine starts pausing or the next call starts, and what
   RE() / resume() report (OOut .. deferred ..) is that flag *)
Theorem C09_deferred_is_trace_spec :
  forall (P : Type) (presume : P -> input -> outcome P) (plan_of : nat -> P) (D : Type) (dev : D -> nat -> devmeth -> D * devres)
         (d : D) (paus stag : list nat) (rec : bool) (evs : list event),
    deferred P D (fst (run P presume plan_of D dev (init P D d paus stag rec) evs)) =
    mdef (mon_run mon0 (trace P presume plan_of D dev (init P D d paus stag rec) evs)).
Proof. exact deferred_is_trace_spec. Qed.
Print Assumptions C09_deferred_is_trace_spec.

(* the deferred request only sets the flag *)
Theorem C09_defer_request_only_sets_flag :
  forall (P : Type) (presume : P -> input -> outcome P) (plan_of : nat -> P) (D : Type) (dev : D -> nat -> devmeth -> D * devres)
         (s s' : st P D) (o : list obs),
    allowed (state P D s) Pausing = true ->
    step P presume plan_of D dev s (EvReqPause true) = (s', o) ->
    o = [OReq true] /\ deferred P D s' = true /\ state P D s' = state P D s /\ pc P D s' = pc P D s /\
    must_cancel P D s' = must_cancel P D s /\ permit P D s' = permit P D s /\ interrupted P D s' = interrupted P D s /\
    plans P D s' = plans P D s /\ resps P D s' = resps P D s /\ cache P D s' = cache P D s.
Proof. exact defer_request_only_sets_flag. Qed.
Print Assumptions C09_defer_request_only_sets_flag.

(* a checkpoint outside a bundle takes the checkpoint -- also after clear_checkpoint --, so a resume replays nothing;
   with the flag set it starts the grace sleep instead of returning *)
Theorem C09_checkpoint_honours_deferred :
  forall (P D : Type) (dev : D -> nat -> devmeth -> D * devres) (s : st P D) (x : msg),
    mcmd x = CCheckpoint -> any_bundling P D s = false ->
    exists s1,
      exec_cmd P D dev s x = (s1, if deferred P D s then Susp KCkptSleep else Done (RVal VNone), []) /\
      cache P D s1 = Some [] /\ deferred P D s1 = deferred P D s /\ state P D s1 = state P D s /\
      rewindable P D s1 = rewindable P D s /\ plans P D s1 = plans P D s /\ resps P D s1 = resps P D s.
Proof. exact checkpoint_honours_deferred. Qed.
Print Assumptions C09_checkpoint_honours_deferred.

(* the end of the grace sleep is a hard pause: flag cleared, lifecycle -> pausing, call marked interrupted, task cancelled *)
Theorem C09_grace_sleep_then_pause :
  forall (P : Type) (presume : P -> input -> outcome P) (plan_of : nat -> P) (D : Type) (dev : D -> nat -> devmeth -> D * devres)
         (s : st P D),
    pc P D s = PcCmd KCkptSleep -> must_cancel P D s = false -> allowed (state P D s) Pausing = true ->
    bintr_ok (bundlers P D s) = true ->
    exists s1 o1,
      request_pause P D (set_must_cancel P D s false) false = (s1, None, OState (state P D s) Pausing :: o1) /\
      state P D s1 = Pausing /\ deferred P D s1 = false /\ interrupted P D s1 = true /\ must_cancel P D s1 = true /\
      cache P D s1 = cache P D s /\
      task_step P presume plan_of D dev s =
        drive P presume plan_of D dev (FUEL P D s1) s1 (CContinue true (RVal VNone))
              ((OState (state P D s) Pausing :: o1) ++ [OResp (RVal VNone)]).
Proof. exact grace_sleep_then_pause. Qed.
Print Assumptions C09_grace_sleep_then_pause.

(* in EVERY run, whenever the engine starts pausing the specification knows why ([mcause], see RE_Ctl.v):
   hard pause request / pause(defer=False) message / end of a deferred checkpoint's grace sleep *)
Theorem C09_pausing_has_a_cause :
  forall (P : Type) (presume : P -> input -> outcome P) (plan_of : nat -> P) (D : Type) (dev : D -> nat -> devmeth -> D * devres)
         (d : D) (paus stag : list nat) (rec : bool) (evs : list event) (l1 : list titem) (a : rstate) (l2 : list titem),
    trace P presume plan_of D dev (init P D d paus stag rec) evs = l1 ++ TObs (OState a Pausing) :: l2 ->
    mcause (mon_run mon0 l1) = true.
Proof. exact pausing_needs_cause. Qed.
Print Assumptions C09_pausing_has_a_cause.

(* pausing with a checkpoint in effect reaches `paused` at the top of the loop (devices
   stopped, then paused; the caller is woken; the task waits for the run permit) *)
Theorem C09_pausing_with_checkpoint_pauses :
  forall (P : Type) (presume : P -> input -> outcome P) (plan_of : nat -> P) (D : Type) (dev : D -> nat -> devmeth -> D * devres)
         (fuel : nat) (s : st P D) (os : list obs) (l : list msg) (s2 : st P D) (o2 : list obs) (s3 : st P D) (o3 : list obs),
    state P D s = Pausing -> cache P D s = Some l -> permit P D s = false ->
    stop_movables P D dev s = (s2, o2) -> call_pausables P D dev s2 MPause = (s3, None, o3) ->
    drive P presume plan_of D dev (S fuel) s CTop os =
    (set_pc P D (set_blocking P D (set_state_raw P D s3 Paused) true) PcPaused,
     os ++ [] ++ o2 ++ o3 ++ [OState Pausing Paused] ++ [OTask WFuture]).
Proof. exact pausing_with_checkpoint_pauses. Qed.
Print Assumptions C09_pausing_with_checkpoint_pauses.

(* the trace-level statement for schedules in which only the task runs after the request; subsumed by the end-to-end
   theorems at the end of this file *)
Definition C09_full : Prop :=
  forall (P : Type) (presume : P -> input -> outcome P) (plan_of : nat -> P) (D : Type) (dev : D -> nat -> devmeth -> D * devres)
         (d : D) (paus stag : list nat) (rec : bool) (evs1 evs2 : list event),
    let s1 := fst (run P presume plan_of D dev (init P D d paus stag rec) (evs1 ++ [EvReqPause true])) in
    deferred P D s1 = true ->
    Forall (fun e => e = EvTask) evs2 ->
    let o := snd (run P presume plan_of D dev s1 evs2) in
    (forall x, In x o -> match x with OBad _ => False | _ => True end) ->
    forall a b ck, o = a ++ OMsg ck :: b -> mcmd ck = CCheckpoint ->
      (forall x, In x a -> match x with OMsg y => mcmd y <> CCheckpoint | _ => True end) ->
      (forall x, In x a -> match x with OState _ Pausing => False | _ => True end) /\
      (forall c e, b = c ++ OState Pausing Paused :: e -> forall x, In x c -> match x with OMsg _ => False | _ => True end).

Example C09_nonvacuous :
  deferred TP nat (fst (irun ex_defer_tapes ex_defer_ledger ex_defer_paus ex_defer_stag ex_defer_rec (firstn 6 ex_defer_evs))) = true /\
  state TP nat (fst (irun ex_defer_tapes ex_defer_ledger ex_defer_paus ex_defer_stag ex_defer_rec (firstn 6 ex_defer_evs))) = Running /\
  In (OOut OutInterrupted Paused false true) (snd (irun ex_defer_tapes ex_defer_ledger ex_defer_paus ex_defer_stag ex_defer_rec ex_defer_evs)) /\
  mok (mon_run mon0 (itrace ex_defer_tapes ex_defer_ledger ex_defer_paus ex_defer_stag ex_defer_rec ex_defer_evs)) = true /\
  In (TObs (OState Running Pausing)) (itrace ex_defer_tapes ex_defer_ledger ex_defer_paus ex_defer_stag ex_defer_rec ex_defer_evs).
Proof. exact c09_deferred_takes_effect_at_checkpoint. Qed.
Example C09_regression_C09a :
  check ex_c09a_tapes ex_c09a_ledger ex_c09a_paus ex_c09a_stag ex_c09a_rec ex_c09a_evs ex_c09a_obs = true /\
  In (EvReqPause true) ex_c09a_evs /\
  In (OMsg {| mid := Some 2; mcmd := CClearCheckpoint; mobj := None; mrun := 0 |})
     (snd (irun ex_c09a_tapes ex_c09a_ledger ex_c09a_paus ex_c09a_stag ex_c09a_rec ex_c09a_evs)) /\
  In (OOut OutInterrupted Paused false true) (snd (irun ex_c09a_tapes ex_c09a_ledger ex_c09a_paus ex_c09a_stag ex_c09a_rec ex_c09a_evs)) /\
  In (OOut (OutReturn [0]) Idle false true) (snd (irun ex_c09a_tapes ex_c09a_ledger ex_c09a_paus ex_c09a_stag ex_c09a_rec ex_c09a_evs)) /\
  forallb (fun x => match x with OPlanIn _ (Throw _) => false | _ => true end)
          (snd (irun ex_c09a_tapes ex_c09a_ledger ex_c09a_paus ex_c09a_stag ex_c09a_rec ex_c09a_evs)) = true.
Proof. exact c09_checkpoint_after_clear_pauses. Qed.
Example C09_nonvacuous_pending :
  In (OOut (OutReturn [0]) Idle true true)
     (snd (irun ex_defer_late_tapes ex_defer_late_ledger ex_defer_late_paus ex_defer_late_stag ex_defer_late_rec ex_defer_late_evs)).
Proof. exact c09_no_checkpoint_left_reports_pending. Qed.

(* ================================================================== end to end, over whole schedules *)
(* (1) the deferred pause takes effect exactly at the next checkpoint; resume replays nothing *)
Theorem C09_deferred_pause_end_to_end :
  forall (P : Type) (presume : P -> input -> outcome P) (plan_of : nat -> P) (D : Type)
    (dev : D -> nat -> devmeth -> D * devres) (d : D) (paus stag : list nat) (rec : bool)
    (evs0 evsA evsG evsH : list event),
  let s0 := fst (run P presume plan_of D dev (init P D d paus stag rec) evs0) in
  let sr := fst (step P presume plan_of D dev s0 (EvReqPause true)) in
  let sA := fst (run P presume plan_of D dev sr evsA) in
  let oA := snd (run P presume plan_of D dev sr evsA) in
  let sK := fst (step P presume plan_of D dev sA EvTask) in
  let oK := snd (step P presume plan_of D dev sA EvTask) in
  let sG := fst (run P presume plan_of D dev sK evsG) in
  let sP := fst (step P presume plan_of D dev sG EvTask) in
  let sH := fst (run P presume plan_of D dev sP evsH) in
  let sZ := fst (step P presume plan_of D dev sH EvTask) in
  RE_ExitE2E.nobad P presume plan_of D dev (init P D d paus stag rec)
    (evs0 ++ EvReqPause true :: evsA ++ EvTask :: evsG ++ EvTask :: evsH ++ [EvTask]) ->
  allowed (state P D s0) Pausing = true ->
  pc P D s0 <> PcCmd KCkptSleep ->
  forallb calm evsA = true ->
  forallb calm evsG = true ->
  no_task evsG = true ->
  forallb calm evsH = true ->
  no_task evsH = true ->
  clean oA = true ->
  forall (a : list obs) (ck : msg) (b : list obs),
  oK = a ++ OMsg ck :: b ->
  clean a = true ->
  mcmd ck = CCheckpoint ->
  (forall b' : list obs, b <> OResp (RExn EIMS) :: b') ->
  snd (step P presume plan_of D dev s0 (EvReqPause true)) = [OReq true] /\
  (forall p q : list event,
   evsA = p ++ q ->
   state P D (fst (run P presume plan_of D dev sr p)) = Running /\
   deferred P D (fst (run P presume plan_of D dev sr p)) = true /\
   must_cancel P D (fst (run P presume plan_of D dev sr p)) = false) /\
  nost oA = true /\
  nost a = true /\
  b = [OTask WFuture] /\
  state P D sK = Running /\
  pc P D sK = PcCmd KCkptSleep /\
  cache P D sK = Some [] /\
  deferred P D sK = true /\
  forallb still_ob (snd (run P presume plan_of D dev sK evsG)) = true /\
  (exists o1 : list obs,
     snd (step P presume plan_of D dev sG EvTask) =
     (OState Running Pausing :: o1) ++ [OResp (RVal VNone)] ++ [OTask WSleep0] /\ Forall dq o1) /\
  state P D sP = Pausing /\
  deferred P D sP = false /\
  interrupted P D sP = true /\
  cache P D sP = Some [] /\
  forallb still_ob (snd (run P presume plan_of D dev sP evsH)) = true /\
  forallb noexec_ob (snd (step P presume plan_of D dev sH EvTask)) = true /\
  ((exists x : exn, RE_Inv.hook_raises D dev MPause x) \/
   state P D sZ = Paused /\
   pc P D sZ = PcPaused /\
   blocking P D sZ = true /\
   cache P D sZ = Some [] /\
   deferred P D sZ = false /\
   interrupted P D sZ = true /\
   (exists o23 : list obs,
      snd (step P presume plan_of D dev sH EvTask) = o23 ++ [OState Pausing Paused] ++ [OTask WFuture] /\
      Forall dq o23) /\
   (forall act : mainact,
    RE_ExitE2E.is_call act = true ->
    snd (step P presume plan_of D dev sZ (EvMainDone act)) =
    [OOut match main_err P D sZ with
          | Some e => OutRaise e
          | None => OutInterrupted
          end Paused false true]) /\
   plans P D (fst (step P presume plan_of D dev sZ (EvMain AResume))) = FList [] :: plans P D sZ /\
   Forall dq (snd (step P presume plan_of D dev sZ (EvMain AResume)))).
Proof. exact deferred_pause_end_to_end. Qed.
Print Assumptions C09_deferred_pause_end_to_end.

(* (2) no checkpoint follows: the call completes, the flag is pending until the next call clears it *)
Theorem C09_deferred_pause_stays_pending :
  forall (P : Type) (presume : P -> input -> outcome P) (plan_of : nat -> P) (D : Type)
    (dev : D -> nat -> devmeth -> D * devres) (d : D) (paus stag : list nat) (rec : bool)
    (evs0 evsA evsC : list event) (res : tres),
  let s0 := fst (run P presume plan_of D dev (init P D d paus stag rec) evs0) in
  let sr := fst (step P presume plan_of D dev s0 (EvReqPause true)) in
  let sA := fst (run P presume plan_of D dev sr evsA) in
  let oA := snd (run P presume plan_of D dev sr evsA) in
  let sC := fst (run P presume plan_of D dev sA evsC) in
  RE_ExitE2E.nobad P presume plan_of D dev (init P D d paus stag rec) (evs0 ++ EvReqPause true :: evsA) ->
  allowed (state P D s0) Pausing = true ->
  pc P D s0 <> PcCmd KCkptSleep ->
  forallb calm evsA = true ->
  clean oA = true ->
  pc P D sA = PcDone res ->
  forallb calm evsC = true ->
  onlyidle oA = true /\
  state P D sA = Idle /\
  deferred P D sA = true /\
  interrupted P D sA = interrupted P D s0 /\
  (forall act : mainact,
   RE_ExitE2E.is_call act = true ->
   snd (step P presume plan_of D dev sA (EvMainDone act)) =
   [OOut
      match main_err P D sA with
      | Some e => OutRaise e
      | None =>
          match res with
          | TRaise (EUser1 as e) | TRaise (EUser2 as e) | TRaise (EDev as e) | TRaise (EValueError as e) |
            TRaise (ERequestAbort as e) | TRaise (ERequestStop as e) | TRaise (EPlanHalt as e) |
            TRaise (EFailedPause as e) | TRaise (EFailedStatus as e) | TRaise (EIMS as e) |
            TRaise (EInvalidCommand as e) | TRaise (ERuntimeError as e) | TRaise (EGeneratorExit as e) |
            TRaise (ETransition as e) | TRaise (EStopIteration as e) | TRaise (ETypeError as e) |
            TRaise (EAssertion as e) | TRaise (EOther as e) => OutRaise e
          | _ => if interrupted P D s0 then OutInterrupted else OutReturn (run_uids P D sA)
          end
      end Idle true (resumable P D sA)]) /\
  deferred P D sC = true /\
  state P D sC = Idle /\
  forallb still_ob (snd (run P presume plan_of D dev sA evsC)) = true /\
  (forall pid : nat,
   deferred P D (fst (step P presume plan_of D dev sC (EvMain (ACall pid)))) = false /\
   pc P D (fst (step P presume plan_of D dev sC (EvMain (ACall pid)))) = PcNotStarted /\
   interrupted P D (fst (step P presume plan_of D dev sC (EvMain (ACall pid)))) = false).
Proof. exact deferred_pause_stays_pending. Qed.
Print Assumptions C09_deferred_pause_stays_pending.

(* (3) C09-a repaired: the checkpoint may follow clear_checkpoint *)
Theorem C09_deferred_pause_after_clear_checkpoint :
  forall (P : Type) (presume : P -> input -> outcome P) (plan_of : nat -> P) (D : Type)
    (dev : D -> nat -> devmeth -> D * devres) (d : D) (paus stag : list nat) (rec : bool)
    (evs0 evsA evsG evsH : list event),
  let s0 := fst (run P presume plan_of D dev (init P D d paus stag rec) evs0) in
  let sr := fst (step P presume plan_of D dev s0 (EvReqPause true)) in
  let sA := fst (run P presume plan_of D dev sr evsA) in
  let oA := snd (run P presume plan_of D dev sr evsA) in
  let sK := fst (step P presume plan_of D dev sA EvTask) in
  let oK := snd (step P presume plan_of D dev sA EvTask) in
  let sG := fst (run P presume plan_of D dev sK evsG) in
  let sP := fst (step P presume plan_of D dev sG EvTask) in
  let sH := fst (run P presume plan_of D dev sP evsH) in
  let sZ := fst (step P presume plan_of D dev sH EvTask) in
  RE_ExitE2E.nobad P presume plan_of D dev (init P D d paus stag rec)
    (evs0 ++ EvReqPause true :: evsA ++ EvTask :: evsG ++ EvTask :: evsH ++ [EvTask]) ->
  allowed (state P D s0) Pausing = true ->
  pc P D s0 <> PcCmd KCkptSleep ->
  forallb calm evsA = true ->
  forallb calm evsG = true ->
  no_task evsG = true ->
  forallb calm evsH = true ->
  no_task evsH = true ->
  clean oA = true ->
  cache P D sA = None ->
  forall (a : list obs) (ck : msg) (b : list obs),
  oK = a ++ OMsg ck :: b ->
  clean a = true ->
  mcmd ck = CCheckpoint ->
  (forall b' : list obs, b <> OResp (RExn EIMS) :: b') ->
  cache P D sK = Some [] /\
  state P D sP = Pausing /\
  ((exists x : exn, RE_Inv.hook_raises D dev MPause x) \/
   state P D sZ = Paused /\
   cache P D sZ = Some [] /\
   (exists o23 : list obs,
      snd (step P presume plan_of D dev sH EvTask) = o23 ++ [OState Pausing Paused] ++ [OTask WFuture] /\
      Forall dq o23)).
Proof. exact deferred_pause_after_clear_checkpoint. Qed.
Print Assumptions C09_deferred_pause_after_clear_checkpoint.

(* the replay plan pushed by resume() is the empty list plan: it never yields a message *)
Theorem C09_empty_replay_is_silent :
  forall (P : Type) (presume : P -> input -> outcome P) (i : input),
    exists o, frame_resume P presume (FList []) i = (o, []) /\ forall m f, o <> Yielded m f.
Proof. exact flist_nil_silent. Qed.
Print Assumptions C09_empty_replay_is_silent.

(* recorded real runs meet every hypothesis (ex_defer; ex_c09a: checkpoint after clear_checkpoint; ex_defer_late:
   request after the last checkpoint), and the theorem applied to ex_defer yields what was recorded *)
Example C09_deferred_pause_end_to_end_nonvacuous :
  check ex_defer_tapes ex_defer_ledger ex_defer_paus ex_defer_stag ex_defer_rec ex_defer_evs ex_defer_obs = true /\
  ex_defer_evs = firstn 5 ex_defer_evs ++ EvReqPause true :: [EvTask] ++ EvTask :: [] ++ EvTask :: [] ++ [EvTask] ++ skipn 10 ex_defer_evs /\
  e2e_hyps ex_defer_tapes ex_defer_ledger ex_defer_paus ex_defer_stag ex_defer_rec (firstn 5 ex_defer_evs) [EvTask] [] [].
Proof. exact defer_e2e_recorded. Qed.
Example C09_deferred_pause_after_clear_checkpoint_nonvacuous :
  check ex_c09a_tapes ex_c09a_ledger ex_c09a_paus ex_c09a_stag ex_c09a_rec ex_c09a_evs ex_c09a_obs = true /\
  ex_c09a_evs = firstn 6 ex_c09a_evs ++ EvReqPause true :: [EvTask] ++ EvTask :: [] ++ EvTask :: [] ++ [EvTask] ++ skipn 11 ex_c09a_evs /\
  e2e_hyps ex_c09a_tapes ex_c09a_ledger ex_c09a_paus ex_c09a_stag ex_c09a_rec (firstn 6 ex_c09a_evs) [EvTask] [] [] /\
  cache TP nat (fst (irun ex_c09a_tapes ex_c09a_ledger ex_c09a_paus ex_c09a_stag ex_c09a_rec (firstn 8 ex_c09a_evs))) = None /\
  state TP nat (fst (irun ex_c09a_tapes ex_c09a_ledger ex_c09a_paus ex_c09a_stag ex_c09a_rec (firstn 11 ex_c09a_evs))) = Paused.
Proof. exact defer_c09a_recorded. Qed.
Example C09_deferred_pause_stays_pending_nonvacuous :
  let P := TP in let presume := t_resume ex_defer_late_tapes in let D := nat in let dev := t_dev ex_defer_late_ledger in
  let s_i := init P D 0 ex_defer_late_paus ex_defer_late_stag ex_defer_late_rec in
  let evs0 := firstn 6 ex_defer_late_evs in
  let evsA := [EvTask; EvTask; EvTask; EvTask] in
  let s0 := fst (run P presume t_plan_of D dev s_i evs0) in
  let sr := fst (step P presume t_plan_of D dev s0 (EvReqPause true)) in
  let sA := fst (run P presume t_plan_of D dev sr evsA) in
  check ex_defer_late_tapes ex_defer_late_ledger ex_defer_late_paus ex_defer_late_stag ex_defer_late_rec ex_defer_late_evs ex_defer_late_obs = true /\
  ex_defer_late_evs = evs0 ++ EvReqPause true :: evsA ++ [EvMainDone (ACall 0)] /\
  RE_ExitE2E.nobad P presume t_plan_of D dev s_i (evs0 ++ EvReqPause true :: evsA) /\
  allowed (state P D s0) Pausing = true /\ pc P D s0 <> PcCmd KCkptSleep /\
  forallb calm evsA = true /\ clean (snd (run P presume t_plan_of D dev sr evsA)) = true /\
  pc P D sA = PcDone (TReturn (VUid 0)) /\ forallb calm [EvMainDone (ACall 0)] = true /\
  snd (step P presume t_plan_of D dev sA (EvMainDone (ACall 0))) = [OOut (OutReturn [0]) Idle true true].
Proof. exact defer_pending_recorded. Qed.

(* the hypotheses are needed (model runs derived from ex_defer; its first 8 events end with the step that processes
   the second checkpoint, its first 6 with the request): a request landing in the grace sleep prevents the pause, a hard
   pause before the checkpoint pauses earlier, a request made during an earlier grace sleep pauses at that checkpoint *)
Example C09_hypotheses_needed :
  (pc TP nat (fst (irun_d (firstn 8 ex_defer_evs))) = PcCmd KCkptSleep /\
   has_paused (snd (irun_d (firstn 8 ex_defer_evs ++ [EvReqAbort RsEmpty; EvTask; EvTask; EvTask; EvTask]))) = false /\
   has_paused (snd (irun_d (firstn 8 ex_defer_evs ++ [EvReqStop; EvTask; EvTask; EvTask; EvTask]))) = false /\
   has_paused (snd (irun_d (firstn 8 ex_defer_evs ++ [EvReqHalt; EvTask; EvTask; EvTask; EvTask]))) = false /\
   has_paused (snd (irun_d (firstn 8 ex_defer_evs ++ [EvReqSuspend 0 false false; EvTask; EvTask; EvTask; EvTask]))) = false /\
   has_paused (snd (irun_d (firstn 8 ex_defer_evs ++ [EvTask; EvTask]))) = true) /\
  (has_paused (snd (irun_d (firstn 6 ex_defer_evs ++ [EvReqPause false; EvTask; EvTask; EvTask; EvTask]))) = true /\
   has_msg 3 (snd (irun_d (firstn 6 ex_defer_evs ++ [EvReqPause false; EvTask; EvTask; EvTask; EvTask]))) = false /\
   has_paused (snd (irun_d (firstn 6 ex_defer_evs ++ [EvReqAbort RsEmpty; EvTask; EvTask; EvTask; EvTask]))) = false).
Proof. exact (conj defer_needs_calm_grace defer_needs_calm_before). Qed.
