(* C13 - each yield receives the response to its own message.
   Model: Engine/RE.v; monitor: Engine/RespMon.v ([chk pid] runs over the per-event trace [run_tr] and, for the plan
   given to the pid-th call, explains EVERY input the engine gives it: Send v only if v is the response recorded for
   the message the plan yielded last (None before its first message); Throw e only if e is that response, an exception
   the engine injects (FailedStatus, RequestAbort, RequestStop, PlanHalt, FailedPause, CancelledError) or one raised by
   a frame above it (rewind plan, suspender helper with its pre/post plans); an exception response is never followed
   by a Send; a finished plan is never resumed; Close only while suspended at a yield). *)
From Coq Require Import List.
From BV Require Import Engine.RE Engine.REInst Engine.RespMon Proofs.RE_Small Proofs.RE_Resp Proofs.RE_Uids Proofs.RE_RespEx.
Import ListNotations.

(* finding class C13-a (Proofs/RE_RespEx.v): the monitor reports FlagA = a command cancelled by a pause/suspension
   (no response recorded) whose plan then receives None, for a command whose completed response is never None *)
Definition finding_C13_a := RE_RespEx.finding_C13_a.
(* the full statement: every input of every plan explained, no deviation - refuted by class C13-a *)
Definition C13_full : Prop := RE_RespEx.C13_full.

(* For every plan coalgebra that does not itself raise CancelledError, every device behaviour, every schedule
   (task steps, request coroutines, status completions, releases, main-thread calls, of any length) on which the model
   does not run out of fuel, and every call index pid < 1000 (suspender pre/post plans are numbered from 1000):
   the monitor accepts the whole trace. *)
Theorem C13_inputs_explained :
  forall (P : Type) (presume : P -> input -> outcome P) (plan_of : nat -> P)
         (D : Type) (dev : D -> nat -> devmeth -> D * devres) (pid : nat),
    pid < 1000 -> (forall p i, presume p i <> Raised ECancelled) ->
    forall (d : D) (paus stag : list nat) (rec : bool) (evs : list event),
      let tr := snd (run_tr P presume plan_of D dev (init P D d paus stag rec) evs) in
      ~ In (OBad 1) (flat_map snd tr) -> exists fl, chk pid mon0 tr = Some fl.
Proof. exact inputs_explained. Qed.
Print Assumptions C13_inputs_explained.

(* ... and outside class C13-a it accepts without any reported deviation: each value sent is exactly the response
   recorded for the message yielded at that yield, also across rewinds and suspender helper plans *)
Theorem C13_responses_delivered :
  forall (P : Type) (presume : P -> input -> outcome P) (plan_of : nat -> P)
         (D : Type) (dev : D -> nat -> devmeth -> D * devres) (pid : nat),
    pid < 1000 -> (forall p i, presume p i <> Raised ECancelled) ->
    forall (d : D) (paus stag : list nat) (rec : bool) (evs : list event),
      let tr := snd (run_tr P presume plan_of D dev (init P D d paus stag rec) evs) in
      ~ In (OBad 1) (flat_map snd tr) -> finding_C13_a pid tr = false -> chk pid mon0 tr = Some [].
Proof. exact responses_delivered. Qed.
Print Assumptions C13_responses_delivered.

(* RE(...) / resume() return the uids of the runs opened since the call started, in order: from any idle state, for
   any schedule without a further call, the value returned is the list of RunStart uids emitted since the call *)
Theorem C13_returns_run_uids :
  forall (P : Type) (presume : P -> input -> outcome P) (plan_of : nat -> P)
         (D : Type) (dev : D -> nat -> devmeth -> D * devres)
         (s : st P D) (q : nat) (evs : list event) (a : mainact) (uids : list nat) (st_ : rstate) (d r : bool),
    state P D s = Idle -> Forall not_call evs ->
    match a with ACall _ | AResume => True | _ => False end ->
    let s1 := fst (step P presume plan_of D dev s (EvMain (ACall q))) in
    let '(s2, o) := run P presume plan_of D dev s1 evs in
    In (OOut (OutReturn uids) st_ d r) (snd (step P presume plan_of D dev s2 (EvMainDone a))) ->
    uids = starts o.
Proof. exact returns_run_uids. Qed.
Print Assumptions C13_returns_run_uids.

(* non-vacuity: the hypotheses hold on a real schedule (device fault handled by the plan, suspension with pre- and
   post-plan, pause, resume; values, an exception and helper-plan inputs occur; no deviation) *)
Example C13_instance : exists fl, chk 0 mon0 exn__tr = Some fl.
Proof. exact inputs_explained_instance. Qed.
Example C13_nonvacuous :
  tapes_ok exn__tapes = true /\ no_bad exn__tr = true /\ chk 0 mon0 exn__tr = Some [] /\
  chk_status false exn__tr = true /\
  existsb is_throw_in (flat_map snd exn__tr) = true /\ existsb is_value_in (flat_map snd exn__tr) = true /\
  existsb is_helper_in (flat_map snd exn__tr) = true.
Proof. exact resp_nonvacuous. Qed.

(* finding C13-a: `wait` cancelled by a pause; after resume() the plan is sent None instead of True *)
Example C13_a_refuted :
  finding_C13_a 0 exa_tr = true /\ tapes_ok exa_tapes = true /\ no_bad exa_tr = true /\ chk 0 mon0 exa_tr <> Some [].
Proof. exact resp_a_refuted. Qed.

Theorem C13_full_refuted : ~ C13_full.
Proof. exact RE_RespEx.C13_full_refuted. Qed.
Print Assumptions C13_full_refuted.
