(* Model of document dispatch in bluesky:
     bluesky.utils.CallbackRegistry   (connect / disconnect / process, _cid, callbacks, _func_cid_map)
     bluesky.run_engine.Dispatcher    (subscribe / unsubscribe / unsubscribe_all / process, _counter, _token_mapping)
     RunEngine.subscribe / unsubscribe / ignore_callback_exceptions / reset,
     RunEngine.__call__(plan, subs) + _clear_call_cache (temporary tokens), the 'subscribe' and
     'unsubscribe' message handlers, and just enough of open_run / create-read-save / close_run and of
     _run's error path to say which documents a tiny plan emits and when it is aborted.
   As coded (not as intended): connect returns the EXISTING cid for an equal callable.
   Callbacks may, while a document is being delivered to them, unsubscribe a token (their own or anybody's)
   or subscribe another callable (RE.unsubscribe / RE.subscribe called from inside the callback);
   CallbackRegistry.process iterates over a list() SNAPSHOT of the callbacks registered when it starts.
   Weak-reference death of bound-method owners is not modelled (callables stay alive).
   No proofs in this file.  The second half is the independent specification ("live subscriptions"). *)
From Coq Require Import String.
From BV Require Import Base.Prelude.

(* ------------------------------------------------------------------ signals and documents *)

(* event_model.DocumentNames, in definition order (checked against the import on every run) *)
Inductive sig := SStop | SStart | SDescriptor | SEvent | SDatum | SResource | SEventPage
               | SDatumPage | SStreamResource | SStreamDatum | SBulkDatum | SBulkEvents.

Definition all_sigs : list sig :=
  [SStop; SStart; SDescriptor; SEvent; SDatum; SResource; SEventPage; SDatumPage;
   SStreamResource; SStreamDatum; SBulkDatum; SBulkEvents].

Definition sig_idx (s : sig) : nat :=
  match s with
  | SStop => 0 | SStart => 1 | SDescriptor => 2 | SEvent => 3 | SDatum => 4 | SResource => 5
  | SEventPage => 6 | SDatumPage => 7 | SStreamResource => 8 | SStreamDatum => 9
  | SBulkDatum => 10 | SBulkEvents => 11
  end.
Definition sig_eqb (a b : sig) : bool := sig_idx a =? sig_idx b.

Definition sig_name (s : sig) : string :=
  match s with
  | SStop => "stop" | SStart => "start" | SDescriptor => "descriptor" | SEvent => "event"
  | SDatum => "datum" | SResource => "resource" | SEventPage => "event_page"
  | SDatumPage => "datum_page" | SStreamResource => "stream_resource"
  | SStreamDatum => "stream_datum" | SBulkDatum => "bulk_datum" | SBulkEvents => "bulk_events"
  end%string.
Definition doc_names : list string := map sig_name all_sigs.

(* the [name] argument of subscribe: 'all', a DocumentNames member, or anything else (KeyError) *)
Inductive subname := NAll | NSig (s : sig) | NBad.

Definition sigs_of (n : subname) : list sig :=
  match n with NAll => all_sigs | NSig s => [s] | NBad => [] end.
Definition covers (n : subname) (s : sig) : bool := existsb (sig_eqb s) (sigs_of n).

(* bluesky.utils.SUBS_NAMES = ["all", "start", "stop", "event", "descriptor"] (checked on every run):
   the keys accepted by normalize_subs_input, in the order the per-call subscriptions are made *)
Definition subs_names : list subname := [NAll; NSig SStart; NSig SStop; NSig SEvent; NSig SDescriptor].
Definition subs_names_str : list string := ["all"; "start"; "stop"; "event"; "descriptor"]%string.

Definition subname_eqb (a b : subname) : bool :=
  match a, b with
  | NAll, NAll => true
  | NSig x, NSig y => sig_eqb x y
  | NBad, NBad => true
  | _, _ => false
  end.

(* documents, canonical: run = index of the run inside the call, seq = seq_num, ok = exit_status 'success' *)
Inductive doc := DStart (run : nat) | DDescriptor (run : nat) | DEvent (run seq : nat) | DStop (run : nat) (ok : bool).

Definition doc_sig (d : doc) : sig :=
  match d with DStart _ => SStart | DDescriptor _ => SDescriptor | DEvent _ _ => SEvent | DStop _ _ => SStop end.
Definition is_stop (d : doc) : bool := match d with DStop _ _ => true | _ => false end.

Definition doc_eqb (a b : doc) : bool :=
  match a, b with
  | DStart r, DStart r' => r =? r'
  | DDescriptor r, DDescriptor r' => r =? r'
  | DEvent r s, DEvent r' s' => (r =? r') && (s =? s')
  | DStop r o, DStop r' o' => (r =? r') && Bool.eqb o o'
  | _, _ => false
  end.

(* ------------------------------------------------------------------ callables *)

(* fn_id: which object is called (what the logs are keyed by); fn_eq: its class under Python ==/hash
   (CallbackRegistry de-duplicates by equality); raises_on: the documents on which it raises *)
(* what a callback may do to the subscriptions while it handles a document: RE.unsubscribe(t), or
   RE.subscribe(g, name) for a plain callable g (given by its components; name None = 'all') *)
Inductive cb_act := CbUnsub (t : nat) | CbSub (id eq : nat) (rz : doc -> bool) (n : option sig).

(* acts: what the callable does (in order) when invoked on a document, before it returns or raises *)
Record callable := { fn_id : nat; fn_eq : nat; raises_on : doc -> bool; acts : doc -> list cb_act }.
Definition plain_fn (id eq : nat) (rz : doc -> bool) : callable :=
  {| fn_id := id; fn_eq := eq; raises_on := rz; acts := fun _ => [] |}.

(* concrete callables for generated cases: raise on documents matching one of the patterns *)
Definition opt_match (o : option nat) (n : nat) : bool := match o with None => true | Some k => k =? n end.
Definition pat_match (p : sig * option nat * option nat) (d : doc) : bool :=
  let '(s, r, q) := p in
  sig_eqb s (doc_sig d) &&
  match d with
  | DStart run | DDescriptor run | DStop run _ => opt_match r run
  | DEvent run seq => opt_match r run && opt_match q seq
  end.
Definition pats_fun (pats : list (sig * option nat * option nat)) : doc -> bool :=
  fun d => existsb (fun p => pat_match p d) pats.
Definition mk_fn (id eq : nat) (pats : list (sig * option nat * option nat)) : callable :=
  plain_fn id eq (pats_fun pats).
(* ... and perform the actions whose pattern matches the document *)
Definition mk_fn_a (id eq : nat) (pats : list (sig * option nat * option nat))
                   (al : list ((sig * option nat * option nat) * cb_act)) : callable :=
  {| fn_id := id; fn_eq := eq; raises_on := pats_fun pats;
     acts := fun d => map snd (filter (fun pa => pat_match (fst pa) d) al) |}.

(* ------------------------------------------------------------------ CallbackRegistry *)

Record entry := { e_sig : sig; e_cid : nat; e_fn : callable }.

Record registry := {
  cid_ctr : nat;              (* _cid *)
  cbs : list entry;           (* callbacks[sig][cid] = proxy(fn); one flat list, insertion (= cid) order *)
  fmap : list entry;          (* _func_cid_map[sig][proxy(fn)] = cid *)
  ign : bool;                 (* ignore_exceptions *)
  shared : bool               (* instrumentation only, read by no transition: some connect returned an existing cid *)
}.

Definition reg0 : registry := {| cid_ctr := 0; cbs := []; fmap := []; ign := false; shared := false |}.

Definition same_key (s : sig) (f : callable) (e : entry) : bool :=
  sig_eqb (e_sig e) s && (fn_eq (e_fn e) =? fn_eq f).

Definition connect (r : registry) (s : sig) (f : callable) : registry * nat :=
  match find (same_key s f) (fmap r) with
  | Some e =>                                   (* `if proxy in self._func_cid_map[sig]: return ...` *)
      ({| cid_ctr := cid_ctr r; cbs := cbs r; fmap := fmap r; ign := ign r; shared := true |}, e_cid e)
  | None =>
      let c := S (cid_ctr r) in
      let e := {| e_sig := s; e_cid := c; e_fn := f |} in
      ({| cid_ctr := c; cbs := cbs r ++ [e]; fmap := fmap r ++ [e]; ign := ign r; shared := shared r |}, c)
  end.

Definition has_cid (c : nat) (e : entry) : bool := e_cid e =? c.

(* disconnect: delete the cid from the (one) per-signal dict holding it and every _func_cid_map entry
   with that value; an unknown cid is a no-op *)
Definition disconnect (r : registry) (c : nat) : registry :=
  if existsb (has_cid c) (cbs r)
  then {| cid_ctr := cid_ctr r; cbs := filter (fun e => negb (has_cid c e)) (cbs r);
          fmap := filter (fun e => negb (has_cid c e)) (fmap r); ign := ign r; shared := shared r |}
  else r.

Inductive exn := ExCb (id : nat) | ExKeyError | ExIllegal.

(* process, generically over the state the callbacks act upon (the Dispatcher here, the live list in the
   specification): call the given callables in order; each performs its actions on the subscriptions,
   then returns or raises; a raising one is passed over when ignore_exceptions, otherwise its exception
   propagates at once.  The list is the snapshot taken when process starts: changes made by the
   callbacks do not affect who is called for THIS document. *)
Fixpoint call_all {D : Type} (act : D -> cb_act -> D) (ignore : bool) (d : doc) (st : D) (fs : list callable)
  : D * list (nat * bool) * option exn :=
  match fs with
  | [] => (st, [], None)
  | f :: fs' =>
      let st1 := fold_left act (acts f d) st in
      if raises_on f d then
        if ignore then let '(st2, l, x) := call_all act ignore d st1 fs' in (st2, (fn_id f, true) :: l, x)
        else (st1, [(fn_id f, true)], Some (ExCb (fn_id f)))
      else let '(st2, l, x) := call_all act ignore d st1 fs' in (st2, (fn_id f, false) :: l, x)
  end.

Definition registered (r : registry) (s : sig) : list callable :=
  map e_fn (filter (fun e => sig_eqb (e_sig e) s) (cbs r)).


(* ------------------------------------------------------------------ Dispatcher *)

Record disp := {
  reg : registry;
  tok_ctr : nat;                      (* next value of _counter *)
  tokmap : list (nat * list nat)      (* _token_mapping: public token -> private cids *)
}.

Definition disp0 : disp := {| reg := reg0; tok_ctr := 0; tokmap := [] |}.

Fixpoint connect_all (r : registry) (ss : list sig) (f : callable) : registry * list nat :=
  match ss with
  | [] => (r, [])
  | s :: ss' => let '(r1, c) := connect r s f in
                let '(r2, cs) := connect_all r1 ss' f in (r2, c :: cs)
  end.

(* None = KeyError from DocumentNames[name]; nothing has changed then *)
Definition d_subscribe (d : disp) (f : callable) (n : subname) : disp * option nat :=
  match n with
  | NBad => (d, None)
  | _ => let '(r, cs) := connect_all (reg d) (sigs_of n) f in
         ({| reg := r; tok_ctr := S (tok_ctr d); tokmap := tokmap d ++ [(tok_ctr d, cs)] |}, Some (tok_ctr d))
  end.

Definition tok_is (t : nat) (p : nat * list nat) : bool := fst p =? t.

Definition d_unsubscribe (d : disp) (t : nat) : disp :=
  match find (tok_is t) (tokmap d) with
  | None => d                                                       (* pop(token, []) *)
  | Some (_, cs) =>
      {| reg := fold_left disconnect cs (reg d); tok_ctr := tok_ctr d;
         tokmap := filter (fun p => negb (tok_is t p)) (tokmap d) |}
  end.

Definition d_unsubscribe_all (d : disp) : disp :=
  fold_left d_unsubscribe (map fst (tokmap d)) d.

Definition d_set_ignore (d : disp) (b : bool) : disp :=
  let r := reg d in
  {| reg := {| cid_ctr := cid_ctr r; cbs := cbs r; fmap := fmap r; ign := b; shared := shared r |};
     tok_ctr := tok_ctr d; tokmap := tokmap d |}.

Definition act_name (n : option sig) : subname := match n with None => NAll | Some s => NSig s end.

(* RE.unsubscribe / RE.subscribe called from inside a callback (the latter makes a permanent subscription) *)
Definition apply_act (d : disp) (a : cb_act) : disp :=
  match a with
  | CbUnsub t => d_unsubscribe d t
  | CbSub id eq rz n => fst (d_subscribe d (plain_fn id eq rz) (act_name n))
  end.

(* Dispatcher.process -> CallbackRegistry.process: `for cid, func in list(self.callbacks[sig].items())` *)
Definition process (d : disp) (dc : doc) : disp * list (nat * bool) * option exn :=
  call_all apply_act (ign (reg d)) dc d (registered (reg d) (doc_sig dc)).

(* ------------------------------------------------------------------ tiny plans *)

Inductive pmsg :=
| POpen                                   (* open_run *)
| PEvent                                  (* create(name='primary'); read(det); save *)
| PClose                                  (* close_run *)
| PNull                                   (* null *)
| PSub (f : callable) (n : subname)       (* Msg('subscribe', None, f, name) *)
| PUnsub (t : nat).                       (* Msg('unsubscribe', None, t) / Msg('unsubscribe', token=t) *)

(* what the engine and the (single, default-key) run bundler remember inside one call *)
Record cstate := {
  run_open : bool;      (* a bundler exists for the run key and its run_is_open *)
  stop_made : bool;     (* compose_stop was already called for the open run (second call: poison pill) *)
  run_idx : nat;        (* index of the open run *)
  nruns : nat;          (* runs opened so far in this call *)
  described : bool;     (* the 'primary' descriptor exists *)
  seqn : nat            (* events emitted in the open run *)
}.
Definition cstate0 : cstate :=
  {| run_open := false; stop_made := false; run_idx := 0; nruns := 0; described := false; seqn := 0 |}.

(* the documents a data message asks to emit, in order, and the bundler state while they are emitted
   (open_run sets run_is_open before emitting; close_run clears it only after a successful emit) *)
Inductive action :=
| AEmit (during : cstate) (ds : list doc) (after : cstate)
| AIllegal                                 (* IllegalMessageSequence raised into the plan *)
| ASkip.

Definition plan_action (c : cstate) (m : pmsg) : action :=
  match m with
  | POpen =>
      if run_open c then AIllegal
      else let c1 := {| run_open := true; stop_made := false; run_idx := nruns c; nruns := S (nruns c);
                        described := false; seqn := 0 |} in
           AEmit c1 [DStart (nruns c)] c1
  | PEvent =>
      if negb (run_open c) then AIllegal
      else let c1 := {| run_open := true; stop_made := stop_made c; run_idx := run_idx c; nruns := nruns c;
                        described := true; seqn := S (seqn c) |} in
           AEmit c1 ((if described c then [] else [DDescriptor (run_idx c)]) ++ [DEvent (run_idx c) (S (seqn c))]) c1
  | PClose =>
      if negb (run_open c) then AIllegal
      else AEmit {| run_open := true; stop_made := true; run_idx := run_idx c; nruns := nruns c;
                    described := described c; seqn := seqn c |}
                 [DStop (run_idx c) true]
                 {| run_open := false; stop_made := false; run_idx := run_idx c; nruns := nruns c;
                    described := false; seqn := 0 |}
  | _ => ASkip
  end.

(* one emission as observed: the document and the callables invoked for it, in order, each with
   whether it raised *)
Record emission := { em_doc : doc; em_calls : list (nat * bool) }.

(* emit the documents one after the other through [proc]; stop at the first one that raises *)
Fixpoint emit_all {D : Type} (proc : D -> doc -> D * list (nat * bool) * option exn) (st : D) (ds : list doc)
  : D * list emission * option exn :=
  match ds with
  | [] => (st, [], None)
  | d :: ds' =>
      let '(st1, inv, x) := proc st d in
      match x with
      | Some e => (st1, [{| em_doc := d; em_calls := inv |}], Some e)
      | None => let '(st2, ems, y) := emit_all proc st1 ds' in (st2, {| em_doc := d; em_calls := inv |} :: ems, y)
      end
  end.

(* _run's finally: an open run is closed with the stashed exit status; errors are swallowed;
   when compose_stop was already used the re-close fails before anything is emitted *)
Definition cleanup_docs (c : cstate) (failed : bool) : list doc :=
  if run_open c then (if stop_made c then [] else [DStop (run_idx c) (negb failed)]) else [].

Inductive outcome := Done | Raised (e : exn).

Inductive obs :=
| OTok (t : nat)                     (* subscribe returned a token *)
| OErr (e : exn)                     (* the call raised, nothing else observable *)
| ONone
| OCall (ems : list emission) (toks : list nat) (out : outcome).   (* toks: results of in-plan subscribes *)

(* ------------------------------------------------------------------ RunEngine level *)

Record re := {
  dsp : disp;
  temp : list nat            (* _temp_callback_ids *)
}.
Definition re0 : re := {| dsp := disp0; temp := [] |}.

Definition clear_call_cache (s : re) : re :=
  {| dsp := fold_left d_unsubscribe (temp s) (dsp s); temp := [] |}.

(* normalize_subs_input on the dict form {name: [funcs]} (a bare callable or a list is {"all": [...]});
   None = KeyError for a key outside SUBS_NAMES *)
Definition in_subs_names (n : subname) : bool := existsb (subname_eqb n) subs_names.
Definition normalize_subs (subs : list (subname * list callable)) : option (list (subname * callable)) :=
  if forallb (fun p => in_subs_names (fst p)) subs
  then Some (flat_map (fun n => flat_map (fun p => if subname_eqb (fst p) n then map (pair n) (snd p) else []) subs)
                      subs_names)
  else None.

Fixpoint subscribe_temps (s : re) (l : list (subname * callable)) : re :=
  match l with
  | [] => s
  | (n, f) :: l' =>
      match d_subscribe (dsp s) f n with
      | (d, Some t) => subscribe_temps {| dsp := d; temp := temp s ++ [t] |} l'
      | (d, None) => subscribe_temps {| dsp := d; temp := temp s |} l'       (* unreachable after normalize *)
      end
  end.

Record callres := { cr_ems : list emission; cr_toks : list nat; cr_out : outcome }.

(* run the plan's messages; the first exception raised into the (non-catching) plan ends it *)
Fixpoint run_plan (s : re) (c : cstate) (plan : list pmsg) (ems : list emission) (toks : list nat)
  : re * cstate * list emission * list nat * option exn :=
  match plan with
  | [] => (s, c, ems, toks, None)
  | m :: plan' =>
      match m with
      | PSub f n =>
          match d_subscribe (dsp s) f n with
          | (d, Some t) => run_plan {| dsp := d; temp := temp s ++ [t] |} c plan' ems (toks ++ [t])
          | (d, None) => ({| dsp := d; temp := temp s |}, c, ems, toks, Some ExKeyError)
          end
      | PUnsub t =>
          let s1 := {| dsp := d_unsubscribe (dsp s) t; temp := temp s |} in
          if existsb (Nat.eqb t) (temp s)
          then run_plan {| dsp := dsp s1; temp := filter (fun x => negb (x =? t)) (temp s) |} c plan' ems toks
          else (s1, c, ems, toks, Some ExKeyError)                      (* set.remove(token) *)
      | _ =>
          match plan_action c m with
          | ASkip => run_plan s c plan' ems toks
          | AIllegal => (s, c, ems, toks, Some ExIllegal)
          | AEmit during ds after =>
              match emit_all process (dsp s) ds with
              | (d, es, None) => run_plan {| dsp := d; temp := temp s |} after plan' (ems ++ es) toks
              | (d, es, Some e) => ({| dsp := d; temp := temp s |}, during, ems ++ es, toks, Some e)
              end
          end
      end
  end.

Definition run_call (s0 : re) (subs : list (subname * list callable)) (plan : list pmsg) : re * obs :=
  let s1 := clear_call_cache s0 in
  match normalize_subs subs with
  | None => (s1, OCall [] [] (Raised ExKeyError))
  | Some l =>
      let s2 := subscribe_temps s1 l in
      let '(s3, c, ems, toks, x) := run_plan s2 cstate0 plan [] [] in
      let failed := match x with Some _ => true | None => false end in
      let '(d4, es, _) := emit_all process (dsp s3) (cleanup_docs c failed) in
      ({| dsp := d4; temp := temp s3 |}, OCall (ems ++ es) toks (match x with Some e => Raised e | None => Done end))
  end.

Inductive op :=
| Subscribe (f : callable) (n : subname)                          (* RE.subscribe(f, name) *)
| Unsubscribe (t : nat)                                           (* RE.unsubscribe(t) *)
| SetIgnore (b : bool)                                            (* RE.ignore_callback_exceptions = b *)
| RunCall (subs : list (subname * list callable)) (plan : list pmsg)   (* RE(plan, subs) *)
| UnsubscribeAll                                                  (* RE.dispatcher.unsubscribe_all() *)
| Reset.                                                          (* RE.reset() while idle *)

Definition step (s : re) (o : op) : re * obs :=
  match o with
  | Subscribe f n =>
      match d_subscribe (dsp s) f n with
      | (d, Some t) => ({| dsp := d; temp := temp s |}, OTok t)
      | (d, None) => ({| dsp := d; temp := temp s |}, OErr ExKeyError)
      end
  | Unsubscribe t => ({| dsp := d_unsubscribe (dsp s) t; temp := temp s |}, ONone)
  | SetIgnore b => ({| dsp := d_set_ignore (dsp s) b; temp := temp s |}, ONone)
  | RunCall subs plan => run_call s subs plan
  | UnsubscribeAll => ({| dsp := d_unsubscribe_all (dsp s); temp := temp s |}, ONone)
  | Reset => let s1 := clear_call_cache s in ({| dsp := d_unsubscribe_all (dsp s1); temp := [] |}, ONone)
  end.

Fixpoint run_from (s : re) (h : list op) : re * list obs :=
  match h with
  | [] => (s, [])
  | o :: h' => let '(s1, ob) := step s o in
               let '(s2, obs') := run_from s1 h' in (s2, ob :: obs')
  end.

Definition run_hist (h : list op) : list obs := snd (run_from re0 h).

(* finding class C18-a: while running the history some subscription (permanent, per-call or in-plan)
   was made for a callable equal to one still registered for the same document kind, so that
   CallbackRegistry.connect handed out a cid that another public token already holds *)
Definition finding_C18_a (h : list op) : bool := shared (reg (dsp (fst (run_from re0 h)))).

(* finding class C19-a: with callback exceptions NOT ignored, a callback invoked for a stop document raised *)
Definition stop_raised (o : obs) : bool :=
  match o with
  | OCall ems _ _ => existsb (fun em => is_stop (em_doc em) && existsb snd (em_calls em)) ems
  | _ => false
  end.
Fixpoint stop_raise_from (ignore : bool) (h : list op) (os : list obs) : bool :=
  match h, os with
  | o :: h', ob :: os' =>
      match o with
      | SetIgnore b => stop_raise_from b h' os'
      | RunCall _ _ => (negb ignore && stop_raised ob) || stop_raise_from ignore h' os'
      | _ => stop_raise_from ignore h' os'
      end
  | _, _ => false
  end.
Definition finding_C19_a (h : list op) : bool := stop_raise_from false h (run_hist h).

(* ------------------------------------------------------------------ the specification *)

(* A subscription is a token, the callable, the kinds asked for, and whether it is temporary
   (made through RE(plan, subs) or a 'subscribe' message).  The live subscriptions are kept in the
   order they were made.  Nothing else. *)
Record sub := { s_tok : nat; s_fn : callable; s_name : subname; s_temp : bool }.

Record spec_st := {
  live : list sub;
  next_tok : nat;         (* tokens are handed out 0, 1, 2, ... one per successful subscribe *)
  sp_ign : bool;
  sp_temps : list nat     (* temporary tokens handed out in the current call and not yet named by an in-plan
                             unsubscribe: the only tokens an 'unsubscribe' message may name without KeyError *)
}.
Definition spec0 : spec_st := {| live := []; next_tok := 0; sp_ign := false; sp_temps := [] |}.

Definition sp_subscribe (s : spec_st) (f : callable) (n : subname) (tmp : bool) : spec_st * option nat :=
  match n with
  | NBad => (s, None)
  | _ => ({| live := live s ++ [{| s_tok := next_tok s; s_fn := f; s_name := n; s_temp := tmp |}];
             next_tok := S (next_tok s); sp_ign := sp_ign s;
             sp_temps := if tmp then sp_temps s ++ [next_tok s] else sp_temps s |}, Some (next_tok s))
  end.

Definition sp_unsubscribe (s : spec_st) (t : nat) : spec_st :=
  {| live := filter (fun x => negb (s_tok x =? t)) (live s); next_tok := next_tok s; sp_ign := sp_ign s;
     sp_temps := sp_temps s |}.

(* what a callback does to the subscriptions: end the one with that token / make a permanent one *)
Definition sp_apply_act (s : spec_st) (a : cb_act) : spec_st :=
  match a with
  | CbUnsub t => sp_unsubscribe s t
  | CbSub id eq rz n => fst (sp_subscribe s (plain_fn id eq rz) (act_name n) false)
  end.

(* every subscription that is live WHEN THE DOCUMENT IS EMITTED and asks for its kind gets it, exactly once,
   in subscription order - whatever the callbacks do to the subscriptions while it is being delivered
   (one unsubscribed meanwhile still gets this document, one subscribed meanwhile gets the next ones) *)
Definition sp_process (s : spec_st) (d : doc) : spec_st * list (nat * bool) * option exn :=
  call_all sp_apply_act (sp_ign s) d s (map s_fn (filter (fun x => covers (s_name x) (doc_sig d)) (live s))).

Fixpoint sp_subscribe_temps (s : spec_st) (l : list (subname * callable)) : spec_st :=
  match l with
  | [] => s
  | (n, f) :: l' => sp_subscribe_temps (fst (sp_subscribe s f n true)) l'
  end.

Fixpoint sp_run_plan (s : spec_st) (c : cstate) (plan : list pmsg) (ems : list emission) (toks : list nat)
  : spec_st * cstate * list emission * list nat * option exn :=
  match plan with
  | [] => (s, c, ems, toks, None)
  | m :: plan' =>
      match m with
      | PSub f n =>
          match sp_subscribe s f n true with
          | (s1, Some t) => sp_run_plan s1 c plan' ems (toks ++ [t])
          | (s1, None) => (s1, c, ems, toks, Some ExKeyError)
          end
      | PUnsub t =>
          (* the subscription with that token ends; only temporary tokens of this call may be named, once *)
          let s1 := sp_unsubscribe s t in
          if existsb (Nat.eqb t) (sp_temps s)
          then sp_run_plan {| live := live s1; next_tok := next_tok s1; sp_ign := sp_ign s1;
                              sp_temps := filter (fun x => negb (x =? t)) (sp_temps s) |} c plan' ems toks
          else (s1, c, ems, toks, Some ExKeyError)
      | _ =>
          match plan_action c m with
          | ASkip => sp_run_plan s c plan' ems toks
          | AIllegal => (s, c, ems, toks, Some ExIllegal)
          | AEmit during ds after =>
              match emit_all sp_process s ds with
              | (s1, es, None) => sp_run_plan s1 after plan' (ems ++ es) toks
              | (s1, es, Some e) => (s1, during, ems ++ es, toks, Some e)
              end
          end
      end
  end.

(* temporary subscriptions end with their call *)
Definition sp_end_call (s : spec_st) : spec_st :=
  {| live := filter (fun x => negb (s_temp x)) (live s); next_tok := next_tok s; sp_ign := sp_ign s; sp_temps := [] |}.

Definition sp_run_call (s0 : spec_st) (subs : list (subname * list callable)) (plan : list pmsg) : spec_st * obs :=
  match normalize_subs subs with
  | None => (s0, OCall [] [] (Raised ExKeyError))
  | Some l =>
      let s2 := sp_subscribe_temps s0 l in
      let '(s3, c, ems, toks, x) := sp_run_plan s2 cstate0 plan [] [] in
      let failed := match x with Some _ => true | None => false end in
      let '(s4, es, _) := emit_all sp_process s3 (cleanup_docs c failed) in
      (sp_end_call s4, OCall (ems ++ es) toks (match x with Some e => Raised e | None => Done end))
  end.

Definition sp_step (s : spec_st) (o : op) : spec_st * obs :=
  match o with
  | Subscribe f n =>
      match sp_subscribe s f n false with
      | (s1, Some t) => (s1, OTok t)
      | (s1, None) => (s1, OErr ExKeyError)
      end
  | Unsubscribe t => (sp_unsubscribe s t, ONone)
  | SetIgnore b => ({| live := live s; next_tok := next_tok s; sp_ign := b; sp_temps := sp_temps s |}, ONone)
  | RunCall subs plan => sp_run_call s subs plan
  | UnsubscribeAll | Reset => ({| live := []; next_tok := next_tok s; sp_ign := sp_ign s; sp_temps := sp_temps s |}, ONone)
  end.

Fixpoint sp_run_from (s : spec_st) (h : list op) : spec_st * list obs :=
  match h with
  | [] => (s, [])
  | o :: h' => let '(s1, ob) := sp_step s o in
               let '(s2, obs') := sp_run_from s1 h' in (s2, ob :: obs')
  end.

Definition spec_hist (h : list op) : list obs := snd (sp_run_from spec0 h).

(* ------------------------------------------------------------------ comparing observations *)

Definition exn_eqb (a b : exn) : bool :=
  match a, b with
  | ExCb i, ExCb j => i =? j
  | ExKeyError, ExKeyError => true
  | ExIllegal, ExIllegal => true
  | _, _ => false
  end.
Definition outcome_eqb (a b : outcome) : bool :=
  match a, b with
  | Done, Done => true
  | Raised e, Raised e' => exn_eqb e e'
  | _, _ => false
  end.
Definition emission_eqb (a b : emission) : bool :=
  doc_eqb (em_doc a) (em_doc b) && list_beq (prod_beq Nat.eqb Bool.eqb) (em_calls a) (em_calls b).
Definition obs_eqb (a b : obs) : bool :=
  match a, b with
  | OTok t, OTok t' => t =? t'
  | OErr e, OErr e' => exn_eqb e e'
  | ONone, ONone => true
  | OCall e t o, OCall e' t' o' => list_beq emission_eqb e e' && lnat_beq t t' && outcome_eqb o o'
  | _, _ => false
  end.
Definition lobs_eqb := list_beq obs_eqb.
Definition lstr_eqb := list_beq String.eqb.
Definition E (d : doc) (l : list (nat * bool)) : emission := {| em_doc := d; em_calls := l |}.

(* ------------------------------------------------------------------ C19: the error policy, on observations *)

Definition quiet_em (em : emission) : bool := negb (existsb snd (em_calls em)).

(* Some id: the last callable invoked (id) raised and none before it did - delivery was cut there *)
Definition cut_em (em : emission) : option nat :=
  match rev (em_calls em) with
  | (id, true) :: before => if existsb snd before then None else Some id
  | _ => None
  end.

Definition doc_run (d : doc) : nat :=
  match d with DStart r | DDescriptor r | DEvent r _ | DStop r _ => r end.

Definition not_cb_exn (out : outcome) : bool := match out with Raised (ExCb _) => false | _ => true end.

(* exceptions NOT ignored: nobody raises until (possibly) one emission is cut by a raising callable; then the
   call raises exactly that callable's exception, no further plan message emits anything, and the one
   remaining emission is the closing stop document of that run with exit status fail, delivered quietly *)
Fixpoint strict_ok (ems : list emission) (out : outcome) : bool :=
  match ems with
  | [] => not_cb_exn out
  | em :: rest =>
      if quiet_em em then strict_ok rest out
      else match cut_em em with
           | None => false
           | Some id =>
               outcome_eqb out (Raised (ExCb id)) &&
               match rest with
               | [em'] => doc_eqb (em_doc em') (DStop (doc_run (em_doc em)) false) && quiet_em em'
               | _ => false
               end
           end
  end.

Definition call_ok (ignore : bool) (ob : obs) : bool :=
  match ob with
  | OCall ems _ out => if ignore then not_cb_exn out else strict_ok ems out
  | _ => true
  end.

Fixpoint policy_ok_from (ignore : bool) (h : list op) (os : list obs) : bool :=
  match h, os with
  | o :: h', ob :: os' =>
      match o with
      | SetIgnore b => policy_ok_from b h' os'
      | RunCall _ _ => call_ok ignore ob && policy_ok_from ignore h' os'
      | _ => policy_ok_from ignore h' os'
      end
  | _, _ => true
  end.

(* the callables of a history made non-raising, and observations without the raise flags *)
Definition quiet_act (a : cb_act) : cb_act :=
  match a with CbSub id eq _ n => CbSub id eq (fun _ => false) n | _ => a end.
Definition quiet_fn (f : callable) : callable :=
  {| fn_id := fn_id f; fn_eq := fn_eq f; raises_on := fun _ => false; acts := fun d => map quiet_act (acts f d) |}.
Definition quiet_pmsg (m : pmsg) : pmsg := match m with PSub f n => PSub (quiet_fn f) n | _ => m end.
Definition quiet_op (o : op) : op :=
  match o with
  | Subscribe f n => Subscribe (quiet_fn f) n
  | RunCall subs plan => RunCall (map (fun p => (fst p, map quiet_fn (snd p))) subs) (map quiet_pmsg plan)
  | _ => o
  end.
Definition strip_em (em : emission) : emission :=
  {| em_doc := em_doc em; em_calls := map (fun c => (fst c, false)) (em_calls em) |}.
Definition strip_obs (ob : obs) : obs :=
  match ob with OCall ems toks out => OCall (map strip_em ems) toks out | _ => ob end.
Definition no_strict (h : list op) : bool :=
  forallb (fun o => match o with SetIgnore false => false | _ => true end) h.

(* internal sizes after a history (what test_dispatcher_unsubscribe_all looks at): registered callbacks over all
   signals, and public tokens; compared with the implementation in the correspondence *)
Definition final_counts (h : list op) : nat * nat :=
  let s := fst (run_from re0 h) in (length (cbs (reg (dsp s))), length (tokmap (dsp s))).
Definition counts_eqb (a b : nat * nat) : bool := prod_beq Nat.eqb Nat.eqb a b.
