(* Proofs about the step-scan plan models (C25). *)
From BV Require Import Base.Prelude Base.OrdFieldS Pure.Snake Pure.Linspace Pure.Patterns Gen.Scan.
From BV Require Import Proofs.Snake Proofs.Linspace.

(* ================================================================== generic core: scan_nd *)
Section Core.
  Context {F : Type} (ops : Ops F).
  Variable E : F -> F -> Prop.
  Hypothesis E_refl : forall x, E x x.
  Hypothesis E_sym : forall x y, E x y -> E y x.
  Hypothesis E_trans : forall x y z, E x y -> E y z -> E x z.
  Hypothesis eqb_E : forall x y, o_eqb ops x y = true -> E x y.

  Notation msg := (@msg F). Notation posmap := (@posmap F). Notation point := (@point F).
  Notation cache := (@cache F). Notation meta := (@meta F).

  (* the effective position vector agrees with a point of the trajectory *)
  Definition point_reached (pm : posmap) (p : point) : Prop :=
    Forall (fun mv => exists v', pm (fst mv) = Some v' /\ E v' (snd mv)) p.

  Definition point_eq (p p' : point) : Prop :=
    Forall2 (fun a b => fst a = fst b /\ E (snd a) (snd b)) p p'.

  Lemma point_reached_eq pm p p' : point_reached pm p -> point_eq p p' -> point_reached pm p'.
  Proof.
    intros Hr He. induction He as [|a b p p' [Hk Hv] He IH]; [constructor|].
    inversion Hr as [|? ? [v' [Hpm Hv']] Hr']; subst. constructor.
    - exists v'. rewrite <- Hk. split; [assumption|]. eapply E_trans; eassumption.
    - apply IH. assumption.
  Qed.

  Lemma traj_reached_eq snaps cy traj :
    Forall2 point_reached snaps cy -> Forall2 point_eq cy traj -> Forall2 point_reached snaps traj.
  Proof.
    intros H. revert traj. induction H as [|pm p snaps cy Hp H IH]; intros traj He;
      inversion He; subst; constructor.
    - eapply point_reached_eq; eassumption.
    - apply IH. assumption.
  Qed.

  (* ---- snapshots / final_pos algebra *)
  Lemma snapshots_app (a b : list msg) pm :
    snapshots (a ++ b) pm = snapshots a pm ++ snapshots b (final_pos a pm).
  Proof.
    revert pm. induction a as [|m a IH]; intros pm; [reflexivity|].
    destruct m; cbn [app snapshots final_pos]; rewrite ?IH; reflexivity.
  Qed.

  Lemma final_pos_app (a b : list msg) pm : final_pos (a ++ b) pm = final_pos b (final_pos a pm).
  Proof.
    revert pm. induction a as [|m a IH]; intros pm; [reflexivity|].
    destruct m; cbn [app final_pos]; rewrite ?IH; reflexivity.
  Qed.

  Definition quiet (m : msg) : bool := match m with MSet _ _ _ | MSave => false | _ => true end.

  Lemma quiet_snapshots ms pm : forallb quiet ms = true -> snapshots ms pm = [] /\ final_pos ms pm = pm.
  Proof.
    induction ms as [|m ms IH]; intros H; [split; reflexivity|].
    cbn [forallb] in H. apply andb_true_iff in H as [Hm H].
    destruct m; try discriminate; cbn [snapshots final_pos]; apply IH; assumption.
  Qed.

  Lemma forallb_map_all {A} (q : msg -> bool) (f : A -> msg) l :
    (forall x, q (f x) = true) -> forallb q (map f l) = true.
  Proof. intros H. induction l as [|x l IH]; [reflexivity|]. cbn. rewrite H, IH. reflexivity. Qed.

  Lemma forallb_quiet_map {A} (f : A -> msg) l : (forall x, quiet (f x) = true) -> forallb quiet (map f l) = true.
  Proof. apply forallb_map_all. Qed.

  Definition is_stage (m : msg) : bool := match m with MStage _ _ => true | _ => false end.
  Definition is_unstage (m : msg) : bool := match m with MUnstage _ _ => true | _ => false end.

  (* ---- the shape of one point's messages *)
  Definition is_set (g : nat) (m : msg) : Prop := exists k v, m = MSet k v g.

  Definition point_group (ms : list msg) : Prop :=
    exists sets g trig reads,
      ms = MCheckpoint :: sets ++ [MWait g] ++ trig ++ [MCreate] ++ map MRead reads ++ [MSave] /\
      Forall (is_set g) sets /\
      (trig = [] \/ exists tg objs, objs <> [] /\ trig = map (fun o => MTrigger o tg) objs ++ [MWait tg]).

  Lemma trigger_and_read_shape devs g :
    exists trig, fst (trigger_and_read devs g) = trig ++ [MCreate] ++ map MRead (map fst devs) ++ [MSave] /\
      forallb quiet trig = true /\
      (trig = [] \/ exists tg objs, objs <> [] /\ trig = map (fun o => MTrigger o tg) objs ++ [MWait tg]).
  Proof.
    unfold trigger_and_read. cbn [fst].
    destruct (filter (fun d => snd d) devs) as [|d0 tr] eqn:Ef.
    - exists []. rewrite map_map. split; [reflexivity|]. split; [reflexivity|left; reflexivity].
    - exists (map (fun d : obj * bool => MTrigger (fst d) g) (d0 :: tr) ++ [MWait g]).
      rewrite map_map. split; [rewrite <- !app_assoc; reflexivity|]. split.
      + rewrite forallb_app. rewrite forallb_quiet_map by reflexivity. reflexivity.
      + right. exists g, (map fst (d0 :: tr)). split; [discriminate|]. rewrite map_map. reflexivity.
  Qed.

  (* ---- move_per_step keeps cache and effective positions in step *)
  Definition consistent (c : cache) (pm : posmap) : Prop :=
    forall k v, cache_get c k = Some v -> pm k = Some v.

  Lemma move_sets_ok g p : forall c pm, consistent c pm -> NoDup (map fst p) ->
    let ms := fst (move_sets ops g p c) in
    let c' := snd (move_sets ops g p c) in
    let pm' := final_pos ms pm in
    consistent c' pm' /\ point_reached pm' p /\ snapshots ms pm = [] /\ Forall (is_set g) ms /\
    (forall k, ~ In k (map fst p) -> pm' k = pm k).
  Proof.
    induction p as [|[m v] r IH]; intros c pm Hc Hnd.
    - cbn. repeat split; try assumption; constructor.
    - cbn [map fst] in Hnd. inversion Hnd as [|? ? Hnin Hnd']; subst.
      cbn [move_sets].
      destruct (match cache_get c m with Some old => o_eqb ops v old | None => false end) eqn:Hun.
      + destruct (cache_get c m) as [old|] eqn:Hget; [|discriminate].
        destruct (IH c pm Hc Hnd') as [Hc' [Hr [Hs [Hset Hout]]]].
        split; [assumption|]. split; [|split; [assumption|split; [assumption|]]].
        * constructor; [|assumption]. cbn [fst snd]. exists old. split.
          -- rewrite (Hout m Hnin). apply Hc. assumption.
          -- apply E_sym. apply eqb_E. assumption.
        * intros k Hk. apply Hout. cbn [map fst] in Hk. intros Hin. apply Hk. right. assumption.
      + destruct (move_sets ops g r ((m, v) :: c)) as [ms c'] eqn:Hrec. cbn [fst snd].
        assert (Hc1 : consistent ((m, v) :: c) (pm_set pm m v)).
        { intros k w Hk. cbn [cache_get] in Hk. unfold pm_set.
          destruct (m =? k) eqn:Emk.
          - apply Nat.eqb_eq in Emk. subst. rewrite Nat.eqb_refl. assumption.
          - rewrite Nat.eqb_sym, Emk. apply Hc. assumption. }
        specialize (IH ((m, v) :: c) (pm_set pm m v) Hc1 Hnd'). rewrite Hrec in IH. cbn [fst snd] in IH.
        destruct IH as [Hc' [Hr [Hs [Hset Hout]]]]. cbn [final_pos snapshots].
        split; [assumption|]. split; [|split; [assumption|split]].
        * constructor; [|assumption]. cbn [fst snd]. exists v. split; [|apply E_refl].
          rewrite (Hout m Hnin). unfold pm_set. rewrite Nat.eqb_refl. reflexivity.
        * constructor; [exists m, v; reflexivity|assumption].
        * intros k Hk. cbn [map fst] in Hk. rewrite Hout by (intros Hin; apply Hk; right; assumption).
          unfold pm_set. destruct (k =? m) eqn:Ekm; [|reflexivity].
          apply Nat.eqb_eq in Ekm. subst. exfalso. apply Hk. left. reflexivity.
  Qed.

  Lemma is_set_quiet_snap g ms pm : Forall (is_set g) ms -> snapshots ms pm = [].
  Proof.
    intros H. revert pm. induction H as [|m ms [k [v ->]] H IH]; intros pm; [reflexivity|].
    cbn [snapshots]. apply IH.
  Qed.

  (* ---- one_nd_step / nd_steps *)
  Lemma one_nd_step_ok dets g c p pm : consistent c pm -> NoDup (map fst p) ->
    let r := one_nd_step ops dets g c p in
    let ms := fst (fst r) in
    exists pm', snapshots ms pm = [pm'] /\ final_pos ms pm = pm' /\ point_reached pm' p /\
                consistent (snd r) pm' /\ point_group ms.
  Proof.
    intros Hc Hnd. unfold one_nd_step.
    pose proof (move_sets_ok g p c pm Hc Hnd) as Hm. cbn zeta in Hm.
    destruct (move_sets ops g p c) as [sets c'] eqn:Hms. cbn [fst snd] in Hm.
    destruct Hm as [Hc' [Hr [Hs [Hset _]]]].
    set (devs := det_devs dets ++ map (fun mv : nat * F => (OMot (fst mv), false)) p).
    destruct (trigger_and_read_shape devs (S g)) as [trig [Htr [Hq Hshape]]].
    destruct (trigger_and_read devs (S g)) as [tr g'] eqn:Etr. cbn [fst snd] in *. subst tr.
    exists (final_pos sets pm).
    assert (Hq' : forallb quiet (trig ++ [MCreate] ++ map MRead (map fst devs)) = true).
    { rewrite !forallb_app, Hq. rewrite forallb_quiet_map by reflexivity. reflexivity. }
    assert (Hgrp : point_group (MCheckpoint :: sets ++ [MWait g] ++ trig ++ [MCreate] ++ map MRead (map fst devs) ++ [MSave])).
    { exists sets, g, trig, (map fst devs). split; [reflexivity|split; assumption]. }
    replace (MCheckpoint :: sets ++ [MWait g] ++ trig ++ [MCreate] ++ map MRead (map fst devs) ++ [MSave])
      with ([MCheckpoint] ++ sets ++ [MWait g] ++ (trig ++ [MCreate] ++ map MRead (map fst devs)) ++ [MSave]) in *
      by (cbn [app]; rewrite <- !app_assoc; reflexivity).
    remember (trig ++ [MCreate] ++ map MRead (map fst devs)) as Q eqn:HQ. clear HQ.
    destruct (quiet_snapshots _ (final_pos sets pm) Hq') as [Hq1 Hq2].
    split; [|split; [|split; [assumption|split; [assumption|assumption]]]].
    - rewrite !snapshots_app, ?final_pos_app. cbn [snapshots final_pos app]. rewrite ?final_pos_app. cbn [final_pos]. rewrite Hs, Hq1, Hq2. reflexivity.
    - rewrite !final_pos_app. cbn [final_pos]. rewrite Hq2. reflexivity.
  Qed.

  Lemma nd_steps_ok dets cy : forall g c pm, consistent c pm -> (forall p, In p cy -> NoDup (map fst p)) ->
    let ms := fst (nd_steps ops dets g c cy) in
    Forall2 point_reached (snapshots ms pm) cy /\
    exists groups, ms = concat groups /\ length groups = length cy /\ Forall point_group groups.
  Proof.
    induction cy as [|p cy IH]; intros g c pm Hc Hnd.
    - cbn. split; [constructor|]. exists []. repeat split. constructor.
    - cbn [nd_steps].
      destruct (one_nd_step_ok dets g c p pm Hc (Hnd p (or_introl eq_refl))) as [pm' [Hs [Hf [Hr [Hc' Hg]]]]].
      destruct (one_nd_step ops dets g c p) as [[ms g'] c'] eqn:E1. cbn [fst snd] in *.
      specialize (IH g' c' pm' Hc' (fun q Hq => Hnd q (or_intror Hq))).
      destruct (nd_steps ops dets g' c' cy) as [ms' g''] eqn:E2. cbn [fst snd] in *.
      destruct IH as [IH1 [groups [Hcat [Hlen Hall]]]].
      split.
      + rewrite snapshots_app, Hs, Hf. cbn [app]. constructor; assumption.
      + exists (ms :: groups). cbn [concat length]. rewrite Hcat. repeat split; [lia|].
        constructor; assumption.
  Qed.

  (* ---- a whole staged run *)
  Definition scan_shaped (ms : list msg) (md : meta) (n : nat) : Prop :=
    exists pre groups post,
      ms = pre ++ [MOpenRun md] ++ concat groups ++ [MCloseRun] ++ post /\
      forallb is_stage pre = true /\ forallb is_unstage post = true /\
      length groups = n /\ Forall point_group groups.

  Definition visits (ms : list msg) (traj : list point) : Prop :=
    forall pm0, Forall2 point_reached (snapshots ms pm0) traj.

  Lemma staged_run_snapshots devices md (body : nat -> list msg * nat) pm :
    snapshots (fst (staged_run devices md body)) pm = snapshots (fst (body 1)) pm.
  Proof.
    unfold staged_run. destruct (body 1) as [b g]. cbn [fst].
    assert (H1 : forallb quiet (map (fun o => MStage o 0) devices : list msg) = true)
      by (apply forallb_quiet_map; reflexivity).
    assert (H2 : forallb quiet (map (fun o => MUnstage o g) (rev devices) : list msg) = true)
      by (apply forallb_quiet_map; reflexivity).
    rewrite snapshots_app. destruct (quiet_snapshots _ pm H1) as [-> ->].
    cbn [app snapshots]. rewrite snapshots_app. cbn [app snapshots].
    rewrite (proj1 (quiet_snapshots _ _ H2)). rewrite app_nil_r. reflexivity.
  Qed.

  Lemma scan_nd_core_ok dets motors cy md : (forall p, In p cy -> NoDup (map fst p)) ->
    let ms := fst (scan_nd_core ops dets motors cy md) in
    visits ms cy /\ scan_shaped ms md (length cy).
  Proof.
    intros Hnd. unfold scan_nd_core. split.
    - intros pm0. rewrite staged_run_snapshots.
      apply (nd_steps_ok dets cy 1 [] pm0); [intros k v Hk; discriminate|assumption].
    - destruct (nd_steps_ok dets cy 1 [] (fun _ => None) ltac:(intros k v Hk; discriminate) Hnd)
        as [_ [groups [Hcat [Hlen Hall]]]].
      unfold staged_run. destruct (nd_steps ops dets 1 [] cy) as [b g] eqn:Eb. cbn [fst] in *.
      exists (map (fun o => MStage o 0) (det_objs dets ++ map OMot (sort_nat motors))), groups,
             (map (fun o => MUnstage o g) (rev (det_objs dets ++ map OMot (sort_nat motors)))).
      rewrite Hcat. split; [reflexivity|].
      split; [apply forallb_map_all; reflexivity|]. split; [apply forallb_map_all; reflexivity|].
      split; assumption.
  Qed.
End Core.

(* ================================================================== plan_patterns on well-formed arguments *)
Section PatternLemmas.
  Context {F : Type} (ops : Ops F).
  Notation arg := (@arg F). Notation point := (@point F). Notation axis := (@axis F).

  Lemma nodupb_NoDup l : NoDup l -> nodupb l = true.
  Proof.
    induction 1 as [|x l Hnin Hnd IH]; [reflexivity|]. cbn [nodupb]. rewrite IH, andb_true_r.
    apply negb_true_iff. destruct (existsb (Nat.eqb x) l) eqn:Ex; [|reflexivity].
    apply existsb_exists in Ex. destruct Ex as [y [Hy Exy]]. apply Nat.eqb_eq in Exy. subst. contradiction.
  Qed.

  Lemma nodupb_true l : nodupb l = true -> NoDup l.
  Proof.
    induction l as [|x l IH]; intros H; [constructor|]. cbn [nodupb] in H.
    apply andb_true_iff in H as [H1 H2]. constructor; [|apply IH; assumption].
    intros Hin. apply negb_true_iff in H1.
    assert (existsb (Nat.eqb x) l = true) by (apply existsb_exists; exists x; split; [assumption|apply Nat.eqb_refl]).
    congruence.
  Qed.

  Lemma all_some_map {A B} (f : A -> option B) (g : A -> B) l :
    (forall x, In x l -> f x = Some (g x)) -> all_some (map f l) = Some (map g l).
  Proof.
    induction l as [|x l IH]; intros H; [reflexivity|]. cbn [map all_some].
    rewrite (H x (or_introl eq_refl)), IH by (intros y Hy; apply H; right; assumption). reflexivity.
  Qed.

  Lemma map_id_ext {A} (f : A -> A) l : (forall x, f x = x) -> map f l = l.
  Proof. intros H. induction l as [|x l IH]; [reflexivity|]. cbn. rewrite H, IH. reflexivity. Qed.

  (* ---- partitions of well-formed argument lists *)
  Lemma part3_args3 (axes : list (nat * F * F)) :
    part3 (args3 axes) = map (fun a => (AMot (fst (fst a)), AVal (snd (fst a)), AVal (snd a))) axes.
  Proof. induction axes as [|a r IH]; [reflexivity|]. unfold args3 in *. cbn [flat_map app part3 map]. rewrite IH. reflexivity. Qed.

  Lemma length_args3 (axes : list (nat * F * F)) : length (args3 axes : list arg) = 3 * length axes.
  Proof. induction axes as [|a r IH]; [reflexivity|]. unfold args3 in *. cbn [flat_map app length]. rewrite IH. lia. Qed.

  Lemma inner_axes_args3 (axes : list (nat * F * F)) : all_some (map to_inner_axis (part3 (args3 axes))) = Some axes.
  Proof.
    rewrite part3_args3, map_map. rewrite (all_some_map _ (fun a => a)); [rewrite map_id; reflexivity|].
    intros [[m s] e] _. reflexivity.
  Qed.

  Lemma motors3_args3 (axes : list (nat * F * F)) : motors3 (args3 axes) = map (fun a => fst (fst a)) axes.
  Proof.
    unfold motors3. rewrite part3_args3. induction axes as [|a r IH]; [reflexivity|].
    cbn [map flat_map fst app]. rewrite IH. reflexivity.
  Qed.

  Lemma part2_args_lists (axes : list (nat * list F)) :
    part2 (args_lists axes) = map (fun a => (AMot (fst a), AList (snd a))) axes.
  Proof. induction axes as [|a r IH]; [reflexivity|]. unfold args_lists in *. cbn [flat_map app part2 map]. rewrite IH. reflexivity. Qed.

  Lemma length_args_lists (axes : list (nat * list F)) : length (args_lists axes : list arg) = 2 * length axes.
  Proof. induction axes as [|a r IH]; [reflexivity|]. unfold args_lists in *. cbn [flat_map app length]. rewrite IH. lia. Qed.

  Lemma list_axes_args_lists (axes : list (nat * list F)) : all_some (map to_list_axis (part2 (args_lists axes))) = Some axes.
  Proof.
    rewrite part2_args_lists, map_map. rewrite (all_some_map _ (fun a => a)); [rewrite map_id; reflexivity|].
    intros [m l] _. reflexivity.
  Qed.

  Lemma motors2_args_lists (axes : list (nat * list F)) : motors2 (args_lists axes) = map fst axes.
  Proof.
    unfold motors2. rewrite part2_args_lists. induction axes as [|a r IH]; [reflexivity|].
    cbn [map flat_map fst app]. rewrite IH. reflexivity.
  Qed.

  (* ---- cycler `+` *)
  Lemma combine_map_map {A B C} (f : A -> B) (g : A -> C) l :
    combine (map f l) (map g l) = map (fun a => (f a, g a)) l.
  Proof. induction l as [|a l IH]; [reflexivity|]. cbn. rewrite IH. reflexivity. Qed.

  Lemma zip_values_ok {A} (axes : list A) (fm : A -> nat) (fc : A -> list F) n :
    axes <> [] -> NoDup (map fm axes) -> 1 <= n -> (forall a, In a axes -> length (fc a) = n) ->
    zip_values ops (map fm axes) (map fc axes) =
      Some (map (fun t => map (fun a => (fm a, nth t (fc a) (o_zero ops))) axes) (seq 0 n)).
  Proof.
    intros Hne Hnd Hn Hlen. unfold zip_values.
    destruct axes as [|a0 r]; [contradiction|]. cbn [map] in Hnd |- *.
    rewrite (nodupb_NoDup _ Hnd). cbn [negb].
    assert (Hall : forallb (fun c => length c =? length (fc a0)) (fc a0 :: map fc r) = true).
    { apply forallb_forall. intros c Hc. apply Nat.eqb_eq.
      change (fc a0 :: map fc r) with (map fc (a0 :: r)) in Hc. apply in_map_iff in Hc.
      destruct Hc as [a [<- Ha]]. rewrite (Hlen a Ha), (Hlen a0 (or_introl eq_refl)). reflexivity. }
    rewrite Hall. cbn [negb].
    rewrite (Hlen a0 (or_introl eq_refl)).
    replace (n =? 0) with false by (symmetry; apply Nat.eqb_neq; lia). rewrite andb_false_r.
    f_equal. apply map_ext. intros t.
    change (fm a0 :: map fm r) with (map fm (a0 :: r)).
    change (fc a0 :: map fc r) with (map fc (a0 :: r)).
    rewrite map_map. apply (combine_map_map fm (fun a => nth t (fc a) (o_zero ops))).
  Qed.

  Lemma inner_product_ok (axes : list (nat * F * F)) num :
    axes <> [] -> NoDup (map (fun a => fst (fst a)) axes) -> 1 <= num ->
    inner_product ops num (args3 axes) =
      Some (map (fun t => map (fun a => (fst (fst a), nth t (linspace ops (snd (fst a)) (snd a) num) (o_zero ops))) axes)
                (seq 0 num)).
  Proof.
    intros Hne Hnd Hn. unfold inner_product.
    rewrite length_args3, Nat.mul_comm, Nat.mod_mul by lia. cbn [Nat.eqb negb].
    rewrite inner_axes_args3.
    apply (zip_values_ok axes (fun a => fst (fst a)) (fun a => linspace ops (snd (fst a)) (snd a) num) num);
      try assumption.
    intros a _. apply linspace_length.
  Qed.

  Lemma inner_list_product_ok (axes : list (nat * list F)) n :
    axes <> [] -> NoDup (map fst axes) -> 1 <= n -> (forall a, In a axes -> length (snd a) = n) ->
    inner_list_product ops (args_lists axes) =
      Some (map (fun t => map (fun a => (fst a, nth t (snd a) (o_zero ops))) axes) (seq 0 n)).
  Proof.
    intros Hne Hnd Hn Hlen. unfold inner_list_product.
    rewrite length_args_lists, Nat.mul_comm, Nat.mod_mul by lia. cbn [Nat.eqb negb].
    rewrite list_axes_args_lists.
    apply (zip_values_ok axes fst snd n); assumption.
  Qed.
End PatternLemmas.

(* ================================================================== the plans over Q *)
From Coq Require Import QArith Qminmax Lqa.
Local Open Scope nat_scope.

Lemma Qeqb_E : forall x y : Q, o_eqb QOps x y = true -> (x == y)%Q.
Proof. intros x y H. apply Qeq_bool_iff. exact H. Qed.

Definition Qvisits := @visits Q Qeq.
Definition Qpoint_eq := @point_eq Q Qeq.

Lemma Forall2_map_same {A B C} (R : B -> C -> Prop) (f : A -> B) (g : A -> C) l :
  (forall x, In x l -> R (f x) (g x)) -> Forall2 R (map f l) (map g l).
Proof.
  induction l as [|x l IH]; intros H; [constructor|]. cbn. constructor.
  - apply H. left. reflexivity.
  - apply IH. intros y Hy. apply H. right. assumption.
Qed.

Lemma Qvisits_eq ms cy traj : Qvisits ms cy -> Forall2 Qpoint_eq cy traj -> Qvisits ms traj.
Proof.
  intros Hv He pm0. eapply traj_reached_eq; [exact Qeq_trans|apply Hv|exact He].
Qed.

Lemma Q_scan_nd_core dets motors cy md : (forall p, In p cy -> NoDup (map fst p)) ->
  Qvisits (fst (scan_nd_core QOps dets motors cy md)) cy /\
  scan_shaped (fst (scan_nd_core QOps dets motors cy md)) md (length cy).
Proof.
  intros Hnd. apply (scan_nd_core_ok QOps Qeq Qeq_refl Qeq_sym Qeqb_E dets motors cy md Hnd).
Qed.

(* ---- scan_nd *)
Theorem scan_nd_thm dets motors (cy : @cyc Q) : (forall p, In p cy -> NoDup (map fst p)) ->
  exists ms md, scan_nd QOps dets motors cy = Done ms /\
    Qvisits ms cy /\ scan_shaped ms md (length cy) /\
    md_num_points md = length cy /\ md_num_intervals md = (Z.of_nat (length cy) - 1)%Z /\
    md_plan_name md = PNscan_nd /\ md_detectors md = map det_id dets.
Proof.
  intros Hnd. eexists. eexists. split; [reflexivity|].
  destruct (Q_scan_nd_core dets motors cy
              (nd_meta PNscan_nd PPnone dets (sort_nat motors) (length cy) None None None) Hnd) as [Hv Hs].
  split; [exact Hv|]. split; [exact Hs|]. repeat split.
Qed.

(* ---- scan / inner_product_scan (and the core of x2x_scan) *)
Definition lin_traj (axes : list (nat * Q * Q)) (num : nat) : list (@point Q) :=
  map (fun t => map (fun a => (fst (fst a), lin_spec (snd (fst a)) (snd a) num t)) axes) (seq 0 num).

Lemma scan_core_ok name dets (axes : list (nat * Q * Q)) num :
  axes <> [] -> NoDup (map (fun a => fst (fst a)) axes) -> 1 <= num ->
  exists r, scan_core QOps name dets num (args3 axes) = Some r /\
    Qvisits (fst r) (lin_traj axes num) /\
    scan_shaped (fst r)
      (nd_meta name PPinner_product dets (map (fun a => fst (fst a)) axes) num None None None) num.
Proof.
  intros Hne Hnd Hn. unfold scan_core. rewrite (inner_product_ok QOps axes num Hne Hnd Hn).
  rewrite motors3_args3. eexists. split; [reflexivity|]. cbn [fst].
  set (cy := map _ (seq 0 num)).
  assert (Hlen : length cy = num) by (unfold cy; rewrite map_length, seq_length; reflexivity).
  match goal with |- context [nd_meta _ _ _ _ (@length ?T cy) _ _ _] =>
    change (@length T cy) with (length cy); rewrite Hlen end.
  assert (Hkeys : forall p, In p cy -> NoDup (map fst p)).
  { intros p Hp. unfold cy in Hp. apply in_map_iff in Hp. destruct Hp as [t [<- _]].
    rewrite map_map. cbn [fst]. exact Hnd. }
  destruct (Q_scan_nd_core dets (map (fun a => fst (fst a)) axes) cy
              (nd_meta name PPinner_product dets (map (fun a => fst (fst a)) axes) num None None None) Hkeys)
    as [Hv Hs].
  rewrite Hlen in Hs. split; [|exact Hs].
  apply (Qvisits_eq _ cy); [exact Hv|].
  unfold cy, lin_traj. apply Forall2_map_same. intros t Ht. apply in_seq in Ht.
  apply Forall2_map_same. intros a _. cbn [fst snd]. split; [reflexivity|].
  apply linspace_nth. lia.
Qed.

Lemma scan_args_positional name dets (args : list (@arg Q)) num :
  length args mod 3 = 0 ->
  scan_args QOps name dets (args ++ [ANum num]) None = scan_core QOps name dets num args.
Proof.
  intros Hm. unfold scan_args. rewrite app_length. cbn [length].
  assert (H1 : (length args + 1) mod 3 = 1).
  { rewrite Nat.add_mod by lia. rewrite Hm. reflexivity. }
  rewrite H1. cbn [Nat.eqb negb]. rewrite last_last, removelast_last. reflexivity.
Qed.

Lemma args3_mod3 (axes : list (nat * Q * Q)) : length (args3 axes) mod 3 = 0.
Proof. rewrite length_args3, Nat.mul_comm. apply Nat.mod_mul. lia. Qed.

Theorem scan_thm dets (axes : list (nat * Q * Q)) num :
  axes <> [] -> NoDup (map (fun a => fst (fst a)) axes) -> 1 <= num ->
  exists ms md,
    scan QOps dets (args3 axes) (Some num) = Done ms /\                    (* num by keyword *)
    scan QOps dets (args3 axes ++ [ANum num]) None = Done ms /\            (* num as last positional *)
    Qvisits ms (lin_traj axes num) /\ scan_shaped ms md num /\
    md_num_points md = num /\ md_num_intervals md = (Z.of_nat num - 1)%Z /\
    md_motors md = map (fun a => fst (fst a)) axes /\ md_plan_name md = PNscan.
Proof.
  intros Hne Hnd Hn. destruct (scan_core_ok PNscan dets axes num Hne Hnd Hn) as [r [Hr [Hv Hs]]].
  exists (fst r). eexists. unfold scan. rewrite scan_args_positional by apply args3_mod3.
  unfold scan_args. replace (num =? 0) with false by (symmetry; apply Nat.eqb_neq; lia).
  rewrite Hr. cbn [opt_result]. split; [reflexivity|]. split; [reflexivity|].
  split; [exact Hv|]. split; [exact Hs|]. repeat split.
Qed.

Theorem inner_product_scan_thm dets (axes : list (nat * Q * Q)) num :
  axes <> [] -> NoDup (map (fun a => fst (fst a)) axes) -> 1 <= num ->
  exists ms md,
    inner_product_scan QOps dets num (args3 axes) = Done ms /\
    Qvisits ms (lin_traj axes num) /\ scan_shaped ms md num /\
    md_num_points md = num /\ md_num_intervals md = (Z.of_nat num - 1)%Z /\
    md_motors md = map (fun a => fst (fst a)) axes /\ md_plan_name md = PNinner_product_scan.
Proof.
  intros Hne Hnd Hn. destruct (scan_core_ok PNinner_product_scan dets axes num Hne Hnd Hn) as [r [Hr [Hv Hs]]].
  exists (fst r). eexists. unfold inner_product_scan. rewrite scan_args_positional by apply args3_mod3.
  rewrite Hr. cbn [opt_result]. split; [reflexivity|].
  split; [exact Hv|]. split; [exact Hs|]. repeat split.
Qed.

(* ---- list_scan *)
Definition list_traj (axes : list (nat * list Q)) (n : nat) : list (@point Q) :=
  map (fun t => map (fun a => (fst a, nth t (snd a) 0%Q)) axes) (seq 0 n).

Theorem list_scan_thm dets (axes : list (nat * list Q)) n :
  axes <> [] -> NoDup (map fst axes) -> 1 <= n -> (forall a, In a axes -> length (snd a) = n) ->
  exists ms md,
    list_scan QOps dets (args_lists axes) = Done ms /\
    Qvisits ms (list_traj axes n) /\ scan_shaped ms md n /\
    md_num_points md = n /\ md_num_intervals md = (Z.of_nat n - 1)%Z /\
    md_motors md = map fst axes /\ md_plan_name md = PNlist_scan.
Proof.
  intros Hne Hnd Hn Hlen. unfold list_scan.
  rewrite length_args_lists, Nat.mul_comm, Nat.mod_mul by lia. cbn [Nat.eqb negb].
  rewrite list_axes_args_lists.
  assert (Hhd : hd 0%nat (map (fun a : nat * list Q => length (snd a)) axes) = n).
  { destruct axes as [|a0 r]; [contradiction|]. cbn. apply Hlen. left. reflexivity. }
  rewrite Hhd.
  assert (Hall : forallb (fun k => k =? n) (map (fun a : nat * list Q => length (snd a)) axes) = true).
  { apply forallb_forall. intros k Hk. apply in_map_iff in Hk. destruct Hk as [a [<- Ha]].
    apply Nat.eqb_eq. apply Hlen. assumption. }
  rewrite Hall. cbn [negb].
  rewrite (inner_list_product_ok QOps axes n Hne Hnd Hn Hlen). rewrite motors2_args_lists.
  replace (n =? 0) with false by (symmetry; apply Nat.eqb_neq; lia).
  eexists. eexists. split; [reflexivity|].
  set (cy := map _ (seq 0 n)).
  assert (Hcl : length cy = n) by (unfold cy; rewrite map_length, seq_length; reflexivity).
  assert (Hkeys : forall p, In p cy -> NoDup (map fst p)).
  { intros p Hp. unfold cy in Hp. apply in_map_iff in Hp. destruct Hp as [t [<- _]].
    rewrite map_map. cbn [fst]. exact Hnd. }
  match goal with |- Qvisits (fst (scan_nd_core _ _ _ _ ?md)) _ /\ _ =>
    destruct (Q_scan_nd_core dets (map fst axes) cy md Hkeys) as [Hv Hs] end.
  rewrite Hcl in Hs. split; [exact Hv|]. split; [exact Hs|]. repeat split.
Qed.

(* ================================================================== grid argument parsing *)
Section GridArgs.
  Context {F : Type}.
  Notation arg := (@arg F). Notation axis := (@axis F).

  Definition gP (p : pattern) (ne : nat * arg) : bool :=
    Bool.eqb (is_movable (snd ne)) (in_pos_movable p (fst ne)).

  Lemma verify_unfold (args : list arg) p :
    verify_motor_locations args p = forallb (gP p) (combine (seq 0 (length args)) args).
  Proof. reflexivity. Qed.

  Lemma mod4_off s i : s mod 4 = 0 -> i < 4 -> (i + s) mod 4 = i.
  Proof.
    intros Hs Hi. apply Nat.mod_divides in Hs; [|lia]. destruct Hs as [c ->].
    rewrite (Nat.mul_comm 4 c), Nat.mod_add by lia. apply Nat.mod_small. lia.
  Qed.

  Lemma in_pos_P1_off s i : s mod 4 = 0 -> i < 4 -> in_pos_movable P1 (i + s) = (i =? 0).
  Proof. intros Hs Hi. unfold in_pos_movable. rewrite mod4_off by assumption. reflexivity. Qed.

  Lemma in_pos_P2_off s i : 4 <= s -> (s - 4) mod 5 = 0 -> i < 5 -> in_pos_movable P2 (i + s) = (i =? 0).
  Proof.
    intros Hs Hm Hi. unfold in_pos_movable.
    replace (i + s =? 0) with false by (symmetry; apply Nat.eqb_neq; lia).
    replace (4 <=? i + s) with true by (symmetry; apply Nat.leb_le; lia).
    cbn [orb andb]. apply Nat.mod_divides in Hm; [|lia]. destruct Hm as [c Hc].
    replace (i + s - 4) with (i + c * 5) by lia. rewrite Nat.mod_add by lia.
    rewrite Nat.mod_small by lia. reflexivity.
  Qed.

  Definition block4 (a : axis) : list arg := [AMot (ax_motor a); AVal (ax_start a); AVal (ax_stop a); ANum (ax_num a)].
  Definition block5 (a : axis) : list arg :=
    [AMot (ax_motor a); AVal (ax_start a); AVal (ax_stop a); ANum (ax_num a); ABool (ax_snake a)].

  Lemma args_grid1_cons a r : args_grid1 (a :: r) = block4 a ++ args_grid1 r.
  Proof. reflexivity. Qed.

  Lemma args_modified_cons a r : args_modified (a :: r) = block4 a ++ flat_map block5 r.
  Proof. reflexivity. Qed.

  Lemma verify_P1_blocks (axes : list axis) s : s mod 4 = 0 ->
    forallb (gP P1) (combine (seq s (length (args_grid1 axes))) (args_grid1 axes)) = true.
  Proof.
    revert s. induction axes as [|a r IH]; intros s Hs; [reflexivity|].
    rewrite args_grid1_cons. unfold block4. cbn [app length seq combine forallb].
    unfold gP at 1 2 3 4. cbn [fst snd is_movable].
    change s with (0 + s) at 1. change (S s) with (1 + s). change (S (1 + s)) with (2 + s).
    change (S (2 + s)) with (3 + s). change (S (3 + s)) with (4 + s).
    rewrite !in_pos_P1_off by (assumption || lia). cbn [Nat.eqb Bool.eqb andb].
    apply IH. replace (4 + s) with (s + 1 * 4) by lia. rewrite Nat.mod_add by lia. assumption.
  Qed.

  Lemma verify_P2_blocks (r : list axis) s : 4 <= s -> (s - 4) mod 5 = 0 ->
    forallb (gP P2) (combine (seq s (length (flat_map block5 r))) (flat_map block5 r)) = true.
  Proof.
    revert s. induction r as [|a r IH]; intros s Hs Hm; [reflexivity|].
    cbn [flat_map]. unfold block5 at 1 3. cbn [app length seq combine forallb].
    unfold gP at 1 2 3 4 5. cbn [fst snd is_movable].
    change s with (0 + s) at 1. change (S s) with (1 + s). change (S (1 + s)) with (2 + s).
    change (S (2 + s)) with (3 + s). change (S (3 + s)) with (4 + s). change (S (4 + s)) with (5 + s).
    rewrite !in_pos_P2_off by (assumption || lia). cbn [Nat.eqb Bool.eqb andb].
    apply IH; [lia|]. replace (5 + s - 4) with (s - 4 + 1 * 5) by lia. rewrite Nat.mod_add by lia. assumption.
  Qed.

  Lemma length_args_grid1 (axes : list axis) : length (args_grid1 axes) = 4 * length axes.
  Proof. induction axes as [|a r IH]; [reflexivity|]. rewrite args_grid1_cons, app_length, IH. cbn [block4 length]. lia. Qed.

  Lemma length_blocks5 (r : list axis) : length (flat_map block5 r) = 5 * length r.
  Proof. induction r as [|a r IH]; [reflexivity|]. cbn [flat_map]. rewrite app_length, IH. cbn [block5 length]. lia. Qed.

  Lemma classify_grid1 (axes : list axis) : classify (args_grid1 axes) = Some P1.
  Proof.
    unfold classify. rewrite verify_unfold, (verify_P1_blocks axes 0 eq_refl).
    rewrite length_args_grid1, Nat.mul_comm, Nat.mod_mul by lia. cbn [Nat.eqb negb andb].
    destruct ((4 <? length axes * 4) && ((length axes * 4 - 4) mod 5 =? 0)); reflexivity.
  Qed.

  Lemma classify_modified_single (a : axis) : classify (args_modified [a]) = Some P1.
  Proof. reflexivity. Qed.

  Lemma classify_modified (a0 a1 : axis) r : classify (args_modified (a0 :: a1 :: r)) = Some P2.
  Proof.
    assert (HP2 : verify_motor_locations (args_modified (a0 :: a1 :: r)) P2 = true).
    { rewrite verify_unfold, args_modified_cons. unfold block4. cbn [app length seq combine forallb].
      unfold gP at 1 2 3 4. cbn [fst snd is_movable in_pos_movable Nat.eqb Nat.leb orb andb Bool.eqb].
      apply (verify_P2_blocks (a1 :: r) 4); [lia|reflexivity]. }
    assert (HP1 : verify_motor_locations (args_modified (a0 :: a1 :: r)) P1 = false).
    { rewrite verify_unfold, args_modified_cons. unfold block4. cbn [flat_map]. unfold block5 at 1 3.
      cbn [app length seq combine forallb]. unfold gP at 1 2 3 4 5 6 7 8 9.
      cbn [fst snd is_movable]. reflexivity. }
    unfold classify. rewrite HP1, HP2.
    rewrite args_modified_cons, app_length, length_blocks5. cbn [block4 length].
    replace (4 + 5 * S (length r) - 4) with (S (length r) * 5) by lia. rewrite Nat.mod_mul by lia.
    replace (4 <? 4 + 5 * S (length r)) with true by (symmetry; apply Nat.ltb_lt; lia).
    cbn [Nat.eqb andb negb].
    destruct ((4 + 5 * S (length r)) mod 4 =? 0); reflexivity.
  Qed.

  Lemma axis_eta (a : axis) : mkAxis (ax_motor a) (ax_start a) (ax_stop a) (ax_num a) (ax_snake a) = a.
  Proof. destruct a; reflexivity. Qed.

  Lemma chunk_grid1 (axes : list axis) :
    all_some (map to_axis (chunk P1 (args_grid1 axes))) = Some (map (fun a => set_snake a false) axes).
  Proof.
    cbn [chunk]. induction axes as [|a r IH]; [reflexivity|].
    rewrite args_grid1_cons. unfold block4. cbn [app part4_false map to_axis all_some]. rewrite IH. reflexivity.
  Qed.

  Lemma part5_blocks5 (r : list axis) :
    all_some (map to_axis (part5 (flat_map block5 r))) = Some r.
  Proof.
    induction r as [|a r IH]; [reflexivity|]. cbn [flat_map]. unfold block5 at 1.
    cbn [app part5 map to_axis all_some]. rewrite IH, axis_eta. reflexivity.
  Qed.

  Lemma chunk_modified (a0 : axis) r :
    all_some (map to_axis (chunk P2 (args_modified (a0 :: r)))) = Some (set_snake a0 false :: r).
  Proof.
    rewrite args_modified_cons. unfold block4. cbn [app chunk map to_axis all_some].
    rewrite part5_blocks5. reflexivity.
  Qed.

  Lemma outer_product_axes_grid1 (axes : list axis) :
    outer_product_axes (args_grid1 axes) = Some (map (fun a => set_snake a false) axes).
  Proof. unfold outer_product_axes. rewrite classify_grid1. apply chunk_grid1. Qed.

  Lemma outer_product_axes_modified (a0 : axis) r :
    outer_product_axes (args_modified (a0 :: r)) = Some (set_snake a0 false :: r).
  Proof.
    unfold outer_product_axes. destruct r as [|a1 r].
    - rewrite classify_modified_single. reflexivity.
    - rewrite classify_modified. apply chunk_modified.
  Qed.
End GridArgs.

(* ================================================================== outer products *)
Section Outer.
  Context {F : Type} (ops : Ops F).
  Notation axis := (@axis F).

  Lemma enumerate_nth {A} (l : list A) d : enumerate l = map (fun k => (k, nth k l d)) (seq 0 (length l)).
  Proof.
    unfold enumerate. rewrite (combine_seq_nth l d 0). apply map_ext. intros k. rewrite Nat.sub_0_r. reflexivity.
  Qed.

  Lemma enumerate_map {A B} (f : A -> B) (l : list A) :
    enumerate (map f l) = map (fun ka => (fst ka, f (snd ka))) (enumerate l).
  Proof.
    unfold enumerate. rewrite map_length. generalize 0. induction l as [|a l IH]; intros s; [reflexivity|].
    cbn [length seq map combine fst snd]. rewrite IH. reflexivity.
  Qed.

  Lemma map_snd_enumerate {A} (l : list A) : map snd (enumerate l) = l.
  Proof.
    unfold enumerate. generalize 0. induction l as [|a l IH]; intros s; [reflexivity|].
    cbn [length seq combine map snd]. rewrite IH. reflexivity.
  Qed.

  Lemma lookup_point_enum {A} (axes : list A) (fm : A -> nat) (fc : A -> list F) (g : nat -> nat) :
    lookup_point ops (map fm axes) (map fc axes) (map g (seq 0 (length axes))) =
    map (fun ka => (fm (snd ka), nth (g (fst ka)) (fc (snd ka)) (o_zero ops))) (enumerate axes).
  Proof.
    unfold lookup_point, enumerate. generalize 0.
    induction axes as [|a r IH]; intros s; [reflexivity|].
    cbn [map length seq combine fst snd]. rewrite IH. reflexivity.
  Qed.

  Lemma snake_values_ok {A} (axes : list A) (fm : A -> nat) (fc : A -> list F) flags :
    axes <> [] -> NoDup (map fm axes) -> (forall a, In a axes -> 1 <= length (fc a)) ->
    length flags = length axes ->
    let lens := map (fun a => length (fc a)) axes in
    snake_values ops (map fm axes) (map fc axes) flags =
      Some (map (fun t => map (fun ka => (fm (snd ka), nth (idx lens flags (fst ka) t) (fc (snd ka)) (o_zero ops)))
                              (enumerate axes))
                (seq 0 (prodl lens))).
  Proof.
    intros Hne Hnd Hpos Hlen lens. unfold snake_values.
    rewrite (nodupb_NoDup _ Hnd). cbn [negb].
    assert (Hex : existsb (fun c : list F => length c =? 0) (map fc axes) = false).
    { destruct (existsb _ (map fc axes)) eqn:Ex; [|reflexivity].
      apply existsb_exists in Ex. destruct Ex as [c [Hc Hz]]. apply in_map_iff in Hc.
      destruct Hc as [a [<- Ha]]. apply Nat.eqb_eq in Hz. specialize (Hpos a Ha). lia. }
    rewrite Hex, andb_false_r. rewrite map_map. fold lens.
    assert (Hv : valid_lens lens).
    { split.
      - unfold lens. destruct axes; [contradiction|discriminate].
      - unfold lens. apply Forall_forall. intros L HL. apply in_map_iff in HL. destruct HL as [a [<- Ha]].
        apply Hpos. assumption. }
    assert (Hl : length flags = length lens) by (unfold lens; rewrite map_length; assumption).
    rewrite (snake_closed lens flags Hv Hl). f_equal. rewrite map_map. apply map_ext. intros t.
    unfold Snake.point. replace (length lens) with (length axes) by (unfold lens; rewrite map_length; reflexivity).
    apply (lookup_point_enum axes fm fc (fun k => idx lens flags k t)).
  Qed.
End Outer.

(* ================================================================== grid_scan over Q *)
Definition dax : @axis Q := mkAxis 0 0%Q 0%Q 0 false.

(* documented trajectory of a grid: axis k at label i is the linspace point i of that axis *)
Definition grid_lin_traj (axes : list (@axis Q)) (flags : list bool) : list (@point Q) :=
  grid_traj (fun k => nth k (map (@ax_motor Q) axes) 0)
            (fun k i => lin_spec (nth k (map (@ax_start Q) axes) 0%Q) (nth k (map (@ax_stop Q) axes) 0%Q)
                                 (nth k (map (@ax_num Q) axes) 0) i)
            (map (@ax_num Q) axes) flags.

Lemma nth_dax_motor k (axes : list (@axis Q)) : nth k (map (@ax_motor Q) axes) 0 = ax_motor (nth k axes dax).
Proof. exact (map_nth (@ax_motor Q) axes dax k). Qed.
Lemma nth_dax_start k (axes : list (@axis Q)) : nth k (map (@ax_start Q) axes) 0%Q = ax_start (nth k axes dax).
Proof. exact (map_nth (@ax_start Q) axes dax k). Qed.
Lemma nth_dax_stop k (axes : list (@axis Q)) : nth k (map (@ax_stop Q) axes) 0%Q = ax_stop (nth k axes dax).
Proof. exact (map_nth (@ax_stop Q) axes dax k). Qed.
Lemma nth_dax_num k (axes : list (@axis Q)) : nth k (map (@ax_num Q) axes) 0 = ax_num (nth k axes dax).
Proof. exact (map_nth (@ax_num Q) axes dax k). Qed.

Lemma set_snake_same {F} (a : @axis F) b : ax_snake a = b -> set_snake a b = a.
Proof. intros <-. destruct a; reflexivity. Qed.

Definition grid_md_ok (md : @meta Q) (dets : list det) (axes : list (@axis Q)) : Prop :=
  md_plan_name md = PNgrid_scan /\ md_detectors md = map det_id dets /\
  md_motors md = map (@ax_motor Q) axes /\
  md_num_points md = prodl (map (@ax_num Q) axes) /\
  md_num_intervals md = (Z.of_nat (prodl (map (@ax_num Q) axes)) - 1)%Z /\
  md_shape md = Some (map (@ax_num Q) axes) /\
  md_extents md = Some (map (fun a => (ax_start a, ax_stop a)) axes) /\
  md_snaking md = Some (map (@ax_snake Q) axes).

Lemma grid_scan_from_axes dets args sa (axes : list (@axis Q)) :
  grid_axes args sa = Some axes -> axes <> [] -> ax_snake (hd dax axes) = false ->
  NoDup (map (@ax_motor Q) axes) -> (forall a, In a axes -> 1 <= ax_num a) ->
  exists ms md, grid_scan QOps dets args sa = Done ms /\
    Qvisits ms (grid_lin_traj axes (map (@ax_snake Q) axes)) /\
    scan_shaped ms md (prodl (map (@ax_num Q) axes)) /\ grid_md_ok md dets axes.
Proof.
  intros Hga Hne Hs0 Hnd Hnum. unfold grid_scan. rewrite Hga.
  set (fc := fun a : @axis Q => linspace QOps (ax_start a) (ax_stop a) (ax_num a)).
  set (flags := map (@ax_snake Q) axes).
  set (lens := map (@ax_num Q) axes).
  assert (Hlens : map (fun a => length (fc a)) axes = lens).
  { unfold lens. apply map_ext. intros a. apply linspace_length. }
  assert (Hop : outer_product QOps (args_modified axes) =
                Some (map (fun t => map (fun ka => (ax_motor (snd ka),
                                                    nth (idx lens flags (fst ka) t) (fc (snd ka)) 0%Q))
                                        (enumerate axes)) (seq 0 (prodl lens)))).
  { unfold outer_product. destruct axes as [|a0 r]; [contradiction|].
    rewrite outer_product_axes_modified. cbn [hd] in Hs0. rewrite (set_snake_same a0 false Hs0).
    unfold outer_product_of_axes.
    pose proof (snake_values_ok QOps (a0 :: r) (@ax_motor Q) fc flags Hne Hnd) as Hsv.
    cbn zeta in Hsv. rewrite Hlens in Hsv. apply Hsv.
    - intros a Ha. unfold fc. rewrite linspace_length. apply Hnum. assumption.
    - unfold flags. rewrite map_length. reflexivity. }
  rewrite Hop. set (cy := map _ (seq 0 (prodl lens))).
  assert (Hcl : length cy = prodl lens) by (unfold cy; rewrite map_length, seq_length; reflexivity).
  assert (Hkeys : forall p, In p cy -> NoDup (map fst p)).
  { intros p Hp. unfold cy in Hp. apply in_map_iff in Hp. destruct Hp as [t [<- _]].
    rewrite map_map. cbn [fst]. rewrite <- (map_map snd (@ax_motor Q)), map_snd_enumerate. exact Hnd. }
  eexists. eexists. split; [reflexivity|].
  match goal with |- Qvisits (fst (scan_nd_core _ _ _ _ ?md)) _ /\ _ =>
    destruct (Q_scan_nd_core dets (map (@ax_motor Q) axes) cy md Hkeys) as [Hv Hsh] end.
  split; [|split].
  - apply (Qvisits_eq _ cy); [exact Hv|].
    unfold cy, grid_lin_traj, grid_traj. fold lens. apply Forall2_map_same. intros t _.
    unfold grid_point. rewrite (enumerate_nth axes dax), map_map. cbn [fst snd].
    replace (length lens) with (length axes) by (unfold lens; rewrite map_length; reflexivity).
    apply Forall2_map_same. intros k Hk. apply in_seq in Hk. cbn [fst snd].
    rewrite nth_dax_motor, nth_dax_start, nth_dax_stop. split; [reflexivity|].
    assert (Hpos : Forall (fun L => 1 <= L) lens).
    { unfold lens. apply Forall_forall. intros L HL. apply in_map_iff in HL. destruct HL as [a [<- Ha]].
      apply Hnum. assumption. }
    assert (Hk' : k < length lens) by (unfold lens; rewrite map_length; lia).
    pose proof (idx_lt lens Hpos k Hk' flags t) as Hlt.
    assert (Hn : nth k lens 0 = ax_num (nth k axes dax)) by (unfold lens; apply nth_dax_num).
    rewrite Hn in Hlt |- *. unfold fc. apply linspace_nth. exact Hlt.
  - fold lens. rewrite <- Hcl. exact Hsh.
  - unfold grid_md_ok, nd_meta.
    cbn [md_plan_name md_detectors md_motors md_num_points md_num_intervals md_pattern md_shape md_extents md_snaking].
    repeat split; try reflexivity; try exact Hcl. f_equal. f_equal. exact Hcl.
Qed.

Definition flag_of (sa : snake_axes) (k m : nat) : bool :=
  match sa with
  | SANone | SAFalse => false
  | SATrue => negb (k =? 0)
  | SAList ms => negb (k =? 0) && mem m ms
  end.

Definition with_requested_snaking (sa : snake_axes) (axes : list (@axis Q)) : list (@axis Q) :=
  map (fun ka => set_snake (snd ka) (flag_of sa (fst ka) (ax_motor (snd ka)))) (enumerate axes).

Lemma mem_false m l : ~ In m l -> mem m l = false.
Proof.
  intros H. unfold mem. destruct (existsb (Nat.eqb m) l) eqn:E; [|reflexivity].
  apply existsb_exists in E. destruct E as [y [Hy E]]. apply Nat.eqb_eq in E. subst. contradiction.
Qed.

Lemma mem_true m l : In m l -> mem m l = true.
Proof. intros H. unfold mem. apply existsb_exists. exists m. split; [assumption|apply Nat.eqb_refl]. Qed.

Lemma grid_axes_new (axes : list (@axis Q)) sa :
  NoDup (map (@ax_motor Q) axes) -> sa_valid sa (map (@ax_motor Q) axes) ->
  grid_axes (args_grid1 axes) sa = Some (with_requested_snaking sa axes).
Proof.
  intros Hnd Hsa. unfold grid_axes. rewrite classify_grid1.
  assert (Hm : map (@ax_motor Q) (map (fun a => set_snake a false) axes) = map (@ax_motor Q) axes)
    by (rewrite map_map; reflexivity).
  unfold with_requested_snaking.
  destruct sa as [| | |ms]; rewrite chunk_grid1, Hm, (nodupb_NoDup _ Hnd); cbn [negb].
  - f_equal. rewrite <- (map_snd_enumerate axes) at 1. rewrite map_map. reflexivity.
  - f_equal. rewrite map_map. rewrite <- (map_snd_enumerate axes) at 1. rewrite map_map. reflexivity.
  - f_equal. fold (enumerate (map (fun a : @axis Q => set_snake a false) axes)).
    rewrite enumerate_map, map_map. apply map_ext. intros [k a]. cbn [fst snd flag_of].
    destruct (k =? 0); reflexivity.
  - destruct Hsa as [Hms [Hin Hhd]].
    rewrite (nodupb_NoDup _ Hms). cbn [negb].
    assert (H0 : match map (@ax_motor Q) axes with m0 :: _ => mem m0 ms | [] => false end = false).
    { destruct (map (@ax_motor Q) axes) as [|m0 r]; [reflexivity|]. apply mem_false. exact Hhd. }
    rewrite H0.
    assert (Hall : forallb (fun m => mem m (map (@ax_motor Q) axes)) ms = true).
    { apply forallb_forall. intros m Hm'. apply mem_true. apply Hin. assumption. }
    rewrite Hall. cbn [negb]. f_equal.
    fold (enumerate (map (fun a : @axis Q => set_snake a false) axes)).
    rewrite enumerate_map, map_map. apply map_ext. intros [k a]. cbn [fst snd flag_of].
    destruct (k =? 0); reflexivity.
Qed.

Lemma with_requested_facts sa (axes : list (@axis Q)) :
  let axes' := with_requested_snaking sa axes in
  map (@ax_motor Q) axes' = map (@ax_motor Q) axes /\ map (@ax_start Q) axes' = map (@ax_start Q) axes /\
  map (@ax_stop Q) axes' = map (@ax_stop Q) axes /\ map (@ax_num Q) axes' = map (@ax_num Q) axes /\
  map (@ax_snake Q) axes' = grid_flags sa (map (@ax_motor Q) axes) /\
  ax_snake (hd dax axes') = false /\ length axes' = length axes.
Proof.
  unfold with_requested_snaking. cbn zeta. rewrite !map_map. cbn [ax_motor ax_start ax_stop ax_num ax_snake set_snake].
  rewrite <- !(map_map snd), map_snd_enumerate.
  split; [reflexivity|]. split; [reflexivity|]. split; [reflexivity|]. split; [reflexivity|]. split; [|split].
  - unfold grid_flags. rewrite enumerate_map, map_map. apply map_ext. intros [k a]. cbn [fst snd].
    destruct sa; reflexivity.
  - destruct axes as [|a r]; [reflexivity|]. cbn. destruct sa; reflexivity.
  - rewrite map_length. unfold enumerate. rewrite combine_length, seq_length. lia.
Qed.

Lemma Forall2_eq_same {A} (R : A -> A -> Prop) l l' : l = l' -> (forall x, R x x) -> Forall2 R l l'.
Proof. intros <- H. induction l; constructor; auto. Qed.

(* new API: motor, start, stop, num per axis + snake_axes *)
Theorem grid_scan_thm dets (axes : list (@axis Q)) sa :
  axes <> [] -> NoDup (map (@ax_motor Q) axes) -> (forall a, In a axes -> 1 <= ax_num a) ->
  sa_valid sa (map (@ax_motor Q) axes) ->
  let flags := grid_flags sa (map (@ax_motor Q) axes) in
  let lens := map (@ax_num Q) axes in
  exists ms md, grid_scan QOps dets (args_grid1 axes) sa = Done ms /\
    Qvisits ms (grid_lin_traj axes flags) /\ scan_shaped ms md (prodl lens) /\
    md_plan_name md = PNgrid_scan /\ md_motors md = map (@ax_motor Q) axes /\
    md_num_points md = prodl lens /\ md_num_intervals md = (Z.of_nat (prodl lens) - 1)%Z /\
    md_shape md = Some lens /\
    md_extents md = Some (map (fun a => (ax_start a, ax_stop a)) axes) /\
    md_snaking md = Some flags /\
    length flags = length lens /\ valid_lens lens.
Proof.
  intros Hne Hnd Hnum Hsa flags lens.
  destruct (with_requested_facts sa axes) as [Em [Es [Ee [En [Ef [Eh El]]]]]].
  set (axes' := with_requested_snaking sa axes) in *.
  assert (Hne' : axes' <> []) by (intros E0; rewrite E0 in El; destruct axes; [contradiction|discriminate]).
  assert (Hnum' : forall a, In a axes' -> 1 <= ax_num a).
  { intros a Ha. assert (Hin : In (ax_num a) (map (@ax_num Q) axes')) by (apply in_map; assumption).
    rewrite En in Hin. apply in_map_iff in Hin. destruct Hin as [b [<- Hb]]. apply Hnum. assumption. }
  destruct (grid_scan_from_axes dets (args_grid1 axes) sa axes' (grid_axes_new axes sa Hnd Hsa) Hne' Eh
              ltac:(rewrite Em; exact Hnd) Hnum') as [ms [md [Hrun [Hv [Hsh Hmd]]]]].
  exists ms, md. split; [exact Hrun|].
  unfold grid_lin_traj in Hv. rewrite Em, Es, Ee, En, Ef in Hv. rewrite En in Hsh.
  destruct Hmd as [M1 [M2 [M3 [M4 [M5 [M6 [M7 M8]]]]]]].
  rewrite Em in M3. rewrite En in M4, M5, M6. rewrite Ef in M8.
  assert (M7' : md_extents md = Some (map (fun a => (ax_start a, ax_stop a)) axes)).
  { rewrite M7. f_equal. unfold axes', with_requested_snaking. rewrite map_map. cbn [ax_start ax_stop set_snake].
    rewrite <- (map_map snd (fun a : @axis Q => (ax_start a, ax_stop a))), map_snd_enumerate. reflexivity. }
  split; [exact Hv|]. split; [exact Hsh|]. repeat (split; [assumption|]).
  split.
  - unfold flags, lens, grid_flags. rewrite !map_length. unfold enumerate. rewrite combine_length, seq_length, map_length. lia.
  - split.
    + unfold lens. destruct axes; [contradiction|discriminate].
    + unfold lens. apply Forall_forall. intros L HL. apply in_map_iff in HL. destruct HL as [a [<- Ha]].
      apply Hnum. assumption.
Qed.

(* deprecated API: snake booleans inside the argument list (at least two axes), snake_axes=None *)
Theorem grid_scan_old_thm dets (a0 a1 : @axis Q) (r : list (@axis Q)) :
  let axes := set_snake a0 false :: a1 :: r in
  NoDup (map (@ax_motor Q) axes) -> (forall a, In a axes -> 1 <= ax_num a) ->
  let flags := map (@ax_snake Q) axes in
  let lens := map (@ax_num Q) axes in
  exists ms md, grid_scan QOps dets (args_modified (a0 :: a1 :: r)) SANone = Done ms /\
    Qvisits ms (grid_lin_traj axes flags) /\ scan_shaped ms md (prodl lens) /\
    md_plan_name md = PNgrid_scan /\ md_motors md = map (@ax_motor Q) axes /\
    md_num_points md = prodl lens /\ md_num_intervals md = (Z.of_nat (prodl lens) - 1)%Z /\
    md_shape md = Some lens /\
    md_extents md = Some (map (fun a => (ax_start a, ax_stop a)) axes) /\
    md_snaking md = Some flags.
Proof.
  intros axes Hnd Hnum flags lens.
  assert (Hga : grid_axes (args_modified (a0 :: a1 :: r)) SANone = Some axes).
  { unfold grid_axes. rewrite classify_modified, chunk_modified. fold axes.
    rewrite (nodupb_NoDup _ Hnd). reflexivity. }
  destruct (grid_scan_from_axes dets _ SANone axes Hga ltac:(discriminate) eq_refl Hnd Hnum)
    as [ms [md [Hrun [Hv [Hsh Hmd]]]]].
  exists ms, md. destruct Hmd as [M1 [M2 [M3 [M4 [M5 [M6 [M7 M8]]]]]]].
  repeat (split; [assumption|]). assumption.
Qed.

(* ================================================================== list_grid_scan over Q *)
Lemma fold_min_ok (r : list Q) : forall acc,
  let m := fold_left (fun acc y => if o_ltb QOps y acc then y else acc) r acc in
  (m <= acc)%Q /\ (forall y, In y r -> (m <= y)%Q) /\ In m (acc :: r).
Proof.
  induction r as [|y r IH]; intros acc; cbn [fold_left].
  - split; [apply Qle_refl|]. split; [intros y []|left; reflexivity].
  - cbn [o_ltb QOps]. destruct (Qle_bool acc y) eqn:E; cbn [negb].
    + apply Qle_bool_iff in E. destruct (IH acc) as [H1 [H2 H3]].
      split; [assumption|]. split.
      * intros z [<-|Hz]; [eapply Qle_trans; eassumption|apply H2; assumption].
      * destruct H3 as [H3|H3]; [left; assumption|right; right; assumption].
    + assert (Hlt : (y < acc)%Q).
      { apply Qnot_le_lt. intros Hle. apply Qle_bool_iff in Hle. congruence. }
      destruct (IH y) as [H1 [H2 H3]].
      split; [eapply Qle_trans; [eassumption|apply Qlt_le_weak; assumption]|]. split.
      * intros z [<-|Hz]; [assumption|apply H2; assumption].
      * right. assumption.
Qed.

Lemma fold_max_ok (r : list Q) : forall acc,
  let m := fold_left (fun acc y => if o_ltb QOps acc y then y else acc) r acc in
  (acc <= m)%Q /\ (forall y, In y r -> (y <= m)%Q) /\ In m (acc :: r).
Proof.
  induction r as [|y r IH]; intros acc; cbn [fold_left].
  - split; [apply Qle_refl|]. split; [intros y []|left; reflexivity].
  - cbn [o_ltb QOps]. destruct (Qle_bool y acc) eqn:E; cbn [negb].
    + apply Qle_bool_iff in E. destruct (IH acc) as [H1 [H2 H3]].
      split; [assumption|]. split.
      * intros z [<-|Hz]; [eapply Qle_trans; eassumption|apply H2; assumption].
      * destruct H3 as [H3|H3]; [left; assumption|right; right; assumption].
    + assert (Hlt : (acc < y)%Q).
      { apply Qnot_le_lt. intros Hle. apply Qle_bool_iff in Hle. congruence. }
      destruct (IH y) as [H1 [H2 H3]].
      split; [eapply Qle_trans; [apply Qlt_le_weak; eassumption|assumption]|]. split.
      * intros z [<-|Hz]; [assumption|apply H2; assumption].
      * right. assumption.
Qed.

Lemma Forall2_map_r {A B} (R : A -> B -> Prop) (g : A -> B) l :
  (forall a, In a l -> R a (g a)) -> Forall2 R l (map g l).
Proof.
  induction l as [|x l IH]; intros H; [constructor|]. cbn. constructor.
  - apply H. left. reflexivity.
  - apply IH. intros y Hy. apply H. right. assumption.
Qed.

Definition extent_ok (l : list Q) (e : Q * Q) : Prop :=
  In (fst e) l /\ In (snd e) l /\ forall x, In x l -> (fst e <= x <= snd e)%Q.

Lemma list_extent (l : list Q) : 1 <= length l ->
  exists lo hi, list_min QOps l = Some lo /\ list_max QOps l = Some hi /\ extent_ok l (lo, hi).
Proof.
  intros Hl. destruct l as [|x r]; [cbn in Hl; lia|]. cbn [list_min list_max].
  destruct (fold_min_ok r x) as [A1 [A2 A3]]. destruct (fold_max_ok r x) as [B1 [B2 B3]].
  eexists. eexists. split; [reflexivity|]. split; [reflexivity|].
  split; [exact A3|]. split; [exact B3|]. cbn [fst snd].
  intros z [<-|Hz]; split; auto.
Qed.

Definition dlx : nat * list Q := (0, []).

Lemma nth_dlx_fst k (axes : list (nat * list Q)) : nth k (map fst axes) 0 = fst (nth k axes dlx).
Proof. exact (map_nth fst axes dlx k). Qed.
Lemma nth_dlx_snd k (axes : list (nat * list Q)) : nth k (map snd axes) [] = snd (nth k axes dlx).
Proof. exact (map_nth snd axes dlx k). Qed.

Definition list_grid_traj (axes : list (nat * list Q)) (flags : list bool) : list (@point Q) :=
  grid_traj (fun k => nth k (map fst axes) 0)
            (fun k i => nth i (nth k (map snd axes) []) 0%Q)
            (map (fun a => length (snd a)) axes) flags.

Theorem list_grid_scan_thm dets (axes : list (nat * list Q)) sa :
  axes <> [] -> NoDup (map fst axes) -> (forall a, In a axes -> 1 <= length (snd a)) ->
  let flags := list_flags sa (map fst axes) in
  let lens := map (fun a => length (snd a)) axes in
  exists ms md ext, list_grid_scan QOps dets (args_lists axes) sa = Done ms /\
    Qvisits ms (list_grid_traj axes flags) /\ scan_shaped ms md (prodl lens) /\
    md_plan_name md = PNlist_grid_scan /\ md_motors md = map fst axes /\
    md_num_points md = prodl lens /\ md_num_intervals md = (Z.of_nat (prodl lens) - 1)%Z /\
    md_shape md = Some lens /\ md_extents md = Some ext /\
    Forall2 (fun a e => extent_ok (snd a) e) axes ext /\
    length flags = length lens /\ valid_lens lens.
Proof.
  intros Hne Hnd Hpos flags lens. unfold list_grid_scan, outer_list_product.
  rewrite list_axes_args_lists.
  assert (Hfl : length flags = length axes).
  { unfold flags, list_flags. rewrite map_length, combine_length, seq_length, !map_length. lia. }
  pose proof (snake_values_ok QOps axes fst snd flags Hne Hnd Hpos Hfl) as Hsv. cbn zeta in Hsv.
  fold lens in Hsv. fold flags. rewrite Hsv.
  (* extents *)
  set (fe := fun a : nat * list Q => match list_min QOps (snd a), list_max QOps (snd a) with
                                     | Some lo, Some hi => Some (lo, hi) | _, _ => None end).
  set (ge := fun a : nat * list Q => match fe a with Some e => e | None => (0%Q, 0%Q) end).
  assert (Hfe : forall a, In a axes -> fe a = Some (ge a) /\ extent_ok (snd a) (ge a)).
  { intros a Ha. destruct (list_extent (snd a) (Hpos a Ha)) as [lo [hi [E1 [E2 E3]]]].
    unfold ge, fe. rewrite E1, E2. split; [reflexivity|exact E3]. }
  rewrite (all_some_map fe ge) by (intros a Ha; apply Hfe; assumption).
  set (cy := map _ (seq 0 (prodl lens))).
  assert (Hcl : length cy = prodl lens) by (unfold cy; rewrite map_length, seq_length; reflexivity).
  assert (Hkeys : forall p, In p cy -> NoDup (map fst p)).
  { intros p Hp. unfold cy in Hp. apply in_map_iff in Hp. destruct Hp as [t [<- _]].
    rewrite map_map. cbn [fst]. rewrite <- (map_map snd fst), map_snd_enumerate. exact Hnd. }
  eexists. eexists. exists (map ge axes). split; [reflexivity|].
  match goal with |- Qvisits (fst (scan_nd_core _ _ _ _ ?md)) _ /\ _ =>
    destruct (Q_scan_nd_core dets (map fst axes) cy md Hkeys) as [Hv Hsh] end.
  assert (Hcy : cy = list_grid_traj axes flags).
  { unfold cy, list_grid_traj, grid_traj. fold lens. apply map_ext. intros t.
    unfold grid_point. rewrite (enumerate_nth axes dlx), map_map. cbn [fst snd].
    replace (length lens) with (length axes) by (unfold lens; rewrite map_length; reflexivity).
    apply map_ext. intros k.
    rewrite nth_dlx_fst, nth_dlx_snd. reflexivity. }
  split; [rewrite <- Hcy; exact Hv|]. split; [rewrite <- Hcl; exact Hsh|].
  unfold nd_meta.
  cbn [md_plan_name md_detectors md_motors md_num_points md_num_intervals md_pattern md_shape md_extents md_snaking].
  split; [reflexivity|]. split; [reflexivity|]. split; [exact Hcl|].
  split; [f_equal; f_equal; exact Hcl|]. split; [reflexivity|]. split; [reflexivity|].
  split; [|split].
  - apply Forall2_map_r. intros a Ha. apply Hfe. assumption.
  - unfold lens. rewrite map_length. exact Hfl.
  - split.
    + unfold lens. destruct axes; [contradiction|discriminate].
    + unfold lens. apply Forall_forall. intros L HL. apply in_map_iff in HL. destruct HL as [a [<- Ha]].
      apply Hpos. assumption.
Qed.

(* ================================================================== log_scan (any number type) *)
Section LogScan.
  Context {F : Type}.
  Notation msg := (@msg F).

  Definition log_group (motor : nat) (grp : list msg) (v : F) : Prop :=
    exists g trig reads,
      grp = [MCheckpoint; MSet motor v g; MWait g] ++ trig ++ [MCreate] ++ map MRead reads ++ [MSave] /\
      (trig = [] \/ exists tg objs, objs <> [] /\ trig = map (fun o => MTrigger o tg) objs ++ [MWait tg]).

  Lemma log_group_point_group motor grp v : log_group motor grp v -> point_group grp.
  Proof.
    intros [g [trig [reads [-> Ht]]]]. exists [MSet motor v g], g, trig, reads.
    split; [reflexivity|]. split; [|exact Ht]. constructor; [exists motor, v; reflexivity|constructor].
  Qed.

  Lemma steps_1d_ok dets motor steps : forall g pm,
    let ms := fst (steps_1d dets motor g steps) in
    Forall2 (fun s v => s motor = Some v) (snapshots ms pm) steps /\
    exists groups, ms = concat groups /\ Forall2 (log_group motor) groups steps.
  Proof.
    induction steps as [|v r IH]; intros g pm.
    - cbn. split; [constructor|]. exists []. split; [reflexivity|constructor].
    - cbn [steps_1d].
      set (devs := det_devs dets ++ [(OMot motor, false)]).
      destruct (@trigger_and_read_shape F devs (S g)) as [trig [Htr [Hq Hshape]]].
      destruct (trigger_and_read devs (S g)) as [tr g'] eqn:Etr. cbn [fst] in Htr. subst tr.
      specialize (IH g' (pm_set pm motor v)).
      destruct (steps_1d dets motor g' r) as [ms' g''] eqn:Er. cbn [fst] in *.
      destruct IH as [IH1 [groups [Hcat Hall]]].
      assert (Hq' : forallb quiet (trig ++ [MCreate] ++ map MRead (map fst devs)) = true).
      { rewrite !forallb_app, Hq. rewrite forallb_quiet_map by reflexivity. reflexivity. }
      split.
      + replace ([MCheckpoint; MSet motor v g; MWait g] ++
                 (trig ++ [MCreate] ++ map MRead (map fst devs) ++ [MSave]) ++ ms')
          with ([MCheckpoint; MSet motor v g; MWait g] ++
                (trig ++ [MCreate] ++ map MRead (map fst devs)) ++ [MSave] ++ ms')
          by (rewrite <- !app_assoc; reflexivity).
        remember (trig ++ [MCreate] ++ map MRead (map fst devs)) as Q eqn:HQ. clear HQ.
        cbn [app snapshots]. rewrite snapshots_app.
        destruct (quiet_snapshots Q (pm_set pm motor v) Hq') as [-> ->]. cbn [app snapshots].
        constructor; [|exact IH1]. unfold pm_set. rewrite Nat.eqb_refl. reflexivity.
      + exists (([MCheckpoint; MSet motor v g; MWait g] ++
                 trig ++ [MCreate] ++ map MRead (map fst devs) ++ [MSave]) :: groups).
        cbn [concat]. rewrite Hcat. split; [rewrite <- !app_assoc; reflexivity|].
        constructor; [|exact Hall]. exists g, trig, (map fst devs). split; [reflexivity|exact Hshape].
  Qed.

  Theorem log_scan_thm dets motor (steps : list F) :
    exists ms md groups pre post, log_scan dets motor steps = Done ms /\
      (forall pm0, Forall2 (fun s v => s motor = Some v) (snapshots ms pm0) steps) /\
      ms = pre ++ [MOpenRun md] ++ concat groups ++ [MCloseRun] ++ post /\
      forallb is_stage pre = true /\ forallb is_unstage post = true /\
      Forall2 (log_group motor) groups steps /\
      md_num_points md = length steps /\ md_num_intervals md = (Z.of_nat (length steps) - 1)%Z /\
      md_plan_name md = PNlog_scan /\ md_motors md = [motor].
  Proof.
    unfold log_scan, staged_run.
    destruct (steps_1d_ok dets motor steps 1 (fun _ => None)) as [_ [groups [Hcat Hall]]].
    destruct (steps_1d dets motor 1 steps) as [b g] eqn:Eb. cbn [fst] in *.
    eexists. eexists. exists groups. eexists. eexists. split; [reflexivity|]. split; [|split].
    - intros pm0.
      pose proof (staged_run_snapshots (det_objs dets ++ [OMot motor])
        (mkMeta PNlog_scan (map det_id dets) [motor] (length steps) (Z.of_nat (length steps) - 1) PPlogspace None None None)
        (fun g => steps_1d dets motor g steps) pm0) as Hs.
      unfold staged_run in Hs. rewrite Eb in Hs. cbn [fst] in Hs. rewrite Hs.
      pose proof (steps_1d_ok dets motor steps 1 pm0) as [H1 _]. rewrite Eb in H1. exact H1.
    - rewrite Hcat. reflexivity.
    - split; [apply forallb_map_all; reflexivity|]. split; [apply forallb_map_all; reflexivity|].
      split; [exact Hall|]. repeat split.
  Qed.
End LogScan.

(* ================================================================== x2x_scan over Q *)
Definition rel_pm (init : nat -> Q) (pr pa : @posmap Q) : Prop :=
  forall k v, pr k = Some v -> pa k = Some (init k + v)%Q.

Lemma relativize_snapshots init (ms : list (@msg Q)) : forall pr pa, rel_pm init pr pa ->
  Forall2 (rel_pm init) (snapshots ms pr) (snapshots (relativize QOps init ms) pa) /\
  rel_pm init (final_pos ms pr) (final_pos (relativize QOps init ms) pa).
Proof.
  induction ms as [|m ms IH]; intros pr pa Hrel; [split; [constructor|exact Hrel]|].
  destruct m as [o g|o g|md| | |k0 v0 g|g|o g| |o| ]; cbn [relativize map snapshots final_pos]; try (apply IH; assumption).
  - apply IH. intros k w Hk. unfold pm_set in *. destruct (k =? k0) eqn:Ek.
    + apply Nat.eqb_eq in Ek. subst. injection Hk as <-. reflexivity.
    + apply Hrel. assumption.
  - destruct (IH pr pa Hrel) as [H1 H2]. split; [constructor; assumption|assumption].
Qed.

Definition shift_point (init : nat -> Q) (p : @point Q) : @point Q :=
  map (fun mv => (fst mv, (init (fst mv) + snd mv)%Q)) p.

Lemma shift_reached init pr pa p : rel_pm init pr pa -> point_reached Qeq pr p ->
  point_reached Qeq pa (shift_point init p).
Proof.
  intros Hrel Hp. unfold shift_point. induction Hp as [|[m v] p [v' [H1 H2]] Hp IH]; cbn [map]; constructor.
  - cbn [fst snd] in *. exists (init m + v')%Q. split; [apply Hrel; assumption|]. rewrite H2. reflexivity.
  - exact IH.
Qed.

Lemma reset_final init moved g : forall (pm : @posmap Q) k,
  In k moved \/ pm k = Some (init k) -> final_pos (reset_msgs init moved g) pm k = Some (init k).
Proof.
  unfold reset_msgs. induction moved as [|k' r IH]; intros pm k H.
  - cbn. destruct H as [[]|H]. exact H.
  - cbn [map app final_pos]. apply IH. destruct H as [[->|H]|H].
    + right. unfold pm_set. rewrite Nat.eqb_refl. reflexivity.
    + left. exact H.
    + destruct (Nat.eq_dec k k') as [->|Hne].
      * right. unfold pm_set. rewrite Nat.eqb_refl. reflexivity.
      * right. unfold pm_set. replace (k =? k') with false by (symmetry; apply Nat.eqb_neq; assumption). exact H.
Qed.

Lemma reset_no_snapshots init moved g (pm : @posmap Q) : snapshots (reset_msgs init moved g) pm = [].
Proof.
  unfold reset_msgs. revert pm. induction moved as [|k r IH]; intros pm; [reflexivity|]. cbn [map app snapshots]. apply IH.
Qed.

Lemma first_sets_complete (ms : list (@msg Q)) k : forall seen,
  (exists v g, In (MSet k v g) ms) -> ~ In k seen -> In k (first_sets ms seen).
Proof.
  induction ms as [|m ms IH]; intros seen [v [g Hin]] Hns; [destruct Hin|].
  destruct Hin as [->|Hin].
  - cbn [first_sets]. rewrite (mem_false k seen Hns). left. reflexivity.
  - destruct m as [o g0|o g0|md| | |k0 v0 g0|g0|o g0| |o| ]; cbn [first_sets]; try (apply IH; [exists v, g; assumption|assumption]).
    destruct (mem k0 seen) eqn:Em.
    + apply IH; [exists v, g; assumption|assumption].
    + destruct (Nat.eq_dec k0 k) as [->|Hne]; [left; reflexivity|].
      right. apply IH; [exists v, g; assumption|]. intros [E|Hs]; [congruence|contradiction].
Qed.

Lemma set_exists (ms : list (@msg Q)) k : forall pm s rest w,
  snapshots ms pm = s :: rest -> pm k = None -> s k = Some w -> exists v g, In (MSet k v g) ms.
Proof.
  induction ms as [|m ms IH]; intros pm s rest w Hs Hn Hk; [discriminate|].
  destruct m as [o g0|o g0|md| | |k0 v0 g0|g0|o g0| |o| ]; cbn [snapshots] in Hs;
    try (destruct (IH pm s rest w Hs Hn Hk) as [v [g Hin]]; exists v, g; right; exact Hin).
  - destruct (Nat.eq_dec k0 k) as [->|Hne].
    + exists v0, g0. left. reflexivity.
    + assert (Hn' : pm_set pm k0 v0 k = None).
      { unfold pm_set. replace (k =? k0) with false by (symmetry; apply Nat.eqb_neq; congruence). exact Hn. }
      destruct (IH _ s rest w Hs Hn' Hk) as [v' [g' Hin]]. exists v', g'. right. exact Hin.
  - injection Hs as <- _. congruence.
Qed.

Lemma relativize_point_group init grp : point_group grp -> point_group (relativize QOps init grp).
Proof.
  intros [sets [g [trig [reads [-> [Hsets Ht]]]]]].
  exists (relativize QOps init sets), g, trig, reads. split; [|split].
  - unfold relativize. cbn [map]. rewrite !map_app. cbn [map]. rewrite !map_map. f_equal. f_equal. f_equal.
    f_equal.
    + destruct Ht as [->|[tg [objs [_ ->]]]]; [reflexivity|]. rewrite map_app, map_map. reflexivity.
  - unfold relativize. induction Hsets as [|m sets [k [v ->]] _ IH]; cbn [map]; constructor; [|exact IH].
    exists k, (init k + v)%Q. reflexivity.
  - exact Ht.
Qed.

(* what may follow close_run in a relative scan: unstaging, then moving back and waiting for it *)
Definition after_run (m : @msg Q) : bool :=
  match m with MUnstage _ _ | MSet _ _ _ | MWait _ => true | _ => false end.

Definition x2x_traj (m1 m2 : nat) (start stop : Q) (num : nat) (init : nat -> Q) : list (@point Q) :=
  map (fun t => [(m1, (init m1 + lin_spec start stop num t)%Q);
                 (m2, (init m2 + lin_spec (start / 2) (stop / 2) num t)%Q)]) (seq 0 num).

Theorem x2x_scan_thm dets m1 m2 (start stop : Q) num (init : nat -> Q) :
  m1 <> m2 -> 1 <= num ->
  exists ms md pre groups post,
    x2x_scan QOps dets m1 m2 start stop num init = Done ms /\
    Qvisits ms (x2x_traj m1 m2 start stop num init) /\
    (forall pm0, final_pos ms pm0 m1 = Some (init m1) /\ final_pos ms pm0 m2 = Some (init m2)) /\
    ms = pre ++ [MOpenRun md] ++ concat groups ++ [MCloseRun] ++ post /\
    forallb is_stage pre = true /\ forallb after_run post = true /\
    length groups = num /\ Forall point_group groups /\
    md_num_points md = num /\ md_num_intervals md = (Z.of_nat num - 1)%Z /\
    md_plan_name md = PNx2x_scan /\ md_motors md = [m1; m2].
Proof.
  intros Hne Hn. unfold x2x_scan.
  set (axes := [(m1, start, stop); (m2, o_div QOps start (o_of_nat QOps 2), o_div QOps stop (o_of_nat QOps 2))]).
  change [AMot m1; AVal start; AVal stop; AMot m2; AVal (o_div QOps start (o_of_nat QOps 2));
          AVal (o_div QOps stop (o_of_nat QOps 2)); ANum num] with (args3 axes ++ [ANum num]).
  rewrite scan_args_positional by apply args3_mod3.
  assert (Hnd : NoDup (map (fun a : nat * Q * Q => fst (fst a)) axes)).
  { cbn. constructor; [intros [E|[]]; congruence|constructor; [intros []|constructor]]. }
  destruct (scan_core_ok PNx2x_scan dets axes num ltac:(discriminate) Hnd Hn) as [[ms g] [Hr [Hv Hs]]].
  rewrite Hr. cbn [fst] in *.
  destruct Hs as [pre [groups [post [Hms [Hpre [Hpost [Hlen Hgr]]]]]]].
  eexists. eexists. exists (relativize QOps init pre), (map (relativize QOps init) groups).
  exists (relativize QOps init post ++ reset_msgs init (first_sets ms []) g).
  split; [reflexivity|].
  (* positions *)
  assert (Hrel0 : rel_pm init (fun _ => None) (fun _ => None)) by (intros k v Hk; discriminate).
  assert (Hvis : Qvisits (relativize QOps init ms ++ reset_msgs init (first_sets ms []) g)
                         (x2x_traj m1 m2 start stop num init)).
  { intros pa0. rewrite snapshots_app, reset_no_snapshots, app_nil_r.
    assert (Hrel : rel_pm init (fun _ => None) pa0) by (intros k v Hk; discriminate).
    destruct (relativize_snapshots init ms _ _ Hrel) as [H1 _].
    specialize (Hv (fun _ => None)).
    replace (x2x_traj m1 m2 start stop num init) with (map (shift_point init) (lin_traj axes num))
      by (unfold x2x_traj, lin_traj; rewrite map_map; reflexivity).
    revert H1 Hv. generalize (snapshots ms (fun _ : nat => None)) (snapshots (relativize QOps init ms) pa0) (lin_traj axes num).
    intros sr sa tr H1. revert tr. induction H1 as [|pr pa sr sa Hr1 H1 IH]; intros tr Hv; inversion Hv; subst; cbn [map]; constructor.
    - eapply shift_reached; eassumption.
    - apply IH. assumption. }
  split; [exact Hvis|]. split.
  - (* restored *)
    intros pm0. rewrite !final_pos_app.
    assert (Hset : forall k, In k [m1; m2] -> In k (first_sets ms [])).
    { clear Hms Hvis. intros k Hk. apply first_sets_complete; [|intros []].
      specialize (Hv (fun _ => None)). unfold lin_traj in Hv. destruct num as [|n]; [lia|].
      cbn [seq map] in Hv. inversion Hv as [|s p0 rest tr Hp0 Hrest Es Et]; subst.
      assert (Hk' : exists w, s k = Some w).
      { unfold point_reached in Hp0. cbn [map] in Hp0. inversion Hp0 as [|? ? [w1 [A1 _]] Hp1]; subst.
        inversion Hp1 as [|? ? [w2 [A2 _]] _]; subst. cbn [fst] in *.
        destruct Hk as [<-|[<-|[]]]; eexists; eassumption. }
      destruct Hk' as [w Hw]. eapply (set_exists ms k (fun _ => None) s rest w); [symmetry; exact Es|reflexivity|exact Hw]. }
    split; apply reset_final; left; apply Hset; [left|right; left]; reflexivity.
  - rewrite Hms. unfold relativize at 1. rewrite !map_app. cbn [map]. rewrite concat_map.
    rewrite <- !app_assoc. split; [reflexivity|].
    split; [|split; [|split; [rewrite map_length; exact Hlen|split]]].
    + unfold relativize. clear -Hpre. induction pre as [|m pre IH]; [reflexivity|].
      cbn [forallb map] in *. apply andb_true_iff in Hpre as [H1 H2]. rewrite (IH H2).
      destruct m; try discriminate; reflexivity.
    + rewrite forallb_app. apply andb_true_iff. split.
      * unfold relativize. clear -Hpost. induction post as [|m post IH]; [reflexivity|].
        cbn [forallb map] in *. apply andb_true_iff in Hpost as [H1 H2]. rewrite (IH H2).
        destruct m; try discriminate; reflexivity.
      * unfold reset_msgs. rewrite forallb_app. rewrite (forallb_map_all after_run) by reflexivity. reflexivity.
    + clear -Hgr. induction Hgr as [|grp groups Hg _ IH]; cbn [map]; constructor; [|exact IH].
      apply relativize_point_group. exact Hg.
    + repeat split.
Qed.
