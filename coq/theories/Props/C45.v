(* C45 - collected stream assets line up with the stream's event numbering. *)
From BV Require Import Base.Prelude Engine.Bundler Engine.BundlerSpec Engine.BundlerDet Engine.BundlerObs
                       Proofs.BundlerC45.
From Coq Require Import ZArith List Bool.
Import ListNotations.

(* ANY state, ANY asset documents the devices hand back: a collect that succeeds is for a declared stream n;
   it emits asset documents only; every stream datum carries the stream's current descriptor and
   seq_nums [c, c + (stop - start)) with c the stream's counter; the widths seen in one collect are 0 or the
   common width W (= the last one), the counter advances by exactly W and no other counter moves; objects
   collected together are each asked for the minimum of their indices. *)
Theorem C45_collect_numbering :
  forall E s objs nm s' docs,
  step E s (OCollect objs nm false) = (s', docs, ROk) ->
  exists n d c,
    (nm = Some n \/ nm = None) /\ In n (declared_get (b_declared s) (to_set (collect_objs objs))) /\
    dget (b_descriptors s) n = Some d /\ dget (b_seq s) n = Some c /\
    forallb is_asset_doc docs = true /\
    (forall ia ib sa sb de, In (ia, ib, sa, sb, de) (datum_ranges docs) ->
        de = de_uid d /\ sa = c /\ sb = (c + (ib - ia))%Z /\
        ((ib - ia = 0)%Z \/ (ib - ia)%Z = last (widths docs) 0%Z)) /\
    b_seq s' = dset (b_seq s) n (c + last (widths docs) 0)%Z /\
    b_ledger s' =
      (if (1 <? length objs)%nat then map CGetIndex (collect_objs objs) else []) ++
      asked E objs (if (1 <? length objs)%nat then zmin_list (collect_indices objs) else None).
Proof. exact collect_numbering. Qed.
Print Assumptions C45_collect_numbering.

Theorem C45_min_index_is_the_minimum :
  forall l m, zmin_list l = Some m -> In m l /\ forall x, In x l -> (m <= x)%Z.
Proof. exact zmin_list_spec. Qed.
Print Assumptions C45_min_index_is_the_minimum.

(* ALL index progressions ws (one index vector per collect, any length, any values) of a group of 1..n
   well-behaved detectors on their declared stream, from ANY state in which the group is ready: every
   collect succeeds, the documents are exactly [cadence_docs] - per detector a stream_resource once and a
   stream_datum for [last, m) with seq_nums [c, c + (m - last)) - and the group is ready again with the
   counter advanced by the number of frames declared *)
Theorem C45_cadence :
  forall E dets n d0 run0 ws s c last started k,
  ready E s dets n d0 run0 c started ->
  Forall (fun w => length w = length dets) ws ->
  let r := run E s (cadence dets n started last k ws) in
  map (fun x => fst (fst x)) (snd r) = cadence_docs dets run0 (de_uid d0) started last c k ws /\
  results_ok (snd r) = true /\ length (snd r) = length ws /\
  exists started', ready E (fst r) dets n d0 run0 (c + (cadence_last dets last ws - last))%Z started'.
Proof. exact cadence_ok. Qed.
Print Assumptions C45_cadence.

(* those documents tile: indices and seq_nums of consecutive collects are adjacent, widths agree *)
Theorem C45_cadence_contiguous :
  forall dets run0 de ws started last c k,
  dets <> [] -> Forall (fun w => length w = length dets) ws ->
  tiles last c (cadence_docs dets run0 de started last c k ws)
        (cadence_last dets last ws) (c + (cadence_last dets last ws - last))%Z.
Proof. exact cadence_docs_tile. Qed.
Print Assumptions C45_cadence_contiguous.

(* numbering starts at 1: declaring a stream whose name is new in the run sets its counter to 1 *)
Theorem C45_new_stream_starts_at_one :
  forall E s objs n c s' docs,
  step E s (ODeclareStream objs (Some n) c) = (s', docs, ROk) -> dmem (b_streams s) n = false ->
  dget (b_seq s') n = Some 1%Z /\ nmem n (declared_get (b_declared s') (to_set objs)) = true /\
  exists d, dget (b_descriptors s') n = Some d /\ de_name d = n /\ docs = [DDescr d].
Proof. exact declare_new_stream. Qed.
Print Assumptions C45_new_stream_starts_at_one.

(* num_events in the RunStop is counter - 1 for every stream *)
Theorem C45_stop_reports_counters :
  forall E s st reason s' docs,
  step E s (OCloseRun st reason) = (s', docs, ROk) ->
  exists u run0, docs = [DStop u run0 (match st with Some x => x | None => SSuccess end) reason
                               (map (fun kv => (fst kv, (snd kv - 1)%Z)) (b_seq s))].
Proof. exact close_run_reports. Qed.
Print Assumptions C45_stop_reports_counters.

(* ---- non-vacuity: two detectors, declared together in a fresh run, are ready with counter 1 *)
Definition ex45_devs : dict devspec :=
  [(5, mkDev false true false true true true false false false [] [(5, ExtStream)]);
   (6, mkDev false true false true true true false false false [] [(7, ExtStream)])].
Definition ex45_dets : list detector := [mkDet 5 5 1; mkDet 6 7 2].
Definition ex45_hist : list op := [OOpenRun; ODeclareStream [5; 6] (Some 7) true].
Example C45_ready_nonvacuous :
  exists d0, ready (env_of ex45_devs) (final (env_of ex45_devs) (init false false) ex45_hist)
                   ex45_dets 7 d0 (UGen 0) 1%Z false.
Proof.
  eexists. unfold ready. vm_compute.
  repeat split; try discriminate;
    try (repeat constructor; cbn; intuition discriminate).
  all: try (intros d [<-|[<-|[]]]; reflexivity).
Qed.
Example C45_collect_nonvacuous :
  exists s s' docs, step (env_of ex45_devs) s (std_collect ex45_dets 7 false 0 3 0 [3; 5]%Z) = (s', docs, ROk) /\
                    length docs = 4.
Proof.
  exists (final (env_of ex45_devs) (init false false) ex45_hist). eexists. eexists.
  vm_compute. split; reflexivity.
Qed.
