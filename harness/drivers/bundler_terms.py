"""Printers: bundler cases / observations (harness/drivers/bundler_driver.py) -> Coq terms over
Engine/Bundler.v and Engine/BundlerObs.v."""

COQ_IMPORTS = "From BV Require Import Engine.Bundler Engine.BundlerObs.\nFrom Coq Require Import ZArith."

ERR = {"IllegalMessageSequence": "EIllegalMessageSequence", "ValueError": "EValueError", "RuntimeError": "ERuntimeError",
       "AssertionError": "EAssertionError", "KeyError": "EKeyError", "AttributeError": "EAttributeError",
       "EventModelValueError": "EEventModelValueError", "EventModelValidationError": "EEventModelValidationError",
       "EventModelError": "EEventModelError", "TypeError": "ETypeError"}
EXTC = {"none": "ExtNone", "stream": "ExtStream", "other": "ExtOther"}
STATUS = {"success": "SSuccess", "abort": "SAbort", "fail": "SFail"}


def cl(xs, f=str):
    return "[" + "; ".join(f(x) for x in xs) + "]"


def cb(b):
    return "true" if b else "false"


def cn(n):
    assert isinstance(n, int) and n >= 0
    return "%d" % n


def cz(z):
    assert isinstance(z, int) and not isinstance(z, bool)
    return "(%d)%%Z" % z


def copt(x, f):
    return "None" if x is None else "(Some %s)" % f(x)


def cdks(d):
    return cl(d, lambda kv: "(%s, %s)" % (cn(kv[0]), EXTC[kv[1]]))


def cdev(spec):
    caps = set(spec.get("caps", []))
    flags = " ".join(cb(c in caps) for c in
                     ["readable", "configurable", "subscribable", "collectable", "flyable", "wsa", "wea", "evc", "pgc"])
    return "(%s, mkDev %s %s %s)" % (cn(spec["id"]), flags, cdks(spec.get("describe", [])),
                                     cdks(spec.get("describe_collect", [])))


def creading(r):
    return cl(r, lambda kv: "(%s, %s)" % (cn(kv[0]), cz(kv[1])))


def casset(a):
    k = a[0]
    if k == "sres":
        return "AStreamRes %s %s" % (cn(a[1]), cn(a[2]))
    if k == "sdatum":
        return "AStreamDatum %s %s %s %s %s %s" % (cn(a[1]), cn(a[2]), cb(a[3]), cb(a[4]), cz(a[5]), cz(a[6]))
    if k == "res":
        return "AResource %s" % cn(a[1])
    if k == "datum":
        return "ADatum %s %s" % (cn(a[1]), cn(a[2]))
    if k == "bad":
        return "ABad %s" % cn(a[1])
    raise ValueError(a)


def cop(op):
    k = op[0]
    if k == "open_run":
        return "OOpenRun"
    if k == "close_run":
        return "OCloseRun %s %s" % (copt(op[1], lambda s: STATUS[s]), cn(op[2]))
    if k == "create":
        return "OCreate %s %s" % (copt(op[1], cn), cl(op[2], cn))
    if k == "read":
        return "ORead %s %s %s" % (cn(op[1]), creading(op[2]), cl(op[3], casset))
    if k == "save":
        return "OSave"
    if k == "drop":
        return "ODrop"
    if k == "monitor":
        return "OMonitor %s %s %s" % (cn(op[1]), cn(op[2]), cb(op[3]))
    if k == "unmonitor":
        return "OUnmonitor %s" % cn(op[1])
    if k == "mon_event":
        return "OMonEvent %s %s" % (cn(op[1]), creading(op[2]))
    if k == "kickoff":
        return "OKickoff %s" % cn(op[1])
    if k == "collect":
        return "OCollect %s %s %s" % (cl(op[1], lambda x: "(%s, %s, %s)" % (cn(x[0]), cz(x[1]), cl(x[2], casset))),
                                      copt(op[2], cn), cb(op[3]))
    if k == "declare":
        return "ODeclareStream %s %s %s" % (cl(op[1], cn), copt(op[2], cn), cb(op[3]))
    if k == "configure":
        return "OConfigure %s %s" % (cn(op[1]), cz(op[2]))
    if k == "checkpoint":
        return "OCheckpoint"
    if k == "interrupt":
        return "ORecordInterruption %s" % cz(op[1])
    if k == "backstop":
        return "OBackstopCollect %s" % cl(op[1], lambda x: "(%s, %s)" % (cn(x[0]), cl(x[1], casset)))
    simple = {"rewind": "ORewind", "reset_checkpoint": "OResetCheckpoint", "clear_checkpoint": "OClearCheckpoint",
              "suspend_monitors": "OSuspendMonitors", "restore_monitors": "ORestoreMonitors",
              "clear_monitors": "OClearMonitors"}
    return simple[k]


def cuid(u):
    return "(%s %s)" % ("UGen" if u[0] == "g" else "UDev", cn(u[1]))


def cdoc(d):
    k = d[0]
    if k == "start":
        return "DStart %s" % cuid(d[1])
    if k == "descriptor":
        keys = cl(d[4], lambda x: "(%s, (%s, %s))" % (cn(x[0]), copt(x[1], cn), EXTC[x[2]]))
        oks = cl(d[5], lambda x: "(%s, %s)" % (cn(x[0]), cl(x[1], cn)))
        cfg = cl(d[6], lambda x: "(%s, %s)" % (cn(x[0]), copt(x[1], cz)))
        return "DDescr (mkDescr %s %s %s %s %s %s)" % (cuid(d[1]), cuid(d[2]), cn(d[3]), keys, oks, cfg)
    if k == "event":
        return "DEvent %s %s %s %s %s" % (cuid(d[1]), cuid(d[2]), cz(d[3]), creading(d[4]), cl(d[5], cn))
    if k == "stop":
        return "DStop %s %s %s %s %s" % (cuid(d[1]), cuid(d[2]), STATUS[d[3]], cn(d[4]),
                                         cl(d[5], lambda x: "(%s, %s)" % (cn(x[0]), cz(x[1]))))
    if k == "sres":
        return "DStreamRes %s %s %s" % (cuid(d[1]), cuid(d[2]), cn(d[3]))
    if k == "sdatum":
        return "DStreamDatum %s %s %s %s %s %s %s" % (cuid(d[1]), cuid(d[2]), cuid(d[3]), cz(d[4]), cz(d[5]), cz(d[6]), cz(d[7]))
    if k == "res":
        return "DResource %s %s" % (cuid(d[1]), cuid(d[2]))
    if k == "datum":
        return "DDatum %s %s" % (cuid(d[1]), cuid(d[2]))
    raise ValueError("document kind outside the model: %r" % (d,))


def ccall(c):
    k = c[0]
    if k == "describe":
        return "CDescribe %s" % cn(c[1])
    if k == "describe_configuration":
        return "CDescribeCfg %s" % cn(c[1])
    if k == "read_configuration":
        return "CReadCfg %s" % cn(c[1])
    if k == "describe_collect":
        return "CDescribeCollect %s" % cn(c[1])
    if k == "subscribe":
        return "CSubscribe %s %s" % (cn(c[1]), cn(c[2]))
    if k == "clear_sub":
        return "CClearSub %s %s" % (cn(c[1]), cn(c[2]))
    if k == "get_index":
        return "CGetIndex %s" % cn(c[1])
    if k == "collect_asset_docs":
        return "CCollectAssets %s %s" % (cn(c[1]), copt(c[2], cz))
    if k == "configure":
        return "CConfigure %s %s" % (cn(c[1]), cz(c[2]))
    raise ValueError("device call outside the model: %r" % (c,))


def cres(r):
    if r == "ok":
        return "ROk"
    # an error kind outside the model's vocabulary can only be matched by the model saying "unmodelled"
    return "RErr %s" % ERR.get(r, "EUnmodelled")


def cobs(o):
    return "(%s, %s, %s)" % (cl(o["docs"], cdoc), cl(o["calls"], ccall), cres(o["res"]))


def case_args(case):
    return "%s %s %s %s" % (cdevs(case["devs"]), cb(case["strict"]), cb(case["record"]), cl(case["ops"], cop))


# The standard device universes are defined once per cases file (in the imports header, generated from the
# very Python objects the driver uses) instead of being repeated in every term.
def _std():
    from harness.drivers import bundler_cases as bc
    return [("devs_std", bc.DEVS), ("devs_std3", bc.DEVS[:3])]


def cdevs(devs):
    for nm, d in _std():
        if devs == d:
            return nm
    return cl(devs, cdev)


def imports():
    return COQ_IMPORTS + "".join("\nDefinition %s : dict devspec := %s." % (nm, cl(d, cdev)) for nm, d in _std())


def agrees_term(case, obs):
    """bool term: the model run on the case yields exactly the observed per-op (documents, device calls, result)."""
    try:
        exp = cl(obs, cobs)
    except (ValueError, KeyError, AssertionError) as e:      # an observation the model has no vocabulary for = disagreement
        return "false (* %s *)" % str(e).replace("*", "x")
    return "agrees %s %s" % (case_args(case), exp)


def magrees_term(case, obs):
    """the multi-run model (Engine/BundlerMulti.v) agrees with the observation of run_multi"""
    try:
        exp = cl(obs, cobs)
    except (ValueError, KeyError, AssertionError) as e:
        return "false (* %s *)" % str(e).replace("*", "x")
    mops = cl(case["mops"], lambda m: "(%s, %s)" % (cn(m[0]), cop(m[1])))
    return "magrees %s %s %s %s %s %s" % (cdevs(case["devs"]), cl(case["keys"], cn), cb(case["strict"]),
                                          cb(case["record"]), mops, exp)
