"""C15 - events contain exactly the readings bundled between create and save (RunBundler create/read/save/drop
and the engine-side checkpoint/configure guards)."""
import itertools

from harness.drivers import bundler_cases as bc
from harness.drivers import bundler_driver as bd
from harness.drivers import bundler_oracles as bo
from harness.drivers import bundler_terms as bt

ID = "C15"
PROP_FILE = "Props/C15.v"
THEOREMS = ["C15_guards_all_runs", "C15_save_emits_bundle", "C15_create_opens_empty_bundle", "C15_read_appends",
            "C15_bundle_untouched_by_other_ops", "C15_bundle_invariant", "C15_read_collision_rejected",
            "C15_guards", "C15_drop_and_empty_save_emit_nothing"]
COQ_IMPORTS = bt.imports() + "\nFrom BV Require Import Engine.BundlerMulti."
PARALLEL = False    # the driver owns one RunEngine (loop thread) per process; cases are cheap
MODELLED = (
    "bluesky.bundlers.RunBundler is modelled op by op in coq/theories/Engine/Bundler.v (state record mirroring its "
    "attributes; partial effects of exceptions kept); RunEngine._checkpoint/_configure are modelled as guard + "
    "reset_checkpoint_state / guard + obj.configure + RunBundler.configure; with several runs open "
    "(Engine/BundlerMulti.v) _checkpoint looks at every registered bundler and resets all, _configure at the bundler of "
    "the message's run key (monitors are outside the multi-run layer). event_model's compose_descriptor / "
    "compose_event / compose_stop are modelled behaviourally (shared counters, stream/data-key check, poison pill); "
    "JSON-schema validation is left to event_model (its failures are outside the model's vocabulary and excluded). "
    "asyncio.gather is modelled as 'all members run, first exception in order wins' (the members never suspend). "
    "Devices are the harness's fake devices: static describe()/protocols = environment E, readings and asset "
    "documents are op payloads. Old-style flyer paths (describe_collect without declare_stream, collect()/"
    "collect_pages()) answer EUnmodelled. Documents are abstract records; uids compared by first appearance.")
RULE = ("corpus; exhaustive: every op sequence of length <= 3 (quick; plus 300 sampled of length 4) / <= 4 (thorough; plus 3000 sampled of length 5..7) over {create, read o1, read o2, "
        "read o3 (keys overlap o2), save, drop, checkpoint, configure o1} after open_run; random walks (profiles bundle/"
        "mixed, 6..28 ops, 8% arbitrary ops, 30% random device universes, strict pre-declare 15%, both create forms); "
        "malformed stream (35% arbitrary ops: bad readings, ops before open_run, wrong protocols, bad asset docs); "
        "SEVERAL RUNS: two bundlers registered in the RunEngine under run keys (None,r1) / (r1,r2): every sequence of "
        "length <= 2 (quick) / 3 (thorough) over {create/read/save/drop of either run, checkpoint and configure "
        "carrying key None, r1, r2 (registered or not)}, sampled longer ones, and two interleaved random walks. "
        "Every case: full per-op comparison (documents, device calls, error kind) of model vs real RunBundler. "
        "non-trivial = a save that emitted an event; distinct by op list")

MONITOR_OPS = ("monitor", "unmonitor", "mon_event", "suspend_monitors", "restore_monitors", "clear_monitors")


def multi_alphabet(keys):
    """messages of two runs open at once; checkpoint / configure carry either run key, the default key or a
    key no run is registered under"""
    a, b = keys
    out = [(a, ("create", 1, ())), (a, ("read", 1, ((1, 11),), ())), (a, ("save",)), (a, ("drop",)),
           (b, ("create", 2, ())), (b, ("read", 3, ((3, 33),), ())), (b, ("save",)), (b, ("drop",))]
    for k in (0, 1, 2):
        out += [(k, ("checkpoint",)), (k, ("configure", 1, 7))]
    return out


def multi_case(keys, mops, tag, strict=False, record=False, devs=None):
    c = bc.mk(devs or bc.DEVS[:3], [], strict=strict, record=record, tag=tag)
    c.update(kind="multi", keys=list(keys), mops=[[k, bc._thaw(op)] for k, op in mops])
    c["ops"] = [m[1] for m in c["mops"]]
    return c


def multi_cases(rng, tier):
    out = []
    for keys in ((0, 1), (1, 2)):
        alpha = multi_alphabet(keys)
        prefix = [(keys[0], ("open_run",)), (keys[1], ("open_run",))]
        for L in range(0, (2 if tier == "quick" else 3) + 1):
            for seq in itertools.product(alpha, repeat=L):
                out.append(multi_case(keys, prefix + list(seq), "multi-enum"))
        for _ in range(150 if tier == "quick" else 2500):
            seq = [rng.choice(alpha) for _ in range(rng.randint(3, 7))]
            out.append(multi_case(keys, prefix + seq, "multi-enum+"))
    for _ in range(80 if tier == "quick" else 2000):      # two random walks interleaved
        keys = rng.choice([(0, 1), (1, 2), (0, 2)])
        walks = []
        for k in keys:
            ops = [op for op in bc.gen_ops(rng, bc.DEVS, rng.randint(4, 14), rng.choice(["bundle", "mixed"]), wild=0.03)
                   if op[0] not in MONITOR_OPS]
            walks.append([(rng.choice((0, 1, 2)) if op[0] in ("checkpoint", "configure") else k, op) for op in ops])
        mops = []
        while any(walks):
            w = rng.choice([x for x in walks if x])
            mops.append(w.pop(0))
        out.append(multi_case(keys, mops, "multi-rand", strict=rng.random() < 0.1, record=rng.random() < 0.3, devs=bc.DEVS))
    return out


ALPHABET = [("create", 1, ()), ("read", 1, ((1, 11),), ()), ("read", 2, ((2, 22), (3, 33)), ()),
            ("read", 3, ((3, 44),), ()), ("save",), ("drop",), ("checkpoint",), ("configure", 1, 7)]


def cases(rng, tier):
    out = []
    maxlen = 3 if tier == "quick" else 4
    for ops in bc.enum_sequences(ALPHABET, maxlen):
        out.append(bc.mk(bc.DEVS[:3], ops, tag="enum"))
    # a seeded sample of the next lengths
    for _ in range(300 if tier == "quick" else 3000):
        k = 4 if tier == "quick" else rng.randint(5, 7)
        out.append(bc.mk(bc.DEVS[:3], [["open_run"]] + [bc._thaw(rng.choice(ALPHABET)) for _ in range(k)], tag="enum+"))
    n = 180 if tier == "quick" else 3000
    out += bc.random_cases(rng, n, "bundle")
    out += bc.random_cases(rng, n // 3, "mixed")
    out += bc.random_cases(rng, n // 3, "bundle", wild=0.35, tag="malformed")
    out += multi_cases(rng, tier)
    return out


def impl(case):
    return bd.run_multi(case) if case.get("kind") == "multi" else bd.run_case(case)


def coq_term(case, obs):
    return bt.magrees_term(case, obs) if case.get("kind") == "multi" else bt.agrees_term(case, obs)


def oracle(case, obs):
    return bo.c15_multi(case, obs) if case.get("kind") == "multi" else bo.c15(case, obs)


def finding(case, obs):
    return None


def nontrivial(case, obs):
    return any(op[0] == "save" and any(d[0] == "event" for d in o["docs"]) for op, o in zip(case["ops"], obs))


def describe(case):
    n = len(case["ops"])
    return "%s len=%s" % (case.get("tag", "corpus"), "<=5" if n <= 5 else "6-15" if n <= 15 else ">15")
