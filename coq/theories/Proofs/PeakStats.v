(* Proofs about Pure/PeakStats.v. *)
From Coq Require Import ZArith QArith Qabs List Bool Lia Lqa ZifyBool.
From BV Require Import Base.Prelude Base.OrdField Pure.PeakStats.
Import ListNotations.

Ltac Zify.zify_post_hook ::= Z.div_mod_to_equations.

(* ================================================================== fuel (any instance) *)
Section Fuel.
Context {F : Type} (O : Ops F).

Lemma pw_unfold f l :
  pw O (S f) l =
  let n := length l in
  if (n <? 8)%nat then Some (sum_seq O (zero O) l)
  else if (n <=? 128)%nat then
    match l with
    | a0 :: a1 :: a2 :: a3 :: a4 :: a5 :: a6 :: a7 :: t => Some (pw8 O a0 a1 a2 a3 a4 a5 a6 a7 t)
    | _ => None
    end
  else
    let n2 := (n / 2 - (n / 2) mod 8)%nat in
    match pw O f (firstn n2 l), pw O f (skipn n2 l) with
    | Some a, Some b => Some (add O a b)
    | _, _ => None
    end.
Proof. reflexivity. Qed.

Lemma pw_some : forall fuel l, (length l <= 128 + fuel)%nat -> exists s, pw O (S fuel) l = Some s.
Proof.
  induction fuel as [|f IH]; intros l H; rewrite pw_unfold; cbv zeta.
  - destruct (Nat.ltb_spec (length l) 8) as [E8|E8]; [eauto|].
    destruct (Nat.leb_spec (length l) 128) as [E128|E128]; [|lia].
    do 8 (destruct l as [|? l]; [cbn in E8; lia|]). eauto.
  - destruct (Nat.ltb_spec (length l) 8) as [E8|E8]; [eauto|].
    destruct (Nat.leb_spec (length l) 128) as [E128|E128].
    + do 8 (destruct l as [|? l]; [cbn in E8; lia|]). eauto.
    + set (n2 := (length l / 2 - (length l / 2) mod 8)%nat).
      pose proof (Nat.div_mod (length l) 2 ltac:(lia)) as D2.
      pose proof (Nat.mod_upper_bound (length l) 2 ltac:(lia)) as M2.
      pose proof (Nat.mod_upper_bound (length l / 2) 8 ltac:(lia)) as M8.
      destruct (IH (firstn n2 l)) as [a Ha].
      { rewrite firstn_length. subst n2. lia. }
      destruct (IH (skipn n2 l)) as [b Hb].
      { rewrite skipn_length. subst n2. lia. }
      rewrite Ha, Hb. eauto.
Qed.

Lemma np_sum_fuel l : np_sum O l <> OutOfFuel.
Proof.
  unfold np_sum. destruct (pw_some (length l) l) as [s Hs]; [lia|]. rewrite Hs. discriminate.
Qed.

Lemma np_mean_fuel l : np_mean O l <> OutOfFuel.
Proof.
  unfold np_mean. pose proof (np_sum_fuel l). destruct (np_sum O l); cbn; congruence.
Qed.

Lemma np_sum_cases l : exists s, np_sum O l = Done s.
Proof.
  unfold np_sum. destruct (pw_some (length l) l) as [s Hs]; [lia|]. rewrite Hs. eauto.
Qed.

Lemma np_mean_cases l : exists s, np_mean O l = Done s.
Proof.
  unfold np_mean. destruct (np_sum_cases l) as [s ->]. cbn. eauto.
Qed.

Lemma interp_at_some c : forall l j, l <> [] -> exists v, interp_at O c j l = Some v.
Proof.
  induction l as [|a l IH]; intros j H; [congruence|].
  destruct l as [|b l]; cbn [interp_at]; [eauto|].
  destruct (ltb O c (of_Z O (j + 1))); [eauto|]. apply IH. discriminate.
Qed.

Lemma last_opt_some {A} (l : list A) : l <> [] -> exists a, last_opt l = Some a.
Proof.
  intros H. unfold last_opt. destruct (rev l) eqn:E; [|eauto].
  apply (f_equal (@rev A)) in E. rewrite rev_involutive in E. cbn in E. congruence.
Qed.

(* the model never runs out of fuel, and rejects only empty or ragged input *)
Theorem calc_stats_total x y ec :
  calc_stats O x y ec <> OutOfFuel /\
  (x <> [] -> length x = length y -> calc_stats O x y ec <> BadInput).
Proof.
  unfold calc_stats.
  assert (B : exists r, background O x y ec = r /\ r <> OutOfFuel /\ r <> BadInput /\
                        (forall bk, r = Done bk -> length (fst bk) = Nat.min (length x) (length y) \/ fst bk = y)).
  { unfold background. destruct ec as [k|].
    - unfold lin_bkg. destruct k as [|k]; [eexists; split; [reflexivity|]; repeat split; try discriminate|].
      destruct (np_mean_cases (firstn (S k) x)) as [a ->].
      destruct (np_mean_cases (firstn (S k) y)) as [b ->].
      destruct (np_mean_cases (skipn (length x - S k) x)) as [c ->].
      destruct (np_mean_cases (skipn (length x - S k) y)) as [d ->]. cbn [obind].
      destruct (eqb O _ _); cbn [obind]; eexists; (split; [reflexivity|]); repeat split; try discriminate.
      intros bk E. inversion E; subst. cbn [fst]. left. unfold sub_bkg. now rewrite map_length, combine_length.
    - eexists; split; [reflexivity|]. repeat split; try discriminate. intros bk E. inversion E; subst. now right. }
  destruct B as (r & -> & B1 & B2 & B3).
  split.
  - destruct (length x =? length y)%nat; cbn [negb]; [|discriminate].
    destruct r as [bk| | |]; cbn [obind]; try congruence.
    destruct (combine (fst bk) (combine x y)) as [|e0 es]; [discriminate|].
    assert (C : center_of_mass_x O x (fst bk) <> OutOfFuel).
    { unfold center_of_mass_x. destruct x as [|x0 [|x1 x']]; try discriminate.
      destruct (np_sum_cases (fst bk)) as [s ->]. cbn [obind].
      match goal with |- obind (np_sum O ?l) _ <> _ => destruct (np_sum_cases l) as [s' ->] end. cbn [obind].
      destruct (last_opt _); [|discriminate].
      repeat match goal with |- context [if ?b then _ else _] => destruct b end; try discriminate.
      destruct (interp_at _ _ _ _); discriminate. }
    destruct (center_of_mass_x O x (fst bk)); cbn [obind]; try congruence.
    destruct (crossings _ _ _) as [|c0 cs] eqn:Ec; cbn [obind]; [discriminate|].
    destruct (np_mean_cases (c0 :: cs)) as [m ->]. discriminate.
  - intros Hx Hl. rewrite Hl, Nat.eqb_refl. cbn [negb].
    destruct r as [bk| | |]; cbn [obind]; try congruence.
    assert (L : length (fst bk) = length x).
    { destruct (B3 bk eq_refl) as [L|L]; [rewrite L, Hl; apply Nat.min_id | now rewrite L]. }
    destruct x as [|x0 x']; [congruence|]. destruct y as [|y0 y']; [discriminate|].
    destruct (fst bk) as [|v vs] eqn:Ev; [discriminate|]. cbn [combine].
    assert (C : exists cm, center_of_mass_x O (x0 :: x') (v :: vs) = Done cm).
    { unfold center_of_mass_x. destruct x' as [|x1 x'']; [eauto|].
      destruct (np_sum_cases (v :: vs)) as [s ->]. cbn [obind].
      match goal with |- exists _, obind (np_sum O ?l) _ = _ => destruct (np_sum_cases l) as [s' ->] end. cbn [obind].
      destruct (last_opt_some (x0 :: x1 :: x'')) as [xl ->]; [discriminate|].
      repeat match goal with |- context [if ?b then _ else _] => destruct b end; eauto.
      destruct (interp_at_some (div O s' s) (x0 :: x1 :: x'') 0%Z) as [w ->]; [discriminate|]. eauto. }
    destruct C as [cm ->]. cbn [obind].
    destruct (crossings _ _ _) as [|c0 cs] eqn:Ec; cbn [obind]; [discriminate|].
    destruct (np_mean_cases (c0 :: cs)) as [m ->]. discriminate.
Qed.

End Fuel.

(* ================================================================== exact instance *)
Section Exact.
Local Open Scope Q_scope.

Lemma Qltb_true a b : Qltb a b = true <-> a < b.
Proof.
  unfold Qltb. rewrite negb_true_iff. split.
  - intros H. apply Qnot_le_lt. intros L. apply Qle_bool_iff in L. congruence.
  - intros H. destruct (Qle_bool b a) eqn:E; [|reflexivity]. apply Qle_bool_iff in E. lra.
Qed.

Lemma Qltb_false a b : Qltb a b = false <-> b <= a.
Proof.
  unfold Qltb. rewrite negb_false_iff. apply Qle_bool_iff.
Qed.

Lemma Qeqb_true a b : Qeq_bool a b = true <-> a == b.
Proof. apply Qeq_bool_iff. Qed.

Lemma Qeqb_false a b : Qeq_bool a b = false <-> ~ a == b.
Proof.
  split.
  - intros H E. apply Qeq_bool_iff in E. congruence.
  - intros H. destruct (Qeq_bool a b) eqn:E; [|reflexivity]. apply Qeq_bool_iff in E. contradiction.
Qed.

(* ---- numpy's summation order computes the sum *)
Lemma sum_seq_eq l : forall acc, sum_seq QO acc l == acc + qsum l.
Proof.
  unfold sum_seq. induction l as [|a l IH]; intros acc; cbn [fold_left].
  - cbn. ring.
  - rewrite IH. change (qsum (a :: l)) with (a + qsum l). cbn [add QO]. ring.
Qed.

Lemma qsum_cons a l : qsum (a :: l) = a + qsum l.
Proof. reflexivity. Qed.

Lemma pw8_eq : forall n l, (length l <= n)%nat -> forall r0 r1 r2 r3 r4 r5 r6 r7,
  pw8 QO r0 r1 r2 r3 r4 r5 r6 r7 l == r0 + r1 + r2 + r3 + r4 + r5 + r6 + r7 + qsum l.
Proof.
  induction n as [|n IH]; intros l H r0 r1 r2 r3 r4 r5 r6 r7.
  - destruct l; [|cbn in H; lia]. cbn [pw8]. rewrite sum_seq_eq. cbn [add QO]. ring.
  - do 8 (destruct l as [|? l];
          [cbn [pw8]; rewrite sum_seq_eq; rewrite ?qsum_cons; cbn [add QO]; ring|]).
    cbn [pw8]. rewrite IH by (cbn in H; lia). rewrite !qsum_cons. cbn [add QO]. ring.
Qed.

Lemma qsum_app l1 l2 : qsum (l1 ++ l2) == qsum l1 + qsum l2.
Proof. induction l1 as [|a l1 IH]; cbn [app]; [cbn; ring|]. rewrite !qsum_cons, IH. ring. Qed.

Lemma pw_eq : forall fuel l s, pw QO fuel l = Some s -> s == qsum l.
Proof.
  induction fuel as [|f IH]; intros l s H; [discriminate|].
  rewrite pw_unfold in H. cbv zeta in H.
  destruct (length l <? 8)%nat.
  - inversion H; subst. rewrite sum_seq_eq. cbn [zero QO]. ring.
  - destruct (length l <=? 128)%nat.
    + do 8 (destruct l as [|? l]; [discriminate|]). inversion H; subst.
      rewrite (pw8_eq (length l)) by lia. rewrite !qsum_cons. ring.
    + destruct (pw QO f (firstn _ l)) as [a|] eqn:Ea; [|discriminate].
      destruct (pw QO f (skipn _ l)) as [b|] eqn:Eb; [|discriminate].
      inversion H; subst. apply IH in Ea, Eb. cbn [add QO]. rewrite Ea, Eb, <- qsum_app, firstn_skipn. reflexivity.
Qed.

Lemma np_sum_eq l s : np_sum QO l = Done s -> s == qsum l.
Proof.
  unfold np_sum. destruct (pw QO (S (length l)) l) as [t|] eqn:E; [|discriminate].
  intros H. inversion H; subst. apply pw_eq in E. cbn [add zero QO]. rewrite E. ring.
Qed.

Lemma np_mean_eq l m : np_mean QO l = Done m -> m == qmean l.
Proof.
  unfold np_mean. destruct (np_sum QO l) as [s| | |] eqn:E; try discriminate. cbn [obind].
  intros H. inversion H; subst. apply np_sum_eq in E. unfold qmean. cbn [div of_Z QO]. now rewrite E.
Qed.

(* ---- first arg-min / arg-max *)
Lemma first_min_spec {A} : forall (l : list (Q * A)) best,
  exists pre post, best :: l = pre ++ first_min QO best l :: post /\
    (forall u, In u pre -> fst (first_min QO best l) < fst u) /\
    (forall u, In u post -> fst (first_min QO best l) <= fst u).
Proof.
  induction l as [|e l IH]; intros best; cbn [first_min].
  - exists [], []. split; [reflexivity|]. split; intros u [].
  - cbn [ltb QO]. destruct (Qltb (fst e) (fst best)) eqn:E.
    + apply Qltb_true in E. destruct (IH e) as (pre & post & Heq & Hpre & Hpost).
      exists (best :: pre), post. split; [cbn [app]; f_equal; exact Heq|]. split; [|exact Hpost].
      intros u [<-|Hu]; [|now apply Hpre].
      assert (Le : fst (first_min QO e l) <= fst e).
      { destruct pre as [|p pre].
        - cbn in Heq. injection Heq as H1 H2. rewrite <- H1. lra.
        - cbn in Heq. injection Heq as H1 H2. subst p. apply Qlt_le_weak, Hpre. now left. }
      lra.
    + apply Qltb_false in E. destruct (IH best) as (pre & post & Heq & Hpre & Hpost).
      destruct pre as [|p pre].
      * cbn in Heq. injection Heq as H1 H2. exists [], (e :: l). split; [cbn [app]; f_equal; exact H1|].
        split; [intros u []|]. intros u [<-|Hu]; [rewrite <- H1; exact E|]. apply Hpost. rewrite <- H2. exact Hu.
      * cbn in Heq. injection Heq as H1 H2. subst p.
        exists (best :: e :: pre), post. split; [cbn [app]; do 2 f_equal; exact H2|]. split; [|exact Hpost].
        intros u [<-|[<-|Hu]].
        -- apply Hpre. now left.
        -- assert (fst (first_min QO best l) < fst best) by (apply Hpre; now left). lra.
        -- apply Hpre. now right.
Qed.

Lemma first_max_spec {A} : forall (l : list (Q * A)) best,
  exists pre post, best :: l = pre ++ first_max QO best l :: post /\
    (forall u, In u pre -> fst u < fst (first_max QO best l)) /\
    (forall u, In u post -> fst u <= fst (first_max QO best l)).
Proof.
  induction l as [|e l IH]; intros best; cbn [first_max].
  - exists [], []. split; [reflexivity|]. split; intros u [].
  - cbn [ltb QO]. destruct (Qltb (fst best) (fst e)) eqn:E.
    + apply Qltb_true in E. destruct (IH e) as (pre & post & Heq & Hpre & Hpost).
      exists (best :: pre), post. split; [cbn [app]; f_equal; exact Heq|]. split; [|exact Hpost].
      intros u [<-|Hu]; [|now apply Hpre].
      assert (Le : fst e <= fst (first_max QO e l)).
      { destruct pre as [|p pre].
        - cbn in Heq. injection Heq as H1 H2. rewrite <- H1. lra.
        - cbn in Heq. injection Heq as H1 H2. subst p. apply Qlt_le_weak, Hpre. now left. }
      lra.
    + apply Qltb_false in E. destruct (IH best) as (pre & post & Heq & Hpre & Hpost).
      destruct pre as [|p pre].
      * cbn in Heq. injection Heq as H1 H2. exists [], (e :: l). split; [cbn [app]; f_equal; exact H1|].
        split; [intros u []|]. intros u [<-|Hu]; [rewrite <- H1; exact E|]. apply Hpost. rewrite <- H2. exact Hu.
      * cbn in Heq. injection Heq as H1 H2. subst p.
        exists (best :: e :: pre), post. split; [cbn [app]; do 2 f_equal; exact H2|]. split; [|exact Hpost].
        intros u [<-|[<-|Hu]].
        -- apply Hpre. now left.
        -- assert (fst best < fst (first_max QO best l)) by (apply Hpre; now left). lra.
        -- apply Hpre. now right.
Qed.

End Exact.

Section Exact2.
Local Open Scope Q_scope.

(* ---- crossings *)
Lemma crossings_spec mid : forall l,
  crossings QO mid l
  = map (fun pr => cross QO mid (fst (fst pr)) (snd (fst pr)) (fst (snd pr)) (snd (snd pr)))
        (filter (straddle mid) (adj l)).
Proof.
  induction l as [|[x0 y0] t IH]; [reflexivity|].
  destruct t as [|[x1 y1] t']; [reflexivity|].
  change (adj ((x0, y0) :: (x1, y1) :: t')) with (((x0, y0), (x1, y1)) :: adj ((x1, y1) :: t')).
  cbn [crossings filter]. unfold straddle at 1. cbn [fst snd ltb QO].
  destruct (xorb (Qltb mid y0) (Qltb mid y1)); cbn [map fst snd]; rewrite <- IH; reflexivity.
Qed.

Lemma cross_between mid x0 y0 x1 y1 :
  xorb (Qltb mid y0) (Qltb mid y1) = true -> ~ x0 == x1 ->
  between x0 x1 (cross QO mid x0 y0 x1 y1).
Proof.
  intros S Hx. unfold cross. cbn [add sub div opp QO].
  assert (Dy : ~ y1 - y0 == 0 /\ exists t, 0 <= t <= 1 /\ t * (y1 - y0) == mid - y0).
  { destruct (Qltb mid y0) eqn:E0; destruct (Qltb mid y1) eqn:E1; try discriminate.
    - apply Qltb_true in E0. apply Qltb_false in E1. split; [lra|].
      exists ((y0 - mid) / (y0 - y1)). split; [|field; lra].
      split.
      + apply Qle_shift_div_l; lra.
      + apply Qle_shift_div_r; lra.
    - apply Qltb_false in E0. apply Qltb_true in E1. split; [lra|].
      exists ((mid - y0) / (y1 - y0)). split; [|field; lra].
      split.
      + apply Qle_shift_div_l; lra.
      + apply Qle_shift_div_r; lra. }
  destruct Dy as (Dy & t & Ht & Et).
  assert (Dx : ~ x1 - x0 == 0) by lra.
  assert (Ec : - (y0 - mid) / ((y1 - mid - (y0 - mid)) / (x1 - x0)) + x0 == x0 + t * (x1 - x0)).
  { setoid_replace (- (y0 - mid)) with (t * (y1 - y0)) by (rewrite Et; ring).
    field. split; [exact Dx|]. lra. }
  unfold between. rewrite Ec.
  destruct (Qlt_le_dec x0 x1); [left | right]; nra.
Qed.

Lemma adj_combine_fst {A B} : forall (x : list A) (y : list B) a b,
  In (a, b) (adj (combine x y)) -> In (fst a, fst b) (adj x).
Proof.
  induction x as [|x0 x IH]; intros y a b H; [destruct H|].
  destruct y as [|y0 y]; [destruct H|].
  destruct x as [|x1 x]; [destruct H|]. destruct y as [|y1 y]; [destruct H|].
  change (adj (combine (x0 :: x1 :: x) (y0 :: y1 :: y)))
    with (((x0, y0), (x1, y1)) :: adj (combine (x1 :: x) (y1 :: y))) in H.
  change (adj (x0 :: x1 :: x)) with ((x0, x1) :: adj (x1 :: x)).
  destruct H as [H|H]; [inversion H; subst; now left | right; eapply IH; exact H].
Qed.

Lemma adj_in {A} : forall (x : list A) a b, In (a, b) (adj x) -> In a x /\ In b x.
Proof.
  induction x as [|x0 x IH]; intros a b H; [destruct H|].
  destruct x as [|x1 x]; [destruct H|].
  change (adj (x0 :: x1 :: x)) with ((x0, x1) :: adj (x1 :: x)) in H.
  destruct H as [H|H].
  - inversion H; subst. split; [now left | right; now left].
  - apply IH in H as [H1 H2]. split; now right.
Qed.

(* ---- hull *)
Lemma hull_exists (x : list Q) : x <> [] ->
  exists lo hi, In lo x /\ In hi x /\ forall v, In v x -> lo <= v <= hi.
Proof.
  induction x as [|a x IH]; intros H; [congruence|].
  destruct x as [|b x].
  - exists a, a. repeat split; try now left. all: destruct H0 as [<-|[]]; lra.
  - destruct IH as (lo & hi & Hlo & Hhi & Hb); [discriminate|].
    exists (if Qlt_le_dec a lo then a else lo), (if Qlt_le_dec hi a then a else hi).
    split; [destruct (Qlt_le_dec a lo); [now left | now right]|].
    split; [destruct (Qlt_le_dec hi a); [now left | now right]|].
    intros v [<-|Hv].
    + destruct (Qlt_le_dec a lo), (Qlt_le_dec hi a); lra.
    + specialize (Hb v Hv). destruct (Qlt_le_dec a lo), (Qlt_le_dec hi a); lra.
Qed.

Lemma between_hull x a b c : In a x -> In b x -> between a b c -> in_hull x c.
Proof.
  intros Ha Hb [H|H]; [exists a, b | exists b, a]; auto.
Qed.

(* a mean of values inside [lo, hi] is inside [lo, hi] *)
Lemma qsum_bounds lo hi : forall l, (forall v, In v l -> lo <= v <= hi) ->
  inject_Z (Z.of_nat (length l)) * lo <= qsum l <= inject_Z (Z.of_nat (length l)) * hi.
Proof.
  induction l as [|a l IH]; intros H.
  - cbn. change (inject_Z 0) with 0. lra.
  - rewrite qsum_cons. cbn [length]. rewrite Nat2Z.inj_succ. unfold Z.succ. rewrite inject_Z_plus.
    change (inject_Z 1) with 1. specialize (IH (fun v Hv => H v (or_intror Hv))).
    pose proof (H a (or_introl eq_refl)). nra.
Qed.

Lemma qmean_bounds lo hi l : l <> [] -> (forall v, In v l -> lo <= v <= hi) -> lo <= qmean l <= hi.
Proof.
  intros Hl H. pose proof (qsum_bounds lo hi l H) as B. unfold qmean.
  set (n := inject_Z (Z.of_nat (length l))) in *.
  assert (Pn : 0 < n).
  { subst n. change 0 with (inject_Z 0). rewrite <- Zlt_Qlt. destruct l; [congruence|]. cbn [length]. lia. }
  split.
  - apply Qle_shift_div_l; [exact Pn|]. lra.
  - apply Qle_shift_div_r; [exact Pn|]. lra.
Qed.

(* ---- np.interp *)
Lemma interp_at_between c : forall l j v,
  inject_Z j <= c -> interp_at QO c j l = Some v ->
  exists a b, In a l /\ In b l /\ between a b v.
Proof.
  induction l as [|a l IH]; intros j v Hj H; [discriminate|].
  destruct l as [|b l].
  - cbn in H. inversion H; subst. exists v, v. repeat split; try now left. left. lra.
  - cbn [interp_at ltb eqb add sub mul div of_Z QO] in H.
    destruct (Qltb c (inject_Z (j + 1))) eqn:E.
    + apply Qltb_true in E. rewrite inject_Z_plus in E. change (inject_Z 1) with 1 in E.
      exists a, b. split; [now left|]. split; [right; now left|].
      destruct (Qeq_bool (inject_Z j) c) eqn:Ej; injection H as <-.
      * unfold between. destruct (Qlt_le_dec a b); [left | right]; lra.
      * rewrite inject_Z_plus. change (inject_Z 1) with 1.
        set (u := c - inject_Z j). assert (Hu : 0 <= u < 1) by (subst u; lra).
        assert (Ev : (b - a) / (inject_Z j + 1 - inject_Z j) * u + a == a + u * (b - a)) by (field; lra).
        unfold between. rewrite Ev. destruct (Qlt_le_dec a b); [left | right]; nra.
    + apply Qltb_false in E. destruct (IH (j + 1)%Z v E H) as (a' & b' & Ha' & Hb' & B).
      exists a', b'. split; [now right|]. split; [now right|]. exact B.
Qed.

End Exact2.

Section Main.
Local Open Scope Q_scope.

Lemma background_length x y ec ys lb :
  length x = length y -> background QO x y ec = Done (ys, lb) -> length ys = length x.
Proof.
  intros L. unfold background. destruct ec as [k|].
  - destruct (lin_bkg QO x y k) as [[m b]| | |]; cbn [obind]; try discriminate.
    intros H. inversion H; subst. unfold sub_bkg. rewrite map_length, combine_length, L. apply Nat.min_id.
  - intros H. inversion H; subst. now symmetry.
Qed.

Lemma combine_keys {A B} : forall (k : list A) (l : list B), length k = length l -> map fst (combine k l) = k.
Proof.
  induction k as [|a k IH]; intros [|b l] H; cbn in *; try reflexivity; try discriminate.
  f_equal. apply IH. lia.
Qed.

Lemma calc_stats_inv x y ec s :
  calc_stats QO x y ec = Done s ->
  exists ys lb e0 es com cen,
    length x = length y /\ background QO x y ec = Done (ys, lb) /\
    combine ys (combine x y) = e0 :: es /\ center_of_mass_x QO x ys = Done com /\
    let emin := first_min QO e0 es in
    let emax := first_max QO e0 es in
    let cs := crossings QO ((fst emax + fst emin) / 2) (combine x ys) in
    ((cs = [] /\ cen = None) \/ (cs <> [] /\ exists c, np_mean QO cs = Done c /\ cen = Some c)) /\
    s = mkStats (snd emin) (snd emax) com cen cs (fwhm_of QO cs) lb.
Proof.
  unfold calc_stats. destruct (length x =? length y)%nat eqn:L; cbn [negb]; [|discriminate].
  apply Nat.eqb_eq in L.
  destruct (background QO x y ec) as [[ys lb]| | |] eqn:B; cbn [obind]; try discriminate. cbn [fst snd].
  destruct (combine ys (combine x y)) as [|e0 es] eqn:C; [discriminate|].
  destruct (center_of_mass_x QO x ys) as [com| | |] eqn:M; cbn [obind]; try discriminate.
  cbn [add div of_Z QO]. change (inject_Z 2) with 2.
  remember (crossings QO ((fst (first_max QO e0 es) + fst (first_min QO e0 es)) / 2) (combine x ys)) as cs eqn:Ecs.
  destruct cs as [|c0 cs']; cbn [obind].
  - intros H. inversion H; subst. exists ys, lb, e0, es, com, None. cbv zeta. rewrite <- Ecs.
    repeat split; auto.
  - destruct (np_mean QO (c0 :: cs')) as [c| | |] eqn:Mc; cbn [obind]; try discriminate.
    intros H. inversion H; subst. exists ys, lb, e0, es, com, (Some c). cbv zeta. rewrite <- Ecs.
    repeat split; auto. right. split; [discriminate|]. exists c. auto.
Qed.

Theorem min_max_spec x y ec s :
  calc_stats QO x y ec = Done s ->
  exists ys lb, background QO x y ec = Done (ys, lb) /\ length ys = length x /\
    (exists pre e post, combine ys (combine x y) = pre ++ e :: post /\ st_min s = snd e /\
       (forall u, In u pre -> fst e < fst u) /\ (forall u, In u post -> fst e <= fst u)) /\
    (exists pre e post, combine ys (combine x y) = pre ++ e :: post /\ st_max s = snd e /\
       (forall u, In u pre -> fst u < fst e) /\ (forall u, In u post -> fst u <= fst e)).
Proof.
  intros H. destruct (calc_stats_inv _ _ _ _ H) as (ys & lb & e0 & es & com & cen & L & B & C & _ & _ & ->).
  exists ys, lb. split; [exact B|]. split; [eapply background_length; eauto|]. rewrite C. split.
  - destruct (first_min_spec es e0) as (pre & post & E & H1 & H2). exists pre, (first_min QO e0 es), post. auto.
  - destruct (first_max_spec es e0) as (pre & post & E & H1 & H2). exists pre, (first_max QO e0 es), post. auto.
Qed.

Lemma Forall2_map_in {A B} (R : A -> B -> Prop) (f : A -> B) (l : list A) :
  (forall a, In a l -> R a (f a)) -> Forall2 R l (map f l).
Proof.
  induction l as [|a l IH]; intros H; cbn; constructor.
  - apply H. now left.
  - apply IH. intros b Hb. apply H. now right.
Qed.

(* the extreme keys are the max / min of the subtracted data *)
Lemma extremes ys (pl : list (Q * Q)) e0 es :
  length ys = length pl -> combine ys pl = e0 :: es ->
  In (fst (first_max QO e0 es)) ys /\ In (fst (first_min QO e0 es)) ys /\
  forall v, In v ys -> fst (first_min QO e0 es) <= v <= fst (first_max QO e0 es).
Proof.
  intros L C. pose proof (combine_keys ys pl L) as K. rewrite C in K.
  destruct (first_min_spec es e0) as (pre & post & E & H1 & H2).
  destruct (first_max_spec es e0) as (pre' & post' & E' & H1' & H2').
  assert (Imin : In (first_min QO e0 es) (e0 :: es)) by (rewrite E; apply in_elt).
  assert (Imax : In (first_max QO e0 es) (e0 :: es)) by (rewrite E'; apply in_elt).
  split; [rewrite <- K; now apply in_map|]. split; [rewrite <- K; now apply in_map|].
  intros v Hv. rewrite <- K in Hv. apply in_map_iff in Hv as (u & <- & Hu). split.
  - rewrite E in Hu. apply in_app_iff in Hu as [Hu|[<-|Hu]]; [apply Qlt_le_weak; auto | lra | auto].
  - rewrite E' in Hu. apply in_app_iff in Hu as [Hu|[<-|Hu]]; [apply Qlt_le_weak; auto | lra | auto].
Qed.

Theorem crossings_thm x y ec s :
  adj_distinct x -> calc_stats QO x y ec = Done s ->
  exists ys lb vmax vmin,
    background QO x y ec = Done (ys, lb) /\ In vmax ys /\ In vmin ys /\
    (forall v, In v ys -> vmin <= v <= vmax) /\
    Forall2 (fun pr c => between (fst (fst pr)) (fst (snd pr)) c)
            (filter (straddle ((vmax + vmin) / 2)) (adj (combine x ys))) (st_crossings s).
Proof.
  intros D H. destruct (calc_stats_inv _ _ _ _ H) as (ys & lb & e0 & es & com & cen & L & B & C & _ & _ & ->).
  pose proof (background_length _ _ _ _ _ L B) as Ly.
  destruct (extremes ys (combine x y) e0 es) as (I1 & I2 & I3); [rewrite combine_length, <- L, Nat.min_id; exact Ly | exact C |].
  exists ys, lb, (fst (first_max QO e0 es)), (fst (first_min QO e0 es)).
  split; [exact B|]. split; [exact I1|]. split; [exact I2|]. split; [exact I3|].
  cbn [st_crossings]. rewrite crossings_spec. apply Forall2_map_in.
  intros [[x0 y0] [x1 y1]] Hin. apply filter_In in Hin as [Hin S]. cbn [fst snd].
  apply cross_between; [exact S|]. apply D. apply (adj_combine_fst x ys _ _ Hin).
Qed.

Lemma crossings_in_hull x ys mid c :
  adj_distinct x -> In c (crossings QO mid (combine x ys)) ->
  exists a b, In a x /\ In b x /\ between a b c.
Proof.
  intros D H. rewrite crossings_spec in H. apply in_map_iff in H as ([[x0 y0] [x1 y1]] & <- & Hin).
  apply filter_In in Hin as [Hin S]. cbn [fst snd].
  pose proof (adj_combine_fst x ys _ _ Hin) as A. cbn [fst] in A.
  destruct (adj_in x _ _ A) as [A0 A1]. exists x0, x1. repeat split; auto.
  apply cross_between; [exact S | apply D; exact A].
Qed.

Lemma last_opt_snoc {A} (l : list A) a : last_opt (l ++ [a]) = Some a.
Proof. unfold last_opt. now rewrite rev_app_distr. Qed.

Lemma fwhm_of_spec c0 mid cl : fwhm_of QO (c0 :: mid ++ [cl]) = Some (Qabs (cl - c0)).
Proof.
  unfold fwhm_of.
  replace (last_opt (c0 :: mid ++ [cl])) with (Some cl) by (symmetry; apply (last_opt_snoc (c0 :: mid) cl)).
  destruct mid; reflexivity.
Qed.

Theorem cen_fwhm_thm x y ec s :
  adj_distinct x -> calc_stats QO x y ec = Done s ->
  let cs := st_crossings s in
  (cs = [] -> st_cen s = None) /\
  (cs <> [] -> exists c, st_cen s = Some c /\ c == qmean cs /\ in_hull x c) /\
  (forall c0 mid cl, cs = c0 :: mid ++ [cl] -> st_fwhm s = Some (Qabs (cl - c0))) /\
  ((length cs < 2)%nat -> st_fwhm s = None).
Proof.
  intros D H. destruct (calc_stats_inv _ _ _ _ H) as (ys & lb & e0 & es & com & cen & L & B & C & _ & Hc & ->).
  cbn [st_crossings st_cen st_fwhm]. cbv zeta in Hc |- *.
  set (cs := crossings QO _ _) in *. split; [|split; [|split]].
  - intros E. destruct Hc as [[_ ->]|[N _]]; [reflexivity | contradiction].
  - intros N. destruct Hc as [[E _]|[_ (c & Mc & ->)]]; [contradiction|].
    exists c. split; [reflexivity|]. apply np_mean_eq in Mc. split; [exact Mc|].
    assert (Nx : x <> []) by (intros ->; destruct ys; discriminate).
    destruct (hull_exists x Nx) as (lo & hi & Hlo & Hhi & Hb).
    exists lo, hi. split; [exact Hlo|]. split; [exact Hhi|]. rewrite Mc.
    apply qmean_bounds; [exact N|]. intros v Hv.
    destruct (crossings_in_hull x ys _ v D Hv) as (a & b & Ha & Hb' & Bt).
    pose proof (Hb a Ha). pose proof (Hb b Hb'). destruct Bt; lra.
  - intros c0 mid cl E. rewrite E. apply fwhm_of_spec.
  - intros Hl. unfold fwhm_of. destruct cs as [|c0 [|c1 cs']]; cbn in Hl; try reflexivity. lia.
Qed.

Lemma wsum_eq : forall l i0,
  qsum (map (fun p => mul QO (snd p) (of_Z QO (Z.of_nat (fst p)))) (combine (seq i0 (length l)) l)) == qwsum i0 l.
Proof.
  induction l as [|a l IH]; intros i0; cbn [length seq combine map qwsum]; [reflexivity|].
  rewrite qsum_cons, IH. cbn [fst snd mul of_Z QO]. reflexivity.
Qed.

Theorem finding_a_spec x y ec :
  finding_a QO x y ec = true <->
  (2 <= length x)%nat /\ length x = length y /\
  exists ys lb, background QO x y ec = Done (ys, lb) /\ qsum ys == 0 /\ qwsum 0 ys == 0.
Proof.
  unfold finding_a. destruct (background QO x y ec) as [[ys lb]| | |] eqn:B; cbn [fst].
  2-4: split; [discriminate | intros (_ & _ & ys & lb & E & _); discriminate].
  destruct (np_sum_cases QO ys) as [norm En]. rewrite En.
  match goal with |- context [np_sum QO ?l] => destruct (np_sum_cases QO l) as [num Em]; rewrite Em end.
  apply np_sum_eq in En, Em. rewrite wsum_eq in Em. cbn [eqb zero QO].
  rewrite !andb_true_iff, Nat.leb_le, Nat.eqb_eq, !Qeqb_true. rewrite En, Em. split.
  - intros [[[H1 H2] H3] H4]. repeat split; auto. exists ys, lb. auto.
  - intros (H1 & H2 & ys' & lb' & E & H3 & H4). inversion E; subst. auto.
Qed.

Lemma last_opt_in {A} (l : list A) a : last_opt l = Some a -> In a l.
Proof.
  unfold last_opt. destruct (rev l) eqn:E; [discriminate|]. intros H. inversion H; subst.
  apply in_rev. rewrite E. now left.
Qed.

Theorem com_in_range x y ec s :
  calc_stats QO x y ec = Done s -> finding_a QO x y ec = false ->
  exists c, st_com s = ComVal c /\ in_hull x c.
Proof.
  intros H NF. destruct (calc_stats_inv _ _ _ _ H) as (ys & lb & e0 & es & com & cen & L & B & C & M & _ & ->).
  cbn [st_com]. unfold finding_a in NF. rewrite B in NF. cbn [fst] in NF.
  unfold center_of_mass_x in M.
  assert (self : forall a, In a x -> in_hull x a) by (intros a Ha; exists a, a; repeat split; auto; lra).
  destruct x as [|x0 [|x1 x']]; [discriminate | |].
  - inversion M; subst. exists x0. split; [reflexivity|]. apply self. now left.
  - destruct (np_sum QO ys) as [norm| | |]; cbn [obind] in M; try discriminate.
    match type of M with context [np_sum QO ?l] => destruct (np_sum QO l) as [num| | |] end;
      cbn [obind] in M; try discriminate.
    destruct (last_opt (x0 :: x1 :: x')) as [xl|] eqn:El; [|discriminate].
    apply last_opt_in in El. cbn [eqb ltb zero div of_Z QO] in M, NF.
    destruct (Qeq_bool norm 0) eqn:En.
    + destruct (Qeq_bool num 0) eqn:Em.
      * exfalso. rewrite <- L in NF. rewrite Nat.eqb_refl in NF. cbn in NF. discriminate.
      * destruct (Qltb 0 num); inversion M; subst; eexists; (split; [reflexivity|]); apply self; auto. now left.
    + destruct (Qltb _ (num / norm)); [inversion M; subst; eexists; split; [reflexivity | now apply self]|].
      destruct (Qltb (num / norm) 0) eqn:E0; [inversion M; subst; eexists; split; [reflexivity | apply self; now left]|].
      destruct (interp_at QO (num / norm) 0 (x0 :: x1 :: x')) as [v|] eqn:Ei; [|discriminate].
      inversion M; subst. exists v. split; [reflexivity|].
      apply Qltb_false in E0.
      destruct (interp_at_between _ _ _ _ E0 Ei) as (a & b & Ha & Hb & Bt).
      exact (between_hull _ a b v Ha Hb Bt).
Qed.

(* the background that is subtracted is the line through the means of the two edge windows *)
Theorem background_spec x y k ys lb :
  background QO x y (Some k) = Done (ys, lb) ->
  exists m b, lb = Some (m, b) /\
    let lx := qmean (firstn k x) in let ly := qmean (firstn k y) in
    let rx := qmean (skipn (length x - k) x) in let ry := qmean (skipn (length x - k) y) in
    ~ rx == lx /\ m == (ry - ly) / (rx - lx) /\ b == ly - m * lx /\
    ys = map (fun p => snd p - (m * fst p + b)) (combine x y).
Proof.
  unfold background, lin_bkg. destruct k as [|k]; [discriminate|].
  destruct (np_mean QO (firstn (S k) x)) as [lx| | |] eqn:E1; cbn [obind]; try discriminate.
  destruct (np_mean QO (firstn (S k) y)) as [ly| | |] eqn:E2; cbn [obind]; try discriminate.
  destruct (np_mean QO (skipn _ x)) as [rx| | |] eqn:E3; cbn [obind]; try discriminate.
  destruct (np_mean QO (skipn _ y)) as [ry| | |] eqn:E4; cbn [obind]; try discriminate.
  cbn [eqb sub div mul zero QO]. destruct (Qeq_bool (rx - lx) 0) eqn:E; cbn [obind]; [discriminate|].
  intros H. inversion H; subst. apply Qeqb_false in E.
  apply np_mean_eq in E1, E2, E3, E4.
  eexists _, _. split; [reflexivity|]. cbv zeta. rewrite <- E1, <- E2, <- E3, <- E4.
  split; [intros Z; apply E; rewrite Z; ring|]. split; [reflexivity|]. split; [reflexivity|]. reflexivity.
Qed.

Lemma strict_mono_adj_distinct x : strict_mono x -> adj_distinct x.
Proof.
  intros [H|H] a b Hab E; specialize (H a b Hab); lra.
Qed.

End Main.

(* ================================================================== strictly monotone x, sane edge_count:
   the edge windows have different mean x, so the statistics are always produced *)
Section NotDegenerate.
Local Open Scope Q_scope.

Definition chain_lt (x : list Q) : Prop := forall a b, In (a, b) (adj x) -> a < b.

Lemma chain_tail a x : chain_lt (a :: x) -> chain_lt x.
Proof.
  intros H u v Huv. apply H. destruct x as [|b x]; [destruct Huv|].
  change (adj (a :: b :: x)) with ((a, b) :: adj (b :: x)). now right.
Qed.

Lemma chain_all : forall x a, chain_lt (a :: x) -> forall v, In v x -> a < v.
Proof.
  induction x as [|b x IH]; intros a H v Hv; [destruct Hv|].
  assert (Hab : a < b) by (apply H; now left).
  destruct Hv as [<-|Hv]; [exact Hab|].
  pose proof (IH b (chain_tail _ _ H) v Hv). lra.
Qed.

Lemma skipn_cons_ex {A} : forall (l : list A) m, (m < length l)%nat ->
  exists e, In e l /\ skipn m l = e :: skipn (S m) l.
Proof.
  induction l as [|a l IH]; intros m H; [cbn in H; lia|].
  destruct m as [|m].
  - exists a. split; [now left | reflexivity].
  - destruct (IH m) as (e & He & E); [cbn in H; lia|]. exists e. split; [now right|]. exact E.
Qed.

Lemma window_lt : forall x, chain_lt x -> forall k, (k < length x)%nat ->
  qsum (firstn k x) <= qsum (skipn (length x - k) x) /\
  ((1 <= k)%nat -> qsum (firstn k x) < qsum (skipn (length x - k) x)).
Proof.
  induction x as [|a x IH]; intros C k Hk; [cbn in Hk; lia|].
  destruct k as [|k].
  - cbn [firstn]. rewrite Nat.sub_0_r, skipn_all. cbn. split; [lra | lia].
  - cbn [length] in *. assert (Hk' : (k < length x)%nat) by lia.
    replace (S (length x) - S k)%nat with (S (length x - S k)) by lia.
    cbn [firstn skipn]. rewrite qsum_cons.
    destruct (skipn_cons_ex x (length x - S k)) as (e & He & E); [lia|].
    rewrite E, qsum_cons. replace (S (length x - S k)) with (length x - k)%nat by lia.
    destruct (IH (chain_tail _ _ C) k Hk') as [IH1 _].
    pose proof (chain_all x a C e He). split; [|intros _]; lra.
Qed.

Lemma qsum_opp l : qsum (map Qopp l) == - qsum l.
Proof. induction l as [|a l IH]; [cbn; ring|]. cbn [map]. rewrite !qsum_cons, IH. ring. Qed.

Lemma adj_map {A B} (f : A -> B) : forall l, adj (map f l) = map (fun p => (f (fst p), f (snd p))) (adj l).
Proof.
  induction l as [|a l IH]; [reflexivity|]. destruct l as [|b l]; [reflexivity|].
  change (adj (a :: b :: l)) with ((a, b) :: adj (b :: l)).
  change (adj (map f (a :: b :: l))) with ((f a, f b) :: adj (map f (b :: l))).
  rewrite IH. reflexivity.
Qed.

Lemma windows_differ x k : strict_mono x -> (1 <= k < length x)%nat ->
  ~ qsum (skipn (length x - k) x) == qsum (firstn k x).
Proof.
  intros [M|M] [K1 K2].
  - destruct (window_lt x M k K2) as [_ H]. specialize (H K1). lra.
  - assert (C : chain_lt (map Qopp x)).
    { intros a b Hab. rewrite adj_map in Hab. apply in_map_iff in Hab as ([u v] & E & Huv).
      inversion E; subst. cbn [fst snd]. specialize (M u v Huv). lra. }
    destruct (window_lt (map Qopp x) C k) as [_ H]; [rewrite map_length; exact K2|]. specialize (H K1).
    rewrite map_length, skipn_map, firstn_map, !qsum_opp in H. lra.
Qed.

Lemma np_mean_window (l : list Q) (k : nat) m : (1 <= k)%nat -> length l = k ->
  np_mean QO l = Done m -> m * inject_Z (Z.of_nat k) == qsum l.
Proof.
  intros K L H. apply np_mean_eq in H. rewrite H. unfold qmean. rewrite L. field.
  change 0 with (inject_Z 0). rewrite inject_Z_injective. lia.
Qed.

Theorem stats_produced x y k :
  strict_mono x -> (1 <= k < length x)%nat -> length x = length y ->
  exists s, calc_stats QO x y (Some k) = Done s.
Proof.
  intros M K L.
  destruct (calc_stats_total QO x y (Some k)) as [T1 T2].
  assert (Nx : x <> []) by (intros ->; cbn in K; lia).
  specialize (T2 Nx L).
  destruct (calc_stats QO x y (Some k)) as [s| | |] eqn:E; [eauto | congruence | | congruence].
  exfalso. unfold calc_stats in E. rewrite L, Nat.eqb_refl in E. cbn [negb] in E.
  assert (B : background QO x y (Some k) = Degenerate).
  { destruct (background QO x y (Some k)) as [bk| | |] eqn:B; cbn [obind] in E; try congruence.
    destruct (combine (fst bk) (combine x y)); [discriminate|].
    destruct (center_of_mass_x QO x (fst bk)) as [cm| | |] eqn:Cm; cbn [obind] in E; try discriminate.
    - destruct (crossings QO _ _) as [|c0 cs]; cbn [obind] in E; [discriminate|].
      destruct (np_mean_cases QO (c0 :: cs)) as [mm Hm]. rewrite Hm in E. discriminate.
    - exfalso. unfold center_of_mass_x in Cm. destruct x as [|x0 [|x1 x']]; try discriminate.
      destruct (np_sum_cases QO (fst bk)) as [s1 H1]. rewrite H1 in Cm. cbn [obind] in Cm.
      match type of Cm with context [np_sum QO ?l] => destruct (np_sum_cases QO l) as [s2 H2]; rewrite H2 in Cm end.
      cbn [obind] in Cm. destruct (last_opt _); [|discriminate].
      repeat match type of Cm with context [if ?b then _ else _] => destruct b end; try discriminate.
      destruct (interp_at _ _ _ _); discriminate. }
  clear E. unfold background, lin_bkg in B. destruct k as [|k]; [lia|].
  destruct (np_mean_cases QO (firstn (S k) x)) as [lx E1].
  destruct (np_mean_cases QO (firstn (S k) y)) as [ly E2].
  destruct (np_mean_cases QO (skipn (length x - S k) x)) as [rx E3].
  destruct (np_mean_cases QO (skipn (length x - S k) y)) as [ry E4].
  rewrite E1, E2, E3, E4 in B. cbn [obind eqb sub zero QO] in B.
  destruct (Qeq_bool (rx - lx) 0) eqn:Ed; [|discriminate]. apply Qeqb_true in Ed.
  apply (np_mean_window _ (S k)) in E1; [|lia | rewrite firstn_length; lia].
  apply (np_mean_window _ (S k)) in E3; [|lia | rewrite skipn_length; lia].
  apply (windows_differ x (S k) M K). rewrite <- E1, <- E3.
  setoid_replace rx with lx by lra. reflexivity.
Qed.

End NotDegenerate.

(* ================================================================== finding C44-a *)
Section FindingA.
Local Open Scope Q_scope.

(* a flat signal with one-point edge subtraction: every subtracted y is 0, com is 0/0 *)
Lemma a_refuted :
  exists x y ec s, strict_mono x /\ length x = length y /\ finding_a QO x y ec = true /\
                   calc_stats QO x y ec = Done s /\ st_com s = ComNaN.
Proof.
  exists [0; 1; 2], [1; 1; 1], (Some 1%nat).
  destruct (calc_stats QO [0; 1; 2] [1; 1; 1] (Some 1%nat)) as [s| | |] eqn:E; try (vm_compute in E; discriminate).
  exists s. split; [|split; [reflexivity|split; [vm_compute; reflexivity|split; [reflexivity|]]]].
  - left. intros a b H. cbn in H. destruct H as [H|[H|[]]]; inversion H; subst; reflexivity.
  - vm_compute in E. inversion E; subst. reflexivity.
Qed.

End FindingA.
