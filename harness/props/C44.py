"""C44 - peak statistics describe the data they were given."""
import math

ID = "C44"
PROP_FILE = "Props/C44.v"
THEOREMS = ["C44_min_max", "C44_crossings", "C44_cen_fwhm", "C44_com_in_range", "C44_fuel_sufficient",
            "C44_stats_produced", "C44_background", "C44_finding_a_class", "C44_a_refuted"]
COQ_IMPORTS = "From Coq Require Import PrimFloat.\nFrom BV Require Import Base.OrdField Pure.PeakStats."
MODELLED = (
    "bluesky.callbacks.fitting.PeakStats._calc_stats and center_of_mass are modelled in coq/theories/Pure/PeakStats.v over a "
    "record of field operations; theorems are over Q (exact), the binary64 instance of the same text is only tested "
    "bit-exactly: float rounding of sums/interpolation is not covered by the theorems. numpy is modelled, not verified: "
    "np.sum/np.mean as 0.0 + pairwise summation (8 accumulators, blocks <= 128, recursive halving), np.argmin/argmax as "
    "first occurrence, np.interp(c, arange(n), x) for scalar c (clamp / exact hit / slope*(c-j)+x[j]), np.where(np.diff(y>mid)) "
    "as adjacent samples on different sides, np.max/np.min as the values at argmax/argmin. Inputs are finite float64 "
    "arrays of equal length >= 1 (as PeakStats.compute builds them); NaN/inf inputs, the derivative statistics "
    "(calc_derivative_and_stats) and document handling beyond x/y extraction are not modelled.")
RULE = (
    "exhaustive small scope: every y in {-1,0,1,2}^n for n=1..3 and {0,1,2}^4 (quick) / {-1,0,1,2}^n n<=5 (thorough) on increasing and "
    "decreasing integer x, with edge_count None and every 1..n-1; random: lengths 1..40 (some 100..400 to reach the >128 "
    "pairwise split), x strictly increasing or decreasing (uniform steps or random floats), y = noisy peaks / small "
    "integers with ties / flat / all-zero / negative / mixed-sign, edge_count None or 1..n-1; a fraction through the full "
    "callback (start/event/stop documents); malformed stream: edge_count 0 and >= n; non-trivial = at least one crossing "
    "and n >= 3")


def fx(x):
    return float(x).hex()


def unfx(h):
    return float.fromhex(h)


def _hex(v):
    v = float(v)
    if v != v:
        return "nan"
    if v in (float("inf"), float("-inf")):
        return "inf" if v > 0 else "-inf"
    return v.hex()


def cfl(h):
    if h == "nan":
        return "nan"
    if h == "inf":
        return "infinity"
    if h == "-inf":
        return "neg_infinity"
    return "(%s)%%float" % h


def clist(xs):
    return "[" + "; ".join(cfl(a) for a in xs) + "]"


# ------------------------------------------------------------------ cases
def _mk(x, y, ec, via="static"):
    return {"x": [fx(v) for v in x], "y": [fx(v) for v in y], "ec": ec, "via": via}


def cases(rng, tier):
    import itertools
    out = []
    nmax = 4 if tier == "quick" else 5
    for n in range(1, nmax + 1):
        alphabet = [0.0, 1.0, 2.0] if (tier == "quick" and n == 4) else [-1.0, 0.0, 1.0, 2.0]
        for ys in itertools.product(alphabet, repeat=n):
            for dec in (False, True):
                if dec and (n == 1 or tier == "quick" and n == 4):
                    continue
                x = [float(k) for k in range(n)]
                if dec:
                    x = [3.0 - v for v in x]
                for ec in [None] + list(range(1, n)):
                    out.append(_mk(x, ys, ec))
    nrand = 300 if tier == "quick" else 8000
    for it in range(nrand):
        n = rng.randint(1, 40) if it % 12 else rng.randint(100, 400)
        mode = rng.randint(0, 5)
        if rng.random() < 0.5:
            x0, dx = rng.uniform(-10, 10), rng.choice([0.25, 0.1, 1.0, rng.uniform(0.01, 2)])
            x = [x0 + k * dx for k in range(n)]
        else:
            x = sorted(set(rng.uniform(-20, 20) for _ in range(n)))
        n = len(x)
        if len(set(x)) != n or any(b <= a for a, b in zip(x, x[1:])):
            continue
        if rng.random() < 0.4:
            x = x[::-1]
        if mode == 0:
            y = [math.exp(-((k - n / 2) / (n / 6 + 1)) ** 2) * rng.uniform(1, 100) + 0.1 * rng.random() for k in range(n)]
        elif mode == 1:
            y = [float(rng.randint(-3, 3)) for _ in range(n)]
        elif mode == 2:
            y = [float(rng.randint(0, 2)) for _ in range(n)]
        elif mode == 3:
            y = [rng.uniform(-5, 5) for _ in range(n)]
        elif mode == 4:
            c = rng.choice([0.0, 0.0, 1.0, -2.5, rng.uniform(-3, 3)])
            y = [c] * n
        else:
            s, w = rng.uniform(0, n), rng.uniform(1, n / 3 + 1)
            y = [1.0 / (1.0 + math.exp(-(k - s) / w)) * 10 + rng.uniform(-0.2, 0.2) - 3 for k in range(n)]
        ec = None if (n < 2 or rng.random() < 0.45) else rng.randint(1, min(n - 1, 6))
        via = "callback" if (it % 7 == 0 and n <= 60) else "static"
        out.append(_mk(x, y, ec, via))
    # malformed / out-of-domain stream
    for n in (1, 2, 3, 5):
        x = [float(k) * 0.5 for k in range(n)]
        y = [float((k * 7) % 5) for k in range(n)]
        for ec in (0, n, n + 2):
            out.append(_mk(x, y, ec))
    return out


# ------------------------------------------------------------------ implementation side
def impl(case):
    import warnings
    import numpy as np
    from bluesky.callbacks.fitting import PeakStats
    x = [unfx(h) for h in case["x"]]
    y = [unfx(h) for h in case["y"]]
    with warnings.catch_warnings():
        warnings.simplefilter("ignore")
        if case["via"] == "callback":
            ps = PeakStats("mot", "det", edge_count=case["ec"])
            ps("start", {"uid": "r", "time": 0.0})
            ps("descriptor", {"uid": "d", "run_start": "r", "data_keys": {}, "time": 0.0})
            for i, (a, b) in enumerate(zip(x, y)):
                ps("event", {"uid": "e%d" % i, "descriptor": "d", "seq_num": i + 1, "time": 0.0,
                             "data": {"mot": a, "det": b, "other": 1.0}, "timestamps": {}})
            ps("stop", {"uid": "s", "run_start": "r", "time": 0.0, "exit_status": "success"})
            s = ps
        else:
            fields = {k: None for k in ["min", "max", "com", "cen", "crossings", "fwhm", "lin_bkg"]}
            s = PeakStats._calc_stats(np.array(x, dtype=float), np.array(y, dtype=float), fields, edge_count=case["ec"])
    obs = {"min": [_hex(v) for v in s.min], "max": [_hex(v) for v in s.max], "com": _hex(s.com),
           "crossings": [] if s.crossings is None else [_hex(v) for v in s.crossings],
           "cen": None if s.cen is None else _hex(s.cen),
           "fwhm": None if s.fwhm is None else _hex(s.fwhm),
           "lin_bkg": None if s.lin_bkg is None else [_hex(s.lin_bkg["m"]), _hex(s.lin_bkg["b"])]}
    return obs


def _degenerate(obs):
    return obs["lin_bkg"] is not None and obs["lin_bkg"][0] in ("nan", "inf", "-inf")


def _ysub(case, obs):
    import numpy as np
    x = np.array([unfx(h) for h in case["x"]], dtype=float)
    y = np.array([unfx(h) for h in case["y"]], dtype=float)
    if obs["lin_bkg"] is not None:
        m, b = (np.float64(unfx(h)) if h not in ("nan", "inf", "-inf") else np.float64(h) for h in obs["lin_bkg"])
        y = y - (m * x + b)
    return x, y


def finding(case, obs):
    """mirror of PeakStats.finding_a: n >= 2 and sum(y) == 0 and sum(i*y) == 0 on the subtracted data"""
    import numpy as np
    if _degenerate(obs):
        return None
    x, ys = _ysub(case, obs)
    if len(x) >= 2 and np.sum(ys) == 0 and np.sum(ys * np.arange(len(ys)).astype(float)) == 0:
        return "a"
    return None


# ------------------------------------------------------------------ model side
def coq_term(case, obs):
    ec = "None" if case["ec"] is None else "(Some %d%%nat)" % case["ec"]
    if _degenerate(obs):
        exp = "Degenerate"
    else:
        com = "ComNaN" if obs["com"] == "nan" else "(ComVal %s)" % cfl(obs["com"])
        opt = lambda h: "None" if h is None else "(Some %s)" % cfl(h)
        lb = "None" if obs["lin_bkg"] is None else "(Some (%s, %s))" % (cfl(obs["lin_bkg"][0]), cfl(obs["lin_bkg"][1]))
        exp = "(Done (mkStats (%s, %s) (%s, %s) %s %s %s %s %s))" % (
            cfl(obs["min"][0]), cfl(obs["min"][1]), cfl(obs["max"][0]), cfl(obs["max"][1]), com,
            opt(obs["cen"]), clist(obs["crossings"]), opt(obs["fwhm"]), lb)
    inclass = "true" if finding(case, obs) == "a" else "false"
    return "check_peak %s %s %s %s %s" % (clist(case["x"]), clist(case["y"]), ec, exp, inclass)


# ------------------------------------------------------------------ the property, on the observation
def oracle(case, obs):
    import numpy as np
    n = len(case["x"])
    ec = case["ec"]
    if ec is not None and not (1 <= ec < n):
        return None                       # edge windows empty or identical: outside the property's domain
    x, ys = _ysub(case, obs)
    y0 = np.array([unfx(h) for h in case["y"]], dtype=float)
    if not (np.all(np.diff(x) > 0) or np.all(np.diff(x) < 0)) and n > 1:
        return None
    lo, hi = float(min(x)), float(max(x))
    tol = 1e-9 * (hi - lo + abs(lo) + abs(hi) + 1e-300)
    for name, best in (("max", np.max(ys)), ("min", np.min(ys))):
        px, py = (unfx(h) for h in obs[name])
        idx = [i for i in range(n) if x[i] == px]
        if len(idx) != 1 or ys[idx[0]] != best or y0[idx[0]] != py:
            return "%s = (%r, %r) is not the sample with the %s y" % (name, px, py, "largest" if name == "max" else "smallest")
    if obs["com"] == "nan":
        return "com is NaN (sum of y is zero)"
    com = unfx(obs["com"]) if obs["com"] not in ("inf", "-inf") else float(obs["com"])
    if not (lo - tol <= com <= hi + tol):
        return "com = %r outside the x range [%r, %r]" % (com, lo, hi)
    mid = (np.max(ys) + np.min(ys)) / 2
    pairs = [i for i in range(n - 1) if (ys[i] > mid) != (ys[i + 1] > mid)]
    cr = [unfx(h) if h not in ("nan", "inf", "-inf") else float(h) for h in obs["crossings"]]
    if len(cr) != len(pairs):
        return "%d crossings reported, %d adjacent sample pairs straddle the half-maximum" % (len(cr), len(pairs))
    for c, i in zip(cr, pairs):
        a, b = sorted((float(x[i]), float(x[i + 1])))
        if not (a - tol <= c <= b + tol):
            return "crossing %r not between the straddling samples x[%d]=%r, x[%d]=%r" % (c, i, float(x[i]), i + 1, float(x[i + 1]))
    if cr:
        if obs["cen"] is None:
            return "crossings but no cen"
        cen = unfx(obs["cen"]) if obs["cen"] not in ("nan", "inf", "-inf") else float(obs["cen"])
        if not (lo - tol <= cen <= hi + tol):
            return "cen = %r outside the x range [%r, %r]" % (cen, lo, hi)
    elif obs["cen"] is not None:
        return "cen without crossings"
    if len(cr) >= 2:
        if obs["fwhm"] is None or unfx(obs["fwhm"]) != abs(cr[-1] - cr[0]):
            return "fwhm %r is not the distance between the outermost crossings" % (obs["fwhm"],)
    elif obs["fwhm"] is not None:
        return "fwhm reported with fewer than two crossings"
    return None


def nontrivial(case, obs):
    return len(case["x"]) >= 3 and len(obs["crossings"]) >= 1


def describe(case):
    n = len(case["x"])
    size = "n=1" if n == 1 else "n<=5" if n <= 5 else "n<=40" if n <= 40 else "n>=100"
    dec = "dec" if n > 1 and unfx(case["x"][1]) < unfx(case["x"][0]) else "inc"
    ec = case["ec"]
    e = "none" if ec is None else ("bad" if not (1 <= ec < n) else "ec")
    return "%s %s edge=%s %s" % (size, dec, e, case["via"])
