(* C03, layer A: association lists, the counter snapshot / rewind computations of the bundler in closed form,
   and the basic facts about the reference semantics Engine/PointSpec.v (composition, monotone descriptors,
   well-formed counters). *)
From Coq Require Import List ZArith Bool Arith Lia.
From BV Require Import Engine.RE Engine.PointSpec.
Import ListNotations.
Local Open Scope nat_scope.

Ltac inv H := inversion H; subst; clear H.

(* ------------------------------------------------------------------ prefixes *)
Definition prefix {A} (l1 l2 : list A) : Prop := exists r, l2 = l1 ++ r.

Lemma prefix_refl {A} (l : list A) : prefix l l.
Proof. exists []. rewrite app_nil_r. reflexivity. Qed.
Lemma prefix_app {A} (l r : list A) : prefix l (l ++ r).
Proof. exists r. reflexivity. Qed.
Lemma prefix_trans {A} (a b c : list A) : prefix a b -> prefix b c -> prefix a c.
Proof. intros [r1 ->] [r2 ->]. exists (r1 ++ r2). rewrite app_assoc. reflexivity. Qed.
Lemma prefix_app_l {A} (a b c : list A) : prefix (a ++ b) c -> prefix a c.
Proof. intros [r ->]. exists (b ++ r). rewrite app_assoc. reflexivity. Qed.
Lemma prefix_length {A} (a b : list A) : prefix a b -> length a <= length b.
Proof. intros [r ->]. rewrite app_length. lia. Qed.
Lemma prefix_app_same {A} (a x : list A) : prefix (a ++ x) a -> x = [].
Proof.
  intros H. apply prefix_length in H. rewrite app_length in H. destruct x; [reflexivity | cbn in H; lia].
Qed.
(* two prefixes of one list that agree up to a point carry the same next element *)
Lemma prefix_next {A} (a : list A) x y r l : prefix (a ++ [x]) l -> prefix (a ++ y :: r) l -> x = y.
Proof.
  intros [r1 H1] [r2 H2]. subst l. rewrite <- !app_assoc in H2. apply app_inv_head in H2. cbn in H2. inv H2. reflexivity.
Qed.
Lemma prefix_cancel {A} (a b c : list A) : prefix (a ++ b) (a ++ c) -> prefix b c.
Proof. intros [r H]. rewrite <- app_assoc in H. apply app_inv_head in H. exists r. exact H. Qed.

Lemma NoDup_app_inv {A} (a b : list A) : NoDup (a ++ b) -> NoDup a /\ NoDup b /\ (forall x, In x a -> ~ In x b).
Proof.
  induction a as [|y a IH]; cbn; intros H.
  - repeat split; [constructor | exact H | tauto].
  - inv H. destruct (IH H3) as (I1 & I2 & I3). repeat split.
    + constructor; [intros Hy; apply H2; apply in_or_app; left; exact Hy | exact I1].
    + exact I2.
    + intros x [->|Hx]; [intros Hb; apply H2; apply in_or_app; right; exact Hb | apply I3; exact Hx].
Qed.

(* ------------------------------------------------------------------ association lists *)
Definition keys {A} (l : list (nat * A)) : list nat := map fst l.
Definition ones {A} (l : list (nat * A)) : list (nat * nat) := map (fun kx => (fst kx, 1)) l.

Lemma keys_app {A} (a b : list (nat * A)) : keys (a ++ b) = keys a ++ keys b.
Proof. apply map_app. Qed.
Lemma keys_ones {A} (l : list (nat * A)) : keys (ones l) = keys l.
Proof. unfold keys, ones. rewrite map_map. reflexivity. Qed.
Lemma ones_app {A} (a b : list (nat * A)) : ones (a ++ b) = ones a ++ ones b.
Proof. apply map_app. Qed.

Lemma alookup_none_keys {A} k (l : list (nat * A)) : alookup k l = None <-> ~ In k (keys l).
Proof.
  induction l as [|[k0 v0] l IH]; cbn; [tauto|]. destruct (Nat.eqb k k0) eqn:E.
  - apply Nat.eqb_eq in E. subst. split; [discriminate | intros H; exfalso; apply H; left; reflexivity].
  - apply Nat.eqb_neq in E. rewrite IH. split; [intros H [H1|H1]; [congruence | tauto] | tauto].
Qed.
Lemma alookup_some_keys {A} k (l : list (nat * A)) v : alookup k l = Some v -> In k (keys l).
Proof.
  intros H. destruct (in_dec Nat.eq_dec k (keys l)) as [Hi|Hi]; [exact Hi|].
  apply alookup_none_keys in Hi. congruence.
Qed.
Lemma alookup_in_keys {A} k (l : list (nat * A)) : In k (keys l) -> exists v, alookup k l = Some v.
Proof.
  intros H. destruct (alookup k l) eqn:E; [eauto|]. apply alookup_none_keys in E. contradiction.
Qed.
Lemma alookup_app {A} k (a b : list (nat * A)) :
  alookup k (a ++ b) = match alookup k a with Some v => Some v | None => alookup k b end.
Proof. induction a as [|[k0 v0] a IH]; cbn; [reflexivity|]. destruct (Nat.eqb k k0); [reflexivity | exact IH]. Qed.
Lemma amem_keys {A} k (l : list (nat * A)) : amem k l = true <-> In k (keys l).
Proof.
  unfold amem. destruct (alookup k l) eqn:E.
  - split; [intros _; eapply alookup_some_keys; eassumption | reflexivity].
  - split; [discriminate | intros H; apply alookup_none_keys in E; contradiction].
Qed.
Lemma amem_false_keys {A} k (l : list (nat * A)) : amem k l = false <-> ~ In k (keys l).
Proof. rewrite <- amem_keys. destruct (amem k l); split; congruence. Qed.

Lemma aset_notin {A} k (v : A) l : ~ In k (keys l) -> aset k v l = l ++ [(k, v)].
Proof.
  induction l as [|[k0 v0] l IH]; cbn; intros H; [reflexivity|].
  destruct (Nat.eqb k k0) eqn:E; [apply Nat.eqb_eq in E; subst; exfalso; apply H; left; reflexivity|].
  rewrite IH; [reflexivity | tauto].
Qed.
Lemma aset_app_in {A} k (v : A) a b : In k (keys a) -> aset k v (a ++ b) = aset k v a ++ b.
Proof.
  induction a as [|[k0 v0] a IH]; cbn; intros H; [contradiction|].
  destruct (Nat.eqb k k0) eqn:E; [reflexivity|]. apply Nat.eqb_neq in E. cbn. rewrite IH; [reflexivity|].
  destruct H as [H|H]; [congruence | exact H].
Qed.
Lemma aset_app_notin {A} k (v : A) a b : ~ In k (keys a) -> aset k v (a ++ b) = a ++ aset k v b.
Proof.
  induction a as [|[k0 v0] a IH]; cbn; intros H; [reflexivity|].
  destruct (Nat.eqb k k0) eqn:E; [apply Nat.eqb_eq in E; subst; exfalso; apply H; left; reflexivity|].
  rewrite IH; [reflexivity | tauto].
Qed.
Lemma keys_aset_in {A} k (v : A) l : In k (keys l) -> keys (aset k v l) = keys l.
Proof.
  unfold keys. induction l as [|[k0 v0] l IH]; cbn; intros H; [contradiction|].
  destruct (Nat.eqb k k0) eqn:E; cbn.
  - apply Nat.eqb_eq in E. subst. reflexivity.
  - apply Nat.eqb_neq in E. rewrite IH; [reflexivity|]. destruct H as [H|H]; [congruence | exact H].
Qed.
Lemma aset_cons_other {A} k (v : A) k0 v0 l : k <> k0 -> aset k v ((k0, v0) :: l) = (k0, v0) :: aset k v l.
Proof. intros H. cbn. apply Nat.eqb_neq in H. rewrite H. reflexivity. Qed.

(* ------------------------------------------------------------------ snapshot: fold of aset *)
Definition fold_set (sq acc : list (nat * nat)) : list (nat * nat) :=
  fold_left (fun acc kv => aset (fst kv) (snd kv) acc) sq acc.

Lemma fold_set_app a b acc : fold_set (a ++ b) acc = fold_set b (fold_set a acc).
Proof. unfold fold_set. apply fold_left_app. Qed.

Lemma fold_set_cons_other sq : forall h acc, ~ In (fst h) (keys sq) -> fold_set sq (h :: acc) = h :: fold_set sq acc.
Proof.
  unfold fold_set. induction sq as [|[k v] sq IH]; intros [k0 v0] acc H; cbn in *; [reflexivity|].
  destruct (Nat.eqb k k0) eqn:E; [apply Nat.eqb_eq in E; subst; exfalso; apply H; left; reflexivity|].
  apply IH. cbn. tauto.
Qed.

(* a snapshot over counters with the same keys replaces every value *)
Lemma fold_set_same sq : forall acc, NoDup (keys sq) -> keys acc = keys sq -> fold_set sq acc = sq.
Proof.
  induction sq as [|[k v] sq IH]; intros acc Hn Hk; cbn in *.
  - destruct acc; [reflexivity | discriminate].
  - destruct acc as [|[k0 v0] acc]; [discriminate|]. cbn in Hk. inv Hk. inv Hn.
    unfold fold_set. cbn. rewrite Nat.eqb_refl.
    change (fold_set sq ((k, v) :: acc) = (k, v) :: sq). rewrite fold_set_cons_other by (cbn; assumption).
    rewrite IH; [reflexivity | assumption | assumption].
Qed.
(* ... and appends the counters of new streams *)
Lemma fold_set_new sq : forall acc, NoDup (keys sq) -> (forall k, In k (keys sq) -> ~ In k (keys acc)) ->
  fold_set sq acc = acc ++ sq.
Proof.
  induction sq as [|[k v] sq IH]; intros acc Hn Hd; cbn in *; [rewrite app_nil_r; reflexivity|].
  inv Hn. unfold fold_set. cbn. rewrite aset_notin by (apply Hd; left; reflexivity).
  change (fold_set sq (acc ++ [(k, v)]) = acc ++ (k, v) :: sq). rewrite IH.
  - rewrite <- app_assoc. reflexivity.
  - assumption.
  - intros k' Hk'. rewrite keys_app, in_app_iff. cbn. intros [H|[H|[]]].
    + eapply Hd; [right; exact Hk' | exact H].
    + subst. contradiction.
Qed.
(* the snapshot taken at a checkpoint, in closed form: the counters themselves *)
Lemma fold_set_prefix sq acc : NoDup (keys sq) -> prefix (keys acc) (keys sq) -> fold_set sq acc = sq.
Proof.
  intros Hn [r Hr].
  assert (Hs : exists a b, sq = a ++ b /\ keys a = keys acc /\ keys b = r).
  { exists (firstn (length acc) sq), (skipn (length acc) sq). split; [symmetry; apply firstn_skipn|].
    unfold keys in *. rewrite <- firstn_map, <- skipn_map, Hr.
    replace (length acc) with (length (map fst acc)) by apply map_length.
    rewrite firstn_app, Nat.sub_diag, firstn_all, skipn_app, Nat.sub_diag, skipn_all. cbn.
    rewrite app_nil_r. split; reflexivity. }
  destruct Hs as (a & b & -> & Ha & Hb). rewrite keys_app in Hn.
  destruct (NoDup_app_inv _ _ Hn) as (N1 & N2 & N3).
  rewrite fold_set_app, (fold_set_same a acc); [| exact N1 | symmetry; exact Ha].
  apply fold_set_new; [exact N2|].
  intros k Hk Hk'. exact (N3 k Hk' Hk).
Qed.

(* ------------------------------------------------------------------ rewind: the fill loop *)
Definition fill (acc : list (nat * nat) * list (nat * nat)) (d : nat * list nat) :=
  if amem (fst d) (fst acc) then acc else (aset (fst d) 1 (fst acc), aset (fst d) 1 (snd acc)).

Lemma fill_present ds : forall s, (forall k, In k (keys ds) -> In k (keys s)) -> fold_left fill ds (s, s) = (s, s).
Proof.
  induction ds as [|[k o] ds IH]; intros s H; cbn; [reflexivity|].
  unfold fill at 2. cbn [fst snd]. assert (Hm : amem k s = true) by (apply amem_keys, H; left; reflexivity).
  rewrite Hm. apply IH. intros k' Hk'. apply H. right. exact Hk'.
Qed.
Lemma fill_absent ds : forall s, NoDup (keys ds) -> (forall k, In k (keys ds) -> ~ In k (keys s)) ->
  fold_left fill ds (s, s) = (s ++ ones ds, s ++ ones ds).
Proof.
  induction ds as [|[k o] ds IH]; intros s Hn H; cbn; [rewrite app_nil_r; reflexivity|].
  cbn in Hn. inv Hn. unfold fill at 2. cbn [fst snd].
  assert (Hm : amem k s = false) by (apply amem_false_keys, H; left; reflexivity).
  rewrite Hm, aset_notin by (apply H; left; reflexivity).
  rewrite IH; [rewrite <- app_assoc; reflexivity | assumption |].
  intros k' Hk'. rewrite keys_app, in_app_iff. cbn. intros [Hx|[Hx|[]]].
  - eapply H; [right; exact Hk' | exact Hx].
  - subst. contradiction.
Qed.
(* closed form of the counters after a rewind *)
Lemma fill_closed (d0 y z : list (nat * list nat)) (s0 : list (nat * nat)) :
  NoDup (keys (d0 ++ y ++ z)) -> keys s0 = keys d0 ->
  fold_left fill (d0 ++ y ++ z) (s0 ++ ones y, s0 ++ ones y) = (s0 ++ ones (y ++ z), s0 ++ ones (y ++ z)).
Proof.
  intros Hn Hk. rewrite app_assoc, fold_left_app, fill_present.
  - rewrite app_assoc, keys_app in Hn. destruct (NoDup_app_inv _ _ Hn) as (N1 & N2 & N3).
    rewrite fill_absent.
    + rewrite ones_app, app_assoc. reflexivity.
    + exact N2.
    + intros k Hk1 Hk2. rewrite keys_app, keys_ones, Hk, <- keys_app in Hk2. exact (N3 k Hk2 Hk1).
  - intros k Hk1. rewrite keys_app, keys_ones, Hk, <- keys_app. exact Hk1.
Qed.

(* ------------------------------------------------------------------ frozenset equality is reflexive *)
Lemma lnat_eqb_refl l : lnat_eqb l l = true.
Proof. induction l as [|x l IH]; cbn; [reflexivity | rewrite Nat.eqb_refl; exact IH]. Qed.
Lemma list_eq_sorted_refl l : list_eq_sorted l l = true.
Proof. apply lnat_eqb_refl. Qed.

(* ------------------------------------------------------------------ the reference semantics *)
Section Abs.
Variable rk : nat.
Variable rdm : msg -> Z.
Notation astep := (astep rk rdm).
Notation arun := (arun rk rdm).

Lemma arun_app l1 : forall a l2 a2 d,
  arun a (l1 ++ l2) = Some (a2, d) <->
  exists a1 d1 d2, arun a l1 = Some (a1, d1) /\ arun a1 l2 = Some (a2, d2) /\ d = d1 ++ d2.
Proof.
  induction l1 as [|m l1 IH]; intros a l2 a2 d; cbn.
  - split.
    + intros H. exists a, [], d. auto.
    + intros (a1 & d1 & d2 & H1 & H2 & ->). inv H1. exact H2.
  - destruct (astep a m) as [[a' d']|]; [|split; [discriminate | intros (? & ? & ? & H & _); discriminate]].
    split.
    + destruct (arun a' (l1 ++ l2)) as [[a3 d3]|] eqn:E; [|discriminate]. intros H; inv H.
      apply IH in E. destruct E as (a1 & d1 & d2 & E1 & E2 & ->). rewrite E1.
      exists a1, (d' ++ d1), d2. rewrite app_assoc. auto.
    + intros (a1 & d1 & d2 & H1 & H2 & ->). destruct (arun a' l1) as [[a3 d3]|] eqn:E; [|discriminate]. inv H1.
      assert (E' : arun a' (l1 ++ l2) = Some (a2, d3 ++ d2)) by (apply IH; exists a1, d3, d2; auto).
      rewrite E', app_assoc. reflexivity.
Qed.

Lemma arun_one a m : arun a [m] = match astep a m with Some (a1, d1) => Some (a1, d1 ++ []) | None => None end.
Proof. cbn. destruct (astep a m) as [[a1 d1]|]; reflexivity. Qed.

(* well-formed counters *)
Definition wfr (r : ab) : Prop :=
  NoDup (keys (ab_seq r)) /\ keys (ab_seq r) = keys (ab_descs r) /\ ~ In INTR (keys (ab_descs r)) /\
  match ab_bund r with Some (n, _, _) => n <> INTR | None => True end.
Definition wfa (a : abs) : Prop := match a_run a with Some r => wfr r | None => True end.

Lemma NoDup_snoc (l : list nat) x : NoDup l -> ~ In x l -> NoDup (l ++ [x]).
Proof.
  induction l as [|y l IH]; intros Hn Hx; cbn; [constructor; [tauto | constructor]|].
  inv Hn. constructor; [rewrite in_app_iff; cbn; intros [H|[H|[]]]; [tauto | subst; apply Hx; left; reflexivity]|].
  apply IH; [assumption | intros H; apply Hx; right; exact H].
Qed.

Ltac astep_cases H :=
  unfold PointSpec.astep in H;
  repeat match type of H with
         | context [match ?x with _ => _ end] => destruct x eqn:?; try discriminate H
         end; inv H.

Ltac rw_run :=
  repeat match goal with
         | E : a_run ?a = _, H : context [a_run ?a] |- _ => rewrite E in H
         | E : ab_bund ?a = _, H : context [ab_bund ?a] |- _ => rewrite E in H
         | E : a_run ?a = _ |- context [a_run ?a] => rewrite E
         | E : ab_bund ?a = _ |- context [ab_bund ?a] => rewrite E
         end.

Lemma astep_wfa a m a' d : wfa a -> astep a m = Some (a', d) -> wfa a'.
Proof.
  intros Hw H. unfold wfa in *. astep_cases H; rw_run; cbn [a_run with_run stale freshen]; rw_run; try exact I; try exact Hw.
  all: unfold wfr in *; cbn [ab_seq ab_descs ab_bund ab_uid ab_set_bund] in *; rw_run.
  all: try (destruct Hw as (W1 & W2 & W3 & W4)).
  all: try (repeat split; first [assumption | constructor | tauto]; fail).
  - (* create *)
    repeat split; try assumption. match goal with H : Nat.eqb _ INTR = false |- _ => apply Nat.eqb_neq in H; exact H end.
  - (* save, descriptor present *)
    match goal with H : alookup ?n (ab_descs _) = Some _ |- _ => apply alookup_some_keys in H; rename H into Hin end.
    rewrite <- W2 in Hin. rewrite keys_aset_in by exact Hin. auto.
  - match goal with H : alookup ?n (ab_descs _) = Some _ |- _ => apply alookup_some_keys in H; rename H into Hin end.
    rewrite <- W2 in Hin. rewrite keys_aset_in by exact Hin. auto.
  - (* save, new stream *)
    match goal with H : alookup ?n (ab_descs _) = None |- _ => apply alookup_none_keys in H; rename H into Hni end.
    rewrite !keys_app. unfold keys at 2 4 6. cbn [map fst]. repeat split.
    + apply NoDup_snoc; [exact W1 | rewrite W2; exact Hni].
    + rewrite W2. reflexivity.
    + rewrite in_app_iff. cbn. intros [H|[H|[]]]; [tauto | congruence].
Qed.

Lemma arun_wfa l : forall a a' d, wfa a -> arun a l = Some (a', d) -> wfa a'.
Proof.
  induction l as [|m l IH]; intros a a' d Hw H; cbn in H; [inv H; exact Hw|].
  destruct (astep a m) as [[a1 d1]|] eqn:E; [|discriminate].
  destruct (arun a1 l) as [[a2 d2]|] eqn:E2; [|discriminate]. inv H.
  eapply IH; [eapply astep_wfa; eassumption | exact E2].
Qed.

Lemma wfa_init : wfa a_init.
Proof. exact I. Qed.

(* how the run of the abstract state moves *)
Definition run_rel (a a' : abs) : Prop :=
  match a_run a, a_run a' with
  | None, None => True
  | Some r, Some r' => ab_uid r' = ab_uid r /\ prefix (ab_descs r) (ab_descs r')
  | _, _ => False
  end.
Lemma run_rel_refl a : run_rel a a.
Proof. unfold run_rel. destruct (a_run a); [split; [reflexivity | apply prefix_refl] | exact I]. Qed.
Lemma run_rel_trans a b c : run_rel a b -> run_rel b c -> run_rel a c.
Proof.
  unfold run_rel. destruct (a_run a), (a_run b), (a_run c); try tauto.
  intros [H1 H2] [H3 H4]. split; [congruence | eapply prefix_trans; eassumption].
Qed.

Lemma astep_kind a m a' d : astep a m = Some (a', d) -> is_head (mcmd m) = true \/ bodym m = true.
Proof. intros H. unfold bodym. astep_cases H; cbn; auto. Qed.
Lemma head_not_body c : is_head c = true -> is_body c = false.
Proof. destruct c; cbn; congruence. Qed.
Lemma astep_mrun a m a' d : astep a m = Some (a', d) -> mrun m = rk.
Proof.
  unfold PointSpec.astep. destruct (Nat.eqb (mrun m) rk) eqn:E; cbn [negb]; [intros _; apply Nat.eqb_eq; exact E | discriminate].
Qed.

Lemma astep_body a m a' d : bodym m = true -> astep a m = Some (a', d) ->
  a_next a' = a_next a /\ a_fresh a' = false /\ doc_rundocs d = [] /\ run_rel a a'.
Proof.
  intros Hb H. unfold bodym in Hb. unfold run_rel. astep_cases H; cbn in Hb; try discriminate Hb; rw_run;
    cbn [a_run a_next a_fresh with_run stale freshen ab_set_bund ab_uid ab_descs doc_rundocs flat_map app];
    rw_run; repeat split; try apply prefix_refl; try apply prefix_app;
    try (destruct (a_run a); [split; [reflexivity | apply prefix_refl] | exact I]).
Qed.

Lemma arun_body l : forall a a' d, forallb bodym l = true -> arun a l = Some (a', d) ->
  a_next a' = a_next a /\ (l <> [] -> a_fresh a' = false) /\ doc_rundocs d = [] /\ run_rel a a'.
Proof.
  induction l as [|m l IH]; intros a a' d Hb H; cbn in H.
  - inv H. repeat split; [congruence | apply run_rel_refl].
  - cbn in Hb. apply andb_true_iff in Hb. destruct Hb as [Hb1 Hb2].
    destruct (astep a m) as [[a1 d1]|] eqn:E; [|discriminate].
    destruct (arun a1 l) as [[a2 d2]|] eqn:E2; [|discriminate]. inv H.
    destruct (astep_body _ _ _ _ Hb1 E) as (A1 & A2 & A3 & A4).
    destruct (IH _ _ _ Hb2 E2) as (B1 & B2 & B3 & B4).
    repeat split.
    + congruence.
    + intros _. destruct l as [|m' l]; [cbn in E2; inv E2; exact A2 | apply B2; discriminate].
    + unfold doc_rundocs in *. rewrite flat_map_app, A3, B3. reflexivity.
    + eapply run_rel_trans; eassumption.
Qed.

(* the body messages at the front of a list *)
Lemma bodypre_app_body c l : forallb bodym c = true -> bodypre (c ++ l) = c ++ bodypre l.
Proof.
  induction c as [|m c IH]; cbn; intros H; [reflexivity|]. apply andb_true_iff in H. destruct H as [H1 H2].
  rewrite H1, IH by exact H2. reflexivity.
Qed.
Lemma bodypre_all l : forallb bodym (bodypre l) = true.
Proof. induction l as [|m l IH]; cbn; [reflexivity|]. destruct (bodym m) eqn:E; cbn; [rewrite E; exact IH | reflexivity]. Qed.
Lemma bodypre_split l : exists r, l = bodypre l ++ r.
Proof.
  induction l as [|m l [r IH]]; cbn; [exists []; reflexivity|].
  destruct (bodym m); [exists r; cbn; congruence | exists (m :: l); reflexivity].
Qed.
End Abs.

Lemma doc_events_app a b : doc_events (a ++ b) = doc_events a ++ doc_events b.
Proof. apply flat_map_app. Qed.
Lemma doc_rundocs_app a b : doc_rundocs (a ++ b) = doc_rundocs a ++ doc_rundocs b.
Proof. apply flat_map_app. Qed.
Lemma final_events_app a b : final_events (a ++ b) = final_events a ++ final_events b.
Proof. apply flat_map_app. Qed.
Lemma rundocs_app a b : rundocs (a ++ b) = rundocs a ++ rundocs b.
Proof. apply flat_map_app. Qed.
Lemma no_raise_app a b : no_raise (a ++ b) = no_raise a && no_raise b.
Proof. apply forallb_app. Qed.
