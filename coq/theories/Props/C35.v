(* C35 - document normalization never alters its inputs and loses nothing; the conditional
   backup hands every document to the backups exactly once, in order.
   Statements only; every proof is in Proofs/Normalizer.v. *)
From Coq Require Import String List ZArith Bool.
From BV Require Import Base.Prelude Pure.Normalizer Pure.NormalizerSpec Proofs.Normalizer Proofs.NormalizerB Proofs.NormalizerRun.
From BVgen Require TiledTables.
Import ListNotations.
Open Scope string_scope.
Open Scope list_scope.

(* A concrete legacy run used by the non-vacuity examples: an hdf5 Resource whose
   resource_kwargs carry "path", a Datum with a "frame", an Event referring to it. *)
Definition witness_docs : list (string * val) :=
  [("start", VDict [("uid", VStr "r1"); ("time", VFlt "0x1.8000000000000p+0")]);
   ("descriptor", VDict [("uid", VStr "d1"); ("run_start", VStr "r1"); ("time", VFlt "0x1.4000000000000p+1");
      ("name", VStr "primary");
      ("data_keys", VDict [("x", VDict [("dtype", VStr "number"); ("shape", VList []); ("source", VStr "PV:x")]);
                           ("img", VDict [("dtype", VStr "array"); ("shape", VList [VInt 2; VInt 3]);
                                          ("source", VStr "PV:img"); ("external", VStr "FILESTORE:")])]);
      ("object_keys", VDict [("det", VList [VStr "x"; VStr "img"])]); ("configuration", VDict []); ("hints", VDict [])]);
   ("resource", VDict [("uid", VStr "res1"); ("spec", VStr "AD_HDF5_SWMR_STREAM"); ("root", VStr "/data");
      ("resource_path", VStr "a.h5"); ("resource_kwargs", VDict [("path", VStr "/entry/data")]); ("run_start", VStr "r1")]);
   ("datum", VDict [("datum_id", VStr "res1/0"); ("resource", VStr "res1"); ("datum_kwargs", VDict [("frame", VInt 0)])]);
   ("event", VDict [("uid", VStr "e1"); ("descriptor", VStr "d1"); ("time", VFlt "0x1.c000000000000p+1"); ("seq_num", VInt 1);
      ("data", VDict [("x", VInt 7); ("img", VStr "res1/0")]);
      ("timestamps", VDict [("x", VFlt "0x1.c000000000000p+1"); ("img", VFlt "0x1.c000000000000p+1")]);
      ("filled", VDict [("img", VBool false)])]);
   ("stop", VDict [("uid", VStr "s1"); ("run_start", VStr "r1"); ("time", VFlt "0x1.2000000000000p+2");
      ("exit_status", VStr "success")])].

(* ---------------------------------------------------------------- (a) inputs are never modified *)

(* For EVERY store (any sharing, any shape), every list of (name, value) documents of any length and
   every set of emission indices at which the subscriber raises: when RunNormalizer (after the repair
   C35-a: [Deep]) has processed the whole list - handlers raising on the way included - the store is
   exactly the store before the run.  Nothing the caller can reach has changed. *)
Theorem C35_a_inputs_never_modified :
  forall (s0 : store) (fe : list nat) (docs : list (string * val)) m errs,
    run_from Deep 0 docs (init_mst s0 fe) [] = (m, errs) -> st m = s0.
Proof. exact inputs_never_modified. Qed.
Print Assumptions C35_a_inputs_never_modified.

(* not vacuous: the witness run converts a frame-carrying Datum of an hdf5 Resource (the two places
   where the code before the repair wrote through shared references), without any error, and the
   caller's documents read back unchanged *)
Example C35_a_nonvacuous :
  let r := run Deep [] witness_docs in
  r_errs r = [] /\ List.length (filter (fun e => String.eqb (fst e) "stream_datum") (r_out r)) = 1
  /\ r_after r = map (fun d => Some (snd d)) witness_docs.
Proof. vm_compute. repeat split. Qed.

(* the model does distinguish the two copy functions: the code BEFORE the repair (copy.copy in
   resource/stream_resource/datum, [Shallow]) alters the caller's Resource and Datum documents *)
Example C35_a_before_repair_refuted :
  exists docs, r_after (run Shallow [] docs) <> map (fun d => Some (snd d)) docs.
Proof. exists witness_docs. vm_compute. discriminate. Qed.

(* the same, in the form the correspondence observes: documents given as trees are placed in a fresh
   store, the stream is processed, and every document reads back exactly as it was given *)
Theorem C35_a_inputs_read_back_unchanged :
  forall (fe : list nat) (docs : list (string * val)),
    Forall (fun d => noref (snd d) = true) docs ->
    r_after (run Deep fe docs) = map (fun d => Some (snd d)) docs.
Proof. exact inputs_read_back_unchanged. Qed.
Print Assumptions C35_a_inputs_read_back_unchanged.

(* ---------------------------------------------------------------- (b) nothing is lost *)

(* Every state the normalizer reaches in any run satisfies the invariant [inv] (cached Datum
   documents are private dictionaries) that the step theorems below assume. *)
Theorem C35_b_reachable_states : forall docs i m errs m' errs',
  inv (ns m) -> run_from Deep i docs m errs = (m', errs') -> inv (ns m').
Proof. intros docs i m errs m' errs' I E. exact (proj2 (run_from_keeps docs i m errs m' errs' I E)). Qed.
Print Assumptions C35_b_reachable_states.

(* Internal values.  For every Event (any content) and every state: the Event that goes out carries,
   for each received (key, value) whose (underscored, if reserved) key is a known internal key and is
   not marked unfilled, exactly that value; it carries nothing that was not received; uid, descriptor,
   seq_num, time are passed on unchanged.  Side conditions: the Event does not already use the
   names "_time"/"_seq_num" (the descriptor handler rejects such a descriptor with ValueError). *)
Theorem C35_b_event_internal_values_kept : forall i e d data fl ev ext du sq,
  event_split i e d = inl (ev, ext, du, sq) ->
  dget "data" d = Some (VDict data) -> dget "filled" d = Some (VDict fl) ->
  dget "_time" data = None -> dget "_seq_num" data = None ->
  dget "_time" fl = None -> dget "_seq_num" fl = None ->
  exists evdata,
    dget "data" ev = Some (VDict evdata) /\
    (forall k v, dget k data = Some v -> mem_str (ren k) i = true ->
                 (forall x, dget k fl = Some x -> truthy x = true) ->
                 dget (ren k) evdata = Some v) /\
    (forall k' v, dget k' evdata = Some v -> exists k, ren k = k' /\ dget k data = Some v) /\
    (forall k, String.eqb k "data" = false -> String.eqb k "timestamps" = false -> String.eqb k "filled" = false ->
               dget k ev = dget k d) /\
    dget "filled" ev = None.
Proof. exact event_split_spec. Qed.
Print Assumptions C35_b_event_internal_values_kept.

(* One Event out per Event in, and every external reference accounted for exactly once:
   after the handler, (StreamDatums emitted for this Event) + (references cached for the stop)
   has grown by exactly the number of external references of the Event; nothing but
   StreamResource/StreamDatum documents follows the Event document. *)
Theorem C35_b_event_handler : forall d x x',
  inv (ns x) ->
  h_event_tree (VDict d) x = (x', inl tt) ->
  exists ev ext du sq snap rest,
    event_split (int_keys (ns x)) (ext_keys (ns x)) d = inl (ev, ext, du, sq) /\
    readback (fuel_of (st x)) (st x) (VDict ev) = Some snap /\
    out x' = out x ++ ("event", snap) :: rest /\
    Forall sres_or_sdat rest /\
    nsd rest + List.length (ext_refs (ns x')) = List.length (ext_refs (ns x)) + List.length ext /\
    inv (ns x').
Proof. exact h_event_tree_spec. Qed.
Print Assumptions C35_b_event_handler.

(* One external reference, Datum already there: exactly one StreamDatum, uid = the datum id,
   seq_nums = indices + 1, indices = [seq_num - 1, seq_num) unless the Datum carries a frame;
   Datum not there: exactly this reference is cached. *)
Theorem C35_b_external_reference : forall d du sq k id x x',
  inv (ns x) ->
  ext_item d du sq (k, id) x = (x', inl tt) ->
  (exists ddk did i0 i1 l snap,
      vget id (datum_cache (ns x)) = Some (VDict ddk) /\ dget "datum_id" ddk = Some did /\
      out x' = out x ++ l ++ [("stream_datum", snap)] /\
      (l = [] \/ exists s, l = [("stream_resource", s)]) /\
      sdat_seen snap did i0 i1 /\
      (no_frame ddk -> exists q, sq = VInt q /\ i0 = (q - 1)%Z /\ i1 = q) /\
      ext_refs (ns x') = ext_refs (ns x))
  \/ (out x' = out x /\ ext_refs (ns x') = ext_refs (ns x) ++ [(id, k, du, sq)]).
Proof. exact ext_item_spec. Qed.
Print Assumptions C35_b_external_reference.

(* The Event arrived first: at stop the cached reference gives the same StreamDatum (same
   formula, from the recorded seq_num) - for Datums without a frame the ranges are the Event's
   whichever arrived first. *)
Theorem C35_b_cached_reference_at_stop : forall id k du sq x x',
  inv (ns x) ->
  stop_item (id, k, du, sq) x = (x', inl tt) ->
  exists ddk did i0 i1 l snap,
      vget id (datum_cache (ns x)) = Some (VDict ddk) /\ dget "datum_id" ddk = Some did /\
      out x' = out x ++ l ++ [("stream_datum", snap)] /\
      (l = [] \/ exists s, l = [("stream_resource", s)]) /\
      sdat_seen snap did i0 i1 /\
      (no_frame ddk -> exists q, sq = VInt q /\ i0 = (q - 1)%Z /\ i1 = q) /\
      ext_refs (ns x') = ext_refs (ns x).
Proof. exact stop_item_spec. Qed.
Print Assumptions C35_b_cached_reference_at_stop.

(* The stop handler succeeds only if every cached reference has produced exactly one StreamDatum
   (a Datum that never arrived makes it raise RuntimeError instead of dropping the reference). *)
Theorem C35_b_stop_handler : forall doc x x',
  inv (ns x) ->
  h_stop doc x = (x', inl tt) ->
  exists rest snap,
    out x' = out x ++ rest ++ [("stop", snap)] /\ Forall sres_or_sdat rest /\
    nsd rest = List.length (ext_refs (ns x)).
Proof. exact h_stop_spec. Qed.
Print Assumptions C35_b_stop_handler.

(* The statement over a whole run, as ONE theorem.  [b_holds_b docs] (Pure/NormalizerSpec.v) says of the run
   of RunNormalizer over the stream [docs]:
     1. one Event out per Event in, in order (same uids) - together with
        C35_b_event_internal_values_kept: every internal (key, value) is in exactly one emitted Event;
     2. the StreamDatums made from Datums are, as a multiset of uids, exactly the datum ids referred to
        by (Event, unfilled external key) pairs: each exactly once;
     3. each has exactly the ranges [spec_ranges docs]: seq_nums = indices + 1, indices = [seq_num-1, seq_num)
        without a frame, the frame counters advanced in Event order otherwise - a function of the Events
        and of the Datum contents only, not of whether the Datum or the Event arrived first
        (C35_b_ranges_ignore_arrival_order below).
   It holds for EVERY stream of documents given as trees, of any length, in which no handler raised and which
   is outside finding class C35-b, provided the stream is well formed ([wf_b], decidable, evaluated on the
   generated cases):  single documents (no event_page / datum_page: the page handlers are by definition
   the single-document handlers iterated over the unpacked rows), the stop document last, descriptor uids
   distinct and received before their Events, Event data keys declared by their descriptor, no key both
   internal and external, data keys not named time / seq_num / _time / _seq_num (the renaming of those is
   covered by the step theorem C35_b_event_internal_values_kept), datum ids distinct, referenced ids distinct
   and different from the uids of StreamDatum documents passing through, uids hashable.
   Proof: induction over the stream with an invariant on cached Datums, cached references, frame
   counters, key sets and emitted documents (Proofs/NormalizerRun.v). *)
Theorem C35_b_full : forall docs,
  wf_b docs = true -> Forall (fun d => noref (snd d) = true) docs ->
  r_errs (run Deep [] docs) = [] -> finding_C35_b docs = false -> b_holds_b docs = true.
Proof. exact b_full. Qed.
Print Assumptions C35_b_full.

(* "whichever of Datum / Event arrives first": the required ranges (and references) of the stream in which
   every Datum arrives before the first Event are the required ranges of the stream itself *)
Theorem C35_b_ranges_ignore_arrival_order : forall docs,
  spec_ranges (datums_first docs) = spec_ranges docs /\ expected_refs (datums_first docs) = expected_refs docs.
Proof. intros docs. split; [apply spec_ranges_datums_first | apply expected_refs_datums_first]. Qed.
Print Assumptions C35_b_ranges_ignore_arrival_order.

(* Finding C35-b: a frame-carrying Datum that arrives after the Event referring to it, while the
   Datum of a later Event was converted in time, gets index/seq_num ranges that depend on the
   arrival order - and no longer match the Event. *)
Definition witness_b : list (string * val) :=
  [("start", VDict [("uid", VStr "r1"); ("time", VFlt "0x1.8000000000000p+0")]);
   ("descriptor", VDict [("uid", VStr "d1"); ("run_start", VStr "r1"); ("time", VFlt "0x1.4000000000000p+1");
      ("name", VStr "primary");
      ("data_keys", VDict [("img", VDict [("dtype", VStr "array"); ("shape", VList [VInt 2; VInt 3]);
                                          ("source", VStr "PV:img"); ("external", VStr "FILESTORE:")])]);
      ("object_keys", VDict [("det", VList [VStr "img"])]); ("configuration", VDict []); ("hints", VDict [])]);
   ("resource", VDict [("uid", VStr "res1"); ("spec", VStr "AD_TIFF"); ("root", VStr "/data");
      ("resource_path", VStr "a"); ("resource_kwargs", VDict []); ("run_start", VStr "r1")]);
   ("event", VDict [("uid", VStr "e1"); ("descriptor", VStr "d1"); ("time", VFlt "0x1.c000000000000p+1"); ("seq_num", VInt 1);
      ("data", VDict [("img", VStr "dat0")]); ("timestamps", VDict [("img", VFlt "0x1.c000000000000p+1")]);
      ("filled", VDict [("img", VBool false)])]);
   ("datum", VDict [("datum_id", VStr "dat1"); ("resource", VStr "res1"); ("datum_kwargs", VDict [("frame", VInt 1)])]);
   ("event", VDict [("uid", VStr "e2"); ("descriptor", VStr "d1"); ("time", VFlt "0x1.c000000000000p+1"); ("seq_num", VInt 2);
      ("data", VDict [("img", VStr "dat1")]); ("timestamps", VDict [("img", VFlt "0x1.c000000000000p+1")]);
      ("filled", VDict [("img", VBool false)])]);
   ("datum", VDict [("datum_id", VStr "dat0"); ("resource", VStr "res1"); ("datum_kwargs", VDict [("frame", VInt 0)])]);
   ("stop", VDict [("uid", VStr "s1"); ("run_start", VStr "r1"); ("time", VFlt "0x1.2000000000000p+2");
      ("exit_status", VStr "success")])].

Example C35_b_refuted :
  exists docs, finding_C35_b docs = true /\ Forall (fun d => noref (snd d) = true) docs /\
    r_errs (run Deep [] docs) = [] /\ b_holds_b docs <> true /\
    (* concretely: the Datum of the Event with seq_num 1 is given seq_nums [3, 4) *)
    sdat_ranges (VStr "dat0") (r_out (run Deep [] docs)) = Some ((2, 3), (3, 4))%Z /\
    sdat_ranges (VStr "dat0") (r_out (run Deep [] (datums_first docs))) = Some ((0, 1), (1, 2))%Z.
Proof.
  exists witness_b. split; [vm_compute; reflexivity|]. split; [repeat constructor|].
  split; [vm_compute; reflexivity|]. split; [vm_compute; discriminate|]. split; vm_compute; reflexivity.
Qed.

(* outside the class the full statement is not vacuous: the C35-a witness run satisfies it *)
Example C35_b_nonvacuous :
  wf_b witness_docs = true /\ finding_C35_b witness_docs = false /\ r_errs (run Deep [] witness_docs) = [] /\
  b_holds_b witness_docs = true /\ spec_ranges witness_docs = [(VStr "res1/0", (0, 1))]%Z
  /\ inv (ns (fst (run_from Deep 0 [] (init_mst [] []) []))).
Proof. vm_compute. repeat split. Qed.

(* an Event waiting for its (frame-less) Datum is inside the theorem: the witness of C35-b without the frames *)
Example C35_b_late_datum_nonvacuous :
  let docs := map (fun nd => (fst nd, match snd nd with
                                      | VDict [("datum_id", i); ("resource", r); ("datum_kwargs", _)] =>
                                          VDict [("datum_id", i); ("resource", r); ("datum_kwargs", VDict [])]
                                      | v => v end)) witness_b in
  wf_b docs = true /\ finding_C35_b docs = false /\ r_errs (run Deep [] docs) = [] /\ b_holds_b docs = true /\
  spec_ranges docs = [(VStr "dat0", (0, 1)); (VStr "dat1", (1, 2))]%Z.
Proof. vm_compute. repeat split. Qed.

(* ---------------------------------------------------------------- (c) conditional backup *)

(* For every run of any length, every behaviour of the primary ([raises]: on which documents it
   raises), every number of backups: a backup is never called while the primary has not failed; once
   the primary has failed for the first time, on document f, every backup has received exactly the
   documents of the run, each once, in order - provided the bounded buffer (deque(maxlen), one
   million by default) had room for the f+1 documents received up to the failure. *)
Theorem C35_c_backup_exactly_once_in_order :
  forall (D : Type) (maxlen : N) (nb b : nat) (docs : list D) (raises : list bool), b < nb ->
    let log := snd (cb_run D maxlen nb (cb0 D) docs raises) in
    match first_failure (List.length docs) raises with
    | None => received_by D b log = []
    | Some f => (N.of_nat (S f) <= maxlen)%N -> received_by D b log = docs
    end.
Proof. exact backup_exactly_once_in_order. Qed.
Print Assumptions C35_c_backup_exactly_once_in_order.

(* What "every document of the run" needs from the code: the buffer bound must cover the run.
   [TiledTables.cb_default_maxlen] is the default `maxlen` of _ConditionalBackup.__init__ - the value
   TiledWriter uses, it passes none - re-read from the source on every run (harness/tables.py).
   With the default bound, every run of at most that many documents is handed over completely,
   wherever the primary fails first. *)
Theorem C35_c_default_buffer_covers_the_run :
  forall (D : Type) (nb b : nat) (docs : list D) (raises : list bool), b < nb ->
    (N.of_nat (List.length docs) <= TiledTables.cb_default_maxlen)%N ->
    let log := snd (cb_run D TiledTables.cb_default_maxlen nb (cb0 D) docs raises) in
    match first_failure (List.length docs) raises with
    | None => received_by D b log = []
    | Some _ => received_by D b log = docs
    end.
Proof. intros D nb b docs raises. exact (backup_whole_run D TiledTables.cb_default_maxlen nb b docs raises). Qed.
Print Assumptions C35_c_default_buffer_covers_the_run.

(* The bound the code has today must cover the runs this check explores (25 000 documents, i.e. more
   than two batches of TiledTables.batch_size rows - the primary typically fails when a batch is
   flushed or at stop); this stops building when the default is lowered below that. *)
Example C35_c_default_covers_explored_runs :
  (25000 <= TiledTables.cb_default_maxlen)%N /\ (2 * TiledTables.batch_size < 25000)%Z.
Proof. split; vm_compute; [discriminate | reflexivity]. Qed.

Example C35_c_nonvacuous :
  first_failure 4 [false; false; true; false] = Some 2 /\ (N.of_nat 3 <= 1000000)%N /\
  received_by nat 1 (snd (cb_run nat 1000000 2 (cb0 nat) [10; 11; 12; 13] [false; false; true; false])) = [10; 11; 12; 13].
Proof. vm_compute. repeat split; discriminate. Qed.

(* the bound is needed: with maxlen = 2 the first document is lost *)
Example C35_c_maxlen_needed :
  received_by nat 0 (snd (cb_run nat 2 1 (cb0 nat) [10; 11; 12; 13] [false; false; true; false])) = [11; 12; 13].
Proof. vm_compute. reflexivity. Qed.
