(* C23: ancestry / root_ancestor / separate_devices on a well-founded parent forest (Gen/Paired.v).
   separate_devices applied to root ancestors is first-occurrence de-duplication. *)
From BV Require Import Base.Prelude Gen.Coalg Gen.Paired.

Section ForestProofs.
  Variable parent : dev -> option dev.
  (* parents have smaller numbers: no cycles *)
  Hypothesis wf : forall d p, parent d = Some p -> p < d.

  Definition is_root (d : dev) : Prop := parent d = None.

  Lemma ancestry_root : forall fuel r, is_root r -> ancestry parent (S fuel) r = Some [r].
  Proof. intros fuel r H. cbn. now rewrite H. Qed.

  Lemma ancestry_total :
    forall fuel d, d < fuel ->
      exists l r, ancestry parent fuel d = Some l /\ last_opt l = Some r /\ is_root r /\ r <= d.
  Proof.
    induction fuel as [|f IH]; intros d Hd; [lia|].
    cbn. destruct (parent d) as [p|] eqn:E.
    - pose proof (wf d p E) as Hp.
      destruct (IH p ltac:(lia)) as (l & r & Hl & Hr & Hroot & Hle).
      rewrite Hl. exists (d :: l), r. repeat split; try assumption; try lia.
      destruct l as [|x l']; [discriminate Hr|]. exact Hr.
    - exists [d], d. repeat split; auto.
  Qed.

  Lemma root_ancestor_total :
    forall fuel d, d < fuel -> exists r, root_ancestor parent fuel d = Some r /\ is_root r /\ r <= d.
  Proof.
    intros fuel d Hd. destruct (ancestry_total fuel d Hd) as (l & r & Hl & Hr & Hroot & Hle).
    exists r. unfold root_ancestor. rewrite Hl. auto.
  Qed.

  Lemma mem_dev_cons : forall d x l, mem_dev d (x :: l) = Nat.eqb d x || mem_dev d l.
  Proof. reflexivity. Qed.

  Lemma mem_dev_In : forall d l, mem_dev d l = true <-> In d l.
  Proof.
    intros d l. unfold mem_dev. rewrite existsb_exists. split.
    - intros (x & Hx & E). apply Nat.eqb_eq in E. now subst.
    - intros H. exists d. split; [assumption|apply Nat.eqb_refl].
  Qed.

  Lemma mem_dev_app : forall d l1 l2, mem_dev d (l1 ++ l2) = mem_dev d l1 || mem_dev d l2.
  Proof. intros. unfold mem_dev. apply existsb_app. Qed.

  (* the inner loop on roots: skip a root already listed, append a new one; nothing is ever removed *)
  Lemma sep_inner_roots :
    forall fuel det snap result,
      is_root det -> Forall is_root snap ->
      sep_inner parent (S fuel) det snap result = Some (if mem_dev det snap then result else result ++ [det]).
  Proof.
    intros fuel det snap. induction snap as [|ex rest IH]; intros result Hd Hs; [reflexivity|].
    inversion Hs as [|? ? Hex Hrest]; subst.
    cbn [sep_inner]. rewrite (ancestry_root fuel det Hd), (ancestry_root fuel ex Hex).
    unfold mem_dev. cbn [existsb]. rewrite !orb_false_r.
    rewrite (Nat.eqb_sym ex det). destruct (Nat.eqb det ex) eqn:E; [reflexivity|].
    cbn [orb]. now apply IH.
  Qed.

  Lemma dedup_ext :
    forall l s1 s2, (forall x, mem_dev x s1 = mem_dev x s2) -> dedup l s1 = dedup l s2.
  Proof.
    induction l as [|x r IH]; intros s1 s2 H; [reflexivity|].
    cbn [dedup]. change (existsb (Nat.eqb x) s1) with (mem_dev x s1). change (existsb (Nat.eqb x) s2) with (mem_dev x s2).
    rewrite (H x). destruct (mem_dev x s2); [now apply IH|].
    f_equal. apply IH. intros y. rewrite !mem_dev_cons. now rewrite H.
  Qed.

  Lemma sep_outer_roots :
    forall fuel devices result,
      Forall is_root devices -> Forall is_root result ->
      sep_outer parent (S fuel) devices result = Some (result ++ dedup devices result).
  Proof.
    intros fuel devices. induction devices as [|det r IH]; intros result Hd Hr.
    - cbn. now rewrite app_nil_r.
    - inversion Hd as [|? ? Hdet Hrest]; subst.
      cbn [sep_outer]. rewrite (sep_inner_roots fuel det result result Hdet Hr).
      cbn [dedup]. change (existsb (Nat.eqb det) result) with (mem_dev det result).
      destruct (mem_dev det result) eqn:E.
      + now apply IH.
      + rewrite IH; [|assumption|].
        * rewrite <- app_assoc. cbn [app]. do 2 f_equal. f_equal. apply dedup_ext.
          intros x. rewrite mem_dev_app, mem_dev_cons. cbn. rewrite orb_false_r. apply orb_comm.
        * apply Forall_app. split; [assumption|]. now constructor.
  Qed.

  Lemma map_opt_roots :
    forall fuel devices, (forall d, In d devices -> d < fuel) ->
      exists rs, map_opt (root_ancestor parent fuel) devices = Some rs /\ Forall is_root rs /\
                 length rs = length devices /\
                 (forall r, In r rs <-> exists d, In d devices /\ root_ancestor parent fuel d = Some r).
  Proof.
    intros fuel devices. induction devices as [|d r IH]; intros H.
    - exists []. repeat split; auto. intros []. intros (d & [] & _).
    - destruct (root_ancestor_total fuel d (H d (or_introl eq_refl))) as (rt & Hrt & Hroot & _).
      destruct (IH (fun x Hx => H x (or_intror Hx))) as (rs & Hrs & Hall & Hlen & Hin).
      exists (rt :: rs). cbn [map_opt]. rewrite Hrt, Hrs. repeat split.
      + now constructor.
      + cbn. now rewrite Hlen.
      + intros [<-|Hr].
        * exists d. split; [now left|assumption].
        * apply Hin in Hr as (d' & Hd' & E). exists d'. split; [now right|assumption].
      + intros (d' & [<-|Hd'] & E).
        * left. congruence.
        * right. apply Hin. eauto.
  Qed.

  Lemma dedup_spec :
    forall l seen,
      NoDup (dedup l seen) /\
      (forall x, In x (dedup l seen) <-> In x l /\ mem_dev x seen = false).
  Proof.
    induction l as [|a r IH]; intros seen.
    - split; [constructor|]. intros x. cbn. tauto.
    - cbn [dedup]. change (existsb (Nat.eqb a) seen) with (mem_dev a seen).
      destruct (mem_dev a seen) eqn:E.
      + destruct (IH seen) as [ND HI]. split; [assumption|].
        intros x. rewrite HI. cbn [In]. split; [tauto|].
        intros [[<-|H] Hm]; [congruence|tauto].
      + destruct (IH (a :: seen)) as [ND HI]. split.
        * constructor; [|assumption]. rewrite HI. rewrite mem_dev_cons, Nat.eqb_refl. cbn. intros [_ F]. discriminate.
        * intros x. cbn [In]. rewrite HI, mem_dev_cons. split.
          -- intros [<-|[H Hm]]; [tauto|]. apply orb_false_iff in Hm as [_ Hm]. tauto.
          -- intros [[<-|H] Hm]; [tauto|].
             destruct (Nat.eqb x a) eqn:Ex; [apply Nat.eqb_eq in Ex; subst; tauto|]. right. now rewrite Hm.
  Qed.

  (* stage_wrapper's device list: the distinct root ancestors of the given devices, in first-occurrence order *)
  Theorem stage_roots_spec :
    forall fuel devices, (forall d, In d devices -> d < S fuel) ->
      exists rs roots,
        map_opt (root_ancestor parent (S fuel)) devices = Some rs /\
        stage_roots parent (S fuel) devices = Some roots /\
        roots = dedup rs [] /\
        NoDup roots /\
        Forall is_root roots /\
        (forall r, In r roots <-> exists d, In d devices /\ root_ancestor parent (S fuel) d = Some r).
  Proof.
    intros fuel devices H.
    destruct (map_opt_roots (S fuel) devices H) as (rs & Hrs & Hall & _ & Hin).
    exists rs, (dedup rs []). unfold stage_roots, separate_devices. rewrite Hrs.
    rewrite (sep_outer_roots fuel rs [] Hall (Forall_nil _)). cbn [app].
    destruct (dedup_spec rs []) as [ND HI].
    repeat split; try assumption.
    - apply Forall_forall. intros x Hx. apply HI in Hx as [Hx _]. revert x Hx. now apply Forall_forall.
    - intros Hr. apply HI in Hr as [Hr _]. now apply Hin.
    - intros Hr. apply HI. split; [now apply Hin|reflexivity].
  Qed.
End ForestProofs.
