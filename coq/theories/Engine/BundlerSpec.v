(* Statement vocabulary for the theorems about Engine/Bundler.v (definitions only, no proofs). *)
From BV Require Import Base.Prelude Engine.Bundler.
From Coq Require Import ZArith List Bool.
Import ListNotations.

(* s is the bundler state after some history of ops (any length, any ops) and tr the documents emitted so far *)
Definition reachable (E : env) (s : bstate) (tr : list doc) : Prop :=
  exists strict ri h, s = final E (init strict ri) h /\ tr = trace E (init strict ri) h.

Definition is_event (d : doc) : bool := match d with DEvent _ _ _ _ _ => true | _ => false end.
Definition no_event (l : list doc) : Prop := forallb (fun d => negb (is_event d)) l = true.

Definition describe_keys (E : env) (o : obj) : list key := dkeys (dv_describe (E o)).
Fixpoint pairwise_disjoint (l : list (list key)) : bool :=
  match l with
  | [] => true
  | x :: l' => forallb (fun y => disjointb x y) l' && pairwise_disjoint l'
  end.

(* the event's data keys are keys of the descriptor and, "STREAM:" keys aside, exactly its keys *)
Definition keys_match (d : descr) (data : dict val) : Prop :=
  forallb (fun k => dmem (de_keys d) k) (dkeys data) = true /\
  set_eqb (keys_no_stream (de_keys d)) (data_keys_no_stream (de_keys d) data) = true.

(* state equal up to the describe / configuration caches and the per-op output buffers *)
Definition with_caches (c s : bstate) : bstate :=
  set_b_desc_cache (b_desc_cache c) (set_b_dcoll_cache (b_dcoll_cache c)
    (set_b_cfgdesc_cache (b_cfgdesc_cache c) (set_b_cfgval_cache (b_cfgval_cache c)
      (set_b_ledger (b_ledger c) (set_b_out (b_out c) s))))).

(* the bundle under construction is consistent with what the devices describe *)
Definition cache_ok (E : env) (s : bstate) : Prop :=
  forall o dk, dget (b_desc_cache s) o = Some dk -> dk = dv_describe (E o).
Definition bundle_inv (E : env) (s : bstate) : Prop :=
  cache_ok E s /\
  length (b_objs_read s) = length (b_read_cache s) /\
  (forall o, In o (b_objs_read s) -> dmem (b_desc_cache s) o = true) /\
  pairwise_disjoint (map (describe_keys E) (b_objs_read s)) = true.

(* everything but the describe / configuration caches and the output buffers *)
Definition nocache (s : bstate) : bstate :=
  set_b_desc_cache [] (set_b_dcoll_cache [] (set_b_cfgdesc_cache [] (set_b_cfgval_cache []
    (set_b_ledger [] (set_b_out [] s))))).

Definition create_name (kw : option name) (args : list name) : option name :=
  match kw, args with
  | Some n, _ => Some n
  | None, [n] => Some n
  | None, _ => None
  end.

Definition bundle_op (o : op) : bool := match o with OCreate _ _ | ORead _ _ _ => true | _ => false end.

(* every registered descriptor carries its stream's name and has been emitted (tr = documents of earlier ops) *)
Definition descr_inv (tr : list doc) (s : bstate) : Prop :=
  forall nm d, dget (b_descriptors s) nm = Some d -> de_name d = nm /\ In (DDescr d) (tr ++ b_out s).

(* ------------------------------------------------------------------ C45 vocabulary *)
Definition is_asset_doc (d : doc) : bool :=
  match d with
  | DStreamRes _ _ _ | DStreamDatum _ _ _ _ _ _ _ | DResource _ _ | DDatum _ _ => true
  | _ => false
  end.
(* (indices start, stop, seq_nums start, stop, descriptor) of the stream datums among some documents *)
Definition datum_ranges (docs : list doc) : list (Z * Z * Z * Z * uid) :=
  flat_map (fun d => match d with
                     | DStreamDatum _ _ de ia ib sa sb => [(ia, ib, sa, sb, de)]
                     | _ => []
                     end) docs.
Definition widths (docs : list doc) : list Z :=
  map (fun x => match x with (ia, ib, _, _, _) => (ib - ia)%Z end) (datum_ranges docs).
(* the check of _pack_seq_nums_into_stream_datum along one collect: a width is compared with the previous one
   unless that was 0 *)
Fixpoint chain_ok (prev : Z) (ws : list Z) : bool :=
  match ws with
  | [] => true
  | w :: r => (Z.eqb prev 0 || Z.eqb prev w) && chain_ok w r
  end.

(* what the devices of a collect message are asked *)
Definition asked (E : env) (objs : list (obj * Z * list asset)) (idx : option Z) : list devcall :=
  flat_map (fun x => let o := fst (fst x) in
                     if dv_wsa (E o) then [CCollectAssets o idx]
                     else if dv_wea (E o) then [CCollectAssets o None] else []) objs.
Definition collect_objs (objs : list (obj * Z * list asset)) : list obj := map (fun x => fst (fst x)) objs.
Definition collect_indices (objs : list (obj * Z * list asset)) : list Z := map (fun x => snd (fst x)) objs.

(* ------------------------------------------------------------------ C16 vocabulary *)
From BV Require Import Engine.BundlerObs.

(* the last descriptor of stream nm among some documents *)
Fixpoint latest_descr (l : list doc) (nm : name) : option descr :=
  match l with
  | [] => None
  | x :: l' =>
      match latest_descr l' nm with
      | Some d => Some d
      | None => match x with
                | DDescr d => if Nat.eqb (de_name d) nm then Some d else None
                | _ => None
                end
      end
  end.

(* what a device reports as configuration: read_configuration of a Configurable, nothing otherwise *)
Definition reported_cfg (E : env) (s : bstate) (o : obj) : option Z :=
  if dv_configurable (E o) then Some (dev_cfg s o) else None.

(* the engine's own stream name "interruptions" used as a user stream name *)
Definition uses_name0 (o : op) : bool :=
  match o with
  | OCreate kw args => option_beq Nat.eqb kw (Some interruptions_name) || nmem interruptions_name args
  | OMonitor _ nm _ => Nat.eqb nm interruptions_name
  | ODeclareStream _ nm _ => option_beq Nat.eqb nm (Some interruptions_name)
  | _ => false
  end.

Definition no_name0 (h : list op) : Prop := forallb (fun o => negb (uses_name0 o)) h = true.

(* C16, trace form: every event is preceded by a descriptor with the uid it references; that descriptor is the
   engine's own "interruptions" descriptor or the latest descriptor emitted for its stream at that point *)
Definition events_follow_descriptors (tr : list doc) : Prop :=
  forall pre u de seq data filled post,
    tr = pre ++ DEvent u de seq data filled :: post ->
    exists d, In (DDescr d) pre /\ de_uid d = de /\
              (de_name d = interruptions_name \/ latest_descr pre (de_name d) = Some d).
Fixpoint events_follow_descriptors_b (pre rest : list doc) : bool :=
  match rest with
  | [] => true
  | x :: rest' =>
      (match x with
       | DEvent _ de _ _ _ =>
           existsb (fun y => match y with
                             | DDescr d => uid_eqb (de_uid d) de &&
                                           (Nat.eqb (de_name d) interruptions_name ||
                                            option_beq descr_beq (latest_descr pre (de_name d)) (Some d))
                             | _ => false
                             end) pre
       | _ => true
       end) && events_follow_descriptors_b (pre ++ [x]) rest'
  end.
