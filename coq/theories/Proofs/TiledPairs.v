(* "One array per (stream name, data_key) pair": the last conjunct of C46_full.
   A second induction over the document list, with an invariant that records where every entry of
   _desc_nodes / _stream_resource_cache / _sres_nodes / _consolidators comes from. *)
From Coq Require Import String Permutation.
From BV Require Import Base.Prelude Pure.TiledBatch Proofs.TiledBatch.

(* ------------------------------------------------------------------ more frame facts: srcache, desc_nodes *)

Lemma write_internal_src st rows node : s_srcache (write_internal st rows node) = s_srcache st.
Proof. unfold write_internal. destruct (smem node (s_tables st)); reflexivity. Qed.

Lemma h_event_src bs st e st' r : h_event bs st e = (st', r) ->
  s_srcache st' = s_srcache st /\ s_desc_nodes st' = s_desc_nodes st.
Proof.
  unfold h_event. destruct (lookup (ev_desc e) (s_desc_nodes st)) as [node|]; [|intros [= <- <-]; auto].
  destruct (Z.of_nat _ >=? bs)%Z; intros [= <- <-]; cbn; [|auto].
  split; [apply write_internal_src | apply write_internal_fields].
Qed.

Lemma h_events_src bs es : forall st st' r, h_events bs st es = (st', r) ->
  s_srcache st' = s_srcache st /\ s_desc_nodes st' = s_desc_nodes st.
Proof.
  induction es as [|e es IH]; cbn; intros st st' r H; [inversion H; auto|].
  destruct (h_event bs st e) as [st1 [x|]] eqn:E; apply h_event_src in E as [E1 E2].
  - inversion H; subst. auto.
  - apply IH in H as [H1 H2]. split; congruence.
Qed.

Lemma h_descriptor_src st d st' r : h_descriptor st d = (st', r) -> s_srcache st' = s_srcache st.
Proof.
  unfold h_descriptor. destruct (s_root st); [|intros [= <- <-]; reflexivity].
  cbn. destruct (lookup (d_name d) (s_desc_nodes st)); intros [= <- <-]; reflexivity.
Qed.

Lemma get_sres_node_src st s u st' r : get_sres_node st s u = (st', r) -> s_srcache st' = s_srcache st.
Proof.
  unfold get_sres_node.
  destruct (lookup s (s_sres_nodes st)); [intros [= <- <-]; reflexivity|].
  destruct (lookup s (s_srcache st)) as [x|]; [|intros [= <- <-]; reflexivity].
  destruct (seqb u ""); [intros [= <- <-]; reflexivity|].
  destruct (lookup u (s_desc_nodes st)) as [node|]; [|intros [= <- <-]; reflexivity].
  destruct (lookup (fdk node (sr_dk x)) (s_sres_nodes st)) as [cid|].
  - destruct (lookup cid (s_cons st)) as [c|]; [|intros [= <- <-]; reflexivity].
    destruct (negb _); intros [= <- <-]; reflexivity.
  - destruct (lookup (sr_dk x) _); intros [= <- <-]; reflexivity.
Qed.

Lemma write_external_src st d st' r : write_external st d = (st', r) -> s_srcache st' = s_srcache st.
Proof.
  unfold write_external. destruct (get_sres_node st (sd_sres d) (sd_desc d)) as [st1 [e|cid]] eqn:G;
    apply get_sres_node_src in G.
  - intros [= <- <-]. exact G.
  - destruct (lookup cid (s_cons st1)); intros [= <- <-]; exact G.
Qed.

Lemma flush_internal_src l : forall st st' r, flush_internal st l = (st', r) ->
  s_srcache st' = s_srcache st /\ s_desc_nodes st' = s_desc_nodes st.
Proof.
  induction l as [|[k rows] l IH]; cbn; intros st st' r H; [inversion H; auto|].
  destruct rows as [|r0 rows]; [eauto|].
  destruct (lookup k (s_desc_nodes st)) as [node|]; [|inversion H; auto].
  apply IH in H as [H1 H2]. cbn [s_srcache s_desc_nodes set_icache] in H1, H2. rewrite H1, H2.
  split; [apply write_internal_src | apply write_internal_fields].
Qed.

(* ------------------------------------------------------------------ the final uid -> name / uid -> data_key maps *)

Definition dm_step (dm : list (string * string)) (d : doc) : list (string * string) :=
  match d with DDescriptor x => dict_set (d_uid x) (d_name x) dm | _ => dm end.
Definition sr_step (m : list (string * string)) (d : doc) : list (string * string) :=
  match d with DSres r => dict_set (sr_uid r) (sr_dk r) m | _ => m end.

Lemma final_dm_fold docs : final_dm docs = fold_left dm_step docs [].
Proof. reflexivity. Qed.
Lemma final_sr_fold docs : final_sr docs = fold_left sr_step docs [].
Proof. reflexivity. Qed.

Lemma NoDup_app_r {A} (a b : list A) : NoDup (a ++ b) -> NoDup b.
Proof. induction a as [|x a IH]; cbn; [auto|]. intros H. inversion H; auto. Qed.

Lemma fold_dm_keep docs : forall dm u n,
  ~ In u (desc_uids docs) -> lookup u dm = Some n -> lookup u (fold_left dm_step docs dm) = Some n.
Proof.
  induction docs as [|d docs IH]; intros dm u n NI L; [exact L|]. cbn [fold_left].
  apply IH.
  - intros J. apply NI. unfold desc_uids. cbn [flat_map]. apply in_or_app. right. exact J.
  - destruct d; cbn [dm_step]; try exact L. rewrite lookup_set_neq; [exact L|].
    intros ->. apply NI. unfold desc_uids. cbn. left. reflexivity.
Qed.

Lemma final_dm_decl docs : forall dm x,
  NoDup (desc_uids docs) -> In (DDescriptor x) docs ->
  lookup (d_uid x) (fold_left dm_step docs dm) = Some (d_name x).
Proof.
  induction docs as [|d docs IH]; intros dm x ND I; [destruct I|]. cbn [fold_left].
  assert (ND' : NoDup (desc_uids docs)).
  { unfold desc_uids in *. cbn [flat_map] in ND. apply NoDup_app_r in ND. exact ND. }
  destruct I as [->|I]; [|apply IH; assumption].
  cbn [dm_step]. apply fold_dm_keep; [|apply lookup_set_eq].
  unfold desc_uids in ND. cbn [flat_map app] in ND. inversion ND. assumption.
Qed.

Lemma fold_sr_keep docs : forall m u n,
  ~ In u (sres_uids docs) -> lookup u m = Some n -> lookup u (fold_left sr_step docs m) = Some n.
Proof.
  induction docs as [|d docs IH]; intros m u n NI L; [exact L|]. cbn [fold_left].
  apply IH.
  - intros J. apply NI. unfold sres_uids. cbn [flat_map]. apply in_or_app. right. exact J.
  - destruct d; cbn [sr_step]; try exact L. rewrite lookup_set_neq; [exact L|].
    intros ->. apply NI. unfold sres_uids. cbn. left. reflexivity.
Qed.

Lemma final_sr_decl docs : forall m r,
  NoDup (sres_uids docs) -> In (DSres r) docs ->
  lookup (sr_uid r) (fold_left sr_step docs m) = Some (sr_dk r).
Proof.
  induction docs as [|d docs IH]; intros m r ND I; [destruct I|]. cbn [fold_left].
  assert (ND' : NoDup (sres_uids docs)).
  { unfold sres_uids in *. cbn [flat_map] in ND. apply NoDup_app_r in ND. exact ND. }
  destruct I as [->|I]; [|apply IH; assumption].
  cbn [sr_step]. apply fold_sr_keep; [|apply lookup_set_eq].
  unfold sres_uids in ND. cbn [flat_map app] in ND. inversion ND. assumption.
Qed.

(* keys of the final maps are declared uids *)
Lemma fold_dm_keys docs : forall dm u,
  lookup u (fold_left dm_step docs dm) <> None -> lookup u dm <> None \/ In u (desc_uids docs).
Proof.
  induction docs as [|d docs IH]; intros dm u H; [left; exact H|]. cbn [fold_left] in H.
  apply IH in H as [H|H].
  - destruct d; cbn [dm_step] in H; try (left; exact H). rewrite lookup_set in H.
    destruct (seqb u (d_uid d)) eqn:E; [|left; exact H]. apply seqb_eq in E. subst.
    right. unfold desc_uids. cbn. left. reflexivity.
  - right. unfold desc_uids. cbn [flat_map]. apply in_or_app. right. exact H.
Qed.

Lemma fold_sr_keys docs : forall m u,
  lookup u (fold_left sr_step docs m) <> None -> lookup u m <> None \/ In u (sres_uids docs).
Proof.
  induction docs as [|d docs IH]; intros m u H; [left; exact H|]. cbn [fold_left] in H.
  apply IH in H as [H|H].
  - destruct d; cbn [sr_step] in H; try (left; exact H). rewrite lookup_set in H.
    destruct (seqb u (sr_uid r)) eqn:E; [|left; exact H]. apply seqb_eq in E. subst.
    right. unfold sres_uids. cbn. left. reflexivity.
  - right. unfold sres_uids. cbn [flat_map]. apply in_or_app. right. exact H.
Qed.

Lemma in_desc_uids docs x : In (DDescriptor x) docs -> In (d_uid x) (desc_uids docs).
Proof. intros I. unfold desc_uids. apply in_flat_map. exists (DDescriptor x). split; [exact I | left; reflexivity]. Qed.
Lemma in_desc_names docs x : In (DDescriptor x) docs -> In (d_name x) (desc_names docs).
Proof. intros I. unfold desc_names. apply in_flat_map. exists (DDescriptor x). split; [exact I | left; reflexivity]. Qed.
Lemma in_desc_refs docs x : In (DDescriptor x) docs -> In (d_uid x) (desc_refs docs).
Proof. intros I. unfold desc_refs. apply in_flat_map. exists (DDescriptor x). split; [exact I | left; reflexivity]. Qed.
Lemma in_sres_uids docs r : In (DSres r) docs -> In (sr_uid r) (sres_uids docs).
Proof. intros I. unfold sres_uids. apply in_flat_map. exists (DSres r). split; [exact I | left; reflexivity]. Qed.
Lemma desc_uids_refs docs u : In u (desc_uids docs) -> In u (desc_refs docs).
Proof.
  unfold desc_uids, desc_refs. rewrite !in_flat_map. intros (d & I & J). exists d. split; [exact I|].
  destruct d; cbn in *; tauto.
Qed.
Lemma in_stream_datums docs d : In (DSdatum d) docs -> In d (stream_datums docs).
Proof. intros I. unfold stream_datums. apply in_flat_map. exists (DSdatum d). split; [exact I | left; reflexivity]. Qed.

(* ------------------------------------------------------------------ provenance invariant *)

Section Pairs.
  Variable docs : list doc.
  Hypothesis H_du : NoDup (desc_uids docs).
  Hypothesis H_su : NoDup (sres_uids docs).
  Hypothesis H_po : forall d, In d (stream_datums docs) -> pair_of docs d <> None.
  Hypothesis H_same : forall d d', In d (stream_datums docs) -> In d' (stream_datums docs) ->
                                   sd_sres d = sd_sres d' -> pair_of docs d = pair_of docs d'.
  Hypothesis H_sf : forall s p, In s (sres_uids docs) -> In p (ext_pairs docs) -> s <> fdk (fst p) (snd p).
  Hypothesis H_ns : ns_disjoint docs.

  Lemma pair_in_ext d p : In d (stream_datums docs) -> pair_of docs d = Some p -> In p (ext_pairs docs).
  Proof.
    intros I E. unfold ext_pairs. apply in_flat_map. exists d. split; [exact I|].
    unfold pair_of in E. destruct (lookup (sd_desc d) (final_dm docs)), (lookup (sd_sres d) (final_sr docs));
      try discriminate. inversion E. left. reflexivity.
  Qed.

  (* a document that stands for received ones: same stream resource and descriptor as some received datum *)
  Definition goodx (x : sdatum) : Prop :=
    exists d, In d (stream_datums docs) /\ sd_sres x = sd_sres d /\ sd_desc x = sd_desc d.

  Definition RESv (st : state) : Prop :=
    forall u node, lookup u (s_desc_nodes st) = Some node ->
      exists x, In (DDescriptor x) docs /\ d_name x = node /\ (u = d_uid x \/ u = d_name x).
  Definition SRCv (st : state) : Prop :=
    forall s r, lookup s (s_srcache st) = Some r -> In (DSres r) docs /\ sr_uid r = s.
  Definition PVc (st : state) : Prop :=
    forall cid c, lookup cid (s_cons st) = Some c -> In (c_node c, c_dk c) (ext_pairs docs).
  Definition PVk (st : state) : Prop :=
    forall k v, lookup k (s_sres_nodes st) = Some v ->
      k = v \/ (In k (sres_uids docs)
                /\ forall d, In d (stream_datums docs) -> sd_sres d = k ->
                             exists p, pair_of docs d = Some p /\ v = fdk (fst p) (snd p)).
  Definition PVa (st : state) : Prop :=
    forall k x, lookup k (s_ecache st) = Some x -> sd_sres x = k /\ goodx x.
  Definition PVcv (st : state) (recv : list sdatum) : Prop :=
    forall d, In d recv -> lookup (sd_sres d) (s_sres_nodes st) <> None \/ lookup (sd_sres d) (s_ecache st) <> None.

  Definition WInv (st : state) : Prop := InvS st /\ RESv st /\ SRCv st /\ PVc st /\ PVk st.

  Definition mono (st st' : state) : Prop :=
    forall k v, lookup k (s_sres_nodes st) = Some v -> lookup k (s_sres_nodes st') = Some v.

  (* where the node and the data key of a write come from *)
  Lemma resolve st x r node :
    RESv st -> SRCv st -> goodx x ->
    lookup (sd_sres x) (s_srcache st) = Some r -> lookup (sd_desc x) (s_desc_nodes st) = Some node ->
    In (node, sr_dk r) (ext_pairs docs) /\ In (sd_sres x) (sres_uids docs)
    /\ forall d, In d (stream_datums docs) -> sd_sres d = sd_sres x -> pair_of docs d = Some (node, sr_dk r).
  Proof.
    intros RV SV (d0 & I0 & ES & ED) LS LD.
    destruct (SV _ _ LS) as [IR EU].
    assert (FS : lookup (sd_sres x) (final_sr docs) = Some (sr_dk r)).
    { rewrite <- EU, final_sr_fold. apply final_sr_decl; assumption. }
    destruct (RV _ _ LD) as (x' & IX & EN & EUu).
    assert (PD := H_po _ I0). unfold pair_of in PD. rewrite <- ES, <- ED, FS in PD.
    destruct (lookup (sd_desc x) (final_dm docs)) as [n0|] eqn:FD; [|congruence].
    assert (UU : In (sd_desc x) (desc_uids docs)).
    { rewrite final_dm_fold in FD. destruct (fold_dm_keys docs [] (sd_desc x)) as [C|C]; [congruence | cbn in C; congruence | exact C]. }
    assert (EU' : sd_desc x = d_uid x').
    { destruct EUu as [E|E]; [exact E|]. exfalso.
      apply (H_ns (sd_desc x) (d_name x')); [apply desc_uids_refs; exact UU | apply in_desc_names; exact IX | exact E]. }
    assert (FD' : lookup (sd_desc x) (final_dm docs) = Some node).
    { rewrite EU', <- EN, final_dm_fold. apply final_dm_decl; assumption. }
    assert (P0 : pair_of docs d0 = Some (node, sr_dk r)).
    { unfold pair_of. rewrite <- ES, <- ED, FD', FS. reflexivity. }
    split; [eapply pair_in_ext; eauto|]. split; [rewrite <- EU; apply in_sres_uids; exact IR|].
    intros d I E. rewrite <- P0. apply H_same; [exact I | exact I0 | congruence].
  Qed.

  Lemma get_sres_node_prov st x st1 cid :
    WInv st -> goodx x -> get_sres_node st (sd_sres x) (sd_desc x) = (st1, inr cid) ->
    PVc st1 /\ PVk st1 /\ mono st st1.
  Proof.
    intros ((S4 & S5 & S6 & S7 & S8 & S9) & RV & SV & PC & PK) G. unfold get_sres_node.
    destruct (lookup (sd_sres x) (s_sres_nodes st)) as [cid0|] eqn:L0.
    { intros [= <- <-]. repeat split; auto. intros k v L. exact L. }
    destruct (lookup (sd_sres x) (s_srcache st)) as [r|] eqn:LS; [|discriminate].
    destruct (seqb (sd_desc x) ""); [discriminate|].
    destruct (lookup (sd_desc x) (s_desc_nodes st)) as [node|] eqn:LD; [|discriminate].
    destruct (resolve st x r node RV SV G LS LD) as (IP & IU & AP).
    set (key := fdk node (sr_dk r)).
    assert (KN : forall v, lookup key (s_sres_nodes st) = Some v -> v = key).
    { intros v L. destruct (PK _ _ L) as [E|[IK _]]; [congruence|]. exfalso. apply (H_sf key (node, sr_dk r) IK IP). reflexivity. }
    assert (PKnew : forall c0, (c0 = key) ->
               forall k v, lookup k (dict_set key c0 (dict_set (sd_sres x) c0 (s_sres_nodes st))) = Some v ->
               k = v \/ (In k (sres_uids docs)
                /\ forall d, In d (stream_datums docs) -> sd_sres d = k ->
                             exists p, pair_of docs d = Some p /\ v = fdk (fst p) (snd p))).
    { intros c0 -> k v. rewrite !lookup_set. destruct (seqb k key) eqn:E1.
      - apply seqb_eq in E1. intros [= <-]. left. exact E1.
      - destruct (seqb k (sd_sres x)) eqn:E2.
        + apply seqb_eq in E2. subst k. intros [= <-]. right. split; [exact IU|].
          intros d I E. exists (node, sr_dk r). split; [apply AP; assumption | reflexivity].
        + apply PK. }
    assert (MN : forall c0, forall k v, lookup k (s_sres_nodes st) = Some v -> (k = key -> v = c0) ->
                 lookup k (dict_set key c0 (dict_set (sd_sres x) c0 (s_sres_nodes st))) = Some v).
    { intros c0 k v L HK. rewrite !lookup_set. destruct (seqb k key) eqn:E1.
      - apply seqb_eq in E1. rewrite HK by exact E1. reflexivity.
      - destruct (seqb k (sd_sres x)) eqn:E2; [apply seqb_eq in E2; congruence | exact L]. }
    destruct (lookup key (s_sres_nodes st)) as [cid0|] eqn:LK.
    - destruct (lookup cid0 (s_cons st)) as [c|] eqn:LC; [|discriminate].
      destruct (negb _); [discriminate|]. intros [= <- <-].
      assert (EK : cid0 = key) by (apply KN; reflexivity).
      unfold register. cbn [s_cons s_sres_nodes set_sres_nodes set_cons emit]. split; [|split].
      + intros cid1 c1. unfold PVc in PC. cbn [s_cons set_sres_nodes set_cons emit]. rewrite lookup_set.
        destruct (seqb cid1 cid0) eqn:E; [|apply PC]. intros [= <-]. cbn. apply (PC _ _ LC).
      + intros k v. cbn [s_sres_nodes set_sres_nodes]. apply PKnew. exact EK.
      + intros k v L. cbn [s_sres_nodes set_sres_nodes]. apply MN; [exact L|]. intros ->. congruence.
    - destruct (lookup (sr_dk r) _) as [m|]; [|discriminate]. intros [= <- <-].
      unfold register. cbn [s_cons s_sres_nodes set_sres_nodes set_cons emit]. split; [|split].
      + intros cid1 c1. cbn [s_cons set_sres_nodes set_cons emit]. rewrite lookup_set.
        destruct (seqb cid1 key) eqn:E; [|apply PC]. intros [= <-]. cbn. exact IP.
      + intros k v. cbn [s_sres_nodes set_sres_nodes]. apply PKnew. reflexivity.
      + intros k v L. cbn [s_sres_nodes set_sres_nodes]. apply MN; [exact L|]. intros ->. congruence.
  Qed.

  Lemma W_write st x st' :
    WInv st -> goodx x -> write_external st x = (st', None) ->
    WInv st' /\ mono st st' /\ lookup (sd_sres x) (s_sres_nodes st') <> None /\ s_ecache st' = s_ecache st.
  Proof.
    intros W G H. assert (W0 := W). destruct W as (I & RV & SV & PC & PK).
    destruct (write_external_ok _ _ _ I H) as (I' & EC & _).
    assert (F := write_external_frame _ _ _ _ H). destruct F as ((ED & _) & _ & _).
    assert (ES := write_external_src _ _ _ _ H).
    unfold write_external in H.
    destruct (get_sres_node st (sd_sres x) (sd_desc x)) as [st1 [e|cid]] eqn:GG; [discriminate|].
    destruct (get_sres_node_prov st x st1 cid W0 G GG) as (PC1 & PK1 & M1).
    destruct (get_sres_node_ok _ _ _ _ _ I GG) as (_ & LS & _).
    destruct (lookup cid (s_cons st1)) as [c|] eqn:LC; [|discriminate]. inversion H; subst st'; clear H.
    split; [|split; [|split]].
    - split; [exact I'|]. split; [unfold RESv; rewrite ED; exact RV|]. split; [unfold SRCv; rewrite ES; exact SV|].
      split.
      + unfold PVc. intros cid1 c1. cbn [s_cons set_cons emit]. rewrite lookup_set.
        destruct (seqb cid1 cid) eqn:E; [|apply PC1]. intros [= <-]. cbn. apply (PC1 _ _ LC).
      + exact PK1.
    - exact M1.
    - cbn [s_sres_nodes set_cons emit]. rewrite LS. discriminate.
    - exact EC.
  Qed.

  Lemma W_fail st x st' e :
    WInv st -> write_external st x = (st', Some e) ->
    WInv st' /\ s_sres_nodes st' = s_sres_nodes st /\ s_ecache st' = s_ecache st.
  Proof.
    intros (I & RV & SV & PC & PK) H.
    assert (S := write_external_err _ _ _ _ I H). destruct (InvS_same_ext _ _ I S) as [I' _].
    assert (F := write_external_frame _ _ _ _ H). destruct F as ((ED & _) & _ & _).
    assert (ES := write_external_src _ _ _ _ H). destruct S as (E1 & E2 & E3 & _).
    split; [|split; assumption].
    split; [exact I'|]. split; [unfold RESv; rewrite ED; exact RV|]. split; [unfold SRCv; rewrite ES; exact SV|].
    split; [unfold PVc; rewrite E3; exact PC | unfold PVk; rewrite E2; exact PK].
  Qed.

  Lemma W_set_ecache st ec : WInv st -> WInv (set_ecache st ec).
  Proof. intros H. exact H. Qed.

  (* what h_sdatum does, case by case *)
  Lemma h_sdatum_cases bs st d st' :
    InvS st -> h_sdatum bs st d = (st', None) ->
    write_external st d = (st', None)
    \/ (lookup (sd_sres d) (s_ecache st) = None /\ st' = set_ecache st (dict_set (sd_sres d) d (s_ecache st)))
    \/ exists c, lookup (sd_sres d) (s_ecache st) = Some c
         /\ let st1 := set_ecache st (dict_remove (sd_sres d) (s_ecache st)) in
            (exists m, concat2 c d = inr m /\ st' = set_ecache st1 (dict_set (sd_sres d) m (s_ecache st1)))
            \/ (exists m, concat2 c d = inr m /\ write_external st1 m = (st', None))
            \/ (exists s sa, (s = st1 \/ exists m e, write_external st1 m = (s, Some e))
                             /\ write_external s c = (sa, None) /\ write_external sa d = (st', None)).
  Proof.
    intros I. unfold h_sdatum. destruct (bs <=? 1)%Z; [intros H; left; exact H|].
    destruct (lookup (sd_sres d) (s_ecache st)) as [c|] eqn:L.
    2:{ intros [= <-]. right. left. split; reflexivity. }
    intros H0. right. right. exists c. split; [reflexivity|]. cbv zeta. revert H0.
    set (st1 := set_ecache st (dict_remove (sd_sres d) (s_ecache st))).
    assert (HH : forall s, (s = st1 \/ exists m e, write_external st1 m = (s, Some e)) ->
                 match write_external s c with (s', None) => write_external s' d | bad => bad end = (st', None) ->
                 exists s0 sa, (s0 = st1 \/ exists m e, write_external st1 m = (s0, Some e))
                               /\ write_external s0 c = (sa, None) /\ write_external sa d = (st', None)).
    { intros s Hs W. destruct (write_external s c) as [sa [e|]] eqn:W1; [discriminate|].
      exists s, sa. auto. }
    destruct (concat2 c d) as [e|m] eqn:CC.
    - intros W. right. right. apply (HH st1); [left; reflexivity | exact W].
    - destruct (sd_i1 m - sd_i0 m >=? bs)%Z.
      + destruct (write_external st1 m) as [s' [e|]] eqn:W.
        * destruct e; try discriminate. intros W2. right. right. apply (HH s'); [right; exists m, EValue; exact W | exact W2].
        * intros [= <-]. right. left. exists m. auto.
      + intros [= <-]. left. exists m. auto.
  Qed.

  Lemma mono_refl st : mono st st.
  Proof. intros k v L. exact L. Qed.
  Lemma mono_trans a b c : mono a b -> mono b c -> mono a c.
  Proof. intros H1 H2 k v L. apply H2, H1, L. Qed.
  Lemma mono_eq a b : s_sres_nodes b = s_sres_nodes a -> mono a b.
  Proof. intros E k v L. rewrite E. exact L. Qed.

  Lemma concat2_goodx a b m : goodx a -> goodx b -> concat2 a b = inr m ->
    goodx m /\ sd_sres m = sd_sres a /\ sd_sres m = sd_sres b.
  Proof.
    intros Ga Gb C. apply concat2_inv in C as (ES & x & y & O & _ & ->). cbn [sd_sres sd_desc].
    destruct O as [[-> ->]|[-> ->]].
    - split; [|split; congruence]. destruct Gb as (d0 & I & E1 & E2). exists d0. cbn. auto.
    - split; [|split; congruence]. destruct Ga as (d0 & I & E1 & E2). exists d0. cbn. auto.
  Qed.

  (* the cached document for stream resource s has been popped and everything with that resource is mapped now *)
  Lemma pop_done st st' recv d :
    PVa st -> PVcv st recv -> NoDup (map fst (s_ecache st)) ->
    mono st st' -> lookup (sd_sres d) (s_sres_nodes st') <> None ->
    s_ecache st' = dict_remove (sd_sres d) (s_ecache st) ->
    PVa st' /\ PVcv st' (recv ++ [d]) /\ NoDup (map fst (s_ecache st')).
  Proof.
    intros PA PC ND M MP EC. split; [|split].
    - intros k x. rewrite EC, lookup_remove by exact ND. destruct (seqb k (sd_sres d)); [discriminate | apply PA].
    - intros d' I. apply in_app_or in I as [I|[<-|[]]]; [|left; exact MP].
      destruct (seqb (sd_sres d') (sd_sres d)) eqn:E.
      + apply seqb_eq in E. rewrite E. left. exact MP.
      + destruct (PC _ I) as [H|H].
        * left. destruct (lookup (sd_sres d') (s_sres_nodes st)) eqn:L; [|congruence]. rewrite (M _ _ L). discriminate.
        * right. rewrite EC, lookup_remove, E by exact ND. exact H.
    - rewrite EC. apply dict_remove_nodup. exact ND.
  Qed.

  Lemma h_sdatum_pv bs st d st' recv :
    WInv st -> PVa st -> PVcv st recv -> NoDup (map fst (s_ecache st)) -> In d (stream_datums docs) ->
    h_sdatum bs st d = (st', None) ->
    WInv st' /\ PVa st' /\ PVcv st' (recv ++ [d]) /\ NoDup (map fst (s_ecache st')).
  Proof.
    intros W PA PC ND I H.
    assert (Gd : goodx d) by (exists d; auto).
    destruct (h_sdatum_cases bs st d st' (proj1 W) H) as [A|[[L ->]|(c & L & [(m & CC & ->)|[(m & CC & Wm)|(s0 & sa & Hs & Wc & Wd)]])]].
    - (* written at once *)
      destruct (W_write _ _ _ W Gd A) as (W' & M & MP & EC).
      split; [exact W'|]. split; [unfold PVa; rewrite EC; exact PA|]. split; [|rewrite EC; exact ND].
      intros d' J. apply in_app_or in J as [J|[<-|[]]]; [|left; exact MP].
      destruct (PC _ J) as [Q|Q]; [left | right; rewrite EC; exact Q].
      destruct (lookup (sd_sres d') (s_sres_nodes st)) eqn:LL; [|congruence]. rewrite (M _ _ LL). discriminate.
    - (* cached *)
      split; [apply W_set_ecache; exact W|]. cbn [s_ecache s_sres_nodes set_ecache]. split; [|split].
      + intros k x. cbn [s_ecache set_ecache]. rewrite lookup_set. destruct (seqb k (sd_sres d)) eqn:E; [|apply PA].
        apply seqb_eq in E. intros [= <-]. auto.
      + intros d' J. cbn [s_ecache s_sres_nodes set_ecache]. rewrite lookup_set.
        apply in_app_or in J as [J|[<-|[]]]; [|right; rewrite seqb_refl; discriminate].
        destruct (seqb (sd_sres d') (sd_sres d)); [right; discriminate | apply PC; exact J].
      + apply dict_set_nodup. exact ND.
    - (* merged and cached again *)
      destruct (PA _ _ L) as [Ec Gc]. destruct (concat2_goodx _ _ _ Gc Gd CC) as (Gm & Em & _).
      assert (ND1 := dict_remove_nodup (sd_sres d) _ ND).
      split; [apply W_set_ecache, W_set_ecache; exact W|]. cbn [s_ecache s_sres_nodes set_ecache]. split; [|split].
      + intros k x. cbn [s_ecache set_ecache]. rewrite lookup_set. destruct (seqb k (sd_sres d)) eqn:E.
        * apply seqb_eq in E. intros [= <-]. split; [congruence | exact Gm].
        * rewrite lookup_remove, E by exact ND. apply PA.
      + intros d' J. cbn [s_ecache s_sres_nodes set_ecache]. rewrite lookup_set.
        destruct (seqb (sd_sres d') (sd_sres d)) eqn:E; [right; discriminate|].
        rewrite lookup_remove, E by exact ND.
        apply in_app_or in J as [J|[<-|[]]]; [apply PC; exact J | rewrite seqb_refl in E; discriminate].
      + apply dict_set_nodup. exact ND1.
    - (* merged and written *)
      destruct (PA _ _ L) as [Ec Gc]. destruct (concat2_goodx _ _ _ Gc Gd CC) as (Gm & Em & Em').
      destruct (W_write _ _ _ (W_set_ecache st _ W) Gm Wm) as (W' & M & MP & EC).
      split; [exact W'|]. rewrite Em' in MP. apply (pop_done st st' recv d PA PC ND M MP EC).
    - (* cached one and new one written separately *)
      destruct (PA _ _ L) as [Ec Gc].
      set (st1 := set_ecache st (dict_remove (sd_sres d) (s_ecache st))) in *.
      assert (W0 : WInv s0 /\ mono st s0 /\ s_ecache s0 = dict_remove (sd_sres d) (s_ecache st)).
      { destruct Hs as [->|(m & e & Wf)].
        - split; [apply W_set_ecache; exact W|]. split; [apply mono_eq; reflexivity | reflexivity].
        - destruct (W_fail _ _ _ _ (W_set_ecache st _ W) Wf) as (Wf' & En & Ee).
          split; [exact Wf'|]. split; [apply mono_eq; exact En | exact Ee]. }
      destruct W0 as (Ws & Ms & Es).
      destruct (W_write _ _ _ Ws Gc Wc) as (Wa & Ma & _ & Ea).
      destruct (W_write _ _ _ Wa Gd Wd) as (W' & M' & MP & E').
      split; [exact W'|]. apply (pop_done st st' recv d PA PC ND); [|exact MP | congruence].
      eapply mono_trans; [exact Ms|]. eapply mono_trans; eauto.
  Qed.

  Definition BInv (st : state) (recv : list sdatum) : Prop :=
    WInv st /\ PVa st /\ PVcv st recv /\ NoDup (map fst (s_ecache st)).

  Lemma keep_same st st' recv :
    BInv st recv -> same_ext st st' -> s_desc_nodes st' = s_desc_nodes st -> s_srcache st' = s_srcache st ->
    BInv st' recv.
  Proof.
    intros ((I & RV & SV & PC & PK) & PA & PCV & ND) S ED ES.
    destruct (InvS_same_ext _ _ I S) as [I' _]. destruct S as (E1 & E2 & E3 & _).
    unfold BInv, WInv, RESv, SRCv, PVc, PVk, PVa, PVcv. rewrite ED, ES, E1, E2, E3. tauto.
  Qed.

  Lemma h_descriptor_res st x st' :
    RESv st -> In (DDescriptor x) docs -> h_descriptor st x = (st', None) -> RESv st'.
  Proof.
    intros RV IX. unfold h_descriptor. destruct (s_root st) as [rk|]; [|discriminate].
    cbn [s_desc_nodes set_data_keys].
    destruct (lookup (d_name x) (s_desc_nodes st)) as [node|] eqn:L; cbn [fst snd]; intros [= <-];
      unfold RESv; cbn [s_desc_nodes set_desc_nodes set_node_md emit set_data_keys]; intros u nd; rewrite !lookup_set.
    - destruct (RV _ _ L) as (x' & IX' & EN & EU).
      assert (NN : node = d_name x).
      { destruct EU as [E|E]; [|congruence]. exfalso.
        apply (H_ns (d_uid x') (d_name x)); [apply in_desc_refs; exact IX' | apply in_desc_names; exact IX | congruence]. }
      destruct (seqb u (d_name x)) eqn:E1.
      + apply seqb_eq in E1. intros [= <-]. exists x. auto.
      + destruct (seqb u (d_uid x)) eqn:E2; [|apply RV]. apply seqb_eq in E2. intros [= <-]. exists x. auto.
    - destruct (seqb u (d_name x)) eqn:E1.
      + apply seqb_eq in E1. intros [= <-]. exists x. auto.
      + destruct (seqb u (d_uid x)) eqn:E2; [|apply RV]. apply seqb_eq in E2. intros [= <-]. exists x. auto.
  Qed.

  Lemma handle_body_pv bs st d st' recv :
    In d docs -> is_body d = true -> BInv st recv -> handle bs st d = (st', None) ->
    BInv st' (recv ++ stream_datums [d]).
  Proof.
    intros ID B BI H.
    destruct d as [s0|x|e|es|r|x|m]; cbn [handle is_body] in *; try discriminate; cbn [stream_datums flat_map app].
    - (* descriptor *)
      rewrite app_nil_r. assert (H' := H). apply h_descriptor_frame in H' as [S _].
      assert (ES := h_descriptor_src _ _ _ _ H).
      assert (RV' : RESv st') by (eapply h_descriptor_res; eauto; apply BI).
      destruct BI as ((I & RV & SV & PC & PK) & PA & PCV & ND).
      destruct (InvS_same_ext _ _ I S) as [I' _]. destruct S as (E1 & E2 & E3 & _).
      unfold BInv, WInv, SRCv, PVc, PVk, PVa, PVcv. rewrite ES, E1, E2, E3. tauto.
    - rewrite app_nil_r. assert (H' := H). apply h_event_frame in H' as [S _]. apply h_event_src in H as [E1 E2].
      eapply keep_same; eauto.
    - rewrite app_nil_r. assert (H' := H). apply h_events_frame in H' as [S _]. apply h_events_src in H as [E1 E2].
      eapply keep_same; eauto.
    - (* stream resource *)
      rewrite app_nil_r. unfold h_sres in H. inversion H; subst st'; clear H.
      destruct BI as ((I & RV & SV & PC & PK) & PA & PCV & ND).
      split; [|split; [exact PA | split; [exact PCV | exact ND]]].
      split; [exact I|]. split; [exact RV|]. split; [|split; [exact PC | exact PK]].
      intros s r'. cbn [s_srcache set_srcache]. rewrite lookup_set. destruct (seqb s (sr_uid r)) eqn:E; [|apply SV].
      apply seqb_eq in E. intros [= <-]. auto.
    - (* stream datum *)
      destruct BI as (W & PA & PCV & ND). apply in_stream_datums in ID.
      apply (h_sdatum_pv bs st x st' recv W PA PCV ND ID H).
  Qed.

  Lemma run_body_pv bs : forall rem st st' recv,
    (forall d, In d rem -> In d docs) -> forallb is_body rem = true -> BInv st recv ->
    run_from bs st rem = (st', None) -> BInv st' (recv ++ stream_datums rem).
  Proof.
    induction rem as [|d rem IH]; cbn [run_from]; intros st st' recv INC B BI H.
    - inversion H; subst. cbn. rewrite app_nil_r. exact BI.
    - cbn [forallb] in B. apply andb_true_iff in B as [B1 B2].
      destruct (handle bs st d) as [st1 [x|]] eqn:Hd; [discriminate|].
      apply (handle_body_pv bs st d st1 recv (INC d (or_introl eq_refl)) B1 BI) in Hd.
      change (d :: rem) with ([d] ++ rem). unfold stream_datums in *. rewrite flat_map_app, app_assoc.
      apply (IH st1 st'); auto. intros d0 J. apply INC. right. exact J.
  Qed.

  Lemma flush_external_pv l : forall st st',
    WInv st -> (forall k x, In (k, x) l -> goodx x) -> flush_external st l = (st', None) ->
    WInv st' /\ mono st st' /\ forall k x, In (k, x) l -> lookup (sd_sres x) (s_sres_nodes st') <> None.
  Proof.
    induction l as [|[k x] l IH]; cbn [flush_external]; intros st st' W G H.
    - inversion H; subst. split; [exact W|]. split; [apply mono_refl | intros k x []].
    - destruct (write_external st x) as [s1 [e|]] eqn:Wx; [discriminate|].
      destruct (W_write _ _ _ W (G k x (or_introl eq_refl)) Wx) as (W1 & M1 & MP1 & _).
      destruct (IH s1 st' W1 (fun k0 x0 J => G k0 x0 (or_intror J)) H) as (W2 & M2 & MP2).
      split; [exact W2|]. split; [eapply mono_trans; eauto|].
      intros k0 x0 [J|J]; [|eapply MP2; eauto]. inversion J; subst.
      destruct (lookup (sd_sres x0) (s_sres_nodes s1)) eqn:LL; [|congruence]. rewrite (M2 _ _ LL). discriminate.
  Qed.

  (* at the end of an accepted run every received stream datum sits in the consolidator of its own pair *)
  Lemma pairs_mapped bs s body m st :
    docs = DStart s :: body ++ [DStop m] -> forallb is_body body = true ->
    run bs docs = (st, None) ->
    InvS st /\ PVc st
    /\ forall d, In d (stream_datums docs) ->
         exists p, pair_of docs d = Some p /\ lookup (sd_sres d) (s_sres_nodes st) = Some (fdk (fst p) (snd p)).
  Proof.
    intros ED B R. rewrite ED in R. apply run_decompose in R as (st1 & R1 & R2).
    set (st0 := fst (h_start init s)) in *.
    assert (B0 : BInv st0 []).
    { split; [|split; [|split]].
      - split; [apply InvS_init_start|]. subst st0. cbn.
        split; [intros u nd; cbn; discriminate|]. split; [intros u r; cbn; discriminate|].
        split; [intros c0 c1; cbn; discriminate | intros k v; cbn; discriminate].
      - intros k x. subst st0. cbn. discriminate.
      - intros d [].
      - subst st0. cbn. constructor. }
    assert (INC : forall d, In d body -> In d docs).
    { intros d J. rewrite ED. right. apply in_or_app. left. exact J. }
    apply (run_body_pv bs body st0 st1 [] INC B B0) in R1. cbn [app] in R1.
    apply h_stop_ok in R2 as (st2 & st3 & F1 & F2 & ->).
    assert (F1' := F1). apply flush_internal_frame in F1' as [S2 _]. apply flush_internal_src in F1 as [Es Ed].
    destruct (keep_same _ _ _ R1 S2 Ed Es) as (W2 & PA2 & PCV2 & ND2).
    assert (G2 : forall k x, In (k, x) (s_ecache st2) -> goodx x).
    { intros k x J. apply (in_lookup k x _ ND2) in J. apply (PA2 _ _ J). }
    destruct (flush_external_pv _ _ _ W2 G2 F2) as ((I3 & RV3 & SV3 & PC3 & PK3) & M3 & MP3).
    match goal with |- context[emit ?e ?s0] => set (stf := emit e s0) end.
    assert (S4 : same_ext st3 stf) by (subst stf; repeat split; ext_tac).
    destruct (InvS_same_ext _ _ I3 S4) as [I4 _].
    split; [exact I4|]. split; [exact PC3|].
    intros d J. assert (J' : In d (stream_datums body)) by (rewrite ED, stream_datums_run in J; exact J).
    assert (MPd : lookup (sd_sres d) (s_sres_nodes st3) <> None).
    { destruct (PCV2 d J') as [Q|Q].
      - destruct (lookup (sd_sres d) (s_sres_nodes st2)) eqn:LL; [|congruence]. rewrite (M3 _ _ LL). discriminate.
      - destruct (lookup (sd_sres d) (s_ecache st2)) as [x|] eqn:LL; [|congruence].
        destruct (PA2 _ _ LL) as [Ex _]. rewrite <- Ex. apply (MP3 (sd_sres d) x). apply lookup_in. exact LL. }
    change (s_sres_nodes stf) with (s_sres_nodes st3).
    destruct (lookup (sd_sres d) (s_sres_nodes st3)) as [v|] eqn:LV; [|congruence].
    destruct (pair_of docs d) as [p|] eqn:PP; [|exfalso; apply (H_po d J); exact PP].
    exists p. split; [reflexivity|]. f_equal.
    destruct (PK3 _ _ LV) as [E|(IK & AP)].
    - (* the uid would itself be a registered full data key: excluded *)
      exfalso. subst v.
      assert (IU : In (sd_sres d) (sres_uids docs)).
      { unfold pair_of in PP. destruct (lookup (sd_desc d) (final_dm docs)); [|discriminate].
        destruct (lookup (sd_sres d) (final_sr docs)) eqn:FS; [|discriminate].
        rewrite final_sr_fold in FS. destruct (fold_sr_keys docs [] (sd_sres d)) as [C|C]; [congruence | cbn in C; congruence | exact C]. }
      destruct (lookup (sd_sres d) (s_cons st3)) as [c|] eqn:LC.
      + destruct I3 as (_ & S5' & _). destruct (S5' _ _ LC) as (F1 & _).
        apply (H_sf _ _ IU (PC3 _ _ LC)). exact F1.
      + destruct I3 as (_ & _ & S6' & _). apply (S6' _ _ LV). exact LC.
    - destruct (AP d J eq_refl) as (p' & E1 & E2). congruence.
  Qed.
End Pairs.

(* ------------------------------------------------------------------ from the boolean hypotheses *)

Lemma snodup_b_sound l : snodup_b l = true -> NoDup l.
Proof.
  induction l as [|x l IH]; cbn; [constructor|]. intros H. apply andb_true_iff in H as [H1 H2].
  constructor; [apply smem_notin; apply negb_true_iff; exact H1 | auto].
Qed.

Lemma pair_beq_eq p q : pair_beq p q = true <-> p = q.
Proof.
  destruct p as [a b], q as [c d]. unfold pair_beq. cbn. rewrite andb_true_iff, !seqb_eq.
  split; [intros [-> ->]; reflexivity | intros [= -> ->]; auto].
Qed.

Lemma opt_pair_beq_eq a b : option_beq pair_beq a b = true <-> a = b.
Proof.
  destruct a as [p|], b as [q|]; cbn; try (split; [discriminate | congruence]); [|tauto].
  rewrite pair_beq_eq. split; congruence.
Qed.

Lemma wf_ext_b_sound docs : wf_ext_b docs = true ->
  NoDup (desc_uids docs) /\ NoDup (sres_uids docs)
  /\ (forall s p, In s (sres_uids docs) -> In p (ext_pairs docs) -> s <> fdk (fst p) (snd p))
  /\ (forall d, In d (stream_datums docs) -> pair_of docs d <> None)
  /\ (forall d d', In d (stream_datums docs) -> In d' (stream_datums docs) ->
                   sd_sres d = sd_sres d' -> pair_of docs d = pair_of docs d').
Proof.
  unfold wf_ext_b. rewrite !andb_true_iff. intros ((((A & B) & C) & D) & E).
  split; [apply snodup_b_sound; exact A|]. split; [apply snodup_b_sound; exact B|]. split; [|split].
  - intros s p Is Ip Eq. unfold sf_disjoint_b in C. rewrite forallb_forall in C. apply C in Is.
    apply negb_true_iff in Is. assert (X : existsb (fun p0 => seqb s (fdk (fst p0) (snd p0))) (ext_pairs docs) = true).
    { apply existsb_exists. exists p. split; [exact Ip | apply seqb_eq; exact Eq]. }
    congruence.
  - intros d I. rewrite forallb_forall in D. apply D in I. destruct (pair_of docs d); [discriminate | discriminate].
  - intros d d' I I' Es. rewrite forallb_forall in E. apply E in I. rewrite forallb_forall in I. apply I in I'.
    apply orb_true_iff in I' as [N|Q]; [|apply opt_pair_beq_eq; exact Q].
    apply negb_true_iff in N. apply seqb_eq in Es. congruence.
Qed.

Lemma no_finding_inj bs docs : finding_C46_a_b bs docs = false ->
  forall p q, In p (ext_pairs docs) -> In q (ext_pairs docs) -> fdk (fst p) (snd p) = fdk (fst q) (snd q) -> p = q.
Proof.
  unfold finding_C46_a_b. intros F p q Ip Iq E.
  destruct (pair_beq p q) eqn:B; [apply pair_beq_eq; exact B|]. exfalso.
  assert (X : existsb (fun p0 => existsb (fun q0 => negb (pair_beq p0 q0) && seqb (fdk (fst p0) (snd p0)) (fdk (fst q0) (snd q0)))
                                         (ext_pairs docs)) (ext_pairs docs) = true).
  { apply existsb_exists. exists p. split; [exact Ip|]. apply existsb_exists. exists q. split; [exact Iq|].
    rewrite B. cbn. apply seqb_eq. exact E. }
  congruence.
Qed.

Lemma ext_pairs_inv docs p : In p (ext_pairs docs) -> exists d, In d (stream_datums docs) /\ pair_of docs d = Some p.
Proof.
  unfold ext_pairs. rewrite in_flat_map. intros (d & I & J). exists d. split; [exact I|]. unfold pair_of.
  destruct (lookup (sd_desc d) (final_dm docs)), (lookup (sd_sres d) (final_sr docs)); cbn in J; try tauto.
  destruct J as [<-|[]]. reflexivity.
Qed.

(* ------------------------------------------------------------------ one array per (stream name, data_key) pair *)

Theorem arrays_by_pair_thm bs docs st :
  run bs docs = (st, None) -> is_run docs -> ns_disjoint docs -> sd_wf docs ->
  wf_ext_b docs = true -> finding_C46_a_b bs docs = false ->
  arrays_by_pair_b docs st = true.
Proof.
  intros R IR NS WF WE NF.
  destruct (wf_ext_b_sound _ WE) as (Hdu & Hsu & Hsf & Hpo & Hsame).
  assert (INJ := no_finding_inj _ _ NF).
  destruct (external_arrays_thm bs docs st R IR WF) as (_ & _ & ROWS & _).
  destruct IR as (s & body & m & ED & B).
  destruct (pairs_mapped docs Hdu Hsu Hpo Hsame Hsf NS bs s body m st ED B R) as ((S4 & S5 & S6 & _) & PC & MAP).
  unfold arrays_by_pair_b. apply forallb_forall. intros p Ip.
  destruct (ext_pairs_inv _ _ Ip) as (d & Id & Pd).
  destruct (MAP d Id) as (p' & Pd' & LM). assert (p' = p) by congruence. subst p'.
  destruct (lookup (fdk (fst p) (snd p)) (s_cons st)) as [c|] eqn:LC; [|exfalso; apply (S6 _ _ LM); exact LC].
  destruct (S5 _ _ LC) as (F1 & _).
  assert (EP : p = (c_node c, c_dk c)) by (apply INJ; [exact Ip | apply (PC _ _ LC) | exact F1]).
  rewrite !andb_true_iff. split; [split|].
  - apply seqb_eq. rewrite EP. reflexivity.
  - apply seqb_eq. rewrite EP. reflexivity.
  - apply Z.eqb_eq. destruct (ROWS _ _ LC) as (_ & _ & -> & _). f_equal. f_equal.
    unfold received_for. apply filter_ext_in. intros d' Id'.
    destruct (MAP d' Id') as (q & Pq & Lq). rewrite Lq, Pq. cbn [option_beq].
    destruct (pair_beq q p) eqn:Bq.
    + apply pair_beq_eq in Bq. subst q. apply seqb_refl.
    + apply seqb_neq. intros E. assert (p = q) by (apply INJ; [exact Ip | eapply pair_in_ext; eauto | exact E]).
      subst q. assert (pair_beq p p = true) by (apply pair_beq_eq; reflexivity). congruence.
Qed.

(* ------------------------------------------------------------------ the full statement *)

Theorem full_thm : forall bs docs st off,
  run bs docs = (st, None) -> is_run docs -> ns_disjoint docs -> sd_wf docs -> seq_aligned off docs ->
  wf_ext_b docs = true -> finding_C46_a_b bs docs <> true ->
  (forall n, concat (partitions n (s_log st)) = spec_rows [] docs n)
  /\ (forall n, cache_of n (s_icache st) = [])
  /\ (forall cid, Permutation (flat_map expand_ind (puts_of cid (s_log st))) (flat_map expand_ind (received_for cid st docs)))
  /\ (forall cid, Permutation (flat_map expand_seq (puts_of cid (s_log st))) (flat_map expand_seq (received_for cid st docs)))
  /\ (exists s body m mid,
        docs = DStart s :: body ++ [DStop m]
        /\ s_log st = LCreateRoot (st_uid s) (trunc_md (("uid"%string, VS (st_uid s)) :: st_md s)) (st_tags s)
                      :: mid ++ [LUpdateRoot (trunc_md (("uid"%string, VS (st_uid s)) :: st_md s)) m]
        /\ root_updates mid = [] /\ existsb is_create_root mid = false)
  /\ arrays_by_pair_b docs st = true.
Proof.
  intros bs docs st off R IR NS WF AL WE NF.
  destruct (internal_tables_thm bs docs st R IR NS) as (A1 & _ & A2 & _).
  destruct (external_arrays_thm bs docs st R IR WF) as (_ & B1 & _).
  destruct (external_seq_thm bs docs st off R IR WF AL) as (_ & C1).
  assert (NF' : finding_C46_a_b bs docs = false) by (destruct (finding_C46_a_b bs docs); congruence).
  assert (P := arrays_by_pair_thm bs docs st R IR NS WF WE NF').
  repeat split; auto.
  destruct IR as (s & body & m & -> & B).
  destruct (metadata_thm bs s body m st R B) as (mid & E1 & E2 & E3).
  exists s, body, m, mid. auto.
Qed.
