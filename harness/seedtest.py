"""Run a property's check against a seeded defect.  Usage: python -m harness.seedtest <seed dir> [tier]
A seed dir holds patch.diff, demo.py, meta.json ({"property": "Cxx", ...}).  The patch is applied in a scratch
git worktree of /repo (removed afterwards), so /repo itself is never touched; the check reads it via VERIF_REPO."""
import json
import os
import shutil
import subprocess
import sys
import time

V = os.path.dirname(os.path.dirname(os.path.abspath(__file__)))


def main():
    d = os.path.abspath(sys.argv[1].rstrip("/"))
    tier = sys.argv[2] if len(sys.argv) > 2 else "quick"
    meta = json.load(open(os.path.join(d, "meta.json")))
    pid = os.environ.get("SEEDTEST_PROP") or meta["property"]      # SEEDTEST_PROP: run another property's check on this seed
    wt = "/tmp/seedtest-wt-%d" % os.getpid()
    subprocess.run(["git", "-C", "/repo", "worktree", "add", "-q", "--detach", wt, "HEAD"], check=True)
    t0 = time.time()
    try:
        shutil.copy("/repo/src/bluesky/_version.py", wt + "/src/bluesky/_version.py")
        r = subprocess.run(["git", "-C", wt, "apply", os.path.join(d, "patch.diff")], capture_output=True, text=True)
        if r.returncode != 0:
            print("PATCH DOES NOT APPLY", os.path.basename(d), r.stderr[:200]); return
        demo = subprocess.run(["/venv/bin/python", os.path.join(d, "demo.py")], capture_output=True, text=True,
                              env=dict(os.environ, PYTHONPATH=wt + "/src"), timeout=600)
        chk = subprocess.run(["./check", pid, "--tier", tier], cwd=V, capture_output=True, text=True, timeout=3400,
                             env=dict(os.environ, VERIF_REPO=wt, VERIF_EVIDENCE_DIR="/tmp/verif-seed-evidence"))
    finally:
        subprocess.run(["git", "-C", "/repo", "worktree", "remove", "--force", wt])
    lines = [l for l in chk.stdout.splitlines() if l.startswith(("VIOLATION", "OK ", "KNOWN-FINDING"))]
    verdict = "CAUGHT" if chk.returncode == 1 and any(l.startswith("VIOLATION") for l in lines) else "MISSED"
    nf = all("no-failing-input-found" in l for l in lines if l.startswith("VIOLATION")) and verdict == "CAUGHT"
    print("%s %s %s demo_exit_patched=%d check_exit=%d%s wall=%.0fs" % (
        verdict, pid, os.path.basename(d), demo.returncode, chk.returncode, " (no-failing-input-found)" if nf else "", time.time() - t0))
    for l in lines[:3]:
        if l.startswith("VIOLATION"):
            print("   ", l[:200])
    if chk.returncode not in (0, 1) or (chk.returncode == 1 and not lines):
        print("    check crashed:", (chk.stdout + chk.stderr)[-600:])


if __name__ == "__main__":
    main()
