"""C14 - concurrent runs with different run keys stay independent."""
from harness.props.engine_common import *  # noqa: F401,F403
from harness.props import docs_common as dc
from harness.props import engine_common as ec

ID = "C14"
PROP_FILE = "Props/C14.v"
THEOREMS = ["C14_message_touches_only_its_run", "C14_close_run_frame", "C14_open_run_frame", "C14_duplicate_open_refused",
            "C14_runs_well_formed_separately", "C14_set_run_key_wrapper", "C14_set_run_key_nested"]
COQ_IMPORTS = dc.COQ_IMPORTS + "\nFrom BV Require Import Pure.RunKey."
RULE = dc.RULE + (" || set_run_key_wrapper / set_run_key_decorator: the REAL functions over all message lists of length <= 3 and random "
                  "longer ones with run keys from {None, 0, '', 'a', 1}, one wrapper and two nested, every key pair")

KEYS = [None, 0, "", "a", 1]          # 0 and '' are falsy but perfectly valid run keys


def key_code(k):
    if k is None:
        return None
    if isinstance(k, bool):
        return 9
    return {(int, 0): 0, (str, ""): 1, (str, "a"): 2, (int, 1): 3}.get((type(k), k), 8)


def runkey_cases(rng, tier):
    out = []
    wk = KEYS[1:]
    lists = [[]] + [[a] for a in KEYS] + [[a, b] for a in KEYS for b in KEYS]
    if tier == "thorough":
        lists += [[a, b, c] for a in KEYS for b in KEYS for c in KEYS]
    lists += [[rng.choice(KEYS) for _ in range(rng.randint(3, 9))] for _ in range(40 if tier == "quick" else 400)]
    for i, msgs in enumerate(lists):
        for via in ("wrapper", "decorator"):
            for ko in wk:
                if i % 3 == 0 or tier == "thorough" or len(msgs) > 2:
                    out.append({"kind": "runkey", "keys": [ko], "via": via, "msgs": msgs, "tag": "runkey 1 %s" % via})
                for ki in wk:
                    if tier == "thorough" or (i + len(str(ko)) + len(str(ki))) % 2 == 0 or len(msgs) > 2:
                        out.append({"kind": "runkey", "keys": [ko, ki], "via": via, "msgs": msgs, "tag": "runkey 2 %s" % via})
    return out


def cases(rng, tier):
    return dc.cases(rng, tier) + runkey_cases(rng, tier)


def run_runkey(case):
    from bluesky.preprocessors import set_run_key_decorator, set_run_key_wrapper
    from bluesky.utils import Msg

    def plan():
        for i, k in enumerate(case["msgs"]):
            yield Msg("null", None, i, run=k)
    if case["via"] == "wrapper":
        g = plan()
        for k in reversed(case["keys"]):        # keys are listed outermost first
            g = set_run_key_wrapper(g, k)
    else:
        f = plan
        for k in reversed(case["keys"]):
            f = set_run_key_decorator(k)(f)
        g = f()
    got = []
    try:
        m = g.send(None)
        while True:
            got.append([m.command, list(m.args), key_code(m.run), repr(m.run)])
            m = g.send(None)
    except StopIteration:
        pass
    return {"msgs": got}


def impl_batch(cases_):
    plain = [c for c in cases_ if c.get("kind") != "runkey"]
    obs = dict(zip((dc.case_key(c) for c in plain), ec.impl_batch(plain)))
    return [run_runkey(c) if c.get("kind") == "runkey" else obs[dc.case_key(c)] for c in cases_]


def coq_term(case, obs):
    if case.get("kind") != "runkey":
        return dc.coq_term(case, obs)

    def ok(c):
        return "None" if c is None else "(Some %d)" % c
    plan = "[" + "; ".join("(%d, %s)" % (i, ok(key_code(k))) for i, k in enumerate(case["msgs"])) + "]"
    exp = "[" + "; ".join(ok(m[2]) for m in obs["msgs"]) + "]"
    ks = "[" + "; ".join(str(key_code(k)) for k in case["keys"]) + "]"
    return "check_runkeys %s %s %s" % (ks, plan, exp)


def oracle(case, obs):
    if case.get("kind") == "runkey":
        # every message arrives, in order, unchanged but for the run key: a key that was set (0 and '' included)
        # is kept, an unset one becomes the key of the innermost wrapper
        got = obs["msgs"]
        if [m[1] for m in got] != [[i] for i in range(len(case["msgs"]))] or any(m[0] != "null" for m in got):
            return "messages lost, added, reordered or altered: %r" % ([m[:2] for m in got],)
        inner = case["keys"][-1]
        for i, (k, m) in enumerate(zip(case["msgs"], got)):
            want = k if k is not None else inner
            if m[2] != key_code(want) or m[3] != repr(want):
                return "message %d had run key %r, wrappers %r: arrives with run key %s, expected %r" % (i, k, case["keys"], m[3], want)
        return None
    e = dc.driver_error(obs)
    if e:
        return e
    res = dc.mon(case, obs)
    # every message applied to the run with its key; duplicate open refused without effect;
    # each run's documents satisfy the lifecycle and numbering guarantees on their own
    return dc.docs_monitor.first(res, ("keys", "grammar", "number", "retake", "intr"))


def finding(case, obs):
    return None


def describe(case):
    return "runkey" if case.get("kind") == "runkey" else ec.describe(case)


def nontrivial(case, obs):
    if case.get("kind") == "runkey":
        return any(k is not None for k in case["msgs"]) and len(case["keys"]) == 2
    keys = {o[2]["run"] for o in obs.get("obs", []) if o[0] == "msg" and o[2]["cmd"] == "open_run"}
    return len(keys) > 1
