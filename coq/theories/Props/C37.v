(* C37 - file-name templates expand exactly like printf.
   Model: Pure/Printf.v (C99 %d spec; CPython format mini-language and str.format; the consolidator's
   replace / re.sub / int_replacer / get_datum_uri as coded, with fixes/C37-a.diff applied).
   Domain of the property: %[flags][width][.precision]d with flags any string over "-+#0 ", width a positive
   decimal, precision a decimal (possibly with leading zeros), and precision >= width when both are given.
   Recorded finding C37-e: precision 0 and index 0 (C prints no digit at all). *)
From Coq Require Import Ascii String NArith List.
From BV Require Import Base.Prelude Pure.Printf Proofs.Printf.

(* one conversion: what the consolidator's rewritten template formats is what printf prints *)
Theorem C37_conversion_like_printf :
  forall (c : conv) (n : N),
    in_domain c -> finding_C37_e c n = false ->
    py_str_format (re_sub_int (render_conv c)) n = POk (c_printf_d (cv_flags c) (cv_w c) (cv_prec c) n).
Proof. exact conversion_like_printf. Qed.
Print Assumptions C37_conversion_like_printf.

(* whole templates: literal text, any number of %s (the first receives the file name, the others nothing),
   one integer conversion; through the three replace calls, re.sub, the extension assert and str.format *)
Theorem C37_template_like_printf :
  forall (exts : list str) (pre post : list seg) (fname : str) (c : conv) (n : N),
    forallb plain_seg pre = true -> forallb plain_seg post = true -> plain fname = true ->
    in_domain c -> finding_C37_e c n = false ->
    ext_ok exts (expand_template (render (pre ++ Conv c :: post)) fname) = true ->
    get_datum_name exts (render (pre ++ Conv c :: post)) fname n
    = POk (c_expand true (pre ++ Conv c :: post) fname n).
Proof. exact template_like_printf. Qed.
Print Assumptions C37_template_like_printf.

(* finding C37-e is real in the model (and is replayed on the implementation by the check) *)
Theorem C37_e_refuted :
  exists c n, finding_C37_e c n = true /\ in_domain c /\
    py_str_format (re_sub_int (render_conv c)) n <> POk (c_printf_d (cv_flags c) (cv_w c) (cv_prec c) n).
Proof. exact e_refuted. Qed.
Print Assumptions C37_e_refuted.

Example C37_conversion_nonvacuous :
  in_domain conv_ex /\ finding_C37_e conv_ex 42%N = false /\
  render_conv conv_ex = L "%+06.010d" /\
  c_printf_d (cv_flags conv_ex) (cv_w conv_ex) (cv_prec conv_ex) 42%N = L "+0000000042".
Proof. exact conversion_nonvacuous. Qed.

Example C37_template_nonvacuous :
  let pre := [PctS; PctS; Lit (L "_")] in let post := [Lit (L ".tiff")] in
  forallb plain_seg pre = true /\ forallb plain_seg post = true /\ plain (L "img") = true /\
  render (pre ++ Conv conv_ex :: post) = L "%s%s_%+06.010d.tiff" /\
  ext_ok tiff_exts (expand_template (render (pre ++ Conv conv_ex :: post)) (L "img")) = true /\
  c_expand true (pre ++ Conv conv_ex :: post) (L "img") 42%N = L "img_+0000000042.tiff".
Proof. exact template_nonvacuous. Qed.

(* the domain restriction of the property is needed: %6.3d *)
Example C37_outside_domain_differs :
  let c := {| cv_flags := []; cv_width := Some 6%positive; cv_lz := 0; cv_prec := Some 3%N |} in
  ~ in_domain c /\
  py_str_format (re_sub_int (render_conv c)) 7%N = POk (L "000007") /\
  c_printf_d (cv_flags c) (cv_w c) (cv_prec c) 7%N = L "   007".
Proof. exact outside_domain_differs. Qed.
